// Command extract regenerates DtailModel/Generated/Facts.lean from /repo's current working
// tree: constants, tables and a few structural facts the Lean models import.  It is a
// deliberately small translator (tables and shapes, not general Go).
package main

import (
	"fmt"
	"go/ast"
	"go/constant"
	"go/parser"
	"go/printer"
	"go/token"
	"os"
	"path/filepath"
	"sort"
	"strings"
)

var repo = "/repo"
var fset = token.NewFileSet()
var files = map[string]*ast.File{}
var out strings.Builder
var problems []string

func problem(f string, a ...interface{}) { problems = append(problems, fmt.Sprintf(f, a...)) }

func file(rel string) *ast.File {
	if f, ok := files[rel]; ok {
		return f
	}
	f, err := parser.ParseFile(fset, filepath.Join(repo, rel), nil, parser.ParseComments)
	if err != nil {
		problem("cannot parse %s: %v", rel, err)
		files[rel] = nil
		return nil
	}
	files[rel] = f
	return f
}

func pos(n ast.Node) string {
	p := fset.Position(n.Pos())
	r, _ := filepath.Rel(repo, p.Filename)
	_ = p.Line // line numbers are left out so that harmless edits do not change the facts file
	return r
}

func src(n ast.Node) string {
	var sb strings.Builder
	printer.Fprint(&sb, fset, n)
	return sb.String()
}

// eval evaluates a constant expression made of literals, unary/binary operators and
// identifiers resolvable through env.
func eval(e ast.Expr, env map[string]constant.Value) constant.Value {
	switch v := e.(type) {
	case *ast.BasicLit:
		return constant.MakeFromLiteral(v.Value, v.Kind, 0)
	case *ast.ParenExpr:
		return eval(v.X, env)
	case *ast.Ident:
		if c, ok := env[v.Name]; ok {
			return c
		}
		if v.Name == "true" {
			return constant.MakeBool(true)
		}
		if v.Name == "false" {
			return constant.MakeBool(false)
		}
	case *ast.BinaryExpr:
		x, y := eval(v.X, env), eval(v.Y, env)
		if x != nil && y != nil {
			return constant.BinaryOp(x, v.Op, y)
		}
	case *ast.UnaryExpr:
		if x := eval(v.X, env); x != nil {
			return constant.UnaryOp(v.Op, x, 0)
		}
	case *ast.SelectorExpr:
		// time.Millisecond etc: durations in nanoseconds
		if id, ok := v.X.(*ast.Ident); ok && id.Name == "time" {
			switch v.Sel.Name {
			case "Millisecond":
				return constant.MakeInt64(1e6)
			case "Second":
				return constant.MakeInt64(1e9)
			case "Microsecond":
				return constant.MakeInt64(1e3)
			}
		}
	}
	return nil
}

func findConst(rel, name string) (constant.Value, ast.Node) {
	f := file(rel)
	if f == nil {
		return nil, nil
	}
	for _, d := range f.Decls {
		gd, ok := d.(*ast.GenDecl)
		if !ok || (gd.Tok != token.CONST && gd.Tok != token.VAR) {
			continue
		}
		for _, s := range gd.Specs {
			vs := s.(*ast.ValueSpec)
			for i, n := range vs.Names {
				if n.Name == name && i < len(vs.Values) {
					return eval(vs.Values[i], nil), vs
				}
			}
		}
	}
	problem("constant %s not found in %s", name, rel)
	return nil, nil
}

func findFunc(rel, recv, name string) *ast.FuncDecl {
	f := file(rel)
	if f == nil {
		return nil
	}
	for _, d := range f.Decls {
		fd, ok := d.(*ast.FuncDecl)
		if !ok || fd.Name.Name != name {
			continue
		}
		r := ""
		if fd.Recv != nil && len(fd.Recv.List) > 0 {
			t := fd.Recv.List[0].Type
			if st, ok := t.(*ast.StarExpr); ok {
				t = st.X
			}
			r = src(t)
		}
		if r == recv {
			return fd
		}
	}
	problem("func %s.%s not found in %s", recv, name, rel)
	return nil
}

// keyValue finds `key: value` inside any composite literal within n.
func keyValue(n ast.Node, key string) ast.Expr {
	var res ast.Expr
	if n == nil {
		return nil
	}
	ast.Inspect(n, func(x ast.Node) bool {
		if kv, ok := x.(*ast.KeyValueExpr); ok && res == nil {
			if id, ok := kv.Key.(*ast.Ident); ok && id.Name == key {
				res = kv.Value
			}
		}
		return res == nil
	})
	return res
}

// assigned finds the right-hand side of `name := expr` / `name = expr` within n.
func assigned(n ast.Node, name string) ast.Expr {
	var res ast.Expr
	if n == nil {
		return nil
	}
	ast.Inspect(n, func(x ast.Node) bool {
		if as, ok := x.(*ast.AssignStmt); ok && res == nil {
			for i, l := range as.Lhs {
				if src(l) == name && i < len(as.Rhs) {
					res = as.Rhs[i]
				}
			}
		}
		return res == nil
	})
	return res
}

// chanCap returns the capacity argument of a make(chan T, N) expression.
func chanCap(e ast.Expr, env map[string]constant.Value) constant.Value {
	c, ok := e.(*ast.CallExpr)
	if !ok || src(c.Fun) != "make" || len(c.Args) < 1 {
		return nil
	}
	if _, ok := c.Args[0].(*ast.ChanType); !ok {
		return nil
	}
	if len(c.Args) == 1 {
		return constant.MakeInt64(0)
	}
	return eval(c.Args[1], env)
}

func leanStr(s string) string {
	var sb strings.Builder
	sb.WriteByte('"')
	for _, r := range s {
		switch {
		case r == '"':
			sb.WriteString("\\\"")
		case r == '\\':
			sb.WriteString("\\\\")
		case r == '\n':
			sb.WriteString("\\n")
		case r == '\t':
			sb.WriteString("\\t")
		case r < 32 || r == 127:
			sb.WriteString(fmt.Sprintf("\\x%02x", r))
		default:
			sb.WriteRune(r)
		}
	}
	sb.WriteByte('"')
	return sb.String()
}

func leanBytes(b []byte) string {
	var p []string
	for _, x := range b {
		p = append(p, fmt.Sprintf("%d", x))
	}
	return "[" + strings.Join(p, ", ") + "]"
}

func emit(format string, a ...interface{}) { fmt.Fprintf(&out, format+"\n", a...) }

func defNat(name string, v constant.Value, where string) {
	if v == nil || v.Kind() != constant.Int {
		problem("fact %s: no integer constant at %s", name, where)
		return
	}
	emit("/-- %s -/\ndef %s : Nat := %s", where, name, v.ExactString())
}

func defInt(name string, v constant.Value, where string) {
	if v == nil || v.Kind() != constant.Int {
		problem("fact %s: no integer constant at %s", name, where)
		return
	}
	emit("/-- %s -/\ndef %s : Int := %s", where, name, v.ExactString())
}

func defBool(name string, v bool, where string) {
	emit("/-- %s -/\ndef %s : Bool := %v", where, name, v)
}

func defString(name string, s string, where string) {
	emit("/-- %s -/\ndef %s : String := %s", where, name, leanStr(s))
	emit("def %sBytes : List UInt8 := %s", name, leanBytes([]byte(s)))
}

func defStringList(name string, l []string, where string) {
	var p, q []string
	for _, s := range l {
		p = append(p, leanStr(s))
		q = append(q, leanBytes([]byte(s)))
	}
	emit("/-- %s -/\ndef %s : List String := [%s]", where, name, strings.Join(p, ", "))
	emit("def %sBytes : List (List UInt8) := [%s]", name, strings.Join(q, ", "))
}

func constStr(v constant.Value) (string, bool) {
	if v == nil || v.Kind() != constant.String {
		return "", false
	}
	return constant.StringVal(v), true
}

func whereOf(n ast.Node) string {
	if n == nil {
		return "?"
	}
	return pos(n)
}

// switchTable extracts `case "a", "b": ... X ...` tables: for each case the string labels and
// the source text of the first statement (normalised), in source order.
type caseRow struct {
	labels []string
	body   string
	isDef  bool
}

func switchTables(fn ast.Node) [][]caseRow {
	var res [][]caseRow
	if fn == nil {
		return nil
	}
	ast.Inspect(fn, func(x ast.Node) bool {
		sw, ok := x.(*ast.SwitchStmt)
		if !ok {
			return true
		}
		var rows []caseRow
		for _, c := range sw.Body.List {
			cc := c.(*ast.CaseClause)
			row := caseRow{isDef: cc.List == nil}
			for _, l := range cc.List {
				if s, ok := constStr(eval(l, nil)); ok {
					row.labels = append(row.labels, s)
				} else {
					row.labels = append(row.labels, "<"+src(l)+">")
				}
			}
			var parts []string
			for _, st := range cc.Body {
				parts = append(parts, strings.Join(strings.Fields(src(st)), " "))
			}
			row.body = strings.Join(parts, "; ")
			rows = append(rows, row)
		}
		res = append(res, rows)
		return true
	})
	return res
}

// callsTo lists the enclosing function names of every call whose function text is fun.
func callSites(rel string, fun string) []string {
	f := file(rel)
	var res []string
	if f == nil {
		return nil
	}
	for _, d := range f.Decls {
		fd, ok := d.(*ast.FuncDecl)
		if !ok || fd.Body == nil {
			continue
		}
		ast.Inspect(fd.Body, func(x ast.Node) bool {
			if c, ok := x.(*ast.CallExpr); ok && src(c.Fun) == fun {
				res = append(res, fd.Name.Name)
			}
			return true
		})
	}
	sort.Strings(res)
	return res
}

func main() {
	if len(os.Args) > 1 {
		repo = os.Args[1]
	}
	if len(os.Args) > 2 && os.Args[2] == "code" {
		translateMain()
		return
	}
	emit("-- GENERATED by /verif/extract from %s — do not edit; regenerated on every run.", "the /repo working tree")
	emit("namespace Dtail.Facts\n")
	facts()
	emit("\nend Dtail.Facts")
	if len(problems) > 0 {
		for _, p := range problems {
			fmt.Fprintln(os.Stderr, "FACT-PROBLEM:", p)
		}
		os.Exit(3)
	}
	fmt.Print(out.String())
}
