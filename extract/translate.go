// translate.go — tie G: a statement-by-statement translator from a small subset of Go to
// pure Lean 4.  `extract <repo> code` prints DtailModel/Generated/Code.lean.
//
// Supported: struct types with int/uint64/float64/string/bool/array/map/slice fields, iota
// constants, functions and pointer-receiver methods whose bodies consist of := / = / op= /
// ++ / -- on locals, receiver fields, array elements and map entries; if/else with optional
// init (including the comma-ok map read); switch with case lists, default and fallthrough;
// `for _, x := range <slice>` with return / continue / break; return (also bare, with named
// results); calls to other translated methods on the receiver; a fixed table of external calls
// (strconv.ParseFloat, fmt.Errorf, logging = skipped).  Anything else is a translation error: the
// tie is then broken and reported, never papered over.
//
// Scheme: continuation passing with duplicated continuations — every Go control path becomes one
// straight Lean path of `let`s ending in the return tuple; mutation is `let`-shadowing; a
// pointer receiver is returned as the first component of the result.
package main

import (
	"go/constant"
	"regexp"
	"fmt"
	"go/ast"
	"go/parser"
	"go/token"
	"os"
	"path/filepath"
	"sort"
	"strings"
)

type trUnit struct {
	matchExt string             // which external function X.Match(a) on a non-translated receiver stands for
	ns      string              // Lean namespace below Dtail.Gen
	pkgDir  string              // package directory relative to the repo
	structs map[string][]string // struct name -> fields to include (nil = all)
	enums   []string            // named integer types whose constants are emitted
	funcs   []string            // "recv.name" or "name"
	vars    []string            // package-level variables with a constant initialiser, emitted as definitions
	consts  []string            // package-level string constants, emitted as definitions
	optPtr  []string            // struct types whose pointers are optional values (`*T` = Option T, `&T{…}` = some, nil = none)
	appendCalls map[string]int  // calls `f(sb, text, …)` that append to their first argument (a *strings.Builder): callee -> index of
	                            // the text argument; translated as `sb := ext.paint sb text` (the other arguments are dropped)
	record  map[string]trRecord // calls on the receiver that are effects worth keeping: `h.f(a, b)` appends (a, b) to a list
	                            // field of the receiver's struct (arguments `drop` are left out)
	skip    []string            // calls (source text of the callee) that are effects outside the translated state: the
	                            // statement is dropped (its arguments are still guarded)
	extern  map[string]trExtern // functions of other translated units: source text of the callee -> its translation
	panics  bool                // panic-aware translation: index and slice expressions are guarded, functions that can
	                            // panic return `Outcome`
	opaque  map[string]string   // method name -> field of Ext it stands for (a method the subset cannot express), applied to the method's name
	subst   map[string]string   // source text of an expression over parameters and package variables -> the Lean term it stands for
	                            // (accessors of an interface value, configuration read from another package)
	callExt map[string]string   // source text of a callee outside the translated code -> field of Ext that stands for it
	effects map[string]trEffect // source text of a callee that acts on the world (file operations) -> what is recorded; the operations
	                            // that succeeded are kept, in order, in the list field `effectField` the translator adds to the receiver's
	                            // struct `effectOwner`; whether an operation fails is asked of `ext.ioErr` (the history so far, the operation)
	effectField string
	effectOwner string
	effectType  string
	sends    map[string]string  // source text of a channel -> list field added to the receiver's struct that keeps what was sent on it
	sendOwner string
	bufVars  []string           // variables that are byte buffers: `v.WriteByte(b)` / `v.WriteString(s)` append to them
	readers  []string           // variables that are byte readers: `b, err := v.ReadByte()` takes the next byte of what is left
	sendTypes map[string]string // list field of `sends` -> Lean type of what is sent (default GoString)
	chanTypes map[string]string // "recv" / "send" / "both" -> Lean type of a channel of that direction (default Unit)
	queues   []string           // source texts of buffered channels the code uses as bounded queues (`GoQueue`)
	constPtr []string           // pointer parameters that are only read: passed by value
	scanners []string           // variables that are `*bufio.Scanner`s: the list of the lines still to come (`for v.Scan() { … v.Text() … }`)
	joinIfs  bool               // an `if` without `else` whose body only assigns is translated as `let vars := if c then … else vars`
	                            // (the statements behind it stand once, not once per branch)
}

type trEffect struct {
	op  string   // Lean term of the operation; %0, %1, … stand for the translated arguments, %r for the variable a method is called on
	res []string // Lean terms of the results that precede the error (same placeholders)
}

var trUnits = []trUnit{
	{ns: "Fs", pkgDir: "internal/io/fs", matchExt: "reMatch",
		structs: map[string][]string{"stats": nil, "readFile": {"stats", "globID", "canSkipLines"}},
		chanTypes: map[string]string{"recv": "(List GoString)", "send": "Unit"},
		sends:     map[string]string{"lines": "lines"}, sendOwner: "readFile", sendTypes: map[string]string{"lines": "GoLine"},
		subst:     map[string]string{"len(lines)": "ext.linesLen", "cap(lines)": "ext.linesCap"},
		funcs: []string{"stats.totalLineCount", "stats.transmittedPerc", "stats.updatePosition", "stats.updateLineMatched", "stats.updateLineTransmitted",
			"stats.updateLineNotMatched", "stats.updateLineNotTransmitted", "readFile.transmittable", "readFile.filterWithoutLContext"}},
	{ns: "Regex", pkgDir: "internal/regex", matchExt: "reMatchRaw",
		structs: map[string][]string{"Regex": nil},
		enums:   []string{"Flag"},
		funcs:   []string{"NewFlag", "Flag.String", "NewNoop", "new", "New", "Regex.Match", "Regex.Serialize", "Deserialize"}},
	{ns: "Handlers", pkgDir: "internal/server/handlers",
		structs: map[string][]string{"readCommand": {}},
		funcs:   []string{"readCommand.makeGlobID"}},
	{ns: "Mapr", pkgDir: "internal/mapr",
		structs: map[string][]string{"AggregateSet": nil, "selectCondition": {"Field", "FieldStorage", "Operation"}, "Query": {"Select"}},
		enums:   []string{"AggregateOperation"},
		funcs: []string{"AggregateSet.addFloat", "AggregateSet.addFloatMin", "AggregateSet.addFloatMax", "AggregateSet.setString",
			"AggregateSet.setFloat", "AggregateSet.Aggregate", "AggregateSet.Merge"}},
	{ns: "Discovery", pkgDir: "internal/discovery", matchExt: "reMatchRaw",
		structs: map[string][]string{"Discovery": {"server", "regex", "order"}},
		enums:   []string{"ServerOrder"},
		opaque:  map[string]string{"serverListFromModule": "strList"},
		funcs:   []string{"Discovery.filterList", "Discovery.dedupList", "Discovery.shuffleList", "Discovery.ServerList"}},
	{ns: "User", pkgDir: "internal/user/server",
		structs: map[string][]string{"User": {"Name", "permissions"}},
		vars:    []string{"permissionTypes"},
		subst:   map[string]string{"info.Mode().IsRegular()": "info.regular"},
		callExt: map[string]string{"filepath.EvalSymlinks": "evalSymlinks", "filepath.Abs": "absPath", "permissions.ToRead": "osToRead",
			"os.Lstat": "osLstat"},
		funcs:   []string{"splitPermission", "User.iteratePaths", "User.hasFilePermission", "User.HasFilePermission"}},
	{ns: "Config", pkgDir: "internal/config", panics: true,
		structs: map[string][]string{},
		funcs:   []string{"setOption", "DeserializeOptions"}},
	{ns: "ClientArgs", pkgDir: "internal/config", joinIfs: true,
		structs: map[string][]string{"Args": {"LContext", "Quiet", "Plain", "Serverless"}},
		bufVars: []string{"sb"},
		funcs:   []string{"Args.SerializeOptions"}},
	{ns: "Decode", pkgDir: "internal/server/handlers", panics: true,
		structs: map[string][]string{"baseHandler": {"writeBuf"}},
		bufVars: []string{"h.writeBuf"},
		skip:    []string{"h.send", "h.sendln", "context.WithCancel"},
		record: map[string]trRecord{
			"h.handleCommandCb": {field: "started", owner: "baseHandler", types: []string{"GoLContext", "Int", "(List GoString)", "GoString"}, drop: []int{0}},
			"h.handleOptions":   {field: "options", owner: "baseHandler", types: []string{"(GoMap GoString GoString)"}}},
		extern:  map[string]trExtern{"config.DeserializeOptions": {lean: "Dtail.Gen.Config.DeserializeOptions", nResults: 3, canPanic: true}},
		funcs:   []string{"baseHandler.handleProtocolVersion", "baseHandler.handleBase64", "baseHandler.handleCommand", "baseHandler.Write"}},
	{ns: "Auth", pkgDir: "internal/server", panics: true,
		structs: map[string][]string{"Server": {}},
		subst: map[string]string{"c.User()": "c.user", "c.RemoteAddr().String()": "c.remoteAddr",
			"config.Server.Schedule": "ext.schedule", "config.Server.Continuous": "ext.continuous"},
		callExt: map[string]string{"user.New": "userNew", "net.LookupIP": "lookupIP"},
		funcs:   []string{"Server.backgroundCanSSH", "Server.Callback"}},
	{ns: "Conn", pkgDir: "internal/server",
		structs: map[string][]string{"stats": {"currentConnections", "lifetimeConnections"}},
		skip:    []string{"s.mutex.Lock", "s.mutex.Unlock", "s.logServerStats"},
		subst:   map[string]string{"config.Server.MaxConnections": "ext.maxConnections"},
		funcs:   []string{"stats.incrementConnections", "stats.decrementConnections", "stats.serverLimitExceeded"}},
	{ns: "Outfile", pkgDir: "internal/mapr", panics: true,
		structs: map[string][]string{"GroupSet": {}, "Query": {"RawQuery", "Select", "Limit", "Outfile"}, "selectCondition": {"FieldStorage"},
			"Outfile": nil, "result": {"values"}},
		optPtr: []string{"Outfile"},
		skip:   []string{"fd.Close"},
		subst: map[string]string{"os.O_CREATE|os.O_WRONLY|os.O_TRUNC": "GoOpenMode.trunc", "os.O_CREATE|os.O_WRONLY|os.O_APPEND": "GoOpenMode.append",
			"g.result(query, false)": "((ext.rowValues).map (fun v => ({ values := v } : result)), ([] : List Int), (none : GoErr))",
			"info.Size()": "info.size"},
		callExt: map[string]string{"os.Stat": "osStat"},
		effects: map[string]trEffect{
			"os.OpenFile":    {op: "GoFOp.open %0 %1", res: []string{"%0"}}, // the descriptor is the path it was opened on
			"fd.WriteString": {op: "GoFOp.write %r %0", res: []string{"(GoLen.len %0)"}},
			"os.Rename":      {op: "GoFOp.rename %0 %1"},
			"os.Remove":      {op: "GoFOp.remove %0"}},
		effectField: "ops", effectOwner: "GroupSet", effectType: "GoFOp",
		funcs: []string{"Query.HasOutfile", "GroupSet.writeQueryFile", "GroupSet.getOutfileFD", "GroupSet.resultWriteUnformattedHeader",
			"GroupSet.resultWriteUnformatted", "GroupSet.WriteResult"}},
	{ns: "Reader", pkgDir: "internal/io/fs", panics: true,
		structs:  map[string][]string{"readFile": {"seekEOF", "warnedAboutLongLine"}},
		enums:    []string{"readStatus"},
		skip:     []string{"time.Sleep", "f.serverMessages"},
		subst:    map[string]string{"io.EOF": "goEOF", "config.Server.MaxLineLength": "ext.maxLineLength"},
		sends:    map[string]string{"rawLines": "rawLines"}, sendOwner: "readFile",
		bufVars:  []string{"message"},
		readers:  []string{"reader"},
		funcs:    []string{"readFile.handleReadError", "readFile.handleReadByte", "readFile.read"}},
	{ns: "Grep", pkgDir: "internal/io/fs", panics: true, matchExt: "reMatch",
		structs:   map[string][]string{"readFile": {"globID"}, "ltxState": nil},
		enums:     []string{"readStatus"},
		skip:      []string{"f.updatePosition", "f.updateLineNotMatched", "f.updateLineMatched"},
		callExt:   map[string]string{"f.totalLineCount": "lineCount"},
		sends:     map[string]string{"lines": "lines"}, sendOwner: "readFile", sendTypes: map[string]string{"lines": "GoLine"},
		chanTypes: map[string]string{"recv": "(List GoString)", "both": "GoQueue", "send": "Unit"},
		queues:    []string{"ls.beforeBuf"},
		constPtr:  []string{"ltx", "re"},
		funcs: []string{"readFile.lContextProcessMaxCount", "readFile.lContextProcessBefore", "readFile.lContextNotMatched",
			"readFile.filterLineWithLContext", "readFile.filterWithLContext"}},
	{ns: "Client", pkgDir: "internal/clients/handlers", panics: true,
		structs: map[string][]string{"baseHandler": {"receiveBuf"}},
		record: map[string]trRecord{
			"dlog.Client.Raw": {field: "printed", owner: "baseHandler", types: []string{"GoString"}},
			"h.SendMessage":   {field: "sent", owner: "baseHandler", types: []string{"GoString"}},
			"h.Shutdown":      {field: "shutdowns", owner: "baseHandler", types: []string{"Unit"}}},
		bufVars: []string{"h.receiveBuf"},
		funcs:   []string{"baseHandler.handleHiddenMessage", "baseHandler.handleMessage", "baseHandler.Write"}},
	{ns: "KnownHosts", pkgDir: "internal/ssh/client", panics: true,
		structs: map[string][]string{"KnownHostsCallback": {"knownHostsPath"}, "unknownHost": {"server", "remote", "hostLine", "ipLine"}},
		skip:    []string{"newFd.Close", "oldFd.Close", "unknown.responseCh"},
		subst: map[string]string{"os.O_CREATE|os.O_TRUNC|os.O_WRONLY": "GoOpenMode.trunc", "os.O_RDONLY|os.O_CREATE": "GoOpenMode.rdcreate",
			"unknown.remote.String()": "unknown.remote"},
		callExt: map[string]string{"knownhosts.Normalize": "normalizeAddr", "bufio.NewScanner": "scanLines"},
		effects: map[string]trEffect{
			"os.OpenFile":       {op: "GoFOp.open %0 %1", res: []string{"%0"}},
			"os.Open":           {op: "GoFOp.open %0 GoOpenMode.rdonly", res: []string{"%0"}},
			"newFd.WriteString": {op: "GoFOp.write %r %0", res: []string{"(GoLen.len %0)"}},
			"os.Rename":         {op: "GoFOp.rename %0 %1"}},
		effectField: "ops", effectOwner: "KnownHostsCallback", effectType: "GoFOp",
		scanners: []string{"scanner"},
		funcs:    []string{"KnownHostsCallback.trustHosts"}},
	{ns: "Keys", pkgDir: "internal/ssh/server", panics: true,
		structs: map[string][]string{},
		subst: map[string]string{"authorizedPubKey.Marshal()": "authorizedPubKey", "offeredPubKey.Marshal()": "offeredPubKey",
			`&gossh.Permissions{ Extensions: map[string]string{"pubkey-fp": gossh.FingerprintSHA256(offeredPubKey)}, }`: "(GoZero.zero : GoPerms)"},
		callExt: map[string]string{"gossh.ParseAuthorizedKey": "parseAuthorizedKey"},
		funcs:   []string{"verifyAuthorizedKeys"}},
	{ns: "Brush", pkgDir: "internal/color/brush", panics: true,
		structs:     map[string][]string{},
		appendCalls: map[string]int{"color.PaintWithAttr": 1},
		funcs:       []string{"paintDefault", "paintSeverity", "paintRemote", "paintClient", "paintServer", "Colorfy"}},
	{ns: "MaprQuery", pkgDir: "internal/mapr", panics: true,
		structs: map[string][]string{"token": nil, "selectCondition": nil, "whereCondition": nil, "setCondition": nil, "Outfile": nil, "Query": nil},
		enums:   []string{"AggregateOperation", "QueryOperation", "fieldType"},
		vars:    []string{"keywords"},
		consts:  []string{"invalidQuery", "unexpectedEnd"},
		optPtr:  []string{"Outfile", "Query"},
		funcs: []string{"token.isKeyword", "tokenize", "tokensConsume", "tokensConsumeStr", "tokensConsumeOptional",
			"makeSelectConditions", "whereCondition.fill", "makeWhereConditions", "initSetConditions", "makeSetConditions",
			"Query.parseTokens", "Query.parse", "NewQuery"}},
}

type trRecord struct {
	field string   // name of the list field added to the receiver's struct
	owner string   // the struct
	types []string // Lean types of the recorded arguments
	drop  []int    // argument positions that are not recorded (contexts, …)
}

type trExtern struct {
	lean     string // fully qualified Lean name
	nResults int
	canPanic bool
}

type trErr struct{ msg string }

func trFail(n ast.Node, f string, a ...interface{}) {
	where := ""
	if n != nil {
		p := fset.Position(n.Pos())
		r, _ := filepath.Rel(repo, p.Filename)
		where = fmt.Sprintf("%s:%d: ", r, p.Line)
	}
	panic(trErr{where + fmt.Sprintf(f, a...)})
}

// ---------------------------------------------------------------- package view

type trPkg struct {
	unit    trUnit
	files   []*ast.File
	funcs   map[string]*ast.FuncDecl // "recv.name" / "name"
	structs map[string]*ast.StructType
	named   map[string]ast.Expr // other named types -> underlying
	sigs    map[string]*trSig
	canPanic map[string]bool        // function key -> its translation returns Outcome (panic-aware units)
	lits     map[string]*ast.FuncLit // lifted closures: "outer.name" -> literal
	litOrder []string
	strLits  []string // string literals that became definitions (panic-aware units)
	freeNames map[string]bool // identifiers used that are no local variable: each must be a definition of the unit
}

type trSig struct {
	recv     string // receiver type name ("" = function)
	ptrRecv  bool
	nResults int
	ptrIdx   int    // position of that parameter
	ptrType  string // its Lean type
	ptrParam string // a plain function one of whose parameters is a pointer to a translated struct: the parameter's name
	// (the function returns the updated value in front of its results, like a pointer receiver)
}

func loadPkg(u trUnit) *trPkg {
	p := &trPkg{unit: u, funcs: map[string]*ast.FuncDecl{}, structs: map[string]*ast.StructType{}, named: map[string]ast.Expr{}, sigs: map[string]*trSig{},
		canPanic: map[string]bool{}, lits: map[string]*ast.FuncLit{}}
	ents, err := os.ReadDir(filepath.Join(repo, u.pkgDir))
	if err != nil {
		trFail(nil, "cannot read %s: %v", u.pkgDir, err)
	}
	var names []string
	for _, e := range ents {
		if strings.HasSuffix(e.Name(), ".go") && !strings.HasSuffix(e.Name(), "_test.go") && !strings.HasPrefix(e.Name(), "zz_verif") {
			names = append(names, e.Name())
		}
	}
	sort.Strings(names)
	for _, n := range names {
		f, err := parser.ParseFile(fset, filepath.Join(repo, u.pkgDir, n), nil, 0)
		if err != nil {
			trFail(nil, "cannot parse %s/%s: %v", u.pkgDir, n, err)
		}
		p.files = append(p.files, f)
		for _, d := range f.Decls {
			switch d := d.(type) {
			case *ast.FuncDecl:
				key := d.Name.Name
				if d.Recv != nil && len(d.Recv.List) == 1 {
					key = recvTypeName(d.Recv.List[0].Type) + "." + key
				}
				p.funcs[key] = d
			case *ast.GenDecl:
				if d.Tok == token.TYPE {
					for _, s := range d.Specs {
						ts := s.(*ast.TypeSpec)
						if st, ok := ts.Type.(*ast.StructType); ok {
							p.structs[ts.Name.Name] = st
						} else {
							p.named[ts.Name.Name] = ts.Type
						}
					}
				}
			}
		}
	}
	return p
}

func recvTypeName(e ast.Expr) string {
	switch t := e.(type) {
	case *ast.StarExpr:
		return recvTypeName(t.X)
	case *ast.Ident:
		return t.Name
	case *ast.SelectorExpr:
		return t.Sel.Name // an embedded field of a type of another package is named after the type
	}
	return "?"
}

// ---------------------------------------------------------------- types

func (p *trPkg) leanType(e ast.Expr) string {
	switch t := e.(type) {
	case *ast.Ident:
		switch t.Name {
		case "int", "int64", "uint64", "uint", "int32", "uint32":
			return "Int"
		case "uint8", "byte":
			return "UInt8"
		case "float64", "float32":
			return "GoFloat"
		case "string":
			return "GoString"
		case "bool":
			return "Bool"
		case "error":
			return "GoErr"
		}
		if _, ok := p.unit.structs[t.Name]; ok {
			return t.Name
		}
		for _, en := range p.unit.enums {
			if en == t.Name {
				return t.Name
			}
		}
		trFail(e, "type %s is not in the translated subset", t.Name)
	case *ast.StarExpr:
		if id, ok := t.X.(*ast.Ident); ok && contains(p.unit.optPtr, id.Name) {
			return "(Option " + id.Name + ")"
		}
		return p.leanType(t.X)
	case *ast.SelectorExpr:
		switch src(t) {
		case "time.Duration":
			return "Int"
		case "lcontext.LContext":
			return "GoLContext"
		case "funcs.FunctionStack":
			return "(List GoString)"
		case "bytes.Buffer", "strings.Builder":
			return "GoString"
		case "regex.Regex":
			return "GoRegex"
		case "line.Line":
			return "GoLine"
		case "regexp.Regexp":
			return "GoRe"
		case "net.Addr":
			return "GoString" // an address is its `String()` form
		case "os.File":
			return "GoString" // an open file is the path it was opened on
		case "bufio.Reader":
			return "GoString" // a reader is the bytes it has not delivered yet
		case "context.Context":
			return "Unit"
		case "gossh.ConnMetadata":
			return "GoConnMeta"
		case "gossh.Permissions":
			return "GoPerms"
		case "gossh.PublicKey":
			return "GoString" // a public key is its marshalled form
		case "user.User":
			return "GoUser"
		}
	case *ast.ArrayType:
		if _, isEllipsis := t.Len.(*ast.Ellipsis); isEllipsis {
			return "(List " + p.leanType(t.Elt) + ")"
		}
		if id, ok := t.Elt.(*ast.Ident); ok && t.Len == nil && (id.Name == "byte" || id.Name == "uint8") {
			return "GoString"
		}
		return "(List " + p.leanType(t.Elt) + ")"
	case *ast.MapType:
		return "(GoMap " + p.leanType(t.Key) + " " + p.leanType(t.Value) + ")"
	case *ast.ChanType:
		dir := "both"
		if t.Dir == ast.RECV {
			dir = "recv"
		} else if t.Dir == ast.SEND {
			dir = "send"
		}
		if lt, ok := p.unit.chanTypes[dir]; ok {
			return lt
		}
		return "Unit" // what is sent on a channel is kept in the receiver (unit option `sends`)
	case *ast.StructType:
		if t.Fields == nil || len(t.Fields.List) == 0 {
			return "Unit"
		}
	}
	trFail(e, "type expression %s is not in the translated subset", src(e))
	return ""
}

// zero value of a type as a Lean term
func (p *trPkg) leanZero(e ast.Expr) string {
	if at, ok := e.(*ast.ArrayType); ok && at.Len != nil {
		n := eval(at.Len, nil)
		if n == nil {
			trFail(e, "array length is not a literal")
		}
		return fmt.Sprintf("(List.replicate %s %s)", n.ExactString(), p.leanZero(at.Elt))
	}
	if id, ok := e.(*ast.Ident); ok {
		if _, ok := p.unit.structs[id.Name]; ok {
			return "({} : " + id.Name + ")"
		}
	}
	if src(e) == "lcontext.LContext" {
		return "({} : GoLContext)"
	}
	if st, ok := e.(*ast.StarExpr); ok {
		if id, ok := st.X.(*ast.Ident); ok && contains(p.unit.optPtr, id.Name) {
			return "(none : Option " + id.Name + ")"
		}
		return p.leanZero(st.X)
	}
	return "(GoZero.zero : " + p.leanType(e) + ")"
}

func (p *trPkg) emitStruct(sb *strings.Builder, name string) {
	st, ok := p.structs[name]
	if !ok {
		trFail(nil, "struct %s not found in %s", name, p.unit.pkgDir)
	}
	want := p.unit.structs[name]
	fmt.Fprintf(sb, "structure %s where\n", name)
	n := 0
	for _, f := range st.Fields.List {
		names := f.Names
		if len(names) == 0 { // embedded struct: the field is named after its type
			names = []*ast.Ident{ast.NewIdent(recvTypeName(f.Type))}
		}
		for _, id := range names {
			if want != nil && !contains(want, id.Name) {
				continue
			}
			fmt.Fprintf(sb, "  %s : %s := %s\n", id.Name, p.leanType(f.Type), p.leanZero(f.Type))
			n++
		}
	}
	if want != nil && n != len(want) {
		trFail(st, "struct %s lacks one of the fields %v", name, want)
	}
	var recNames []string
	for callee := range p.unit.record {
		recNames = append(recNames, callee)
	}
	sort.Strings(recNames)
	for _, callee := range recNames {
		r := p.unit.record[callee]
		if r.owner == name {
			fmt.Fprintf(sb, "  %s : List (%s) := []\n", r.field, strings.Join(r.types, " × "))
		}
	}
	if p.unit.effectOwner == name {
		fmt.Fprintf(sb, "  %s : List %s := []\n", p.unit.effectField, p.unit.effectType)
	}
	if p.unit.sendOwner == name {
		var chans []string
		for _, fld := range p.unit.sends {
			chans = append(chans, fld)
		}
		sort.Strings(chans)
		for _, fld := range chans {
			ty := "GoString"
			if t, ok := p.unit.sendTypes[fld]; ok {
				ty = t
			}
			fmt.Fprintf(sb, "  %s : List %s := []\n", fld, ty)
		}
	}
	fmt.Fprintf(sb, "  deriving Repr, DecidableEq\n\n")
	fmt.Fprintf(sb, "instance : GoZero %s := ⟨{}⟩\n\n", name)
}

func contains(l []string, s string) bool {
	for _, x := range l {
		if x == s {
			return true
		}
	}
	return false
}

func (p *trPkg) emitEnum(sb *strings.Builder, name string) {
	fmt.Fprintf(sb, "abbrev %s := Int\n", name)
	found := 0
	for _, f := range p.files {
		for _, d := range f.Decls {
			gd, ok := d.(*ast.GenDecl)
			if !ok || gd.Tok != token.CONST {
				continue
			}
			var lastType ast.Expr
			var lastVals []ast.Expr
			for i, s := range gd.Specs {
				vs := s.(*ast.ValueSpec)
				if vs.Type != nil || len(vs.Values) > 0 {
					lastType, lastVals = vs.Type, vs.Values
				}
				id, ok := lastType.(*ast.Ident)
				if !ok || id.Name != name {
					continue
				}
				for j, n := range vs.Names {
					if j >= len(lastVals) {
						trFail(vs, "constant %s has no value expression", n.Name)
					}
					v := evalIota(lastVals[j], i)
					if v == "" {
						trFail(vs, "constant %s: value is not a literal/iota expression", n.Name)
					}
					fmt.Fprintf(sb, "def %s : %s := %s\n", n.Name, name, v)
					found++
				}
			}
		}
	}
	if found == 0 {
		trFail(nil, "no constants of type %s found", name)
	}
	sb.WriteString("\n")
}

func evalIota(e ast.Expr, iota int) string {
	switch v := e.(type) {
	case *ast.Ident:
		if v.Name == "iota" {
			return fmt.Sprint(iota)
		}
	case *ast.BasicLit:
		if v.Kind == token.INT {
			return v.Value
		}
	case *ast.ParenExpr:
		return evalIota(v.X, iota)
	case *ast.BinaryExpr:
		x, y := evalIota(v.X, iota), evalIota(v.Y, iota)
		if x != "" && y != "" && (v.Op == token.ADD || v.Op == token.MUL || v.Op == token.SUB) {
			return "(" + x + " " + v.Op.String() + " " + y + ")"
		}
	}
	return ""
}

// ---------------------------------------------------------------- function translation

type trFn struct {
	p       *trPkg
	decl    *ast.FuncDecl
	recv    string // Go receiver variable name ("" if none)
	sig     *trSig
	named   []string   // named results (Go names)
	scopes  []map[string]string // Go name -> Lean name
	counter int
	loop    *trLoop
	vtypes  map[string]string // Go variable -> struct type name (receiver and parameters)
	regexVars map[string]bool // local variables assigned from regexp.Compile
	panicky   bool              // the function returns Outcome
	key       string            // function key
	localFns  map[string]string // closure variable -> lifted function key
	loops     int               // loop nesting depth (only 0 or 1 is in the subset)
	inGuardedSwitch bool
	resTypes  []ast.Expr        // declared result types
	mapVars   map[string]bool   // parameters and locals of map type
	chanVars  map[string]bool   // parameters of channel type (ranging over one yields its elements, not indices)
	scanCur   map[string]string // scanner variable -> the Lean variable holding the line of the current round
	brkStack  []byte            // what a `break` would leave, innermost last: 'l' a loop, 's' a switch or select clause
	okValue   string            // the variable a matched call result is bound to (callStmt -> callBind)
}

type trLoop struct {
	state []string // Go names of outer variables the body assigns
}

func (f *trFn) push() { f.scopes = append(f.scopes, map[string]string{}) }
func (f *trFn) pop() {
	if n := len(f.scopes); n > 0 { // (empty only while a failure unwinds through deferred pops)
		f.scopes = f.scopes[:n-1]
	}
}

func (f *trFn) lookup(name string) (string, bool) {
	for i := len(f.scopes) - 1; i >= 0; i-- {
		if l, ok := f.scopes[i][name]; ok {
			return l, true
		}
	}
	return "", false
}

// declare a new Go variable in the innermost scope; returns its Lean name
func (f *trFn) declare(name string) string {
	if name == "_" {
		f.counter++
		return fmt.Sprintf("_u%d", f.counter)
	}
	if l, ok := f.scopes[len(f.scopes)-1][name]; ok {
		return l // redeclaration in the same scope (a, err := …) is an assignment
	}
	lean := name
	if _, shadows := f.lookup(name); shadows {
		f.counter++
		lean = fmt.Sprintf("%s_%d", name, f.counter)
	}
	f.scopes[len(f.scopes)-1][name] = lean
	return leanIdent(lean)
}

var leanKeywords = map[string]bool{"end": true, "from": true, "at": true, "by": true, "do": true, "then": true, "fun": true, "have": true, "show": true, "with": true, "where": true, "open": true, "set": true, "at_": true, "in": true, "match": true, "if": true, "else": true, "let": true, "def": true, "instance": true, "class": true, "structure": true, "type": true, "Type": true, "prefix": true, "local": true, "theorem": true, "lemma": true, "example": true, "namespace": true, "section": true, "variable": true, "import": true, "mutual": true, "deriving": true, "universe": true, "macro": true, "syntax": true, "infix": true, "infixl": true, "infixr": true, "postfix": true, "notation": true, "attribute": true, "private": true, "protected": true, "partial": true, "unsafe": true, "return": true, "for": true, "unless": true, "try": true, "catch": true, "finally": true, "mut": true, "using": true, "calc": true, "suffices": true, "obtain": true, "extends": true, "abbrev": true, "inductive": true, "noncomputable": true, "axiom": true, "opaque": true, "export": true, "nomatch": true, "nofun": true, "termination_by": true, "decreasing_by": true, "omit": true, "include": true, "initialize": true, "elab": true, "Prop": true, "Sort": true, "forall": true, "exists": true, "this": true}

func leanIdent(s string) string {
	if leanKeywords[s] {
		return s + "'"
	}
	return s
}

func (f *trFn) v(name string) string {
	if l, ok := f.lookup(name); ok {
		return leanIdent(l)
	}
	if f.p.freeNames == nil {
		f.p.freeNames = map[string]bool{}
	}
	f.p.freeNames[name] = true // must be a package-level name the unit emits (an enum constant, a listed constant or variable)
	return leanIdent(name)
}

type cont func(ind string) string

var structLitRe = regexp.MustCompile(`^\(\{ .* \} : (?:[\w.]+\.)?(\w+)\)$`)

func (f *trFn) retTuple(vals []string) string {
	var parts []string
	if f.sig.ptrRecv {
		parts = append(parts, f.v(f.recv))
	}
	if f.sig.ptrParam != "" {
		parts = append(parts, f.v(f.sig.ptrParam))
	}
	parts = append(parts, vals...)
	if len(parts) == 0 {
		return "()"
	}
	if len(parts) == 1 {
		return parts[0]
	}
	return "(" + strings.Join(parts, ", ") + ")"
}

func (f *trFn) loopState() string {
	var parts []string
	for _, n := range f.loop.state {
		parts = append(parts, f.v(n))
	}
	if len(parts) == 0 {
		return "()"
	}
	if len(parts) == 1 {
		return parts[0]
	}
	return "(" + strings.Join(parts, ", ") + ")"
}

func (f *trFn) emitReturn(ind string, vals []string) string {
	t := f.retTuple(vals)
	if f.panicky {
		t = "(Outcome.ok " + t + ")"
	}
	return ind + f.wrapRet(t) + "\n"
}

// wrapRet: a value the function returns, seen from inside the loops the statement stands in
func (f *trFn) wrapRet(t string) string {
	for i := 0; i < f.loops; i++ {
		t = "(LoopStep.ret " + t + ")"
	}
	if f.loops > 0 {
		t = strings.TrimSuffix(strings.TrimPrefix(t, "("), ")")
	}
	return t
}

// panicLine: what the function does where the Go runtime would panic
func (f *trFn) panicLine(ind string, what string) string {
	if !f.panicky {
		trFail(nil, "%s: %s can panic but is translated as a total function", f.key, what)
	}
	return ind + f.wrapRet(fmt.Sprintf("(Outcome.panic %q)", what)) + "\n"
}

// stmts compiles a statement list followed by continuation k
func (f *trFn) stmts(ind string, l []ast.Stmt, k cont) string {
	if len(l) == 0 {
		return k(ind)
	}
	s, rest := l[0], l[1:]
	next := func(ind string) string { return f.stmts(ind, rest, k) }
	// a closure definition was lifted to a function of its own
	if as, ok := s.(*ast.AssignStmt); ok && len(as.Rhs) == 1 {
		if _, isLit := as.Rhs[0].(*ast.FuncLit); isLit {
			if id, ok := as.Lhs[0].(*ast.Ident); ok && f.localFns[id.Name] != "" {
				return next(ind)
			}
			trFail(s, "function literal outside the top level of a translated function")
		}
	}
	return f.guarded(ind, f.stmtGuards(s), func(ind string) string { return f.stmt1(ind, s, next) })
}

// guarded: `if g1 && g2 … then <inner> else <panic>` (just <inner> when there is nothing to guard)
func (f *trFn) guarded(ind string, gs []string, inner cont) string {
	if len(gs) == 0 {
		return inner(ind)
	}
	out := fmt.Sprintf("%sif %s then\n", ind, strings.Join(gs, " && "))
	out += inner(ind + "  ")
	out += ind + "else\n" + f.panicLine(ind+"  ", "index out of range")
	return out
}

// guards: the conditions under which evaluating e does not panic (index and slice expressions), respecting the
// short-circuit of && and ||
func (f *trFn) guards(e ast.Expr) []string {
	if !f.p.unit.panics || e == nil {
		return nil
	}
	switch v := e.(type) {
	case *ast.ParenExpr:
		return f.guards(v.X)
	case *ast.UnaryExpr:
		return f.guards(v.X)
	case *ast.StarExpr:
		return f.guards(v.X)
	case *ast.SelectorExpr:
		if f.p.optDeref(v.X) {
			return append(f.guards(v.X), "(Option.isSome "+f.expr(v.X)+")") // nil pointer dereference
		}
		return f.guards(v.X)
	case *ast.KeyValueExpr:
		return f.guards(v.Value)
	case *ast.CompositeLit:
		var out []string
		for _, el := range v.Elts {
			out = append(out, f.guards(el)...)
		}
		return out
	case *ast.BinaryExpr:
		out := f.guards(v.X)
		for _, g := range f.guards(v.Y) {
			switch v.Op {
			case token.LAND:
				g = fmt.Sprintf("(!%s || %s)", f.expr(v.X), g)
			case token.LOR:
				g = fmt.Sprintf("(%s || %s)", f.expr(v.X), g)
			}
			out = append(out, g)
		}
		return out
	case *ast.IndexExpr:
		out := append(f.guards(v.X), f.guards(v.Index)...)
		if id, ok := v.X.(*ast.Ident); ok && f.mapVars[id.Name] {
			return out // reading or writing a map entry never panics (no translated function holds a nil map)
		}
		return append(out, fmt.Sprintf("(goInRange %s %s)", f.expr(v.X), f.expr(v.Index)))
	case *ast.SliceExpr:
		out := append(f.guards(v.X), append(f.guards(v.Low), f.guards(v.High)...)...)
		x := f.expr(v.X)
		lo, hi := "0", "(GoLen.len "+x+")"
		if v.Low != nil {
			lo = f.expr(v.Low)
		}
		if v.High != nil {
			hi = f.expr(v.High)
		}
		return append(out, fmt.Sprintf("(goSliceOk %s %s %s)", x, lo, hi))
	case *ast.CallExpr:
		var out []string
		if sel, ok := v.Fun.(*ast.SelectorExpr); ok {
			out = append(out, f.guards(sel.X)...)
		}
		for _, a := range v.Args {
			out = append(out, f.guards(a)...)
		}
		if src(v.Fun) == "make" && len(v.Args) == 2 {
			if _, isChan := v.Args[0].(*ast.ChanType); isChan && f.p.unit.chanTypes["both"] == "GoQueue" {
				out = append(out, "(goMakeChanOk "+f.expr(v.Args[1])+")") // makechan: size out of range
			}
		}
		return out
	}
	return nil
}

// stmtGuards: the guards of the expressions a statement evaluates itself (not those of nested blocks, conditions
// and tags, which are guarded where they are evaluated)
func (f *trFn) stmtGuards(s ast.Stmt) []string {
	if !f.p.unit.panics {
		return nil
	}
	var out []string
	switch st := s.(type) {
	case *ast.AssignStmt:
		if len(st.Lhs) == 2 && len(st.Rhs) == 1 {
			if ix, ok := st.Rhs[0].(*ast.IndexExpr); ok { // v, ok := m[k] never panics
				return append(f.guards(ix.X), f.guards(ix.Index)...)
			}
		}
		for _, r := range st.Rhs {
			out = append(out, f.guards(r)...)
		}
		if st.Tok != token.DEFINE {
			for _, l := range st.Lhs {
				out = append(out, f.guards(l)...)
			}
		}
	case *ast.ReturnStmt:
		for _, r := range st.Results {
			out = append(out, f.guards(r)...)
		}
	case *ast.ExprStmt:
		if call, ok := st.X.(*ast.CallExpr); ok && isLogging(call) {
			return nil
		}
		if call, ok := st.X.(*ast.CallExpr); ok {
			if ti, isAppend := f.p.unit.appendCalls[src(call.Fun)]; isAppend {
				return f.guards(call.Args[ti])
			}
			if r, isRec := f.p.unit.record[src(call.Fun)]; isRec {
				var out []string
				for i, a := range call.Args {
					dropped := false
					for _, d := range r.drop {
						if d == i {
							dropped = true
						}
					}
					if !dropped {
						out = append(out, f.guards(a)...)
					}
				}
				return out
			}
		}
		out = f.guards(st.X)
	case *ast.IncDecStmt:
		out = f.guards(st.X)
	case *ast.DeclStmt:
		if gd, ok := st.Decl.(*ast.GenDecl); ok {
			for _, sp := range gd.Specs {
				if vs, ok := sp.(*ast.ValueSpec); ok {
					for _, v := range vs.Values {
						out = append(out, f.guards(v)...)
					}
				}
			}
		}
	case *ast.RangeStmt:
		out = f.guards(st.X)
	}
	return out
}

// stmt1 compiles one statement followed by continuation next
func (f *trFn) stmt1(ind string, s ast.Stmt, next cont) string {
	switch st := s.(type) {
	case *ast.EmptyStmt:
		return next(ind)
	case *ast.ReturnStmt:
		if seq := f.returnWithCalls(st); seq != nil {
			f.push()
			out := f.stmts(ind, seq, func(ind string) string { trFail(st, "unreachable"); return "" })
			f.pop()
			return out
		}
		var vals []string
		if len(st.Results) == 0 {
			for _, n := range f.named {
				vals = append(vals, f.v(n))
			}
		} else {
			for i, r := range st.Results {
				if id, ok := r.(*ast.Ident); ok && id.Name == "nil" && len(st.Results) == len(f.resTypes) {
					if t, isId := f.resTypes[i].(*ast.Ident); !isId || t.Name != "error" {
						vals = append(vals, f.p.leanZero(f.resTypes[i])) // nil slice, nil pointer
						continue
					}
				}
				vals = append(vals, f.expr(r))
			}
		}
		return f.emitReturn(ind, vals)
	case *ast.BranchStmt:
		if f.loop == nil {
			trFail(st, "%s outside a translated loop", st.Tok)
		}
		switch st.Tok {
		case token.CONTINUE:
			return ind + "LoopStep.next " + f.loopState() + "\n"
		case token.BREAK:
			if n := len(f.brkStack); n > 0 && f.brkStack[n-1] == 's' {
				trFail(st, "`break` inside a switch or select clause leaves that clause, not the loop: not in the translated subset")
			}
			return ind + "LoopStep.brk " + f.loopState() + "\n"
		}
		trFail(st, "branch statement %s not supported here", st.Tok)
	case *ast.BlockStmt:
		f.push()
		out := f.stmts(ind, st.List, func(ind string) string { f.pop(); r := next(ind); f.push(); return r })
		f.pop()
		return out
	case *ast.GoStmt:
		if _, isRec := f.p.unit.record[src(st.Call.Fun)]; isRec {
			// what the goroutine is started with is kept; what it does is outside the translated state
			return f.stmt1(ind, &ast.ExprStmt{X: st.Call}, next)
		}
		if len(f.p.unit.skip) > 0 {
			return next(ind) // a goroutine started here is an effect outside the translated state
		}
	case *ast.ExprStmt:
		call, ok := st.X.(*ast.CallExpr)
		if !ok {
			trFail(st, "expression statement is not a call")
		}
		if _, isRec := f.p.unit.record[src(call.Fun)]; !isRec && (isLogging(call) || contains(f.p.unit.skip, src(call.Fun))) {
			return next(ind)
		}
		if strings.HasPrefix(src(call.Fun), "pool.Recycle") && len(call.Args) == 1 {
			if qx := f.queueRecv(call.Args[0]); qx != nil {
				// the oldest element is taken out and given back to the pool; a receive from an empty queue blocks for ever
				out := fmt.Sprintf("%sif (GoQueue.nonEmpty %s) then\n", ind, f.expr(qx))
				out += f.queuePop(ind+"  ", qx, next)
				out += ind + "else\n" + f.panicLine(ind+"  ", "blocks for ever")
				return out
			}
		}
		if c, ef := f.effectOf(call); ef != nil {
			return f.effectBind(ind, c, ef, nil, false, next)
		}
		if id, ok := call.Fun.(*ast.Ident); ok && id.Name == "panic" {
			return f.panicLine(ind, "explicit panic")
		}
		if target, val := f.bufWrite(call); target != nil {
			return f.assignTo(ind, target, val, next)
		}
		if r, ok := f.p.unit.record[src(call.Fun)]; ok {
			var vals []string
			for i, a := range call.Args {
				dropped := false
				for _, d := range r.drop {
					if d == i {
						dropped = true
					}
				}
				if !dropped {
					vals = append(vals, f.expr(a))
				}
			}
			recv := f.v(f.recv)
			tuple := strings.Join(vals, ", ")
			if len(vals) != 1 {
				tuple = "(" + tuple + ")"
			}
			return fmt.Sprintf("%slet %s := { %s with %s := %s.%s ++ [%s] }\n", ind, recv, recv, r.field, recv, r.field, tuple) + next(ind)
		}
		if ti, ok := f.p.unit.appendCalls[src(call.Fun)]; ok {
			val := fmt.Sprintf("(ext.paint %s %s)", f.expr(call.Args[0]), f.expr(call.Args[ti]))
			return f.assignTo(ind, call.Args[0], val, next)
		}
		return f.callStmt(ind, nil, false, call, next)
	case *ast.IncDecStmt:
		op := "+"
		if st.Tok == token.DEC {
			op = "-"
		}
		return f.assignTo(ind, st.X, "("+f.expr(st.X)+" "+op+" 1)", next)
	case *ast.DeferStmt:
		if strings.HasPrefix(src(st.Call.Fun), "pool.Recycle") {
			return next(ind) // giving a buffer back to its pool is not part of the value
		}
		if contains(f.p.unit.skip, src(st.Call.Fun)) {
			return next(ind) // a deferred effect outside the translated state (unlocking, logging)
		}
	case *ast.DeclStmt:
		gd := st.Decl.(*ast.GenDecl)
		if gd.Tok != token.VAR {
			trFail(st, "only var declarations are supported inside functions")
		}
		out := ""
		for _, sp := range gd.Specs {
			vs := sp.(*ast.ValueSpec)
			for i, n := range vs.Names {
				val := ""
				if i < len(vs.Values) {
					val = f.expr(vs.Values[i])
				} else if vs.Type != nil {
					val = f.p.leanZero(vs.Type)
				} else {
					trFail(st, "var without type or value")
				}
				ty := ""
				if vs.Type != nil {
					ty = " : " + f.p.leanType(vs.Type)
					if id, ok := vs.Type.(*ast.Ident); ok {
						if _, isStruct := f.p.unit.structs[id.Name]; isStruct {
							f.vtypes[n.Name] = id.Name
						}
					}
				}
				out += fmt.Sprintf("%slet %s%s := %s\n", ind, f.declare(n.Name), ty, val)
			}
		}
		return out + next(ind)
	case *ast.AssignStmt:
		if len(st.Rhs) == 1 {
			if call, ok := st.Rhs[0].(*ast.CallExpr); ok && contains(f.p.unit.skip, src(call.Fun)) {
				return next(ind) // the results are only handed to other skipped calls
			}
		}
		return f.assign(ind, st, next)
	case *ast.IfStmt:
		return f.ifStmt(ind, st, next)
	case *ast.SwitchStmt:
		return f.switchStmt(ind, st, next)
	case *ast.RangeStmt:
		return f.rangeStmt(ind, st, next)
	case *ast.ForStmt:
		return f.forStmt(ind, st, next)
	case *ast.SendStmt:
		return f.sendStmt(ind, st, next)
	case *ast.SelectStmt:
		return f.selectStmt(ind, st, next)
	}
	trFail(s, "statement %T is not in the translated subset", s)
	return ""
}

// sendStmt: `ch <- v` on a channel of the unit's `sends` table: the value joins the list the receiver keeps for the channel
// (the consumer is assumed to take it); a send on a skipped channel is an effect outside the translated state
func (f *trFn) sendStmt(ind string, st *ast.SendStmt, next cont) string {
	ch := src(st.Chan)
	if contains(f.p.unit.skip, ch) {
		return next(ind)
	}
	if f.isQueue(st.Chan) {
		// a send on a full queue nobody else reads blocks for ever
		out := fmt.Sprintf("%sif (GoQueue.hasRoom %s) then\n", ind, f.expr(st.Chan))
		out += f.queuePush(ind+"  ", st.Chan, f.expr(st.Value), next)
		out += ind + "else\n" + f.panicLine(ind+"  ", "blocks for ever")
		return out
	}
	fld, ok := f.p.unit.sends[ch]
	if !ok || f.recv == "" || f.vtypes[f.recv] != f.p.unit.sendOwner {
		trFail(st, "send on %s is not in the translated subset", ch)
	}
	g := f.v(f.recv)
	return fmt.Sprintf("%slet %s := { %s with %s := %s.%s ++ [%s] }\n", ind, g, g, fld, g, fld, f.expr(st.Value)) + next(ind)
}

// isQueue: the expression is one of the unit's buffered channels used as bounded queues
func (f *trFn) isQueue(e ast.Expr) bool {
	return e != nil && contains(f.p.unit.queues, src(e))
}

// queueRecv: `<-q` on a queue
func (f *trFn) queueRecv(e ast.Expr) ast.Expr {
	if u, ok := e.(*ast.UnaryExpr); ok && u.Op == token.ARROW && f.isQueue(u.X) {
		return u.X
	}
	return nil
}

// queuePush / queuePop: the queue after a send / a receive (the caller has checked that neither blocks)
func (f *trFn) queuePush(ind string, q ast.Expr, val string, k cont) string {
	return f.assignTo(ind, q, fmt.Sprintf("(GoQueue.push %s %s)", f.expr(q), val), k)
}

func (f *trFn) queuePop(ind string, q ast.Expr, k cont) string {
	return f.assignTo(ind, q, fmt.Sprintf("(GoQueue.pop %s)", f.expr(q)), k)
}

// selectQueue: `select { case q <- v: A; default: B }` and `select { case x := <-q: A; default: B }` on a queue of the
// function's own: which clause runs is decided by the queue's state
func (f *trFn) selectQueue(ind string, st *ast.SelectStmt, next cont) (string, bool) {
	if len(st.Body.List) != 2 {
		return "", false
	}
	var def, op *ast.CommClause
	for _, c := range st.Body.List {
		cc := c.(*ast.CommClause)
		if cc.Comm == nil {
			def = cc
		} else {
			op = cc
		}
	}
	if def == nil || op == nil {
		return "", false
	}
	branch := func(ind string, body []ast.Stmt, pre func(ind string, k cont) string) string {
		f.push()
		defer f.pop()
		return pre(ind, func(ind string) string {
			f.brkStack = append(f.brkStack, 's')
			defer func() { f.brkStack = f.brkStack[:len(f.brkStack)-1] }()
			return f.stmts(ind, body, func(ind string) string {
				saved := f.brkStack
				f.brkStack = f.brkStack[:len(f.brkStack)-1]
				r := f.outside(1, func() string { return next(ind) })
				f.brkStack = saved
				return r
			})
		})
	}
	plain := func(ind string, k cont) string { return k(ind) }
	switch comm := op.Comm.(type) {
	case *ast.SendStmt:
		if !f.isQueue(comm.Chan) {
			return "", false
		}
		q := f.expr(comm.Chan)
		out := fmt.Sprintf("%sif (GoQueue.hasRoom %s) then\n", ind, q)
		out += branch(ind+"  ", op.Body, func(ind string, k cont) string { return f.queuePush(ind, comm.Chan, f.expr(comm.Value), k) })
		out += ind + "else\n"
		out += branch(ind+"  ", def.Body, plain)
		return out, true
	case *ast.AssignStmt:
		if len(comm.Lhs) != 1 || len(comm.Rhs) != 1 || comm.Tok != token.DEFINE {
			return "", false
		}
		qx := f.queueRecv(comm.Rhs[0])
		if qx == nil {
			return "", false
		}
		q := f.expr(qx)
		out := fmt.Sprintf("%sif (GoQueue.nonEmpty %s) then\n", ind, q)
		out += branch(ind+"  ", op.Body, func(ind string, k cont) string {
			head := fmt.Sprintf("(GoQueue.head %s)", f.expr(qx))
			return f.oneAssign(ind, comm.Lhs[0], true, head, func(ind string) string { return f.queuePop(ind, qx, k) })
		})
		out += ind + "else\n"
		out += branch(ind+"  ", def.Body, plain)
		return out, true
	}
	return "", false
}

// selectStmt: the translation fixes the environment a theorem speaks about — the context is never cancelled, no timer or
// signal channel is ready, and the consumer of a channel takes what is sent: a select with a `default` clause takes it; one
// without takes its only send clause.  Anything else is outside the subset.
func (f *trFn) selectStmt(ind string, st *ast.SelectStmt, next cont) string {
	if out, ok := f.selectQueue(ind, st, next); ok {
		return out
	}
	var def, send *ast.CommClause
	sends := 0
	for _, c := range st.Body.List {
		cc := c.(*ast.CommClause)
		switch comm := cc.Comm.(type) {
		case nil:
			def = cc
		case *ast.SendStmt:
			send = cc
			sends++
		case *ast.ExprStmt:
			if u, ok := comm.X.(*ast.UnaryExpr); !ok || u.Op != token.ARROW {
				trFail(cc, "select clause %s", src(comm))
			}
		default:
			trFail(cc, "select clause of kind %T", comm)
		}
	}
	chosen := def
	var pre ast.Stmt
	if chosen == nil {
		if sends != 1 {
			trFail(st, "select without default and with %d send clauses", sends)
		}
		chosen = send
		pre = send.Comm
	}
	body := chosen.Body
	if pre != nil {
		body = append([]ast.Stmt{pre}, body...)
	}
	f.push()
	f.brkStack = append(f.brkStack, 's')
	out := f.stmts(ind, body, func(ind string) string {
		saved := f.brkStack
		f.brkStack = f.brkStack[:len(f.brkStack)-1]
		r := f.outside(1, func() string { return next(ind) })
		f.brkStack = saved
		return r
	})
	f.brkStack = f.brkStack[:len(f.brkStack)-1]
	f.pop()
	return out
}

// ptrTarget: the variable a pointer argument points to: `&v`, or a variable that is a pointer itself
func ptrTarget(e ast.Expr) ast.Expr {
	if u, ok := e.(*ast.UnaryExpr); ok && u.Op == token.AND {
		return u.X
	}
	if id, ok := e.(*ast.Ident); ok {
		return id
	}
	return nil
}

// randDraw: the receiver of `r.Intn(n)` (math/rand), or nil
// byteRead: `r.ReadByte()` on one of the unit's reader variables
func (f *trFn) byteRead(e ast.Expr) *ast.Ident {
	call, ok := e.(*ast.CallExpr)
	if !ok {
		return nil
	}
	sel, ok := call.Fun.(*ast.SelectorExpr)
	if !ok || sel.Sel.Name != "ReadByte" || len(call.Args) != 0 {
		return nil
	}
	id, ok := sel.X.(*ast.Ident)
	if !ok || !contains(f.p.unit.readers, id.Name) {
		return nil
	}
	return id
}

// bufWrite: `v.WriteByte(b)` / `v.WriteString(s)` on one of the unit's buffer variables: the variable and what is appended
func (f *trFn) bufWrite(call *ast.CallExpr) (ast.Expr, string) {
	sel, ok := call.Fun.(*ast.SelectorExpr)
	if !ok || !contains(f.p.unit.bufVars, src(sel.X)) {
		return nil, ""
	}
	switch sel.Sel.Name {
	case "WriteByte":
		if len(call.Args) == 1 {
			return sel.X, f.expr(sel.X) + " ++ [" + f.byteExpr(call.Args[0]) + "]"
		}
	case "WriteString":
		if len(call.Args) == 1 {
			return sel.X, f.expr(sel.X) + " ++ " + f.expr(call.Args[0])
		}
	case "Reset":
		if len(call.Args) == 0 {
			return sel.X, "([] : GoString)"
		}
	}
	return nil, ""
}

// byteExpr: an expression of type byte as a UInt8 term (a character literal or a variable holding a byte)
func (f *trFn) byteExpr(e ast.Expr) string {
	if lit, ok := e.(*ast.BasicLit); ok && lit.Kind == token.CHAR {
		return "(" + eval(lit, nil).ExactString() + " : UInt8)"
	}
	return f.expr(e)
}

func randDraw(call *ast.CallExpr) *ast.Ident {
	sel, ok := call.Fun.(*ast.SelectorExpr)
	if !ok || sel.Sel.Name != "Intn" {
		return nil
	}
	id, _ := sel.X.(*ast.Ident)
	return id
}

// returnWithCalls: `return …, f(x), …` where f is a translated function that can panic or a method that updates its
// receiver: the calls are bound to fresh variables first (an operand `&v` is read afterwards: it sees the update)
func (f *trFn) returnWithCalls(st *ast.ReturnStmt) []ast.Stmt {
	need := false
	for _, r := range st.Results {
		if call, ok := r.(*ast.CallExpr); ok {
			if k := f.p.calleeKey(f.key, call); k != "" && (f.p.canPanic[k] || f.p.sigs[k].ptrRecv) {
				need = true
			}
		}
		if _, ef := f.effectOf(r); ef != nil {
			need = true
		}
	}
	if !need {
		return nil
	}
	var seq []ast.Stmt
	var results []ast.Expr
	for _, r := range st.Results {
		call, ok := r.(*ast.CallExpr)
		k := ""
		if ok {
			k = f.p.calleeKey(f.key, call)
		}
		_, ef := f.effectOf(r)
		if ef == nil && (k == "" || !(f.p.canPanic[k] || f.p.sigs[k].ptrRecv)) {
			results = append(results, r)
			continue
		}
		n := 0
		if ef != nil {
			n = len(ef.res) + 1
		} else {
			n = f.p.sigs[k].nResults
		}
		var lhs []ast.Expr
		for i := 0; i < n; i++ {
			f.counter++
			id := ast.NewIdent(fmt.Sprintf("ret_%d", f.counter))
			lhs = append(lhs, id)
			results = append(results, id)
		}
		seq = append(seq, &ast.AssignStmt{Lhs: lhs, Tok: token.DEFINE, Rhs: []ast.Expr{call}, TokPos: st.Pos()})
	}
	return append(seq, &ast.ReturnStmt{Results: results, Return: st.Pos()})
}

func isLogging(call *ast.CallExpr) bool {
	s := src(call.Fun)
	return strings.HasPrefix(s, "dlog.") || strings.HasSuffix(s, ".server.sendln")
}

// assignTo: `target = val` for an identifier, receiver field, array element or map entry
func (f *trFn) assignTo(ind string, target ast.Expr, val string, k cont) string {
	switch t := target.(type) {
	case *ast.Ident:
		if t.Name == "_" {
			return k(ind)
		}
		if _, ok := f.lookup(t.Name); !ok {
			trFail(t, "assignment to unknown variable %s", t.Name)
		}
		return fmt.Sprintf("%slet %s := %s\n", ind, f.v(t.Name), val) + k(ind)
	case *ast.SelectorExpr:
		base, ok := t.X.(*ast.Ident)
		if !ok {
			trFail(t, "assignment through a nested selector")
		}
		b := f.v(base.Name)
		return fmt.Sprintf("%slet %s := { %s with %s := %s }\n", ind, b, b, t.Sel.Name, val) + k(ind)
	case *ast.IndexExpr:
		upd := fmt.Sprintf("(GoIndex.upd %s %s %s)", f.expr(t.X), f.expr(t.Index), val)
		return f.assignTo(ind, t.X, upd, k)
	case *ast.StarExpr:
		return f.assignTo(ind, t.X, val, k)
	}
	trFail(target, "assignment target %s not supported", src(target))
	return ""
}

func (f *trFn) assign(ind string, st *ast.AssignStmt, k cont) string {
	define := st.Tok == token.DEFINE
	if len(st.Rhs) == 1 && (st.Tok == token.DEFINE || st.Tok == token.ASSIGN) {
		if call, ef := f.effectOf(st.Rhs[0]); ef != nil {
			return f.effectBind(ind, call, ef, st.Lhs, define, k)
		}
		// b, err := r.ReadByte(): a reader is the bytes it has not delivered yet; a read returns the next one and the rest
		if r := f.byteRead(st.Rhs[0]); r != nil && len(st.Lhs) == 2 {
			f.counter++
			tb, te := fmt.Sprintf("_t%d", f.counter), fmt.Sprintf("_e%d", f.counter)
			out := fmt.Sprintf("%slet (%s, %s, %s) := goReadByte %s\n", ind, tb, te, f.v(r.Name), f.v(r.Name))
			return out + f.oneAssign(ind, st.Lhs[0], define, tb, func(ind string) string { return f.oneAssign(ind, st.Lhs[1], define, te, k) })
		}
	}
	// comma-ok map read / call with several results
	if len(st.Lhs) > 1 && len(st.Rhs) == 1 {
		switch r := st.Rhs[0].(type) {
		case *ast.IndexExpr:
			if len(st.Lhs) != 2 {
				trFail(st, "index expression with %d results", len(st.Lhs))
			}
			rhs := fmt.Sprintf("GoIndex.idxOk %s %s", f.expr(r.X), f.expr(r.Index))
			return f.bindTuple(ind, st.Lhs, define, rhs, k)
		case *ast.CallExpr:
			return f.callStmt(ind, st.Lhs, define, r, k)
		}
		trFail(st, "multi-value assignment from %T", st.Rhs[0])
	}
	if len(st.Lhs) != len(st.Rhs) {
		trFail(st, "assignment arity")
	}
	if len(st.Lhs) == 1 {
		if call, ok := st.Rhs[0].(*ast.CallExpr); ok && f.isTranslatedMethodCall(call) {
			return f.callStmt(ind, st.Lhs, define, call, k)
		}
		if call, ok := st.Rhs[0].(*ast.CallExpr); ok && st.Tok != token.ADD_ASSIGN {
			if key := f.p.calleeKey(f.key, call); key != "" && (f.p.canPanic[key] || f.p.sigs[key].ptrParam != "") {
				return f.callStmt(ind, st.Lhs, define, call, k)
			}
			if _, ok := f.p.unit.extern[src(call.Fun)]; ok {
				return f.callStmt(ind, st.Lhs, define, call, k)
			}
		}
		// x := r.Intn(n): the random source is a value; a draw returns the number and the rest of the source
		if call, ok := st.Rhs[0].(*ast.CallExpr); ok && st.Tok != token.ADD_ASSIGN {
			if recv := randDraw(call); recv != nil {
				if _, isVar := f.lookup(recv.Name); isVar && len(call.Args) == 1 {
					f.counter++
					t := fmt.Sprintf("_t%d", f.counter)
					out := fmt.Sprintf("%slet (%s, %s) := goIntn %s %s\n", ind, t, f.v(recv.Name), f.v(recv.Name), f.expr(call.Args[0]))
					return out + f.oneAssign(ind, st.Lhs[0], define, t, k)
				}
			}
		}
	}
	// evaluate all right-hand sides first (Go semantics for tuple assignment)
	var vals []string
	for _, r := range st.Rhs {
		vals = append(vals, f.expr(r))
	}
	if st.Tok != token.DEFINE && st.Tok != token.ASSIGN {
		// op=
		op := strings.TrimSuffix(st.Tok.String(), "=")
		vals[0] = f.binop(st, op, f.expr(st.Lhs[0]), vals[0])
	}
	if len(vals) > 1 {
		out := ""
		var tmps []string
		for _, v := range vals {
			f.counter++
			t := fmt.Sprintf("_t%d", f.counter)
			tmps = append(tmps, t)
			out += fmt.Sprintf("%slet %s := %s\n", ind, t, v)
		}
		var chain func(i int) cont
		chain = func(i int) cont {
			if i == len(tmps) {
				return k
			}
			return func(ind string) string { return f.oneAssign(ind, st.Lhs[i], define, tmps[i], chain(i+1)) }
		}
		return out + chain(0)(ind)
	}
	return f.oneAssign(ind, st.Lhs[0], define, vals[0], k)
}

func (f *trFn) oneAssign(ind string, lhs ast.Expr, define bool, val string, k cont) string {
	if define {
		id, ok := lhs.(*ast.Ident)
		if !ok {
			trFail(lhs, ":= to a non-identifier")
		}
		if m := structLitRe.FindStringSubmatch(val); m != nil {
			f.vtypes[id.Name] = m[1] // x := T{…}
		}
		return fmt.Sprintf("%slet %s := %s\n", ind, f.declare(id.Name), val) + k(ind)
	}
	return f.assignTo(ind, lhs, val, k)
}

// bindTuple: `a, b := rhs` / `a, b = rhs` where rhs is a Lean tuple
func (f *trFn) bindTuple(ind string, lhs []ast.Expr, define bool, rhs string, k cont) string {
	var tmps []string
	for range lhs {
		f.counter++
		tmps = append(tmps, fmt.Sprintf("_t%d", f.counter))
	}
	out := fmt.Sprintf("%slet (%s) := %s\n", ind, strings.Join(tmps, ", "), rhs)
	var chain func(i int) cont
	chain = func(i int) cont {
		if i == len(lhs) {
			return k
		}
		return func(ind string) string { return f.oneAssign(ind, lhs[i], define, tmps[i], chain(i+1)) }
	}
	return out + chain(0)(ind)
}

// effectOf: the call acts on the world (unit option `effects`)
func (f *trFn) effectOf(e ast.Expr) (*ast.CallExpr, *trEffect) {
	call, ok := e.(*ast.CallExpr)
	if !ok {
		return nil, nil
	}
	if ef, ok := f.p.unit.effects[src(call.Fun)]; ok {
		return call, &ef
	}
	return nil, nil
}

// effectBind: an operation on the world.  `ext.ioErr` says whether it fails, given the operations that succeeded so far; an
// operation that succeeds is appended to the receiver's history.  The results are the terms of the effect's table entry
// followed by the error.
func (f *trFn) effectBind(ind string, call *ast.CallExpr, ef *trEffect, lhs []ast.Expr, define bool, k cont) string {
	if f.recv == "" || f.vtypes[f.recv] != f.p.unit.effectOwner {
		trFail(call, "%s acts on the world outside a method of %s", src(call.Fun), f.p.unit.effectOwner)
	}
	fill := func(t string) string {
		for i, a := range call.Args {
			t = strings.ReplaceAll(t, fmt.Sprintf("%%%d", i), f.expr(a))
		}
		if sel, ok := call.Fun.(*ast.SelectorExpr); ok {
			if id, ok := sel.X.(*ast.Ident); ok {
				if _, isVar := f.lookup(id.Name); isVar {
					t = strings.ReplaceAll(t, "%r", f.v(id.Name))
				}
			}
		}
		return t
	}
	f.counter++
	h, e := fmt.Sprintf("_h%d", f.counter), fmt.Sprintf("_e%d", f.counter)
	g := f.v(f.recv)
	var res []string
	for _, r := range ef.res {
		res = append(res, fill(r))
	}
	out := fmt.Sprintf("%slet (%s, %s) := goEffect ext %s.%s (%s)\n", ind, h, e, g, f.p.unit.effectField, fill(ef.op))
	out += fmt.Sprintf("%slet %s := { %s with %s := %s }\n", ind, g, g, f.p.unit.effectField, h)
	res = append(res, e)
	if len(lhs) == 0 {
		return out + k(ind)
	}
	if len(lhs) != len(res) {
		trFail(call, "%s has %d results, %d are bound", src(call.Fun), len(res), len(lhs))
	}
	var tmps []string
	for _, r := range res {
		f.counter++
		t := fmt.Sprintf("_t%d", f.counter)
		tmps = append(tmps, t)
		out += fmt.Sprintf("%slet %s := %s\n", ind, t, r)
	}
	var chain func(i int) cont
	chain = func(i int) cont {
		if i == len(lhs) {
			return k
		}
		return func(ind string) string { return f.oneAssign(ind, lhs[i], define, tmps[i], chain(i+1)) }
	}
	return out + chain(0)(ind)
}

func (f *trFn) isTranslatedMethodCall(call *ast.CallExpr) bool {
	sel, ok := call.Fun.(*ast.SelectorExpr)
	if !ok {
		return false
	}
	base, ok := sel.X.(*ast.Ident)
	if !ok {
		return false
	}
	if _, isVar := f.lookup(base.Name); !isVar {
		return false
	}
	return f.p.methodSig(sel.Sel.Name) != nil
}

func (p *trPkg) methodSig(name string) *trSig {
	for k, s := range p.sigs {
		if s.recv != "" && strings.HasSuffix(k, "."+name) {
			return s
		}
	}
	return nil
}

func (p *trPkg) methodKey(name string) string {
	for k, s := range p.sigs {
		if s.recv != "" && strings.HasSuffix(k, "."+name) {
			return k
		}
	}
	return ""
}

// recvPath: the Lean expression of the value a method named m is called on, for the Go
// variable base: base itself, or base.<embedded> when the method is promoted from an embedded struct
func (f *trFn) recvPath(n ast.Node, base string, sig *trSig) (path string, embedded string) {
	t := f.vtypes[base]
	if t == "" || t == sig.recv {
		return f.v(base), ""
	}
	if st, ok := f.p.structs[t]; ok {
		for _, fl := range st.Fields.List {
			if len(fl.Names) == 0 && recvTypeName(fl.Type) == sig.recv {
				return f.v(base) + "." + sig.recv, sig.recv
			}
		}
	}
	trFail(n, "method of %s called on %s (a %s)", sig.recv, base, t)
	return "", ""
}

// pureMethod: the translated method never assigns through its receiver
func (p *trPkg) pureMethod(key string) bool {
	d := p.funcs[key]
	if d == nil || d.Recv == nil || len(d.Recv.List[0].Names) == 0 {
		return false
	}
	recv := d.Recv.List[0].Names[0].Name
	pure := true
	root := func(e ast.Expr) string {
		for {
			switch t := e.(type) {
			case *ast.SelectorExpr:
				e = t.X
			case *ast.IndexExpr:
				e = t.X
			case *ast.StarExpr:
				e = t.X
			case *ast.Ident:
				return t.Name
			default:
				return ""
			}
		}
	}
	ast.Inspect(d.Body, func(n ast.Node) bool {
		switch s := n.(type) {
		case *ast.AssignStmt:
			for _, l := range s.Lhs {
				if _, isIdent := l.(*ast.Ident); !isIdent && root(l) == recv {
					pure = false
				}
			}
		case *ast.IncDecStmt:
			if root(s.X) == recv {
				pure = false
			}
		case *ast.CallExpr:
			if sel, ok := s.Fun.(*ast.SelectorExpr); ok {
				if id, ok := sel.X.(*ast.Ident); ok && id.Name == recv && p.methodSig(sel.Sel.Name) != nil && !p.pureMethod(p.methodKey(sel.Sel.Name)) {
					pure = false
				}
			}
		}
		return true
	})
	return pure
}

// callStmt: a call used as a statement or as the right-hand side of an assignment; a callee that can panic is
// matched on: its panic is the caller's panic
func (f *trFn) callStmt(ind string, lhs []ast.Expr, define bool, call *ast.CallExpr, k cont) string {
	if ex, ok := f.p.unit.extern[src(call.Fun)]; ok {
		var args []string
		for _, a := range call.Args {
			args = append(args, f.expr(a))
		}
		text := strings.TrimSpace(fmt.Sprintf("%s ext %s", ex.lean, strings.Join(args, " ")))
		bind := func(ind, val string) string {
			if len(lhs) == 0 {
				return k(ind)
			}
			if len(lhs) == 1 {
				return f.oneAssign(ind, lhs[0], define, val, k)
			}
			return f.bindTuple(ind, lhs, define, val, k)
		}
		if !ex.canPanic {
			return bind(ind, "("+text+")")
		}
		if !f.panicky {
			trFail(call, "%s calls %s, which can panic, but is translated as a total function", f.key, ex.lean)
		}
		f.counter++
		v := fmt.Sprintf("_o%d", f.counter)
		out := fmt.Sprintf("%smatch %s with\n%s| Outcome.ok %s =>\n", ind, text, ind, v)
		out += bind(ind+"  ", v)
		out += ind + "| _ =>\n" + f.panicLine(ind+"  ", "panic in "+ex.lean)
		return out
	}
	if key := f.p.calleeKey(f.key, call); key != "" && f.p.canPanic[key] {
		if !f.panicky {
			trFail(call, "%s calls %s, which can panic, but is translated as a total function", f.key, key)
		}
		f.counter++
		v := fmt.Sprintf("_o%d", f.counter)
		f.okValue = ""
		text := f.callText(call)
		out := fmt.Sprintf("%smatch %s with\n%s| Outcome.ok %s =>\n", ind, text, ind, v)
		f.okValue = v
		out += f.callBind(ind+"  ", lhs, define, call, k)
		out += ind + "| _ =>\n" + f.panicLine(ind+"  ", "panic in "+key)
		return out
	}
	return f.callBind(ind, lhs, define, call, k)
}

// callText: the Lean application for a call of a translated function or method
func (f *trFn) callText(call *ast.CallExpr) string {
	var args []string
	for _, a := range call.Args {
		args = append(args, f.expr(a))
	}
	if f.isTranslatedMethodCall(call) {
		sel := call.Fun.(*ast.SelectorExpr)
		sig := f.p.methodSig(sel.Sel.Name)
		if sig.ptrParam != "" {
			if x := ptrTarget(call.Args[sig.ptrIdx]); x != nil {
				args[sig.ptrIdx] = f.expr(x)
			}
		}
		path, _ := f.recvPath(call, sel.X.(*ast.Ident).Name, sig)
		return strings.TrimSpace(fmt.Sprintf("%s ext %s %s", f.p.methodKey(sel.Sel.Name), path, strings.Join(args, " ")))
	}
	key := f.p.calleeKey(f.key, call)
	if key == "" {
		trFail(call, "call of %s is not a translated function", src(call.Fun))
	}
	if sg := f.p.sigs[key]; sg.ptrParam != "" {
		if x := ptrTarget(call.Args[sg.ptrIdx]); x != nil {
			args[sg.ptrIdx] = f.expr(x)
		}
	}
	return strings.TrimSpace(fmt.Sprintf("%s ext %s", leanIdent(key), strings.Join(args, " ")))
}

func (f *trFn) callBind(ind string, lhs []ast.Expr, define bool, call *ast.CallExpr, k cont) string {
	okv := f.okValue
	f.okValue = ""
	var args []string
	if f.isTranslatedMethodCall(call) {
		sel := call.Fun.(*ast.SelectorExpr)
		base := sel.X.(*ast.Ident)
		sig := f.p.methodSig(sel.Sel.Name)
		for _, a := range call.Args {
			args = append(args, f.expr(a))
		}
		var ptrX ast.Expr // the variable a pointer parameter of the method points to: it gets the updated value back
		if sig.ptrParam != "" {
			ptrX = ptrTarget(call.Args[sig.ptrIdx])
			if ptrX == nil {
				trFail(call, "call of %s: the pointer argument must be &variable or a pointer variable", sel.Sel.Name)
			}
			args[sig.ptrIdx] = f.expr(ptrX)
			if !sig.ptrRecv {
				trFail(call, "method %s with a pointer parameter and a value receiver", sel.Sel.Name)
			}
		}
		path, emb := f.recvPath(call, base.Name, sig)
		rhs := fmt.Sprintf("%s ext %s %s", f.p.methodKey(sel.Sel.Name), path, strings.Join(args, " "))
		if okv != "" {
			rhs = okv
		}
		setRecv := func(ind, val string) string {
			if emb != "" {
				return fmt.Sprintf("%slet %s := { %s with %s := %s }\n", ind, f.v(base.Name), f.v(base.Name), emb, val)
			}
			return fmt.Sprintf("%slet %s := %s\n", ind, f.v(base.Name), val)
		}
		if len(lhs) != 0 && len(lhs) != sig.nResults {
			trFail(call, "call of %s: %d results bound, %d returned", sel.Sel.Name, len(lhs), sig.nResults)
		}
		targets := lhs
		if len(lhs) == 0 {
			for i := 0; i < sig.nResults; i++ {
				targets = append(targets, ast.NewIdent("_"))
			}
			define = true
		}
		if sig.ptrRecv {
			if len(targets) == 0 && ptrX == nil {
				return setRecv(ind, "("+strings.TrimSpace(rhs)+")") + k(ind)
			}
			f.counter++
			tr := fmt.Sprintf("_r%d", f.counter)
			var tmps []string
			for range targets {
				f.counter++
				tmps = append(tmps, fmt.Sprintf("_t%d", f.counter))
			}
			pat := []string{tr}
			tp := ""
			if ptrX != nil {
				f.counter++
				tp = fmt.Sprintf("_p%d", f.counter)
				pat = append(pat, tp)
			}
			pat = append(pat, tmps...)
			out := fmt.Sprintf("%slet (%s) := %s\n", ind, strings.Join(pat, ", "), strings.TrimSpace(rhs))
			out += setRecv(ind, tr)
			if ptrX != nil {
				out += f.assignTo(ind, ptrX, tp, func(string) string { return "" })
			}
			var chain func(i int) cont
			chain = func(i int) cont {
				if i == len(targets) {
					return k
				}
				return func(ind string) string { return f.oneAssign(ind, targets[i], define, tmps[i], chain(i+1)) }
			}
			return out + chain(0)(ind)
		}
		if len(targets) == 1 {
			return f.oneAssign(ind, targets[0], define, "("+strings.TrimSpace(rhs)+")", k)
		}
		return f.bindTuple(ind, targets, define, strings.TrimSpace(rhs), k)
	}
	// a plain translated function that updates its first argument through a pointer
	if key := f.p.calleeKey(f.key, call); key != "" && f.p.sigs[key].ptrParam != "" {
		sig := f.p.sigs[key]
		targetX := ptrTarget(call.Args[sig.ptrIdx])
		if targetX == nil {
			trFail(call, "call of %s: the pointer argument must be &variable or a pointer variable", key)
		}
		rhs := okv
		if rhs == "" {
			rhs = f.callText(call)
		}
		f.counter++
		tr := fmt.Sprintf("_r%d", f.counter)
		targets := lhs
		if len(lhs) == 0 {
			for i := 0; i < sig.nResults; i++ {
				targets = append(targets, ast.NewIdent("_"))
			}
			define = true
		}
		var tmps []string
		for range targets {
			f.counter++
			tmps = append(tmps, fmt.Sprintf("_t%d", f.counter))
		}
		pat := tr
		if len(tmps) > 0 {
			pat = "(" + tr + ", " + strings.Join(tmps, ", ") + ")"
		}
		out := fmt.Sprintf("%slet %s := %s\n", ind, pat, rhs)
		var chain func(i int) cont
		chain = func(i int) cont {
			if i == len(targets) {
				return k
			}
			return func(ind string) string { return f.oneAssign(ind, targets[i], define, tmps[i], chain(i+1)) }
		}
		return out + f.assignTo(ind, targetX, tr, chain(0))
	}
	// a translated function whose result was matched on
	if okv != "" {
		if len(lhs) == 0 {
			return k(ind)
		}
		if len(lhs) == 1 {
			return f.oneAssign(ind, lhs[0], define, okv, k)
		}
		return f.bindTuple(ind, lhs, define, okv, k)
	}
	// external call with several results
	if src(call.Fun) == "regexp.Compile" && len(lhs) >= 1 {
		if id, ok := lhs[0].(*ast.Ident); ok {
			if f.regexVars == nil {
				f.regexVars = map[string]bool{}
			}
			f.regexVars[id.Name] = true
		}
	}
	e := f.expr(call)
	if len(lhs) == 0 {
		trFail(call, "call %s used as a statement is neither logging nor a translated method", src(call.Fun))
	}
	if len(lhs) == 1 {
		return f.oneAssign(ind, lhs[0], define, e, k)
	}
	return f.bindTuple(ind, lhs, define, e, k)
}

// onlyAssigns: the statements assign variables and do nothing else (no call that must be bound, no control transfer)
func (f *trFn) onlyAssigns(l []ast.Stmt) bool {
	for _, s := range l {
		as, ok := s.(*ast.AssignStmt)
		if !ok || as.Tok == token.DEFINE {
			return false
		}
		for _, r := range as.Rhs {
			if call, ok := r.(*ast.CallExpr); ok {
				if f.isTranslatedMethodCall(call) || f.p.calleeKey(f.key, call) != "" {
					return false
				}
				if _, ef := f.effectOf(call); ef != nil {
					return false
				}
			}
		}
	}
	return true
}

func (f *trFn) ifStmt(ind string, st *ast.IfStmt, k cont) string {
	if f.p.unit.joinIfs && st.Else == nil && st.Init == nil && f.onlyAssigns(st.Body.List) && len(f.guards(st.Cond)) == 0 {
		vars := f.assignedOuter(st.Body.List)
		if len(vars) > 0 {
			tuple := func() string {
				var parts []string
				for _, n := range vars {
					parts = append(parts, f.v(n))
				}
				if len(parts) == 1 {
					return parts[0]
				}
				return "(" + strings.Join(parts, ", ") + ")"
			}
			before := tuple()
			out := fmt.Sprintf("%slet %s :=\n%s  if %s then\n", ind, before, ind, f.expr(st.Cond))
			f.push()
			out += f.stmts(ind+"    ", st.Body.List, func(ind string) string { return ind + tuple() + "\n" })
			f.pop()
			out += fmt.Sprintf("%s  else\n%s    %s\n", ind, ind, before)
			return out + k(ind)
		}
	}
	// a condition that is a call which updates a variable through a pointer, or can panic, is bound first
	if call, ok := st.Cond.(*ast.CallExpr); ok && st.Init == nil {
		if key := f.p.calleeKey(f.key, call); key != "" && (f.p.canPanic[key] || f.p.sigs[key].ptrParam != "" || f.p.sigs[key].ptrRecv) {
			f.counter++
			tmp := ast.NewIdent(fmt.Sprintf("cond_%d", f.counter))
			bind := &ast.AssignStmt{Lhs: []ast.Expr{tmp}, Tok: token.DEFINE, Rhs: []ast.Expr{call}, TokPos: st.Pos()}
			st2 := *st
			st2.Cond = tmp
			f.push()
			out := f.stmts(ind, []ast.Stmt{bind, &st2}, func(ind string) string { return f.outside(1, func() string { return k(ind) }) })
			f.pop()
			return out
		}
	}
	f.push()
	defer f.pop()
	var ifBody func(ind string) string
	body := func(ind string) string {
		return f.guarded(ind, f.guards(st.Cond), func(ind string) string { return ifBody(ind) })
	}
	ifBody = func(ind string) string {
		cond := f.expr(st.Cond)
		out := fmt.Sprintf("%sif %s then\n", ind, cond)
		f.push()
		out += f.stmts(ind+"  ", st.Body.List, func(ind string) string { return f.outside(2, func() string { return k(ind) }) })
		f.pop()
		out += ind + "else\n"
		switch e := st.Else.(type) {
		case nil:
			out += f.outside(1, func() string { return k(ind + "  ") })
		case *ast.BlockStmt:
			f.push()
			out += f.stmts(ind+"  ", e.List, func(ind string) string { return f.outside(2, func() string { return k(ind) }) })
			f.pop()
		case *ast.IfStmt:
			out += f.ifStmt(ind+"  ", e, func(ind string) string { return f.outside(1, func() string { return k(ind) }) })
		default:
			trFail(st, "else branch %T", st.Else)
		}
		return out
	}
	if st.Init != nil {
		return f.stmts(ind, []ast.Stmt{st.Init}, body)
	}
	return body(ind)
}

// outside runs g with the n innermost scopes temporarily removed (the continuation of a
// statement belongs to the enclosing scope, not to the block it is duplicated into)
func (f *trFn) outside(n int, g func() string) string {
	saved := append([]map[string]string{}, f.scopes[len(f.scopes)-n:]...)
	f.scopes = f.scopes[:len(f.scopes)-n]
	r := g()
	f.scopes = append(f.scopes, saved...)
	return r
}

func (f *trFn) switchStmt(ind string, st *ast.SwitchStmt, k cont) string {
	if st.Init != nil {
		trFail(st, "switch with init statement")
	}
	if gs := f.guards(st.Tag); len(gs) > 0 && !f.inGuardedSwitch {
		f.inGuardedSwitch = true
		out := f.guarded(ind, gs, func(ind string) string { return f.switchStmt(ind, st, k) })
		f.inGuardedSwitch = false
		return out
	}
	f.inGuardedSwitch = false
	tag := ""
	if st.Tag != nil {
		tag = f.expr(st.Tag)
	}
	clauses := st.Body.List
	// body of clause i including what it falls through to
	var bodyOf func(i int) []ast.Stmt
	bodyOf = func(i int) []ast.Stmt {
		cc := clauses[i].(*ast.CaseClause)
		b := cc.Body
		if n := len(b); n > 0 {
			if br, ok := b[n-1].(*ast.BranchStmt); ok && br.Tok == token.FALLTHROUGH {
				if i+1 >= len(clauses) {
					trFail(br, "fallthrough in the last clause")
				}
				return append(append([]ast.Stmt{}, b[:n-1]...), bodyOf(i+1)...)
			}
		}
		return b
	}
	def := -1
	var order []int
	for i, c := range clauses {
		if c.(*ast.CaseClause).List == nil {
			def = i
		} else {
			order = append(order, i)
		}
	}
	var gen func(j int, ind string) string
	gen = func(j int, ind string) string {
		if j == len(order) {
			if def < 0 {
				return k(ind)
			}
			f.push()
			f.brkStack = append(f.brkStack, 's')
			out := f.stmts(ind, bodyOf(def), func(ind string) string {
				saved := f.brkStack
				f.brkStack = f.brkStack[:len(f.brkStack)-1]
				r := f.outside(1, func() string { return k(ind) })
				f.brkStack = saved
				return r
			})
			f.brkStack = f.brkStack[:len(f.brkStack)-1]
			f.pop()
			return out
		}
		cc := clauses[order[j]].(*ast.CaseClause)
		var conds, gs []string
		for _, e := range cc.List {
			gs = append(gs, f.guards(e)...)
			if tag != "" {
				conds = append(conds, fmt.Sprintf("(%s == %s)", tag, f.expr(e)))
			} else {
				conds = append(conds, f.expr(e))
			}
		}
		return f.guarded(ind, gs, func(ind string) string {
			out := fmt.Sprintf("%sif %s then\n", ind, strings.Join(conds, " || "))
			f.push()
			f.brkStack = append(f.brkStack, 's')
			out += f.stmts(ind+"  ", bodyOf(order[j]), func(ind string) string {
				saved := f.brkStack
				f.brkStack = f.brkStack[:len(f.brkStack)-1]
				r := f.outside(1, func() string { return k(ind) })
				f.brkStack = saved
				return r
			})
			f.brkStack = f.brkStack[:len(f.brkStack)-1]
			f.pop()
			out += ind + "else\n"
			out += gen(j+1, ind+"  ")
			return out
		})
	}
	return gen(0, ind)
}

// assignedOuter: Go names of variables visible now that the statements assign
func (f *trFn) assignedOuter(body []ast.Stmt) []string {
	set := map[string]bool{}
	mark := func(e ast.Expr) {
		for {
			switch t := e.(type) {
			case *ast.SelectorExpr:
				e = t.X
				continue
			case *ast.IndexExpr:
				e = t.X
				continue
			case *ast.StarExpr:
				e = t.X
				continue
			case *ast.Ident:
				if _, ok := f.lookup(t.Name); ok {
					set[t.Name] = true
				}
			}
			return
		}
	}
	// this is a look ahead over statements whose variables are not declared yet: names it fails to resolve are not uses
	savedFree := map[string]bool{}
	for k := range f.p.freeNames {
		savedFree[k] = true
	}
	defer func() { f.p.freeNames = savedFree }()
	ast.Inspect(&ast.BlockStmt{List: body}, func(n ast.Node) bool {
		switch s := n.(type) {
		case *ast.AssignStmt:
			for _, l := range s.Lhs {
				mark(l)
			}
		case *ast.IncDecStmt:
			mark(s.X)
		case *ast.SendStmt:
			if _, ok := f.p.unit.sends[src(s.Chan)]; ok && f.recv != "" {
				set[f.recv] = true // what was sent is kept in the receiver
			}
			if f.isQueue(s.Chan) {
				mark(s.Chan)
			}
		case *ast.UnaryExpr:
			if qx := f.queueRecv(s); qx != nil {
				mark(qx)
			}
		case *ast.CallExpr:
			if _, ef := f.effectOf(s); ef != nil && f.recv != "" {
				set[f.recv] = true // the history of operations lives in the receiver
			}
			if r := f.byteRead(s); r != nil {
				mark(r)
			}
			if target, _ := f.bufWrite(s); target != nil {
				mark(target)
			}
			if f.isTranslatedMethodCall(s) {
				sel := s.Fun.(*ast.SelectorExpr)
				if f.p.methodSig(sel.Sel.Name).ptrRecv {
					mark(sel.X)
				}
			}
			if recv := randDraw(s); recv != nil {
				mark(recv)
			}
			if key := f.p.calleeKey(f.key, s); key != "" && f.p.sigs[key].ptrParam != "" {
				if x := ptrTarget(s.Args[f.p.sigs[key].ptrIdx]); x != nil {
					mark(x) // updated through the pointer
				}
			}
		}
		return true
	})
	var l []string
	for n := range set {
		l = append(l, n)
	}
	sort.Strings(l)
	return l
}

func (f *trFn) rangeStmt(ind string, st *ast.RangeStmt, k cont) string {
	if id, ok := st.X.(*ast.Ident); ok && f.chanVars[id.Name] && st.Value == nil && st.Key != nil {
		// `for x := range ch`: the elements of the channel (translated as the list of what arrives on it)
		st = &ast.RangeStmt{For: st.For, Key: ast.NewIdent("_"), Value: st.Key, Tok: st.Tok, X: st.X, Body: st.Body}
	}
	if id, ok := st.X.(*ast.Ident); ok && f.mapVars[id.Name] {
		// `for k, v := range m`: Go visits the entries in an order of its choosing — `ext.mapOrder` is that choice (the caller of
		// a theorem says that it is a permutation)
		return f.loopOver(ind, "(ext.mapOrder "+f.v(id.Name)+".entries)", st.Body.List, func() string {
			k, v := "_k", "_v"
			if kid, ok := st.Key.(*ast.Ident); ok && kid.Name != "_" {
				k = f.declare(kid.Name)
			}
			if st.Value != nil {
				if vid, ok := st.Value.(*ast.Ident); ok && vid.Name != "_" {
					v = f.declare(vid.Name)
				}
			}
			return "(" + k + ", " + v + ")"
		}, k)
	}
	keyName := ""
	if st.Key != nil {
		id, ok := st.Key.(*ast.Ident)
		if !ok {
			trFail(st, "range key is not an identifier")
		}
		if id.Name != "_" {
			keyName = id.Name
		}
	}
	coll := f.expr(st.X)
	if keyName != "" {
		coll = "(goEnum " + coll + ")"
	}
	return f.loopOver(ind, coll, st.Body.List, func() string {
		x := "_x"
		if st.Value != nil {
			x = f.declare(st.Value.(*ast.Ident).Name)
		}
		if keyName != "" {
			x = "(" + f.declare(keyName) + ", " + x + ")"
		}
		return x
	}, k)
}

// loopOver: `goRange coll state (fun state x => body) (fun state => k)`
func (f *trFn) loopOver(ind string, coll string, body []ast.Stmt, declare func() string, k cont) string {
	state := f.assignedOuter(body)
	saved := f.loop
	f.loop = &trLoop{state: state}
	f.loops++
	f.brkStack = append(f.brkStack, 'l')
	stateTuple := f.loopState()
	f.push()
	x := declare()
	out := fmt.Sprintf("%sgoRange %s %s\n", ind, coll, stateTuple)
	out += fmt.Sprintf("%s  (fun %s %s =>\n", ind, stateTuple, x)
	out += f.stmts(ind+"    ", body, func(ind string) string { return ind + "LoopStep.next " + f.loopState() + "\n" })
	out = strings.TrimRight(out, "\n") + ")\n"
	f.pop()
	f.loop = saved
	f.loops--
	f.brkStack = f.brkStack[:len(f.brkStack)-1]
	out += fmt.Sprintf("%s  (fun %s =>\n", ind, stateTuple)
	out += strings.TrimRight(k(ind+"    "), "\n") + ")\n"
	return out
}

// forStmt: the counting loop `for i := lo; i < hi; i++ { body }` where the body assigns neither i nor
// a variable of hi: the same iterations as ranging over lo, lo+1, …, hi-1
// whileStmt: `for cond { body }` runs on fuel (`ext.fuel` rounds); running out of it is reported as a panic of its
// own kind, which the theorems about the translated function exclude
func (f *trFn) whileStmt(ind string, st *ast.ForStmt, k cont) string {
	if !f.panicky {
		trFail(st, "a `for cond` loop in a function translated as total")
	}
	if st.Cond != nil && len(f.guards(st.Cond)) > 0 {
		trFail(st, "loop condition with an index expression")
	}
	state := f.assignedOuter(st.Body.List)
	saved := f.loop
	f.loop = &trLoop{state: state}
	f.loops++
	f.brkStack = append(f.brkStack, 'l')
	stateTuple := f.loopState()
	out := fmt.Sprintf("%sgoWhile ext.fuel %s\n", ind, stateTuple)
	condText := "true" // `for { … }`
	if st.Cond != nil {
		condText = f.expr(st.Cond)
	}
	out += fmt.Sprintf("%s  (fun %s => %s)\n", ind, stateTuple, condText)
	out += fmt.Sprintf("%s  (fun %s =>\n", ind, stateTuple)
	f.push()
	out += f.stmts(ind+"    ", st.Body.List, func(ind string) string { return ind + "LoopStep.next " + f.loopState() + "\n" })
	out = strings.TrimRight(out, "\n") + ")\n"
	f.pop()
	f.loop = saved
	f.loops--
	f.brkStack = f.brkStack[:len(f.brkStack)-1]
	out += fmt.Sprintf("%s  (fun %s =>\n", ind, stateTuple)
	if st.Cond == nil && !hasBreak(st.Body) {
		// nothing leaves an endless loop without `break` but a return: the code behind it is never reached
		out += strings.TrimRight(f.panicLine(ind+"    ", "unreachable"), "\n") + ")\n"
	} else {
		out += strings.TrimRight(k(ind+"    "), "\n") + ")\n"
	}
	out += fmt.Sprintf("%s  %s\n", ind, f.wrapRet("(Outcome.panic \"out of fuel\")"))
	return out
}

// hasBreak: a `break` that leaves this loop (not one of a nested loop, switch or select)
func hasBreak(body *ast.BlockStmt) bool {
	found := false
	var walk func(n ast.Node) bool
	walk = func(n ast.Node) bool {
		switch v := n.(type) {
		case *ast.ForStmt, *ast.RangeStmt, *ast.SwitchStmt, *ast.SelectStmt, *ast.FuncLit:
			return false
		case *ast.BranchStmt:
			if v.Tok == token.BREAK {
				found = true
			}
		}
		return true
	}
	ast.Inspect(body, walk)
	return found
}

func (f *trFn) forStmt(ind string, st *ast.ForStmt, k cont) string {
	if sc := f.p.scanLoop(st); sc != "" {
		// `for scanner.Scan() { … scanner.Text() … }`: the scanner is the list of the lines to come
		return f.loopOver(ind, f.v(sc), st.Body.List, func() string {
			f.counter++
			cur := fmt.Sprintf("_line%d", f.counter)
			if f.scanCur == nil {
				f.scanCur = map[string]string{}
			}
			f.scanCur[sc] = cur
			return cur
		}, k)
	}
	if st.Init == nil && st.Post == nil {
		return f.whileStmt(ind, st, k)
	}
	init, ok1 := st.Init.(*ast.AssignStmt)
	cond, ok2 := st.Cond.(*ast.BinaryExpr)
	post, ok3 := st.Post.(*ast.IncDecStmt)
	if !ok1 || !ok2 || !ok3 || init.Tok != token.DEFINE || len(init.Lhs) != 1 || len(init.Rhs) != 1 || cond.Op != token.LSS || post.Tok != token.INC {
		trFail(st, "only counting loops `for i := lo; i < hi; i++` are in the translated subset")
	}
	iv, ok := init.Lhs[0].(*ast.Ident)
	cx, okc := cond.X.(*ast.Ident)
	px, okp := post.X.(*ast.Ident)
	if !ok || !okc || !okp || cx.Name != iv.Name || px.Name != iv.Name {
		trFail(st, "counting loop: condition and increment must be about the loop variable")
	}
	// nothing the bound mentions, and not the counter, may be assigned in the body
	frozen := map[string]bool{iv.Name: true}
	ast.Inspect(cond.Y, func(n ast.Node) bool {
		if id, ok := n.(*ast.Ident); ok {
			frozen[id.Name] = true
		}
		return true
	})
	root := func(e ast.Expr) string {
		for {
			switch t := e.(type) {
			case *ast.SelectorExpr:
				e = t.X
			case *ast.IndexExpr:
				e = t.X
			case *ast.StarExpr:
				e = t.X
			case *ast.Ident:
				return t.Name
			default:
				return ""
			}
		}
	}
	ast.Inspect(st.Body, func(n ast.Node) bool {
		switch s := n.(type) {
		case *ast.AssignStmt:
			for _, l := range s.Lhs {
				if frozen[root(l)] {
					trFail(s, "counting loop: the body assigns %s, which the loop header reads", root(l))
				}
			}
		case *ast.IncDecStmt:
			if frozen[root(s.X)] {
				trFail(s, "counting loop: the body assigns %s, which the loop header reads", root(s.X))
			}
		}
		return true
	})
	coll := fmt.Sprintf("(goUpTo %s %s)", f.expr(init.Rhs[0]), f.expr(cond.Y))
	return f.loopOver(ind, coll, st.Body.List, func() string { return f.declare(iv.Name) }, k)
}

// ---------------------------------------------------------------- expressions

func (f *trFn) binop(n ast.Node, op, x, y string) string {
	switch op {
	case "+", "-", "*":
		return fmt.Sprintf("(%s %s %s)", x, op, y)
	case "/":
		return fmt.Sprintf("(Int.tdiv %s %s)", x, y)
	case "%":
		return fmt.Sprintf("(Int.tmod %s %s)", x, y)
	case "==":
		return fmt.Sprintf("(%s == %s)", x, y)
	case "!=":
		return fmt.Sprintf("(%s != %s)", x, y)
	case "<", "<=", ">", ">=":
		return fmt.Sprintf("(decide (%s %s %s))", x, map[string]string{"<": "<", "<=": "≤", ">": ">", ">=": "≥"}[op], y)
	case "&&", "||":
		return fmt.Sprintf("(%s %s %s)", x, op, y)
	}
	trFail(n, "operator %s is not in the translated subset", op)
	return ""
}

func (f *trFn) expr(e ast.Expr) string {
	if len(f.p.unit.subst) > 0 {
		text := strings.Join(strings.Fields(src(e)), "")
		for k, t := range f.p.unit.subst {
			if strings.Join(strings.Fields(k), "") == text {
				return t
			}
		}
	}
	switch v := e.(type) {
	case *ast.Ident:
		switch v.Name {
		case "true", "false":
			return v.Name
		case "nil":
			return "none"
		}
		return f.v(v.Name)
	case *ast.BasicLit:
		switch v.Kind {
		case token.INT:
			return v.Value
		case token.FLOAT:
			if strings.HasSuffix(v.Value, ".0") {
				return "(" + strings.TrimSuffix(v.Value, ".0") + " : GoFloat)"
			}
			trFail(v, "float literal %s", v.Value)
		case token.STRING:
			c := eval(v, nil)
			s, _ := constStr(c)
			return f.p.strLit(s)
		case token.CHAR:
			c := eval(v, nil)
			return c.ExactString()
		}
	case *ast.ParenExpr:
		return f.expr(v.X)
	case *ast.StarExpr:
		return f.expr(v.X)
	case *ast.UnaryExpr:
		switch v.Op {
		case token.NOT:
			return "(!" + f.expr(v.X) + ")"
		case token.SUB:
			return "(-" + f.expr(v.X) + ")"
		case token.AND:
			// a pointer to a struct whose pointers are optional values
			if cl, ok := v.X.(*ast.CompositeLit); ok {
				if id, ok := cl.Type.(*ast.Ident); ok && contains(f.p.unit.optPtr, id.Name) {
					return "(some " + f.expr(v.X) + ")"
				}
			}
			if id, ok := v.X.(*ast.Ident); ok && contains(f.p.unit.optPtr, f.vtypes[id.Name]) {
				return "(some " + f.expr(v.X) + ")"
			}
			return f.expr(v.X)
		}
	case *ast.BinaryExpr:
		// `x == nil || len(x) < 1` (a slice): nil or empty, which is what the right operand alone says
		if v.Op == token.LOR {
			if l, ok := v.X.(*ast.BinaryExpr); ok && l.Op == token.EQL {
				if id, ok := l.Y.(*ast.Ident); ok && id.Name == "nil" {
					if r, ok := v.Y.(*ast.BinaryExpr); ok && (r.Op == token.LSS || r.Op == token.EQL) {
						if call, ok := r.X.(*ast.CallExpr); ok && src(call.Fun) == "len" && len(call.Args) == 1 && src(call.Args[0]) == src(l.X) &&
							((r.Op == token.LSS && src(r.Y) == "1") || (r.Op == token.EQL && src(r.Y) == "0")) {
							return f.expr(v.Y)
						}
					}
				}
			}
		}
		if id, ok := v.Y.(*ast.Ident); ok && id.Name == "nil" && (v.Op == token.EQL || v.Op == token.NEQ) && f.isRegexpPtr(v.X) {
			// a *regexp.Regexp is nil until it holds a compiled expression
			if v.Op == token.NEQ {
				return "(" + f.expr(v.X) + ").compiled"
			}
			return "(!(" + f.expr(v.X) + ").compiled)"
		}
		return f.binop(v, v.Op.String(), f.expr(v.X), f.expr(v.Y))
	case *ast.SliceExpr:
		if v.Slice3 {
			trFail(v, "three-index slices are not in the translated subset")
		}
		x := f.expr(v.X)
		if v.High != nil {
			x = fmt.Sprintf("(List.take (Int.toNat %s) %s)", f.expr(v.High), x)
		}
		if v.Low != nil {
			x = fmt.Sprintf("(List.drop (Int.toNat %s) %s)", f.expr(v.Low), x)
		}
		return x
	case *ast.SelectorExpr:
		if src(v) == "time.Second" {
			return "(1000000000 : Int)"
		}
		if id, ok := v.X.(*ast.Ident); ok {
			if _, isVar := f.lookup(id.Name); !isVar {
				if dir, ok := crossDirs[id.Name]; ok {
					if text, ok := crossConst(dir, v.Sel.Name); ok {
						return f.p.strLit(text)
					}
					if num, ok := crossInt(dir, v.Sel.Name); ok {
						return num
					}
				}
			}
		}
		if id, ok := v.X.(*ast.Ident); ok {
			if _, isVar := f.lookup(id.Name); !isVar {
				trFail(v, "package-qualified name %s is not in the translated subset", src(v))
			}
		}
		if f.p.optDeref(v.X) {
			return "(goDeref " + f.expr(v.X) + ")." + v.Sel.Name
		}
		return f.expr(v.X) + "." + v.Sel.Name
	case *ast.IndexExpr:
		return fmt.Sprintf("(GoIndex.idx %s %s)", f.expr(v.X), f.expr(v.Index))
	case *ast.TypeAssertExpr:
		if src(v) == "pool.BuilderBuffer.Get().(*strings.Builder)" || src(v) == "pool.BytesBuffer.Get().(*bytes.Buffer)" {
			return "([] : GoString)" // a fresh (reset) builder from the pool
		}
	case *ast.CompositeLit:
		if src(v.Type) == "lcontext.LContext" && len(v.Elts) == 0 {
			return "({} : GoLContext)"
		}
		switch t := v.Type.(type) {
		case *ast.Ident:
			if _, ok := f.p.unit.structs[t.Name]; ok {
				var fields []string
				for _, el := range v.Elts {
					kv, ok := el.(*ast.KeyValueExpr)
					if !ok {
						trFail(v, "struct literal without field names")
					}
					fields = append(fields, fmt.Sprintf("%s := %s", src(kv.Key), f.expr(kv.Value)))
				}
				return "({ " + strings.Join(fields, ", ") + " } : Dtail.Gen." + f.p.unit.ns + "." + t.Name + ")"
			}
		case *ast.StructType:
			if (t.Fields == nil || len(t.Fields.List) == 0) && len(v.Elts) == 0 {
				return "()"
			}
		case *ast.MapType:
			if len(v.Elts) == 0 {
				return "(GoZero.zero : " + f.p.leanType(t) + ")"
			}
		case *ast.ArrayType:
			if _, isEllipsis := t.Len.(*ast.Ellipsis); t.Len == nil || isEllipsis {
				var els []string
				for _, el := range v.Elts {
					els = append(els, f.expr(el))
				}
				return "([" + strings.Join(els, ", ") + "] : List " + f.p.leanType(t.Elt) + ")"
			}
		}
		trFail(v, "composite literal %s is not in the translated subset", src(v))
	case *ast.CallExpr:
		fn := src(v.Fun)
		if f.isTranslatedMethodCall(v) {
			sel := v.Fun.(*ast.SelectorExpr)
			key := f.p.methodKey(sel.Sel.Name)
			sig := f.p.sigs[key]
			if !f.p.pureMethod(key) {
				trFail(v, "call of the mutating method %s inside an expression", key)
			}
			path, _ := f.recvPath(v, sel.X.(*ast.Ident).Name, sig)
			var args []string
			for _, a := range v.Args {
				args = append(args, f.expr(a))
			}
			call := strings.TrimSpace(fmt.Sprintf("%s ext %s %s", key, path, strings.Join(args, " ")))
			if sig.ptrRecv {
				return "(" + call + ").2"
			}
			return "(" + call + ")"
		}
		if key := f.p.calleeKey(f.key, v); key != "" && f.p.canPanic[key] {
			trFail(v, "call of %s, which can panic, inside an expression", key)
		}
		if id, ok := v.Fun.(*ast.Ident); ok {
			if lk := f.localFns[id.Name]; lk != "" {
				var args []string
				for _, a := range v.Args {
					args = append(args, f.expr(a))
				}
				return "(" + strings.TrimSpace(fmt.Sprintf("%s ext %s", leanIdent(lk), strings.Join(args, " "))) + ")"
			}
			if sig, ok := f.p.sigs[id.Name]; ok && sig.recv == "" {
				var args []string
				for _, a := range v.Args {
					args = append(args, f.expr(a))
				}
				return "(" + strings.TrimSpace(fmt.Sprintf("%s ext %s", leanIdent(id.Name), strings.Join(args, " "))) + ")"
			}
		}
		if sel, ok := v.Fun.(*ast.SelectorExpr); ok {
			if term, ok := f.p.unit.opaque[sel.Sel.Name]; ok && len(v.Args) == 0 {
				if id, isId := sel.X.(*ast.Ident); isId && id.Name == f.recv {
					return "(ext." + term + " " + leanBytesLit(sel.Sel.Name) + ")"
				}
			}
			if id, isId := sel.X.(*ast.Ident); isId && sel.Sel.Name == "MatchString" && len(v.Args) == 1 && f.regexVars[id.Name] {
				return "(ext.reMatchRaw " + f.expr(sel.X) + " " + f.expr(v.Args[0]) + ")"
			}
			if sel.Sel.Name == "MatchString" && len(v.Args) == 1 && f.isRegexpPtr(sel.X) {
				return "(ext.reMatchRaw " + f.expr(sel.X) + " " + f.expr(v.Args[0]) + ")"
			}
			if sel.Sel.Name == "Match" && len(v.Args) == 1 && !f.isTranslatedMethodCall(v) {
				if _, isIdent := sel.X.(*ast.Ident); !isIdent || f.p.unit.matchExt == "reMatchRaw" {
					return "(ext." + f.p.unit.matchExt + " " + f.expr(sel.X) + " " + f.expr(v.Args[0]) + ")"
				}
			}
			if id, isId := sel.X.(*ast.Ident); isId && sel.Sel.Name == "Text" && len(v.Args) == 0 {
				if cur, ok := f.scanCur[id.Name]; ok {
					return cur
				}
			}
			switch sel.Sel.Name {
			case "Error":
				if id, ok := sel.X.(*ast.Ident); ok && len(v.Args) == 0 {
					if _, isVar := f.lookup(id.Name); isVar {
						return "(Option.getD " + f.expr(sel.X) + " [])"
					}
				}
			case "Len":
				if len(v.Args) == 0 && contains(f.p.unit.bufVars, src(sel.X)) {
					return "(GoLen.len " + f.expr(sel.X) + ")"
				}
			case "Bytes", "String":
				if len(v.Args) == 0 && contains(f.p.unit.bufVars, src(sel.X)) {
					return f.expr(sel.X)
				}
				if len(v.Args) == 0 {
					if id, ok := sel.X.(*ast.Ident); ok {
						if _, isVar := f.lookup(id.Name); isVar {
							return f.expr(sel.X) // buffer and string are both byte lists
						}
					}
				}
			case "Match":
				if id, ok := sel.X.(*ast.Ident); ok && len(v.Args) == 1 {
					if _, isVar := f.lookup(id.Name); isVar {
						return "(ext." + f.p.unit.matchExt + " " + f.expr(sel.X) + " " + f.expr(v.Args[0]) + ")"
					}
				}
			}
		}
		if term, ok := f.p.unit.callExt[fn]; ok {
			var args []string
			for _, a := range v.Args {
				args = append(args, f.expr(a))
			}
			return "(ext." + term + " " + strings.Join(args, " ") + ")"
		}
		switch fn {
		case "percentOf":
			return "(ext.percentOf " + f.expr(v.Args[0]) + " " + f.expr(v.Args[1]) + ")"
		case "line.Null":
			return "GoLine.null"
		case "line.New":
			return fmt.Sprintf("(GoLine.new %s %s %s %s)", f.expr(v.Args[0]), f.expr(v.Args[1]), f.expr(v.Args[2]), f.expr(v.Args[3]))
		case "int", "uint64", "int64", "float64", "uint":
			return "(goConv " + f.expr(v.Args[0]) + ")"
		case "len":
			return "(GoLen.len " + f.expr(v.Args[0]) + ")"
		case "append":
			if len(v.Args) != 2 {
				trFail(v, "append with %d arguments", len(v.Args))
			}
			if v.Ellipsis.IsValid() {
				return "(" + f.expr(v.Args[0]) + " ++ " + f.expr(v.Args[1]) + ")"
			}
			return "(" + f.expr(v.Args[0]) + " ++ [" + f.expr(v.Args[1]) + "])"
		case "make":
			switch t := v.Args[0].(type) {
			case *ast.MapType:
				return "(GoZero.zero : " + f.p.leanType(t) + ")" // the capacity hint has no meaning
			case *ast.ArrayType:
				if t.Len == nil && len(v.Args) == 2 {
					return fmt.Sprintf("(List.replicate (Int.toNat %s) %s)", f.expr(v.Args[1]), f.p.leanZero(t.Elt))
				}
			case *ast.ChanType:
				if len(v.Args) == 2 && f.p.unit.chanTypes["both"] == "GoQueue" {
					return fmt.Sprintf("(GoQueue.mk %s [])", f.expr(v.Args[1]))
				}
			}
			trFail(v, "make(%s, …) is not in the translated subset", src(v.Args[0]))
		case "rand.New":
			return "ext.randNew"
		case "strings.Split":
			return "(splitOnByte " + f.oneByteLit(v.Args[1]) + " " + f.expr(v.Args[0]) + ")"
		case "strings.SplitN":
			n := eval(v.Args[2], nil)
			if n == nil || n.Kind() != constant.Int {
				trFail(v, "strings.SplitN with a limit that is not a constant")
			}
			return "(splitN " + f.oneByteLit(v.Args[1]) + " " + n.ExactString() + " " + f.expr(v.Args[0]) + ")"
		case "strings.ToLower":
			return "(lowerKey " + f.expr(v.Args[0]) + ")"
		case "strings.ToUpper":
			return "(upperAscii " + f.expr(v.Args[0]) + ")"
		case "strings.EqualFold":
			return "(equalFoldAscii " + f.expr(v.Args[0]) + " " + f.expr(v.Args[1]) + ")"
		case "strings.Fields":
			return "(fields " + f.expr(v.Args[0]) + ")"
		case "strings.Replace":
			if n := eval(v.Args[3], nil); n == nil || n.ExactString() != "-1" {
				trFail(v, "strings.Replace with a count other than -1")
			}
			return fmt.Sprintf("(List.map (fun b => if b == %s then %s else b) %s)", f.oneByteLit(v.Args[1]), f.oneByteLit(v.Args[2]), f.expr(v.Args[0]))
		case "strings.HasSuffix":
			return "(hasSuffix " + f.expr(v.Args[1]) + " " + f.expr(v.Args[0]) + ")"
		case "time.Duration":
			return "(goConv " + f.expr(v.Args[0]) + ")"
		case "base64.StdEncoding.DecodeString":
			return "(ext.base64Decode " + f.expr(v.Args[0]) + ")"
		case "string":
			return f.expr(v.Args[0])
		case "funcs.NewFunctionStack":
			return "(ext.newFunctionStack " + f.expr(v.Args[0]) + ")"
		case "strings.HasPrefix":
			return "(hasPrefix " + f.expr(v.Args[1]) + " " + f.expr(v.Args[0]) + ")"
		case "strings.Contains":
			return "(List.contains " + f.expr(v.Args[0]) + " " + f.oneByteLit(v.Args[1]) + ")"
		case "strings.ContainsAny":
			c := eval(v.Args[1], nil)
			if c == nil {
				trFail(v, "strings.ContainsAny: the character set is not a constant")
			}
			set, _ := constStr(c)
			var alts []string
			for _, b := range []byte(set) {
				if b >= 0x80 {
					trFail(v, "strings.ContainsAny with a non-ASCII character set")
				}
				alts = append(alts, fmt.Sprintf("List.contains %s (%d : UInt8)", f.expr(v.Args[0]), b))
			}
			return "(" + strings.Join(alts, " || ") + ")"
		case "strings.Join":
			return "(joinByte " + f.oneByteLit(v.Args[1]) + " " + f.expr(v.Args[0]) + ")"
		case "regexp.Compile":
			return "(ext.reCompile " + f.expr(v.Args[0]) + ")"
		case "fmt.Sprintf":
			return f.sprintf(v)
		case "strconv.ParseFloat":
			return "(ext.parseFloat " + f.expr(v.Args[0]) + ")"
		case "strconv.Atoi":
			return "(ext.atoi " + f.expr(v.Args[0]) + ")"
		case "fmt.Errorf", "errors.New":
			// an error is its presence and its (format) text; the formatted arguments are not modelled
			c := eval(v.Args[0], nil)
			if c == nil {
				if fn == "errors.New" {
					return "(some " + f.expr(v.Args[0]) + ")"
				}
				trFail(v, "error text is not a constant")
			}
			text, _ := constStr(c)
			return "(some " + f.p.strLit(text) + ")"
		}
		trFail(v, "call of %s is not in the translated subset", fn)
	}
	trFail(e, "expression %s (%T) is not in the translated subset", src(e), e)
	return ""
}

// isRegexpPtr: the expression is a variable or a field of the receiver declared as *regexp.Regexp
func (f *trFn) isRegexpPtr(e ast.Expr) bool {
	sel, ok := e.(*ast.SelectorExpr)
	if !ok {
		return false
	}
	base, ok := sel.X.(*ast.Ident)
	if !ok {
		return false
	}
	st, ok := f.p.structs[f.vtypes[base.Name]]
	if !ok {
		return false
	}
	for _, fl := range st.Fields.List {
		for _, n := range fl.Names {
			if n.Name == sel.Sel.Name {
				return src(fl.Type) == "*regexp.Regexp"
			}
		}
	}
	return false
}

// leanBytesLit: a Go string constant as an explicit byte list (reduces in the kernel, unlike a run-time conversion)
// strLit: a string literal inside a translated function; in panic-aware units the longer ones become definitions of
// their own (`lit_k`), which keeps the function bodies small enough to reason about
func (p *trPkg) strLit(text string) string {
	if !p.unit.panics || len(text) <= 4 {
		return leanBytesLit(text)
	}
	for i, t := range p.strLits {
		if t == text {
			return fmt.Sprintf("lit_%d", i)
		}
	}
	p.strLits = append(p.strLits, text)
	return fmt.Sprintf("lit_%d", len(p.strLits)-1)
}

func leanBytesLit(text string) string {
	if text == "" {
		return "([] : GoString)"
	}
	var parts []string
	for _, b := range []byte(text) {
		parts = append(parts, fmt.Sprint(b))
	}
	return "([" + strings.Join(parts, ", ") + "] : GoString)"
}

// oneByteLit: a string literal of exactly one byte, as a Lean UInt8 literal (the only separators the prelude's
// split / join / contains take)
func (f *trFn) oneByteLit(e ast.Expr) string {
	c := eval(e, nil)
	if c == nil {
		if sel, ok := e.(*ast.SelectorExpr); ok {
			if id, ok := sel.X.(*ast.Ident); ok {
				if dir, ok := crossDirs[id.Name]; ok {
					if text, ok := crossConst(dir, sel.Sel.Name); ok {
						c = constant.MakeString(text)
					}
				}
			}
		}
	}
	if c == nil {
		trFail(e, "separator is not a constant")
	}
	s, ok := constStr(c)
	if !ok || len(s) != 1 {
		trFail(e, "separator %q is not a one-byte string", s)
	}
	return fmt.Sprintf("(%d : UInt8)", s[0])
}

// sprintf: fmt.Sprintf whose verbs are all %s applied to strings becomes a concatenation
func (f *trFn) sprintf(v *ast.CallExpr) string {
	c := eval(v.Args[0], nil)
	if c == nil {
		trFail(v, "format is not a constant")
	}
	format, _ := constStr(c)
	if (format == "%v" || format == "%d") && len(v.Args) == 2 {
		return "(GoFmt.fmt ext " + f.expr(v.Args[1]) + ")" // how a value of this type is printed: `true` / `false`, `ext.fmtInt`
	}
	parts := strings.Split(format, "%s")
	if len(parts) != len(v.Args) || strings.Contains(strings.Join(parts, ""), "%") {
		trFail(v, "fmt.Sprintf format %q: only %%s verbs, one per argument", format)
	}
	var out []string
	for i, p := range parts {
		if p != "" {
			out = append(out, f.p.strLit(p))
		}
		if i+1 < len(parts) {
			out = append(out, f.expr(v.Args[i+1]))
		}
	}
	return "(" + strings.Join(out, " ++ ") + ")"
}

// ---------------------------------------------------------------- driver

func (p *trPkg) emitFunc(sb *strings.Builder, key string) {
	var ftype *ast.FuncType
	var body *ast.BlockStmt
	var recvField *ast.Field
	var at ast.Node
	if lit, ok := p.lits[key]; ok {
		ftype, body, at = lit.Type, lit.Body, lit
	} else {
		d, ok := p.funcs[key]
		if !ok {
			trFail(nil, "function %s not found in %s", key, p.unit.pkgDir)
		}
		ftype, body, at = d.Type, d.Body, d
		if d.Recv != nil {
			recvField = d.Recv.List[0]
		}
	}
	sig := p.sigs[key]
	f := &trFn{p: p, sig: sig, vtypes: map[string]string{}, key: key, panicky: p.canPanic[key], localFns: map[string]string{}}
	f.push()
	params := "(ext : Ext)"
	if recvField != nil {
		if len(recvField.Names) == 0 {
			recvField.Names = []*ast.Ident{ast.NewIdent("g")} // `func (*T) m()`: the translation names the receiver
		}
		f.recv = recvField.Names[0].Name
		params += fmt.Sprintf(" (%s : %s)", f.declare(f.recv), sig.recv)
		f.vtypes[f.recv] = sig.recv
	}
	f.mapVars = p.mapVarsOf(ftype, body)
	f.chanVars = map[string]bool{}
	for _, fl := range ftype.Params.List {
		for _, n := range fl.Names {
			params += fmt.Sprintf(" (%s : %s)", f.declare(n.Name), p.leanType(fl.Type))
			f.vtypes[n.Name] = recvTypeName(fl.Type)
			if _, isChan := fl.Type.(*ast.ChanType); isChan {
				f.chanVars[n.Name] = true
			}
		}
	}
	var rtypes []string
	if sig.ptrRecv {
		rtypes = append(rtypes, sig.recv)
	}
	if sig.ptrParam != "" {
		rtypes = append(rtypes, sig.ptrType)
	}
	pre := ""
	if ftype.Results != nil {
		for _, fl := range ftype.Results.List {
			n := len(fl.Names)
			if n == 0 {
				n = 1
			}
			for i := 0; i < n; i++ {
				f.resTypes = append(f.resTypes, fl.Type)
			}
			if len(fl.Names) == 0 {
				rtypes = append(rtypes, p.leanType(fl.Type))
			}
			for _, n := range fl.Names {
				rtypes = append(rtypes, p.leanType(fl.Type))
				f.named = append(f.named, n.Name)
				pre += fmt.Sprintf("  let %s : %s := %s\n", f.declare(n.Name), p.leanType(fl.Type), p.leanZero(fl.Type))
			}
		}
	}
	rt := "Unit"
	if len(rtypes) > 0 {
		rt = strings.Join(rtypes, " × ")
	}
	if f.panicky {
		rt = "Outcome (" + rt + ")"
	}
	// closures defined by `name := func(…) {…}` at the top level of the body were lifted to functions of their own
	for _, st := range body.List {
		if as, ok := st.(*ast.AssignStmt); ok && as.Tok == token.DEFINE && len(as.Lhs) == 1 && len(as.Rhs) == 1 {
			if _, isLit := as.Rhs[0].(*ast.FuncLit); isLit {
				f.localFns[as.Lhs[0].(*ast.Ident).Name] = key + "_" + as.Lhs[0].(*ast.Ident).Name
			}
		}
	}
	fmt.Fprintf(sb, "/-- %s %s (%s) -/\n", filepath.Join(p.unit.pkgDir, filepath.Base(fset.Position(at.Pos()).Filename)), key, "translated")
	fmt.Fprintf(sb, "def %s %s : %s :=\n", key, params, rt)
	f.push()
	out := f.stmts("  ", body.List, func(ind string) string {
		var vals []string
		for _, n := range f.named {
			vals = append(vals, f.v(n))
		}
		if len(vals) == 0 && sig.nResults > 0 {
			trFail(at, "control reaches the end of %s without a return", key)
		}
		return f.emitReturn(ind, vals)
	})
	sb.WriteString(pre + out + "\n")
}

// mapVarsOf: the parameters of map type and the locals made with make(map…)
func (p *trPkg) mapVarsOf(ftype *ast.FuncType, body *ast.BlockStmt) map[string]bool {
	m := map[string]bool{}
	for _, fl := range ftype.Params.List {
		if _, ok := fl.Type.(*ast.MapType); ok {
			for _, n := range fl.Names {
				m[n.Name] = true
			}
		}
	}
	ast.Inspect(body, func(n ast.Node) bool {
		if as, ok := n.(*ast.AssignStmt); ok && len(as.Lhs) == 1 && len(as.Rhs) == 1 {
			if call, ok := as.Rhs[0].(*ast.CallExpr); ok && src(call.Fun) == "make" && len(call.Args) > 0 {
				if _, isMap := call.Args[0].(*ast.MapType); isMap {
					if id, ok := as.Lhs[0].(*ast.Ident); ok {
						m[id.Name] = true
					}
				}
			}
			if cl, ok := as.Rhs[0].(*ast.CompositeLit); ok {
				if _, isMap := cl.Type.(*ast.MapType); isMap {
					if id, ok := as.Lhs[0].(*ast.Ident); ok {
						m[id.Name] = true
					}
				}
			}
		}
		return true
	})
	return m
}

// optDeref: e is `x.F` with F a field of pointer type whose target is one of the unit's optional structs — selecting a
// field of e dereferences a pointer that may be nil
func (p *trPkg) optDeref(e ast.Expr) bool {
	sel, ok := e.(*ast.SelectorExpr)
	if !ok || len(p.unit.optPtr) == 0 {
		return false
	}
	if _, isIdent := sel.X.(*ast.Ident); !isIdent {
		return false
	}
	for name := range p.unit.structs {
		st, ok := p.structs[name]
		if !ok {
			continue
		}
		for _, fl := range st.Fields.List {
			star, ok := fl.Type.(*ast.StarExpr)
			if !ok {
				continue
			}
			id, ok := star.X.(*ast.Ident)
			if !ok || !contains(p.unit.optPtr, id.Name) {
				continue
			}
			for _, n := range fl.Names {
				if n.Name == sel.Sel.Name {
					return true
				}
			}
		}
	}
	return false
}

// scanLoop: `for v.Scan() { … }` over one of the unit's scanners: the scanner's name
func (p *trPkg) scanLoop(st *ast.ForStmt) string {
	if st.Init != nil || st.Post != nil || st.Cond == nil {
		return ""
	}
	call, ok := st.Cond.(*ast.CallExpr)
	if !ok || len(call.Args) != 0 {
		return ""
	}
	sel, ok := call.Fun.(*ast.SelectorExpr)
	if !ok || sel.Sel.Name != "Scan" {
		return ""
	}
	id, ok := sel.X.(*ast.Ident)
	if !ok || !contains(p.unit.scanners, id.Name) {
		return ""
	}
	return id.Name
}

// bodyOf: the body of a translated function or lifted closure
func (p *trPkg) bodyOf(key string) *ast.BlockStmt {
	if lit, ok := p.lits[key]; ok {
		return lit.Body
	}
	return p.funcs[key].Body
}

// calleeKey: the key of the translated function a call expression invokes ("" if none); outer is the key of the
// function the call stands in (for its closures)
func (p *trPkg) calleeKey(outer string, call *ast.CallExpr) string {
	switch fn := call.Fun.(type) {
	case *ast.Ident:
		if _, ok := p.sigs[outer+"_"+fn.Name]; ok {
			return outer + "_" + fn.Name
		}
		if s, ok := p.sigs[fn.Name]; ok && s.recv == "" {
			return fn.Name
		}
	case *ast.SelectorExpr:
		if _, isIdent := fn.X.(*ast.Ident); isIdent {
			if k := p.methodKey(fn.Sel.Name); k != "" {
				return k
			}
		}
	}
	return ""
}

// computeCanPanic: a function can panic if it indexes or slices (other than the comma-ok form), loops without a
// bound the translator can see, or calls a function that can (least fixpoint)
func (p *trPkg) computeCanPanic() {
	direct := func(key string) bool {
		found := false
		okForm := map[ast.Expr]bool{}
		var ftype *ast.FuncType
		if lit, ok := p.lits[key]; ok {
			ftype = lit.Type
		} else {
			ftype = p.funcs[key].Type
		}
		maps := p.mapVarsOf(ftype, p.bodyOf(key))
		ast.Inspect(p.bodyOf(key), func(n ast.Node) bool {
			switch v := n.(type) {
			case *ast.FuncLit:
				return false // judged on its own
			case *ast.AssignStmt:
				if len(v.Lhs) == 2 && len(v.Rhs) == 1 {
					if ix, ok := v.Rhs[0].(*ast.IndexExpr); ok {
						okForm[ix] = true
					}
				}
			case *ast.IndexExpr:
				if id, ok := v.X.(*ast.Ident); ok && maps[id.Name] {
					break
				}
				if !okForm[v] {
					found = true
				}
			case *ast.SliceExpr:
				found = true
			case *ast.CallExpr:
				if src(v.Fun) == "make" && len(v.Args) == 2 {
					if _, isChan := v.Args[0].(*ast.ChanType); isChan && p.unit.chanTypes["both"] == "GoQueue" {
						found = true // makechan: size out of range
					}
				}
				if src(v.Fun) == "panic" {
					found = true
				}
			case *ast.SendStmt:
				if contains(p.unit.queues, src(v.Chan)) {
					found = true // may block for ever
				}
			case *ast.UnaryExpr:
				if v.Op == token.ARROW && contains(p.unit.queues, src(v.X)) {
					found = true
				}
			case *ast.SelectorExpr:
				if p.optDeref(v.X) {
					found = true
				}
			case *ast.ForStmt:
				if v.Init == nil && v.Post == nil && p.scanLoop(v) == "" {
					found = true // `for cond {…}`: runs on fuel
				}
			}
			return true
		})
		return found
	}
	for _, key := range p.litOrder {
		if direct(key) {
			p.canPanic[key] = true
		}
	}
	for changed := true; changed; {
		changed = false
		for _, key := range p.litOrder {
			if p.canPanic[key] {
				continue
			}
			ast.Inspect(p.bodyOf(key), func(n ast.Node) bool {
				if _, isLit := n.(*ast.FuncLit); isLit {
					return false
				}
				if call, ok := n.(*ast.CallExpr); ok {
					if k := p.calleeKey(key, call); k != "" && p.canPanic[k] && !p.canPanic[key] {
						p.canPanic[key] = true
						changed = true
					}
					if ex, ok := p.unit.extern[src(call.Fun)]; ok && ex.canPanic && !p.canPanic[key] {
						p.canPanic[key] = true
						changed = true
					}
				}
				return true
			})
		}
	}
}

// emitConst: a package-level string constant as a Lean definition
func (p *trPkg) emitConst(sb *strings.Builder, name string) {
	for _, f := range p.files {
		for _, d := range f.Decls {
			gd, ok := d.(*ast.GenDecl)
			if !ok || gd.Tok != token.CONST {
				continue
			}
			for _, sp := range gd.Specs {
				vs := sp.(*ast.ValueSpec)
				for i, n := range vs.Names {
					if n.Name != name || i >= len(vs.Values) {
						continue
					}
					c := eval(vs.Values[i], nil)
					text, ok := constStr(c)
					if !ok {
						trFail(vs, "constant %s is not a string constant", name)
					}
					fmt.Fprintf(sb, "/-- %s const %s (translated) -/\ndef %s : GoString := %s\n\n", p.unit.pkgDir, name, leanIdent(name), leanBytesLit(text))
					return
				}
			}
		}
	}
	trFail(nil, "constant %s not found in %s", name, p.unit.pkgDir)
}

// packages whose string constants translated code may name
var crossDirs = map[string]string{"protocol": "internal/protocol", "config": "internal/config"}

// crossConst: a string constant of another package of the repository
func crossConst(dir, name string) (string, bool) {
	ents, err := os.ReadDir(filepath.Join(repo, dir))
	if err != nil {
		return "", false
	}
	for _, e := range ents {
		if !strings.HasSuffix(e.Name(), ".go") || strings.HasSuffix(e.Name(), "_test.go") {
			continue
		}
		f, err := parser.ParseFile(fset, filepath.Join(repo, dir, e.Name()), nil, 0)
		if err != nil {
			continue
		}
		for _, d := range f.Decls {
			gd, ok := d.(*ast.GenDecl)
			if !ok || gd.Tok != token.CONST {
				continue
			}
			for _, sp := range gd.Specs {
				vs := sp.(*ast.ValueSpec)
				for i, n := range vs.Names {
					if n.Name == name && i < len(vs.Values) {
						if text, ok := constStr(eval(vs.Values[i], nil)); ok {
							return text, true
						}
					}
				}
			}
		}
	}
	return "", false
}

// crossInt: an integer (or character) constant of another package of the repository
func crossInt(dir, name string) (string, bool) {
	ents, err := os.ReadDir(filepath.Join(repo, dir))
	if err != nil {
		return "", false
	}
	for _, e := range ents {
		if !strings.HasSuffix(e.Name(), ".go") || strings.HasSuffix(e.Name(), "_test.go") {
			continue
		}
		f, err := parser.ParseFile(fset, filepath.Join(repo, dir, e.Name()), nil, 0)
		if err != nil {
			continue
		}
		for _, d := range f.Decls {
			gd, ok := d.(*ast.GenDecl)
			if !ok || gd.Tok != token.CONST {
				continue
			}
			for _, sp := range gd.Specs {
				vs := sp.(*ast.ValueSpec)
				for i, n := range vs.Names {
					if n.Name == name && i < len(vs.Values) {
						if c := eval(vs.Values[i], nil); c != nil && c.Kind() == constant.Int {
							return c.ExactString(), true
						}
					}
				}
			}
		}
	}
	return "", false
}

// emitVar: a package-level `var name = <composite literal of constants>` as a Lean definition
func (p *trPkg) emitVar(sb *strings.Builder, name string) {
	for _, f := range p.files {
		for _, d := range f.Decls {
			gd, ok := d.(*ast.GenDecl)
			if !ok || gd.Tok != token.VAR {
				continue
			}
			for _, sp := range gd.Specs {
				vs := sp.(*ast.ValueSpec)
				for i, n := range vs.Names {
					if n.Name != name || i >= len(vs.Values) {
						continue
					}
					fn := &trFn{p: p, sig: &trSig{}, vtypes: map[string]string{}}
					fn.push()
					fmt.Fprintf(sb, "/-- %s var %s (translated) -/\ndef %s := %s\n\n", p.unit.pkgDir, name, leanIdent(name), fn.expr(vs.Values[i]))
					return
				}
			}
		}
	}
	trFail(nil, "package-level variable %s not found in %s", name, p.unit.pkgDir)
}

func translateAll() string {
	var sb strings.Builder
	sb.WriteString("-- GENERATED by /verif/extract (translate.go) from the /repo working tree — do not edit; regenerated on every run.\n")
	sb.WriteString("import DtailModel.Model.GoRT\nset_option linter.unusedVariables false\nopen Dtail.Go\n\n")
	for _, u := range trUnits {
		sb.WriteString(translateUnit(u))
	}
	return sb.String()
}

// translateUnit translates one package; a failure is confined to the unit: its section then holds a marker
// instead of code, and the runner charges only the properties that depend on the unit
func translateUnit(u trUnit) (out string) {
	var sb strings.Builder
	defer func() {
		if r := recover(); r != nil {
			if te, ok := r.(trErr); ok {
				fmt.Fprintf(os.Stderr, "TRANSLATE-PROBLEM unit=%s: %s\n", u.ns, te.msg)
				out = fmt.Sprintf("-- UNIT %s FAILED: %s\n\n", u.ns, strings.ReplaceAll(te.msg, "\n", " "))
				return
			}
			// any other failure of the translator on this unit's source (a runtime error while unwinding, a shape of
			// code it was never written for) is confined to the unit as well: the other units' theorems still stand
			msg := strings.ReplaceAll(fmt.Sprint(r), "\n", " ")
			fmt.Fprintf(os.Stderr, "TRANSLATE-PROBLEM unit=%s: translator error: %s\n", u.ns, msg)
			out = fmt.Sprintf("-- UNIT %s FAILED: translator error: %s\n\n", u.ns, msg)
		}
	}()
	{
		p := loadPkg(u)
		for _, key := range u.funcs {
			d, ok := p.funcs[key]
			if !ok {
				trFail(nil, "function %s not found in %s", key, u.pkgDir)
			}
			s := &trSig{}
			if d.Recv != nil {
				s.recv = recvTypeName(d.Recv.List[0].Type)
				_, s.ptrRecv = d.Recv.List[0].Type.(*ast.StarExpr)
				if s.recv == u.effectOwner && u.effectOwner != "" {
					s.ptrRecv = true // the history of operations lives in the receiver, whatever its kind
				}
			}
			if d.Type.Results != nil {
				for _, fl := range d.Type.Results.List {
					if len(fl.Names) == 0 {
						s.nResults++
					}
					s.nResults += len(fl.Names)
				}
			}
			if d.Recv == nil || len(u.constPtr) > 0 {
				idx := 0
				for _, fl := range d.Type.Params.List {
					if st, ok := fl.Type.(*ast.StarExpr); ok && len(fl.Names) == 1 && s.ptrParam == "" && !contains(u.constPtr, fl.Names[0].Name) {
						name := ""
						if id, ok := st.X.(*ast.Ident); ok && !contains(u.optPtr, id.Name) {
							if _, isStruct := u.structs[id.Name]; isStruct {
								name = id.Name
							}
						}
						if src(st.X) == "lcontext.LContext" {
							name = "GoLContext"
						}
						if src(st.X) == "strings.Builder" {
							name = "GoString"
						}
						if name != "" {
							s.ptrParam, s.ptrIdx, s.ptrType = fl.Names[0].Name, idx, name
						}
					}
					idx += len(fl.Names)
				}
			}
			p.sigs[key] = s
		}
		// closures `name := func(…) {…}` at the top level of a translated function become functions of their own
		var order []string
		for _, key := range u.funcs {
			for _, st := range p.funcs[key].Body.List {
				as, ok := st.(*ast.AssignStmt)
				if !ok || as.Tok != token.DEFINE || len(as.Lhs) != 1 || len(as.Rhs) != 1 {
					continue
				}
				lit, ok := as.Rhs[0].(*ast.FuncLit)
				if !ok {
					continue
				}
				lk := key + "_" + as.Lhs[0].(*ast.Ident).Name
				ls := &trSig{}
				if lit.Type.Results != nil {
					for _, fl := range lit.Type.Results.List {
						if len(fl.Names) == 0 {
							ls.nResults++
						}
						ls.nResults += len(fl.Names)
					}
				}
				p.sigs[lk] = ls
				p.lits[lk] = lit
				order = append(order, lk)
			}
			order = append(order, key)
		}
		p.litOrder = order
		if u.panics {
			p.computeCanPanic()
		}
		fmt.Fprintf(&sb, "namespace Dtail.Gen.%s\n\n", u.ns)
		for _, c := range u.consts {
			p.emitConst(&sb, c)
		}
		for _, en := range u.enums {
			p.emitEnum(&sb, en)
		}
		// structs in dependency order: those without struct-typed fields first (simple fixpoint)
		var names []string
		for n := range u.structs {
			names = append(names, n)
		}
		sort.Strings(names)
		emitted := map[string]bool{}
		for len(emitted) < len(names) {
			progress := false
			for _, n := range names {
				if emitted[n] {
					continue
				}
				ready := true
				want := u.structs[n]
				for _, fl := range p.structs[n].Fields.List {
					fnames := fl.Names
					if len(fnames) == 0 {
						fnames = []*ast.Ident{ast.NewIdent(recvTypeName(fl.Type))}
					}
					for _, id := range fnames {
						if want != nil && !contains(want, id.Name) {
							continue
						}
						ast.Inspect(fl.Type, func(x ast.Node) bool {
							if i, ok := x.(*ast.Ident); ok {
								if _, isStruct := u.structs[i.Name]; isStruct && !emitted[i.Name] && i.Name != n {
									ready = false
								}
							}
							return true
						})
					}
				}
				if ready {
					p.emitStruct(&sb, n)
					emitted[n] = true
					progress = true
				}
			}
			if !progress {
				trFail(nil, "cyclic struct dependencies in %s", u.pkgDir)
			}
		}
		var fb strings.Builder
		for _, v := range u.vars {
			p.emitVar(&fb, v)
		}
		for _, key := range p.litOrder {
			p.emitFunc(&fb, key)
		}
		for i, t := range p.strLits {
			fmt.Fprintf(&sb, "/-- %q -/\ndef lit_%d : GoString := %s\n\n", t, i, leanBytesLit(t))
		}
		sb.WriteString(fb.String())
		fmt.Fprintf(&sb, "end Dtail.Gen.%s\n\n", u.ns)
		// every identifier that is no local variable must be a definition this unit emits: a package-level constant or
		// variable the unit does not list would leave the generated file with an unknown name (and take every unit with it)
		text := sb.String()
		var missing []string
		for name := range p.freeNames {
			if !regexp.MustCompile(`(?m)^def ` + regexp.QuoteMeta(leanIdent(name)) + `[ :]`).MatchString(text) {
				missing = append(missing, name)
			}
		}
		if len(missing) > 0 {
			sort.Strings(missing)
			trFail(nil, "%s uses package-level names outside the translated subset: %s", u.pkgDir, strings.Join(missing, ", "))
		}
	}
	return sb.String()
}

func translateMain() {
	defer func() {
		if r := recover(); r != nil {
			if te, ok := r.(trErr); ok {
				fmt.Fprintln(os.Stderr, "TRANSLATE-PROBLEM:", te.msg)
				os.Exit(4)
			}
			panic(r)
		}
	}()
	fmt.Print(translateAll())
}
