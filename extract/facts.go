package main

import (
	"fmt"
	"go/ast"
	"go/constant"
	"go/token"
	"sort"
	"strings"
)

func strConst(lean, rel, name string) {
	v, n := findConst(rel, name)
	if s, ok := constStr(v); ok {
		defString(lean, s, whereOf(n)+" "+name)
	} else if n != nil {
		problem("fact %s: %s in %s is not a string constant", lean, name, rel)
	}
}

func facts() {
	colorFacts()
	statsFacts()
	queryFacts()
	sessionFacts()
	// ---- protocol constants
	const proto = "internal/protocol/protocol.go"
	if v, n := findConst(proto, "MessageDelimiter"); v != nil {
		// a rune literal typed as byte: its value must fit a byte
		if i, ok := constant.Int64Val(v); ok && i >= 0 && i < 256 {
			emit("/-- %s MessageDelimiter -/\ndef messageDelimiter : UInt8 := %d", whereOf(n), i)
		} else {
			problem("MessageDelimiter is not a byte value")
		}
	}
	strConst("protocolCompat", proto, "ProtocolCompat")
	strConst("fieldDelimiter", proto, "FieldDelimiter")
	strConst("csvDelimiter", proto, "CSVDelimiter")
	strConst("aggregateKVDelimiter", proto, "AggregateKVDelimiter")
	strConst("aggregateDelimiter", proto, "AggregateDelimiter")
	strConst("aggregateGroupKeyCombinator", proto, "AggregateGroupKeyCombinator")

	// ---- service users
	const cfg = "internal/config/config.go"
	strConst("healthUser", cfg, "HealthUser")
	strConst("scheduleUser", cfg, "ScheduleUser")
	strConst("continuousUser", cfg, "ContinuousUser")

	// ---- server defaults
	const scfg = "internal/config/server.go"
	def := findFunc(scfg, "", "newDefaultServerConfig")
	for _, k := range []string{"MaxConcurrentCats", "MaxConcurrentTails", "MaxConnections", "MaxLineLength"} {
		e := keyValue(def, k)
		if e == nil {
			problem("server default %s not found", k)
			continue
		}
		defNat("default"+k, eval(e, nil), pos(e)+" "+k)
	}

	// ---- queue capacities of a server session
	const sh = "internal/server/handlers/serverhandler.go"
	nsh := findFunc(sh, "", "NewServerHandler")
	for _, k := range []string{"lines", "serverMessages", "maprMessages"} {
		e := keyValue(nsh, k)
		if e == nil {
			problem("NewServerHandler: field %s not found", k)
			continue
		}
		defNat(k+"Cap", chanCap(e, nil), pos(e)+" "+k)
	}

	// ---- reader: rawLines capacity, cat/tail reader modes
	const rf = "internal/io/fs/readfile.go"
	start := findFunc(rf, "readFile", "Start")
	if e := assigned(start, "rawLines"); e != nil {
		defNat("rawLinesCap", chanCap(e, nil), pos(e)+" rawLines")
	} else {
		problem("readFile.Start: rawLines not found")
	}
	for _, m := range []struct{ lean, file, fn string }{
		{"cat", "internal/io/fs/catfile.go", "NewCatFile"},
		{"tail", "internal/io/fs/tailfile.go", "NewTailFile"}} {
		fn := findFunc(m.file, "", m.fn)
		for _, k := range []string{"canSkipLines", "seekEOF", "retry"} {
			e := keyValue(fn, k)
			v := eval(e, nil)
			if e == nil || v == nil || v.Kind() != constant.Bool {
				problem("%s: field %s not a boolean literal", m.fn, k)
				continue
			}
			defBool(m.lean+strings.ToUpper(k[:1])+k[1:], constant.BoolVal(v), pos(e))
		}
	}

	// ---- regex: the patterns the client classifies as no-op
	const rx = "internal/regex/regex.go"
	if fn := findFunc(rx, "", "New"); fn != nil {
		var pats []string
		var where ast.Node
		ast.Inspect(fn, func(x ast.Node) bool {
			if ifs, ok := x.(*ast.IfStmt); ok && where == nil {
				where = ifs
				ast.Inspect(ifs.Cond, func(y ast.Node) bool {
					if be, ok := y.(*ast.BinaryExpr); ok && be.Op.String() == "==" && src(be.X) == "regexStr" {
						if s, ok := constStr(eval(be.Y, nil)); ok {
							pats = append(pats, s)
						}
					}
					return true
				})
			}
			return true
		})
		defStringList("noopPatterns", pats, whereOf(where)+" regex.New")
	}
	if fn := findFunc("internal/regex/flag.go", "", "NewFlag"); fn != nil {
		tabs := switchTables(fn)
		var names, vals []string
		if len(tabs) > 0 {
			for _, r := range tabs[0] {
				if !r.isDef && len(r.labels) == 1 {
					names = append(names, r.labels[0])
					vals = append(vals, strings.TrimSuffix(strings.TrimPrefix(r.body, "return "), ", nil"))
				}
			}
		}
		defStringList("regexFlagNames", names, pos(fn)+" NewFlag")
		defStringList("regexFlagValues", vals, pos(fn)+" NewFlag")
	}
}

// query language tables and the aggregator's channel plumbing (C05, C06, C10, C11)
func queryFacts() {
	// ---- keyword list
	const tk = "internal/mapr/token.go"
	if f := file(tk); f != nil {
		var kws []string
		var where ast.Node
		for _, d := range f.Decls {
			gd, ok := d.(*ast.GenDecl)
			if !ok || gd.Tok != token.VAR {
				continue
			}
			for _, sp := range gd.Specs {
				vs := sp.(*ast.ValueSpec)
				for i, n := range vs.Names {
					if n.Name != "keywords" || i >= len(vs.Values) {
						continue
					}
					where = vs
					if cl, ok := vs.Values[i].(*ast.CompositeLit); ok {
						for _, e := range cl.Elts {
							// an array/slice element, or the key of a map used as a set
							if kv, ok := e.(*ast.KeyValueExpr); ok {
								e = kv.Key
							}
							if str, ok := constStr(eval(e, nil)); ok {
								kws = append(kws, str)
							}
						}
					}
				}
			}
		}
		if where == nil {
			problem("keywords not found in %s", tk)
		} else {
			sort.Strings(kws) // a set: order is irrelevant to isKeyword
			defStringList("queryKeywords", kws, pos(where)+" keywords (sorted)")
		}
	}
	// ---- switch tables: where operators and select aggregations; `fallthrough` rows take the
	// body of the next row
	table := func(lean, rel, fn, prefix string) {
		f := findFunc(rel, "", fn)
		if f == nil {
			return
		}
		for _, rows := range switchTables(f) {
			var names, vals []string
			ok := false
			for i := range rows {
				if rows[i].isDef {
					continue
				}
				body := rows[i].body
				for j := i; body == "fallthrough" && j+1 < len(rows); j++ {
					body = rows[j+1].body
				}
				if strings.HasPrefix(body, prefix) {
					ok = true
				}
				for _, l := range rows[i].labels {
					names = append(names, l)
					vals = append(vals, strings.TrimPrefix(body, prefix))
				}
			}
			if ok {
				defStringList(lean+"Names", names, pos(f)+" "+fn)
				defStringList(lean+"Values", vals, pos(f)+" "+fn)
				return
			}
		}
		problem("%s: switch table with prefix %q not found", fn, prefix)
	}
	table("whereOp", "internal/mapr/wherecondition.go", "makeWhereConditions", "wc.Operation = ")
	table("selectAgg", "internal/mapr/selectcondition.go", "makeSelectConditions", "sc.Operation = ")

	// ---- the server-side aggregator: queue of line channels and its rotation
	const ag = "internal/mapr/server/aggregate.go"
	if fn := findFunc(ag, "", "NewAggregate"); fn != nil {
		if e := keyValue(fn, "NextLinesCh"); e != nil {
			defNat("nextLinesChCap", chanCap(e, nil), pos(e)+" NextLinesCh")
		} else {
			problem("NewAggregate: NextLinesCh not found")
		}
	}
	if fn := findFunc(ag, "Aggregate", "nextLine"); fn != nil {
		// every send into a.NextLinesCh inside nextLine() happens in a goroutine of its own
		// (`go func() { a.NextLinesCh <- old }()`), so the aggregator never blocks on its own queue
		sends, async := 0, 0
		var walk func(n ast.Node, inGo bool)
		walk = func(n ast.Node, inGo bool) {
			ast.Inspect(n, func(x ast.Node) bool {
				switch v := x.(type) {
				case *ast.GoStmt:
					if !inGo {
						walk(v.Call, true)
						return false
					}
				case *ast.SendStmt:
					if strings.HasSuffix(src(v.Chan), "NextLinesCh") {
						sends++
						if inGo {
							async++
						}
					}
				}
				return true
			})
		}
		walk(fn.Body, false)
		defNat("rotationRequeueSends", constant.MakeInt64(int64(sends)), pos(fn)+" nextLine: sends into NextLinesCh")
		defBool("rotationRequeueAsync", sends > 0 && sends == async, pos(fn)+" nextLine: every such send is inside a go statement")
	}
}

// the close handshake of a server session (C02)
func sessionFacts() {
	const bh = "internal/server/handlers/basehandler.go"
	fn := findFunc(bh, "baseHandler", "flush")
	if fn == nil {
		return
	}
	// flush() is a loop without bound that polls with a fresh timer (or sleep) on every round:
	// it can only leave when nothing is unsent any more or the session is gone
	var loop *ast.ForStmt
	ast.Inspect(fn.Body, func(x ast.Node) bool {
		if f, ok := x.(*ast.ForStmt); ok && loop == nil {
			loop = f
		}
		return loop == nil
	})
	if loop == nil {
		problem("flush(): no for loop found")
		return
	}
	defBool("flushLoopUnbounded", loop.Init == nil && loop.Cond == nil && loop.Post == nil, pos(loop)+" flush: for { ... } without condition")
	fresh := false
	ast.Inspect(loop.Body, func(x ast.Node) bool {
		switch v := x.(type) {
		case *ast.CommClause:
			if es, ok := v.Comm.(*ast.ExprStmt); ok {
				if u, ok := es.X.(*ast.UnaryExpr); ok && u.Op == token.ARROW {
					if c, ok := u.X.(*ast.CallExpr); ok && (src(c.Fun) == "time.After" || src(c.Fun) == "time.Tick") {
						fresh = true
					}
				}
			}
		case *ast.CallExpr:
			if src(v.Fun) == "time.Sleep" {
				fresh = true
			}
		}
		return true
	})
	defBool("flushRepollsFreshTimer", fresh, pos(loop)+" flush: every round waits on a timer created in that round")
	// the only ways out of the loop: `return` statements; each is guarded by the emptiness test or
	// by the session's done channel
	returns, guarded := 0, 0
	var walk func(n ast.Node, ok bool)
	walk = func(n ast.Node, ok bool) {
		ast.Inspect(n, func(x ast.Node) bool {
			switch v := x.(type) {
			case *ast.IfStmt:
				g := ok || strings.Contains(src(v.Cond), "numUnsentMessages() == 0")
				walk(v.Body, g)
				if v.Else != nil {
					walk(v.Else, ok)
				}
				return false
			case *ast.CommClause:
				g := ok
				if v.Comm != nil && strings.Contains(src(v.Comm), "done.Done()") {
					g = true
				}
				for _, st := range v.Body {
					walk(st, g)
				}
				return false
			case *ast.ReturnStmt, *ast.BranchStmt:
				if b, isB := v.(*ast.BranchStmt); isB && b.Tok != token.BREAK {
					return true
				}
				returns++
				if ok {
					guarded++
				}
			}
			return true
		})
	}
	walk(loop.Body, false)
	defBool("flushLeavesOnlyWhenDrainedOrGone", returns > 0 && returns == guarded, pos(loop)+" flush: every return/break is under `numUnsentMessages() == 0` or `<-h.done.Done()`")
}

// colour constants and the default colour table (C16)
func colorFacts() {
	const cf = "internal/color/color.go"
	f := file(cf)
	if f == nil {
		return
	}
	env := map[string]constant.Value{}
	for _, d := range f.Decls {
		gd, ok := d.(*ast.GenDecl)
		if !ok {
			continue
		}
		for _, s := range gd.Specs {
			vs, ok := s.(*ast.ValueSpec)
			if !ok {
				continue
			}
			for i, n := range vs.Names {
				if i < len(vs.Values) {
					if v := eval(vs.Values[i], env); v != nil {
						env[n.Name] = v
					}
				}
			}
		}
	}
	for _, k := range []string{"FgDefault", "BgDefault", "AttrNone", "AttrReset"} {
		if s, ok := constStr(env[k]); ok {
			emit("def color%s : List UInt8 := %s", k, leanBytes([]byte(s)))
		} else {
			problem("colour constant %s not found", k)
		}
	}
	fn := findFunc("internal/config/client.go", "", "newDefaultClientConfig")
	if fn == nil {
		return
	}
	var rows []string
	var walk func(prefix string, n ast.Node)
	walk = func(prefix string, n ast.Node) {
		cl, ok := n.(*ast.CompositeLit)
		if !ok {
			return
		}
		for _, e := range cl.Elts {
			kv, ok := e.(*ast.KeyValueExpr)
			if !ok {
				continue
			}
			key := src(kv.Key)
			switch v := kv.Value.(type) {
			case *ast.CompositeLit:
				walk(prefix+key+".", v)
			case *ast.SelectorExpr:
				if s, ok := constStr(env[v.Sel.Name]); ok {
					rows = append(rows, fmt.Sprintf("(%s, %s)", leanStr(prefix+key), leanBytes([]byte(s))))
				} else {
					problem("colour %s for %s%s unknown", src(v), prefix, key)
				}
			}
		}
	}
	ast.Inspect(fn, func(x ast.Node) bool {
		if kv, ok := x.(*ast.KeyValueExpr); ok && src(kv.Key) == "TermColors" {
			walk("", kv.Value)
			return false
		}
		return true
	})
	if len(rows) == 0 {
		problem("default colour table not found")
	}
	emit("/-- internal/config/client.go newDefaultClientConfig: the default colour table -/")
	emit("def termColors : List (String × List UInt8) := [\n  %s]", strings.Join(rows, ",\n  "))
}

// stats ring (C04): the array length of `matched`/`transmitted` and the modulus in updatePosition
func statsFacts() {
	const sf = "internal/io/fs/stats.go"
	f := file(sf)
	if f == nil {
		return
	}
	var sizes []constant.Value
	ast.Inspect(f, func(x ast.Node) bool {
		if fld, ok := x.(*ast.Field); ok {
			if at, ok := fld.Type.(*ast.ArrayType); ok && at.Len != nil {
				for _, n := range fld.Names {
					if n.Name == "matched" || n.Name == "transmitted" {
						sizes = append(sizes, eval(at.Len, nil))
					}
				}
			}
		}
		return true
	})
	if len(sizes) != 2 || sizes[0] == nil || sizes[1] == nil || sizes[0].ExactString() != sizes[1].ExactString() {
		problem("stats ring arrays not found or of different length")
		return
	}
	defNat("statsRingSize", sizes[0], sf+" matched/transmitted array length")
	fn := findFunc(sf, "stats", "updatePosition")
	var mod constant.Value
	ast.Inspect(fn, func(x ast.Node) bool {
		if be, ok := x.(*ast.BinaryExpr); ok && be.Op.String() == "%" {
			mod = eval(be.Y, nil)
		}
		return true
	})
	defNat("statsRingModulus", mod, sf+" updatePosition modulus")
}
