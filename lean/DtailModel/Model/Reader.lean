/-
Model of internal/io/fs/readfile.go read()/handleReadByte()/handleReadError() for a
reader that does not seek to EOF (cat / grep): the byte-wise line assembler.
-/
import DtailModel.Model.Basic
namespace Dtail

/-- Reader state: the pending message buffer and the raw lines emitted so far. -/
structure RS where
  msg : Bytes
  out : List Bytes
  deriving Repr, DecidableEq

/-- `message.WriteByte(b)` followed by `handleReadByte`. -/
def stepByte (m : Nat) (s : RS) (b : UInt8) : RS :=
  let msg := s.msg ++ [b]
  if b = NL then ⟨[], s.out ++ [msg]⟩
  else if msg.length ≥ m then ⟨[], s.out ++ [msg ++ [NL]]⟩
  else ⟨msg, s.out⟩

/-- `handleReadError` on EOF with `seekEOF = false`: flush a non-empty pending message. -/
def eofFlush (s : RS) : List Bytes :=
  if s.msg = [] then s.out else s.out ++ [s.msg]

def readFrom (m : Nat) (s : RS) (bs : Bytes) : RS := bs.foldl (stepByte m) s

/-- Raw lines a cat/grep reader hands to the filter for file content `bs`. -/
def readLines (m : Nat) (bs : Bytes) : List Bytes := eofFlush (readFrom m ⟨[], []⟩ bs)

/-- Tail mode (`seekEOF = true`): EOF never flushes; only complete lines are emitted. -/
def tailLines (m : Nat) (bs : Bytes) : List Bytes := (readFrom m ⟨[], []⟩ bs).out

/-- Specification: the content with a newline inserted after each run of `m`
    consecutive non-newline bytes (`k` = length of the current run). -/
def insertNL (m : Nat) : Nat → Bytes → Bytes
  | _, [] => []
  | k, b :: bs =>
    if b = NL then b :: insertNL m 0 bs
    else if k + 1 ≥ m then b :: NL :: insertNL m 0 bs
    else b :: insertNL m (k + 1) bs

end Dtail
