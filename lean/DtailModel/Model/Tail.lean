/-
Model of following a file: internal/io/fs/readfile.go read()/handleReadError() with
seekEOF = true (the pending partial line survives EOF; each poll consumes whatever has been
appended), and internal/io/fs/stats.go + transmittable(): the ring of the last
`statsRingSize` lines that yields the transmission percentage.
-/
import DtailModel.Model.Reader
namespace Dtail

/-- reading the appended bytes in any chunking: one `readFrom` per chunk, the state carried
    over (the message buffer is not flushed at EOF) -/
def tailRead (m : Nat) (chunks : List Bytes) : RS := chunks.foldl (readFrom m) ⟨[], []⟩

/-- the statistics ring -/
structure Stats where
  pos : Nat
  lineCount : Nat
  matched : List Bool         -- length = ring size
  transmitted : List Bool
  matchCount : Nat
  transmitCount : Nat
  deriving Repr, DecidableEq

def ringSize : Nat := Facts.statsRingSize

def statsInit : Stats := ⟨0, 0, List.replicate ringSize false, List.replicate ringSize false, 0, 0⟩

def countTrue (l : List Bool) : Nat := (l.filter id).length

/-- `updatePosition` -/
def updatePosition (s : Stats) : Stats := { s with pos := (s.pos + 1) % Facts.statsRingModulus, lineCount := s.lineCount + 1 }

def setMatched (s : Stats) (v : Bool) : Stats :=
  let old := s.matched.getD s.pos false
  if old = v then s else
  { s with matched := s.matched.set s.pos v, matchCount := if v then s.matchCount + 1 else s.matchCount - 1 }

def setTransmitted (s : Stats) (v : Bool) : Stats :=
  let old := s.transmitted.getD s.pos false
  if old = v then s else
  { s with transmitted := s.transmitted.set s.pos v, transmitCount := if v then s.transmitCount + 1 else s.transmitCount - 1 }

/-- the (matched, transmitted) pairs within the ring on which Go's float64 expression
    `value / (total / 100.0)` falls just below the exact quotient, so that `int()` yields one less
    (e.g. 7 / (14 / 100.0) = 49.99999999999999); the table is compared with the real code on every run -/
def floatRoundsDown : List (Nat × Nat) := [(14, 7), (28, 7), (28, 14), (28, 21), (34, 17), (55, 33), (56, 14), (56, 28), (56, 42), (68, 17), (68, 34)]

/-- `int(percentOf(matchCount, transmitCount))` as an integer formula (compared with Go's
    float computation on all 5 151 pairs on every run) -/
def percentOf (total value : Nat) : Nat :=
  if total = 0 ∨ total = value then 100
  else if floatRoundsDown.contains (total, value) then (100 * value) / total - 1
  else (100 * value) / total

inductive LineFate | notMatched | dropped | delivered
  deriving Repr, DecidableEq

/-- `filterWithoutLContext` for one raw line (after `updatePosition`): `transmittable` with the
    regex answer and whether the delivery queue is full.  Returns the new stats, the fate and
    (when delivered) the count and percentage sent along. -/
def processLine (canSkip : Bool) (s : Stats) (isMatch queueFull : Bool) : Stats × LineFate × Nat × Nat :=
  let s := updatePosition s
  if !isMatch then (setTransmitted (setMatched s false) false, .notMatched, 0, 0)
  else
    let s := setMatched s true
    if canSkip ∧ queueFull then (setTransmitted s false, .dropped, 0, 0)
    else
      let s := setTransmitted s true
      (s, .delivered, s.lineCount, percentOf s.matchCount s.transmitCount)

end Dtail
