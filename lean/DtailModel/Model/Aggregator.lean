/-
Model of the server-side mapreduce aggregator's input handling: internal/mapr/server/
aggregate.go fieldsFromLines()/nextLine() and internal/server/handlers/readcommand.go read()
(each file reader registers its own line channel with the aggregator after passing the
limiter, closes it when through).  A labelled transition system over all interleavings of the
readers, the aggregator and the re-queue goroutines of the channel rotation.
-/
import DtailModel.Model.Basic
import DtailModel.Model.Aggregate
namespace Dtail

inductive RdSt | notRegistered | open_ | closed
  deriving Repr, DecidableEq

structure Rd where
  st : RdSt
  pushed : Nat         -- lines written into the reader's channel so far
  consumed : Nat       -- lines the aggregator has taken from it
  deriving Repr, DecidableEq

structure Agg where
  sizes : List Nat             -- lines per file
  rds : List Rd
  current : Option Nat         -- a.linesCh
  nextQ : List Nat             -- a.NextLinesCh
  limbo : List Nat             -- channels in the hands of `go func() { a.NextLinesCh <- old }()`
  done : Bool                  -- fieldsFromLines returned (noMoreChannels)
  deriving Repr, DecidableEq

inductive ALabel where
  | register (r : Nat)     -- reader r passed the limiter: `aggregate.NextLinesCh <- lines`
  | push (r : Nat)         -- reader r writes its next line (channel capacity 100)
  | close (r : Nat)        -- reader r is through: close(lines)
  | first                  -- the aggregator takes its first channel
  | take                   -- nextLine: a line from the current channel
  | closedSwitch           -- current channel closed and drained, another one is queued: switch
  | closedDone             -- current channel closed and drained, none queued: the aggregator finishes
  | rotate                 -- no line ready on the (open) current channel, another one queued: rotate
  | requeue (r : Nat)      -- a rotation's goroutine puts the old channel back
  deriving Repr, DecidableEq

def chanCap : Nat := Facts.linesCap

/-- capacity of `NextLinesCh` (a registering reader and a rotation's re-queue goroutine block
    while it is full; the aggregator itself never sends into it: `Facts.rotationRequeueAsync`) -/
def nextCap : Nat := Facts.nextLinesChCap

def inChan (d : Rd) : Nat := d.pushed - d.consumed

def aggStep (s : Agg) : ALabel → Option Agg
  | .register r =>
    match s.rds[r]? with
    | some ⟨.notRegistered, p, c⟩ =>
      -- `aggregate.NextLinesCh <- lines` blocks while the queue is full
      if s.nextQ.length < nextCap then some { s with rds := s.rds.set r ⟨.open_, p, c⟩, nextQ := s.nextQ ++ [r] } else none
    | _ => none
  | .push r =>
    match s.rds[r]?, s.sizes[r]? with
    | some ⟨.open_, p, c⟩, some n =>
      if p < n ∧ p - c < chanCap then some { s with rds := s.rds.set r ⟨.open_, p + 1, c⟩ } else none
    | _, _ => none
  | .close r =>
    match s.rds[r]?, s.sizes[r]? with
    | some ⟨.open_, p, c⟩, some n => if p = n then some { s with rds := s.rds.set r ⟨.closed, p, c⟩ } else none
    | _, _ => none
  | .first =>
    match s.current, s.nextQ with
    | none, r :: rest => if s.done then none else some { s with current := some r, nextQ := rest }
    | _, _ => none
  | .take =>
    match s.current with
    | some r => match s.rds[r]? with
      | some d => if d.consumed < d.pushed ∧ !s.done then
          some { s with rds := s.rds.set r { d with consumed := d.consumed + 1 } } else none
      | none => none
    | none => none
  | .closedSwitch =>
    match s.current, s.nextQ with
    | some r, r' :: rest => match s.rds[r]? with
      | some d => if d.st = .closed ∧ d.consumed = d.pushed ∧ !s.done then some { s with current := some r', nextQ := rest } else none
      | none => none
    | _, _ => none
  | .closedDone =>
    match s.current, s.nextQ with
    | some r, [] => match s.rds[r]? with
      | some d => if d.st = .closed ∧ d.consumed = d.pushed ∧ !s.done then some { s with done := true } else none
      | none => none
    | _, _ => none
  | .rotate =>
    match s.current, s.nextQ with
    | some r, r' :: rest => match s.rds[r]? with
      | some d => if d.st = .open_ ∧ d.consumed = d.pushed ∧ !s.done then
          some { s with current := some r', nextQ := rest, limbo := s.limbo ++ [r] } else none
      | none => none
    | _, _ => none
  | .requeue r =>
    if r ∈ s.limbo ∧ s.nextQ.length < nextCap then some { s with limbo := s.limbo.erase r, nextQ := s.nextQ ++ [r] } else none

def aggRun (s : Agg) : List ALabel → Option Agg
  | [] => some s
  | l :: rest => (aggStep s l).bind (fun s' => aggRun s' rest)

def aggInit (sizes : List Nat) : Agg :=
  ⟨sizes, List.replicate sizes.length ⟨.notRegistered, 0, 0⟩, none, [], [], false⟩

/-- reader r's file has been aggregated completely -/
def fullyConsumed (s : Agg) (r : Nat) : Prop :=
  ∃ d n, s.rds[r]? = some d ∧ s.sizes[r]? = some n ∧ d.consumed = n

end Dtail

namespace Dtail

/-! ### an eager aggregator (the schedule of the scripted sessions)

The scripted sessions of the correspondence check leave the session alone after every reader
step until the aggregator has done everything it can.  `eagerLabel` is that schedule: it only
ever chooses among the labels of the transition system, so every run it produces is one of the
interleavings the theorems quantify over (`aggSettle_run`). -/

def chanBusy (s : Agg) (q : Nat) : Bool :=
  match s.rds[q]? with
  | some e => decide (e.consumed < e.pushed) || decide (e.st = .closed)
  | none => false

def eagerLabel (s : Agg) : Option ALabel :=
  if s.done then none else
  match s.limbo with
  | r :: _ => some (.requeue r)
  | [] =>
    match s.current with
    | none => if s.nextQ.isEmpty then none else some .first
    | some r =>
      match s.rds[r]? with
      | none => none
      | some d =>
        if d.consumed < d.pushed then some .take
        else if d.st = .closed then (if s.nextQ.isEmpty then some .closedDone else some .closedSwitch)
        else if s.nextQ.any (chanBusy s) then some .rotate
        else none

def aggSettle : Nat → Agg → List ALabel → Agg × List ALabel
  | 0, s, acc => (s, acc.reverse)
  | fuel + 1, s, acc =>
    match eagerLabel s with
    | none => (s, acc.reverse)
    | some l =>
      match aggStep s l with
      | none => (s, acc.reverse)
      | some s' => aggSettle fuel s' (l :: acc)

end Dtail

namespace Dtail

/-! ### the client side (internal/mapr/client/aggregate.go) -/

/-- the client after the fix: every partial result of every server is merged into the global
    group when it arrives (the merge waits for its turn) -/
def clientGlobal (op : AggOp) (arrivals : List (Nat × Col)) : Col := (arrivals.map (·.2)).foldl (combine op) {}

/-- the code before the fix: a merge that finds the global group busy is skipped and the
    partial stays in the server's local group until that server's next message; `busy` says for
    every arrival whether the global group was held.  Returns (global, leftovers per arrival). -/
def oldClient (op : AggOp) : Col → Col → List (Col × Bool) → Col × Col
  | g, loc, [] => (g, loc)
  | g, loc, (m, busy) :: rest =>
    let loc' := combine op loc m
    if busy then oldClient op g loc' rest else oldClient op (combine op g loc') {} rest

end Dtail
