/-
Shared basics for the dtail models.  Go strings are byte strings, so everything a
property quantifies over as "any bytes" is a `List UInt8`.
-/
import DtailModel.Generated.Facts
namespace Dtail

abbrev Bytes := List UInt8

def NL : UInt8 := 10
def DOT : UInt8 := 46
def DELIM : UInt8 := Facts.messageDelimiter

/-- Run-time string to bytes (driver side). -/
def str (s : String) : Bytes := s.toUTF8.toList

open Lean in
/-- `b!"text"`: a string literal expanded at elaboration time into an explicit list of
    UTF-8 bytes, so that it reduces in the kernel (`decide`, `rfl`). -/
macro "b!" s:str : term => do
  let bs := s.getString.toUTF8.toList
  let elems ← bs.toArray.mapM (fun b => `(($(quote b.toNat) : UInt8)))
  `(([$elems,*] : List UInt8))

/-- A Go operation that panicked (index out of range, nil dereference, makechan ...). -/
inductive Outcome (α : Type) where
  | ok (a : α)
  | err (msg : String)      -- the code returned an error / sent an error message
  | panic (what : String)   -- the Go runtime would panic
  deriving Repr, DecidableEq

end Dtail
