/-
Model of internal/io/fs/readfilelcontext.go: the grep-context automaton
(filterLineWithLContext / lContextNotMatched / lContextProcessBefore / lContextProcessMaxCount)
and the block-wise specification of grep semantics it is proved equal to.
-/
import DtailModel.Model.Basic
set_option autoImplicit true  -- the type variable α of the generic list functions below is bound implicitly
namespace Dtail

/-- `ltxState` (only the fields that change). -/
structure GState (α : Type) where
  maxc : Nat            -- ls.maxCount (remaining)
  maxReached : Bool
  ring : List α         -- ls.beforeBuf, oldest first
  after : Nat           -- ls.after
  deriving Repr

/-- A buffered channel of capacity `B` used as a ring: if full, drop the oldest. -/
def pushRing (B : Nat) (g : List α) (x : α) : List α :=
  if g.length < B then g ++ [x] else g.tail ++ [x]

/-- One raw line through `filterLineWithLContext`: the lines sent to the client, and the
    next state (`none` = abortReading: the filter returns and the reader is cancelled). -/
def gstep (B A M : Nat) (s : GState α) (sel : Bool) (x : α) : List α × Option (GState α) :=
  if !sel then
    -- lContextNotMatched
    if A > 0 ∧ s.after > 0 then ([x], some { s with after := s.after - 1 })
    else if B > 0 then ([], some { s with ring := pushRing B s.ring x })
    else ([], some s)
  else
    if A > 0 ∧ s.maxReached then ([], none)
    else
      let after' := if A > 0 then A else s.after
      let pre := if B > 0 then s.ring else []          -- lContextProcessBefore drains the ring
      let ring' := if B > 0 then [] else s.ring
      let emitted := pre ++ [x]
      if M > 0 then
        -- lContextProcessMaxCount
        let maxc' := s.maxc - 1
        if maxc' = 0 then
          if A = 0 ∨ after' = 0 then (emitted, none)
          else (emitted, some ⟨maxc', true, ring', after'⟩)
        else (emitted, some ⟨maxc', s.maxReached, ring', after'⟩)
      else (emitted, some ⟨s.maxc, s.maxReached, ring', after'⟩)

/-- The filter loop over the raw lines (each with its selection bit). -/
def grun (B A M : Nat) : GState α → List (Bool × α) → List α
  | _, [] => []
  | s, (sel, x) :: rest =>
    match gstep B A M s sel x with
    | (e, none) => e
    | (e, some s') => e ++ grun B A M s' rest

def ginit (M : Nat) : GState α := ⟨M, false, [], 0⟩

/-- `filterWithoutLContext`: only the selected lines. -/
def gplain (ls : List (Bool × α)) : List α := (ls.filter (·.1)).map (·.2)

/-- What the filter of a cat/grep reader delivers (`ltx.Has()` chooses the path). -/
def grepFilter (B A M : Nat) (ls : List (Bool × α)) : List α :=
  if B = 0 ∧ A = 0 ∧ M = 0 then gplain ls else grun B A M (ginit M) ls

/-! ### Specification: grep semantics over blocks

A file is a sequence of *blocks*: a (possibly empty) gap of non-selected lines followed by
one selected line, and a trailing gap. -/

def lastN (n : Nat) (l : List α) : List α := l.drop (l.length - n)

/-- Of a gap of non-selected lines, the first `a` are trailing context of the previous
    selected line and, of the remaining ones, the last `B` are leading context of the next. -/
def gapOut (B a : Nat) (r : List α) : List α := r.take a ++ lastN B (r.drop a)

/-- Walk the blocks: `a` = lines of trailing context still owed, `m` = how many more
    selected lines may be output (`none` = unlimited). -/
def specGo (B A : Nat) : Nat → Option Nat → List (List α × α) → List α → List α
  | a, _, [], t => t.take a
  | a, some 0, (r, _) :: _, _ => r.take a
  | a, some (m + 1), (r, s) :: bs, t => gapOut B a r ++ [s] ++ specGo B A A (some m) bs t
  | a, none, (r, s) :: bs, t => gapOut B a r ++ [s] ++ specGo B A A none bs t

def grepSpec (B A M : Nat) (bs : List (List α × α)) (t : List α) : List α :=
  specGo B A 0 (if M = 0 then none else some M) bs t

/-- Parse a line sequence into blocks. -/
def blocks : List (Bool × α) → List (List α × α) × List α
  | [] => ([], [])
  | (true, x) :: rest => let (bs, t) := blocks rest; (([], x) :: bs, t)
  | (false, x) :: rest =>
    match blocks rest with
    | ([], t) => ([], x :: t)
    | ((r, s) :: bs, t) => ((x :: r, s) :: bs, t)

def unblocks (bs : List (List α × α)) (t : List α) : List (Bool × α) :=
  bs.flatMap (fun p => p.1.map (fun x => (false, x)) ++ [(true, p.2)]) ++ t.map (fun x => (false, x))

end Dtail

namespace Dtail

/-- `totalLineCount() - i` numbering of one emission batch at line number `n`: the batch is
    the drained ring followed by the current line, numbered consecutively ending at `n`. -/
def numberEnding (n : Nat) (e : List α) : List (Nat × α) :=
  (e.zipIdx (n + 1 - e.length)).map (fun p => (p.2, p.1))

/-- The filter loop with the line counter (`updatePosition`) and the emitted counts. -/
def grunN (B A M : Nat) : GState α → Nat → List (Bool × α) → List (Nat × α)
  | _, _, [] => []
  | s, n, (sel, x) :: rest =>
    match gstep B A M s sel x with
    | (e, none) => numberEnding (n + 1) e
    | (e, some s') => numberEnding (n + 1) e ++ grunN B A M s' (n + 1) rest

/-- regex flags (internal/regex/flag.go) -/
inductive RFlag | undefined | default | invert | noop
  deriving Repr, DecidableEq

/-- `Regex.Match`: how the flag turns the engine's answer into the selection bit. -/
def matchFlag (f : RFlag) (engine : Bool) : Bool :=
  match f with
  | .default => engine
  | .invert => !engine
  | .noop => true
  | .undefined => false

/-- `regex.New` on the client: the three no-op patterns become the Noop regex. -/
def clientFlag (pattern : Bytes) (invert : Bool) : RFlag :=
  if Facts.noopPatternsBytes.contains pattern then .noop
  else if invert then .invert else .default

/-- dgrep on raw lines: the engine is asked about the raw line *including its newline*. -/
def dgrepLines (B A M : Nat) (f : RFlag) (engine : Bytes → Bool) (raw : List Bytes) : List (Nat × Bytes) :=
  let ls := raw.map (fun l => (matchFlag f (engine l), l))
  if B = 0 ∧ A = 0 ∧ M = 0 then
    ((ls.zipIdx 1).filter (·.1.1)).map (fun p => (p.2, p.1.2))
  else grunN B A M (ginit M) 0 ls

/-- strip one trailing newline -/
def chomp (l : Bytes) : Bytes := if l.getLast? = some NL then l.dropLast else l

/-- signature of the C03 finding: the engine's answer depends on the line terminator -/
def sigNlSensitive (engine : Bytes → Bool) (raw : List Bytes) : Bool :=
  raw.any (fun l => engine l != engine (chomp l))

end Dtail
