/-
Model of internal/ssh/client/knownhostscallback.go: the trust decision of Wrap() with the
prompt, and the rewrite of the known_hosts file in trustHosts().
-/
import DtailModel.Model.GoStr
namespace Dtail

inductive HostState | known | unknown | changed
  deriving Repr, DecidableEq

inductive Verdict | proceed | refuse | waiting
  deriving Repr, DecidableEq

/-- the prompt: the first answer that is one of the offered choices decides; `details`
    (and anything unrecognised) asks again -/
def promptDecision : List Bytes → Option Bool
  | [] => none
  | a :: rest =>
    if a = b!"yes" ∨ a = b!"y" ∨ a = b!"all" ∨ a = b!"a" then some true
    else if a = b!"no" ∨ a = b!"n" then some false
    else promptDecision rest

/-- `Wrap()`: known key → proceed; otherwise trust-all or the user's answer decides -/
def wrapDecision (st : HostState) (trustAll : Bool) (answers : List Bytes) : Verdict :=
  match st with
  | .known => .proceed
  | _ => if trustAll then .proceed else
    match promptDecision answers with
    | some true => .proceed
    | some false => .refuse
    | none => .waiting

/-- `bufio.Scanner` lines as `trustHosts` sees them: scanning stops (silently: the error
    is not checked) at the first line of `maxTok` bytes or more -/
def scanLinesLimit (maxTok : Nat) (content : Bytes) : List Bytes :=
  (scanLinesRaw content).takeWhile (fun l => l.length < maxTok) |>.map dropCR
where scanLinesRaw (content : Bytes) : List Bytes :=
  let parts := splitOnByte NL content
  if parts.getLast? = some [] then parts.dropLast else parts

structure NewHost where
  hostLine : Bytes
  ipLine : Bytes
  addrs : List Bytes           -- knownhosts.Normalize of server and of remote
  deriving Repr, DecidableEq

/-- the first space separated field of a known_hosts line -/
def lineAddress (l : Bytes) : Bytes := ((splitN SP 2 l).head?).getD []

/-- `trustHosts`: new entries first, then every old line whose address is not replaced -/
def trustHostsLines (hosts : List NewHost) (oldLines : List Bytes) : List Bytes :=
  hosts.flatMap (fun h => [h.hostLine, h.ipLine])
    ++ oldLines.filter (fun l => !(hosts.flatMap (·.addrs)).contains (lineAddress l))

def trustHostsFile (maxTok : Nat) (hosts : List NewHost) (old : Bytes) : Bytes :=
  (trustHostsLines hosts (scanLinesLimit maxTok old)).flatMap (fun l => l ++ [NL])

end Dtail
