/-
Model of connection accounting in internal/server/server.go listenerLoop()/handleConnection()
and internal/server/stats.go (after the fix: the slot is taken at accept and given back when
handleConnection returns).  A labelled transition system over connection histories.
-/
import DtailModel.Model.Basic
namespace Dtail

inductive CPhase | handshaking | authenticated | closed | refused
  deriving Repr, DecidableEq

structure ConnState where
  max : Nat
  counter : Int                 -- stats.currentConnections
  conns : List CPhase           -- one entry per TCP connection ever made, in accept order
  shells : List Nat := []       -- shell requests seen (connection indices; informational)
  deriving Repr, DecidableEq

inductive CLabel where
  | connect                     -- a TCP connection arrives at listener.Accept
  | handshakeOk (i : Nat)       -- NewServerConn succeeds
  | handshakeFail (i : Nat)     -- bad credentials / protocol error / client went away
  | shell (i : Nat)             -- a "shell" request on some session channel of connection i
  | close (i : Nat)             -- the connection ends (orderly or abrupt)
  deriving Repr, DecidableEq

def isOpen (p : CPhase) : Bool := p = .handshaking || p = .authenticated

def openCount (cs : List CPhase) : Nat := (cs.filter isOpen).length

def connStep (s : ConnState) : CLabel → Option ConnState
  | .connect =>
    -- serverLimitExceeded(): refuse when the counter has reached MaxConnections
    if s.counter ≥ s.max then some { s with conns := s.conns ++ [.refused] }
    else some { s with counter := s.counter + 1, conns := s.conns ++ [.handshaking] }
  | .handshakeOk i =>
    if s.conns[i]? = some .handshaking then some { s with conns := s.conns.set i .authenticated } else none
  | .handshakeFail i =>
    if s.conns[i]? = some .handshaking then
      some { s with counter := s.counter - 1, conns := s.conns.set i .closed } else none
  | .shell i =>
    if s.conns[i]? = some .authenticated then some { s with shells := i :: s.shells } else none
  | .close i =>
    if s.conns[i]? = some .authenticated then
      some { s with counter := s.counter - 1, conns := s.conns.set i .closed } else none

def connRun (s : ConnState) : List CLabel → Option ConnState
  | [] => some s
  | l :: rest => (connStep s l).bind (fun s' => connRun s' rest)

def connInit (max : Nat) : ConnState := ⟨max, 0, [], []⟩

/-- the code before the fix: counted after the handshake, given back once per shell request -/
structure OldConnState where
  max : Nat
  counter : Int
  conns : List (CPhase × Nat)   -- phase and number of shell requests
  deriving Repr, DecidableEq

def oldStep (s : OldConnState) : CLabel → Option OldConnState
  | .connect =>
    if s.counter ≥ s.max then some { s with conns := s.conns ++ [(.refused, 0)] }
    else some { s with conns := s.conns ++ [(.handshaking, 0)] }
  | .handshakeOk i =>
    match s.conns[i]? with
    | some (.handshaking, n) => some { s with counter := s.counter + 1, conns := s.conns.set i (.authenticated, n) }
    | _ => none
  | .handshakeFail i =>
    match s.conns[i]? with
    | some (.handshaking, n) => some { s with conns := s.conns.set i (.closed, n) }
    | _ => none
  | .shell i =>
    match s.conns[i]? with
    | some (.authenticated, n) => some { s with conns := s.conns.set i (.authenticated, n + 1) }
    | _ => none
  | .close i =>
    match s.conns[i]? with
    | some (.authenticated, n) => some { s with counter := s.counter - n, conns := s.conns.set i (.closed, n) }
    | _ => none

end Dtail
