import DtailModel.Model.Basic
namespace Dtail

def hexDigit (n : UInt8) : Char :=
  if n < 10 then Char.ofNat (48 + n.toNat) else Char.ofNat (87 + n.toNat)

def hexOf (bs : Bytes) : String :=
  if bs.isEmpty then "-" else
  String.ofList (bs.foldr (fun b acc => hexDigit (b / 16) :: hexDigit (b % 16) :: acc) [])

def hexVal (c : Char) : Option UInt8 :=
  if '0' ≤ c ∧ c ≤ '9' then some (c.toNat - 48).toUInt8
  else if 'a' ≤ c ∧ c ≤ 'f' then some (c.toNat - 87).toUInt8
  else none

def unhexChars : List Char → Option Bytes
  | [] => some []
  | [_] => none
  | a :: b :: rest => do
    let x ← hexVal a
    let y ← hexVal b
    let r ← unhexChars rest
    pure ((x * 16 + y) :: r)

def unhex (s : String) : Option Bytes :=
  if s = "-" then some [] else unhexChars s.toList

end Dtail
