/-
Model of internal/mapr/groupsetresult.go WriteResult()/writeQueryFile()/getOutfileFD()/
resultWriteUnformatted(): the sequence of file operations a result write performs (one
`write` per `WriteString`, as in the code), a file system as a finite map, and crashes as
prefixes of the operation sequence.
-/
import DtailModel.Model.Query
namespace Dtail

inductive FOp where
  | openTrunc (p : Bytes)            -- O_CREATE|O_WRONLY|O_TRUNC
  | openAppend (p : Bytes)           -- O_CREATE|O_WRONLY|O_APPEND
  | write (p : Bytes) (data : Bytes) -- sequential write / append
  | rename (src dst : Bytes)
  deriving Repr, DecidableEq

abbrev FS := List (Bytes × Bytes)

def fsGet (fs : FS) (p : Bytes) : Option Bytes := (fs.find? (·.1 = p)).map (·.2)
def fsSet (fs : FS) (p : Bytes) (c : Bytes) : FS := (fs.filter (·.1 ≠ p)) ++ [(p, c)]
def fsDel (fs : FS) (p : Bytes) : FS := fs.filter (·.1 ≠ p)

def applyOp (fs : FS) : FOp → FS
  | .openTrunc p => fsSet fs p []
  | .openAppend p => match fsGet fs p with | none => fsSet fs p [] | some _ => fs
  | .write p d => fsSet fs p ((fsGet fs p).getD [] ++ d)
  | .rename s d => match fsGet fs s with
    | none => fs
    | some c => fsSet (fsDel fs s) d c

def applyOps (fs : FS) (ops : List FOp) : FS := ops.foldl applyOp fs

def TMP : Bytes := b!".tmp"
def QUERYEXT : Bytes := b!".query"

/-- the writes of one CSV line: each value, the delimiter between values, the newline -/
def csvLineWrites (p : Bytes) (vals : List Bytes) : List FOp :=
  match vals with
  | [] => [.write p [NL]]
  | v :: rest => (.write p v) :: (rest.flatMap fun w => [FOp.write p [COMMA], .write p w]) ++ [.write p [NL]]

structure OutReq where
  path : Bytes                 -- query.Outfile.FilePath
  append : Bool
  rawQuery : Bytes
  header : List Bytes          -- the select FieldStorages
  rows : List (List Bytes)     -- the rendered rows, already ordered
  limit : Int
  final : Bool
  deriving Repr, DecidableEq

def limitedRows (r : OutReq) : List (List Bytes) :=
  if r.limit < 0 then r.rows else r.rows.take r.limit.toNat

/-- the header decision: always without append; with append only when `os.Stat` finds no
    file or an empty one -/
def needHeader (fs : FS) (r : OutReq) : Bool :=
  if r.append then !(match fsGet fs r.path with | some c => c.length > 0 | none => false) else true

/-- `WriteResult`: the operations in order. `fs` is only consulted for the header decision
    of append mode (`os.Stat`: header unless the file exists with size > 0). -/
def writeResultOps (fs : FS) (r : OutReq) : List FOp :=
  let qf := r.path ++ QUERYEXT
  let qtmp := qf ++ TMP
  let queryOps := [FOp.openTrunc qtmp, .write qtmp r.rawQuery, .rename qtmp qf]
  let writeHeader := needHeader fs r
  let target := if r.append then r.path else r.path ++ TMP
  let openOp := if r.append then FOp.openAppend target else FOp.openTrunc target
  let headerOps := if writeHeader then csvLineWrites target r.header else []
  let rowOps := (limitedRows r).flatMap (csvLineWrites target)
  let renameOps := if !r.append ∧ r.final then [FOp.rename (r.path ++ TMP) r.path] else []
  queryOps ++ [openOp] ++ headerOps ++ rowOps ++ renameOps

/-- the bytes of a CSV line -/
def csvLine (vals : List Bytes) : Bytes := joinByte COMMA vals ++ [NL]

/-- the complete result file: header and rows -/
def completeResult (r : OutReq) : Bytes := csvLine r.header ++ ((limitedRows r).flatMap csvLine)

/-- `fmt.Sprintf("%f", n)` for an integer-valued float -/
def fmtF (n : Int) : Bytes := str (toString n) ++ b!".000000"

end Dtail
