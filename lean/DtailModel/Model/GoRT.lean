/-
Run-time prelude for `Generated/Code.lean` — the Go functions that /verif/extract translates
statement by statement from /repo's working tree on every run (tie G).  Everything here is
hand-written and small: Go values as Lean values, the three indexing forms of Go (`a[i]`,
`v, ok := m[k]`, `a[i] = v`), zero values, and the loop combinator the translator targets.

Modelling decisions (trusted base):
* `int`, `uint64`, named integer types are `Int` (no wrap-around; no property here is about overflow);
* `float64` is `Int` (the differential generators emit only integer values on which float64
  arithmetic is exact; `percentOf`, the one place where a real quotient matters, is not
  translated — it is compared exhaustively with the Go function on all 5 151 ring states);
* `string` is a byte list; `error` is `Option` of a message;
* an array `[N]T` is a `List T` whose out-of-range read yields the zero value (Go would panic;
  the models that use the generated code prove the index in range);
* a `map[K]V` is an association list in insertion order (Go's iteration order is random; no
  translated function ranges over a map).
-/
import DtailModel.Model.GoStr
namespace Dtail.Go
open Dtail

abbrev GoString := List UInt8
abbrev GoFloat := Int
abbrev GoErr := Option GoString

/-- Go's `+` on strings -/
instance : Add GoString := ⟨fun a b => a ++ b⟩

/-- run-time string literal -/
def gs (s : String) : GoString := s.toUTF8.toList

class GoZero (α : Type) where
  zero : α

instance : GoZero Int := ⟨0⟩
instance : GoZero Bool := ⟨false⟩
instance : GoZero Unit := ⟨()⟩
instance : GoZero UInt8 := ⟨0⟩
instance : GoZero GoString := ⟨[]⟩
instance {α} : GoZero (Option α) := ⟨none⟩
instance {α} : GoZero (List α) := ⟨[]⟩

structure GoMap (κ ν : Type) where
  entries : List (κ × ν) := []
  deriving Repr, DecidableEq

instance {κ ν} : GoZero (GoMap κ ν) := ⟨{}⟩

namespace GoMap
variable {κ ν : Type} [BEq κ]

def get? (m : GoMap κ ν) (k : κ) : Option ν := (m.entries.find? (·.1 == k)).map (·.2)

def set (m : GoMap κ ν) (k : κ) (v : ν) : GoMap κ ν :=
  if m.entries.any (·.1 == k) then ⟨m.entries.map fun e => if e.1 == k then (e.1, v) else e⟩
  else ⟨m.entries ++ [(k, v)]⟩

end GoMap

/-- Go indexing: `c[i]`, `v, ok := c[i]`, `c[i] = v` -/
class GoIndex (γ : Type) (ι : outParam Type) (ν : outParam Type) where
  idx : γ → ι → ν
  idxOk : γ → ι → ν × Bool
  upd : γ → ι → ν → γ

instance {α} [GoZero α] : GoIndex (List α) Int α where
  idx l i := l.getD i.toNat GoZero.zero
  idxOk l i := (l.getD i.toNat GoZero.zero, decide (0 ≤ i ∧ i.toNat < l.length))
  upd l i v := l.set i.toNat v

instance {κ ν} [BEq κ] [GoZero ν] : GoIndex (GoMap κ ν) κ ν where
  idx m k := (m.get? k).getD GoZero.zero
  idxOk m k := match m.get? k with | some v => (v, true) | none => (GoZero.zero, false)
  upd m k v := m.set k v

class GoLen (α : Type) where
  len : α → Int

instance {α} : GoLen (List α) := ⟨fun l => l.length⟩
instance {κ ν} : GoLen (GoMap κ ν) := ⟨fun m => m.entries.length⟩

/-- `int(x)`, `uint64(x)`, `float64(x)` between the numeric types: all are `Int` here -/
def goConv (x : Int) : Int := x

/-- `for i, x := range l`: the elements with their indices -/
def goEnum {α : Type} (l : List α) : List (Int × α) := l.zipIdx.map fun (a, i) => ((i : Int), a)

/-- `for i := lo; i < hi; i++`: the values of the counter -/
def goUpTo (lo hi : Int) : List Int := (List.range (hi - lo).toNat).map fun (k : Nat) => lo + (k : Int)

/-- `*rand.Rand`: the numbers its successive `Intn` calls return (the caller of a theorem states
    what it assumes about them, e.g. that each is below the bound it was drawn for) -/
structure GoRand where
  draws : List Int := []
  deriving Repr, DecidableEq

/-- `r.Intn(n)`: the next number and the source after the draw -/
def goIntn (r : GoRand) (_n : Int) : Int × GoRand := (r.draws.headD 0, ⟨r.draws.tail⟩)

/-- outcome of one iteration of a translated `for … range` body -/
inductive LoopStep (ρ σ : Type) where
  | ret (r : ρ)      -- `return` inside the loop
  | next (s : σ)     -- fell off the end of the body, or `continue`
  | brk (s : σ)      -- `break`

/-- `for _, x := range l { body }` followed by `after`: `σ` carries the variables of the
    enclosing function that the body assigns -/
def goRange {α ρ σ : Type} (l : List α) (init : σ) (body : σ → α → LoopStep ρ σ) (after : σ → ρ) : ρ :=
  match l with
  | [] => after init
  | x :: xs =>
    match body init x with
    | .ret r => r
    | .next s => goRange xs s body after
    | .brk s => after s

/-- `for cond { body }`: at most `fuel` rounds; `out` is the result when the fuel runs out (the translator puts a
    panic of its own kind there, which the theorems about the translated function exclude) -/
def goWhile {ρ σ : Type} (fuel : Nat) (init : σ) (cond : σ → Bool) (body : σ → LoopStep ρ σ) (after : σ → ρ) (out : ρ) : ρ :=
  match fuel with
  | 0 => out
  | n + 1 =>
    if cond init then
      match body init with
      | .ret r => r
      | .next s => goWhile n s cond body after out
      | .brk s => after s
    else after init

/-- `x[i]` does not panic -/
def goInRange {α : Type} [GoLen α] (l : α) (i : Int) : Bool := decide (0 ≤ i ∧ i < GoLen.len l)

/-- `x[lo:hi]` does not panic (slices of strings and of slices that were never longer than they are now) -/
def goSliceOk {α : Type} [GoLen α] (l : α) (lo hi : Int) : Bool := decide (0 ≤ lo ∧ lo ≤ hi ∧ hi ≤ GoLen.len l)

/-- `lcontext.LContext` -/
structure GoLContext where
  AfterContext : Int := 0
  BeforeContext : Int := 0
  MaxCount : Int := 0
  deriving Repr, DecidableEq

instance : GoZero GoLContext := ⟨{}⟩

/-- `regex.Regex` is opaque: a compiled expression identified by its source text and flag names -/
structure GoRegex where
  src : GoString := []
  flags : List GoString := []
  deriving Repr, DecidableEq

/-- `*regexp.Regexp` is opaque: a compiled expression identified by its source text; the zero value is nil -/
structure GoRe where
  src : GoString := []
  compiled : Bool := false
  deriving Repr, DecidableEq

instance : GoZero GoRe := ⟨{}⟩

/-- `*line.Line`: `line.Null()` is the nil pointer -/
inductive GoLine where
  | null
  | new (content : GoString) (count : Int) (transmittedPerc : Int) (sourceID : GoString)
  deriving Repr, DecidableEq

/-- `gossh.ConnMetadata` as far as translated code looks at it: `c.User()` and `c.RemoteAddr().String()` -/
structure GoConnMeta where
  user : GoString := []
  remoteAddr : GoString := []
  deriving Repr, DecidableEq

/-- `*gossh.Permissions`: the callbacks only ever return nil -/
abbrev GoPerms := Unit

/-- `*user.User` of internal/user/server as far as code outside its package looks at it -/
structure GoUser where
  Name : GoString := []
  deriving Repr, DecidableEq

/-- the `jobCommons` of a configured scheduled / continuous job that translated code reads -/
structure GoJob where
  Name : GoString := []
  AllowFrom : List GoString := []
  deriving Repr, DecidableEq

/-- the two ways translated code opens a file for writing: `O_CREATE|O_WRONLY|O_TRUNC` and `O_CREATE|O_WRONLY|O_APPEND` -/
inductive GoOpenMode where
  | trunc
  | append
  | rdcreate   -- `O_RDONLY|O_CREATE`: make sure the file exists
  | rdonly     -- `os.Open`
  deriving Repr, DecidableEq

/-- an operation of translated code on the file system; an open file is named by the path it was opened on -/
inductive GoFOp where
  | open (path : GoString) (mode : GoOpenMode)
  | write (path : GoString) (data : GoString)
  | rename (src dst : GoString)
  | remove (path : GoString)
  deriving Repr, DecidableEq

/-- `os.FileInfo` as far as translated code looks at it -/
structure GoFileInfo where
  size : Int := 0
  /-- `Mode().IsRegular()` -/
  regular : Bool := true
  deriving Repr, DecidableEq

/-- `*p` for a pointer that the guard in front of the expression has shown not to be nil -/
def goDeref {α : Type} [GoZero α] (p : Option α) : α := p.getD GoZero.zero

/-- the external functions translated code calls; their behaviour is a parameter of every
    theorem about generated code -/
structure Ext where
  parseFloat : GoString → GoFloat × GoErr
  atoi : GoString → Int × GoErr := fun _ => (0, none)
  /-- `regex.Regex.Match` (RE2 behind the default / invert / noop flag) -/
  reMatch : GoRegex → GoString → Bool := fun _ _ => true
  /-- `regexp.Compile` -/
  reCompile : GoString → GoRe × GoErr := fun s => (⟨s, true⟩, none)
  /-- `(*regexp.Regexp).Match` -/
  reMatchRaw : GoRe → GoString → Bool := fun _ _ => true
  /-- `percentOf(total, value float64) float64`, observed through `int(...)` -/
  percentOf : GoFloat → GoFloat → GoFloat := fun _ _ => 100
  /-- `rand.New(rand.NewSource(time.Now().Unix()))` -/
  randNew : GoRand := {}
  /-- a method of the translated package that is outside the subset (reflection, file I/O) and
      returns a list of strings, by its name -/
  strList : GoString → List GoString := fun _ => []
  /-- `color.PaintWithAttr(sb, text, fg, bg, attr)`: what the builder holds afterwards (the colours are not part of the
      translation; a theorem states what it assumes about this function) -/
  paint : GoString → GoString → GoString := fun sb text => sb ++ text
  /-- `base64.StdEncoding.DecodeString` -/
  base64Decode : GoString → GoString × GoErr := fun s => (s, none)
  /-- rounds a `for cond {…}` loop may take -/
  fuel : Nat := 0
  /-- `funcs.NewFunctionStack`: the function names, the innermost argument, an error -/
  newFunctionStack : GoString → List GoString × GoString × GoErr := fun s => ([], s, none)
  /-- `user.New(name, remoteAddress)` of internal/user/server -/
  userNew : GoString → GoString → GoUser × GoErr := fun n _ => (⟨n⟩, none)
  /-- `net.LookupIP(host)`, every address in its `String()` form -/
  lookupIP : GoString → List GoString × GoErr := fun h => ([h], none)
  /-- `config.Server.Schedule` and `config.Server.Continuous` -/
  schedule : List GoJob := []
  continuous : List GoJob := []
  /-- `filepath.EvalSymlinks`, `filepath.Abs` -/
  evalSymlinks : GoString → GoString × GoErr := fun p => (p, none)
  absPath : GoString → GoString × GoErr := fun p => (p, none)
  /-- `permissions.ToRead(user, path)` (always true unless built with linuxacl) -/
  osToRead : GoString → GoString → Bool × GoErr := fun _ _ => (true, none)
  /-- `os.Lstat(path)` -/
  osLstat : GoString → GoFileInfo × GoErr := fun _ => ({}, none)
  /-- the order in which `for k, v := range m` visits a map of strings (Go leaves it open; a theorem states what it assumes —
      normally that the result is a permutation of the entries) -/
  mapOrder : List (GoString × GoString) → List (GoString × GoString) := fun l => l
  /-- `fmt.Sprintf("%d", n)` -/
  fmtInt : Int → GoString := fun _ => []
  /-- `ssh.ParseAuthorizedKey(bytes)`: the first key of the bytes (marshalled), its comment, its options, the bytes behind
      its line, or an error when no line is a key -/
  parseAuthorizedKey : GoString → GoString × GoString × List GoString × GoString × GoErr := fun _ => ([], [], [], [], some [])
  /-- `knownhosts.Normalize(address)` -/
  normalizeAddr : GoString → GoString := fun a => a
  /-- `bufio.NewScanner(file)`: the lines `Scan` / `Text` deliver for the file opened on this path (scanning stops silently
      at a line the scanner's buffer cannot hold — the caller of a theorem says what the lines are) -/
  scanLines : GoString → List GoString := fun _ => []
  /-- `config.Server.MaxConnections` -/
  maxConnections : Int := 0
  /-- `readFile.totalLineCount()` where the translation does not follow the statistics -/
  lineCount : Int := 0
  /-- `len(lines)` and `cap(lines)` of the channel to the client as the filter sees them (they matter only to a reader that may
      skip lines: tail) -/
  linesLen : Int := 0
  linesCap : Int := 1
  /-- `config.Server.MaxLineLength` -/
  maxLineLength : Int := 1048576
  /-- whether an operation on the file system fails, given the operations that succeeded before it -/
  ioErr : List GoFOp → GoFOp → GoErr := fun _ _ => none
  /-- `os.Stat(path)` -/
  osStat : GoString → GoFileInfo × GoErr := fun _ => ({}, some [])
  /-- the rendered, ordered rows of `GroupSet.result` (the values of each row) -/
  rowValues : List (List GoString) := []

/-- a buffered channel that one goroutine uses as a bounded queue: its capacity and what it holds, oldest first -/
structure GoQueue where
  cap : Int := 0
  items : List GoString := []
  deriving Repr, DecidableEq

instance : GoZero GoQueue := ⟨{}⟩
instance : GoLen GoQueue := ⟨fun q => (q.items.length : Int)⟩

/-- `make(chan *bytes.Buffer, n)` does not panic: the runtime refuses a negative size and one whose buffer (8 bytes per
    element on linux/amd64) would exceed the address space: `8·n > 2^48 − 96` -/
def goMakeChanOk (n : Int) : Bool := decide (0 ≤ n ∧ n ≤ 35184372088820)

/-- a send would not block -/
def GoQueue.hasRoom (q : GoQueue) : Bool := decide ((q.items.length : Int) < q.cap)
/-- a receive would not block -/
def GoQueue.nonEmpty (q : GoQueue) : Bool := !q.items.isEmpty
def GoQueue.head (q : GoQueue) : GoString := q.items.headD []
def GoQueue.pop (q : GoQueue) : GoQueue := { q with items := q.items.tail }
def GoQueue.push (q : GoQueue) (x : GoString) : GoQueue := { q with items := q.items ++ [x] }

/-- `io.EOF` -/
def goEOF : GoErr := some [69, 79, 70]

/-- `(*bufio.Reader).ReadByte` on a reader that is the bytes it has not delivered yet: the next byte and the rest, or
    `io.EOF` (other read errors are not modelled) -/
def goReadByte (r : GoString) : UInt8 × GoErr × GoString :=
  match r with
  | [] => (0, goEOF, [])
  | b :: rest => (b, none, rest)

/-- `fmt.Sprintf("%v", x)` / `("%d", x)` by the type of `x` -/
class GoFmt (α : Type) where
  fmt : Ext → α → GoString

instance : GoFmt Bool := ⟨fun _ b => if b then [116, 114, 117, 101] else [102, 97, 108, 115, 101]⟩
instance : GoFmt Int := ⟨fun ext n => ext.fmtInt n⟩
instance : GoFmt GoString := ⟨fun _ s => s⟩

/-- an operation on the world: it fails (and changes nothing) or it succeeds and joins the history -/
def goEffect (ext : Ext) (hist : List GoFOp) (op : GoFOp) : List GoFOp × GoErr :=
  match ext.ioErr hist op with
  | none => (hist ++ [op], none)
  | some e => (hist, some e)

end Dtail.Go
