/-
The file operations translated code records (`Go.GoFOp`, prelude `Model/GoRT.lean`) as operations of the outfile model
(`Model/Outfile.lean`).
-/
import DtailModel.Model.GoRT
import DtailModel.Model.Outfile
namespace Dtail.GenOutfile
open Dtail Dtail.Go

/-- the model's operation for a recorded one (`os.Remove` happens only after a failed rename and has none) -/
def toFOp : GoFOp → Option FOp
  | .open p .trunc => some (.openTrunc p)
  | .open p .append => some (.openAppend p)
  | .open _ .rdcreate => none
  | .open _ .rdonly => none
  | .write p d => some (.write p d)
  | .rename s d => some (.rename s d)
  | .remove _ => none

def ofFOp : FOp → GoFOp
  | .openTrunc p => .open p .trunc
  | .openAppend p => .open p .append
  | .write p d => .write p d
  | .rename s d => .rename s d

end Dtail.GenOutfile
