/-
Model of a cat/grep session on the server: internal/server/handlers/serverhandler.go
handleUserCommand() (per-session command counter), readcommand.go / readfile.go (readers block
on a full queue: canSkipLines = false), basehandler.go Read() (any ready queue may be served),
flush()/shutdown() (after the fix: the close handshake starts only when the queues are empty).
A labelled transition system; the scheduler's choices are the labels.
-/
import DtailModel.Model.Basic
namespace Dtail

inductive CmdSt where
  | notSent
  | reading (next : Nat)     -- lines 1 … next-1 of the file have been queued
  | done
  deriving Repr, DecidableEq

inductive SPhase | running | flushing | synQueued | closed
  deriving Repr, DecidableEq

structure Sess where
  sizes : List Nat                 -- selected lines per requested file (one command each)
  cmds : List CmdSt
  queue : List (Nat × Nat)         -- the session's line queue (command, line number), oldest first
  delivered : List (Nat × Nat)     -- what the client has received, in order
  phase : SPhase
  lateRecv : Bool                  -- some command was dispatched after the session had gone idle
  deriving Repr, DecidableEq

inductive SLabel where
  | recv (c : Nat)       -- the server dispatches command c (incrementActiveCommands, reader starts)
  | push (c : Nat)       -- reader c queues its next line (blocks while the queue is full)
  | finish (c : Nat)     -- reader c is through; decrementActiveCommands; at 0: shutdown() begins
  | deliver              -- Read() serves the oldest queued line
  | flushDone            -- flush() found every queue empty; '.syn close connection' is queued
  | deliverSyn           -- Read() serves the .syn; the client acknowledges and leaves
  deriving Repr, DecidableEq

def isReading : CmdSt → Bool
  | .reading _ => true
  | _ => false

def activeCount (cs : List CmdSt) : Nat := (cs.filter isReading).length

def queueCap : Nat := Facts.linesCap

/-- `commandFinished`: when the last active command ends, shutdown() begins -/
def phaseAfterFinish (cmds : List CmdSt) (p : SPhase) : SPhase :=
  if activeCount cmds = 0 ∧ p = .running then .flushing else p

def sessStep (s : Sess) : SLabel → Option Sess
  | .recv c =>
    if s.phase ≠ .closed ∧ s.cmds[c]? = some .notSent then
      some { s with cmds := s.cmds.set c (.reading 1), lateRecv := s.lateRecv || (s.phase != .running) }
    else none
  | .push c =>
    match s.cmds[c]?, s.sizes[c]? with
    | some (.reading k), some n =>
      if k ≤ n ∧ s.queue.length < queueCap ∧ s.phase ≠ .closed then
        some { s with cmds := s.cmds.set c (.reading (k + 1)), queue := s.queue ++ [(c, k)] }
      else none
    | _, _ => none
  | .finish c =>
    match s.cmds[c]?, s.sizes[c]? with
    | some (.reading k), some n =>
      if k = n + 1 ∧ s.phase ≠ .closed then
        some { s with cmds := s.cmds.set c .done, phase := phaseAfterFinish (s.cmds.set c .done) s.phase }
      else none
    | _, _ => none
  | .deliver =>
    match s.queue with
    | x :: rest => if s.phase ≠ .closed then some { s with queue := rest, delivered := s.delivered ++ [x] } else none
    | [] => none
  | .flushDone =>
    if s.phase = .flushing ∧ s.queue = [] then some { s with phase := .synQueued } else none
  | .deliverSyn =>
    if s.phase = .synQueued then some { s with phase := .closed } else none

def sessRun (s : Sess) : List SLabel → Option Sess
  | [] => some s
  | l :: rest => (sessStep s l).bind (fun s' => sessRun s' rest)

def sessInit (sizes : List Nat) : Sess :=
  ⟨sizes, List.replicate sizes.length .notSent, [], [], .running, false⟩

/-- lines 1 … k-1 of command c -/
def linesUpTo (c k : Nat) : List (Nat × Nat) := (List.range (k - 1)).map fun i => (c, i + 1)

/-- how far command c has got -/
def nextOfC (cmds : List CmdSt) (sizes : List Nat) (c : Nat) : Nat :=
  match cmds[c]?, sizes[c]? with
  | some (.reading k), _ => k
  | some .done, some n => n + 1
  | _, _ => 1

def nextOf (s : Sess) (c : Nat) : Nat := nextOfC s.cmds s.sizes c

end Dtail
