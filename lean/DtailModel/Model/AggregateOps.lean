/-
The model's select conditions as values of the translated code (`Generated/Code.lean`, namespace `Gen.Mapr`): definitions
only, so that the driver can build them without the proofs about the translated functions (`Lemmas/GenAggregate.lean`).
-/
import DtailModel.Generated.Code
import DtailModel.Model.Aggregate
namespace Dtail.GenAgg
open Dtail Dtail.Go Dtail.Gen.Mapr

/-- the source's numbering of the aggregation operations -/
def opCode : AggOp → Int
  | .undef => 0 | .count => 1 | .sum => 2 | .min => 3 | .max => 4 | .last => 5 | .avg => 6 | .len => 7

def genSel (sc : SelCond) : selectCondition := ⟨sc.field, sc.storage, opCode sc.op⟩

end Dtail.GenAgg
