/-
Go string helpers over bytes used by several models: Split, Fields (Unicode white space on
UTF-8 bytes), ASCII case mapping, Atoi, and Go's panicking slice/index operations.
-/
import DtailModel.Model.Discovery
import DtailModel.Model.Color
namespace Dtail

namespace Outcome
instance : Monad Outcome where
  pure a := .ok a
  bind o f := o.bind f
def isPanic {α : Type} : Outcome α → Bool
  | .panic _ => true
  | _ => false
end Outcome

/-- `l[k]` -/
def goIndex {α : Type} (l : List α) (k : Nat) : Outcome α :=
  match l[k]? with
  | some x => .ok x
  | none => .panic s!"index out of range [{k}] with length {l.length}"

/-- `l[lo:]` -/
def goSliceFrom {α : Type} (l : List α) (lo : Nat) : Outcome (List α) :=
  if lo ≤ l.length then .ok (l.drop lo) else .panic s!"slice bounds out of range [{lo}:{l.length}]"

/-- `s[lo:hi]` -/
def goSlice {α : Type} (l : List α) (lo hi : Nat) : Outcome (List α) :=
  if hi > l.length then .panic s!"slice bounds out of range [:{hi}] with length {l.length}"
  else if lo > hi then .panic s!"slice bounds out of range [{lo}:{hi}]"
  else .ok ((l.take hi).drop lo)

def SP : UInt8 := 32

/-- `strings.Join(l, sep)` for a one-byte separator -/
def joinByte (sep : UInt8) : List Bytes → Bytes
  | [] => []
  | [x] => x
  | x :: y :: rest => x ++ sep :: joinByte sep (y :: rest)

/-- length of the Unicode white-space rune at the head of `bs` (as `unicode.IsSpace` on the
    UTF-8 decoding), or 0 -/
def spaceLen : Bytes → Nat
  | b :: rest =>
    if b = 32 ∨ (9 ≤ b ∧ b ≤ 13) then 1
    else match b, rest with
      | 0xC2, 0x85 :: _ => 2
      | 0xC2, 0xA0 :: _ => 2
      | 0xE1, 0x9A :: 0x80 :: _ => 3
      | 0xE2, 0x80 :: c :: _ => if (0x80 ≤ c ∧ c ≤ 0x8A) ∨ c = 0xA8 ∨ c = 0xA9 ∨ c = 0xAF then 3 else 0
      | 0xE2, 0x81 :: 0x9F :: _ => 3
      | 0xE3, 0x80 :: 0x80 :: _ => 3
      | _, _ => 0
  | [] => 0

/-- `strings.Fields` -/
def fieldsAux : Nat → Bytes → Bytes → List Bytes
  | 0, _, cur => if cur = [] then [] else [cur]
  | _, [], cur => if cur = [] then [] else [cur]
  | fuel + 1, b :: rest, cur =>
    let k := spaceLen (b :: rest)
    if k = 0 then fieldsAux fuel rest (cur ++ [b])
    else (if cur = [] then [] else [cur]) ++ fieldsAux fuel ((b :: rest).drop k) []

def fields (s : Bytes) : List Bytes := fieldsAux (s.length + 1) s []

def lowerByte (b : UInt8) : UInt8 := if 65 ≤ b ∧ b ≤ 90 then b + 32 else b
def upperByte (b : UInt8) : UInt8 := if 97 ≤ b ∧ b ≤ 122 then b - 32 else b

/-- `strings.ToLower` as far as comparisons with ASCII words are concerned: ASCII letters,
    plus the two non-ASCII runes whose lower case is an ASCII letter (U+0130 → i, U+212A → k). -/
def lowerKey : Bytes → Bytes
  | 0xC4 :: 0xB0 :: rest => 105 :: lowerKey rest
  | 0xE2 :: 0x84 :: 0xAA :: rest => 107 :: lowerKey rest
  | b :: rest => lowerByte b :: lowerKey rest
  | [] => []

def upperAscii (s : Bytes) : Bytes := s.map upperByte

/-- `strings.EqualFold(s, w)` for an ASCII word `w` without 'k' or 's' -/
def equalFoldAscii (s w : Bytes) : Bool := s.map lowerByte == w.map lowerByte

def isDigit (b : UInt8) : Bool := 48 ≤ b ∧ b ≤ 57

def digitsVal (ds : Bytes) : Nat := ds.foldl (fun acc d => acc * 10 + (d.toNat - 48)) 0

/-- `strconv.Atoi` (base 10, optional sign, 64-bit range) -/
def atoi (s : Bytes) : Option Int :=
  let (neg, ds) := match s with
    | 45 :: r => (true, r)
    | 43 :: r => (false, r)
    | _ => (false, s)
  if ds = [] ∨ !ds.all isDigit then none
  else
    let v := digitsVal ds
    if neg then (if v ≤ 9223372036854775808 then some (-(v : Int)) else none)
    else (if v ≤ 9223372036854775807 then some (v : Int) else none)

/-- `fmt.Sprintf("%d", n)` -/
def showInt (n : Int) : Bytes := str (toString n)

def containsSub (s sub : Bytes) : Bool :=
  sub = [] || (List.range (s.length + 1)).any (fun i => sub.isPrefixOf (s.drop i))

def hasSuffix (suf s : Bytes) : Bool := suf.isSuffixOf s

/-- `strings.Split(s, sep)` for a non-empty multi-byte separator -/
def splitOnSubAux (sep : Bytes) : Nat → Bytes → Bytes → List Bytes
  | 0, _, cur => [cur]
  | _, [], cur => [cur]
  | fuel + 1, b :: rest, cur =>
    if sep.isPrefixOf (b :: rest) ∧ !sep.isEmpty then cur :: splitOnSubAux sep fuel ((b :: rest).drop sep.length) []
    else splitOnSubAux sep fuel rest (cur ++ [b])

def splitOnSub (s sep : Bytes) : List Bytes := splitOnSubAux sep (s.length + 1) s []

end Dtail
