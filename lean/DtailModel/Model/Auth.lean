/-
Model of session authorisation: internal/ssh/server/publickeycallback.go verifyAuthorizedKeys
(after the fix: trailing non-key lines no longer reject the file), internal/server/server.go
Callback()/backgroundCanSSH(), the handler choice in handleRequests() and the server-side
health handler's command dispatch.
`ssh.ParseAuthorizedKey` is modelled by its contract: it skips lines that are not keys and
returns the first key and the remaining lines, or fails when no line is a key; `keyOf` says
which lines are keys (and which key they carry).
-/
import DtailModel.Model.GoStr
namespace Dtail

abbrev Key := Bytes

/-- `ssh.ParseAuthorizedKey` on the remaining lines -/
def parseAuthorizedKey (keyOf : Bytes → Option Key) : List Bytes → Option (Key × List Bytes)
  | [] => none
  | l :: rest => match keyOf l with
    | some k => some (k, rest)
    | none => parseAuthorizedKey keyOf rest

/-- the loop of `verifyAuthorizedKeys`: all keys of the file (fuel = number of lines) -/
def collectKeys (keyOf : Bytes → Option Key) : Nat → List Bytes → List Key
  | 0, _ => []
  | fuel + 1, lines =>
    -- `for len(bytes) > 0`: on no bytes the parse finds no key either
    match parseAuthorizedKey keyOf lines with
    | none => []                       -- (fix) stop: the keys found so far still count
    | some (k, rest) => k :: collectKeys keyOf fuel rest

def verifyAuthorizedKeys (keyOf : Bytes → Option Key) (lines : List Bytes) (offered : Key) : Bool :=
  (collectKeys keyOf (lines.length + 1) lines).contains offered

structure Job where
  name : Bytes
  allowFrom : List Bytes
  deriving Repr, DecidableEq

/-- `backgroundCanSSH` with `net.LookupIP` as a parameter -/
def backgroundCanSSH (lookup : Bytes → List Bytes) (pw ip : Bytes) (j : Job) : Bool :=
  pw == j.name && j.allowFrom.any (fun a => (lookup a).contains ip)

/-- `Server.Callback`: password authentication -/
def passwordCallback (lookup : Bytes → List Bytes) (schedule continuous : List Job)
    (user pw ip : Bytes) : Bool :=
  if user = Facts.healthUserBytes then pw == Facts.healthUserBytes
  else if user = Facts.scheduleUserBytes then schedule.any (backgroundCanSSH lookup pw ip)
  else if user = Facts.continuousUserBytes then continuous.any (backgroundCanSSH lookup pw ip)
  else false

inductive HandlerKind | health | server
  deriving Repr, DecidableEq

/-- `handleRequests`: which handler a shell session gets -/
def handlerFor (user : Bytes) : HandlerKind :=
  if user = Facts.healthUserBytes then .health else .server

inductive HealthReply | ok | ack | error
  deriving Repr, DecidableEq

/-- `handleHealthCommand` -/
def healthCommand (name : Bytes) : HealthReply :=
  if name = b!"health" then .ok else if name = b!".ack" then .ack else .error

end Dtail
