/-
Model of internal/discovery: list sources, regex filter, dedup, shuffle.
-/
import DtailModel.Model.Basic
set_option autoImplicit true  -- the type variable α of the generic list functions below is bound implicitly
namespace Dtail

def COMMA : UInt8 := 44
def CR : UInt8 := 13

/-- `strings.Split(s, sep)` for a one-byte separator: never empty, `""` gives `[""]`. -/
def splitOnByte (sep : UInt8) : Bytes → List Bytes
  | [] => [[]]
  | b :: bs =>
    if b = sep then [] :: splitOnByte sep bs
    else match splitOnByte sep bs with
      | [] => [[b]]          -- unreachable: the result is never empty
      | h :: t => (b :: h) :: t

/-- `bufio.Scanner` with `ScanLines`: split at '\n', drop one trailing '\r' per line, a final
    unterminated non-empty line counts, lines of `maxTok` bytes or more are an error. -/
def dropCR (l : Bytes) : Bytes := if l.getLast? = some CR then l.dropLast else l

def scanLines (content : Bytes) : List Bytes :=
  let parts := splitOnByte NL content
  -- the piece after the last '\n' is a line only if it is non-empty
  let parts := if parts.getLast? = some [] then parts.dropLast else parts
  parts.map dropCR

/-- `dedupList`: keep the first occurrence of every entry. -/
def dedup [DecidableEq α] : List α → List α → List α
  | _, [] => []
  | seen, x :: xs => if x ∈ seen then dedup seen xs else x :: dedup (x :: seen) xs

/-- `shuffleList`: for each random index take that element and remove it from the list.
    `none` = index out of range (a Go panic; impossible for indices drawn by `Intn(len)`). -/
def shuffle : List α → List Nat → Option (List α)
  | _, [] => some []
  | l, r :: rs =>
    match l[r]? with
    | none => none
    | some x => (shuffle (l.eraseIdx r) rs).map (x :: ·)

/-- the indices `Intn(len(servers))` can deliver while the list shrinks by one per round -/
def validIdx : Nat → List Nat → Bool
  | n, [] => n = 0
  | n, r :: rs => r < n && validIdx (n - 1) rs

/-- the entries the client wants: the source's entries that pass the optional filter -/
def wanted (entries : List α) (filter : Option (α → Bool)) : List α :=
  match filter with | none => entries | some p => entries.filter p

/-- `ServerList()` for entries already obtained from the source. -/
def serverList [DecidableEq α] (entries : List α) (filter : Option (α → Bool)) (rs : List Nat) : Option (List α) :=
  shuffle (dedup [] (wanted entries filter)) rs

end Dtail
