/-
Linear-time versions of the byte-wise reader and client automata for the driver (the model's
definitions append one byte at a time, which is quadratic on long lines).  `Lemmas/Fast.lean`
proves them equal to the model's definitions.
-/
import DtailModel.Model.Multi
namespace Dtail

/-- reader state with the pending message kept reversed, its length, and the output reversed -/
structure RSF where
  rmsg : Bytes
  len : Nat
  rout : List Bytes

def stepByteF (m : Nat) (s : RSF) (b : UInt8) : RSF :=
  if b = NL then ⟨[], 0, (b :: s.rmsg).reverse :: s.rout⟩
  else if s.len + 1 ≥ m then ⟨[], 0, (NL :: b :: s.rmsg).reverse :: s.rout⟩
  else ⟨b :: s.rmsg, s.len + 1, s.rout⟩

def readLinesF (m : Nat) (bs : Bytes) : List Bytes :=
  let s := bs.foldl (stepByteF m) ⟨[], 0, []⟩
  (if s.rmsg = [] then s.rout else s.rmsg.reverse :: s.rout).reverse

/-- client state with the buffer and the messages reversed -/
structure CSF where
  rbuf : Bytes
  rmsgs : List Bytes

def clientByteF (s : CSF) (b : UInt8) : CSF :=
  if b = NL then ⟨[], (b :: s.rbuf).reverse :: s.rmsgs⟩
  else if b = DELIM then ⟨[], s.rbuf.reverse :: s.rmsgs⟩
  else ⟨b :: s.rbuf, s.rmsgs⟩

def clientMsgsF (bs : Bytes) : List Bytes := (bs.foldl clientByteF ⟨[], []⟩).rmsgs.reverse

end Dtail

namespace Dtail

/-- several connections: reversed receive buffers (position = connection), output reversed -/
structure MSF where
  rbufs : List Bytes
  rout : List (Nat × Bytes)

def multiByteF (i : Nat) (s : MSF) (b : UInt8) : MSF :=
  let rb := (s.rbufs[i]?).getD []
  if b = NL then ⟨s.rbufs.set i [], (i, (b :: rb).reverse) :: s.rout⟩
  else if b = DELIM then ⟨s.rbufs.set i [], (i, rb.reverse) :: s.rout⟩
  else ⟨s.rbufs.set i (b :: rb), s.rout⟩

def multiChunkF (s : MSF) (c : Nat × Bytes) : MSF := c.2.foldl (multiByteF c.1) s

/-- the messages printed under a schedule over `n` connections, in print order -/
def multiRunF (n : Nat) (sched : List (Nat × Bytes)) : List (Nat × Bytes) :=
  (sched.foldl multiChunkF ⟨List.replicate n [], []⟩).rout.reverse

end Dtail
