/-
Model of internal/color/brush/brush.go Colorfy() with internal/color/paint.go PaintWithAttr(),
and of the client handlers' message dispatch (base / mapr / health Write).
-/
import DtailModel.Model.Wire
namespace Dtail

/-- A rendered message is a sequence of escape codes and pieces of text. -/
inductive Seg where
  | code (c : Bytes)
  | text (t : Bytes)
  deriving Repr, DecidableEq

def Seg.bytes : Seg → Bytes
  | .code c => c
  | .text t => t

/-- the coloured rendering as bytes -/
def render (l : List Seg) : Bytes := (l.map Seg.bytes).flatten

/-- the rendering with the escape codes removed -/
def texts : List Seg → Bytes
  | [] => []
  | .code _ :: r => texts r
  | .text t :: r => t ++ texts r

/-- the colour configuration: a name such as "Remote.HostnameFg" to its escape code -/
abbrev Tbl := String → Bytes

def defaultTbl : Tbl := fun k => ((Facts.termColors.find? (fun p => p.1 == k)).map (·.2)).getD []

/-- `strings.TrimSuffix(text, "\n")` and whether something was trimmed -/
def trimNL (t : Bytes) : Bytes × Bool :=
  if t.getLast? = some NL then (t.dropLast, true) else (t, false)

/-- `color.PaintWithAttr` (with `Paint` for `AttrNone`). -/
def paintWithAttr (fg bg attr : Bytes) (t : Bytes) : List Seg :=
  let (trimmed, had) := trimNL t
  [.code fg, .code bg] ++ (if attr = Facts.colorAttrNone then [] else [.code attr])
    ++ [.text trimmed]
    ++ (if attr = Facts.colorAttrNone then [] else [.code Facts.colorAttrReset])
    ++ [.code Facts.colorBgDefault, .code Facts.colorFgDefault]
    ++ (if had then [.text [NL]] else [])

def paintKey (tbl : Tbl) (sect item : String) (t : Bytes) : List Seg :=
  paintWithAttr (tbl (sect ++ "." ++ item ++ "Fg")) (tbl (sect ++ "." ++ item ++ "Bg"))
    (tbl (sect ++ "." ++ item ++ "Attr")) t

def paintDefault (t : Bytes) : List Seg :=
  paintWithAttr Facts.colorFgDefault Facts.colorBgDefault Facts.colorAttrNone t

/-- first occurrence of `sep`: the part before and the part after -/
def splitFirst (sep : UInt8) : Bytes → Option (Bytes × Bytes)
  | [] => none
  | b :: bs => if b = sep then some ([], bs) else
      match splitFirst sep bs with
      | none => none
      | some (p, r) => some (b :: p, r)

/-- `strings.SplitN(s, sep, n)` for a one-byte separator and `n ≥ 0`. -/
def splitN (sep : UInt8) : Nat → Bytes → List Bytes
  | 0, _ => []
  | 1, s => [s]
  | n + 2, s => match splitFirst sep s with
    | none => [s]
    | some (p, r) => p :: splitN sep (n + 1) r

def hasPrefix (p s : Bytes) : Bool := p.isPrefixOf s

/-- `paintSeverity`: WARN / ERROR / FATAL texts get their own colours. -/
def paintSeverity (tbl : Tbl) (t : Bytes) : Option (List Seg) :=
  if hasPrefix (b!"WARN") t then some (paintKey tbl "Common" "SeverityWarn" t)
  else if hasPrefix (b!"ERROR") t then some (paintKey tbl "Common" "SeverityError" t)
  else if hasPrefix (b!"FATAL") t then some (paintKey tbl "Common" "SeverityFatal" t)
  else none

def paintText (tbl : Tbl) (sect : String) (t : Bytes) : List Seg :=
  match paintSeverity tbl t with
  | some s => s
  | none => paintKey tbl sect "Text" t

def delim (tbl : Tbl) (sect : String) : List Seg := paintKey tbl sect "Delimiter" [PIPE]

def paintRemote (tbl : Tbl) (line : Bytes) : List Seg :=
  match splitN PIPE 6 line with
  | [f0, f1, f2, f3, f4, f5] =>
    paintKey tbl "Remote" "Remote" f0 ++ delim tbl "Remote"
      ++ paintKey tbl "Remote" "Hostname" f1 ++ delim tbl "Remote"
      ++ (if f2 = b!"100" then paintKey tbl "Remote" "StatsOk" f2 else paintKey tbl "Remote" "StatsWarn" f2)
      ++ delim tbl "Remote"
      ++ paintKey tbl "Remote" "Count" f3 ++ delim tbl "Remote"
      ++ paintKey tbl "Remote" "ID" f4 ++ delim tbl "Remote"
      ++ paintText tbl "Remote" f5
  | _ => paintDefault line            -- fewer than six fields

def paint3 (tbl : Tbl) (sect first : String) (line : Bytes) : List Seg :=
  match splitN PIPE 3 line with
  | [f0, f1, f2] =>
    paintKey tbl sect first f0 ++ delim tbl sect ++ paintKey tbl sect "Hostname" f1 ++ delim tbl sect
      ++ paintText tbl sect f2
  | _ => paintDefault line            -- fewer than three fields

/-- `brush.Colorfy` -/
def colorfy (tbl : Tbl) (line : Bytes) : List Seg :=
  if hasPrefix (b!"REMOTE") line then paintRemote tbl line
  else if hasPrefix (b!"CLIENT") line then paint3 tbl "Client" "Client" line
  else if hasPrefix (b!"SERVER") line then paint3 tbl "Server" "Server" line
  else paintDefault line

/-- What the base client handler prints for the dispatched messages. -/
def printedColored (tbl : Tbl) (msgs : List Bytes) : List Seg :=
  (msgs.filter (fun m => !isHidden m)).flatMap (colorfy tbl)

/-! ### mapr and health client handlers -/

/-- MaprHandler.Write state -/
structure MS where
  buf : Bytes
  removedNl : Bool
  shown : List Bytes          -- messages passed to baseHandler.handleMessage
  aggregated : List Bytes     -- messages passed to handleAggregateMessage
  deriving Repr, DecidableEq

def maprByte (s : MS) (b : UInt8) : MS :=
  if b = NL then { s with removedNl := true }
  else if b = DELIM then
    if s.buf.head? = some 65 then   -- 'A'
      { buf := [], removedNl := false, shown := s.shown, aggregated := s.aggregated ++ [s.buf] }
    else
      { buf := [], removedNl := false, aggregated := s.aggregated,
        shown := s.shown ++ [if s.removedNl then s.buf ++ [NL] else s.buf] }
  else { s with buf := s.buf ++ [b] }

def maprFeed (bs : Bytes) : MS := bs.foldl maprByte ⟨[], false, [], []⟩

/-- HealthHandler.Write: messages end at '\n' or the delimiter; status 0 iff some
    non-hidden message's last '|'-field is "OK". -/
structure HS where
  buf : Bytes
  ok : Bool
  deriving Repr, DecidableEq

def lastField (m : Bytes) : Bytes := ((splitOnPipe m).getLast?).getD []
where splitOnPipe (m : Bytes) : List Bytes :=
  m.foldr (fun b acc => if b = PIPE then [] :: acc else match acc with
    | [] => [[b]] | h :: t => (b :: h) :: t) [[]]

def healthByte (s : HS) (b : UInt8) : HS :=
  if b = NL ∨ b = DELIM then
    ⟨[], s.ok || (!isHidden s.buf && lastField s.buf = b!"OK")⟩
  else ⟨s.buf ++ [b], s.ok⟩

def healthFeed (bs : Bytes) : HS := bs.foldl healthByte ⟨[], false⟩

end Dtail

namespace Dtail

/-! ### The same functions with Go's indexing made explicit

`sp[k]` on a slice panics when `k ≥ len(sp)`; `message[0]` panics on an empty string.
These variants follow the code's guards literally and return `panic` where the Go runtime
would; the property theorems show they never do. -/

def idx (sp : List Bytes) (k : Nat) : Outcome Bytes :=
  match sp[k]? with
  | some f => .ok f
  | none => .panic s!"index out of range [{k}] with length {sp.length}"

def Outcome.bind {α β : Type} (o : Outcome α) (f : α → Outcome β) : Outcome β :=
  match o with
  | .ok a => f a
  | .err e => .err e
  | .panic p => .panic p

def paintRemoteO (tbl : Tbl) (line : Bytes) : Outcome (List Seg) :=
  let sp := splitN PIPE 6 line
  if sp.length < 6 then .ok (paintDefault line) else
  (idx sp 0).bind fun f0 => (idx sp 1).bind fun f1 => (idx sp 2).bind fun f2 =>
  (idx sp 3).bind fun f3 => (idx sp 4).bind fun f4 => (idx sp 5).bind fun f5 =>
    .ok (paintKey tbl "Remote" "Remote" f0 ++ delim tbl "Remote"
      ++ paintKey tbl "Remote" "Hostname" f1 ++ delim tbl "Remote"
      ++ (if f2 = b!"100" then paintKey tbl "Remote" "StatsOk" f2 else paintKey tbl "Remote" "StatsWarn" f2)
      ++ delim tbl "Remote"
      ++ paintKey tbl "Remote" "Count" f3 ++ delim tbl "Remote"
      ++ paintKey tbl "Remote" "ID" f4 ++ delim tbl "Remote"
      ++ paintText tbl "Remote" f5)

def paint3O (tbl : Tbl) (sect first : String) (line : Bytes) : Outcome (List Seg) :=
  let sp := splitN PIPE 3 line
  if sp.length < 3 then .ok (paintDefault line) else
  (idx sp 0).bind fun f0 => (idx sp 1).bind fun f1 => (idx sp 2).bind fun f2 =>
    .ok (paintKey tbl sect first f0 ++ delim tbl sect ++ paintKey tbl sect "Hostname" f1 ++ delim tbl sect
      ++ paintText tbl sect f2)

def colorfyO (tbl : Tbl) (line : Bytes) : Outcome (List Seg) :=
  if hasPrefix (b!"REMOTE") line then paintRemoteO tbl line
  else if hasPrefix (b!"CLIENT") line then paint3O tbl "Client" "Client" line
  else if hasPrefix (b!"SERVER") line then paint3O tbl "Server" "Server" line
  else .ok (paintDefault line)

/-- `len(message) > 0 && message[0] == 'A'` : the guard makes the index safe -/
def firstIsA (m : Bytes) : Outcome Bool :=
  if m.length > 0 then
    match m[0]? with
    | some b => .ok (b = 65)
    | none => .panic "index out of range [0] with length 0"
  else .ok false

end Dtail
