/-
Model of the mapreduce aggregation pipeline: internal/mapr/server/aggregate.go aggregate(),
internal/mapr/aggregateset.go Aggregate()/Merge() (after the fix: an absent min/max/last/len
operand is skipped), internal/mapr/client/aggregate.go Aggregate(), globalgroupset.go merge(),
whereclause.go / setclause.go.  Numbers are integers (the differential generator emits only
values on which float64 arithmetic is exact); serialisation is the identity (its round trip
is exercised by the differential run through the real Serialize / makeFields).
-/
import DtailModel.Model.Query
namespace Dtail

abbrev Fields := List (Bytes × Bytes)

def getField (fs : Fields) (k : Bytes) : Option Bytes := (fs.find? (·.1 = k)).map (·.2)

/-- `strconv.ParseFloat` restricted to what the generator emits: decimal integers -/
def parseNum (v : Bytes) : Option Int := atoi v

/-- the state of one select column inside an aggregate set: absent, or a number
    (FValues) and/or a string (SValues) -/
structure Col where
  num : Option Int := none
  str : Option Bytes := none
  deriving Repr, DecidableEq

/-- what one log line contributes to a column (`AggregateSet.Aggregate` on the server),
    `none` = nothing (field missing, or not numeric for a numeric aggregation) -/
def contribution (op : AggOp) (fs : Fields) (field : Bytes) : Option Col :=
  match getField fs field with
  | none => none
  | some v =>
    match op with
    | .count => some ⟨some 1, none⟩
    | .last => some ⟨none, some v⟩
    | .len => some ⟨some v.length, some v⟩
    | .sum | .avg | .min | .max => (parseNum v).map fun n => ⟨some n, none⟩
    | .undef => none

def addNum (a b : Option Int) : Option Int :=
  match a, b with
  | none, b => b
  | a, none => a
  | some x, some y => some (x + y)

def minNum (a b : Option Int) : Option Int :=
  match a, b with
  | none, b => b
  | a, none => a
  | some x, some y => some (if x > y then y else x)

def maxNum (a b : Option Int) : Option Int :=
  match a, b with
  | none, b => b
  | a, none => a
  | some x, some y => some (if x < y then y else x)

/-- combine a column state with a later contribution or partial: the same operation serves
    the per-line aggregation, the client's re-aggregation of a message and `Merge` -/
def combine (op : AggOp) (a b : Col) : Col :=
  match op with
  | .count | .sum | .avg => ⟨addNum a.num b.num, none⟩
  | .min => ⟨minNum a.num b.num, none⟩
  | .max => ⟨maxNum a.num b.num, none⟩
  | .last => ⟨none, if b.str.isSome then b.str else a.str⟩
  | .len => if b.str.isSome then b else a
  | .undef => a

structure AggSet where
  samples : Nat := 0
  cols : List Col            -- one per select condition, in select order
  deriving Repr, DecidableEq

def emptySet (n : Nat) : AggSet := ⟨0, List.replicate n {}⟩

/-- server `aggregate()` for one line that belongs to this group -/
def aggLine (sel : List SelCond) (s : AggSet) (fs : Fields) : AggSet :=
  let contribs := sel.map fun sc => contribution sc.op fs sc.field
  { samples := s.samples + (if contribs.any (·.isSome) then 1 else 0),
    cols := (s.cols.zip (sel.zip contribs)).map fun (c, sc, k) =>
      match k with | none => c | some k => combine sc.op c k }

/-- `AggregateSet.Merge` -/
def mergeSet (sel : List SelCond) (a b : AggSet) : AggSet :=
  { samples := a.samples + b.samples,
    cols := (a.cols.zip (sel.zip b.cols)).map fun (c, sc, d) => combine sc.op c d }

/-- the group key of a line (`aggregate()`): the group-by fields joined by ',' -/
def groupKeyOf (groupBy : List Bytes) (fs : Fields) : Bytes :=
  joinByte COMMA (groupBy.map fun g => (getField fs g).getD [])

abbrev Groups := List (Bytes × AggSet)

def updGroup (g : Groups) (k : Bytes) (f : AggSet → AggSet) (dflt : AggSet) : Groups :=
  match g with
  | [] => [(k, f dflt)]
  | (k', s) :: rest => if k' = k then (k', f s) :: rest else (k', s) :: updGroup rest k f dflt

/-- one serialisation interval on one server: all lines aggregated into a fresh group set -/
def serverPartial (sel : List SelCond) (groupBy : List Bytes) (lines : List Fields) : Groups :=
  lines.foldl (fun g fs => updGroup g (groupKeyOf groupBy fs) (fun s => aggLine sel s fs) (emptySet sel.length)) []

/-- a set is transmitted only if it carries data (a message "key∥0∥" has too few parts) -/
def transmitted (g : Groups) : Groups := g.filter fun (_, s) => s.cols.any (fun c => c.num.isSome ∨ c.str.isSome)

def mergeGroups (sel : List SelCond) (a b : Groups) : Groups :=
  b.foldl (fun g (k, s) => updGroup g k (fun t => mergeSet sel t s) (emptySet sel.length)) a

/-- the client's global group after all partials of all servers arrived (any order) -/
def distributed (sel : List SelCond) (groupBy : List Bytes) (partials : List (List Fields)) : Groups :=
  partials.foldl (fun g p => mergeGroups sel g (transmitted (serverPartial sel groupBy p))) []

/-- evaluating the query once over all lines -/
def central (sel : List SelCond) (groupBy : List Bytes) (lines : List Fields) : Groups :=
  transmitted (serverPartial sel groupBy lines)

/-! where / set clauses -/

def whereOperand (fs : Fields) (t : FType) (s : Bytes) : Option Bytes :=
  match t with
  | .field => getField fs s
  | .string => some s
  | .float => some s
  | .funcs => none

def evalWhere (fs : Fields) (w : WhereCond) : Bool :=
  if w.op.isFloat then
    match (whereOperand fs w.lType w.lStr).bind parseNum, (whereOperand fs w.rType w.rStr).bind parseNum with
    | some l, some r =>
      (match w.op with
       | .fEq => l == r | .fNe => l != r | .fLt => l < r | .fLe => l ≤ r | .fGt => l > r | .fGe => l ≥ r
       | _ => false)
    | _, _ => false
  else
    match whereOperand fs w.lType w.lStr, whereOperand fs w.rType w.rStr with
    | some l, some r =>
      (match w.op with
       | .strEq => l == r | .strNe => l != r
       | .contains => containsSub l r | .notContains => !containsSub l r
       | .hasPrefix => hasPrefix r l | .notHasPrefix => !hasPrefix r l
       | .hasSuffix => hasSuffix r l | .notHasSuffix => !hasSuffix r l
       | _ => false)
    | _, _ => false

def whereClause (ws : List WhereCond) (fs : Fields) : Bool := ws.all (evalWhere fs)

/-- `funcs.MaskDigits`: every ASCII digit becomes '.' -/
def maskDigits (v : Bytes) : Bytes := v.map fun b => if isDigit b then 46 else b

/-- `SetClause` (function stacks limited to maskdigits; md5sum is not modelled) -/
def setClause (cs : List SetCond) (fs : Fields) : Fields :=
  cs.foldl (fun fs c =>
    let v := (getField fs c.rStr).getD c.rStr
    let v := if c.rType = .funcs then c.funcs.foldr (fun _ acc => maskDigits acc) v else v
    (fs.filter (·.1 ≠ c.lStr)) ++ [(c.lStr, v)]) fs

end Dtail
