/-
Model of the final report of a mapreduce query (internal/mapr/groupset.go result(),
resultSelect(), resultOrderBy(); the limit of internal/mapr/groupsetresult.go): every group of
the global group set becomes one row (one rendered cell per select condition and the number the
row is ordered by), the rows are sorted stably by that number (`order by`: descending,
`rorder by`: ascending) and cut at the limit.

Modelling decisions (trusted base):
* the number of a cell is an exact fraction (`Rat`); Go computes in float64.  `avg` is the
  quotient sum / samples; the generators emit integers small enough that the float64 quotient is
  order-isomorphic to, and renders (`%f`) like, the exact one;
* Go ranges over a map: the rows reach the sort in a random order.  The model takes the rows in
  the order of the group list; `Lemmas/ResultOrder.lean` proves that the order does not matter
  except among rows with the same order key.
-/
import DtailModel.Model.Aggregate
import DtailModel.Model.Outfile
namespace Dtail

/-- stable insertion: `x` goes in front of the first element whose key is not smaller -/
def insertBy {α κ : Type} (le : κ → κ → Bool) (key : α → κ) (x : α) : List α → List α
  | [] => [x]
  | y :: r => if le (key x) (key y) then x :: y :: r else y :: insertBy le key x r

/-- `sort.SliceStable`: insertion sort from the right keeps equal keys in input order -/
def sortBy {α κ : Type} (le : κ → κ → Bool) (key : α → κ) (l : List α) : List α :=
  l.foldr (insertBy le key) []

def leRat (a b : Rat) : Bool := decide (a ≤ b)
def geRat (a b : Rat) : Bool := decide (b ≤ a)

def pad6 (n : Nat) : Bytes :=
  let s := str (toString n)
  List.replicate (6 - s.length) 48 ++ s

/-- `fmt.Sprintf("%f", x)`: six decimals, the exact value rounded half to even -/
def fmtRat (r : Rat) : Bytes :=
  let a := r.num.natAbs * 1000000
  let q := a / r.den
  let rem := a % r.den
  let q := if 2 * rem > r.den ∨ (2 * rem = r.den ∧ q % 2 = 1) then q + 1 else q
  (if r < 0 then [45] else []) ++ str (toString (q / 1000000)) ++ [46] ++ pad6 (q % 1000000)

structure Cell where
  text : Bytes
  value : Rat
  deriving DecidableEq

/-- `resultSelect` for one select condition: the rendered value and the number behind it -/
def cellOf (op : AggOp) (samples : Nat) (c : Col) : Cell :=
  let f : Int := c.num.getD 0
  match op with
  | .count => ⟨str (toString f), f⟩
  | .last => let sv := c.str.getD []; ⟨sv, ((parseNum sv).getD 0 : Int)⟩
  | .avg => if samples = 0 then ⟨b!"NaN", 0⟩ else let r : Rat := (f : Rat) / (samples : Rat); ⟨fmtRat r, r⟩
  | .undef => ⟨[], 0⟩
  | _ => ⟨fmtRat f, f⟩

structure Row where
  group : Bytes
  cells : List Bytes
  orderBy : Rat
  deriving DecidableEq

/-- one row of `result()`: the order key is the value of the last select condition stored under
    the `order by` name (0 when there is none) -/
def rowOf (q : Query) (e : Bytes × AggSet) : Row :=
  let cs := (q.sel.zip e.2.cols).map fun (sc, c) => (sc, cellOf sc.op e.2.samples c)
  { group := e.1,
    cells := cs.map (·.2.text),
    orderBy := cs.foldl (fun acc (sc, cell) => if sc.storage = q.orderBy then cell.value else acc) 0 }

/-- `resultOrderBy` -/
def orderRows (q : Query) (rows : List Row) : List Row :=
  if q.orderBy = [] then rows
  else if q.reverse then sortBy leRat (·.orderBy) rows
  else sortBy geRat (·.orderBy) rows

/-- the row loop of `resultWriteUnformatted`: `if i == query.Limit { break }` -/
def limitRows {α : Type} (limit : Int) (rows : List α) : List α :=
  if limit < 0 then rows else rows.take limit.toNat

/-- the rows of the final report -/
def report (q : Query) (g : Groups) : List Row := limitRows q.limit (orderRows q (g.map (rowOf q)))

end Dtail
