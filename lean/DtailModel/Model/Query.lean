/-
Model of the mapreduce query language front end: internal/mapr/token.go, query.go,
selectcondition.go, wherecondition.go, setcondition.go, funcs/function.go.
Go's indexing and slicing is explicit (`Outcome.panic` where the runtime would panic).
`strconv.ParseFloat` is an oracle parameter `fl : Bytes → Option Bytes` (token ↦ canonical
value text when it parses as a float).
-/
import DtailModel.Model.GoStr
namespace Dtail

structure Tok where
  str : Bytes
  bare : Bool
  stripped : Bool := false
  deriving Repr, DecidableEq

/-- the keyword set, regenerated from internal/mapr/token.go on every run -/
def keywords : List Bytes := Facts.queryKeywordsBytes

def Tok.isKeyword (t : Tok) : Bool := t.bare && keywords.contains (lowerKey t.str)

def QUOTE : UInt8 := 34
def BACKTICK : UInt8 := 96

/-- `tokenize` -/
def tokenize (q : Bytes) : List Tok :=
  ((splitOnByte QUOTE q).zipIdx).flatMap fun (part, i) =>
    if i % 2 = 0 then
      (fields (part.map (fun b => if b = COMMA then SP else b))).map (fun s => { str := s, bare := true })
    else [{ str := part, bare := false }]

/-- `tokensConsume`: up to the next bareword keyword; empty tokens dropped; back-quoted
    tokens stripped (`length > 1` guard of the fix). Returns (rest, consumed); rest = `none`
    stands for Go's `nil` when no keyword was found. -/
def tokensConsume : List Tok → Outcome (Option (List Tok) × List Tok)
  | [] => .ok (none, [])
  | t :: rest =>
    if t.isKeyword then .ok (some (t :: rest), [])
    else do
      let length := t.str.length
      if length = 0 then tokensConsume rest
      else do
        let first ← goIndex t.str 0
        let last ← goIndex t.str (length - 1)
        if length > 1 ∧ first = BACKTICK ∧ last = BACKTICK then
          let stripped ← goSlice t.str 1 (length - 1)
          let (r, c) ← tokensConsume rest
          .ok (r, { str := stripped, bare := t.bare, stripped := true } :: c)
        else
          let (r, c) ← tokensConsume rest
          .ok (r, t :: c)

def restOf (r : Option (List Tok)) : List Tok := r.getD []

/-- `tokensConsumeOptional` -/
def consumeOptional (ts : List Tok) (w : Bytes) : List Tok :=
  match ts with
  | [] => ts
  | t :: rest => if equalFoldAscii t.str w then rest else ts

inductive AggOp | undef | count | sum | min | max | last | avg | len
  deriving Repr, DecidableEq

structure SelCond where
  field : Bytes
  storage : Bytes
  op : AggOp
  deriving Repr, DecidableEq

def aggOfGoName (v : String) : Option AggOp :=
  if v = "Count" then some .count else if v = "Sum" then some .sum else if v = "Min" then some .min
  else if v = "Max" then some .max else if v = "Last" then some .last else if v = "Avg" then some .avg
  else if v = "Len" then some .len else none

/-- the `switch agg` of makeSelectConditions, regenerated from the source on every run -/
def aggOfName (n : Bytes) : Option AggOp :=
  match (Facts.selectAggNamesBytes.zip Facts.selectAggValues).find? (·.1 = n) with
  | some (_, v) => aggOfGoName v
  | none => none

def LPAR : UInt8 := 40
def RPAR : UInt8 := 41

/-- `makeSelectConditions`, one token -/
def parseSelect (t : Tok) : Outcome SelCond :=
  if t.stripped ∨ (!t.str.contains LPAR ∧ !t.str.contains RPAR) then
    .ok ⟨t.str, t.str, .last⟩
  else do
    let a := splitOnByte LPAR t.str
    if a.length ≠ 2 then .err "Can't parse 'select' aggregation" else
    let agg ← goIndex a 0
    let a1 ← goIndex a 1
    let b := splitOnByte RPAR a1
    if b.length ≠ 2 then .err "Can't parse 'select' field name from aggregation" else
    let f ← goIndex b 0
    match aggOfName agg with
    | some op => .ok ⟨f, t.str, op⟩
    | none => .err "Unknown aggregation in 'select' clause"

def makeSelect : List Tok → Outcome (List SelCond)
  | [] => .ok []
  | t :: ts => do
    let sc ← parseSelect t
    let r ← makeSelect ts
    .ok (sc :: r)

inductive FType | field | string | float | funcs
  deriving Repr, DecidableEq

inductive QOp | strEq | strNe | contains | notContains | hasPrefix | notHasPrefix | hasSuffix
  | notHasSuffix | fEq | fNe | fLt | fLe | fGt | fGe
  deriving Repr, DecidableEq

def QOp.isFloat : QOp → Bool
  | .fEq | .fNe | .fLt | .fLe | .fGt | .fGe => true
  | _ => false

def qopOfGoName (v : String) : Option QOp :=
  if v = "FloatEq" then some .fEq else if v = "FloatNe" then some .fNe else if v = "FloatLt" then some .fLt
  else if v = "FloatLe" then some .fLe else if v = "FloatGt" then some .fGt else if v = "FloatGe" then some .fGe
  else if v = "StringEq" then some .strEq else if v = "StringNe" then some .strNe
  else if v = "StringContains" then some .contains else if v = "StringNotContains" then some .notContains
  else if v = "StringHasPrefix" then some .hasPrefix else if v = "StringNotHasPrefix" then some .notHasPrefix
  else if v = "StringHasSuffix" then some .hasSuffix else if v = "StringNotHasSuffix" then some .notHasSuffix
  else none

/-- the `switch whereOp` of makeWhereConditions, regenerated from the source on every run -/
def whereOpOf (s : Bytes) : Option QOp :=
  match (Facts.whereOpNamesBytes.zip Facts.whereOpValues).find? (·.1 = s) with
  | some (_, v) => qopOfGoName v
  | none => none

structure WhereCond where
  lType : FType
  lStr : Bytes
  lFloat : Bytes := []      -- canonical text of the parsed float, [] if none
  op : QOp
  rType : FType
  rStr : Bytes
  rFloat : Bytes := []
  deriving Repr, DecidableEq

abbrev FloatOracle := Bytes → Option Bytes

/-- one `where` condition: `parse` + `fill` -/
def parseWhere (fl : FloatOracle) (ts : List Tok) : Outcome (WhereCond × List Tok) :=
  if ts.length < 3 then .err "Not enough arguments in 'where' clause" else do
  let t0 ← goIndex ts 0
  let t1 ← goIndex ts 1
  let t2 ← goIndex ts 2
  match whereOpOf (lowerKey t1.str) with
  | none => .err "Unknown operation in 'where' clause"
  | some op =>
    let rest ← goSliceFrom ts 3
    if op.isFloat then
      if !t0.bare then .err "Expected bareword at 'where' clause's lValue" else
      let (lT, lF) := match fl t0.str with | some v => (FType.float, v) | none => (FType.field, [])
      if !t2.bare then .err "Expected bareword at 'where' clause's rValue" else
      let (rT, rF) := match fl t2.str with | some v => (FType.float, v) | none => (FType.field, [])
      .ok (⟨lT, t0.str, lF, op, rT, t2.str, rF⟩, rest)
    else
      .ok (⟨if t0.bare then .field else .string, t0.str, [], op,
            if t2.bare then .field else .string, t2.str, []⟩, rest)

def makeWhereAux (fl : FloatOracle) : Nat → List Tok → Outcome (List WhereCond)
  | 0, _ => .ok []
  | fuel + 1, ts =>
    if ts.length = 0 then .ok [] else do
    let (wc, rest) ← parseWhere fl ts
    let r ← makeWhereAux fl fuel (consumeOptional rest (b!"and"))
    .ok (wc :: r)

def makeWhere (fl : FloatOracle) (ts : List Tok) : Outcome (List WhereCond) :=
  makeWhereAux fl (ts.length + 1) ts

structure SetCond where
  lStr : Bytes
  rType : FType
  rStr : Bytes
  rFloat : Bytes := []
  funcs : List Bytes := []
  deriving Repr, DecidableEq

/-- `funcs.NewFunctionStack` -/
def funcStackAux : Nat → Bytes → List Bytes → Outcome (List Bytes × Bytes)
  | 0, aux, fs => .ok (fs, aux)
  | fuel + 1, aux, fs =>
    if !(hasSuffix [RPAR] aux) then .ok (fs, aux) else
    match aux.idxOf? LPAR with
    | none => .err "unable to parse function"
    | some 0 => .err "unable to parse function"
    | some index => do
      let name ← goSlice aux 0 index
      if name = b!"md5sum" ∨ name = b!"maskdigits" then do
        let inner ← goSlice aux (index + 1) (aux.length - 1)
        funcStackAux fuel inner (fs ++ [name])
      else .err "unknown function"

def funcStack (s : Bytes) : Outcome (List Bytes × Bytes) := funcStackAux (s.length + 1) s []

def DOLLAR : UInt8 := 36

def parseSet (fl : FloatOracle) (ts : List Tok) : Outcome (SetCond × List Tok) :=
  if ts.length < 3 then .err "Not enough arguments in 'set' clause" else do
  let t0 ← goIndex ts 0
  let t1 ← goIndex ts 1
  let t2 ← goIndex ts 2
  if t1.str ≠ b!"=" then .err "Unknown operation in 'set' clause"
  else if !t0.bare then .err "Expected bareword at 'set' clause's lValue"
  else if t0.str.head? ≠ some DOLLAR then .err "Expected field variable name (starting with $)"
  else do
    let rest ← goSliceFrom ts 3
    if t2.stripped then .ok (⟨t0.str, .field, t2.str, [], []⟩, rest)
    else if hasSuffix [RPAR] t2.str then do
      let (fs, arg) ← funcStack t2.str
      .ok (⟨t0.str, .funcs, arg, [], fs⟩, rest)
    else match fl t2.str with
      | some v => .ok (⟨t0.str, .float, t2.str, v, []⟩, rest)
      | none => .ok (⟨t0.str, .field, t2.str, [], []⟩, rest)

def makeSetAux (fl : FloatOracle) : Nat → List Tok → Outcome (List SetCond)
  | 0, _ => .ok []
  | fuel + 1, ts =>
    if ts.length = 0 then .ok [] else do
    let (sc, rest) ← parseSet fl ts
    let r ← makeSetAux fl fuel (consumeOptional rest [COMMA])
    .ok (sc :: r)

def makeSet (fl : FloatOracle) (ts : List Tok) : Outcome (List SetCond) :=
  makeSetAux fl (ts.length + 1) ts

structure Query where
  sel : List SelCond := []
  table : Bytes := []
  whr : List WhereCond := []
  set : List SetCond := []
  groupBy : List Bytes := []
  orderBy : Bytes := []
  reverse : Bool := false
  groupKey : Bytes := []
  interval : Int := 5
  limit : Int := -1
  outfile : Option (Bytes × Bool) := none
  logFormat : Bytes := []
  deriving Repr, DecidableEq

/-- one iteration of the `parseTokens` loop: the clause starting at `ts[0]` -/
def parseClause (fl : FloatOracle) (q : Query) (ts : List Tok) : Outcome (Query × List Tok) := do
  let t0 ← goIndex ts 0
  let tail ← goSliceFrom ts 1
  let kw := lowerKey t0.str
  if kw = b!"select" then do
    let (r, found) ← tokensConsume tail
    let s ← makeSelect found
    .ok ({ q with sel := s }, restOf r)
  else if kw = b!"from" then do
    let (r, found) ← tokensConsume tail
    if found.length = 0 then .err "expected table name after 'from'"
    else if found.length > 1 then .err "expected only one table name after 'from'"
    else do
      let f0 ← goIndex found 0
      .ok ({ q with table := upperAscii f0.str }, restOf r)
  else if kw = b!"where" then do
    let (r, found) ← tokensConsume tail
    let w ← makeWhere fl found
    .ok ({ q with whr := w }, restOf r)
  else if kw = b!"set" then do
    let (r, found) ← tokensConsume tail
    let s ← makeSet fl found
    .ok ({ q with set := s }, restOf r)
  else if kw = b!"group" then do
    let ts' := consumeOptional tail (b!"by")
    if ts'.length < 1 then .err "Unexpected end of query" else
    let (r, found) ← tokensConsume ts'
    let g := found.map (·.str)
    .ok ({ q with groupBy := g, groupKey := joinByte COMMA g }, restOf r)
  else if kw = b!"rorder" ∨ kw = b!"order" then do
    let ts' := consumeOptional tail (b!"by")
    if ts'.length < 1 then .err "Unexpected end of query" else
    let (r, found) ← tokensConsume ts'
    if found.length = 0 then .err "Unexpected end of query" else
    let f0 ← goIndex found 0
    .ok ({ q with orderBy := f0.str, reverse := if kw = b!"rorder" then true else q.reverse }, restOf r)
  else if kw = b!"interval" then do
    let (r, found) ← tokensConsume tail
    if found.length > 0 then do
      let f0 ← goIndex found 0
      match atoi f0.str with
      | none => .err "interval: not a number"
      | some i => .ok ({ q with interval := i }, restOf r)
    else .ok (q, restOf r)
  else if kw = b!"limit" then do
    let (r, found) ← tokensConsume tail
    if found.length = 0 then .err "Unexpected end of query" else
    let f0 ← goIndex found 0
    match atoi f0.str with
    | none => .err "limit: not a number"
    | some i => .ok ({ q with limit := i }, restOf r)
  else if kw = b!"outfile" then do
    let (r, found) ← tokensConsume tail
    if found.length = 1 then do
      let f0 ← goIndex found 0
      .ok ({ q with outfile := some (f0.str, false) }, restOf r)
    else if found.length = 2 then do
      let f0 ← goIndex found 0
      let f1 ← goIndex found 1
      if f0.str = b!"append" then .ok ({ q with outfile := some (f1.str, true) }, restOf r)
      else .err "Invalid query"
    else .err "Invalid query"
  else if kw = b!"logformat" then do
    let (r, found) ← tokensConsume tail
    if found.length = 0 then .err "Unexpected end of query" else
    let f0 ← goIndex found 0
    .ok ({ q with logFormat := f0.str }, restOf r)
  else .err "Unexpected keyword"

def parseTokensAux (fl : FloatOracle) : Nat → Query → List Tok → Outcome Query
  | 0, q, _ => .ok q
  | fuel + 1, q, ts =>
    if ts.length = 0 then .ok q else do
    let (q', rest) ← parseClause fl q ts
    parseTokensAux fl fuel q' rest

/-- `Query.parse`: the clause loop and the final checks -/
def parseQuery (fl : FloatOracle) (ts : List Tok) : Outcome Query := do
  let q ← parseTokensAux fl (ts.length + 1) {} ts
  if q.sel.length < 1 then .err "Expected at least one field in 'select' clause" else do
  let q ← if q.groupBy.length = 0 then do
        let s0 ← goIndex q.sel 0
        pure { q with groupBy := [s0.field] }
      else pure q
  if q.orderBy ≠ [] ∧ !(q.sel.any (fun sc => sc.storage = q.orderBy)) then
    .err "Can not '(r)order by', must be present in 'select' clause"
  else .ok q

/-- `mapr.NewQuery`: `none` for the empty string (Go returns `nil, nil`) -/
def newQuery (fl : FloatOracle) (s : Bytes) : Outcome (Option Query) :=
  if s = [] then .ok none else do
    let q ← parseQuery fl (tokenize s)
    .ok (some q)

end Dtail
