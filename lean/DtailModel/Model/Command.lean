/-
Model of the command path: client side encoding (clients/*client.go makeCommands,
config.Args.SerializeOptions, regex.Serialize, handlers.SendMessage) and server side decoding
(server/handlers/basehandler.go Write/handleCommand/handleProtocolVersion/handleBase64,
config.DeserializeOptions, serverhandler.go handleUserCommand, readcommand.go Start,
regex.Deserialize, mapcommand.go).  Go's indexing and slicing are explicit.
-/
import DtailModel.Model.Query
import DtailModel.Model.Grep
namespace Dtail

def COLON : UInt8 := 58
def EQ : UInt8 := 61
def PERCENT : UInt8 := 37
def SEMI : UInt8 := 59

/-- `strings.SplitN(s, sep, 2)` for a one-byte separator -/
def splitN2 (sep : UInt8) (s : Bytes) : List Bytes := splitN sep 2 s

structure LCtx where
  before : Int := 0
  after : Int := 0
  maxc : Int := 0
  deriving Repr, DecidableEq

/-- external codecs / oracles the decode path calls -/
structure Env where
  b64dec : Bytes → Option Bytes           -- base64.StdEncoding.DecodeString
  compiles : Bytes → Bool                 -- regexp.Compile succeeds
  fl : FloatOracle                        -- strconv.ParseFloat
  serverFormat : Bytes := b!"default"     -- config.Server.MapreduceLogFormat

/-- `config.DeserializeOptions` + `setOption` -/
def deserializeOptions (env : Env) : List Bytes → List (Bytes × Bytes) → LCtx →
    Outcome (List (Bytes × Bytes) × LCtx)
  | [], opts, ltx => .ok (opts, ltx)
  | o :: rest, opts, ltx =>
    let kv := splitN2 EQ o
    if kv.length ≠ 2 then .err "Unable to parse options" else do
    let key ← goIndex kv 0
    let val0 ← goIndex kv 1
    let val ← if hasPrefix (b!"base64%") val0 then do
          let s := splitN2 PERCENT val0
          let enc ← goIndex s 1
          match env.b64dec enc with
          | some d => pure d
          | none => Outcome.err "illegal base64 data"
        else pure val0
    if key = b!"before" then
      match atoi val with
      | some i => deserializeOptions env rest opts { ltx with before := i }
      | none => .err "strconv.Atoi"
    else if key = b!"after" then
      match atoi val with
      | some i => deserializeOptions env rest opts { ltx with after := i }
      | none => .err "strconv.Atoi"
    else if key = b!"max" then
      match atoi val with
      | some i => deserializeOptions env rest opts { ltx with maxc := i }
      | none => .err "strconv.Atoi"
    else deserializeOptions env rest (opts.filter (·.1 ≠ key) ++ [(key, val)]) ltx

def flagOfName (n : Bytes) : Option RFlag :=
  if n = b!"default" then some .default else if n = b!"invert" then some .invert
  else if n = b!"noop" then some .noop else none

structure RegexSpec where
  pattern : Bytes
  flag : RFlag
  deriving Repr, DecidableEq

/-- `regex.Deserialize` -/
def regexDeserialize (env : Env) (s : Bytes) : Outcome RegexSpec :=
  let p := splitN2 SP s
  if p.length < 2 then .ok ⟨[], .noop⟩ else do
  let flagsStr ← goIndex p 0
  let regexStr ← goIndex p 1
  if !hasPrefix (b!"regex") flagsStr then .err "unable to deserialize regex" else do
  let flags ← if flagsStr.contains COLON then do
        let s2 := splitN2 COLON flagsStr
        let fl ← goIndex s2 1
        pure ((splitOnByte COMMA fl).filterMap flagOfName)
      else pure []
  let flags := if flags.length = 0 then [RFlag.default] else flags
  if !env.compiles regexStr then .err "error parsing regexp" else do
  let f0 ← goIndex flags 0
  .ok ⟨regexStr, f0⟩

inductive Mode | cat | tail
  deriving Repr, DecidableEq

/-- what a decoded command makes the server do -/
inductive Action where
  | errorMessage (what : String)                         -- an error / warning goes back to the client
  | read (mode : Mode) (ltx : LCtx) (glob : Bytes) (re : RegexSpec)
  | map (q : Query) (parser : Bytes)
  | ack (close : Bool)
  deriving Repr, DecidableEq

structure Handled where
  action : Action
  options : List (Bytes × Bytes) := []      -- quiet / plain / serverless ... as decoded
  deriving Repr, DecidableEq

/-- `readCommand.Start` up to the point where the glob is read -/
def readStart (env : Env) (mode : Mode) (ltx : LCtx) (argc : Nat) (args : List Bytes) : Outcome Action := do
  let re ← if argc ≥ 4 then do
        let tail ← goSliceFrom args 2
        match regexDeserialize env (joinByte SP tail) with
        | .ok r => pure (some r)
        | .err _ => pure none
        | .panic p => Outcome.panic p
      else pure (some ⟨[], .noop⟩)
  match re with
  | none => .ok (.errorMessage "Unable to parse command (regex)")
  | some re =>
    if argc < 3 then .ok (.errorMessage "Unable to parse command")
    else do
      let glob ← goIndex args 1
      .ok (.read mode ltx glob re)

/-- `newMapCommand` / `server.NewAggregate` up to the choice of the log format parser -/
def mapStart (env : Env) (args : List Bytes) : Outcome Action := do
  let tail ← goSliceFrom args 1
  match newQuery env.fl (joinByte SP tail) with
  | .panic p => .panic p
  | .err e => .ok (.errorMessage e)
  | .ok none => .ok (.errorMessage "Invalid query: empty mapreduce query")
  | .ok (some q) =>
    let parser := if q.logFormat = [] then (if q.table = [] then b!"generic" else env.serverFormat)
                  else q.logFormat
    .ok (.map q parser)

/-- `handleAckCommand` -/
def ackStart (argc : Nat) (args : List Bytes) : Outcome Action :=
  if argc < 3 then .ok (.errorMessage "Unable to parse command") else do
  let a1 ← goIndex args 1
  let a2 ← goIndex args 2
  .ok (.ack (a1 = b!"close" ∧ a2 = b!"connection"))

/-- `handleUserCommand` -/
def userCommand (env : Env) (ltx : LCtx) (argc : Nat) (args : List Bytes) (name : Bytes) : Outcome Action :=
  if name = b!"grep" ∨ name = b!"cat" then readStart env .cat ltx argc args
  else if name = b!"tail" then readStart env .tail ltx argc args
  else if name = b!"map" then mapStart env args
  else if name = b!".ack" then ackStart argc args
  else .ok (.errorMessage "Received unknown user command")

structure DecodedCmd where
  name : Bytes
  argc : Nat
  args : List Bytes
  ltx : LCtx := {}
  options : Option (List (Bytes × Bytes)) := none    -- `some` iff handleOptions was called
  deriving Repr, DecidableEq

/-- the decoded command once `args[0]` is split at ':' -/
def decodeParts (env : Env) (args : List Bytes) (parts : List Bytes) : Outcome DecodedCmd := do
  let argc := args.length          -- (after the fix: the number of arguments)
  let name ← goIndex parts 0
  let noOpts ← if parts.length = 1 then pure true else do
        let p1 ← goIndex parts 1
        pure (p1.length = 0)
  if noOpts then .ok { name, argc, args }
  else do
    let optStrs ← goSliceFrom parts 1
    let (opts, ltx) ← deserializeOptions env optStrs [] {}
    .ok { name, argc, args, ltx, options := some opts }

/-- `handleCommand` after the base64 envelope: the decoded string split at spaces -/
def decodeArgs (env : Env) (args : List Bytes) : Outcome DecodedCmd := do
  let c0 ← goIndex args 0
  decodeParts env args (splitOnByte COLON c0)

def decodeInner (env : Env) (decoded : Bytes) : Outcome DecodedCmd :=
  decodeArgs env (splitOnByte SP decoded)

/-- protocol check and base64 envelope on the space-split command -/
def decodeEnvelope (env : Env) (args : List Bytes) : Outcome DecodedCmd := do
  let argc := args.length
  -- handleProtocolVersion
  let a0 ← goIndex args 0
  if argc ≤ 2 ∨ a0 ≠ b!"protocol" then .err "unable to determine protocol version" else do
  let a1 ← goIndex args 1
  if a1 ≠ Facts.protocolCompatBytes then .err "protocol version mismatch" else do
  let args ← goSliceFrom args 2
  let argc := argc - 2
  -- handleBase64
  let b0 ← goIndex args 0
  if argc ≠ 2 ∨ b0 ≠ b!"base64" then .err "unable to decode client message" else do
  let b1 ← goIndex args 1
  match env.b64dec b1 with
  | none => .err "illegal base64 data"
  | some decoded => decodeInner env decoded

/-- `handleCommand` up to the callback: protocol check, base64 envelope, option decoding.
    `.err` = an error message is sent to the client and nothing is dispatched. -/
def decodeCommand (env : Env) (cmd : Bytes) : Outcome DecodedCmd :=
  decodeEnvelope env (splitOnByte SP cmd)

/-- `handleCommand` for one ';'-terminated command string -/
def handleCommand (env : Env) (cmd : Bytes) : Outcome Handled :=
  match decodeCommand env cmd with
  | .panic p => .panic p
  | .err e => .ok ⟨.errorMessage e, []⟩
  | .ok d => do
    let a ← userCommand env d.ltx d.argc d.args d.name
    .ok ⟨a, d.options.getD []⟩

/-- the session modes after a sequence of decoded commands: `handleOptions` acts once, on
    the first command that carried options -/
def sessionModes (ds : List DecodedCmd) : Bool × Bool × Bool :=
  match ds.findSome? (·.options) with
  | none => (false, false, false)
  | some o =>
    let get (k : Bytes) := (o.find? (·.1 = k)).map (·.2) = some (b!"true")
    (get (b!"quiet"), get (b!"plain"), get (b!"serverless"))

/-- server `Write`: the complete commands in a byte stream (the tail after the last ';'
    stays in the write buffer) -/
def serverCommands (stream : Bytes) : List Bytes := (splitOnByte SEMI stream).dropLast

/-- `make(chan *bytes.Buffer, before)` in filterWithLContext: the runtime panics when the
    buffer would exceed the address space (linux/amd64: 8·n > 2^48 − 96). -/
def makechanLimit : Int := 35184372088820

def readerStart (ltx : LCtx) : Outcome Unit :=
  if ltx.before > makechanLimit then .panic "makechan: size out of range" else .ok ()

/-! ### client side -/

def flagName : RFlag → Bytes
  | .default => b!"default"
  | .invert => b!"invert"
  | .noop => b!"noop"
  | .undefined => b!"undefined"

/-- `regex.New` + `Serialize` on the client -/
def regexSerialize (pattern : Bytes) (invert : Bool) : Bytes :=
  let f := clientFlag pattern invert
  b!"regex:" ++ flagName f ++ [SP] ++ (if f = .noop then [] else pattern)

structure Req where
  mode : Bytes
  quiet : Bool
  plain : Bool
  serverless : Bool
  ltx : LCtx
  file : Bytes
  pattern : Bytes
  invert : Bool
  deriving Repr, DecidableEq

/-- the options `SerializeOptions` emits, in canonical order (the real order is the map's
    random iteration order: any permutation of this list) -/
def optionList (show' : Int → Bytes) (r : Req) : List Bytes :=
  (if r.quiet then [b!"quiet=true"] else []) ++ (if r.plain then [b!"plain=true"] else [])
  ++ (if r.serverless then [b!"serverless=true"] else [])
  ++ (if r.ltx.maxc ≠ 0 then [b!"max=" ++ show' r.ltx.maxc] else [])
  ++ (if r.ltx.before ≠ 0 then [b!"before=" ++ show' r.ltx.before] else [])
  ++ (if r.ltx.after ≠ 0 then [b!"after=" ++ show' r.ltx.after] else [])

/-- `makeCommands` for one file, with the options in the given order -/
def makeCommand (r : Req) (opts : List Bytes) : Bytes :=
  r.mode ++ [COLON] ++ joinByte COLON opts ++ [SP] ++ r.file ++ [SP] ++ regexSerialize r.pattern r.invert

/-- `SendMessage` -/
def sendMessage (b64enc : Bytes → Bytes) (command : Bytes) : Bytes :=
  b!"protocol " ++ Facts.protocolCompatBytes ++ b!" base64 " ++ b64enc command ++ [SEMI]

end Dtail
