/-
Model of internal/user/server/user.go: HasFilePermission / hasFilePermission / iteratePaths
(after the fix: only the known type name "readfiles" is taken as a rule prefix).
`filepath.EvalSymlinks`+`Abs`, `os.Lstat` and the regexp engine are parameters.
-/
import DtailModel.Model.Command
namespace Dtail

def READFILES : Bytes := b!"readfiles"
def BANG : UInt8 := 33

structure Rule where
  type : Bytes
  deny : Bool
  regex : Bytes
  deriving Repr, DecidableEq

/-- `splitPermission`: a leading "readfiles:" (the only known permission type) names the
    type and is removed; anything else is a bare rule of the default type "readfiles" -/
def ruleBody (perm : Bytes) : Bytes :=
  if hasPrefix (READFILES ++ [COLON]) perm then perm.drop (READFILES.length + 1) else perm

/-- a permission string as `iteratePaths` reads it; a leading '!' negates -/
def parseRule (perm : Bytes) : Rule :=
  if (ruleBody perm).head? = some BANG then ⟨READFILES, true, (ruleBody perm).drop 1⟩
  else ⟨READFILES, false, ruleBody perm⟩

/-- the regexp engine on a resolved path: `none` = the pattern does not compile -/
abbrev MatchOracle := Bytes → Bytes → Option Bool

/-- `iteratePaths`: every applicable rule in order, the last matching one decides; a rule
    that does not compile denies the request -/
def iterateRules (m : MatchOracle) (permType : Bytes) (path : Bytes) : List Rule → Bool → Bool
  | [], has => has
  | r :: rest, has =>
    if r.type ≠ permType then iterateRules m permType path rest has
    else match m r.regex path with
      | none => false
      | some true => iterateRules m permType path rest (!r.deny)
      | some false => iterateRules m permType path rest has

structure FsOracle where
  resolve : Bytes → Option Bytes      -- EvalSymlinks + Abs
  regular : Bytes → Bool              -- Lstat(clean).Mode().IsRegular()
  osReadable : Bytes → Bool := fun _ => true   -- permissions.ToRead (true unless built with linuxacl)

/-- `User.HasFilePermission` -/
def hasFilePermission (fs : FsOracle) (m : MatchOracle) (user : Bytes) (perms : List Bytes) (path : Bytes) : Bool :=
  if user = Facts.scheduleUserBytes ∨ user = Facts.continuousUserBytes then true
  else match fs.resolve path with
    | none => false
    | some clean =>
      if !fs.osReadable clean then false
      else if !fs.regular clean then false
      else iterateRules m READFILES clean (perms.map parseRule) false

end Dtail
