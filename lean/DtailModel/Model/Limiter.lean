/-
Model of the concurrency limiter in internal/server/handlers/readcommand.go read():
acquire by sending into a buffered channel (blocking when full), release in a deferred
function — after the fix only by the read that acquired.  A labelled transition system:
the scheduler's and the contexts' choices are the labels.
-/
import DtailModel.Model.Basic
namespace Dtail

inductive Phase | start | waiting | holding | finished | cancelled
  deriving Repr, DecidableEq

structure LimState where
  cap : Nat
  tokens : Nat                 -- len(limiter)
  reads : List Phase           -- one entry per read
  deriving Repr, DecidableEq

inductive LimLabel where
  | tryAcquire (i : Nat)        -- first select: the send succeeds
  | startWait (i : Nat)         -- first select: default branch (channel full)
  | cancelAtStart (i : Nat)     -- first select: ctx.Done() chosen
  | acquireAfterWait (i : Nat)  -- second select: the send succeeds
  | cancelWhileWaiting (i : Nat)-- second select: ctx.Done()
  | finish (i : Nat)            -- the reader returned; the deferred release runs
  deriving Repr, DecidableEq

def setPhase (rs : List Phase) (i : Nat) (p : Phase) : List Phase := rs.set i p

/-- one step; `none` = the label is not enabled in this state -/
def limStep (s : LimState) : LimLabel → Option LimState
  | .tryAcquire i =>
    if s.reads[i]? = some .start ∧ s.tokens < s.cap then
      some { s with tokens := s.tokens + 1, reads := setPhase s.reads i .holding } else none
  | .startWait i =>
    if s.reads[i]? = some .start ∧ s.tokens ≥ s.cap then
      some { s with reads := setPhase s.reads i .waiting } else none
  | .cancelAtStart i =>
    if s.reads[i]? = some .start then some { s with reads := setPhase s.reads i .cancelled } else none
  | .acquireAfterWait i =>
    if s.reads[i]? = some .waiting ∧ s.tokens < s.cap then
      some { s with tokens := s.tokens + 1, reads := setPhase s.reads i .holding } else none
  | .cancelWhileWaiting i =>
    -- (fix) a read that never acquired releases nothing
    if s.reads[i]? = some .waiting then some { s with reads := setPhase s.reads i .cancelled } else none
  | .finish i =>
    if s.reads[i]? = some .holding then
      some { s with tokens := s.tokens - 1, reads := setPhase s.reads i .finished } else none

def limRun (s : LimState) : List LimLabel → Option LimState
  | [] => some s
  | l :: rest => (limStep s l).bind (fun s' => limRun s' rest)

def holding (rs : List Phase) : Nat := (rs.filter (· = .holding)).length

def limInit (cap n : Nat) : LimState := ⟨cap, 0, List.replicate n .start⟩

/-- the code before the fix: the deferred non-blocking receive of a cancelled waiter takes a
    token if there is one -/
def limStepOld (s : LimState) : LimLabel → Option LimState
  | .cancelWhileWaiting i =>
    if s.reads[i]? = some .waiting then
      some { s with tokens := s.tokens - 1, reads := setPhase s.reads i .cancelled } else none
  | .cancelAtStart i =>
    if s.reads[i]? = some .start then
      some { s with tokens := s.tokens - 1, reads := setPhase s.reads i .cancelled } else none
  | l => limStep s l

end Dtail
