/-
Model of internal/server/handlers/readcommand.go makeGlobID(): the file identifier of the
REMOTE|host|perc|count|sourceID|content record — the path components at the positions where the
(cleaned) glob has a component containing a glob meta character ('*', '?', '['), joined by '/', else
the base name.  (Before the fix of this session only '*' counted: `web?/app.log` labelled every file `app.log`.)
-/
import DtailModel.Model.GoStr
namespace Dtail

def STAR : UInt8 := 42
def QMARK : UInt8 := 63
def LBRACK : UInt8 := 91
def SLASH : UInt8 := 47

/-- `strings.ContainsAny(globPart, "*?[")` -/
def isWild (g : Bytes) : Bool := g.contains STAR || g.contains QMARK || g.contains LBRACK

/-- the code before the fix: `strings.Contains(globPart, "*")` -/
def isWildOld (g : Bytes) : Bool := g.contains STAR

/-- the loop over the glob's components from index `i` on: `idParts = append(idParts, pathParts[i])` -/
def globIDLoop (pp : List Bytes) : List Bytes → Nat → Outcome (List Bytes)
  | [], _ => .ok []
  | g :: gs, i =>
    if isWild g then
      match pp[i]? with
      | none => .panic "index out of range"          -- pathParts[i]
      | some p =>
        match globIDLoop pp gs (i + 1) with
        | .ok r => .ok (p :: r)
        | .err e => .err e
        | .panic w => .panic w
    else globIDLoop pp gs (i + 1)

def makeGlobID (path glob : Bytes) : Outcome Bytes :=
  let pp := splitOnByte SLASH path
  match globIDLoop pp (splitOnByte SLASH glob) 0 with
  | .ok [] => .ok (pp.getLast?.getD [])
  | .ok ids => .ok (joinByte SLASH ids)
  | .err e => .err e
  | .panic w => .panic w

/-- the selection without indices: components of the path at the glob's star positions -/
def starSel : List Bytes → List Bytes → List Bytes
  | p :: ps, g :: gs => if isWild g then p :: starSel ps gs else starSel ps gs
  | _, _ => []

/-- a path matches a glob component-wise as far as the literal components go (what
    `filepath.Glob` guarantees for the paths it returns for a cleaned pattern) -/
def MatchesLiterals : List Bytes → List Bytes → Prop
  | p :: ps, g :: gs => (isWild g = false → p = g) ∧ MatchesLiterals ps gs
  | [], [] => True
  | _, _ => False

end Dtail
