/-
Model of the wire: internal/server/handlers/basehandler.go Read() (framing, copy into the
transport buffer) and internal/clients/handlers/basehandler.go Write()/handleMessage().
-/
import DtailModel.Model.Reader
namespace Dtail

/-- A delivered line as the server handler sees it (internal/io/line). -/
structure Line where
  content : Bytes
  count : Nat
  perc : Nat
  sourceID : Bytes
  deriving Repr, DecidableEq

def natBytes (n : Nat) : Bytes := str (toString n)

/-- `fmt.Sprintf("%3d", n)` for n ≥ 0. -/
def pad3 (n : Nat) : Bytes :=
  let d := natBytes n
  List.replicate (3 - d.length) 32 ++ d

def PIPE : UInt8 := 124

/-- The record prefix `REMOTE|host|%3d|count|id|` of non-plain mode. -/
def remotePrefix (host : Bytes) (l : Line) : Bytes :=
  b!"REMOTE" ++ [PIPE] ++ host ++ [PIPE] ++ pad3 l.perc ++ [PIPE] ++ natBytes l.count ++ [PIPE]
    ++ l.sourceID ++ [PIPE]

/-- The frame the server `Read` produces for a line (after the fix it is delivered
    completely, in pieces of at most `len(p)` bytes). -/
def frameOf (plain : Bool) (host : Bytes) (l : Line) : Bytes :=
  (if plain then [] else remotePrefix host l) ++ l.content ++ [DELIM]

/-- the pieces successive `Read(p)` calls return for one frame: `bytes.Buffer.Read` hands out
    at most `len(p)` bytes at a time (fuel = the frame's length) -/
def readPieces (bufLen : Nat) : Nat → Bytes → List Bytes
  | 0, _ => []
  | _, [] => []
  | fuel + 1, bs => if bufLen = 0 then [] else bs.take bufLen :: readPieces bufLen fuel (bs.drop bufLen)

/-- kept for the statement of the repaired defect: what one `Read(p)` returned before the
    fix (`n = copy(p, readBuf)`, the rest discarded) -/
def frameLine (plain : Bool) (host : Bytes) (bufLen : Nat) (l : Line) : Bytes :=
  (frameOf plain host l).take bufLen

/-- Client handler state: receive buffer and the messages dispatched so far. -/
structure CS where
  buf : Bytes
  msgs : List Bytes
  deriving Repr, DecidableEq

/-- Client `Write`, one byte. -/
def clientByte (s : CS) (b : UInt8) : CS :=
  if b = NL then ⟨[], s.msgs ++ [s.buf ++ [b]]⟩
  else if b = DELIM then ⟨[], s.msgs ++ [s.buf]⟩
  else ⟨s.buf ++ [b], s.msgs⟩

def clientFeed (s : CS) (bs : Bytes) : CS := bs.foldl clientByte s

def isHidden (m : Bytes) : Bool := m.head? = some DOT

/-- `handleMessage`: hidden messages are not shown; others are printed verbatim. -/
def printed (msgs : List Bytes) : Bytes := (msgs.filter (fun m => !isHidden m)).flatten

/-- Lines as the filter of a cat (noop regex, no context) numbers them. -/
def catLines (id : Bytes) (raw : List Bytes) : List Line :=
  raw.zipIdx.map (fun (c, i) => ⟨c, i + 1, 100, id⟩)

/-- End-to-end `dcat --plain`: reader, framing, any transport chunking (irrelevant:
    the client is a fold over bytes), client output. -/
def dcatPlain (m : Nat) (bs : Bytes) : Bytes :=
  printed (clientFeed ⟨[], []⟩
    ((catLines [] (readLines m bs)).map (frameOf true [])).flatten).msgs

/-- the same pipeline before the fix (frames cut to the transport buffer) -/
def dcatPlainOld (m bufLen : Nat) (bs : Bytes) : Bytes :=
  printed (clientFeed ⟨[], []⟩
    ((catLines [] (readLines m bs)).map (frameLine true [] bufLen)).flatten).msgs

/-! Finding signatures for C01 (decidable, evaluated by the driver on every case). -/

/-- the content contains the wire's message delimiter byte -/
def sigDelim (bs : Bytes) : Bool := bs.contains DELIM
/-- some raw line starts with '.', the hidden-message marker -/
def sigDot (m : Nat) (bs : Bytes) : Bool := (readLines m bs).any (fun l => l.head? = some DOT)
end Dtail
