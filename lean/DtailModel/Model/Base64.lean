/-
encoding/base64 StdEncoding as the driver needs it (not part of any theorem: base64 is a
parameter with a round-trip hypothesis there).
-/
import DtailModel.Model.Basic
namespace Dtail

def b64chars : Array UInt8 :=
  "ABCDEFGHIJKLMNOPQRSTUVWXYZabcdefghijklmnopqrstuvwxyz0123456789+/".toUTF8.data

def b64val (c : UInt8) : Option Nat :=
  if 65 ≤ c ∧ c ≤ 90 then some (c.toNat - 65)
  else if 97 ≤ c ∧ c ≤ 122 then some (c.toNat - 71)
  else if 48 ≤ c ∧ c ≤ 57 then some (c.toNat + 4)
  else if c = 43 then some 62 else if c = 47 then some 63 else none

def b64ch (n : Nat) : UInt8 := b64chars.getD n 0

def b64encode : Bytes → Bytes
  | [] => []
  | [a] => let n := a.toNat * 65536
    [b64ch (n / 262144), b64ch (n / 4096 % 64), 61, 61]
  | [a, b] => let n := a.toNat * 65536 + b.toNat * 256
    [b64ch (n / 262144), b64ch (n / 4096 % 64), b64ch (n / 64 % 64), 61]
  | a :: b :: c :: rest => let n := a.toNat * 65536 + b.toNat * 256 + c.toNat
    b64ch (n / 262144) :: b64ch (n / 4096 % 64) :: b64ch (n / 64 % 64) :: b64ch (n % 64) :: b64encode rest

def b64decodeGo : Bytes → Option Bytes
  | [] => some []
  | a :: b :: c :: d :: rest =>
    match b64val a, b64val b, b64val c, b64val d with
    | some w, some x, some y, some z =>
      let n := w * 262144 + x * 4096 + y * 64 + z
      (b64decodeGo rest).map (fun r => (n / 65536).toUInt8 :: (n / 256 % 256).toUInt8 :: (n % 256).toUInt8 :: r)
    | some w, some x, some y, none =>
      if d = 61 ∧ rest = [] then
        let n := w * 262144 + x * 4096 + y * 64
        some [(n / 65536).toUInt8, (n / 256 % 256).toUInt8]
      else none
    | some w, some x, none, _ =>
      if c = 61 ∧ d = 61 ∧ rest = [] then some [((w * 262144 + x * 4096) / 65536).toUInt8] else none
    | _, _, _, _ => none
  | _ => none

/-- `base64.StdEncoding.DecodeString`: '\r' and '\n' are ignored -/
def b64decode (s : Bytes) : Option Bytes := b64decodeGo (s.filter (fun b => b ≠ 10 ∧ b ≠ 13))

end Dtail
