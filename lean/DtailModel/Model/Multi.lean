/-
Model of a client with several connections (internal/clients/baseclient.go Start(): one
handler and receive buffer per connection; internal/io/dlog/loggers/stdout.go: a message is
printed under a mutex, i.e. atomically).  Transport chunks of different connections arrive
in any interleaving — the schedule.
-/
import DtailModel.Model.Wire
namespace Dtail

structure MultiState where
  bufs : Nat → Bytes                -- receive buffer of every connection
  out : List (Nat × Bytes)          -- messages printed so far, with the connection they came from

def multiByte (i : Nat) (s : MultiState) (b : UInt8) : MultiState :=
  if b = NL then ⟨fun j => if j = i then [] else s.bufs j, s.out ++ [(i, s.bufs i ++ [b])]⟩
  else if b = DELIM then ⟨fun j => if j = i then [] else s.bufs j, s.out ++ [(i, s.bufs i)]⟩
  else ⟨fun j => if j = i then s.bufs i ++ [b] else s.bufs j, s.out⟩

/-- one transport chunk delivered to the handler of connection `i` -/
def multiChunk (s : MultiState) (c : Nat × Bytes) : MultiState := c.2.foldl (multiByte c.1) s

def multiInit : MultiState := ⟨fun _ => [], []⟩

/-- a whole schedule of chunks -/
def multiRun (sched : List (Nat × Bytes)) : MultiState := sched.foldl multiChunk multiInit

/-- what connection `i` has received so far under a schedule -/
def streamOf (i : Nat) (sched : List (Nat × Bytes)) : Bytes := (sched.filter (·.1 = i)).flatMap (·.2)

/-- the view of one connection: its buffer and its messages in print order -/
def projConn (i : Nat) (s : MultiState) : CS := ⟨s.bufs i, (s.out.filter (·.1 = i)).map (·.2)⟩

end Dtail
