/-
C01 — dcat reproduces file content byte for byte.
Property theorems only; helper lemmas live in Lemmas/.
-/
import DtailModel.Lemmas.Wire
import DtailModel.Lemmas.Fast
namespace Dtail.C01
open Dtail

/-- The property at full strength: for every content and every MaxLineLength ≥ 1, plain dcat
    prints the content with newlines inserted after each run of `m` non-newline bytes. -/
def C01_full : Prop := ∀ (m : Nat) (bs : Bytes), 1 ≤ m → dcatPlain m bs = insertNL m 0 bs

/-- The reader alone (no wire) satisfies the property for every content. -/
theorem C01_reader (m : Nat) (bs : Bytes) : (readLines m bs).flatten = insertNL m 0 bs :=
  readLines_flatten m bs

/-- Every raw line has at most one newline, at its end, and the last may lack one. -/
theorem C01_reader_lines_wf (m : Nat) (bs : Bytes) : ∀ l ∈ readLines m bs, LineWF l :=
  readLines_wf m bs

/-- Transport chunk boundaries are irrelevant to the client. -/
theorem C01_chunking (s : CS) (a b : Bytes) :
    clientFeed s (a ++ b) = clientFeed (clientFeed s a) b := clientFeed_append s a b

/-- Outside the two remaining finding signatures the property holds for every content
    (after the fix of the transport-buffer truncation no line length is excluded). -/
theorem C01_partial (m : Nat) (bs : Bytes)
    (h1 : sigDelim bs = false) (h2 : sigDot m bs = false) :
    dcatPlain m bs = insertNL m 0 bs := by
  have hd : DELIM ∉ bs := by simpa [sigDelim] using h1
  have hgood : ∀ l ∈ readLines m bs, GoodLine l := by
    intro l hl
    refine ⟨readLines_wf m bs l hl, readLines_noDelim m bs hd l hl, ?_⟩
    have := h2; simp only [sigDot, List.any_eq_false] at this
    simpa using this l hl
  have hmap : (catLines [] (readLines m bs)).map (frameOf true [])
      = (readLines m bs).map (fun c => c ++ [DELIM]) := by
    simp only [catLines, List.map_map]
    have : ((frameOf true []) ∘ fun (x : Bytes × Nat) => (⟨x.1, x.2 + 1, 100, []⟩ : Line))
        = fun x => (fun c => c ++ [DELIM]) x.1 := by
      funext x; simp [frameOf]
    rw [this]
    exact map_zipIdx_fst (fun c => c ++ [DELIM]) _ 0
  unfold dcatPlain
  rw [hmap, (pipeline_plain _ [] hgood).2, readLines_flatten]
  simp [printed]

/-- However the transport buffer cuts a frame into pieces, the client receives the frame:
    the successive `Read(p)` results concatenate to it (this is what the fix restored). -/
theorem C01_read_pieces (bufLen : Nat) (hb : 0 < bufLen) (frame : Bytes) :
    (readPieces bufLen frame.length frame).flatten = frame :=
  readPieces_flatten bufLen hb frame frame.length (Nat.le_refl _)

/-- The unchanged protocol still violates the full property: two kernel-checked witnesses. -/
theorem C01_full_false : ¬ C01_full := by
  intro h
  have := h 8 [97, DELIM, 98, NL] (by decide)
  revert this; decide

theorem C01_witness_delim : dcatPlain 8 [97, DELIM, 98, NL] = [97, 98, NL] := by decide
/-- ".x\ny\n" prints "y\n" -/
theorem C01_witness_dot : dcatPlain 8 (b!".x\ny\n") = b!"y\n" := by decide
/-- the repaired defect: "abcdef\nz\n" through a 4-byte buffer printed "abcdz\n" -/
theorem C01_old_truncation : dcatPlainOld 8 4 (b!"abcdef\nz\n") = b!"abcdz\n" := by decide

/-- Non-vacuity: a non-trivial content meets every hypothesis of `C01_partial`. -/
example : sigDelim (b!"ab\n\ncdefghijkl") = false ∧ sigDot 4 (b!"ab\n\ncdefghijkl") = false := by decide

/-- the driver's linear-time reader and client are the model's (the differential run on long
    lines uses them) -/
theorem C01_driver_fast_versions (m : Nat) (bs : Bytes) :
    readLinesF m bs = readLines m bs ∧ clientMsgsF bs = (clientFeed ⟨[], []⟩ bs).msgs :=
  ⟨readLinesF_eq m bs, clientMsgsF_eq bs⟩

end Dtail.C01
