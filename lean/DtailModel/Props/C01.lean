/-
C01 — dcat reproduces file content byte for byte.
Property theorems only; helper lemmas live in Lemmas/.
-/
import DtailModel.Lemmas.Wire
import DtailModel.Lemmas.Fast
import DtailModel.Lemmas.GenReader
import DtailModel.Lemmas.GenClient
set_option autoImplicit false
namespace Dtail.C01
open Dtail

/-- The property at full strength: for every content and every MaxLineLength ≥ 1, plain dcat
    prints the content with newlines inserted after each run of `m` non-newline bytes. -/
def C01_full : Prop := ∀ (m : Nat) (bs : Bytes), 1 ≤ m → dcatPlain m bs = insertNL m 0 bs

/-- The reader alone (no wire) satisfies the property for every content. -/
theorem C01_reader (m : Nat) (bs : Bytes) : (readLines m bs).flatten = insertNL m 0 bs :=
  readLines_flatten m bs

/-- Every raw line has at most one newline, at its end, and the last may lack one. -/
theorem C01_reader_lines_wf (m : Nat) (bs : Bytes) : ∀ l ∈ readLines m bs, LineWF l :=
  readLines_wf m bs

/-- **Tie G: the server's byte-wise reader as translated from the working tree sends the model's lines.**  `readFile.read`,
    `handleReadByte`, `handleReadError` of internal/io/fs/readfile.go, translated on this run (the reader is the bytes it has
    not delivered yet; the context is never cancelled and the consumer takes every line): for every file content `bs`, a
    reader that does not wait at the end of the file (cat, grep, mapreduce), started with nothing sent and fuel for the
    bytes, returns no error, never panics, and has handed to the filter exactly `readLines m bs` — whose concatenation is the
    file with a newline after each run of `m` bytes (`C01_reader`). -/
theorem C01_generated_reader_sends_model_lines (ext : Go.Ext) (m : Nat) (hm : ext.maxLineLength = (m : Int))
    (f : Gen.Reader.readFile) (hs : f.seekEOF = false) (hr : f.rawLines = []) (fd bs : Bytes) (hf : bs.length < ext.fuel) :
    ∃ f', Gen.Reader.readFile.read ext f () fd bs () () = Outcome.ok (f', none) ∧
      f'.rawLines = readLines m bs ∧ f'.rawLines.flatten = insertNL m 0 bs := by
  obtain ⟨f', h1, h2⟩ := GenReader.read_refines ext m hm f hs hr fd bs hf
  exact ⟨f', h1, h2, by rw [h2]; exact readLines_flatten m bs⟩

/-- one byte of the translated reader is one `stepByte` of the model -/
theorem C01_generated_byte_step (ext : Go.Ext) (m : Nat) (hm : ext.maxLineLength = (m : Int)) (f : Gen.Reader.readFile)
    (b : UInt8) (msg : Bytes) :
    ∃ f' msg', Gen.Reader.readFile.handleReadByte ext f () b () (msg ++ [b]) = (f', Gen.Reader.nothing, msg') ∧
      (⟨msg', f'.rawLines⟩ : RS) = stepByte m ⟨msg, f.rawLines⟩ b ∧ f'.seekEOF = f.seekEOF :=
  GenReader.handleReadByte_spec ext m hm f b msg

/-- **Tie G: the client's `Write` as translated from the working tree is the model's client.**  `baseHandler.Write`,
    `handleMessage`, `handleHiddenMessage` of internal/clients/handlers/basehandler.go, translated on this run (what
    `dlog.Client.Raw` prints, what `SendMessage` is started with and every `Shutdown` are kept): for every handler state and
    every chunk of bytes from the server, `Write` takes all of them, never panics (`message[0]` is guarded by the length
    test), leaves the model's receive buffer, and has printed exactly the model's visible messages, whole and in order —
    whatever the chunking, since the model is a fold over the bytes (`C01_chunking`). -/
theorem C01_generated_client_is_model (ext : Go.Ext) (h : Gen.Client.baseHandler) (p : Bytes) :
    ∃ h', Gen.Client.baseHandler.Write ext h p = Outcome.ok (h', (p.length : Int), none) ∧
      h'.receiveBuf = (clientFeed ⟨h.receiveBuf, []⟩ p).buf ∧
      (h'.printed.flatten = h.printed.flatten ++ printed (clientFeed ⟨h.receiveBuf, []⟩ p).msgs) := by
  obtain ⟨h', h1, h2, h3, _, _⟩ := GenClient.Write_refines ext h p
  refine ⟨h', h1, h2, ?_⟩
  rw [h3, List.flatten_append]
  rfl

/-- the close handshake on the translated client: every hidden `.syn close connection` message is answered with one
    `.ack close connection` and one shutdown, and nothing else is ever sent -/
theorem C01_generated_client_close_handshake (ext : Go.Ext) (h : Gen.Client.baseHandler) (p : Bytes) :
    ∃ h', Gen.Client.baseHandler.Write ext h p = Outcome.ok (h', (p.length : Int), none) ∧
      h'.sent = h.sent ++ (GenClient.syns (clientFeed ⟨h.receiveBuf, []⟩ p).msgs).map (fun _ => Gen.Client.lit_1) ∧
      h'.shutdowns.length = h.shutdowns.length + (GenClient.syns (clientFeed ⟨h.receiveBuf, []⟩ p).msgs).length := by
  obtain ⟨h', h1, _, _, h4, h5⟩ := GenClient.Write_refines ext h p
  exact ⟨h', h1, h4, h5⟩

/-- non-vacuity: two chunks, a message split between them, a hidden message, a close request -/
example :
    let ext : Go.Ext := { parseFloat := fun _ => (0, none) }
    (match Gen.Client.baseHandler.Write ext {} (b!"ab") with
      | .ok (h, _, _) => (match Gen.Client.baseHandler.Write ext h ([99, DELIM] ++ b!".x" ++ [DELIM] ++ b!".syn close connection" ++ [DELIM] ++ b!"d\n") with
        | .ok (h, _, _) => (h.printed, h.sent.length, h.shutdowns.length)
        | _ => ([], 0, 0))
      | _ => ([], 0, 0)) = ([b!"abc", b!"d\n"], 1, 1) := by decide

/-- non-vacuity: a line longer than the limit and an unterminated last line -/
example :
    let ext : Go.Ext := { parseFloat := fun _ => (0, none), maxLineLength := 3, fuel := 16 }
    (match Gen.Reader.readFile.read ext {} () [] (b!"abcde\nxy") () () with
      | .ok (f, none) => f.rawLines
      | _ => []) = [b!"abc\n", b!"de\n", b!"xy"] := by decide

/-- Transport chunk boundaries are irrelevant to the client. -/
theorem C01_chunking (s : CS) (a b : Bytes) :
    clientFeed s (a ++ b) = clientFeed (clientFeed s a) b := clientFeed_append s a b

/-- Outside the two remaining finding signatures the property holds for every content
    (after the fix of the transport-buffer truncation no line length is excluded). -/
theorem C01_partial (m : Nat) (bs : Bytes)
    (h1 : sigDelim bs = false) (h2 : sigDot m bs = false) :
    dcatPlain m bs = insertNL m 0 bs := by
  have hd : DELIM ∉ bs := by simpa [sigDelim] using h1
  have hgood : ∀ l ∈ readLines m bs, GoodLine l := by
    intro l hl
    refine ⟨readLines_wf m bs l hl, readLines_noDelim m bs hd l hl, ?_⟩
    have := h2; simp only [sigDot, List.any_eq_false] at this
    simpa using this l hl
  have hmap : (catLines [] (readLines m bs)).map (frameOf true [])
      = (readLines m bs).map (fun c => c ++ [DELIM]) := by
    simp only [catLines, List.map_map]
    have : ((frameOf true []) ∘ fun (x : Bytes × Nat) => (⟨x.1, x.2 + 1, 100, []⟩ : Line))
        = fun x => (fun c => c ++ [DELIM]) x.1 := by
      funext x; simp [frameOf]
    rw [this]
    exact map_zipIdx_fst (fun c => c ++ [DELIM]) _ 0
  unfold dcatPlain
  rw [hmap, (pipeline_plain _ [] hgood).2, readLines_flatten]
  simp [printed]

/-- However the transport buffer cuts a frame into pieces, the client receives the frame:
    the successive `Read(p)` results concatenate to it (this is what the fix restored). -/
theorem C01_read_pieces (bufLen : Nat) (hb : 0 < bufLen) (frame : Bytes) :
    (readPieces bufLen frame.length frame).flatten = frame :=
  readPieces_flatten bufLen hb frame frame.length (Nat.le_refl _)

/-- The unchanged protocol still violates the full property: two kernel-checked witnesses. -/
theorem C01_full_false : ¬ C01_full := by
  intro h
  have := h 8 [97, DELIM, 98, NL] (by decide)
  revert this; decide

theorem C01_witness_delim : dcatPlain 8 [97, DELIM, 98, NL] = [97, 98, NL] := by decide
/-- ".x\ny\n" prints "y\n" -/
theorem C01_witness_dot : dcatPlain 8 (b!".x\ny\n") = b!"y\n" := by decide
/-- the repaired defect: "abcdef\nz\n" through a 4-byte buffer printed "abcdz\n" -/
theorem C01_old_truncation : dcatPlainOld 8 4 (b!"abcdef\nz\n") = b!"abcdz\n" := by decide

/-- Non-vacuity: a non-trivial content meets every hypothesis of `C01_partial`. -/
example : sigDelim (b!"ab\n\ncdefghijkl") = false ∧ sigDot 4 (b!"ab\n\ncdefghijkl") = false := by decide

/-- the driver's linear-time reader and client are the model's (the differential run on long
    lines uses them) -/
theorem C01_driver_fast_versions (m : Nat) (bs : Bytes) :
    readLinesF m bs = readLines m bs ∧ clientMsgsF bs = (clientFeed ⟨[], []⟩ bs).msgs :=
  ⟨readLinesF_eq m bs, clientMsgsF_eq bs⟩

end Dtail.C01
