/-
C01 — dcat reproduces file content byte for byte.
Property theorems only; helper lemmas live in Lemmas/.
-/
import DtailModel.Lemmas.Wire
namespace Dtail.C01
open Dtail

/-- The property at full strength: for every content, every MaxLineLength ≥ 1 and every
    transport buffer size, plain dcat prints the content with newlines inserted after
    each run of `m` non-newline bytes. -/
def C01_full : Prop := ∀ (m bufLen : Nat) (bs : Bytes), 1 ≤ m → 1 ≤ bufLen → dcatPlain m bufLen bs = insertNL m 0 bs

/-- The reader alone (no wire) satisfies the property for every content. -/
theorem C01_reader (m : Nat) (bs : Bytes) : (readLines m bs).flatten = insertNL m 0 bs :=
  readLines_flatten m bs

/-- Every raw line has at most one newline, at its end, and the last may lack one. -/
theorem C01_reader_lines_wf (m : Nat) (bs : Bytes) : ∀ l ∈ readLines m bs, LineWF l :=
  readLines_wf m bs

/-- Transport chunk boundaries are irrelevant to the client. -/
theorem C01_chunking (s : CS) (a b : Bytes) :
    clientFeed s (a ++ b) = clientFeed (clientFeed s a) b := clientFeed_append s a b

/-- Outside the three finding signatures the property holds for every content. -/
theorem C01_partial (m bufLen : Nat) (bs : Bytes)
    (h1 : sigDelim bs = false) (h2 : sigDot m bs = false) (h3 : sigLong m bufLen bs = false) :
    dcatPlain m bufLen bs = insertNL m 0 bs := by
  have hd : DELIM ∉ bs := by simpa [sigDelim] using h1
  have hgood : ∀ l ∈ readLines m bs, GoodLine bufLen l := by
    intro l hl
    refine ⟨readLines_wf m bs l hl, readLines_noDelim m bs hd l hl, ?_, ?_⟩
    · have := h2; simp only [sigDot, List.any_eq_false] at this
      simpa using this l hl
    · have := h3; simp only [sigLong, List.any_eq_false] at this
      have := this l hl; simp at this; omega
  have hmap : (catLines [] (readLines m bs)).map (frameLine true [] bufLen)
      = (readLines m bs).map (fun c => (c ++ [DELIM]).take bufLen) := by
    simp only [catLines, List.map_map]
    exact map_zipIdx_fst (fun c => (c ++ [DELIM]).take bufLen) _ 0
  unfold dcatPlain
  rw [hmap, (pipeline_plain bufLen _ [] hgood).2, readLines_flatten]
  simp [printed]

/-- The unchanged code violates the full property: three kernel-checked witnesses. -/
theorem C01_full_false : ¬ C01_full := by
  intro h
  have := h 8 16 [97, DELIM, 98, NL] (by decide) (by decide)
  revert this; decide

theorem C01_witness_delim : dcatPlain 8 16 [97, DELIM, 98, NL] = [97, 98, NL] := by decide
theorem C01_witness_dot : dcatPlain 8 16 (b!".x\ny\n") = b!"y\n" := by decide
theorem C01_witness_long : dcatPlain 8 4 (b!"abcdef\nz\n") = b!"abcdz\n" := by decide

/-- Non-vacuity: a non-trivial content meets every hypothesis of `C01_partial`. -/
example : sigDelim (b!"ab\n\ncdefghijkl") = false ∧ sigDot 4 (b!"ab\n\ncdefghijkl") = false
    ∧ sigLong 4 16 (b!"ab\n\ncdefghijkl") = false := by decide

end Dtail.C01
