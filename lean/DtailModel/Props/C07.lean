/-
C07 — multi-source output is a whole-line interleaving with correct attribution.
-/
import DtailModel.Model.Multi
import DtailModel.Lemmas.Wire
import DtailModel.Lemmas.GrepCount
import DtailModel.Lemmas.Fast
import DtailModel.Lemmas.GlobID
import DtailModel.Lemmas.GenGlobID
import DtailModel.Lemmas.GenPlain
set_option autoImplicit false
namespace Dtail.C07
open Dtail

theorem projConn_byte_same (i : Nat) (s : MultiState) (b : UInt8) :
    projConn i (multiByte i s b) = clientByte (projConn i s) b := by
  unfold multiByte clientByte projConn
  by_cases h1 : b = NL
  · simp [h1, List.filter_append]
  · by_cases h2 : b = DELIM
    · subst h2; simp [delim_ne_nl, List.filter_append]
    · simp [h1, h2]

theorem projConn_byte_other (i j : Nat) (s : MultiState) (b : UInt8) (h : j ≠ i) :
    projConn i (multiByte j s b) = projConn i s := by
  unfold multiByte projConn
  have hji : ¬ i = j := fun e => h e.symm
  by_cases h1 : b = NL
  · simp [h1, hji, List.filter_append, h]
  · by_cases h2 : b = DELIM
    · subst h2; simp [delim_ne_nl, hji, List.filter_append, h]
    · simp [h1, h2, hji]

theorem projConn_chunk (i : Nat) (s : MultiState) (c : Nat × Bytes) :
    projConn i (multiChunk s c) = if c.1 = i then clientFeed (projConn i s) c.2 else projConn i s := by
  obtain ⟨j, bs⟩ := c
  unfold multiChunk clientFeed
  simp only
  induction bs generalizing s with
  | nil => by_cases h : j = i <;> simp [h]
  | cons b rest ih =>
    simp only [List.foldl_cons]
    rw [ih]
    by_cases h : j = i
    · subst h; simp [projConn_byte_same]
    · simp [h, projConn_byte_other i j s b h]

/-- **Whole-line interleaving with per-source order.** For every number of connections and
    every interleaving of transport chunks, the messages printed for connection `i`, in print
    order, are exactly what a single client fed with `i`'s byte stream alone would print:
    no message is torn, merged with another connection's bytes, lost or reordered. -/
theorem C07_interleave (sched : List (Nat × Bytes)) (i : Nat) :
    projConn i (multiRun sched) = clientFeed ⟨[], []⟩ (streamOf i sched) := by
  have gen : ∀ (sched : List (Nat × Bytes)) (s : MultiState),
      projConn i (sched.foldl multiChunk s) = clientFeed (projConn i s) (streamOf i sched) := by
    intro sched
    induction sched with
    | nil => intro s; simp [streamOf, clientFeed]
    | cons c rest ih =>
      intro s
      simp only [List.foldl_cons]
      rw [ih, projConn_chunk]
      by_cases h : c.1 = i
      · simp [h, streamOf, List.filter_cons, clientFeed, List.foldl_append]
      · simp [h, streamOf, List.filter_cons]
  have := gen sched multiInit
  simpa [multiRun, projConn, multiInit] using this

/-- **Attribution of line numbers (context filter).** Every line the grep/cat filter delivers
    carries as its count the true running number of that line in the file, also for lines
    flushed from the before-context ring (`totalLineCount() - i`). -/
theorem C07_count_is_line_number {α : Type} (B A M : Nat) (ls : List (Bool × α)) (c : Nat) (x : α)
    (h : (c, x) ∈ grunN B A M (ginit M) 0 ls) :
    1 ≤ c ∧ ∃ sel, ls[c - 1]? = some (sel, x) := by
  have hinv : CountInv B A (ginit M : GState α) 0 := by
    simp [CountInv, ginit]
  rw [grunN_eq_tagged B A M ls (ginit M) 0 hinv] at h
  have hts : tagState (ginit M : GState α) 0 = ginit M := by simp [tagState, ginit, consec]
  rw [hts] at h
  rcases mem_grun B A M (tagFrom 0 ls) (ginit M) (c, x) h with h | ⟨sel, h⟩
  · exact absurd h (by simp [ginit])
  · have := (mem_tagFrom 0 ls sel c x).1 h
    exact ⟨by omega, sel, by simpa using this.2⟩

/-- **Attribution of line numbers (plain filter).** -/
theorem C07_count_plain (ls : List (Bool × Bytes)) (c : Nat) (x : Bytes)
    (h : (c, x) ∈ ((ls.zipIdx 1).filter (·.1.1)).map (fun p => (p.2, p.1.2))) :
    1 ≤ c ∧ ls[c - 1]? = some (true, x) := by
  obtain ⟨p, hp, heq⟩ := List.mem_map.1 h
  obtain ⟨hmem, hsel⟩ := List.mem_filter.1 hp
  obtain ⟨⟨sel, y⟩, k⟩ := p
  simp only [Prod.mk.injEq] at heq
  obtain ⟨rfl, rfl⟩ := heq
  simp only at hsel
  subst hsel
  have := List.mem_zipIdx hmem
  refine ⟨this.1, ?_⟩
  have h2 := this.2.2
  have hlt : k - 1 < ls.length := by have ha := this.2.1; have hb := this.1; omega
  rw [List.getElem?_eq_getElem hlt]
  simp [h2]

/-- a REMOTE record survives the wire: prefix and content arrive as one message -/
theorem C07_record_roundtrip (host : Bytes) (l : Line) (msgs : List Bytes)
    (hh1 : NL ∉ remotePrefix host l) (hh2 : DELIM ∉ remotePrefix host l)
    (hwf : LineWF l.content) (hd : DELIM ∉ l.content) :
    ∃ ms, clientFeed ⟨[], msgs⟩ (frameOf false host l) = ⟨[], msgs ++ ms⟩
      ∧ (ms = [remotePrefix host l ++ l.content, []] ∨ ms = [remotePrefix host l ++ l.content]) := by
  have : frameOf false host l = remotePrefix host l ++ l.content ++ [DELIM] := by
    simp [frameOf]
  rw [this]
  exact clientFeed_frame _ _ msgs hh1 hh2 hwf hd

/-- the driver's linear-time reader and client are the model's (the differential run on long
    lines uses them) -/
theorem C07_driver_fast_versions (m : Nat) (bs : Bytes) :
    readLinesF m bs = readLines m bs ∧ clientMsgsF bs = (clientFeed ⟨[], []⟩ bs).msgs :=
  ⟨readLinesF_eq m bs, clientMsgsF_eq bs⟩

/-- the driver's linear-time multi-connection client (used by the scripted chunk schedules of
    the differential run, where messages exceed 64 KiB) prints exactly the model's messages, in
    the model's order, for every schedule over `n` connections -/
theorem C07_driver_fast_multi (n : Nat) (sched : List (Nat × Bytes)) (h : ∀ c ∈ sched, c.1 < n) :
    multiRunF n sched = (multiRun sched).out := multiRunF_eq n sched h

/-- hence what the driver prints for connection `i` is what a single client fed with `i`'s
    stream alone prints (the specification value the differential run compares with) -/
theorem C07_driver_per_connection (n : Nat) (sched : List (Nat × Bytes)) (h : ∀ c ∈ sched, c.1 < n) (i : Nat) :
    ((multiRunF n sched).filter (·.1 = i)).map (·.2) = clientMsgsF (streamOf i sched) := by
  rw [multiRunF_eq n sched h, clientMsgsF_eq]
  have := C07_interleave sched i
  simpa [projConn] using congrArg CS.msgs this

/-! ### the file identifier of a record -/

/-- `makeGlobID` never indexes out of range when the path has at least as many components as the
    glob (what `filepath.Glob` returns for the cleaned pattern has exactly as many), and the identifier
    is the path's components at the glob's wildcard positions, or the base name -/
theorem C07_globid_value (path glob : Bytes)
    (h : (splitOnByte SLASH glob).length ≤ (splitOnByte SLASH path).length) :
    makeGlobID path glob =
      .ok (match starSel (splitOnByte SLASH path) (splitOnByte SLASH glob) with
           | [] => (splitOnByte SLASH path).getLast?.getD []
           | ids => joinByte SLASH ids) :=
  makeGlobID_ok path glob h

/-- **Attribution: different files of one glob carry different identifiers.**  Two paths that match the
    same cleaned glob (they agree with it on every component without a glob meta character) and get the
    same identifier are the same path — so the (host, identifier) label of an output line determines the
    file it came from.  (After `fix:` 6338cfb; with only '*' counted the statement is false, see below.) -/
theorem C07_globid_distinct (glob p q : Bytes)
    (hp : MatchesLiterals (splitOnByte SLASH p) (splitOnByte SLASH glob))
    (hq : MatchesLiterals (splitOnByte SLASH q) (splitOnByte SLASH glob))
    (hwild : ∃ g ∈ splitOnByte SLASH glob, isWild g = true)
    (h : makeGlobID p glob = makeGlobID q glob) : p = q :=
  makeGlobID_injective glob p q hp hq hwild h

/-- the repaired defect as a statement: counting only '*' as a wildcard, the three files of
    `logs/web?/app.log` are all labelled `app.log` -/
theorem C07_globid_old_defect :
    let old (path glob : Bytes) : Bytes :=
      let sel := ((splitOnByte SLASH path).zip (splitOnByte SLASH glob)).filterMap fun (p, g) => if isWildOld g then some p else none
      if sel = [] then (splitOnByte SLASH path).getLast?.getD [] else joinByte SLASH sel
    old (b!"logs/web1/app.log") (b!"logs/web?/app.log") = old (b!"logs/web2/app.log") (b!"logs/web?/app.log") := by
  decide

/-- non-vacuity: two files of a glob with a '?' component meet the hypotheses and get different identifiers -/
example : makeGlobID (b!"logs/web1/app.log") (b!"logs/web?/app.log") = .ok (b!"web1") ∧
    makeGlobID (b!"logs/web2/app.log") (b!"logs/web?/app.log") = .ok (b!"web2") ∧
    MatchesLiterals (splitOnByte SLASH (b!"logs/web1/app.log")) (splitOnByte SLASH (b!"logs/web?/app.log")) := by
  refine ⟨by decide, by decide, ?_⟩
  have h : splitOnByte SLASH (b!"logs/web1/app.log") = [b!"logs", b!"web1", b!"app.log"] := by decide
  have g : splitOnByte SLASH (b!"logs/web?/app.log") = [b!"logs", b!"web?", b!"app.log"] := by decide
  rw [h, g]
  simp only [MatchesLiterals]
  refine ⟨fun _ => trivial, fun h => ?_, fun _ => trivial, trivial⟩
  exact absurd h (by decide)

/-- **Tie G: `makeGlobID` as translated from internal/server/handlers/readcommand.go on this run computes the
    model's identifier** for every path with at least as many components as the glob — so `C07_globid_value` and
    `C07_globid_distinct` speak about the code as it is now. -/
theorem C07_generated_globid_refines_model (ext : Go.Ext) (r : Gen.Handlers.readCommand) (path glob : Bytes)
    (h : (splitOnByte SLASH glob).length ≤ (splitOnByte SLASH path).length) :
    ∃ id, makeGlobID path glob = .ok id ∧ Gen.Handlers.readCommand.makeGlobID ext r path glob = (r, id) :=
  GenGlobID.makeGlobID_refines ext r path glob h

/-- **Tie G: the running numbers of the translated plain filter.**  `filterWithoutLContext`, `transmittable` and the line
    counter of internal/io/fs as translated on this run: every line a cat / grep reader sends carries as its number its
    position in the file (from 1), and is the selected line at that position — the `count` field a client prints beside the
    host name and the file identifier. -/
theorem C07_generated_running_numbers (ext : Go.Ext) (re : Go.GoRegex) (raws : List Bytes) (f : Gen.Fs.readFile)
    (hc : f.canSkipLines = false) (h0 : f.stats.lineCount = 0) (hl : f.lines = []) (l : Go.GoLine)
    (hmem : l ∈ (Gen.Fs.readFile.filterWithoutLContext ext f () raws () re).lines) :
    ∃ c : Nat, (GenPlain.numOf l).1 = (c : Int) ∧ 1 ≤ c ∧
      (GenPlain.judged ext re raws)[c - 1]? = some (true, (GenPlain.numOf l).2) := by
  obtain ⟨h1, _, _⟩ := GenPlain.plain_refines ext re raws f hc
  rw [hl, h0] at h1
  have h2 := GenPlain.plainNumbered_eq (GenPlain.judged ext re raws) 0
  have hm : GenPlain.numOf l ∈ (Gen.Fs.readFile.filterWithoutLContext ext f () raws () re).lines.map GenPlain.numOf :=
    List.mem_map_of_mem hmem
  rw [h1] at hm
  simp only [List.map_nil, List.nil_append] at hm
  have h2' : GenPlain.plainNumbered 0 (GenPlain.judged ext re raws)
      = (((GenPlain.judged ext re raws).zipIdx 1).filter (·.1.1)).map
          (fun (p : (Bool × Bytes) × Nat) => (((p.2 : Nat) : Int), p.1.2)) := by simpa using h2
  rw [h2'] at hm
  obtain ⟨p, hp, heq⟩ := List.mem_map.1 hm
  have hcnt := C07_count_plain (GenPlain.judged ext re raws) p.2 p.1.2
    (List.mem_map.2 ⟨p, hp, rfl⟩)
  refine ⟨p.2, ?_, hcnt.1, ?_⟩
  · rw [← heq]
  · rw [← heq]; exact hcnt.2

end Dtail.C07
