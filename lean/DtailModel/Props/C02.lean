/-
C02 — every selected line is delivered before the session closes, at any pace.
(after the fix of flush(): the close handshake starts only when the queues are empty)
-/
import DtailModel.Lemmas.Session
namespace Dtail.C02
open Dtail

/-- the invariant holds in every reachable state, whatever the schedule -/
theorem C02_invariant (sizes : List Nat) (history : List SLabel) (s : Sess)
    (h : sessRun (sessInit sizes) history = some s) : SessInv s := by
  have gen : ∀ (hist : List SLabel) (a b : Sess), SessInv a → sessRun a hist = some b → SessInv b := by
    intro hist
    induction hist with
    | nil => intro a b ha hr; simp [sessRun] at hr; rw [← hr]; exact ha
    | cons l rest ih =>
      intro a b ha hr
      simp only [sessRun] at hr
      cases hstep : sessStep a l with
      | none => simp [hstep] at hr
      | some a' =>
        simp only [hstep, Option.bind_some] at hr
        exact ih a' b (sessStep_inv a a' l ha hstep) hr
  exact gen history _ s (sessInit_inv sizes) h

/-- **Nothing is lost, duplicated or reordered on the way, under every schedule and every
    pacing of the consumer**: at any moment, what the client has received of a file followed by
    what is still queued of it is exactly the file's lines 1 … k-1 in order, k being the
    reader's position. -/
theorem C02_in_order_exactly_once (sizes : List Nat) (history : List SLabel) (s : Sess)
    (h : sessRun (sessInit sizes) history = some s) (c : Nat) :
    (s.delivered.filter (fun x => x.1 = c)) ++ (s.queue.filter (fun x => x.1 = c)) = linesUpTo c (nextOf s c) := by
  have := (C02_invariant sizes history s h).lines c
  simpa [List.filter_append] using this

/-- **Everything is delivered before the session closes** — for every schedule in which no
    command is dispatched after the session had gone idle (the recorded finding): when the
    close handshake has been delivered, every line of every dispatched command has reached the
    client, exactly once and in file order, and nothing is left in the queue. -/
theorem C02_partial (sizes : List Nat) (history : List SLabel) (s : Sess)
    (h : sessRun (sessInit sizes) history = some s)
    (hclosed : s.phase = .closed) (hlate : s.lateRecv = false)
    (c n : Nat) (hn : s.sizes[c]? = some n) (hsent : s.cmds[c]? ≠ some .notSent) (hc : c < s.cmds.length) :
    s.delivered.filter (fun x => x.1 = c) = linesUpTo c (n + 1) ∧ s.queue = [] := by
  have inv := C02_invariant sizes history s h
  have hq : s.queue = [] := inv.drained hlate (Or.inr hclosed)
  have hact : activeCount s.cmds = 0 := inv.quiet hlate (by rw [hclosed]; simp)
  have hdone : s.cmds[c]? = some .done := by
    cases hst : s.cmds[c]? with
    | none => exact absurd (List.getElem?_eq_none_iff.1 hst) (by omega)
    | some st =>
      cases st with
      | notSent => exact absurd hst hsent
      | reading k => have := activeCount_pos_of_reading s.cmds c k hst; omega
      | done => rfl
  have hnext : nextOf s c = n + 1 := by unfold nextOf nextOfC; simp [hdone, hn]
  have := inv.lines c
  rw [hq, List.append_nil, hnext] at this
  exact ⟨this, hq⟩

/-- the `.syn` never overtakes queued lines (this is what the repaired flush() guarantees):
    when the handshake is queued or delivered and no command came late, the queue is empty -/
theorem C02_syn_after_lines (sizes : List Nat) (history : List SLabel) (s : Sess)
    (h : sessRun (sessInit sizes) history = some s) (hlate : s.lateRecv = false)
    (hp : s.phase = .synQueued ∨ s.phase = .closed) : s.queue = [] :=
  (C02_invariant sizes history s h).drained hlate hp

/-- The full property (every line of every *requested* file is delivered before the close) is
    false on the unchanged tree: the session of an empty file and a five-line file, where the
    first command finishes before the second is dispatched, closes without the five lines. -/
theorem C02_full_false :
    ∃ s, sessRun (sessInit [0, 5]) [.recv 0, .finish 0, .flushDone, .recv 1, .deliverSyn] = some s
      ∧ s.phase = .closed ∧ s.delivered = [] ∧ s.lateRecv = true := by
  refine ⟨_, rfl, ?_, ?_, ?_⟩ <;> decide

/-- non-vacuity: a complete two-file session under an interleaved schedule meets the
    hypotheses of `C02_partial` -/
example : ∃ s, sessRun (sessInit [1, 2]) [.recv 0, .recv 1, .push 1, .push 0, .deliver, .push 1, .finish 0,
      .deliver, .finish 1, .deliver, .flushDone, .deliverSyn] = some s
      ∧ s.phase = .closed ∧ s.lateRecv = false ∧ s.delivered = [(1, 1), (0, 1), (1, 2)] := by
  refine ⟨_, rfl, ?_, ?_, ?_⟩ <;> decide

end Dtail.C02
