/-
C05 — distributed mapreduce result equals central evaluation of the query.

The state of one select column inside one group is a `Col`; `combine op` is at once the
per-line aggregation (`AggregateSet.Aggregate`), the client's re-aggregation of a received
partial and `AggregateSet.Merge` (after the fix).  The theorems are stated per group and per
column — the executable pipeline model (`distributed` / `central`, compared with the real
code on every run) applies exactly these functions column-wise.
-/
import DtailModel.Model.Aggregate
import DtailModel.Lemmas.AggAlgebra
import DtailModel.Lemmas.GenAggregate
import DtailModel.Lemmas.AggPipeline
import DtailModel.Lemmas.ResultOrder
set_option autoImplicit false
namespace Dtail.C05
open Dtail

/-- merging is associative for every aggregation operation -/
theorem C05_combine_assoc (op : AggOp) (a b c : Col) :
    combine op (combine op a b) c = combine op a (combine op b c) := combine_assoc op a b c

/-- for count, sum, avg, min and max merging is commutative: partial results may arrive in
    any order -/
theorem C05_combine_comm (op : AggOp) (a b : Col)
    (hop : op = .count ∨ op = .sum ∨ op = .avg ∨ op = .min ∨ op = .max) :
    combine op a b = combine op b a := combine_comm op a b hop

/-- the empty column is a right identity, and a left identity on well-formed columns -/
theorem C05_combine_empty (op : AggOp) (a : Col) (h : Col.Wf op a) :
    combine op a {} = a ∧ combine op {} a = a := combine_empty op a h

/-- Per-line aggregation is a homomorphism: aggregating the lines of two parts one after the
    other equals merging the two partial aggregates. -/
theorem C05_homomorphism (op : AggOp) (l1 l2 : List Col)
    (h1 : ∀ k ∈ l1, Col.Wf op k) (h2 : ∀ k ∈ l2, Col.Wf op k) :
    colFold op (l1 ++ l2) = combine op (colFold op l1) (colFold op l2) := colFold_append op l1 l2 h1 h2

/-- what a line contributes is well-formed for its operation, so the theorems above apply to
    every contribution the model's `aggLine` ever combines -/
theorem C05_contribution_wf (op : AggOp) (fs : Fields) (field : Bytes) (c : Col)
    (h : contribution op fs field = some c) : Col.Wf op c := contribution_wf op fs field c h

/-- **Distributed = central, every operation.**  However the lines of a group are split into
    partials (servers × files × serialisation intervals, empty parts included), merging the
    partial aggregates in line order yields exactly the aggregate of all lines — for count,
    sum, avg (sum), min, max, last and len alike. -/
theorem C05_partition (op : AggOp) (parts : List (List Col))
    (h : ∀ p ∈ parts, ∀ k ∈ p, Col.Wf op k) :
    (parts.map (colFold op)).foldl (combine op) {} = colFold op parts.flatten := by
  have hwf0 : Col.Wf op ({} : Col) := by cases op <;> simp [Col.Wf]
  have gen : ∀ (parts : List (List Col)), (∀ p ∈ parts, ∀ k ∈ p, Col.Wf op k) →
      ∀ c, Col.Wf op c →
      (parts.map (colFold op)).foldl (combine op) c = combine op c (colFold op parts.flatten) := by
    intro parts
    induction parts with
    | nil => intro _ c hc; simpa [colFold] using ((C05_combine_empty op c hc).1).symm
    | cons p ps ih =>
      intro h c hc
      have hp : ∀ k ∈ p, Col.Wf op k := h p (by simp)
      have hps : ∀ q ∈ ps, ∀ k ∈ q, Col.Wf op k := fun q hq => h q (List.mem_cons_of_mem _ hq)
      have hall : ∀ k ∈ ps.flatten, Col.Wf op k := by
        intro k hk; obtain ⟨q, hq, hkq⟩ := List.mem_flatten.1 hk; exact hps q hq k hkq
      have hwfp : Col.Wf op (colFold op p) := (foldl_combine_from op {} p hwf0 hp).2
      simp only [List.map_cons, List.foldl_cons, List.flatten_cons]
      rw [ih hps (combine op c (colFold op p)) (combine_wf op c _ hc hwfp), C05_combine_assoc,
        C05_homomorphism op p ps.flatten hp hall]
  rw [gen parts h {} hwf0]
  have hall : ∀ k ∈ parts.flatten, Col.Wf op k := by
    intro k hk; obtain ⟨q, hq, hkq⟩ := List.mem_flatten.1 hk; exact h q hq k hkq
  exact (C05_combine_empty op _ (foldl_combine_from op {} parts.flatten hwf0 hall).2).2

/-- **Arrival order is irrelevant** for count, sum, avg, min and max: merging the partials in
    any permutation gives the same aggregate. -/
theorem C05_order_independent (op : AggOp) (ps qs : List Col) (hperm : ps.Perm qs)
    (hop : op = .count ∨ op = .sum ∨ op = .avg ∨ op = .min ∨ op = .max) :
    ps.foldl (combine op) {} = qs.foldl (combine op) {} := by
  apply List.Perm.foldl_eq' hperm
  intro x _ y _ z
  rw [C05_combine_assoc, C05_combine_assoc, C05_combine_comm op x y hop]

/-- For `last` (and the string of `len`) an out-of-order arrival still reports the value of
    one of the partials that carried one. -/
theorem C05_last_is_candidate (ps : List Col) (c : Col) :
    (ps.foldl (combine .last) c).str = c.str ∨ ∃ p ∈ ps, (ps.foldl (combine .last) c).str = p.str ∧ p.str.isSome := by
  induction ps generalizing c with
  | nil => exact Or.inl rfl
  | cons p ps ih =>
    simp only [List.foldl_cons]
    rcases ih (combine .last c p) with h | ⟨q, hq, h1, h2⟩
    · by_cases hp : p.str.isSome
      · right; refine ⟨p, by simp, ?_, hp⟩
        rw [h]; simp [combine, hp]
      · left; rw [h]; simp [combine, hp]
    · right; exact ⟨q, List.mem_cons_of_mem _ hq, h1, h2⟩

/-- samples are additive over any partition -/
theorem C05_samples (parts : List (List Nat)) :
    (parts.map List.sum).sum = parts.flatten.sum := by
  induction parts with
  | nil => rfl
  | cons p ps ih => simp [List.sum_append, ih]

/-- The defect that was repaired: with an absent operand read as 0 the merge of min was not
    the minimum (kernel-checked on the old formula). -/
theorem C05_old_merge_wrong : (if (5 : Int) > 0 then (0 : Int) else 5) ≠ 5 := by decide

/-- non-vacuity: the pipeline model on a two-server table, min over a group one server lacks -/
example :
    distributed [⟨b!"x", b!"min(x)", .min⟩] [b!"g"]
      [[[(b!"g", b!"A"), (b!"x", b!"5")]], [[(b!"g", b!"A")]]]
    = central [⟨b!"x", b!"min(x)", .min⟩] [b!"g"] [[(b!"g", b!"A"), (b!"x", b!"5")], [(b!"g", b!"A")]] := by
  decide

/-! ### The pipeline as a whole -/

/-- **Distributed = central for the executable pipeline model** (the very functions the differential
    run compares with the real server / client aggregates on every run).  For every select list, every
    group-by list, every list of partial results — all lines cut into servers × files ×
    serialisation intervals in any way, empty parts included, merged in arrival order — and every
    group key: the client's global group holds exactly the aggregate set that one central evaluation
    over all lines holds (samples and every column; a group none of whose lines contributed anything
    is absent on both sides). -/
theorem C05_pipeline (sel : List SelCond) (groupBy : List Bytes) (parts : List (List Fields)) (k : Bytes) :
    AggPipe.lookup (distributed sel groupBy parts) k = AggPipe.lookup (central sel groupBy parts.flatten) k :=
  AggPipe.distributed_eq_central sel groupBy parts k

/-- **… in any arrival order** when the query aggregates with count, sum, avg, min and max -/
theorem C05_pipeline_any_arrival_order (sel : List SelCond) (groupBy : List Bytes) (hc : AggPipe.CommOps sel)
    (parts parts' : List (List Fields)) (hp : parts.Perm parts') (k : Bytes) :
    AggPipe.lookup (distributed sel groupBy parts) k = AggPipe.lookup (distributed sel groupBy parts') k :=
  AggPipe.distributed_perm sel groupBy hc parts parts' hp k

/-- what the global group holds for a group: the fold of the model's per-line step over the group's
    lines, in line order, if any of them contributed -/
theorem C05_pipeline_value (sel : List SelCond) (groupBy : List Bytes) (parts : List (List Fields)) (k : Bytes) :
    AggPipe.lookup (distributed sel groupBy parts) k =
      (let s := (parts.flatten.filter fun fs => groupKeyOf groupBy fs = k).foldl (aggLine sel) (emptySet sel.length)
       if AggPipe.hasData s then some s else none) := by
  rw [C05_pipeline, AggPipe.central_lookup]; rfl

/-! ### Tie G: the aggregation code translated from the working tree refines this algebra -/

/-- the well-formedness used by the refinement lemmas is the `Col.Wf` of this file -/
theorem C05_wf_same (op : AggOp) (c : Col) : GenAgg.ColWf op c ↔ Col.Wf op c := Iff.rfl

/-- **`AggregateSet.Aggregate` as translated from internal/mapr/aggregateset.go on this run is the
    model's per-line step**: for every aggregation operation, every aggregate set and every field
    value, the server-side call changes the column under its storage key to `combine op old c`, with
    `c` the model's `contribution` of the value, touches no other key, and reports an error exactly
    when the value contributes nothing (`strconv.ParseFloat` is a parameter: it must agree with the
    model's `parseNum`). -/
theorem C05_generated_aggregate_refines_model (ext : Go.Ext) (hpf : GenAgg.ParseFloatIs ext)
    (g : Gen.Mapr.AggregateSet) (field storage v : Bytes) (op : AggOp) (hop : op ≠ .undef)
    (hwf : Col.Wf op (GenAgg.colOf g storage)) :
    let r := Gen.Mapr.AggregateSet.Aggregate ext g storage (GenAgg.opCode op) v false
    contribution op [(field, v)] field = GenAgg.contribOf op v ∧
    (r.2 = none ↔ (contribution op [(field, v)] field).isSome) ∧
    GenAgg.colOf r.1 storage =
      (match contribution op [(field, v)] field with | some c => combine op (GenAgg.colOf g storage) c | none => GenAgg.colOf g storage) ∧
    (∀ k', k' ≠ storage → GenAgg.colOf r.1 k' = GenAgg.colOf g k') := by
  intro r
  have hc : contribution op [(field, v)] field = GenAgg.contribOf op v := by
    rw [GenAgg.contribution_eq]; simp [getField]
  have h := GenAgg.Aggregate_refines ext hpf g storage v op hop hwf
  rw [hc]
  exact ⟨rfl, h.1, h.2.1, h.2.2.1⟩

/-- **`AggregateSet.Merge` as translated from the working tree is the model's `mergeSet`**, column by
    column (for count / sum / avg up to reading an absent number as 0, which is how every consumer
    reads it), for every select list with pairwise different storage keys. -/
theorem C05_generated_merge_refines_model (ext : Go.Ext) (sel : List SelCond) (hnd : (sel.map (·.storage)).Nodup)
    (hops : ∀ sc ∈ sel, sc.op ≠ .undef) (g g2 : Gen.Mapr.AggregateSet)
    (hwf : ∀ sc ∈ sel, Col.Wf sc.op (GenAgg.colOf g sc.storage)) (hwf2 : ∀ sc ∈ sel, Col.Wf sc.op (GenAgg.colOf g2 sc.storage)) :
    let r := Gen.Mapr.AggregateSet.Merge ext g ⟨sel.map GenAgg.genSel⟩ g2
    r.2 = none ∧ r.1.Samples = g.Samples + g2.Samples ∧
    (∀ sc ∈ sel, GenAgg.ColObs sc.op (GenAgg.colOf r.1 sc.storage) (combine sc.op (GenAgg.colOf g sc.storage) (GenAgg.colOf g2 sc.storage))) :=
  let h := GenAgg.Merge_refines ext sel hnd hops g g2 hwf hwf2
  ⟨h.1, h.2.1, h.2.2.1⟩

/-- reading an absent number as 0 is a congruence for the merge: the approximation of
    `C05_generated_merge_refines_model` does not grow over a sequence of merges -/
theorem C05_obs_congr (op : AggOp) (a a' b : Col) (h : GenAgg.ColObs op a a') :
    GenAgg.ColObs op (combine op a b) (combine op a' b) := by
  obtain ⟨an, as⟩ := a; obtain ⟨an', as'⟩ := a'; obtain ⟨bn, bs⟩ := b
  cases op <;> simp_all [GenAgg.ColObs, combine] <;>
    (cases an <;> cases an' <;> cases bn <;> simp_all [addNum] <;> omega)

/-- the operation numbering of the model is the iota order of the source as translated on this run -/
theorem C05_operation_codes_are_the_sources :
    GenAgg.opCode .count = Gen.Mapr.Count ∧ GenAgg.opCode .sum = Gen.Mapr.Sum ∧ GenAgg.opCode .min = Gen.Mapr.Min ∧
    GenAgg.opCode .max = Gen.Mapr.Max ∧ GenAgg.opCode .last = Gen.Mapr.Last ∧ GenAgg.opCode .avg = Gen.Mapr.Avg ∧
    GenAgg.opCode .len = Gen.Mapr.Len :=
  GenAgg.opCode_is_source_iota.2

/-! ### The final report: rows, `order by` / `rorder by`, `limit` -/

/-- the global group set of the distributed run and the central evaluation hold the same groups
    (as lists: permutations of each other, no group key twice) -/
theorem C05_same_groups (q : Query) (parts : List (List Fields)) :
    (distributed q.sel q.groupBy parts).Perm (central q.sel q.groupBy parts.flatten) :=
  ResultOrder.distributed_perm_central q.sel q.groupBy parts

/-- **ordering and limit, whatever the ties**: with an `order by` / `rorder by` clause the final
    report of the distributed run shows the same sequence of order keys as the report of one
    central evaluation — for every query, table and partition, every limit, and every order in
    which the groups reach the sort (Go ranges over a map: `g'` is any permutation). -/
theorem C05_report_order_keys (q : Query) (parts : List (List Fields)) (ho : q.orderBy ≠ [])
    (g' : Groups) (hg : g'.Perm (distributed q.sel q.groupBy parts)) :
    (report q g').map (·.orderBy) = (report q (central q.sel q.groupBy parts.flatten)).map (·.orderBy) := by
  unfold report
  rw [ResultOrder.limitRows_map, ResultOrder.limitRows_map]
  congr 1
  exact ResultOrder.orderRows_keys q _ _ ((hg.trans (C05_same_groups q parts)).map _) ho

/-- **ordering and limit**: when no two groups of the central evaluation share an order key, the
    final report of the distributed run is the report of the central evaluation, row for row —
    the only freedom the property leaves is the choice among tied rows. -/
theorem C05_report (q : Query) (parts : List (List Fields)) (ho : q.orderBy ≠ [])
    (g' : Groups) (hg : g'.Perm (distributed q.sel q.groupBy parts))
    (hties : ∀ x ∈ central q.sel q.groupBy parts.flatten, ∀ y ∈ central q.sel q.groupBy parts.flatten,
      (rowOf q x).orderBy = (rowOf q y).orderBy → x = y) :
    report q g' = report q (central q.sel q.groupBy parts.flatten) := by
  unfold report
  congr 1
  have hp : (g'.map (rowOf q)).Perm ((central q.sel q.groupBy parts.flatten).map (rowOf q)) :=
    (hg.trans (C05_same_groups q parts)).map _
  refine (ResultOrder.orderRows_eq q _ _ hp.symm ho ?_).symm
  intro x hx y hy hxy
  obtain ⟨x', hx', rfl⟩ := List.mem_map.1 hx
  obtain ⟨y', hy', rfl⟩ := List.mem_map.1 hy
  rw [hties x' hx' y' hy' hxy]

/-- without an ordering clause (and without a limit) the report holds the same rows in some order -/
theorem C05_report_unordered (q : Query) (parts : List (List Fields)) (ho : q.orderBy = []) (hl : q.limit < 0)
    (g' : Groups) (hg : g'.Perm (distributed q.sel q.groupBy parts)) :
    (report q g').Perm (report q (central q.sel q.groupBy parts.flatten)) := by
  unfold report limitRows orderRows
  simp only [ho, hl, if_true]
  exact (hg.trans (C05_same_groups q parts)).map _

/-- the report is sorted: descending for `order by`, ascending for `rorder by` -/
theorem C05_report_sorted (q : Query) (g : Groups) (ho : q.orderBy ≠ []) :
    (report q g).Pairwise fun a b => if q.reverse then a.orderBy ≤ b.orderBy else b.orderBy ≤ a.orderBy := by
  have hs := ResultOrder.orderRows_sorted q (g.map (rowOf q)) ho
  unfold report limitRows
  by_cases hl : q.limit < 0
  · simp only [hl, if_true]; exact hs
  · simp only [hl, if_false]; exact hs.sublist (List.take_sublist _ _)

/-- the limit keeps the top of the order: no row left out would sort before a row shown -/
theorem C05_report_limit_keeps_top (q : Query) (g : Groups) (ho : q.orderBy ≠ []) (r r' : Row)
    (hr : r ∈ report q g) (hr' : r' ∈ orderRows q (g.map (rowOf q))) (hout : r' ∉ report q g) :
    if q.reverse then r.orderBy ≤ r'.orderBy else r'.orderBy ≤ r.orderBy := by
  have hs := ResultOrder.orderRows_sorted q (g.map (rowOf q)) ho
  unfold report limitRows at hr hout
  split at hr
  · rename_i hl; simp only [hl, if_true] at hout; exact absurd hr' hout
  · rename_i hl
    simp only [hl, if_false] at hout
    have hsplit := List.take_append_drop q.limit.toNat (orderRows q (g.map (rowOf q)))
    rw [← hsplit] at hs hr'
    have hd : r' ∈ (orderRows q (g.map (rowOf q))).drop q.limit.toNat := by
      rcases List.mem_append.1 hr' with h | h
      · exact absurd h hout
      · exact h
    exact (List.pairwise_append.1 hs).2.2 r hr r' hd

/-- the number of rows shown -/
theorem C05_report_length (q : Query) (g : Groups) :
    (report q g).length = if q.limit < 0 then g.length else min q.limit.toNat g.length := by
  have hlen : (orderRows q (g.map (rowOf q))).length = g.length := by
    simpa using (ResultOrder.orderRows_perm q (g.map (rowOf q))).length_eq
  unfold report limitRows
  split
  · exact hlen
  · simp [List.length_take, hlen]

/-- rows with the same order key keep the order in which they reached the sort (`sort.SliceStable`) -/
theorem C05_report_stable (q : Query) (rows : List Row) (k : Rat) (ho : q.orderBy ≠ []) :
    (orderRows q rows).filter (fun r => decide (r.orderBy = k)) = rows.filter (fun r => decide (r.orderBy = k)) := by
  unfold orderRows
  simp only [ho, if_false]
  split
  · exact ResultOrder.sortBy_stable ResultOrder.leRat_linear _ rows k
  · exact ResultOrder.sortBy_stable ResultOrder.geRat_linear _ rows k

/-- the premises are satisfiable and the statement is not empty: two groups, `order by` the count,
    limit 1, the lines split over two partial results -/
example :
    let q : Query := { sel := [⟨b!"x", b!"count(x)", .count⟩], groupBy := [b!"h"], orderBy := b!"count(x)", limit := 1 }
    let l (h : Bytes) : Fields := [(b!"h", h), (b!"x", b!"1")]
    (report q (distributed q.sel q.groupBy [[l (b!"a"), l (b!"b")], [l (b!"b")]])).map (fun r => (r.group, r.orderBy))
      = [(b!"b", 2)] := by decide

end Dtail.C05
