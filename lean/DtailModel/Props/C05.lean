/-
C05 — distributed mapreduce result equals central evaluation of the query.
-/
import DtailModel.Model.Aggregate
namespace Dtail.C05
open Dtail

/-- merging is associative for every aggregation operation -/
theorem C05_combine_assoc (op : AggOp) (a b c : Col) :
    combine op (combine op a b) c = combine op a (combine op b c) := by
  obtain ⟨an, as⟩ := a; obtain ⟨bn, bs⟩ := b; obtain ⟨cn, cs⟩ := c
  cases op <;> cases an <;> cases bn <;> cases cn <;> cases as <;> cases bs <;> cases cs <;>
    simp [combine, addNum, minNum, maxNum, Int.add_assoc] <;> (try split) <;> (try split) <;> (try split) <;> omega

end Dtail.C05
