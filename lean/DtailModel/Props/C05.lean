/-
C05 — distributed mapreduce result equals central evaluation of the query.

The state of one select column inside one group is a `Col`; `combine op` is at once the
per-line aggregation (`AggregateSet.Aggregate`), the client's re-aggregation of a received
partial and `AggregateSet.Merge` (after the fix).  The theorems are stated per group and per
column — the executable pipeline model (`distributed` / `central`, compared with the real
code on every run) applies exactly these functions column-wise.
-/
import DtailModel.Model.Aggregate
namespace Dtail.C05
open Dtail

/-- a column state as an operation produces it -/
def Col.Wf (op : AggOp) (c : Col) : Prop :=
  match op with
  | .count | .sum | .avg | .min | .max => c.str = none
  | .last => c.num = none
  | .len => (c.num.isSome ↔ c.str.isSome)
  | .undef => c = {}

/-- merging is associative for every aggregation operation -/
theorem C05_combine_assoc (op : AggOp) (a b c : Col) :
    combine op (combine op a b) c = combine op a (combine op b c) := by
  obtain ⟨an, as⟩ := a; obtain ⟨bn, bs⟩ := b; obtain ⟨cn, cs⟩ := c
  cases op <;> cases an <;> cases bn <;> cases cn <;> cases as <;> cases bs <;> cases cs <;>
    simp [combine, addNum, minNum, maxNum, Int.add_assoc] <;> (try split) <;> (try split) <;> (try split) <;> omega

/-- for count, sum, avg, min and max merging is commutative: partial results may arrive in
    any order -/
theorem C05_combine_comm (op : AggOp) (a b : Col)
    (hop : op = .count ∨ op = .sum ∨ op = .avg ∨ op = .min ∨ op = .max) :
    combine op a b = combine op b a := by
  obtain ⟨an, as⟩ := a; obtain ⟨bn, bs⟩ := b
  rcases hop with rfl | rfl | rfl | rfl | rfl <;> cases an <;> cases bn <;>
    simp [combine, addNum, minNum, maxNum, Int.add_comm] <;> (try split) <;> (try split) <;> omega

/-- the empty column is a right identity, and a left identity on well-formed columns -/
theorem C05_combine_empty (op : AggOp) (a : Col) (h : Col.Wf op a) :
    combine op a {} = a ∧ combine op {} a = a := by
  obtain ⟨an, as⟩ := a
  cases op <;> cases an <;> cases as <;> simp_all [combine, addNum, minNum, maxNum, Col.Wf]

theorem combine_wf (op : AggOp) (a b : Col) (ha : Col.Wf op a) (hb : Col.Wf op b) :
    Col.Wf op (combine op a b) := by
  obtain ⟨an, as⟩ := a; obtain ⟨bn, bs⟩ := b
  cases op <;> cases an <;> cases bn <;> cases as <;> cases bs <;> simp_all [combine, Col.Wf]

/-- the column after a sequence of contributions (lines of one group, in order) -/
def colFold (op : AggOp) (ks : List Col) : Col := ks.foldl (combine op) {}

theorem foldl_combine_from (op : AggOp) (c : Col) (ks : List Col) (hc : Col.Wf op c)
    (hk : ∀ k ∈ ks, Col.Wf op k) :
    ks.foldl (combine op) c = combine op c (colFold op ks) ∧ Col.Wf op (ks.foldl (combine op) c) := by
  induction ks generalizing c with
  | nil => exact ⟨((C05_combine_empty op c hc).1).symm, hc⟩
  | cons k ks ih =>
    have hk0 := hk k (by simp)
    have hks : ∀ x ∈ ks, Col.Wf op x := fun x hx => hk x (List.mem_cons_of_mem _ hx)
    have hwf0 : Col.Wf op ({} : Col) := by cases op <;> simp [Col.Wf]
    have h1 := ih (combine op c k) (combine_wf op c k hc hk0) hks
    have h2 := ih (combine op {} k) (combine_wf op {} k hwf0 hk0) hks
    refine ⟨?_, h1.2⟩
    simp only [List.foldl_cons, colFold]
    rw [h1.1, h2.1, (C05_combine_empty op k hk0).2, C05_combine_assoc]

/-- Per-line aggregation is a homomorphism: aggregating the lines of two parts one after the
    other equals merging the two partial aggregates. -/
theorem C05_homomorphism (op : AggOp) (l1 l2 : List Col)
    (h1 : ∀ k ∈ l1, Col.Wf op k) (h2 : ∀ k ∈ l2, Col.Wf op k) :
    colFold op (l1 ++ l2) = combine op (colFold op l1) (colFold op l2) := by
  have hwf0 : Col.Wf op ({} : Col) := by cases op <;> simp [Col.Wf]
  unfold colFold
  rw [List.foldl_append]
  exact (foldl_combine_from op _ l2 (foldl_combine_from op {} l1 hwf0 h1).2 h2).1

/-- **Distributed = central, every operation.**  However the lines of a group are split into
    partials (servers × files × serialisation intervals, empty parts included), merging the
    partial aggregates in line order yields exactly the aggregate of all lines — for count,
    sum, avg (sum), min, max, last and len alike. -/
theorem C05_partition (op : AggOp) (parts : List (List Col))
    (h : ∀ p ∈ parts, ∀ k ∈ p, Col.Wf op k) :
    (parts.map (colFold op)).foldl (combine op) {} = colFold op parts.flatten := by
  have hwf0 : Col.Wf op ({} : Col) := by cases op <;> simp [Col.Wf]
  have gen : ∀ (parts : List (List Col)), (∀ p ∈ parts, ∀ k ∈ p, Col.Wf op k) →
      ∀ c, Col.Wf op c →
      (parts.map (colFold op)).foldl (combine op) c = combine op c (colFold op parts.flatten) := by
    intro parts
    induction parts with
    | nil => intro _ c hc; simpa [colFold] using ((C05_combine_empty op c hc).1).symm
    | cons p ps ih =>
      intro h c hc
      have hp : ∀ k ∈ p, Col.Wf op k := h p (by simp)
      have hps : ∀ q ∈ ps, ∀ k ∈ q, Col.Wf op k := fun q hq => h q (List.mem_cons_of_mem _ hq)
      have hall : ∀ k ∈ ps.flatten, Col.Wf op k := by
        intro k hk; obtain ⟨q, hq, hkq⟩ := List.mem_flatten.1 hk; exact hps q hq k hkq
      have hwfp : Col.Wf op (colFold op p) := (foldl_combine_from op {} p hwf0 hp).2
      simp only [List.map_cons, List.foldl_cons, List.flatten_cons]
      rw [ih hps (combine op c (colFold op p)) (combine_wf op c _ hc hwfp), C05_combine_assoc,
        C05_homomorphism op p ps.flatten hp hall]
  rw [gen parts h {} hwf0]
  have hall : ∀ k ∈ parts.flatten, Col.Wf op k := by
    intro k hk; obtain ⟨q, hq, hkq⟩ := List.mem_flatten.1 hk; exact h q hq k hkq
  exact (C05_combine_empty op _ (foldl_combine_from op {} parts.flatten hwf0 hall).2).2

/-- **Arrival order is irrelevant** for count, sum, avg, min and max: merging the partials in
    any permutation gives the same aggregate. -/
theorem C05_order_independent (op : AggOp) (ps qs : List Col) (hperm : ps.Perm qs)
    (hop : op = .count ∨ op = .sum ∨ op = .avg ∨ op = .min ∨ op = .max) :
    ps.foldl (combine op) {} = qs.foldl (combine op) {} := by
  apply List.Perm.foldl_eq' hperm
  intro x _ y _ z
  rw [C05_combine_assoc, C05_combine_assoc, C05_combine_comm op x y hop]

/-- For `last` (and the string of `len`) an out-of-order arrival still reports the value of
    one of the partials that carried one. -/
theorem C05_last_is_candidate (ps : List Col) (c : Col) :
    (ps.foldl (combine .last) c).str = c.str ∨ ∃ p ∈ ps, (ps.foldl (combine .last) c).str = p.str ∧ p.str.isSome := by
  induction ps generalizing c with
  | nil => exact Or.inl rfl
  | cons p ps ih =>
    simp only [List.foldl_cons]
    rcases ih (combine .last c p) with h | ⟨q, hq, h1, h2⟩
    · by_cases hp : p.str.isSome
      · right; refine ⟨p, by simp, ?_, hp⟩
        rw [h]; simp [combine, hp]
      · left; rw [h]; simp [combine, hp]
    · right; exact ⟨q, List.mem_cons_of_mem _ hq, h1, h2⟩

/-- samples are additive over any partition -/
theorem C05_samples (parts : List (List Nat)) :
    (parts.map List.sum).sum = parts.flatten.sum := by
  induction parts with
  | nil => rfl
  | cons p ps ih => simp [List.sum_append, ih]

/-- what a line contributes is well-formed for its operation, so the theorems above apply to
    every contribution the model's `aggLine` ever combines -/
theorem C05_contribution_wf (op : AggOp) (fs : Fields) (field : Bytes) (c : Col)
    (h : contribution op fs field = some c) : Col.Wf op c := by
  unfold contribution at h
  cases hg : getField fs field with
  | none => simp [hg] at h
  | some v =>
    simp only [hg] at h
    cases op <;> simp at h <;> (try (subst h; simp [Col.Wf]))
    all_goals (obtain ⟨n, _, rfl⟩ := h; simp [Col.Wf])

/-- The defect that was repaired: with an absent operand read as 0 the merge of min was not
    the minimum (kernel-checked on the old formula). -/
theorem C05_old_merge_wrong : (if (5 : Int) > 0 then (0 : Int) else 5) ≠ 5 := by decide

/-- non-vacuity: the pipeline model on a two-server table, min over a group one server lacks -/
example :
    distributed [⟨b!"x", b!"min(x)", .min⟩] [b!"g"]
      [[[(b!"g", b!"A"), (b!"x", b!"5")]], [[(b!"g", b!"A")]]]
    = central [⟨b!"x", b!"min(x)", .min⟩] [b!"g"] [[(b!"g", b!"A"), (b!"x", b!"5")], [(b!"g", b!"A")]] := by
  decide

end Dtail.C05
