/-
C16 — no message content can crash the client; colouring never alters text.
(after the two `fix:` commits: length checks in brush.go and maprhandler.go)
-/
import DtailModel.Lemmas.Color
import DtailModel.Lemmas.GenBrush
set_option autoImplicit false
namespace Dtail.C16
open Dtail

/-- Colouring is lossless for every message and every colour configuration: the rendering
    with its escape codes removed is the message itself. -/
theorem C16_lossless (tbl : Tbl) (line : Bytes) : texts (colorfy tbl line) = line :=
  texts_colorfy tbl line

/-- What the client prints in colour mode, codes removed, is what it prints in plain mode. -/
theorem C16_print_lossless (tbl : Tbl) (msgs : List Bytes) :
    texts (printedColored tbl msgs) = printed msgs := by
  unfold printedColored printed
  induction msgs.filter (fun m => !isHidden m) with
  | nil => rfl
  | cons m ms ih => simp [List.flatMap_cons, texts_colorfy, ih]

/-- No index in `Colorfy` is ever out of range: with Go's indexing made explicit the
    function never panics and equals the total model, for every message. -/
theorem C16_colorfy_no_panic (tbl : Tbl) (line : Bytes) :
    colorfyO tbl line = .ok (colorfy tbl line) := by
  have h6 : ∀ l : List Bytes, ¬ l.length < 6 → l.length ≤ 6 →
      ∃ a b c d e f, l = [a, b, c, d, e, f] := by
    intro l h1 h2
    match l, h1, h2 with
    | [a, b, c, d, e, f], _, _ => exact ⟨a, b, c, d, e, f, rfl⟩
    | [], h1, _ => simp at h1
    | [_], h1, _ => simp at h1
    | [_, _], h1, _ => simp at h1
    | [_, _, _], h1, _ => simp at h1
    | [_, _, _, _], h1, _ => simp at h1
    | [_, _, _, _, _], h1, _ => simp at h1
    | _ :: _ :: _ :: _ :: _ :: _ :: _ :: _, _, h2 => simp at h2
  have h3 : ∀ l : List Bytes, ¬ l.length < 3 → l.length ≤ 3 → ∃ a b c, l = [a, b, c] := by
    intro l h1 h2
    match l, h1, h2 with
    | [a, b, c], _, _ => exact ⟨a, b, c, rfl⟩
    | [], h1, _ => simp at h1
    | [_], h1, _ => simp at h1
    | [_, _], h1, _ => simp at h1
    | _ :: _ :: _ :: _ :: _, _, h2 => simp at h2
  have hlen : ∀ n s, (splitN PIPE n s).length ≤ n := by
    intro n
    induction n using Nat.strongRecOn with
    | _ n ih =>
      intro s
      match n with
      | 0 => simp [splitN]
      | 1 => simp [splitN]
      | n + 2 =>
        simp only [splitN]
        split
        · simp
        · rename_i p r _
          have := ih (n + 1) (by omega) r
          simp only [List.length_cons]; omega
  have hR : paintRemoteO tbl line = .ok (paintRemote tbl line) := by
    unfold paintRemoteO paintRemote
    by_cases hl : (splitN PIPE 6 line).length < 6
    · simp only [hl, if_true]
      split
      · rename_i h; rw [h] at hl; simp at hl
      · rfl
    · obtain ⟨a, b, c, d, e, f, h⟩ := h6 _ hl (hlen 6 line)
      simp [h, idx, Outcome.bind]
  have h3' : ∀ s f, paint3O tbl s f line = .ok (paint3 tbl s f line) := by
    intro s f
    unfold paint3O paint3
    by_cases hl : (splitN PIPE 3 line).length < 3
    · simp only [hl, if_true]
      split
      · rename_i h; rw [h] at hl; simp at hl
      · rfl
    · obtain ⟨a, b, c, h⟩ := h3 _ hl (hlen 3 line)
      simp [h, idx, Outcome.bind]
  unfold colorfyO colorfy
  split
  · exact hR
  · split
    · exact h3' _ _
    · split
      · exact h3' _ _
      · rfl

/-- The mapreduce handler's `message[0]` is guarded: no message, including the empty one,
    makes it panic, and it is `true` exactly for messages starting with 'A'. -/
theorem C16_mapr_first_no_panic (m : Bytes) : firstIsA m = .ok (decide (m.head? = some 65)) := by
  cases m with
  | nil => rfl
  | cons b bs => simp [firstIsA]

/-- Chunk boundaries of the transport are irrelevant to the mapr and health handlers too. -/
theorem C16_mapr_chunking (a b : Bytes) :
    maprFeed (a ++ b) = b.foldl maprByte (maprFeed a) := by simp [maprFeed, List.foldl_append]

/-- non-vacuity / sanity: a REMOTE record is rendered with codes around every field -/
example : texts (colorfy defaultTbl (b!"REMOTE|h|100|7|id|ERROR x\n")) = b!"REMOTE|h|100|7|id|ERROR x\n" ∧
    (colorfy defaultTbl (b!"REMOTE|h|100|7|id|ERROR x\n")).length > 40 := by decide

/-! ### Tie G (panic-aware): brush.go as translated from the working tree on this run -/

/-- **`Colorfy` of the working tree never crashes and never alters text.**  `Colorfy`, `paintRemote`, `paintClient`,
    `paintServer`, `paintSeverity`, `paintDefault` are translated on every run with every positional field access
    guarded; `color.PaintWithAttr` is a parameter.  For every line — any prefix, any number of fields — no guard
    fails, and for every way of painting from which the paint can be removed again (`strip (paint sb text) =
    strip sb ++ text`), the painted line with the paint removed is the line. -/
theorem C16_generated_colorfy_lossless (ext : Go.Ext) (strip : Bytes → Bytes) (hs : GenBrush.Strips ext strip) (line : Bytes) :
    ∃ out, Gen.Brush.Colorfy ext line = Outcome.ok out ∧ strip out = line :=
  GenBrush.Colorfy_lossless ext strip hs line

/-- the assumption is satisfiable: painting that adds nothing, removed by doing nothing -/
example : GenBrush.Strips { parseFloat := fun _ => (0, none) } id := ⟨rfl, fun _ _ => rfl⟩

end Dtail.C16
