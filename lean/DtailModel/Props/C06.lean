/-
C06 — mapreduce accounts for every file of every server under any scheduling.
-/
import DtailModel.Lemmas.Aggregator
import DtailModel.Props.C05
namespace Dtail.C06
open Dtail

/-- the aggregator invariant holds in every reachable state, under every interleaving of
    readers, aggregator and rotation goroutines -/
theorem C06_invariant (sizes : List Nat) (history : List ALabel) (s : Agg)
    (h : aggRun (aggInit sizes) history = some s) : AggInv s := by
  have gen : ∀ (hist : List ALabel) (a b : Agg), AggInv a → aggRun a hist = some b → AggInv b := by
    intro hist
    induction hist with
    | nil => intro a b ha hr; simp [aggRun] at hr; rw [← hr]; exact ha
    | cons l rest ih =>
      intro a b ha hr
      simp only [aggRun] at hr
      cases hstep : aggStep a l with
      | none => simp [hstep] at hr
      | some a' =>
        simp only [hstep, Option.bind_some] at hr
        exact ih a' b (aggStep_inv a a' l ha hstep) hr
  exact gen history _ s (aggInit_inv sizes) h

/-- never more than a file's lines, never a line twice: the aggregator has consumed at most
    what the reader has written, which is at most the file -/
theorem C06_no_duplicates (sizes : List Nat) (history : List ALabel) (s : Agg)
    (h : aggRun (aggInit sizes) history = some s) (r : Nat) (d : Rd) (n : Nat)
    (hd : s.rds[r]? = some d) (hn : s.sizes[r]? = some n) : d.consumed ≤ d.pushed ∧ d.pushed ≤ n :=
  let b := (C06_invariant sizes history s h).bounds r d n hd hn
  ⟨b.1, b.2.1⟩

/-- **Every line of every file is aggregated** — for every interleaving at whose end the
    aggregator has finished, every reader had registered its channel, and no channel is left
    waiting in the queue or in the hands of a rotation goroutine. -/
theorem C06_partial (sizes : List Nat) (history : List ALabel) (s : Agg)
    (h : aggRun (aggInit sizes) history = some s)
    (hdone : s.done = true) (hq : s.nextQ = []) (hl : s.limbo = [])
    (hreg : ∀ (r : Nat) (d : Rd), s.rds[r]? = some d → d.st ≠ RdSt.notRegistered)
    (r : Nat) (hr : r < s.sizes.length) : fullyConsumed s r := by
  have inv := C06_invariant sizes history s h
  have hrl : r < s.rds.length := by rw [inv.len]; exact hr
  obtain ⟨d, hd⟩ : ∃ d, s.rds[r]? = some d := ⟨s.rds[r], List.getElem?_eq_getElem hrl⟩
  obtain ⟨n, hn⟩ : ∃ n, s.sizes[r]? = some n := ⟨s.sizes[r], List.getElem?_eq_getElem hr⟩
  have hb := inv.bounds r d n hd hn
  refine ⟨d, n, hd, hn, ?_⟩
  rcases inv.tracked r d hd (hreg r d hd) with h1 | h1 | h1 | h1
  · obtain ⟨r0, d0, hc0, hd0, hst0, hcp0⟩ := inv.atDone hdone
    rw [h1] at hc0; cases hc0
    rw [hd] at hd0; cases hd0
    rw [hcp0]; exact hb.2.2 hst0
  · rw [hq] at h1; cases h1
  · rw [hl] at h1; cases h1
  · rw [h1.2]; exact hb.2.2 h1.1

/-- The full property is false on the unchanged tree.  (a) A reader that registers after the
    aggregator saw its current file closed with none queued is never aggregated: two files of
    one line, the second registers late. -/
theorem C06_full_false_late_register :
    ∃ s, aggRun (aggInit [1, 1]) [.register 0, .first, .push 0, .close 0, .take, .closedDone,
        .register 1, .push 1, .close 1] = some s
      ∧ s.done = true ∧ (s.rds[1]?.map (·.consumed)) = some 0 := by
  refine ⟨_, rfl, ?_, ?_⟩ <;> decide

/-- (b) A channel in the hands of a rotation goroutine when the aggregator finishes is lost. -/
theorem C06_full_false_limbo :
    ∃ s, aggRun (aggInit [1, 0]) [.register 0, .register 1, .first, .rotate, .close 1, .closedDone,
        .push 0, .close 0, .requeue 0] = some s
      ∧ s.done = true ∧ (s.rds[0]?.map (·.consumed)) = some 0 ∧ (s.rds[0]?.map (·.pushed)) = some 1 := by
  refine ⟨_, rfl, ?_, ?_, ?_⟩ <;> decide

/-! ### the client side -/

/-- **However simultaneously the servers deliver**, the global group is the merge of all
    partials: any two arrival orders of the same partials give the same result (count, sum,
    avg, min, max). -/
theorem C06_arrival_order_irrelevant (op : AggOp) (a b : List (Nat × Col)) (hperm : a.Perm b)
    (hop : op = .count ∨ op = .sum ∨ op = .avg ∨ op = .min ∨ op = .max) :
    clientGlobal op a = clientGlobal op b :=
  C05.C05_order_independent op _ _ (hperm.map _) hop

/-- the repaired defect: a server's last partial that arrives while the global group is busy
    never reaches the result -/
theorem C06_old_noblock_loss :
    (oldClient .count {} {} [(⟨some 5, none⟩, false), (⟨some 7, none⟩, true)]).1 = ⟨some 5, none⟩
    ∧ clientGlobal .count [(0, ⟨some 5, none⟩), (0, ⟨some 7, none⟩)] = ⟨some 12, none⟩ := by
  constructor <;> decide

/-- the schedule of the scripted sessions (the aggregator does all it can after every reader
    step) is one of the interleavings the theorems above quantify over -/
theorem C06_scripted_schedule_is_interleaving (fuel : Nat) (s : Agg) :
    aggRun s (aggSettle fuel s []).2 = some (aggSettle fuel s []).1 :=
  aggSettle_run fuel s s [] rfl

/-- non-vacuity of `C06_partial`: a complete run with a rotation, three files -/
example : ∃ s, aggRun (aggInit [2, 1, 0]) [.register 0, .register 1, .first, .push 0, .take, .rotate, .requeue 0,
      .push 1, .take, .close 1, .closedSwitch, .push 0, .take, .register 2, .close 0, .closedSwitch, .close 2, .closedDone] = some s
    ∧ s.done = true ∧ s.nextQ = [] ∧ s.limbo = [] ∧ (s.rds.map (·.consumed)) = [2, 1, 0] := by
  refine ⟨_, rfl, ?_, ?_, ?_, ?_⟩ <;> decide

end Dtail.C06
