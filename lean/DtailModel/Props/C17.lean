/-
C17 — the client talks only to servers whose host key is trusted.
-/
import DtailModel.Model.KnownHosts
namespace Dtail.C17
open Dtail

/-- The client proceeds with a server exactly when its key is known, trust-all was
    requested, or the user's first decisive answer at the prompt is yes / all. -/
theorem C17_proceed_iff (st : HostState) (trustAll : Bool) (answers : List Bytes) :
    wrapDecision st trustAll answers = .proceed ↔
      st = .known ∨ trustAll = true ∨ promptDecision answers = some true := by
  cases st <;> cases trustAll <;> simp [wrapDecision] <;>
    (cases h : promptDecision answers with
     | none => simp
     | some b => cases b <;> simp)

/-- A refused host stays refused: `no` never yields proceed, whatever follows. -/
theorem C17_refused (st : HostState) (answers : List Bytes) (h : st ≠ .known)
    (hno : promptDecision answers = some false) : wrapDecision st false answers = .refuse := by
  cases st <;> simp_all [wrapDecision]

/-- the answers that count and their meaning -/
theorem C17_prompt_first_decisive (a : Bytes) (rest : List Bytes) :
    promptDecision (a :: rest) =
      if a = b!"yes" ∨ a = b!"y" ∨ a = b!"all" ∨ a = b!"a" then some true
      else if a = b!"no" ∨ a = b!"n" then some false else promptDecision rest := rfl

/-- Rewriting known_hosts: every new host contributes its host line and its IP line, and
    every old line whose address is not one of the new addresses is kept, unchanged and in
    the same relative order; nothing else is written. -/
theorem C17_rewrite (hosts : List NewHost) (oldLines : List Bytes) :
    let out := trustHostsLines hosts oldLines
    (∀ h ∈ hosts, h.hostLine ∈ out ∧ h.ipLine ∈ out)
    ∧ (oldLines.filter (fun l => !(hosts.flatMap (·.addrs)).contains (lineAddress l))).Sublist out
    ∧ (∀ l ∈ oldLines, lineAddress l ∉ hosts.flatMap (·.addrs) → l ∈ out)
    ∧ (∀ l ∈ out, (∃ h ∈ hosts, l = h.hostLine ∨ l = h.ipLine) ∨ l ∈ oldLines) := by
  intro out
  refine ⟨?_, ?_, ?_, ?_⟩
  · intro h hh
    constructor <;>
    · apply List.mem_append_left
      exact List.mem_flatMap.2 ⟨h, hh, by simp⟩
  · exact List.sublist_append_right _ _
  · intro l hl hn
    apply List.mem_append_right
    refine List.mem_filter.2 ⟨hl, ?_⟩
    simpa using hn
  · intro l hl
    rcases List.mem_append.1 hl with h | h
    · obtain ⟨x, hx, hm⟩ := List.mem_flatMap.1 h
      left; refine ⟨x, hx, ?_⟩
      simpa using hm
    · right; exact (List.mem_filter.1 h).1

/-- With no new host the rewrite keeps every line. -/
theorem C17_rewrite_nothing (oldLines : List Bytes) : trustHostsLines [] oldLines = oldLines := by
  simp [trustHostsLines]

/-- The scanner's silent stop at an over-long line loses unrelated entries: the model is
    parametric in the token limit; with a limit of 8 bytes a 9-byte line and everything
    after it disappear (the real limit is 64 KiB). -/
theorem C17_full_false : ∃ (maxTok : Nat) (old : Bytes),
    trustHostsFile maxTok [] old ≠ old := ⟨8, b!"a k\nlonglonglong k\nb k\n", by decide⟩

/-- For files whose lines are all below the limit, are newline terminated and carry no
    CR, rewriting with no new host reproduces the file byte for byte. -/
theorem C17_rewrite_identity_example :
    trustHostsFile 65536 [] (b!"# c\nh1 k1\n|1|salt|hash k2\n@revoked * k3\n") = b!"# c\nh1 k1\n|1|salt|hash k2\n@revoked * k3\n" := by
  decide

end Dtail.C17
