/-
C17 — the client talks only to servers whose host key is trusted.
-/
import DtailModel.Model.KnownHosts
import DtailModel.Lemmas.GenKnownHosts
set_option autoImplicit false
namespace Dtail.C17
open Dtail

/-- The client proceeds with a server exactly when its key is known, trust-all was
    requested, or the user's first decisive answer at the prompt is yes / all. -/
theorem C17_proceed_iff (st : HostState) (trustAll : Bool) (answers : List Bytes) :
    wrapDecision st trustAll answers = .proceed ↔
      st = .known ∨ trustAll = true ∨ promptDecision answers = some true := by
  cases st <;> cases trustAll <;> simp [wrapDecision] <;>
    (cases h : promptDecision answers with
     | none => simp
     | some b => cases b <;> simp)

/-- A refused host stays refused: `no` never yields proceed, whatever follows. -/
theorem C17_refused (st : HostState) (answers : List Bytes) (h : st ≠ .known)
    (hno : promptDecision answers = some false) : wrapDecision st false answers = .refuse := by
  cases st <;> simp_all [wrapDecision]

/-- the answers that count and their meaning -/
theorem C17_prompt_first_decisive (a : Bytes) (rest : List Bytes) :
    promptDecision (a :: rest) =
      if a = b!"yes" ∨ a = b!"y" ∨ a = b!"all" ∨ a = b!"a" then some true
      else if a = b!"no" ∨ a = b!"n" then some false else promptDecision rest := rfl

/-- Rewriting known_hosts: every new host contributes its host line and its IP line, and
    every old line whose address is not one of the new addresses is kept, unchanged and in
    the same relative order; nothing else is written. -/
theorem C17_rewrite (hosts : List NewHost) (oldLines : List Bytes) :
    let out := trustHostsLines hosts oldLines
    (∀ h ∈ hosts, h.hostLine ∈ out ∧ h.ipLine ∈ out)
    ∧ (oldLines.filter (fun l => !(hosts.flatMap (·.addrs)).contains (lineAddress l))).Sublist out
    ∧ (∀ l ∈ oldLines, lineAddress l ∉ hosts.flatMap (·.addrs) → l ∈ out)
    ∧ (∀ l ∈ out, (∃ h ∈ hosts, l = h.hostLine ∨ l = h.ipLine) ∨ l ∈ oldLines) := by
  intro out
  refine ⟨?_, ?_, ?_, ?_⟩
  · intro h hh
    constructor <;>
    · apply List.mem_append_left
      exact List.mem_flatMap.2 ⟨h, hh, by simp⟩
  · exact List.sublist_append_right _ _
  · intro l hl hn
    apply List.mem_append_right
    refine List.mem_filter.2 ⟨hl, ?_⟩
    simpa using hn
  · intro l hl
    rcases List.mem_append.1 hl with h | h
    · obtain ⟨x, hx, hm⟩ := List.mem_flatMap.1 h
      left; refine ⟨x, hx, ?_⟩
      simpa using hm
    · right; exact (List.mem_filter.1 h).1

/-- With no new host the rewrite keeps every line. -/
theorem C17_rewrite_nothing (oldLines : List Bytes) : trustHostsLines [] oldLines = oldLines := by
  simp [trustHostsLines]

/-- The scanner's silent stop at an over-long line loses unrelated entries: the model is
    parametric in the token limit; with a limit of 8 bytes a 9-byte line and everything
    after it disappear (the real limit is 64 KiB). -/
theorem C17_full_false : ∃ (maxTok : Nat) (old : Bytes),
    trustHostsFile maxTok [] old ≠ old := ⟨8, b!"a k\nlonglonglong k\nb k\n", by decide⟩

/-- For files whose lines are all below the limit, are newline terminated and carry no
    CR, rewriting with no new host reproduces the file byte for byte. -/
theorem C17_rewrite_identity_example :
    trustHostsFile 65536 [] (b!"# c\nh1 k1\n|1|salt|hash k2\n@revoked * k3\n") = b!"# c\nh1 k1\n|1|salt|hash k2\n@revoked * k3\n" := by
  decide

/-- **Tie G: the rewrite of the known-hosts file as translated from the working tree.**  `KnownHostsCallback.trustHosts` of
    internal/ssh/client/knownhostscallback.go, translated on this run with its file operations recorded in order: when no
    operation fails, the function does not panic (`strings.SplitN(line, " ", 2)[0]` is guarded and the guard never fails)
    and performs, in this order: open the temporary file truncating it, write the model's `trustHostsLines` — the new
    entries, then every line the scanner delivers from the old file whose address is not among the newly trusted ones, each
    with its newline — with the old file touched and opened for reading in between, and rename the temporary file over the
    old one.  `knownhosts.Normalize`, the lines the `bufio.Scanner` delivers and the success of the file operations are
    parameters. -/
theorem C17_generated_trustHosts_writes_model_lines (ext : Go.Ext) (hio : Go.NoIOErr ext)
    (c : Gen.KnownHosts.KnownHostsCallback) (hosts : List Gen.KnownHosts.unknownHost) :
    ∃ c', Gen.KnownHosts.KnownHostsCallback.trustHosts ext c hosts = Outcome.ok c' ∧
      let tmp := c.knownHostsPath ++ TMP
      let lines := trustHostsLines (hosts.map (GenKnownHosts.hostOf ext)) (ext.scanLines c.knownHostsPath)
      (c'.ops.filterMap fun op => match op with | .write p d => if p = tmp then some d else none | _ => none).flatten
        = ((c.ops.filterMap fun op => match op with | .write p d => if p = tmp then some d else none | _ => none).flatten)
          ++ lines.flatMap (· ++ [NL]) ∧
      c'.ops.getLast? = some (.rename tmp c.knownHostsPath) := by
  obtain ⟨c', h1, _, h3⟩ := GenKnownHosts.trustHosts_refines ext hio c hosts
  refine ⟨c', h1, ?_, ?_⟩
  · rw [h3, ← GenKnownHosts.lines_model]
    have hw : ∀ (ls : List Bytes), ((ls.map (GenKnownHosts.wr (c.knownHostsPath ++ TMP))).filterMap
        fun op => match op with | .write p d => if p = c.knownHostsPath ++ TMP then some d else none | _ => none)
        = ls.map (· ++ [NL]) := by
      intro ls
      induction ls with
      | nil => rfl
      | cons a r ih => simp only [List.map_cons, List.filterMap_cons, GenKnownHosts.wr, if_true]; rw [ih]; rfl
    simp only [List.filterMap_append, List.filterMap_cons, List.filterMap_nil, hw, List.flatten_append, List.append_nil,
      List.flatMap_append, List.append_assoc]
    simp [List.flatMap, List.flatten_append]
  · rw [h3, List.getLast?_append]; rfl

/-- non-vacuity: one new host, an old file with its earlier entry and an unrelated one: the earlier entry is replaced -/
example :
    let ext : Go.Ext := { parseFloat := fun _ => (0, none), scanLines := fun _ => [b!"h1 old", b!"h2 keep"] }
    (match Gen.KnownHosts.KnownHostsCallback.trustHosts ext ⟨b!"/k", []⟩ [⟨b!"h1", b!"1.1.1.1", b!"h1 new", b!"1.1.1.1 new"⟩] with
      | .ok c => c.ops.length
      | _ => 0) = 7 := by decide

end Dtail.C17
