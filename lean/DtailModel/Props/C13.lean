/-
C13 — concurrent file reads never exceed the configured limits.
-/
import DtailModel.Model.Limiter
set_option autoImplicit false
namespace Dtail.C13
open Dtail

theorem holding_set (rs : List Phase) (i : Nat) (old new : Phase) (h : rs[i]? = some old) :
    holding (rs.set i new) + (if old = .holding then 1 else 0)
      = holding rs + (if new = .holding then 1 else 0) := by
  induction rs generalizing i with
  | nil => simp at h
  | cons r rest ih =>
    cases i with
    | zero =>
      simp only [List.getElem?_cons_zero, Option.some.injEq] at h
      subst h
      simp only [List.set_cons_zero, holding, List.filter_cons]
      by_cases h1 : r = .holding <;> by_cases h2 : new = .holding <;> simp [h1, h2] <;> omega
    | succ j =>
      simp only [List.getElem?_cons_succ] at h
      have := ih j h
      simp only [List.set_cons_succ, holding, List.filter_cons] at this ⊢
      by_cases hr : r = .holding <;> simp [hr] <;> omega

/-- the invariant: the channel holds exactly one token per read that is between acquire and
    release, and never more than its capacity -/
def Inv (s : LimState) : Prop := s.tokens = holding s.reads ∧ s.tokens ≤ s.cap

theorem step_inv (s s' : LimState) (l : LimLabel) (h : Inv s) (hs : limStep s l = some s') : Inv s' := by
  obtain ⟨ht, hc⟩ := h
  cases l with
  | tryAcquire i =>
    simp only [limStep] at hs
    split at hs
    · rename_i hcond
      simp only [Option.some.injEq] at hs; subst hs
      have := holding_set s.reads i .start .holding hcond.1
      simp at this
      exact ⟨by simp [setPhase]; omega, by simp; omega⟩
    · simp at hs
  | startWait i =>
    simp only [limStep] at hs
    split at hs
    · rename_i hcond
      simp only [Option.some.injEq] at hs; subst hs
      have := holding_set s.reads i .start .waiting hcond.1
      simp at this
      exact ⟨by simp [setPhase]; omega, hc⟩
    · simp at hs
  | cancelAtStart i =>
    simp only [limStep] at hs
    split at hs
    · rename_i hcond
      simp only [Option.some.injEq] at hs; subst hs
      have := holding_set s.reads i .start .cancelled hcond
      simp at this
      exact ⟨by simp [setPhase]; omega, hc⟩
    · simp at hs
  | acquireAfterWait i =>
    simp only [limStep] at hs
    split at hs
    · rename_i hcond
      simp only [Option.some.injEq] at hs; subst hs
      have := holding_set s.reads i .waiting .holding hcond.1
      simp at this
      exact ⟨by simp [setPhase]; omega, by simp; omega⟩
    · simp at hs
  | cancelWhileWaiting i =>
    simp only [limStep] at hs
    split at hs
    · rename_i hcond
      simp only [Option.some.injEq] at hs; subst hs
      have := holding_set s.reads i .waiting .cancelled hcond
      simp at this
      exact ⟨by simp [setPhase]; omega, hc⟩
    · simp at hs
  | finish i =>
    simp only [limStep] at hs
    split at hs
    · rename_i hcond
      simp only [Option.some.injEq] at hs; subst hs
      have := holding_set s.reads i .holding .finished hcond
      simp at this
      exact ⟨by simp [setPhase]; omega, by simp; omega⟩
    · simp at hs

/-- (after the fix) **For every history** — any number of reads starting, queueing,
    finishing and being cancelled at any point, any capacity — the number of files being read
    equals the number of tokens in the limiter and never exceeds the limit. -/
theorem C13_full_holds (cap n : Nat) (history : List LimLabel) (s : LimState)
    (h : limRun (limInit cap n) history = some s) :
    holding s.reads = s.tokens ∧ holding s.reads ≤ cap := by
  have hinit : Inv (limInit cap n) := by
    refine ⟨?_, by simp [limInit]⟩
    simp only [limInit, holding]
    induction n with
    | zero => rfl
    | succ k ih => simp [List.replicate_succ]
  have hcap : ∀ (hist : List LimLabel) (a b : LimState), limRun a hist = some b → b.cap = a.cap := by
    intro hist
    induction hist with
    | nil => intro a b hr; simp [limRun] at hr; rw [hr]
    | cons l rest ih =>
      intro a b hr
      simp only [limRun] at hr
      cases hstep : limStep a l with
      | none => simp [hstep] at hr
      | some a' =>
        simp only [hstep, Option.bind_some] at hr
        have hc' : a'.cap = a.cap := by
          cases l <;> simp only [limStep] at hstep <;> split at hstep <;>
            first | (simp only [Option.some.injEq] at hstep; subst hstep; rfl) | simp at hstep
        rw [ih a' b hr, hc']
  have hgen : ∀ (hist : List LimLabel) (a b : LimState), Inv a → limRun a hist = some b → Inv b := by
    intro hist
    induction hist with
    | nil => intro a b ha hr; simp [limRun] at hr; rw [← hr]; exact ha
    | cons l rest ih =>
      intro a b ha hr
      simp only [limRun] at hr
      cases hstep : limStep a l with
      | none => simp [hstep] at hr
      | some a' =>
        simp only [hstep, Option.bind_some] at hr
        exact ih a' b (step_inv a a' l ha hstep) hr
  have hi := hgen history _ s hinit h
  have hc := hcap history _ s h
  simp only [limInit] at hc
  exact ⟨hi.1.symm, by rw [← hi.1, ← hc]; exact hi.2⟩

/-- progress: whenever fewer files are being read than the limit allows, a waiting read can
    proceed; and a read that finishes always makes room -/
theorem C13_progress (s : LimState) (i : Nat) (hw : s.reads[i]? = some .waiting) (hfree : s.tokens < s.cap) :
    (limStep s (.acquireAfterWait i)).isSome = true := by
  simp [limStep, hw, hfree]

/-- a cancelled waiter neither keeps a slot nor releases someone else's -/
theorem C13_cancel_neutral (s s' : LimState) (i : Nat) (h : limStep s (.cancelWhileWaiting i) = some s') :
    s'.tokens = s.tokens := by
  simp only [limStep] at h
  split at h
  · simp only [Option.some.injEq] at h; subst h; rfl
  · simp at h

/-- The defect that was repaired, on the old transition function: capacity 1, A holds, B waits
    and is cancelled (its deferred receive takes A's token), C acquires — two files are read
    at once. -/
theorem C13_old_defect :
    ∃ s, ((((((some (limInit 1 3)).bind (limStepOld · (.tryAcquire 0))).bind (limStepOld · (.startWait 1))).bind
      (limStepOld · (.cancelWhileWaiting 1))).bind (limStepOld · (.tryAcquire 2))) = some s)
      ∧ holding s.reads = 2 ∧ s.cap = 1 := by
  refine ⟨_, rfl, ?_, ?_⟩ <;> decide

/-- non-vacuity: the same history on the repaired transition function is blocked at C -/
example : limRun (limInit 1 3) [.tryAcquire 0, .startWait 1, .cancelWhileWaiting 1, .tryAcquire 2] = none := by
  decide

end Dtail.C13
