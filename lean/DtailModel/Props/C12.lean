/-
C12 — the server applies exactly the filter and options the user specified.
-/
import DtailModel.Lemmas.Command
import DtailModel.Lemmas.GenOptions
import DtailModel.Lemmas.OptionOrder
import DtailModel.Lemmas.GenRegex
import DtailModel.Lemmas.GenSerialize
set_option autoImplicit false
namespace Dtail.C12
open Dtail

/-- The regex text survives the server's `strings.Split(cmd, " ")` / `strings.Join(args[2:], " ")`
    whatever spaces (leading, trailing, runs) it contains. -/
theorem C12_space_join (x : Bytes) : joinByte SP (splitOnByte SP x) = x := joinByte_splitOnByte SP x

/-- what the pattern looks like on the wire: the no-op patterns are sent without text -/
def wirePattern (pattern : Bytes) (invert : Bool) : Bytes :=
  if clientFlag pattern invert = .noop then [] else pattern

/-- Serialize / Deserialize of the regex: for every pattern (any bytes) and polarity the
    server reconstructs the same flag and the same pattern bytes. -/
theorem C12_regex_roundtrip (env : Env) (pattern : Bytes) (invert : Bool)
    (hc : env.compiles (wirePattern pattern invert) = true) :
    regexDeserialize env (regexSerialize pattern invert)
      = .ok ⟨wirePattern pattern invert, clientFlag pattern invert⟩ := by
  have hf : clientFlag pattern invert = .default ∨ clientFlag pattern invert = .invert
      ∨ clientFlag pattern invert = .noop := by
    unfold clientFlag; split
    · exact Or.inr (Or.inr rfl)
    · split
      · exact Or.inr (Or.inl rfl)
      · exact Or.inl rfl
  have key : ∀ (f : RFlag) (w : Bytes), (f = .default ∨ f = .invert ∨ f = .noop) →
      env.compiles w = true →
      regexDeserialize env ((b!"regex:" ++ flagName f) ++ SP :: w) = .ok ⟨w, f⟩ := by
    intro f w hf hw
    unfold regexDeserialize
    rcases hf with rfl | rfl | rfl
    all_goals
      rw [splitN2_append_sep SP _ _ (by decide)]
      simp [goIndex, hasPrefix, splitN2, splitN, splitFirst, splitOnByte, flagOfName, flagName, hw,
        Bind.bind, Outcome.bind, Pure.pure, COLON, COMMA]
  have hser : regexSerialize pattern invert
      = (b!"regex:" ++ flagName (clientFlag pattern invert)) ++ SP :: wirePattern pattern invert := by
    simp [regexSerialize, wirePattern]
  rw [hser]
  exact key _ _ hf hc

/-- The no-op classification is harmless: a no-op regex selects every line on both sides. -/
theorem C12_noop_selects_all (e : Bool) : matchFlag .noop e = true := rfl

/-- SerializeOptions / DeserializeOptions: every combination of modes and integer values is
    decoded to the same line context and the same session modes. -/
theorem C12_options_roundtrip (env : Env) (show' : Int → Bytes) (hc : IntCodec show') (r : Req) :
    ∃ o, deserializeOptions env (optionList show' r) [] {} = .ok (o, r.ltx) ∧
      modesOf o = (r.quiet, r.plain, r.serverless) := options_roundtrip env show' hc r

/-- **… in every order.**  `SerializeOptions` ranges over a Go map: the options reach the wire in any order.  For every
    permutation of a request's options the decoder arrives at the same line context and the same session modes
    (`OptionOrder.render` of `OptionOrder.optsOf r` in canonical order is `optionList`: `C12_options_are_the_option_list`). -/
theorem C12_options_any_order (env : Env) (show' : Int → Bytes) (hc : IntCodec show') (r : Req)
    (ys : List OptionOrder.Opt) (hp : ys.Perm (OptionOrder.optsOf r)) :
    ∃ o, deserializeOptions env (ys.map (OptionOrder.render show')) [] {} = .ok (o, r.ltx) ∧
      modesOf o = (r.quiet, r.plain, r.serverless) :=
  OptionOrder.any_order env show' hc r ys hp

theorem C12_options_are_the_option_list (show' : Int → Bytes) (r : Req) :
    (OptionOrder.optsOf r).map (OptionOrder.render show') = optionList show' r := OptionOrder.optsOf_render show' r

/-- not vacuous: a request with four options, decoded from the reversed list -/
example : (OptionOrder.optsOf ⟨b!"grep", true, false, true, ⟨2, 0, 5⟩, b!"f", b!"x", false⟩).reverse.Perm
    (OptionOrder.optsOf ⟨b!"grep", true, false, true, ⟨2, 0, 5⟩, b!"f", b!"x", false⟩) := List.reverse_perm _

/-- The whole request: what the client encodes (`makeCommands`, `SendMessage`) the server
    decodes (`handleCommand`, `readCommand.Start`) to the same command name, file, line
    context, session modes, regex flag and pattern bytes — for every regex (any bytes),
    every option combination and integer value.  (Options in the canonical order here; every other order decodes alike: `C12_options_any_order`.) -/
theorem C12_roundtrip (env : Env) (b64enc : Bytes → Bytes) (show' : Int → Bytes)
    (hc : IntCodec show') (r : Req)
    (hb64 : ∀ s, env.b64dec (b64enc s) = some s) (hb64sp : ∀ s, SP ∉ b64enc s)
    (hmode : SP ∉ r.mode ∧ COLON ∉ r.mode) (hfile : SP ∉ r.file)
    (hopts : ∀ o ∈ optionList show' r, SP ∉ o ∧ COLON ∉ o)
    (hcomp : env.compiles (wirePattern r.pattern r.invert) = true) :
    ∃ d, decodeCommand env (b!"protocol " ++ Facts.protocolCompatBytes ++ b!" base64 "
            ++ b64enc (makeCommand r (optionList show' r))) = .ok d
      ∧ d.name = r.mode ∧ d.ltx = r.ltx ∧ d.args[1]? = some r.file ∧ d.argc ≥ 4
      ∧ regexDeserialize env (joinByte SP (d.args.drop 2))
          = .ok ⟨wirePattern r.pattern r.invert, clientFlag r.pattern r.invert⟩
      ∧ (match d.options with
         | some o => modesOf o = (r.quiet, r.plain, r.serverless)
         | none => (r.quiet, r.plain, r.serverless) = (false, false, false)) := by
  -- the envelope
  have henv : splitOnByte SP (b!"protocol " ++ Facts.protocolCompatBytes ++ b!" base64 "
      ++ b64enc (makeCommand r (optionList show' r)))
      = [b!"protocol", Facts.protocolCompatBytes, b!"base64", b64enc (makeCommand r (optionList show' r))] := by
    have e : b!"protocol " ++ Facts.protocolCompatBytes ++ b!" base64 " ++ b64enc (makeCommand r (optionList show' r))
        = b!"protocol" ++ SP :: (Facts.protocolCompatBytes ++ SP :: (b!"base64" ++ SP :: b64enc (makeCommand r (optionList show' r)))) := by
      simp [SP, Facts.protocolCompatBytes]
    rw [e, splitOnByte_append_sep SP _ _ (by decide), splitOnByte_append_sep SP _ _ (by decide),
      splitOnByte_append_sep SP _ _ (by decide), splitOnByte_nosep SP _ (hb64sp _)]
  -- the decoded command
  have hregsp := C12_space_join (regexSerialize r.pattern r.invert)
  have hhead : SP ∉ r.mode ++ COLON :: joinByte COLON (optionList show' r) := by
    apply not_mem_append hmode.1
    intro hm
    rcases List.mem_cons.1 hm with e | hm
    · exact absurd e (by decide)
    · exact not_mem_joinByte SP COLON _ (by decide) (fun y hy => (hopts y hy).1) hm
  have hdec : splitOnByte SP (makeCommand r (optionList show' r))
      = (r.mode ++ COLON :: joinByte COLON (optionList show' r)) :: r.file
          :: splitOnByte SP (regexSerialize r.pattern r.invert) := by
    have e : makeCommand r (optionList show' r)
        = (r.mode ++ COLON :: joinByte COLON (optionList show' r)) ++ SP :: (r.file ++ SP :: regexSerialize r.pattern r.invert) := by
      simp [makeCommand]
    rw [e, splitOnByte_append_sep SP _ _ hhead, splitOnByte_append_sep SP _ _ hfile]
  have hregparts : (splitOnByte SP (regexSerialize r.pattern r.invert)).length ≥ 2 := by
    have : regexSerialize r.pattern r.invert
        = (b!"regex:" ++ flagName (clientFlag r.pattern r.invert)) ++ SP :: wirePattern r.pattern r.invert := by
      simp [regexSerialize, wirePattern]
    rw [this, splitOnByte_append_sep SP _ _ (by
      have hf : clientFlag r.pattern r.invert = .default ∨ clientFlag r.pattern r.invert = .invert
          ∨ clientFlag r.pattern r.invert = .noop := by
        unfold clientFlag; split
        · exact Or.inr (Or.inr rfl)
        · split
          · exact Or.inr (Or.inl rfl)
          · exact Or.inl rfl
      rcases hf with h | h | h <;> rw [h] <;> decide)]
    have := splitOnByte_ne_nil SP (wirePattern r.pattern r.invert)
    cases hsp : splitOnByte SP (wirePattern r.pattern r.invert) with
    | nil => exact absurd hsp this
    | cons _ _ => simp
  have hparts : splitOnByte COLON (r.mode ++ COLON :: joinByte COLON (optionList show' r))
      = r.mode :: splitOnByte COLON (joinByte COLON (optionList show' r)) :=
    splitOnByte_append_sep COLON _ _ hmode.2
  have hregex := C12_regex_roundtrip env r.pattern r.invert hcomp
  -- envelope
  have h1 : decodeCommand env (b!"protocol " ++ Facts.protocolCompatBytes ++ b!" base64 "
      ++ b64enc (makeCommand r (optionList show' r)))
      = decodeInner env (makeCommand r (optionList show' r)) := by
    unfold decodeCommand
    rw [henv]
    simp [decodeEnvelope, goIndex, goSliceFrom, hb64, Bind.bind, Outcome.bind]
  rw [h1]
  unfold decodeInner
  rw [hdec]
  have h2 : decodeArgs env ((r.mode ++ COLON :: joinByte COLON (optionList show' r)) :: r.file
          :: splitOnByte SP (regexSerialize r.pattern r.invert))
      = decodeParts env ((r.mode ++ COLON :: joinByte COLON (optionList show' r)) :: r.file
          :: splitOnByte SP (regexSerialize r.pattern r.invert))
          (r.mode :: splitOnByte COLON (joinByte COLON (optionList show' r))) := by
    simp [decodeArgs, goIndex, hparts, Bind.bind, Outcome.bind]
  rw [h2]
  obtain ⟨args, hargs⟩ : ∃ a, a = (r.mode ++ COLON :: joinByte COLON (optionList show' r)) :: r.file
          :: splitOnByte SP (regexSerialize r.pattern r.invert) := ⟨_, rfl⟩
  rw [← hargs]
  have hargs1 : args[1]? = some r.file := by rw [hargs]; rfl
  have hargc : args.length ≥ 4 := by rw [hargs]; simp only [List.length_cons]; omega
  have hdrop : regexDeserialize env (joinByte SP (args.drop 2))
      = .ok ⟨wirePattern r.pattern r.invert, clientFlag r.pattern r.invert⟩ := by
    rw [hargs]; simpa [hregsp] using hregex
  by_cases hnil : optionList show' r = []
  · -- no option at all: "mode: file regex"
    have hq : r.quiet = false ∧ r.plain = false ∧ r.serverless = false ∧ r.ltx = {} := by
      have := hnil
      unfold optionList at this
      cases hl : r.ltx with
      | mk b a m =>
        cases hq : r.quiet <;> cases hp : r.plain <;> cases hs : r.serverless <;>
          simp_all
    have hd : decodeParts env args (r.mode :: splitOnByte COLON (joinByte COLON (optionList show' r)))
        = .ok { name := r.mode, argc := args.length, args := args } := by
      simp [decodeParts, hnil, joinByte, splitOnByte, goIndex, Bind.bind, Outcome.bind, Pure.pure]
    refine ⟨_, hd, rfl, hq.2.2.2.symm, hargs1, hargc, hdrop, ?_⟩
    simp [hq.1, hq.2.1, hq.2.2.1]
  · obtain ⟨o, ho, hm⟩ := options_roundtrip env show' hc r
    have hsj := splitOnByte_joinByte COLON (optionList show' r) hnil (fun y hy => (hopts y hy).2)
    rw [hsj]
    have hne : ∀ o1 orest, optionList show' r = o1 :: orest → o1.length ≠ 0 := by
      intro o1 orest hl h0
      have hmem : o1 ∈ optionList show' r := by rw [hl]; simp
      have : o1 = [] := List.eq_nil_of_length_eq_zero h0
      subst this
      unfold optionList at hmem
      simp at hmem
    have hd : decodeParts env args (r.mode :: optionList show' r)
        = .ok { name := r.mode, argc := args.length, args := args, ltx := r.ltx, options := some o } := by
      cases hl : optionList show' r with
      | nil => exact absurd hl hnil
      | cons o1 orest =>
        rw [hl] at ho
        simp [decodeParts, goIndex, goSliceFrom, hne o1 orest hl, ho, Bind.bind, Outcome.bind, Pure.pure]
    exact ⟨_, hd, rfl, rfl, hargs1, hargc, hdrop, hm⟩

/-- non-vacuity: a pattern full of separators -/
example : regexDeserialize ⟨fun _ => none, fun _ => true, fun _ => none, []⟩
    (regexSerialize (b!" a  b:c;d,e%f=g ") true) = .ok ⟨b!" a  b:c;d,e%f=g ", .invert⟩ := by decide

/-! ### Tie G: internal/regex as translated from the working tree on this run -/

/-- **`Regex.Match` is the first flag applied to the answer of the regexp engine** — for every regex value, every
    line, every engine.  (A "fast path" that answers some expressions without the engine, a cache that shares flag
    slices between values, a flag list consulted at another position: each changes the translated function and
    this statement no longer proves.) -/
theorem C12_generated_match (ext : Go.Ext) (r : Gen.Regex.Regex) (line : Go.GoString) :
    Gen.Regex.Regex.Match ext r line = GenRegex.flagBit (Go.GoIndex.idx r.flags 0) (ext.reMatchRaw r.re line) :=
  GenRegex.Match_spec ext r line

/-- … and that reading of a flag is the model's `matchFlag` (C03) under the source's iota numbering -/
theorem C12_generated_flag_is_model_flag (engine : Bool) :
    GenRegex.flagBit Gen.Regex.Default engine = matchFlag .default engine ∧
    GenRegex.flagBit Gen.Regex.Invert engine = matchFlag .invert engine ∧
    GenRegex.flagBit Gen.Regex.Noop engine = matchFlag .noop engine ∧
    GenRegex.flagBit Gen.Regex.Undefined engine = matchFlag .undefined engine := by
  cases engine <;> decide

/-- **The regex round trip on the translated code.**  For every expression (any bytes: blanks, ':', ';', ',',
    '%', '=', non-ASCII) the regexp compiler accepts and either polarity: the filter the server rebuilds
    (`Deserialize ∘ Serialize ∘ New`) selects exactly the lines the client's filter selects, for every line and
    every regexp engine; no step reports an error.  The regexp compiler and engine are parameters. -/
theorem C12_generated_regex_roundtrip (ext : Go.Ext) (p : Go.GoString) (c : Gen.Regex.Flag)
    (hc : c = Gen.Regex.Default ∨ c = Gen.Regex.Invert)
    (hcomp : (ext.reCompile p).2 = none) (hempty : (ext.reCompile []).2 = none) (line : Go.GoString) :
    let cl := Gen.Regex.New ext p c
    let wire := Gen.Regex.Regex.Serialize ext cl.1
    let sv := Gen.Regex.Deserialize ext wire.1
    cl.2 = none ∧ wire.2 = none ∧ sv.2 = none ∧
      Gen.Regex.Regex.Match ext sv.1 line = Gen.Regex.Regex.Match ext cl.1 line :=
  GenRegex.roundtrip ext p c hc hcomp hempty line

/-- what is on the wire is the model's `regexSerialize` (the hand-written encoder of `C12_roundtrip`) -/
theorem C12_generated_wire_is_model_wire (ext : Go.Ext) (p : Go.GoString) (invert : Bool)
    (hcomp : (ext.reCompile p).2 = none) :
    (Gen.Regex.Regex.Serialize ext (Gen.Regex.New ext p (if invert then Gen.Regex.Invert else Gen.Regex.Default)).1).1
      = regexSerialize p invert := by
  rw [GenRegex.New_spec ext p _ hcomp]
  by_cases hn : p = [] ∨ p = [46] ∨ p = [46, 42]
  · rw [if_pos hn, GenRegex.Serialize_spec ext _ rfl]
    have hflags : (Gen.Regex.NewNoop ext).flags = [Gen.Regex.Noop] := rfl
    have hstr : (Gen.Regex.NewNoop ext).regexStr = [] := rfl
    simp only [hflags, hstr]
    rcases hn with rfl | rfl | rfl <;> cases invert <;> decide
  · rw [if_neg hn, GenRegex.Serialize_spec ext _ rfl]
    have hmem : ¬ (p ∈ Facts.noopPatternsBytes) := by
      simp only [not_or] at hn
      simp [Facts.noopPatternsBytes, hn.1, hn.2.1, hn.2.2]
    have hcf : clientFlag p invert = if invert then .invert else .default := by
      unfold clientFlag
      simp [hmem]
    unfold regexSerialize
    rw [hcf]
    cases invert
    · have : GenRegex.flagName Gen.Regex.Default = b!"default" := by decide
      simp [this, flagName, joinByte, SP]
    · have : GenRegex.flagName Gen.Regex.Invert = b!"invert" := by decide
      simp [this, flagName, joinByte, SP]

/-! ### Tie G: `config.DeserializeOptions` as translated from the working tree on this run -/

/-- **the option decoder of the working tree is the model's decoder**: the same line context, an option map with the
    same lookups, an error exactly where the model has one — for every option list and every behaviour of
    `base64.DecodeString` and `strconv.Atoi` (`ExtIs`: the translated code's external functions are the model's oracles) -/
theorem C12_generated_option_decoder_refines_model (ext : Go.Ext) (env : Env) (he : GenOptions.ExtIs ext env) (opts : List Bytes) :
    GenOptions.Matches (deserializeOptions env opts [] {}) (Gen.Config.DeserializeOptions ext opts) :=
  GenOptions.DeserializeOptions_refines ext env he opts

/-- **… and it decodes every order of a request's options to the request** (`C12_options_any_order` carried over to the
    translated code) -/
theorem C12_generated_options_any_order (ext : Go.Ext) (env : Env) (he : GenOptions.ExtIs ext env) (show' : Int → Bytes)
    (hc : IntCodec show') (r : Req) (ys : List OptionOrder.Opt) (hp : ys.Perm (OptionOrder.optsOf r)) :
    ∃ m gl, Gen.Config.DeserializeOptions ext (ys.map (OptionOrder.render show')) = Outcome.ok (m, gl, none) ∧
      GenOptions.ltxOf gl = r.ltx ∧ GenOptions.modesOfMap m = (r.quiet, r.plain, r.serverless) :=
  GenOptions.generated_any_order ext env he show' hc r ys hp

/-! ### Tie G: the client's `Args.SerializeOptions` as translated from the working tree on this run -/

/-- **The options a client serialises are the options the server decodes — both ends as translated from the working tree.**
    `Args.SerializeOptions` (internal/config/args.go) collects the options in a Go map and ranges over it; assuming only that
    the iteration visits a permutation of the entries, the serialised text is the ':'-join of the request's rendered options
    in some order `ys`, and the translated `DeserializeOptions` decodes exactly that list to the request's line context and
    session modes — for every option combination, every integer value, every iteration order, every behaviour of
    `base64` / `strconv.Atoi` that the codec hypothesis allows. -/
theorem C12_generated_client_options_reach_server (ext : Go.Ext) (env : Env) (he : GenOptions.ExtIs ext env)
    (hc : IntCodec ext.fmtInt) (hperm : ∀ l, (ext.mapOrder l).Perm l) (a : Gen.ClientArgs.Args) :
    ∃ ys : List OptionOrder.Opt, ys.Perm (OptionOrder.optsOf (GenSerialize.reqOf a)) ∧
      (Gen.ClientArgs.Args.SerializeOptions ext a).2 = joinByte COLON (ys.map (OptionOrder.render ext.fmtInt)) ∧
      ∃ m gl, Gen.Config.DeserializeOptions ext (ys.map (OptionOrder.render ext.fmtInt)) = Outcome.ok (m, gl, none) ∧
        GenOptions.ltxOf gl = (GenSerialize.reqOf a).ltx ∧
        GenOptions.modesOfMap m = (a.Quiet, a.Plain, a.Serverless) := by
  obtain ⟨ys, hys, hs⟩ := GenSerialize.SerializeOptions_spec ext hperm a
  obtain ⟨m, gl, hd, hl, hm⟩ := GenOptions.generated_any_order ext env he ext.fmtInt hc (GenSerialize.reqOf a) ys hys
  exact ⟨ys, hys, by rw [hs], m, gl, hd, hl, hm⟩

/-- **… on the bytes of the wire.**  The server cuts the option text at ':' (`strings.Split(args[0], ":")[1:]`).  When the
    request has at least one option and `fmt.Sprintf("%d", n)` never prints a ':' (it prints digits and a sign), cutting the
    text the translated client wrote gives back exactly the rendered options, so the translated decoder applied to the cut
    text arrives at the request. -/
theorem C12_generated_client_options_on_the_wire (ext : Go.Ext) (env : Env) (he : GenOptions.ExtIs ext env)
    (hc : IntCodec ext.fmtInt) (hperm : ∀ l, (ext.mapOrder l).Perm l) (hnocolon : ∀ n, COLON ∉ ext.fmtInt n)
    (a : Gen.ClientArgs.Args) (hne : OptionOrder.optsOf (GenSerialize.reqOf a) ≠ []) :
    ∃ m gl, Gen.Config.DeserializeOptions ext (splitOnByte COLON (Gen.ClientArgs.Args.SerializeOptions ext a).2)
        = Outcome.ok (m, gl, none) ∧
      GenOptions.ltxOf gl = (GenSerialize.reqOf a).ltx ∧
      GenOptions.modesOfMap m = (a.Quiet, a.Plain, a.Serverless) := by
  obtain ⟨ys, hys, hs, m, gl, hd, hl, hm⟩ := C12_generated_client_options_reach_server ext env he hc hperm a
  refine ⟨m, gl, ?_, hl, hm⟩
  have hyne : ys.map (OptionOrder.render ext.fmtInt) ≠ [] := by
    intro h
    have : ys = [] := by simpa using h
    rw [this] at hys
    exact hne (List.Perm.eq_nil hys.symm)
  have hfree : ∀ x ∈ ys.map (OptionOrder.render ext.fmtInt), COLON ∉ x := by
    intro x hx
    obtain ⟨o, _, rfl⟩ := List.mem_map.1 hx
    cases o with
    | quiet => show COLON ∉ b!"quiet=true"; decide
    | plain => show COLON ∉ b!"plain=true"; decide
    | serverless => show COLON ∉ b!"serverless=true"; decide
    | max n =>
      show COLON ∉ b!"max=" ++ ext.fmtInt n
      rw [List.mem_append]; intro h; rcases h with h | h
      · revert h; decide
      · exact hnocolon n h
    | before n =>
      show COLON ∉ b!"before=" ++ ext.fmtInt n
      rw [List.mem_append]; intro h; rcases h with h | h
      · revert h; decide
      · exact hnocolon n h
    | after n =>
      show COLON ∉ b!"after=" ++ ext.fmtInt n
      rw [List.mem_append]; intro h; rcases h with h | h
      · revert h; decide
      · exact hnocolon n h
  rw [hs, splitOnByte_joinByte COLON _ hyne hfree]
  exact hd

/-- non-vacuity: quiet, max 5 and before 2, the map visited backwards -/
example :
    let ext : Go.Ext := { parseFloat := fun _ => (0, none), mapOrder := List.reverse, fmtInt := fun n => if n = 5 then b!"5" else b!"2" }
    (Gen.ClientArgs.Args.SerializeOptions ext { LContext := ⟨0, 2, 5⟩, Quiet := true }).2 = b!"before=2:max=5:quiet=true" := by
  decide

end Dtail.C12
