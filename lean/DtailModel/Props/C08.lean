/-
C08 — users read only files their permission rules allow.
-/
import DtailModel.Model.Perm
import DtailModel.Lemmas.GenPerm
set_option autoImplicit false
namespace Dtail.C08
open Dtail

/-- The documented meaning of a rule list on a resolved path: all applicable rules must
    compile, and the last one that matches must be an allow rule (no match: deny). -/
def specAllowed (m : MatchOracle) (path : Bytes) (rules : List Rule) : Bool :=
  rules.all (fun r => (m r.regex path).isSome) &&
  ((rules.filter (fun r => m r.regex path = some true)).getLast?.map (fun r => !r.deny) = some true)

theorem iterateRules_all_type (m : MatchOracle) (path : Bytes) (rules : List Rule) (has : Bool)
    (ht : ∀ r ∈ rules, r.type = READFILES) (hc : rules.all (fun r => (m r.regex path).isSome) = true) :
    iterateRules m READFILES path rules has =
      match (rules.filter (fun r => m r.regex path = some true)).getLast? with
      | none => has
      | some r => !r.deny := by
  induction rules generalizing has with
  | nil => simp [iterateRules]
  | cons r rest ih =>
    have ht' : ∀ x ∈ rest, x.type = READFILES := fun x hx => ht x (List.mem_cons_of_mem _ hx)
    have hr : r.type = READFILES := ht r (by simp)
    simp only [List.all_cons, Bool.and_eq_true] at hc
    obtain ⟨hcr, hcrest⟩ := hc
    simp only [iterateRules, hr, ne_eq, not_true_eq_false, if_false]
    cases hm : m r.regex path with
    | none => simp [hm] at hcr
    | some b =>
      cases b with
      | true =>
        simp only [List.filter_cons, hm, decide_true, if_true]
        rw [ih (!r.deny) ht' hcrest]
        cases hl : (rest.filter (fun r => m r.regex path = some true)).getLast? with
        | none =>
          have : rest.filter (fun r => m r.regex path = some true) = [] := List.getLast?_eq_none_iff.1 hl
          simp [this]
        | some x =>
          have hne : rest.filter (fun r => m r.regex path = some true) ≠ [] := by
            intro h0; rw [h0] at hl; simp at hl
          rw [List.getLast?_cons_of_ne_nil hne] at *
          simp [hl]
      | false =>
        have : ¬ (some false = some true) := by simp
        simp only [List.filter_cons, hm, this, decide_false]
        exact ih has ht' hcrest

theorem iterateRules_compile_error (m : MatchOracle) (path : Bytes) (rules : List Rule) (has : Bool)
    (ht : ∀ r ∈ rules, r.type = READFILES) (hc : rules.all (fun r => (m r.regex path).isSome) = false) :
    iterateRules m READFILES path rules has = false := by
  induction rules generalizing has with
  | nil => simp at hc
  | cons r rest ih =>
    have ht' : ∀ x ∈ rest, x.type = READFILES := fun x hx => ht x (List.mem_cons_of_mem _ hx)
    have hr : r.type = READFILES := ht r (by simp)
    simp only [iterateRules, hr, ne_eq, not_true_eq_false, if_false]
    cases hm : m r.regex path with
    | none => rfl
    | some b =>
      have hrest : rest.all (fun r => (m r.regex path).isSome) = false := by
        simpa [List.all_cons, hm] using hc
      cases b <;> exact ih _ ht' hrest

theorem parseRule_type (p : Bytes) : (parseRule p).type = READFILES := by
  unfold parseRule; split <;> rfl

/-- (after the fix) For every rule list — prefixed or bare, allow or deny, patterns that
    contain ':' included — every user, every path and every file system and regexp oracle:
    a file is served exactly when the user is a background-job user, or the path resolves,
    is a regular file and the last matching rule is an allow rule. -/
theorem C08_full_holds (fs : FsOracle) (m : MatchOracle) (user : Bytes) (perms : List Bytes) (path : Bytes) :
    hasFilePermission fs m user perms path = true ↔
      (user = Facts.scheduleUserBytes ∨ user = Facts.continuousUserBytes) ∨
      ∃ clean, fs.resolve path = some clean ∧ fs.osReadable clean = true ∧ fs.regular clean = true
        ∧ specAllowed m clean (perms.map parseRule) = true := by
  unfold hasFilePermission
  by_cases hu : user = Facts.scheduleUserBytes ∨ user = Facts.continuousUserBytes
  · simp [hu]
  · simp only [hu, if_false, false_or]
    cases hres : fs.resolve path with
    | none => simp
    | some clean =>
      have ht : ∀ r ∈ perms.map parseRule, r.type = READFILES := by
        intro r hr; obtain ⟨p, _, rfl⟩ := List.mem_map.1 hr; exact parseRule_type p
      simp only [Option.some.injEq, exists_eq_left']
      by_cases h1 : fs.osReadable clean = true
      · by_cases h2 : fs.regular clean = true
        · simp only [h1, h2, Bool.not_true, Bool.false_eq_true, if_false, true_and]
          unfold specAllowed
          cases hc : (perms.map parseRule).all (fun r => (m r.regex clean).isSome) with
          | true =>
            rw [iterateRules_all_type m clean _ false ht hc]
            cases (List.filter (fun r => m r.regex clean = some true) (perms.map parseRule)).getLast? <;> simp
          | false =>
            rw [iterateRules_compile_error m clean _ false ht hc]; simp
        · simp [h1, h2]
      · simp [h1]

/-- How rules are read: the prefix and the negation mark, for any pattern text. -/
theorem C08_rule_syntax (re : Bytes) (hbang : re.head? ≠ some BANG) :
    parseRule (b!"readfiles:" ++ re) = ⟨READFILES, false, re⟩ ∧
    parseRule (b!"readfiles:!" ++ re) = ⟨READFILES, true, re⟩ ∧
    (hasPrefix (b!"readfiles:") re = false → parseRule re = ⟨READFILES, false, re⟩) ∧
    (hasPrefix (b!"readfiles:") (BANG :: re) = false → parseRule (BANG :: re) = ⟨READFILES, true, re⟩) := by
  have hb1 : ruleBody (b!"readfiles:" ++ re) = re := by
    simp [ruleBody, hasPrefix, READFILES, COLON, List.isPrefixOf]
  have hb2 : ruleBody (b!"readfiles:!" ++ re) = BANG :: re := by
    simp [ruleBody, hasPrefix, READFILES, COLON, BANG, List.isPrefixOf]
  refine ⟨?_, ?_, ?_, ?_⟩
  · unfold parseRule; rw [hb1]; simp [hbang]
  · unfold parseRule; rw [hb2]; simp
  · intro h
    have : ruleBody re = re := by
      unfold ruleBody
      have : hasPrefix (READFILES ++ [COLON]) re = false := by simpa [READFILES, COLON] using h
      simp [this]
    simp [parseRule, this, hbang]
  · intro h
    have : ruleBody (BANG :: re) = BANG :: re := by
      unfold ruleBody
      have : hasPrefix (READFILES ++ [COLON]) (BANG :: re) = false := by simpa [READFILES, COLON] using h
      simp [this]
    simp [parseRule, this]

/-- the rule that used to be skipped: a bare deny pattern with a POSIX class -/
theorem C08_posix_class_rule :
    parseRule (b!"!^/secret/[[:alpha:]]+$") = ⟨READFILES, true, b!"^/secret/[[:alpha:]]+$"⟩ := by decide

/-- default deny: no rule, nothing served -/
theorem C08_default_deny (fs : FsOracle) (m : MatchOracle) (path : Bytes) :
    hasFilePermission fs m (b!"paul") [] path = false := by
  unfold hasFilePermission
  have : ¬ (b!"paul" = Facts.scheduleUserBytes ∨ b!"paul" = Facts.continuousUserBytes) := by decide
  simp only [this, if_false]
  cases fs.resolve path <;> simp [iterateRules]

/-! ### Tie G: internal/user/server/user.go as translated from the working tree on this run -/

open Dtail.Go Dtail.Gen.User in
/-- `splitPermission` and `User.iteratePaths` of the working tree are the model's `ruleBody` and `iterateRules`
    over `parseRule` (the regexp engine behind `regexp.Compile` / `MatchString` is the parameter `ext`); a compile
    error comes with the verdict `false` -/
theorem C08_generated_rules_refine_model (ext : Ext) (u : User) (path ty p : Bytes) :
    splitPermission ext p = (READFILES, ruleBody p) ∧
    (User.iteratePaths ext u path ty).2.1 = iterateRules (GenPerm.oracleOf ext) ty path (u.permissions.map parseRule) false ∧
    ((User.iteratePaths ext u path ty).2.2 ≠ none → (User.iteratePaths ext u path ty).2.1 = false) :=
  ⟨GenPerm.splitPermission_spec ext p, GenPerm.iteratePaths_refines ext u path ty, GenPerm.iteratePaths_error_denies ext u path ty⟩

open Dtail.Go Dtail.Gen.User in
/-- **the rule evaluation of the working tree is the documented meaning of a rule list**: for every rule list —
    prefixed or bare, allow or deny — and every resolved path, the translated `iteratePaths` says yes exactly when
    every rule compiles and the last rule that matches is an allow rule -/
theorem C08_generated_iteratePaths_is_spec (ext : Ext) (u : User) (clean : Bytes) :
    (User.iteratePaths ext u clean READFILES).2.1 = specAllowed (GenPerm.oracleOf ext) clean (u.permissions.map parseRule) := by
  rw [GenPerm.iteratePaths_refines]
  have ht : ∀ r ∈ u.permissions.map parseRule, r.type = READFILES := by
    intro r hr; obtain ⟨p, _, rfl⟩ := List.mem_map.1 hr; exact parseRule_type p
  unfold specAllowed
  cases hc : (u.permissions.map parseRule).all (fun r => (GenPerm.oracleOf ext r.regex clean).isSome) with
  | true =>
    rw [iterateRules_all_type _ clean _ false ht hc]
    cases (List.filter (fun r => GenPerm.oracleOf ext r.regex clean = some true) (u.permissions.map parseRule)).getLast? <;> simp
  | false =>
    rw [iterateRules_compile_error _ clean _ false ht hc]; simp

open Dtail.Go Dtail.Gen.User in
/-- the statement is not empty: an allow rule, then a catch-all deny (what a revoked user has) -/
example :
    let ext : Ext := { parseFloat := fun _ => (0, none), reMatchRaw := fun re s => re.src == b!".*" || (re.src == b!"^/var/log/" && hasPrefix (b!"/var/log/") s) }
    (User.iteratePaths ext { permissions := [b!"^/var/log/", b!"!.*"] } (b!"/var/log/app.log") READFILES).2.1 = false ∧
    (User.iteratePaths ext { permissions := [b!"!.*", b!"readfiles:^/var/log/"] } (b!"/var/log/app.log") READFILES).2.1 = true := by decide

open Dtail.Go Dtail.Gen.User in
/-- **Tie G: the whole permission decision as translated from the working tree.**  `User.HasFilePermission` and
    `hasFilePermission` of internal/user/server/user.go (with `iteratePaths` and `splitPermission`), translated on this
    run; `filepath.EvalSymlinks`, `filepath.Abs`, `permissions.ToRead`, `os.Lstat` and the regexp engine are parameters.
    For every user, rule list and path and every answer of those: the file is served exactly when the user is a
    background-job user, or the path resolves, is readable and a regular file and every rule compiles and the last rule that
    matches the resolved path is an allow rule. -/
theorem C08_generated_decision_is_spec (ext : Ext) (u : User) (path : Bytes) :
    (User.HasFilePermission ext u path READFILES).2 = true ↔
      (u.Name = Facts.scheduleUserBytes ∨ u.Name = Facts.continuousUserBytes) ∨
      ∃ clean, (GenPerm.fsOf ext u.Name).resolve path = some clean ∧ (GenPerm.fsOf ext u.Name).osReadable clean = true ∧
        (GenPerm.fsOf ext u.Name).regular clean = true ∧
        specAllowed (GenPerm.oracleOf ext) clean (u.permissions.map parseRule) = true := by
  rw [GenPerm.HasFilePermission_refines]
  exact C08_full_holds _ _ _ _ _

open Dtail.Go Dtail.Gen.User in
/-- non-vacuity: an ordinary user, an allow rule that matches, a regular file — served; the same behind a failing
    `EvalSymlinks` — not served -/
example :
    let ext : Ext := { parseFloat := fun _ => (0, none), reMatchRaw := fun _ _ => true }
    let ext2 : Ext := { ext with evalSymlinks := fun p => (p, some []) }
    (User.HasFilePermission ext { Name := b!"paul", permissions := [b!"^/var/log/"] } (b!"/var/log/x") READFILES).2 = true ∧
    (User.HasFilePermission ext2 { Name := b!"paul", permissions := [b!"^/var/log/"] } (b!"/var/log/x") READFILES).2 = false := by
  decide

end Dtail.C08
