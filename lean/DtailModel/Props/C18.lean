/-
C18 — server discovery yields each wanted server exactly once.
-/
import DtailModel.Lemmas.Discovery
import DtailModel.Lemmas.GenDiscovery
set_option autoImplicit false
namespace Dtail.C18
open Dtail
variable {α : Type} [DecidableEq α]

/-- For every list of entries, every filter and every sequence of random indices that
    `Intn(len)` can deliver, the contacted servers are a permutation of the distinct wanted
    entries: each once, none invented, none lost. -/
theorem C18_full_holds (entries : List α) (filter : Option (α → Bool)) (rs : List Nat)
    (h : validIdx (dedup [] (wanted entries filter)).length rs = true) :
    ∃ out, serverList entries filter rs = some out
      ∧ out.Perm (dedup [] (wanted entries filter))
      ∧ out.Nodup
      ∧ ∀ x, x ∈ out ↔ x ∈ wanted entries filter := by
  obtain ⟨out, ho, hp⟩ := shuffle_perm (dedup [] (wanted entries filter)) rs h
  refine ⟨out, ?_, hp, ?_, ?_⟩
  · exact ho
  · exact hp.nodup_iff.2 (nodup_dedup _ _)
  · intro x; rw [hp.mem_iff, mem_dedup]; simp

omit [DecidableEq α] in
/-- the shuffle alone never loses, invents or repeats an element -/
theorem C18_shuffle_perm (l : List α) (rs : List Nat) (h : validIdx l.length rs = true) :
    ∃ out, shuffle l rs = some out ∧ out.Perm l := shuffle_perm l rs h

/-- dedup keeps exactly the distinct entries, in order of first occurrence -/
theorem C18_dedup (l : List α) :
    (dedup [] l).Nodup ∧ (∀ x, x ∈ dedup [] l ↔ x ∈ l) ∧ (dedup [] l).Sublist l :=
  ⟨nodup_dedup _ _, fun x => by rw [mem_dedup]; simp, dedup_sublist _ _⟩

/-- non-vacuity: a list with duplicates and valid indices -/
example : validIdx (dedup [] [3, 1, 3, 2, 1]).length [2, 0, 0] = true ∧
    serverList [3, 1, 3, 2, 1] (some (fun x => x != 1)) [1, 0] = some [2, 3] := by decide

/-! ### Tie G: internal/discovery/discovery.go as translated from the working tree on this run -/

open Dtail.Go Dtail.Gen.Discovery in
/-- `filterList`, `dedupList` and `shuffleList` of the working tree are the model's filter, `dedup` and
    `shuffle` (the random source is the list of numbers its `Intn` calls return) -/
theorem C18_generated_steps_refine_model (ext : Ext) (d : Discovery) (servers : List Bytes) :
    Discovery.filterList ext d servers = (d, servers.filter (ext.reMatchRaw d.regex)) ∧
    Discovery.dedupList ext d servers = (d, dedup [] servers) ∧
    (∀ (rs : List Nat) (out : List Bytes), ext.randNew = ⟨rs.map fun (n : Nat) => (n : Int)⟩ →
      validIdx servers.length rs = true → shuffle servers rs = some out → Discovery.shuffleList ext d servers = (d, out)) :=
  ⟨GenDiscovery.filterList_refines ext d servers, GenDiscovery.dedupList_refines ext d servers,
   fun rs out hr hv hs => GenDiscovery.shuffleList_refines ext d servers rs out hr hv hs⟩

open Dtail.Go Dtail.Gen.Discovery in
/-- **`Discovery.ServerList()` as translated from the working tree contacts each wanted server exactly once**:
    for every list the source module delivers, every filter expression, and every sequence of numbers
    `Intn(len)` can return while the list shrinks, the result is a permutation of the distinct entries that
    pass the filter — each once, none invented, none lost. -/
theorem C18_generated_server_list (ext : Ext) (d : Discovery) (rs : List Nat)
    (hr : ext.randNew = ⟨rs.map fun (n : Nat) => (n : Int)⟩) (ho : d.order = Shuffle)
    (hv : validIdx (dedup [] (wanted (ext.strList (b!"serverListFromModule")) (GenDiscovery.filterOf ext d))).length rs = true) :
    ∃ out, Discovery.ServerList ext d = (d, out)
      ∧ out.Perm (dedup [] (wanted (ext.strList (b!"serverListFromModule")) (GenDiscovery.filterOf ext d)))
      ∧ out.Nodup
      ∧ ∀ x, x ∈ out ↔ x ∈ wanted (ext.strList (b!"serverListFromModule")) (GenDiscovery.filterOf ext d) := by
  obtain ⟨out, hs, hp, hn, hm⟩ := C18_full_holds (ext.strList (b!"serverListFromModule")) (GenDiscovery.filterOf ext d) rs hv
  exact ⟨out, GenDiscovery.ServerList_refines ext d rs out hr ho hv hs, hp, hn, hm⟩

open Dtail.Go Dtail.Gen.Discovery in
/-- the hypotheses are satisfiable: three entries with a duplicate, a filter, valid draws -/
example :
    let ext : Ext := { parseFloat := fun _ => (0, none), randNew := ⟨[1, 0]⟩,
                       strList := fun _ => [b!"a", b!"b", b!"a", b!"c"],
                       reMatchRaw := fun _ s => s != b!"b" }
    Discovery.ServerList ext { regex := ⟨b!"x", true⟩ } = ({ regex := ⟨b!"x", true⟩ }, [b!"c", b!"a"]) := by decide

end Dtail.C18
