/-
C18 — server discovery yields each wanted server exactly once.
-/
import DtailModel.Lemmas.Discovery
namespace Dtail.C18
open Dtail
variable {α : Type} [DecidableEq α]

/-- For every list of entries, every filter and every sequence of random indices that
    `Intn(len)` can deliver, the contacted servers are a permutation of the distinct wanted
    entries: each once, none invented, none lost. -/
theorem C18_full_holds (entries : List α) (filter : Option (α → Bool)) (rs : List Nat)
    (h : validIdx (dedup [] (wanted entries filter)).length rs = true) :
    ∃ out, serverList entries filter rs = some out
      ∧ out.Perm (dedup [] (wanted entries filter))
      ∧ out.Nodup
      ∧ ∀ x, x ∈ out ↔ x ∈ wanted entries filter := by
  obtain ⟨out, ho, hp⟩ := shuffle_perm (dedup [] (wanted entries filter)) rs h
  refine ⟨out, ?_, hp, ?_, ?_⟩
  · exact ho
  · exact hp.nodup_iff.2 (nodup_dedup _ _)
  · intro x; rw [hp.mem_iff, mem_dedup]; simp

omit [DecidableEq α] in
/-- the shuffle alone never loses, invents or repeats an element -/
theorem C18_shuffle_perm (l : List α) (rs : List Nat) (h : validIdx l.length rs = true) :
    ∃ out, shuffle l rs = some out ∧ out.Perm l := shuffle_perm l rs h

/-- dedup keeps exactly the distinct entries, in order of first occurrence -/
theorem C18_dedup (l : List α) :
    (dedup [] l).Nodup ∧ (∀ x, x ∈ dedup [] l ↔ x ∈ l) ∧ (dedup [] l).Sublist l :=
  ⟨nodup_dedup _ _, fun x => by rw [mem_dedup]; simp, dedup_sublist _ _⟩

/-- non-vacuity: a list with duplicates and valid indices -/
example : validIdx (dedup [] [3, 1, 3, 2, 1]).length [2, 0, 0] = true ∧
    serverList [3, 1, 3, 2, 1] (some (fun x => x != 1)) [1, 0] = some [2, 3] := by decide

end Dtail.C18
