/-
C14 — connection slots are bounded by MaxConnections and always given back.
-/
import DtailModel.Model.Conn
import DtailModel.Lemmas.GenConn
set_option autoImplicit false
namespace Dtail.C14
open Dtail

theorem openCount_set (cs : List CPhase) (i : Nat) (old new : CPhase) (h : cs[i]? = some old) :
    openCount (cs.set i new) + (if isOpen old then 1 else 0) = openCount cs + (if isOpen new then 1 else 0) := by
  induction cs generalizing i with
  | nil => simp at h
  | cons c rest ih =>
    cases i with
    | zero =>
      simp only [List.getElem?_cons_zero, Option.some.injEq] at h
      subst h
      simp only [List.set_cons_zero, openCount, List.filter_cons]
      cases h1 : isOpen c <;> cases h2 : isOpen new <;> simp
    | succ j =>
      simp only [List.getElem?_cons_succ] at h
      have := ih j h
      simp only [List.set_cons_succ, openCount, List.filter_cons] at this ⊢
      cases hc : isOpen c <;> simp <;> omega

theorem openCount_append (cs : List CPhase) (p : CPhase) :
    openCount (cs ++ [p]) = openCount cs + (if isOpen p then 1 else 0) := by
  simp only [openCount, List.filter_append, List.length_append, List.filter_cons, List.filter_nil]
  cases isOpen p <;> simp

/-- the invariant: the reported number of connections equals the number actually open
    (handshaking or authenticated), is never negative and never exceeds MaxConnections -/
def Inv (s : ConnState) : Prop := s.counter = (openCount s.conns : Int) ∧ openCount s.conns ≤ s.max

theorem step_inv (s s' : ConnState) (l : CLabel) (h : Inv s) (hs : connStep s l = some s') :
    Inv s' ∧ s'.max = s.max := by
  obtain ⟨hc, hm⟩ := h
  cases l with
  | connect =>
    simp only [connStep] at hs
    split at hs
    · simp only [Option.some.injEq] at hs; subst hs
      refine ⟨⟨?_, ?_⟩, rfl⟩ <;> simp [openCount_append, isOpen, hc, hm]
    · rename_i hlt
      simp only [Option.some.injEq] at hs; subst hs
      refine ⟨⟨?_, ?_⟩, rfl⟩
      · simp [openCount_append, isOpen, hc]
      · simp only [openCount_append, isOpen]; simp
        rw [hc] at hlt; omega
  | handshakeOk i =>
    simp only [connStep] at hs
    split at hs
    · rename_i hcond
      simp only [Option.some.injEq] at hs; subst hs
      have := openCount_set s.conns i .handshaking .authenticated hcond
      simp [isOpen] at this
      exact ⟨⟨by simp [this, hc], by simp [this, hm]⟩, rfl⟩
    · simp at hs
  | handshakeFail i =>
    simp only [connStep] at hs
    split at hs
    · rename_i hcond
      simp only [Option.some.injEq] at hs; subst hs
      have := openCount_set s.conns i .handshaking .closed hcond
      simp [isOpen] at this
      refine ⟨⟨?_, ?_⟩, rfl⟩
      · simp only; rw [hc]; omega
      · simp only; omega
    · simp at hs
  | shell i =>
    simp only [connStep] at hs
    split at hs
    · simp only [Option.some.injEq] at hs; subst hs; exact ⟨⟨hc, hm⟩, rfl⟩
    · simp at hs
  | close i =>
    simp only [connStep] at hs
    split at hs
    · rename_i hcond
      simp only [Option.some.injEq] at hs; subst hs
      have := openCount_set s.conns i .authenticated .closed hcond
      simp [isOpen] at this
      refine ⟨⟨?_, ?_⟩, rfl⟩
      · simp only; rw [hc]; omega
      · simp only; omega
    · simp at hs

/-- (after the fix) **For every history** of connection attempts of every kind — refused,
    failed handshakes, logins that never open a session, any number of shell requests, orderly
    and abrupt closes — the number of connections the server reports equals the number
    actually open, is never negative and never exceeds MaxConnections. -/
theorem C14_full_holds (max : Nat) (history : List CLabel) (s : ConnState)
    (h : connRun (connInit max) history = some s) :
    s.counter = (openCount s.conns : Int) ∧ 0 ≤ s.counter ∧ openCount s.conns ≤ max := by
  have hgen : ∀ (hist : List CLabel) (a b : ConnState), Inv a → connRun a hist = some b → Inv b ∧ b.max = a.max := by
    intro hist
    induction hist with
    | nil => intro a b ha hr; simp [connRun] at hr; rw [← hr]; exact ⟨ha, rfl⟩
    | cons l rest ih =>
      intro a b ha hr
      simp only [connRun] at hr
      cases hstep : connStep a l with
      | none => simp [hstep] at hr
      | some a' =>
        simp only [hstep, Option.bind_some] at hr
        obtain ⟨hi, hm⟩ := step_inv a a' l ha hstep
        obtain ⟨hb, hbm⟩ := ih a' b hi hr
        exact ⟨hb, by rw [hbm, hm]⟩
  have hinit : Inv (connInit max) := by simp [Inv, connInit, openCount]
  obtain ⟨⟨hc, hm⟩, hmax⟩ := hgen history _ s hinit h
  simp only [connInit] at hmax
  refine ⟨hc, by rw [hc]; omega, by rw [← hmax]; exact hm⟩

/-- a new connection is accepted exactly when fewer than MaxConnections are open -/
theorem C14_accept_iff (s s' : ConnState) (h : Inv s) (hs : connStep s .connect = some s') :
    (s'.conns.getLast? = some .handshaking ↔ openCount s.conns < s.max) := by
  obtain ⟨hc, _⟩ := h
  simp only [connStep] at hs
  split at hs
  · rename_i hge
    simp only [Option.some.injEq] at hs; subst hs
    simp only [List.getLast?_append, List.getLast?_singleton, Option.some_or]
    rw [hc] at hge
    constructor
    · intro h; cases h
    · intro h; omega
  · rename_i hlt
    simp only [Option.some.injEq] at hs; subst hs
    simp only [List.getLast?_append, List.getLast?_singleton, Option.some_or, true_iff]
    rw [hc] at hlt; omega

/-- The defects that were repaired, on the old transition function: three logins that close
    without a shell leave the counter at 3; one connection with two shell requests drives it
    negative; connects that overlap their handshakes all pass the limit. -/
theorem C14_old_defects :
    (∃ s, ([CLabel.connect, .handshakeOk 0, .close 0, .connect, .handshakeOk 1, .close 1, .connect, .handshakeOk 2, .close 2].foldl
        (fun o l => o.bind (oldStep · l)) (some ⟨3, 0, []⟩)) = some s ∧ s.counter = 3)
    ∧ (∃ s, ([CLabel.connect, .handshakeOk 0, .shell 0, .shell 0, .close 0].foldl
        (fun o l => o.bind (oldStep · l)) (some ⟨3, 0, []⟩)) = some s ∧ s.counter = -1)
    ∧ (∃ s, ([CLabel.connect, .connect, .handshakeOk 0, .handshakeOk 1].foldl
        (fun o l => o.bind (oldStep · l)) (some ⟨1, 0, []⟩)) = some s ∧ s.counter = 2) := by
  refine ⟨⟨_, rfl, by decide⟩, ⟨_, rfl, by decide⟩, ⟨_, rfl, by decide⟩⟩

/-- **Tie G: the counter operations as translated from the working tree are the model's.**  `serverLimitExceeded`,
    `incrementConnections` and `decrementConnections` of internal/server/stats.go, translated on this run: on states that
    agree on the counter and the limit, what `listenerLoop` does when a connection arrives (refuse on a non-nil error,
    otherwise take a slot) is the model's `connect` step — refused exactly when the model refuses — and the decrement is
    what the model's `handshakeFail` and `close` steps do.  The model's invariant (`C14_full_holds`: the counter is the
    number of open connections and never exceeds the limit) thereby speaks about these functions. -/
theorem C14_generated_counter_refines_model (ext : Go.Ext) (g : Gen.Conn.stats) (s s' : ConnState) (i : Nat)
    (hr : GenConn.Rel ext g s) :
    (connStep s .connect = some s' →
      GenConn.Rel ext (GenConn.accept ext g).1 s' ∧
      ((GenConn.accept ext g).2 = false ↔ s'.conns = s.conns ++ [.refused])) ∧
    ((connStep s (.handshakeFail i) = some s' ∨ connStep s (.close i) = some s') →
      GenConn.Rel ext (Gen.Conn.stats.decrementConnections ext g) s') :=
  ⟨GenConn.accept_refines ext g s s' hr, GenConn.release_refines ext g s s' i hr⟩

/-- the translated limit test by itself: an error exactly when the counter has reached the configured limit, and the
    counter is left as it was -/
theorem C14_generated_limit_test (ext : Go.Ext) (g : Gen.Conn.stats) :
    (Gen.Conn.stats.serverLimitExceeded ext g).1 = g ∧
    ((Gen.Conn.stats.serverLimitExceeded ext g).2 ≠ none ↔ g.currentConnections ≥ ext.maxConnections) :=
  GenConn.limit_spec ext g

/-- non-vacuity: a full server refuses, one below the limit takes the slot -/
example :
    let ext : Go.Ext := { parseFloat := fun _ => (0, none), maxConnections := 2 }
    (GenConn.accept ext ⟨2, 7⟩).2 = false ∧ (GenConn.accept ext ⟨1, 7⟩) = (⟨2, 8⟩, true) := by decide

/-- non-vacuity: on the repaired transition function the same histories behave -/
example : (connRun (connInit 3) [.connect, .handshakeOk 0, .close 0, .connect, .handshakeOk 1, .shell 1, .shell 1, .close 1]).map (·.counter)
    = some 0 := by decide

end Dtail.C14
