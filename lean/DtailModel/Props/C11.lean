/-
C11 — valid queries parse to the structure they denote; invalid ones are rejected.
-/
import DtailModel.Model.Query
namespace Dtail.C11
open Dtail

/-- a lone back-quote is an ordinary token after the fix (it used to slice [1:0]) -/
theorem C11_lone_backquote : tokensConsume [⟨[BACKTICK], true, false⟩] = .ok (none, [⟨[BACKTICK], true, false⟩]) := by
  decide

end Dtail.C11
