/-
C11 — valid queries parse to the structure they denote; invalid ones are rejected.

Layers: bytes --tokenize--> tokens --tokensConsume / parseTokens--> clauses --per-clause
builders--> Query.  The theorems below cover the token → Query layers for every token list
(unbounded): clause boundaries, what each clause denotes, irrelevance of the clause order,
keyword case, the optional `by`, the select items, the rejection classes, and that no input
makes the parser panic.  The bytes → tokens layer (`strings.Split` on quotes, `strings.Fields`)
is tied to the code by the differential run only (DESIGN §5 C11).
-/
import DtailModel.Lemmas.QueryPatch
import DtailModel.Lemmas.GenQuery
set_option autoImplicit false
namespace Dtail.C11
open Dtail

/-- **Parsing never panics**, whatever the bytes (this includes the lone back-quote that used
    to slice `[1:0]`, repaired by `fix:` 10232cb). -/
theorem C11_never_panics (fl : FloatOracle) (q : Bytes) : (newQuery fl q).isPanic = false :=
  newQuery_noPanic fl q

/-- a lone back-quote is an ordinary token after the fix -/
theorem C11_lone_backquote : tokensConsume [⟨[BACKTICK], true, false⟩] = .ok (none, [⟨[BACKTICK], true, false⟩]) := by
  decide

/-- **Clause boundaries.** Parsing the flat token list of a query is parsing its clauses one
    by one, each on its own, in whatever order they come: no token of one clause is taken for
    part of another (every body token that is not a bare keyword stays in its clause — quoted
    strings and back-quoted field names that spell a keyword included). -/
theorem C11_clause_boundaries (fl : FloatOracle) (cs : List ClauseT) (hwf : ∀ c ∈ cs, ClauseWF c)
    (fuel : Nat) (hf : cs.length ≤ fuel) (q : Query) :
    parseTokensAux fl fuel q (flatC cs) = foldClauses fl q cs := parseTokensAux_flat fl cs hwf fuel hf q

/-- **What a clause denotes**: parsed on its own, a clause applies the patch of its kind — built
    from the tokens after the optional `by`, empty tokens dropped, back-quotes stripped — to the
    query so far; nothing else of the query changes. -/
theorem C11_clause_denotes (fl : FloatOracle) (q : Query) (c : ClauseT) (h : ClauseWF c) :
    clauseStep fl q c = (patchOf fl c).bind (fun p => .ok (p.apply q)) :=
  clauseStep_patch fl q c h.2.1 h.2.2

/-- the last checks of `Query.parse`: a select list, the default group key, the order key -/
def finishQuery (q : Query) : Outcome Query :=
  if q.sel.length < 1 then .err "Expected at least one field in 'select' clause" else
  let q := if q.groupBy.length = 0 then (match q.sel with | s0 :: _ => { q with groupBy := [s0.field] } | [] => q) else q
  if q.orderBy ≠ [] ∧ !(q.sel.any (fun sc => sc.storage = q.orderBy)) then
    .err "Can not '(r)order by', must be present in 'select' clause"
  else .ok q

theorem parseQuery_eq (fl : FloatOracle) (ts : List Tok) :
    parseQuery fl ts = (parseTokensAux fl (ts.length + 1) {} ts).bind finishQuery := by
  unfold parseQuery finishQuery
  simp only [Bind.bind, Pure.pure]
  cases parseTokensAux fl (ts.length + 1) {} ts with
  | err e => rfl
  | panic p => rfl
  | ok q =>
    simp only [Outcome.bind]
    by_cases h1 : q.sel.length < 1
    · simp [h1]
    · simp only [h1, if_false]
      cases hs : q.sel with
      | nil => simp [hs] at h1
      | cons s0 rest =>
        by_cases h2 : q.groupBy.length = 0
        · simp [h2, goIndex, Outcome.bind]
        · simp [h2, Outcome.bind, hs]

theorem flatC_length (cs : List ClauseT) : cs.length ≤ (flatC cs).length := by
  induction cs with
  | nil => simp [flatC]
  | cons c rest ih => simp only [flatC, List.flatMap_cons, List.length_append, List.length_cons] at ih ⊢; omega

/-- **The parsed query is the denotation of its clauses**: for every well-formed clause list
    whose clauses all denote something, `Query.parse` returns the default query patched by
    every clause, followed by the final checks. -/
theorem C11_parse_denotes (fl : FloatOracle) (cs : List ClauseT) (hwf : ∀ c ∈ cs, ClauseWF c)
    (ps : List QPatch) (hp : patchesOf fl cs = .ok ps) :
    parseQuery fl (flatC cs) = finishQuery (applyAll ps {}) := by
  rw [parseQuery_eq, parseTokensAux_flat fl cs hwf _ (by have := flatC_length cs; omega),
    foldClauses_patches fl cs hwf {} ps hp]
  rfl

/-- **Any clause order**: two queries whose clauses are permutations of each other (one clause
    per kind) parse to the same structure. -/
theorem C11_clause_order_irrelevant (fl : FloatOracle) (cs cs' : List ClauseT)
    (hwf : ∀ c ∈ cs, ClauseWF c) (hperm : cs.Perm cs') (hk : (cs.map clauseKind).Nodup)
    (ps : List QPatch) (hp : patchesOf fl cs = .ok ps) :
    parseQuery fl (flatC cs') = parseQuery fl (flatC cs) := by
  obtain ⟨ps', hp', hpp⟩ := patchesOf_perm fl cs cs' hperm ps hp
  have hwf' : ∀ c ∈ cs', ClauseWF c := fun c hc => hwf c (hperm.mem_iff.2 hc)
  rw [C11_parse_denotes fl cs hwf ps hp, C11_parse_denotes fl cs' hwf' ps' hp',
    applyAll_perm ps ps' hpp (patchesOf_pairwise fl cs ps hp hk)]

/-- **Keyword case**: a clause is dispatched on the lower-cased keyword only. -/
theorem C11_keyword_case (fl : FloatOracle) (q : Query) (kw kw' : Tok) (tail : List Tok)
    (h : lowerKey kw.str = lowerKey kw'.str) : parseClause fl q (kw :: tail) = parseClause fl q (kw' :: tail) := by
  unfold parseClause
  simp only [goIndex, goSliceFrom, List.getElem?_cons_zero, List.length_cons, List.drop_succ_cons, List.drop_zero,
    Nat.le_add_left, if_true, Bind.bind, Outcome.bind, h]

theorem C11_keyword_case_examples :
    lowerKey (b!"SELECT") = b!"select" ∧ lowerKey (b!"GrOuP") = b!"group" ∧ lowerKey (b!"rOrder") = b!"rorder" := by decide

/-- **`by` is optional** after group / order / rorder. -/
theorem C11_by_optional (kwl : Bytes) (byTok : Tok) (body : List Tok)
    (hk : kwl = b!"group" ∨ kwl = b!"rorder" ∨ kwl = b!"order") (hby : equalFoldAscii byTok.str (b!"by") = true)
    (hb : ∀ t rest, body = t :: rest → equalFoldAscii t.str (b!"by") = false) :
    afterBy kwl (byTok :: body) = afterBy kwl body := by
  unfold afterBy
  simp only [hk, if_true, consumeOptional, hby]
  cases body with
  | nil => rfl
  | cons t rest => simp [consumeOptional, hb t rest rfl]

/-- **Select items**: a bare field (no parentheses) denotes `last(field)` stored under its own
    name; a back-quoted name likewise, whatever it contains. -/
theorem C11_select_plain (t : Tok) (h : t.stripped = true ∨ (t.str.contains LPAR = false ∧ t.str.contains RPAR = false)) :
    parseSelect t = .ok ⟨t.str, t.str, .last⟩ := by
  unfold parseSelect
  have hc : t.stripped = true ∨ ((!t.str.contains LPAR) = true ∧ (!t.str.contains RPAR) = true) := by
    rcases h with h | ⟨h1, h2⟩
    · exact Or.inl h
    · exact Or.inr ⟨by rw [h1]; rfl, by rw [h2]; rfl⟩
  rw [if_pos hc]

/-- `agg(field)` denotes the aggregation named `agg` over `field`, stored under the whole text -/
theorem C11_select_agg (agg f : Bytes) (bare : Bool) (op : AggOp)
    (ha : LPAR ∉ agg) (hf1 : LPAR ∉ f) (hf2 : RPAR ∉ f) (hop : aggOfName agg = some op) :
    parseSelect ⟨agg ++ LPAR :: (f ++ [RPAR]), bare, false⟩ = .ok ⟨f, agg ++ LPAR :: (f ++ [RPAR]), op⟩ := by
  unfold parseSelect
  have hc : (agg ++ LPAR :: (f ++ [RPAR])).contains LPAR = true := by simp
  have hs1 : splitOnByte LPAR (agg ++ LPAR :: (f ++ [RPAR])) = [agg, f ++ [RPAR]] := by
    rw [splitOnByte_append_sep LPAR _ _ ha]
    rw [splitOnByte_nosep LPAR _ (by
      intro hm; rcases List.mem_append.1 hm with h | h
      · exact hf1 h
      · simp [LPAR, RPAR] at h)]
  have hs2 : splitOnByte RPAR (f ++ [RPAR]) = [f, []] := by
    have : f ++ [RPAR] = f ++ RPAR :: [] := rfl
    rw [this, splitOnByte_append_sep RPAR _ _ hf2]; rfl
  simp [hc, hs1, hs2, goIndex, hop, Bind.bind, Outcome.bind]

/-! ### rejection classes -/

/-- a token in clause position that is none of the eleven keywords is rejected -/
theorem C11_reject_unknown_keyword (fl : FloatOracle) (q : Query) (kw : Tok) (tail : List Tok)
    (h : kindOf (lowerKey kw.str) = 10) : parseClause fl q (kw :: tail) = .err "Unexpected keyword" := by
  unfold kindOf at h
  unfold parseClause
  simp only [goIndex, goSliceFrom, List.getElem?_cons_zero, List.length_cons, List.drop_succ_cons, List.drop_zero,
    Nat.le_add_left, if_true, Bind.bind, Outcome.bind]
  repeat (split at h <;> first | (simp at h; done) | skip)
  simp_all

/-- a query without a select list is rejected -/
theorem C11_reject_no_select (q : Query) (h : q.sel = []) :
    finishQuery q = .err "Expected at least one field in 'select' clause" := by
  simp [finishQuery, h]

/-- an order key that is not one of the selected columns is rejected -/
theorem C11_reject_order_key (q : Query) (hs : q.sel ≠ []) (ho : q.orderBy ≠ [])
    (hn : ∀ sc ∈ q.sel, sc.storage ≠ q.orderBy) :
    finishQuery q = .err "Can not '(r)order by', must be present in 'select' clause" := by
  obtain ⟨sel, table, whr, set, groupBy, orderBy, reverse, groupKey, interval, limit, outfile, logFormat⟩ := q
  simp only at hs ho hn
  cases sel with
  | nil => exact absurd rfl hs
  | cons s0 rest =>
    have hany : (s0 :: rest).any (fun sc => decide (sc.storage = orderBy)) = false := by
      simp only [List.any_eq_false, decide_eq_true_eq]; exact hn
    unfold finishQuery
    by_cases hg : groupBy.length = 0 <;> simp [hg, ho, hany]

/-- where conditions: fewer than three tokens, or an unknown operator, are rejected -/
theorem C11_reject_where_short (fl : FloatOracle) (ts : List Tok) (h : ts.length < 3) :
    parseWhere fl ts = .err "Not enough arguments in 'where' clause" := by
  simp [parseWhere, h]

theorem C11_reject_where_operator (fl : FloatOracle) (a op b : Tok) (rest : List Tok)
    (h : whereOpOf (lowerKey op.str) = none) :
    parseWhere fl (a :: op :: b :: rest) = .err "Unknown operation in 'where' clause" := by
  simp [parseWhere, goIndex, h, Bind.bind, Outcome.bind]

/-- limit / interval that are not numbers, a missing table name, two table names, an unknown
    aggregation are rejected (patch level) -/
theorem C11_reject_limit (fl : FloatOracle) (t : Tok) (rest : List Tok) (h : atoi t.str = none) :
    clausePatch fl (b!"limit") (t :: rest) = .err "limit: not a number" := by
  simp [clausePatch, h]

theorem C11_reject_interval (fl : FloatOracle) (t : Tok) (rest : List Tok) (h : atoi t.str = none) :
    clausePatch fl (b!"interval") (t :: rest) = .err "interval: not a number" := by
  simp [clausePatch, h]

theorem C11_reject_two_tables (fl : FloatOracle) (a b : Tok) (rest : List Tok) :
    clausePatch fl (b!"from") (a :: b :: rest) = .err "expected only one table name after 'from'" := by
  simp [clausePatch]

theorem C11_reject_unknown_aggregation (agg f : Bytes) (bare : Bool)
    (ha : LPAR ∉ agg) (hf1 : LPAR ∉ f) (hf2 : RPAR ∉ f) (hop : aggOfName agg = none) :
    parseSelect ⟨agg ++ LPAR :: (f ++ [RPAR]), bare, false⟩ = .err "Unknown aggregation in 'select' clause" := by
  unfold parseSelect
  have hc : (agg ++ LPAR :: (f ++ [RPAR])).contains LPAR = true := by simp
  have hs1 : splitOnByte LPAR (agg ++ LPAR :: (f ++ [RPAR])) = [agg, f ++ [RPAR]] := by
    rw [splitOnByte_append_sep LPAR _ _ ha]
    rw [splitOnByte_nosep LPAR _ (by
      intro hm; rcases List.mem_append.1 hm with h | h
      · exact hf1 h
      · simp [LPAR, RPAR] at h)]
  have hs2 : splitOnByte RPAR (f ++ [RPAR]) = [f, []] := by
    have : f ++ [RPAR] = f ++ RPAR :: [] := rfl
    rw [this, splitOnByte_append_sep RPAR _ _ hf2]; rfl
  simp [hc, hs1, hs2, goIndex, hop, Bind.bind, Outcome.bind]

/-- non-vacuity: a three-clause query in two different orders, with a back-quoted keyword as a
    field name, mixed keyword case and an optional `by` -/
example :
    let sel : ClauseT := ⟨⟨b!"SELECT", true, false⟩, [⟨b!"count(x)", true, false⟩, ⟨b!"`from`", true, false⟩]⟩
    let frm : ClauseT := ⟨⟨b!"from", true, false⟩, [⟨b!"stats", true, false⟩]⟩
    let grp : ClauseT := ⟨⟨b!"Group", true, false⟩, [⟨b!"by", true, false⟩, ⟨b!"host", true, false⟩]⟩
    parseQuery (fun _ => none) (flatC [frm, grp, sel]) = parseQuery (fun _ => none) (flatC [sel, frm, grp])
    ∧ (parseQuery (fun _ => none) (flatC [sel, frm, grp])).isPanic = false
    ∧ ((parseQuery (fun _ => none) (flatC [sel, frm, grp])) matches .ok _) := by
  decide

/-! ### Tie G (panic-aware): the parser as translated from the working tree on this run -/

open Dtail.Go Dtail.Gen.MaprQuery in
/-- **The query parser of the working tree never panics.**  `NewQuery` — `tokenize`, `tokensConsume…`,
    `makeSelectConditions`, `makeWhereConditions` / `fill`, `makeSetConditions` / `initSetConditions`, `parseTokens`,
    `parse` — is translated from internal/mapr on every run with every index and slice expression guarded (where the Go
    runtime would panic, the translated function returns `Outcome.panic`).  For every query text and every behaviour
    of `strconv.ParseFloat`, `strconv.Atoi` and `funcs.NewFunctionStack` it returns a query or an error — no guard
    fails — provided the loops get more fuel than the text is long (the Go loops have no fuel: the bound only says that
    they end; a text of n bytes has at most n + 1 tokens). -/
theorem C11_generated_parser_never_panics (ext : Ext) (q : Bytes) (hf : q.length + 1 < ext.fuel) :
    ∃ r, Gen.MaprQuery.NewQuery ext q = Outcome.ok r :=
  GenQuery.NewQuery_ok_text ext q hf

open Dtail.Go Dtail.Gen.MaprQuery in
/-- a query text has at most its length plus one tokens (`tokenize` as translated: split at '"', commas to blanks,
    `strings.Fields`) — which is why fuel beyond the length of the text is fuel beyond the number of tokens -/
theorem C11_generated_token_count (ext : Ext) (q : Bytes) : (Gen.MaprQuery.tokenize ext q).length ≤ q.length + 1 :=
  GenQuery.tokenize_length ext q

open Dtail.Go Dtail.Gen.MaprQuery in
/-- the parts: none of the translated clause parsers panics, on any token list -/
theorem C11_generated_clause_parsers_never_panic (ext : Ext) (ts : List Gen.MaprQuery.token) :
    GenQuery.ConsumeOk ts (Gen.MaprQuery.tokensConsume ext ts) ∧
    GenQuery.IsOk (Gen.MaprQuery.makeSelectConditions ext ts) ∧
    (ts.length < ext.fuel → GenQuery.IsOk (Gen.MaprQuery.makeWhereConditions ext ts)) ∧
    (ts.length < ext.fuel → GenQuery.IsOk (Gen.MaprQuery.makeSetConditions ext ts)) ∧
    (∀ qq, ts.length < ext.fuel → GenQuery.IsOk (Gen.MaprQuery.Query.parseTokens ext qq ts)) :=
  ⟨GenQuery.tokensConsume_ok ext ts, GenQuery.makeSelectConditions_ok ext ts, GenQuery.makeWhereConditions_ok ext ts,
   GenQuery.makeSetConditions_ok ext ts, fun qq h => GenQuery.parseTokens_ok ext qq ts h⟩

open Dtail.Go Dtail.Gen.MaprQuery in
/-- the fuel hypothesis is satisfiable, and the lone back-quote (the token that used to crash the server) is one token -/
example : (Gen.MaprQuery.tokenize { parseFloat := fun _ => (0, none), fuel := 10 } (b!"select `count(x)` from T where ` > 1")).length < 10 := by decide

end Dtail.C11
