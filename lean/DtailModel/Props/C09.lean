/-
C09 — sessions are granted only to authorised keys and the fixed service users.
-/
import DtailModel.Model.Auth
import DtailModel.Lemmas.GenAuth
import DtailModel.Lemmas.GenKeys
set_option autoImplicit false
namespace Dtail.C09
open Dtail

theorem mem_collectKeys (keyOf : Bytes → Option Key) (fuel : Nat) (lines : List Bytes) (k : Key)
    (hf : lines.length < fuel) :
    k ∈ collectKeys keyOf fuel lines ↔ ∃ l ∈ lines, keyOf l = some k := by
  induction lines generalizing fuel with
  | nil =>
    cases fuel with
    | zero => simp at hf
    | succ f => simp [collectKeys, parseAuthorizedKey]
  | cons l rest ih =>
    cases fuel with
    | zero => simp at hf
    | succ f =>
      simp only [List.length_cons, Nat.add_lt_add_iff_right] at hf
      cases hk : keyOf l with
      | some k' =>
        simp only [collectKeys, parseAuthorizedKey, hk, List.mem_cons, ih f hf]
        constructor
        · rintro (rfl | ⟨l', hl', h⟩)
          · exact ⟨l, Or.inl rfl, hk⟩
          · exact ⟨l', Or.inr hl', h⟩
        · rintro ⟨l', hl' | hl', h⟩
          · subst hl'; rw [hk] at h; exact Or.inl (Option.some.inj h).symm
          · exact Or.inr ⟨l', hl', h⟩
      | none =>
        -- the line is skipped: the same round continues on `rest`
        have hstep : collectKeys keyOf (f + 1) (l :: rest) = collectKeys keyOf (f + 1) rest := by
          simp only [collectKeys, parseAuthorizedKey, hk]
        rw [hstep, ih (f + 1) (by omega)]
        constructor
        · rintro ⟨l', hl', h⟩; exact ⟨l', List.mem_cons_of_mem _ hl', h⟩
        · rintro ⟨l', hl', h⟩
          rcases List.mem_cons.1 hl' with rfl | hl'
          · rw [hk] at h; cases h
          · exact ⟨l', hl', h⟩

/-- (after the fix) For every authorized-keys file — key lines, comments, blank lines,
    options, garbage in any order — a key is accepted exactly when some line of the file
    carries it. -/
theorem C09_keys_full_holds (keyOf : Bytes → Option Key) (lines : List Bytes) (offered : Key) :
    verifyAuthorizedKeys keyOf lines offered = true ↔ ∃ l ∈ lines, keyOf l = some offered := by
  unfold verifyAuthorizedKeys
  rw [List.contains_iff_mem]
  exact mem_collectKeys keyOf _ lines offered (by omega)

/-- Password logins: granted exactly in the three documented cases. -/
theorem C09_password_decision (lookup : Bytes → List Bytes) (schedule continuous : List Job)
    (user pw ip : Bytes) :
    passwordCallback lookup schedule continuous user pw ip = true ↔
      (user = Facts.healthUserBytes ∧ pw = Facts.healthUserBytes)
      ∨ (user = Facts.scheduleUserBytes ∧ ∃ j ∈ schedule, pw = j.name ∧ ∃ a ∈ j.allowFrom, ip ∈ lookup a)
      ∨ (user = Facts.continuousUserBytes ∧ ∃ j ∈ continuous, pw = j.name ∧ ∃ a ∈ j.allowFrom, ip ∈ lookup a) := by
  have hne1 : Facts.healthUserBytes ≠ Facts.scheduleUserBytes := by decide
  have hne2 : Facts.healthUserBytes ≠ Facts.continuousUserBytes := by decide
  have hne3 : Facts.scheduleUserBytes ≠ Facts.continuousUserBytes := by decide
  have hb : ∀ (js : List Job), js.any (backgroundCanSSH lookup pw ip) = true ↔
      ∃ j ∈ js, pw = j.name ∧ ∃ a ∈ j.allowFrom, ip ∈ lookup a := by
    intro js
    simp [backgroundCanSSH, List.any_eq_true]
  unfold passwordCallback
  by_cases h1 : user = Facts.healthUserBytes
  · subst h1; simp [hne1, hne2]
  · by_cases h2 : user = Facts.scheduleUserBytes
    · subst h2; simp [h1, hne3, hb]
    · by_cases h3 : user = Facts.continuousUserBytes
      · subst h3; simp [h1, h2, hb]
      · simp [h1, h2, h3]

/-- The health user can run nothing but the health command: its session gets the health
    handler, and every command of that handler yields OK, ack handling or an error. -/
theorem C09_health_only (name : Bytes) :
    handlerFor Facts.healthUserBytes = .health ∧
    (healthCommand name = .ok ↔ name = b!"health") := by
  refine ⟨by decide, ?_⟩
  unfold healthCommand
  by_cases h : name = b!"health"
  · simp [h]
  · by_cases h2 : name = b!".ack" <;> simp [h, h2]

/-- the three service user names are distinct, and no ordinary user gets the health handler -/
theorem C09_service_users_distinct :
    Facts.healthUserBytes ≠ Facts.scheduleUserBytes ∧ Facts.healthUserBytes ≠ Facts.continuousUserBytes
    ∧ Facts.scheduleUserBytes ≠ Facts.continuousUserBytes := by decide

/-- **Tie G: the public-key check as translated from the working tree accepts exactly the listed keys.**
    `verifyAuthorizedKeys` of internal/ssh/server/publickeycallback.go, translated on this run (`ssh.ParseAuthorizedKey` is a
    parameter; a key is its marshalled form; the loop runs on fuel).  Under the parser's contract — on the content `enc lines`
    it skips to the first key line and hands back that key and the content of the lines behind it, or fails when no line is a
    key; it consumes something whenever it succeeds — and with fuel for the lines and the bytes: the translated function
    never panics and returns a nil error, granting the session, exactly when some line of the file carries the offered key —
    comments, blank lines, options and garbage anywhere, also after the last key (the repaired defect). -/
theorem C09_generated_key_check_accepts_exactly_listed (ext : Go.Ext) (keyOf : Bytes → Option Key) (enc : List Bytes → Bytes)
    (hc : GenKeys.Contract ext keyOf enc) (hs : GenKeys.Shrinks ext) (u : Go.GoUser) (lines : List Bytes) (offered : Key)
    (hf : (enc lines).length < ext.fuel) (hl : lines.length < ext.fuel) :
    ∃ e, Gen.Keys.verifyAuthorizedKeys ext u (enc lines) offered = Outcome.ok ((), e) ∧
      (e = none ↔ ∃ l ∈ lines, keyOf l = some offered) := by
  refine ⟨_, GenKeys.verify_spec ext hs u (enc lines) offered hf, ?_⟩
  rw [GenKeys.keysG_model ext keyOf enc hc]
  have hm := mem_collectKeys keyOf ext.fuel lines offered hl
  rw [← hm, ← List.contains_iff_mem]
  cases (collectKeys keyOf ext.fuel lines).contains offered <;> simp

/-- non-vacuity: a two-key file with a trailing comment, parsed by a toy `ParseAuthorizedKey` over newline-terminated lines
    (lines starting with 'k' are keys) -/
example :
    let parse : Go.GoString → Go.GoString × Go.GoString × List Go.GoString × Go.GoString × Go.GoErr := fun b =>
      let ls := (splitOnByte NL b).dropLast
      match ls.dropWhile (fun l => l.head? ≠ some 107) with
      | [] => ([], [], [], [], some [])
      | k :: rest => (k, [], [], rest.flatMap (· ++ [NL]), none)
    let ext : Go.Ext := { parseFloat := fun _ => (0, none), parseAuthorizedKey := parse, fuel := 40 }
    Gen.Keys.verifyAuthorizedKeys ext {} (b!"# c\nk1\n\nk2\n# trailing\n") (b!"k2") = Outcome.ok ((), none) ∧
    (match Gen.Keys.verifyAuthorizedKeys ext {} (b!"# c\nk1\n\nk2\n# trailing\n") (b!"k3") with
      | .ok (_, some _) => true | _ => false) = true := by
  decide

/-- **Tie G: the password callback as translated from the working tree grants exactly the three documented cases.**
    `Server.Callback` and `backgroundCanSSH` of internal/server/server.go, translated on this run with every index
    expression guarded, never panic, and return a nil error — the login is granted — exactly when `user.New` accepted the
    user and: it is the health user with the health password, or the schedule (continuous) user whose password is the name
    of a configured scheduled (continuous) job one of whose allowed hosts resolves to the address the connection comes
    from (what stands before the first ':' of `RemoteAddr().String()`).  For every connection, password, job configuration
    and behaviour of `user.New` and `net.LookupIP` (a failing lookup yields no address). -/
theorem C09_generated_callback_grants_exactly (ext : Go.Ext) (s : Gen.Auth.Server) (c : Go.GoConnMeta) (pw : Bytes) :
    ∃ granted : Bool, GenAuth.granted (Gen.Auth.Server.Callback ext s c pw) = some granted ∧
      (granted = true ↔
        (ext.userNew c.user c.remoteAddr).2 = none ∧
        let user := (ext.userNew c.user c.remoteAddr).1.Name
        let ip := GenAuth.remoteIPOf c
        ((user = Facts.healthUserBytes ∧ pw = Facts.healthUserBytes)
          ∨ (user = Facts.scheduleUserBytes ∧
              ∃ j ∈ ext.schedule, pw = j.Name ∧ ∃ a ∈ j.AllowFrom, ip ∈ GenAuth.lookupOf ext a)
          ∨ (user = Facts.continuousUserBytes ∧
              ∃ j ∈ ext.continuous, pw = j.Name ∧ ∃ a ∈ j.AllowFrom, ip ∈ GenAuth.lookupOf ext a))) := by
  refine ⟨_, GenAuth.Callback_refines ext s c pw, ?_⟩
  rw [Bool.and_eq_true, C09_password_decision]
  simp only [Option.isNone_iff_eq_none, List.mem_map, GenAuth.jobOf]
  constructor
  · rintro ⟨h0, h⟩
    refine ⟨h0, ?_⟩
    rcases h with h | ⟨hu, j, ⟨g, hg, rfl⟩, hpw, ha⟩ | ⟨hu, j, ⟨g, hg, rfl⟩, hpw, ha⟩
    · exact Or.inl h
    · exact Or.inr (Or.inl ⟨hu, g, hg, hpw, ha⟩)
    · exact Or.inr (Or.inr ⟨hu, g, hg, hpw, ha⟩)
  · rintro ⟨h0, h⟩
    refine ⟨h0, ?_⟩
    rcases h with h | ⟨hu, g, hg, hpw, ha⟩ | ⟨hu, g, hg, hpw, ha⟩
    · exact Or.inl h
    · exact Or.inr (Or.inl ⟨hu, _, ⟨g, hg, rfl⟩, hpw, ha⟩)
    · exact Or.inr (Or.inr ⟨hu, _, ⟨g, hg, rfl⟩, hpw, ha⟩)

/-- the translated `backgroundCanSSH` is the model's function, whatever `net.LookupIP` does -/
theorem C09_generated_backgroundCanSSH_refines_model (ext : Go.Ext) (s : Gen.Auth.Server) (u : Go.GoUser) (pw ip : Bytes)
    (j : Go.GoJob) :
    Gen.Auth.Server.backgroundCanSSH ext s u pw ip j.Name j.AllowFrom
      = (s, backgroundCanSSH (GenAuth.lookupOf ext) pw ip (GenAuth.jobOf j)) :=
  GenAuth.backgroundCanSSH_refines ext s u pw ip j

/-- non-vacuity: a configured scheduled job, its password, an allowed address: the translated callback grants; with a
    different address it does not -/
example :
    let ext : Go.Ext := { parseFloat := fun _ => (0, none), schedule := [⟨b!"job1", [b!"10.0.0.1"]⟩] }
    GenAuth.granted (Gen.Auth.Server.Callback ext {} ⟨Facts.scheduleUserBytes, b!"10.0.0.1:4711"⟩ (b!"job1")) = some true ∧
    GenAuth.granted (Gen.Auth.Server.Callback ext {} ⟨Facts.scheduleUserBytes, b!"10.0.0.2:4711"⟩ (b!"job1")) = some false := by
  decide

/-- non-vacuity: a file with a comment after its last key (the input that used to fail) -/
example : verifyAuthorizedKeys (fun l => if l.head? = some 107 then some l else none)
    [b!"# c", b!"k1", [], b!"k2", b!"# trailing"] (b!"k2") = true := by decide

end Dtail.C09
