/-
C03 — dgrep selects exactly the lines grep semantics prescribe.
-/
import DtailModel.Lemmas.Grep
import DtailModel.Lemmas.GenGrep
import DtailModel.Lemmas.GenPlain
set_option autoImplicit false
namespace Dtail.C03
open Dtail
variable {α : Type}

/-- The context automaton of the server equals the block specification of grep semantics:
    for every line sequence, every selection, every before/after/max (no bound on any). -/
theorem C03_ctx (B A M : Nat) (ls : List (Bool × α)) :
    grun B A M (ginit M) ls = grepSpec B A M (blocks ls).1 (blocks ls).2 :=
  grun_eq_spec B A M ls

/-- **Tie G: the grep-context filter as translated from the working tree delivers grep semantics.**  `filterWithLContext`,
    `filterLineWithLContext`, `lContextNotMatched`, `lContextProcessBefore`, `lContextProcessMaxCount` of
    internal/io/fs/readfilelcontext.go, translated on this run (the raw lines are a list, `ls.beforeBuf` is a bounded queue,
    what is sent on `lines` is kept, the context is never cancelled): for every list of raw lines, every expression verdict
    and every `before`, `after`, `max` (`before` within what `make(chan, n)` accepts — beyond it the recorded finding of C10 applies, `C10_generated_huge_before_panics` —, fuel above `before` for the drain loop), the function returns
    normally — no index out of range, no queue operation that would block for ever — and the contents of the lines it has
    sent are the block specification of grep semantics on the lines with the expression's verdicts. -/
theorem C03_generated_filter_is_grep (ext : Go.Ext) (ltx : Go.GoLContext) (B A M : Nat)
    (hB : ltx.BeforeContext = (B : Int)) (hA : ltx.AfterContext = (A : Int)) (hM : ltx.MaxCount = (M : Int))
    (hfuel : B < ext.fuel) (hlim : (B : Int) ≤ 35184372088820) (f : Gen.Grep.readFile) (raws : List Bytes) (re : Go.GoRegex) :
    ∃ f', Gen.Grep.readFile.filterWithLContext ext f () ltx raws () re = Outcome.ok f' ∧
      GenGrep.sent f' = GenGrep.sent f ++
        grepSpec B A M (blocks (GenGrep.judged ext re raws)).1 (blocks (GenGrep.judged ext re raws)).2 := by
  obtain ⟨f', h1, h2⟩ := GenGrep.filter_refines ext ltx B A M hB hA hM hfuel hlim f raws re
  exact ⟨f', h1, by rw [h2, grun_eq_spec]⟩

/-- one raw line through the translated `filterLineWithLContext` is one step of the model's automaton: the same lines sent,
    reading aborted exactly when the model's step ends the run, related states otherwise -/
theorem C03_generated_step_is_model_step (ext : Go.Ext) (ltx : Go.GoLContext) (B A M : Nat) (ls : Gen.Grep.ltxState)
    (s : GState Bytes) (f : Gen.Grep.readFile) (raws : List Bytes) (re : Go.GoRegex) (x : Bytes)
    (hr : GenGrep.Rel ltx B A M ls s) (hfuel : B < ext.fuel) :
    GenGrep.StepGood ltx B A M f (gstep B A M s (ext.reMatch re x) x)
      (Gen.Grep.readFile.filterLineWithLContext ext f () ltx ls raws () re x) :=
  GenGrep.step_refines ext ltx B A M ls s f raws re x hr hfuel

/-- non-vacuity: before 1, after 1, max 1 on five lines of which the third and fifth are selected -/
example :
    let ext : Go.Ext := { parseFloat := fun _ => (0, none), reMatch := fun _ l => l.head? = some 120, fuel := 4 }
    (match Gen.Grep.readFile.filterWithLContext ext {} () ⟨1, 1, 1⟩ [b!"a", b!"b", b!"x1", b!"c", b!"x2"] () {} with
      | .ok f => GenGrep.sent f
      | _ => []) = [b!"b", b!"x1", b!"c"] := by decide

/-- The block view loses nothing: every line sequence is the concatenation of its blocks. -/
theorem C03_blocks_cover (ls : List (Bool × α)) : unblocks (blocks ls).1 (blocks ls).2 = ls :=
  unblocks_blocks ls

/-- Without any context option the plain filter path is taken; it agrees with the automaton
    and hence with the specification. -/
theorem C03_plain_path (ls : List (Bool × α)) :
    gplain ls = grepSpec 0 0 0 (blocks ls).1 (blocks ls).2 := by
  rw [← grun_eq_spec]
  induction ls with
  | nil => rfl
  | cons p rest ih =>
    obtain ⟨sel, x⟩ := p
    cases sel <;> simp_all [gplain, grun, gstep, ginit]

/-- Both filter paths together: what a cat/grep reader delivers. -/
theorem C03_filter (B A M : Nat) (ls : List (Bool × α)) :
    grepFilter B A M ls = grepSpec B A M (blocks ls).1 (blocks ls).2 := by
  unfold grepFilter
  split
  · rename_i h; obtain ⟨rfl, rfl, rfl⟩ := h; exact C03_plain_path ls
  · exact grun_eq_spec B A M ls

/-- The specification, read back: with no limit and every line selected (the no-op
    patterns '', '.', '.*'), every line is output exactly once, in order. -/
theorem C03_noop_selects_all (B A : Nat) (l : List α) (a : Nat) :
    specGo B A a none (l.map (fun x => (([] : List α), x))) [] = l := by
  induction l generalizing a with
  | nil => simp [specGo]
  | cons x l ih => simp [specGo, gapOut, lastN, ih]

theorem C03_noop_flag (e : Bool) : matchFlag .noop e = true := rfl
theorem C03_invert_flag (e : Bool) : matchFlag .invert e = !matchFlag .default e := rfl
theorem C03_noop_patterns : clientFlag [] true = .noop ∧ clientFlag [46] false = .noop
    ∧ clientFlag [46, 42] true = .noop := by decide

/-- Nothing after the cut: once the budget is exhausted only owed trailing context of the
    current gap is output, whatever follows. -/
theorem C03_nothing_after_cut (B A a : Nat) (r : List α) (s : α) (bs : List (List α × α)) (t : List α) :
    specGo B A a (some 0) ((r, s) :: bs) t = r.take a := by simp [specGo]

/-- Full property for a whole dgrep: selection by the engine on the line *without* its
    terminator.  False on the unchanged tree (the code asks the engine about `line ++ "\n"`). -/
def C03_full : Prop :=
  ∀ (B A M : Nat) (f : RFlag) (engine : Bytes → Bool) (raw : List Bytes),
    (dgrepLines B A M f engine raw).map (·.2)
      = grepSpec B A M (blocks (raw.map (fun l => (matchFlag f (engine (chomp l)), l)))).1
                       (blocks (raw.map (fun l => (matchFlag f (engine (chomp l)), l)))).2

/-- Outside the finding signature (an engine whose answer does not depend on the line
    terminator) the whole dgrep selects exactly what the specification prescribes. -/
theorem C03_partial (B A M : Nat) (f : RFlag) (engine : Bytes → Bool) (raw : List Bytes)
    (h : sigNlSensitive engine raw = false) :
    (dgrepLines B A M f engine raw).map (·.2)
      = grepSpec B A M (blocks (raw.map (fun l => (matchFlag f (engine (chomp l)), l)))).1
                       (blocks (raw.map (fun l => (matchFlag f (engine (chomp l)), l)))).2 := by
  have hmap : raw.map (fun l => (matchFlag f (engine l), l))
      = raw.map (fun l => (matchFlag f (engine (chomp l)), l)) := by
    apply List.map_congr_left
    intro l hl
    simp only [sigNlSensitive, List.any_eq_false] at h
    have := h l hl
    simp only [bne_iff_ne, ne_eq, Decidable.not_not] at this
    rw [this]
  rw [← C03_filter]
  unfold dgrepLines grepFilter
  simp only [hmap]
  split
  · exact plainN_snd _ 1
  · exact grunN_snd B A M _ 0 _

/-- Witness on the unchanged tree: the pattern `o$` (an engine answering "ends in 'o'")
    selects nothing from the line "foo\n". -/
theorem C03_full_false : ¬ C03_full := by
  intro h
  have := h 0 0 0 .default (fun l => l.getLast? = some 111) [[102, 111, 111, 10]]
  revert this; decide

/-- Non-vacuity of `C03_partial`: a non-trivial terminator-insensitive engine. -/
example : sigNlSensitive (fun l => l.contains 111) [[102, 111, 111, 10], [98, 10], [111]] = false := by
  decide

/-- **Tie G for the path without context options.**  `filterWithoutLContext` of readfilelcontext.go with `transmittable`
    and the statistics ring of internal/io/fs, translated on this run: a reader that may not skip lines (cat, grep, mapreduce)
    started on a fresh file sends exactly the selected lines, in file order, each once and each with its position in the
    file as its running number — the plain path of `dgrepLines`, whose contents are `gplain` and hence the block
    specification with no context (`C03_plain_path`). -/
theorem C03_generated_plain_filter (ext : Go.Ext) (re : Go.GoRegex) (raws : List Bytes) (f : Gen.Fs.readFile)
    (hc : f.canSkipLines = false) (h0 : f.stats.lineCount = 0) (hl : f.lines = []) :
    ((Gen.Fs.readFile.filterWithoutLContext ext f () raws () re).lines.map GenPlain.numOf)
      = (((GenPlain.judged ext re raws).zipIdx 1).filter (·.1.1)).map
          (fun (p : (Bool × Bytes) × Nat) => (((p.2 : Nat) : Int), p.1.2)) ∧
    ((Gen.Fs.readFile.filterWithoutLContext ext f () raws () re).lines.map (fun l => (GenPlain.numOf l).2))
      = grepSpec 0 0 0 (blocks (GenPlain.judged ext re raws)).1 (blocks (GenPlain.judged ext re raws)).2 := by
  obtain ⟨h1, _, _⟩ := GenPlain.plain_refines ext re raws f hc
  have hnum : (Gen.Fs.readFile.filterWithoutLContext ext f () raws () re).lines.map GenPlain.numOf
      = (((GenPlain.judged ext re raws).zipIdx 1).filter (·.1.1)).map
          (fun (p : (Bool × Bytes) × Nat) => (((p.2 : Nat) : Int), p.1.2)) := by
    rw [h1, hl, h0]
    have := GenPlain.plainNumbered_eq (GenPlain.judged ext re raws) 0
    simpa using this
  refine ⟨hnum, ?_⟩
  rw [← C03_plain_path]
  have : (Gen.Fs.readFile.filterWithoutLContext ext f () raws () re).lines.map (fun l => (GenPlain.numOf l).2)
      = ((Gen.Fs.readFile.filterWithoutLContext ext f () raws () re).lines.map GenPlain.numOf).map (·.2) := by
    rw [List.map_map]; rfl
  rw [this, hnum, List.map_map]
  unfold gplain
  generalize GenPlain.judged ext re raws = ls
  suffices h : ∀ (k : Nat), ((ls.zipIdx k).filter (·.1.1)).map
      ((fun (q : Int × Bytes) => q.2) ∘ fun (p : (Bool × Bytes) × Nat) => (((p.2 : Nat) : Int), p.1.2))
      = (ls.filter (·.1)).map (·.2) from h 1
  induction ls with
  | nil => intro k; rfl
  | cons p rest ih =>
    intro k
    obtain ⟨sel, x⟩ := p
    simp only [List.zipIdx_cons, List.filter_cons]
    cases sel
    · simp only [Bool.false_eq_true, if_false]; exact ih (k + 1)
    · simp only [if_true, List.map_cons, Function.comp]; rw [← ih (k + 1)]

end Dtail.C03
