/-
C10 — no client-supplied bytes can crash the server.

The modelled layer is everything between the bytes a client writes and the start of a reader
or an aggregator: server `Write` (split at ';'), handleCommand, handleProtocolVersion,
handleBase64, DeserializeOptions, handleUserCommand, readCommand.Start, regex.Deserialize,
newMapCommand / NewAggregate / NewQuery with the whole query front end (C11's model), and the
allocation of the before-context ring.  Every Go indexing and slicing operation of that code
is explicit in the model (`goIndex`, `goSlice`, `goSliceFrom` panic exactly where the Go
runtime would).
-/
import DtailModel.Lemmas.NoPanic
import DtailModel.Lemmas.GenDecode
import DtailModel.Lemmas.GenGrepPanic
import DtailModel.Lemmas.GenQuery
import DtailModel.Model.Base64
set_option autoImplicit false
namespace Dtail.C10
open Dtail

/-- **Decoding and dispatching a command never panics** — for every byte string and every
    behaviour of the external decoders (base64, regexp.Compile, strconv.ParseFloat): all
    argument-count guards cover the indexing they protect. -/
theorem C10_handle_never_panics (env : Env) (cmd : Bytes) : (handleCommand env cmd).isPanic = false :=
  handleCommand_noPanic env cmd

/-- the same for every command of every byte stream a client can write (server `Write` cuts the
    stream at ';') -/
theorem C10_stream_never_panics (env : Env) (stream : Bytes) (c : Bytes) (_ : c ∈ serverCommands stream) :
    (handleCommand env c).isPanic = false := handleCommand_noPanic env c

/-- the query front end alone (what `NewAggregate` hands to `NewQuery`) -/
theorem C10_query_never_panics (fl : FloatOracle) (q : Bytes) : (newQuery fl q).isPanic = false :=
  newQuery_noPanic fl q

/-- what a command does to the process up to the start of its reader: decode, dispatch, and
    for a read command allocate the before-context ring -/
def handleAndStart (env : Env) (cmd : Bytes) : Outcome Unit :=
  match handleCommand env cmd with
  | .ok ⟨.read _ ltx _ _, _⟩ => readerStart ltx
  | .ok _ => .ok ()
  | .err e => .err e
  | .panic p => .panic p

/-- the recorded finding's signature: a read command whose before-context exceeds what
    `make(chan, n)` accepts -/
def sigHugeBefore (env : Env) (cmd : Bytes) : Bool :=
  match handleCommand env cmd with
  | .ok ⟨.read _ ltx _ _, _⟩ => decide (ltx.before > makechanLimit)
  | _ => false

/-- the full property for the modelled layer -/
def C10_full : Prop := ∀ (env : Env) (cmd : Bytes), (handleAndStart env cmd).isPanic = false

/-- **Outside the recorded finding nothing a client sends panics the server**, and inside it
    the panic is exactly the `makechan` one: the modelled layer panics iff the command is a
    read command with a huge `before` option. -/
theorem C10_partial (env : Env) (cmd : Bytes) : (handleAndStart env cmd).isPanic = sigHugeBefore env cmd := by
  unfold handleAndStart sigHugeBefore
  have h := handleCommand_noPanic env cmd
  cases hr : handleCommand env cmd with
  | panic p => rw [hr] at h; exact absurd h (by simp [Outcome.NoPanic, Outcome.isPanic])
  | err e => rfl
  | ok hd =>
    obtain ⟨a, o⟩ := hd
    cases a with
    | read m ltx g re =>
      simp only [readerStart]
      by_cases hb : ltx.before > makechanLimit <;> simp [hb, Outcome.isPanic]
    | errorMessage w => rfl
    | map q p => rfl
    | ack c => rfl

/-- The one recorded finding: the before-context ring is allocated with the client's number.
    (`cat:before=4611686018427387904 /f regex:noop `, base64-encoded, with the real base64
    decoder.) -/
theorem C10_full_false : ¬ C10_full := by
  intro h
  have := h ⟨b64decode, fun _ => true, fun _ => none, b!"default"⟩
    (b!"protocol 4.1 base64 Y2F0OmJlZm9yZT00NjExNjg2MDE4NDI3Mzg3OTA0IC9mIHJlZ2V4Om5vb3Ag")
  revert this
  decide

/-- non-vacuity of `C10_partial` on the non-panicking side: an ordinary grep command is
    decoded, dispatched and started -/
example : handleAndStart ⟨b64decode, fun _ => true, fun _ => none, b!"default"⟩
    (b!"protocol 4.1 base64 Z3JlcDpiZWZvcmU9MiAvZiByZWdleDpkZWZhdWx0IGE=") = .ok () := by decide

/-! ### Tie G (panic-aware): the query parser as translated from the working tree on this run -/

open Dtail.Go Dtail.Gen.MaprQuery in
/-- **no query text crashes the server in the parser**: the `NewQuery` of the working tree (translated with every index
    and slice expression guarded) returns a query or an error for every byte string a client can put behind `map` -/
theorem C10_generated_query_parser_never_panics (ext : Ext) (q : Bytes) (hf : q.length + 1 < ext.fuel) :
    ∃ r, Gen.MaprQuery.NewQuery ext q = Outcome.ok r :=
  GenQuery.NewQuery_ok_text ext q hf

open Dtail.Go Dtail.Gen.MaprQuery in
/-- a query text has at most its length plus one tokens (`tokenize` as translated: split at '"', commas to blanks,
    `strings.Fields`) — which is why fuel beyond the length of the text is fuel beyond the number of tokens -/
theorem C10_generated_token_count (ext : Ext) (q : Bytes) : (Gen.MaprQuery.tokenize ext q).length ≤ q.length + 1 :=
  GenQuery.tokenize_length ext q

/-! ### Tie G (panic-aware): the command decoder as translated from the working tree on this run -/

/-- **No command string crashes the decoder of the working tree.**  `baseHandler.handleCommand` (with
    `handleProtocolVersion`, `handleBase64`) of internal/server/handlers and `config.DeserializeOptions` / `setOption`
    are translated on every run with every index and slice expression guarded; the effects of `handleCommand` outside
    the translated state (sending a message, starting the command) are dropped.  For every byte string between two
    ';' of the client's stream, every `base64` and every `strconv.Atoi`, none of the guards fails. -/
theorem C10_generated_command_decoder_never_panics (ext : Go.Ext) (h : Gen.Decode.baseHandler) (cmd : Bytes) :
    ∃ r, Gen.Decode.baseHandler.handleCommand ext h cmd = Outcome.ok r :=
  GenDecode.handleCommand_ok ext h cmd

/-- **No client bytes crash the server's `Write`.**  `baseHandler.Write` of internal/server/handlers — the entry point of
    everything a client sends — translated on this run: for every handler state (whatever is left in the write buffer) and
    every chunk of bytes, the function returns: it has taken all bytes, cut the stream at every ';' and passed each command
    through the translated `handleCommand`, and no guard failed anywhere below it. -/
theorem C10_generated_server_write_never_panics (ext : Go.Ext) (h : Gen.Decode.baseHandler) (p : Bytes) :
    ∃ h', Gen.Decode.baseHandler.Write ext h p = Outcome.ok (h', (p.length : Int), none) :=
  GenDecode.Write_ok ext h p

/-- **The recorded finding on the translated code.**  The grep-context filter of internal/io/fs/readfilelcontext.go as
    translated on this run (`make(chan *bytes.Buffer, ls.before)` guarded by the runtime's size limit): a `before` context
    beyond that limit makes the filter panic before it reads a single line — `C10-huge-before` is a property of the code as it
    stands in the working tree, not only of the hand-written `readerStart`. -/
theorem C10_generated_huge_before_panics (ext : Go.Ext) (ltx : Go.GoLContext) (hB : ltx.BeforeContext > makechanLimit)
    (f : Gen.Grep.readFile) (raws : List Bytes) (re : Go.GoRegex) :
    ∃ m, Gen.Grep.readFile.filterWithLContext ext f () ltx raws () re = Outcome.panic m :=
  ⟨_, GenGrep.filter_huge_before_panics ext ltx hB f raws re⟩

/-- the parts: the option decoder on any option list, the protocol check on any argument list, the envelope decoder
    whenever the count it is handed is the number of arguments (which is what the protocol check hands it) -/
theorem C10_generated_decoder_parts_never_panic (ext : Go.Ext) (h : Gen.Decode.baseHandler) (args : List Bytes) :
    GenQuery.IsOk (Gen.Config.DeserializeOptions ext args) ∧
    GenDecode.VersionOk (Gen.Decode.baseHandler.handleProtocolVersion ext h args) ∧
    GenDecode.Base64Ok (Gen.Decode.baseHandler.handleBase64 ext h args (args.length : Int)) :=
  ⟨GenDecode.DeserializeOptions_ok ext args, GenDecode.handleProtocolVersion_ok ext h args,
   GenDecode.handleBase64_ok ext h args _ rfl⟩

/-- the envelope decoder does rely on its caller: handed a count of 2 with fewer arguments it would index out of range -/
example : Gen.Decode.baseHandler.handleBase64 { parseFloat := fun _ => (0, none) } {} [] 2 = Outcome.panic "index out of range" := by decide

/-- **the command decoder of the working tree decodes what the model decodes**: started on a handler that has recorded
    nothing, the translated `handleCommand` invokes the command callback exactly once with the model's command name,
    argument count, arguments and line context and hands `handleOptions` a map that answers like the model's option
    list — or, where the model reports an error, starts nothing (`GenDecode.CmdMatches`).  The theorems of C12 about the
    model's decoder (`C12_roundtrip`: what the client encodes the server decodes) thereby speak about the server code as
    it is now. -/
theorem C10_generated_command_decoder_refines_model (ext : Go.Ext) (env : Env) (he : GenOptions.ExtIs ext env) (cmd : Bytes) :
    GenDecode.CmdMatches (decodeCommand env cmd) (Gen.Decode.baseHandler.handleCommand ext {} cmd) :=
  GenDecode.handleCommand_refines ext env he cmd

end Dtail.C10
