/-
C10 — no client-supplied bytes can crash the server.
-/
import DtailModel.Lemmas.Command
namespace Dtail.C10
open Dtail

/-- The one recorded finding: the before-context ring is allocated with the client's number. -/
theorem C10_full_false : ∃ ltx : LCtx, (readerStart ltx).isPanic = true :=
  ⟨⟨4611686018427387904, 0, 0⟩, by decide⟩

end Dtail.C10
