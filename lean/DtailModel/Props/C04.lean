/-
C04 — following a file delivers every appended line once, in order.
-/
import DtailModel.Lemmas.Tail
import DtailModel.Lemmas.GenStats
set_option autoImplicit false
namespace Dtail.C04
open Dtail

/-- **However the writer splits its writes** (and however the reader's polls fall), reading the
    appended bytes chunk by chunk leaves the reader in the same state as reading them at once:
    the same lines emitted, the same partial line held. -/
theorem C04_chunking (m : Nat) (chunks : List Bytes) :
    tailRead m chunks = readFrom m ⟨[], []⟩ chunks.flatten := tailRead_from m chunks _

/-- What is delivered and what is held: the emitted lines followed by the held partial line
    are the appended bytes (with the MaxLineLength splits); every emitted line is complete
    (newline terminated) and the held part contains no newline — so every complete appended
    line is emitted exactly once, unmodified, in order, and nothing else. -/
theorem C04_complete_lines (m : Nat) (chunks : List Bytes) :
    let s := tailRead m chunks
    s.out.flatten ++ s.msg = insertNL m 0 chunks.flatten
    ∧ (∀ l ∈ s.out, l.getLast? = some NL) ∧ NL ∉ s.msg := by
  intro s
  have hs : s = readFrom m ⟨[], []⟩ chunks.flatten := C04_chunking m chunks
  refine ⟨?_, ?_, ?_⟩
  · have h := readFrom_flatten m chunks.flatten ⟨[], []⟩
    simp only [List.flatten_nil, List.nil_append, List.length_nil] at h
    rw [hs, ← h]
    unfold eofFlush
    split
    · rename_i he; simp [he]
    · simp
  · rw [hs]; exact readFrom_out_terminated m _ _ (by simp)
  · rw [hs]; exact (readFrom_wf m _ ⟨[], []⟩ (by simp) (by simp)).1

/-- nothing that was in the file before the follow began is delivered: the reader starts
    from an empty state at the end of the file, so its output depends on the appended bytes only -/
theorem C04_only_appended (m : Nat) (chunks : List Bytes) :
    (tailRead m chunks).out = (readFrom m ⟨[], []⟩ chunks.flatten).out := by rw [C04_chunking]

theorem statsInit_inv : StatsInv statsInit := by
  refine ⟨by simp [statsInit], by simp [statsInit], ?_, ?_, ?_, by decide⟩
  · simp [statsInit, countTrue]
  · simp [statsInit, countTrue]
  · intro i hi; simp [statsInit, List.getD_eq_getElem?_getD, List.getElem?_replicate] at hi
    split at hi <;> simp at hi

/-- the ring after a sequence of lines (regex answer and queue state per line) -/
def runLines (canSkip : Bool) (s : Stats) : List (Bool × Bool) → Stats
  | [] => s
  | (mt, full) :: rest => runLines canSkip (processLine canSkip s mt full).1 rest

/-- **The ring invariant holds after every sequence of lines**: the counters count the flags,
    transmitted ≤ matched, hence the percentage never exceeds 100. -/
theorem C04_stats_inv (canSkip : Bool) (ls : List (Bool × Bool)) :
    StatsInv (runLines canSkip statsInit ls) := by
  have gen : ∀ (ls : List (Bool × Bool)) (s : Stats), StatsInv s → StatsInv (runLines canSkip s ls) := by
    intro ls
    induction ls with
    | nil => intro s h; exact h
    | cons p rest ih =>
      intro s h
      obtain ⟨mt, full⟩ := p
      exact ih _ (processLine_spec canSkip s mt full h).1
  exact gen ls _ statsInit_inv

theorem percentOf_le (m t : Nat) (h : t ≤ m) : percentOf m t ≤ 100 := by
  unfold percentOf
  have hdiv : ∀ hm : 0 < m, (100 * t) / m ≤ 100 := fun hm => Nat.div_le_of_le_mul (by
      have : 100 * t ≤ 100 * m := Nat.mul_le_mul_left _ h
      simpa [Nat.mul_comm] using this)
  split
  · exact Nat.le_refl _
  · rename_i hc
    have hm : 0 < m := by omega
    have := hdiv hm
    split <;> omega

theorem percentOf_lt (m t : Nat) (h : t < m) : percentOf m t < 100 := by
  unfold percentOf
  have hc : ¬ (m = 0 ∨ m = t) := by omega
  simp only [hc, if_false]
  have hlt : (100 * t) / m < 100 := (Nat.div_lt_iff_lt_mul (by omega)).2 (by
    have : 100 * t < 100 * m := Nat.mul_lt_mul_of_pos_left h (by decide)
    simpa [Nat.mul_comm] using this)
  split <;> omega

/-- a line is dropped exactly when it matches, the reader may skip (tail mode) and the
    delivery queue is full -/
theorem C04_drop_iff_full (canSkip : Bool) (s : Stats) (mt full : Bool) (h : StatsInv s) :
    (processLine canSkip s mt full).2.1 = .dropped ↔ mt = true ∧ canSkip = true ∧ full = true :=
  (processLine_spec canSkip s mt full h).2.2.2.2.2.2.2

/-- cat and grep readers (canSkipLines = false) never drop -/
theorem C04_cat_never_drops (s : Stats) (mt full : Bool) (h : StatsInv s) :
    (processLine Facts.catCanSkipLines s mt full).2.1 ≠ .dropped := by
  intro hd
  have := (C04_drop_iff_full Facts.catCanSkipLines s mt full h).1 hd
  exact absurd this.2.1 (by decide)

/-- while a slot is matched but not transmitted the reported percentage is below 100 -/
theorem C04_gap_below_100 (s : Stats) (h : StatsInv s) (p : Nat)
    (hgap : s.matched.getD p false = true ∧ s.transmitted.getD p false = false) :
    percentOf s.matchCount s.transmitCount < 100 := by
  obtain ⟨hml, htl, hmc, htc, himp, _⟩ := h
  rw [hmc, htc]
  exact percentOf_lt _ _ (countTrue_lt_of_gap s.transmitted s.matched (by rw [htl, hml]) himp p hgap)

/-- **After a drop the next delivered line reports less than 100** — provided fewer than
    `ringSize` lines of the file were processed in between (after that the dropped line's slot
    is recycled; see the recorded finding).  Stated for every run of `k < ringSize − 1` further
    lines, whatever they are, followed by a delivered line. -/
theorem C04_perc_after_drop_partial (s : Stats) (h : StatsInv s) (mt full : Bool)
    (hdrop : (processLine true s mt full).2.1 = .dropped)
    (between : List (Bool × Bool)) (hk : between.length + 1 < ringSize) (mt' full' : Bool)
    (hdel : (processLine true (runLines true (processLine true s mt full).1 between) mt' full').2.1 = .delivered) :
    (processLine true (runLines true (processLine true s mt full).1 between) mt' full').2.2.2 < 100 := by
  -- the slot of the dropped line
  obtain ⟨hinv0, hpos0, _, _, hm0, ht0, _, _⟩ := processLine_spec true s mt full h
  have hgap0 : (processLine true s mt full).1.matched.getD ((s.pos + 1) % ringSize) false = true
      ∧ (processLine true s mt full).1.transmitted.getD ((s.pos + 1) % ringSize) false = false := by
    rw [hm0, ht0, hdrop]; exact ⟨rfl, rfl⟩
  -- it survives every line that lands on another slot
  have keep : ∀ (ls : List (Bool × Bool)) (t : Stats) (j : Nat), StatsInv t →
      t.pos = ((s.pos + 1) + j) % ringSize → j + ls.length < ringSize →
      (t.matched.getD ((s.pos + 1) % ringSize) false = true ∧ t.transmitted.getD ((s.pos + 1) % ringSize) false = false) →
      StatsInv (runLines true t ls) ∧ (runLines true t ls).pos = ((s.pos + 1) + (j + ls.length)) % ringSize ∧
      ((runLines true t ls).matched.getD ((s.pos + 1) % ringSize) false = true
        ∧ (runLines true t ls).transmitted.getD ((s.pos + 1) % ringSize) false = false) := by
    intro ls
    induction ls with
    | nil => intro t j ht hp _ hg; exact ⟨ht, hp, hg⟩
    | cons q rest ih =>
      intro t j ht hp hlen hg
      obtain ⟨a, b⟩ := q
      simp only [List.length_cons] at hlen
      obtain ⟨hi, hpos, _, hother, _⟩ := processLine_spec true t a b ht
      have hpn : (processLine true t a b).1.pos = ((s.pos + 1) + (j + 1)) % ringSize := by
        rw [hpos, hp, mod_step]; rfl
      have hne : (s.pos + 1) % ringSize ≠ (t.pos + 1) % ringSize := by
        rw [hp, mod_step]
        exact mod_ne_of_lt (s.pos + 1) (j + 1) ringSize (by omega) (by omega)
      have hg' := hother _ hne
      have := ih (processLine true t a b).1 (j + 1) hi hpn (by omega)
        ⟨by rw [hg'.1]; exact hg.1, by rw [hg'.2]; exact hg.2⟩
      simp only [runLines, List.length_cons]
      refine ⟨this.1, ?_, this.2.2⟩
      rw [this.2.1]; congr 1; omega
  obtain ⟨hinvB, hposB, hgapB⟩ := keep between _ 0 hinv0 (by rw [hpos0]) (by omega) hgap0
  -- the delivered line lands on yet another slot, so the gap is still there when its percentage is computed
  obtain ⟨hinvD, hposD, _, hotherD, _⟩ := processLine_spec true _ mt' full' hinvB
  have hneD : (s.pos + 1) % ringSize ≠ ((runLines true (processLine true s mt full).1 between).pos + 1) % ringSize := by
    rw [hposB, mod_step]
    exact mod_ne_of_lt (s.pos + 1) (0 + between.length + 1) ringSize (by omega) (by omega)
  have hgD := hotherD _ hneD
  have hperc := (processLine_delivered_perc true _ mt' full' hdel).1
  rw [hperc]
  exact C04_gap_below_100 _ hinvD ((s.pos + 1) % ringSize)
    ⟨by rw [hgD.1]; exact hgapB.1, by rw [hgD.2]; exact hgapB.2⟩

/-- **Tie G: the statistics code translated from the working tree refines the model.**
    `Generated/Code.lean` holds `stats.updatePosition`, the four `updateLine…` methods and
    `readFile.transmittable` as /verif/extract translated them, statement by statement, from
    internal/io/fs/stats.go and readfile.go on this run.  For every translated ring whose integers
    are non-negative and whose counters count its flags, for every regex answer and queue state:
    `updatePosition` is the model's `updatePosition`, and `transmittable` is the rest of the model's
    `processLine` — same ring, same fate (delivered / not), and a delivered line carries the model's
    line count and percentage.  The theorems above therefore speak about the code as it is now. -/
theorem C04_generated_code_refines_model (ext : Go.Ext) (g : Gen.Fs.readFile) (raw : Go.GoString) (len cap : Int)
    (re : Go.GoRegex) (hn : GenStats.NonNeg g.stats) (hc : GenStats.Counted g.stats)
    (hperc : ∀ m t : Int, 0 ≤ m → 0 ≤ t → ext.percentOf m t = (percentOf m.toNat t.toNat : Int)) :
    GenStats.abs (Gen.Fs.stats.updatePosition ext g.stats) = updatePosition (GenStats.abs g.stats) ∧
    GenStats.NonNeg (Gen.Fs.stats.updatePosition ext g.stats) ∧
    (let r := Gen.Fs.readFile.transmittable ext g raw len cap re
     let a := GenStats.afterPos g.canSkipLines (GenStats.abs g.stats) (ext.reMatch re raw) (decide (len ≥ cap))
     GenStats.abs r.1.stats = a.1 ∧ (r.2.2 = true ↔ a.2.1 = .delivered) ∧
     (r.2.2 = true → r.2.1 = Go.GoLine.new raw a.2.2.1 a.2.2.2 g.globID) ∧ (r.2.2 = false → r.2.1 = .null)) ∧
    (∀ s m q, processLine g.canSkipLines s m q = GenStats.afterPos g.canSkipLines (updatePosition s) m q) := by
  have h1 := GenStats.updatePosition_refines ext g.stats hn
  have h2 := GenStats.transmittable_refines ext g raw len cap re hn hc hperc
  exact ⟨h1.1, h1.2, ⟨h2.1, h2.2.2.2.2.1, h2.2.2.2.2.2.1, h2.2.2.2.2.2.2⟩, fun s m q => GenStats.processLine_eq_afterPos _ s m q⟩

/-- non-vacuity: the zero value of the translated ring is the model's initial ring and meets the hypotheses -/
example : GenStats.abs ({} : Gen.Fs.stats) = statsInit ∧ GenStats.NonNeg ({} : Gen.Fs.stats) ∧ GenStats.Counted ({} : Gen.Fs.stats) := by
  refine ⟨GenStats.zero_abs.1, GenStats.zero_abs.2, ?_⟩
  simp [GenStats.Counted, Go.GoZero.zero, countTrue]

end Dtail.C04
