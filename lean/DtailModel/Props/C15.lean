/-
C15 — a mapreduce outfile is never observable half-written.
-/
import DtailModel.Lemmas.Outfile
import DtailModel.Lemmas.GenOutfile
set_option autoImplicit false
namespace Dtail.C15
open Dtail

theorem ne_append_right (a b : Bytes) (hb : b ≠ []) : a ≠ a ++ b := by
  intro h
  have := congrArg List.length h
  simp only [List.length_append] at this
  have : b.length = 0 := by omega
  exact hb (List.eq_nil_of_length_eq_zero this)

/-- the operations before the final rename of a non-append write -/
def preOps (r : OutReq) : List FOp :=
  [FOp.openTrunc (r.path ++ QUERYEXT ++ TMP), .write (r.path ++ QUERYEXT ++ TMP) r.rawQuery,
   .rename (r.path ++ QUERYEXT ++ TMP) (r.path ++ QUERYEXT), .openTrunc (r.path ++ TMP)]
   ++ csvLineWrites (r.path ++ TMP) r.header ++ (limitedRows r).flatMap (csvLineWrites (r.path ++ TMP))

theorem ops_noappend (fs : FS) (r : OutReq) (h : r.append = false) :
    writeResultOps fs r = preOps r ++ (if r.final then [FOp.rename (r.path ++ TMP) r.path] else []) := by
  simp [writeResultOps, preOps, needHeader, h]

theorem tmp_ne (p : Bytes) : p ≠ p ++ TMP := ne_append_right p TMP (by decide)
theorem qf_ne (p : Bytes) : p ≠ p ++ QUERYEXT := ne_append_right p QUERYEXT (by decide)
theorem qtmp_ne (p : Bytes) : p ≠ p ++ QUERYEXT ++ TMP := by
  rw [List.append_assoc]; exact ne_append_right p _ (by decide)

theorem preOps_untouched (r : OutReq) : ∀ op ∈ preOps r, op.touches r.path = false := by
  intro op hop
  simp only [preOps, List.mem_append, List.mem_cons, List.mem_nil_iff, or_false, List.mem_flatMap] at hop
  have h1 := tmp_ne r.path
  have h2 := qf_ne r.path
  have h3 := qtmp_ne r.path
  have hw : ∀ vals, ∀ o ∈ csvLineWrites (r.path ++ TMP) vals, o.touches r.path = false := by
    intro vals o ho
    obtain ⟨d, rfl⟩ := csvLineWrites_all _ vals o ho
    exact beq_eq_false_iff_ne.2 (Ne.symm h1)
  have b1 : ((r.path ++ TMP) == r.path) = false := beq_eq_false_iff_ne.2 (Ne.symm h1)
  have b2 : ((r.path ++ QUERYEXT) == r.path) = false := beq_eq_false_iff_ne.2 (Ne.symm h2)
  have b3 : ((r.path ++ QUERYEXT ++ TMP) == r.path) = false := beq_eq_false_iff_ne.2 (Ne.symm h3)
  rcases hop with ((rfl | rfl | rfl | rfl) | h) | ⟨row, _, h⟩
  · exact b3
  · exact b3
  · show ((r.path ++ QUERYEXT ++ TMP) == r.path || (r.path ++ QUERYEXT) == r.path) = false
    rw [b3, b2]; rfl
  · exact b1
  · exact hw _ _ h
  · exact hw _ _ h

/-- after all operations but the rename: the temporary file holds the complete result and
    the .query file holds the query text -/
theorem after_preOps (fs : FS) (r : OutReq) :
    fsGet (applyOps fs (preOps r)) (r.path ++ TMP) = some (completeResult r) ∧
    fsGet (applyOps fs (preOps r)) (r.path ++ QUERYEXT) = some r.rawQuery := by
  have hdist1 : r.path ++ TMP ≠ r.path ++ QUERYEXT := by
    intro h; have := List.append_cancel_left h; revert this; decide
  have hdist2 : r.path ++ QUERYEXT ≠ r.path ++ QUERYEXT ++ TMP := ne_append_right _ TMP (by decide)
  -- the four leading operations
  let fs1 := applyOp fs (.openTrunc (r.path ++ QUERYEXT ++ TMP))
  let fs2 := applyOp fs1 (.write (r.path ++ QUERYEXT ++ TMP) r.rawQuery)
  let fs3 := applyOp fs2 (.rename (r.path ++ QUERYEXT ++ TMP) (r.path ++ QUERYEXT))
  let fs4 := applyOp fs3 (.openTrunc (r.path ++ TMP))
  have e1 : fsGet fs1 (r.path ++ QUERYEXT ++ TMP) = some [] := by
    show fsGet (fsSet fs _ []) _ = _; rw [fsGet_fsSet, if_pos rfl]
  have e2 : fsGet fs2 (r.path ++ QUERYEXT ++ TMP) = some r.rawQuery := by
    show fsGet (fsSet fs1 _ _) _ = _; rw [fsGet_fsSet, if_pos rfl, e1]; rfl
  have e3 : fsGet fs3 (r.path ++ QUERYEXT) = some r.rawQuery := by
    show fsGet (match fsGet fs2 (r.path ++ QUERYEXT ++ TMP) with | none => fs2 | some c => fsSet (fsDel fs2 _) _ c) _ = _
    rw [e2]; show fsGet (fsSet _ _ _) _ = _; rw [fsGet_fsSet, if_pos rfl]
  have e4a : fsGet fs4 (r.path ++ TMP) = some [] := by
    show fsGet (fsSet fs3 _ []) _ = _; rw [fsGet_fsSet, if_pos rfl]
  have e4b : fsGet fs4 (r.path ++ QUERYEXT) = some r.rawQuery := by
    show fsGet (fsSet fs3 _ []) _ = _; rw [fsGet_fsSet, if_neg (Ne.symm hdist1), e3]
  have hsplit : applyOps fs (preOps r)
      = applyOps fs4 (csvLineWrites (r.path ++ TMP) r.header ++ (limitedRows r).flatMap (csvLineWrites (r.path ++ TMP))) := by
    simp [applyOps, preOps, fs4, fs3, fs2, fs1, List.foldl_append]
  have hall : allWritesTo (r.path ++ TMP)
      (csvLineWrites (r.path ++ TMP) r.header ++ (limitedRows r).flatMap (csvLineWrites (r.path ++ TMP))) := by
    intro op hop
    rcases List.mem_append.1 hop with h | h
    · exact csvLineWrites_all _ _ op h
    · obtain ⟨row, _, h⟩ := List.mem_flatMap.1 h; exact csvLineWrites_all _ _ op h
  have hdata : writesData (csvLineWrites (r.path ++ TMP) r.header ++ (limitedRows r).flatMap (csvLineWrites (r.path ++ TMP)))
      = completeResult r := by
    rw [writesData_append, csvLineWrites_data]
    unfold completeResult
    congr 1
    induction limitedRows r with
    | nil => rfl
    | cons row rows ih => simp [List.flatMap_cons, writesData_append, csvLineWrites_data, ih]
  refine ⟨?_, ?_⟩
  · rw [hsplit, applyOps_writes fs4 _ _ [] hall e4a, hdata]; rfl
  · rw [hsplit, applyOps_untouched fs4 _ (r.path ++ QUERYEXT) ?_, e4b]
    intro op hop
    obtain ⟨d, rfl⟩ := hall op hop
    simp [FOp.touches, hdist1]

/-- **No half-written outfile.** Without `append`, for every earlier state of the file system,
    every result and every crash point `k` (the first `k` operations happened): the outfile
    path holds what it held before (absent or an earlier complete result), or the complete
    new result with its header — and in that case the .query file holds the query text. -/
theorem C15_noappend (fs : FS) (r : OutReq) (k : Nat) (h : r.append = false) :
    let fs' := applyOps fs ((writeResultOps fs r).take k)
    fsGet fs' r.path = fsGet fs r.path ∨
    (fsGet fs' r.path = some (completeResult r) ∧ fsGet fs' (r.path ++ QUERYEXT) = some r.rawQuery) := by
  intro fs'
  have hops := ops_noappend fs r h
  have hpre : ∀ j, fsGet (applyOps fs ((preOps r).take j)) r.path = fsGet fs r.path := by
    intro j
    apply applyOps_untouched
    intro op hop
    exact preOps_untouched r op (List.mem_of_mem_take hop)
  by_cases hk : k ≤ (preOps r).length
  · left
    have : (writeResultOps fs r).take k = (preOps r).take k := by
      rw [hops, List.take_append_of_le_length hk]
    show fsGet (applyOps fs ((writeResultOps fs r).take k)) r.path = _
    rw [this]; exact hpre k
  · by_cases hf : r.final = true
    · right
      have : (writeResultOps fs r).take k = preOps r ++ [FOp.rename (r.path ++ TMP) r.path] := by
        rw [hops, if_pos hf]
        apply List.take_of_length_le
        simp only [List.length_append, List.length_cons, List.length_nil]; omega
      show fsGet (applyOps fs ((writeResultOps fs r).take k)) r.path = _ ∧
        fsGet (applyOps fs ((writeResultOps fs r).take k)) (r.path ++ QUERYEXT) = _
      rw [this]
      obtain ⟨ht, hq⟩ := after_preOps fs r
      have happ : applyOps fs (preOps r ++ [FOp.rename (r.path ++ TMP) r.path])
          = applyOp (applyOps fs (preOps r)) (.rename (r.path ++ TMP) r.path) := by
        simp [applyOps, List.foldl_append]
      rw [happ]
      constructor
      · show fsGet (match fsGet (applyOps fs (preOps r)) (r.path ++ TMP) with
            | none => _ | some c => fsSet (fsDel _ _) _ c) _ = _
        rw [ht]; show fsGet (fsSet _ _ _) _ = _; rw [fsGet_fsSet, if_pos rfl]
      · rw [applyOp_untouched _ _ _ (by
          simp only [FOp.touches, Bool.or_eq_false_iff, beq_eq_false_iff_ne, ne_eq]
          constructor
          · intro e; have := List.append_cancel_left e; revert this; decide
          · exact qf_ne r.path), hq]
    · left
      have : (writeResultOps fs r).take k = preOps r := by
        rw [hops, if_neg hf, List.append_nil]
        apply List.take_of_length_le; omega
      show fsGet (applyOps fs ((writeResultOps fs r).take k)) r.path = _
      rw [this]
      exact applyOps_untouched fs _ _ (preOps_untouched r)

/-- **Append never alters earlier rows.** With `append`, whatever the crash point, what the
    outfile held before is a prefix of what it holds afterwards. -/
theorem C15_append_prefix (fs : FS) (r : OutReq) (k : Nat) (h : r.append = true) :
    ((fsGet fs r.path).getD []).isPrefixOf
      ((fsGet (applyOps fs ((writeResultOps fs r).take k)) r.path).getD []) = true := by
  -- every operation either leaves the outfile alone, creates it empty when absent, or appends to it
  have hstep : ∀ (ops : List FOp) (fs0 : FS) (c : Bytes),
      (∀ op ∈ ops, op.touches r.path = false ∨ op = .openAppend r.path ∨ ∃ d, op = .write r.path d) →
      c.isPrefixOf ((fsGet fs0 r.path).getD []) = true →
      c.isPrefixOf ((fsGet (applyOps fs0 ops) r.path).getD []) = true := by
    intro ops
    induction ops with
    | nil => intro fs0 c _ hc; exact hc
    | cons op rest ih =>
      intro fs0 c hall hc
      simp only [applyOps, List.foldl_cons]
      apply ih (applyOp fs0 op) c (fun o ho => hall o (List.mem_cons_of_mem _ ho))
      rcases hall op (by simp) with hu | rfl | ⟨d, rfl⟩
      · rw [applyOp_untouched fs0 op _ hu]; exact hc
      · show c.isPrefixOf ((fsGet (match fsGet fs0 r.path with | none => fsSet fs0 r.path [] | some _ => fs0) r.path).getD []) = true
        cases hg : fsGet fs0 r.path with
        | none => rw [hg] at hc; show c.isPrefixOf ((fsGet (fsSet fs0 r.path []) r.path).getD []) = true
                  rw [fsGet_fsSet, if_pos rfl]; simpa using hc
        | some x => simpa [hg] using hc
      · show c.isPrefixOf ((fsGet (fsSet fs0 r.path ((fsGet fs0 r.path).getD [] ++ d)) r.path).getD []) = true
        rw [fsGet_fsSet, if_pos rfl]
        simp only [Option.getD_some]
        rw [List.isPrefixOf_iff_prefix] at hc ⊢
        exact hc.trans (List.prefix_append _ _)
  apply hstep
  · intro op hop
    have hop' := List.mem_of_mem_take hop
    have h2 := qf_ne r.path
    have h3 := qtmp_ne r.path
    have b2 : ((r.path ++ QUERYEXT) == r.path) = false := beq_eq_false_iff_ne.2 (Ne.symm h2)
    have b3 : ((r.path ++ QUERYEXT ++ TMP) == r.path) = false := beq_eq_false_iff_ne.2 (Ne.symm h3)
    have hshape : ∃ hdr : List FOp, (hdr = csvLineWrites r.path r.header ∨ hdr = []) ∧
        writeResultOps fs r =
        [FOp.openTrunc (r.path ++ QUERYEXT ++ TMP), .write (r.path ++ QUERYEXT ++ TMP) r.rawQuery,
         .rename (r.path ++ QUERYEXT ++ TMP) (r.path ++ QUERYEXT)] ++ [FOp.openAppend r.path]
        ++ hdr ++ (limitedRows r).flatMap (csvLineWrites r.path) := by
      cases hcond : needHeader fs r with
      | true => exact ⟨_, Or.inl rfl, by simp [writeResultOps, h, hcond]⟩
      | false => exact ⟨_, Or.inr rfl, by simp [writeResultOps, h, hcond]⟩
    obtain ⟨hdr, hhdr, hshape⟩ := hshape
    rw [hshape] at hop'
    rcases List.mem_append.1 hop' with hx | hx
    · rcases List.mem_append.1 hx with hx | hx
      · rcases List.mem_append.1 hx with hx | hx
        · left
          simp only [List.mem_cons, List.mem_nil_iff, or_false] at hx
          rcases hx with rfl | rfl | rfl
          · exact b3
          · exact b3
          · show ((r.path ++ QUERYEXT ++ TMP) == r.path || (r.path ++ QUERYEXT) == r.path) = false
            rw [b3, b2]; rfl
        · right; left; simpa using hx
      · right; right
        rcases hhdr with rfl | rfl
        · exact csvLineWrites_all _ _ op hx
        · simp at hx
    · right; right
      obtain ⟨row, _, hrow⟩ := List.mem_flatMap.1 hx
      exact csvLineWrites_all _ _ op hrow
  · rw [List.isPrefixOf_iff_prefix]; exact List.prefix_refl _

/-- **Tie G: the file operations of the translated `WriteResult` are the model's `writeResultOps`.**  `WriteResult`,
    `writeQueryFile`, `getOutfileFD`, `resultWriteUnformatted` and `resultWriteUnformattedHeader` of
    internal/mapr/groupsetresult.go, translated on this run with every file operation recorded in order: when no operation
    fails, `os.Stat` answers for the file system `fs`, the query has an outfile and every row carries one value per column
    (what `GroupSet.result` builds), the translated function does not panic (no nil dereference of `query.Outfile`), returns
    no error, and has performed exactly the operations of `writeResultOps fs r` — the sequence whose every prefix the crash
    theorems above are about. -/
theorem C15_generated_writeresult_is_model_ops (ext : Go.Ext) (hio : GenOutfile.NoIOErr ext) (fs : FS)
    (hstat : GenOutfile.StatAgrees ext fs) (g : Gen.Outfile.GroupSet) (query : Gen.Outfile.Query) (o : Gen.Outfile.Outfile)
    (ho : query.Outfile = some o) (final : Bool) (hrows : ∀ row ∈ ext.rowValues, row.length = query.Select.length) :
    Gen.Outfile.GroupSet.WriteResult ext g query final
      = Outcome.ok (⟨g.ops ++ (writeResultOps fs (GenOutfile.reqOf ext query o final)).map GenOutfile.ofFOp⟩, none) :=
  GenOutfile.WriteResult_refines ext hio fs hstat g query o ho final hrows

/-- **No half-written outfile, on the translated code.**  Kill the process after any number `k` of the file operations the
    translated `WriteResult` performs (replace mode, starting from an empty history): the outfile path holds what it held
    before, or the complete new result — and then the .query file holds the query text. -/
theorem C15_generated_no_half_written (ext : Go.Ext) (hio : GenOutfile.NoIOErr ext) (fs : FS)
    (hstat : GenOutfile.StatAgrees ext fs) (query : Gen.Outfile.Query) (o : Gen.Outfile.Outfile)
    (ho : query.Outfile = some o) (final : Bool) (hrows : ∀ row ∈ ext.rowValues, row.length = query.Select.length)
    (happ : o.AppendMode = false) (k : Nat) :
    ∃ g' e, Gen.Outfile.GroupSet.WriteResult ext {} query final = Outcome.ok (g', e) ∧
      let r := GenOutfile.reqOf ext query o final
      let fs' := applyOps fs ((g'.ops.take k).filterMap GenOutfile.toFOp)
      (fsGet fs' r.path = fsGet fs r.path ∨
        (fsGet fs' r.path = some (completeResult r) ∧ fsGet fs' (r.path ++ QUERYEXT) = some r.rawQuery)) := by
  refine ⟨_, _, GenOutfile.WriteResult_refines ext hio fs hstat {} query o ho final hrows, ?_⟩
  have hk : ∀ (l : List FOp), ((l.map GenOutfile.ofFOp).take k).filterMap GenOutfile.toFOp = l.take k := by
    intro l
    rw [← List.map_take, List.filterMap_map]
    have : (GenOutfile.toFOp ∘ GenOutfile.ofFOp) = some := by funext x; exact GenOutfile.toFOp_ofFOp x
    rw [this, List.filterMap_some]
  show _ ∨ _
  have he : ({} : Gen.Outfile.GroupSet).ops = [] := rfl
  simp only [he, List.nil_append, hk]
  exact C15_noappend fs (GenOutfile.reqOf ext query o final) k happ

/-- **Whatever file operation fails, the translated `WriteResult` returns.**  For every behaviour of the file system
    (`ext.ioErr` decides for each operation, given the history, whether it fails), of `os.Stat` and for every result: with
    an outfile in the query the function ends in a normal return — with the error of the failing operation, after removing
    the temporary file when the final rename failed — and never in a nil dereference or any other panic. -/
theorem C15_generated_writeresult_never_panics (ext : Go.Ext) (g : Gen.Outfile.GroupSet) (query : Gen.Outfile.Query)
    (o : Gen.Outfile.Outfile) (ho : query.Outfile = some o) (final : Bool) :
    ∃ r, Gen.Outfile.GroupSet.WriteResult ext g query final = Outcome.ok r :=
  GenOutfile.WriteResult_returns ext g query o ho final

/-- **Whatever fails, what was done is a prefix of the model's operations.**  For every behaviour of the file system
    (`ext.ioErr` decides for each operation, given the history, whether it fails): the translated `WriteResult` returns, and
    the model operations among those it performed after `g.ops` (the `os.Remove` of the temporary file after a failed rename has
    none) are a prefix of `writeResultOps fs r` — the sequence whose every prefix the crash theorems are about — and all of it
    when no error is reported.  A change that goes on writing after a failed operation, reorders two operations on an error
    path, or reports success after a failure breaks this theorem. -/
theorem C15_generated_failures_leave_a_prefix (ext : Go.Ext) (fs : FS) (hstat : GenOutfile.StatAgrees ext fs)
    (g : Gen.Outfile.GroupSet) (query : Gen.Outfile.Query) (o : Gen.Outfile.Outfile) (ho : query.Outfile = some o)
    (final : Bool) (hrows : ∀ row ∈ ext.rowValues, row.length = query.Select.length) :
    ∃ g' e pre, Gen.Outfile.GroupSet.WriteResult ext g query final = Outcome.ok (g', e) ∧ g'.ops = g.ops ++ pre ∧
      pre.filterMap GenOutfile.toFOp <+: writeResultOps fs (GenOutfile.reqOf ext query o final) ∧
      (e = none → pre.filterMap GenOutfile.toFOp = writeResultOps fs (GenOutfile.reqOf ext query o final)) :=
  GenOutfile.WriteResult_any_model ext fs hstat g query o ho final hrows

/-- **No half-written outfile under failing file operations and a crash, on the translated code.**  Replace mode, any
    behaviour of `ext.ioErr`, the process killed after any number `k` of the operations the translated `WriteResult` got to
    perform: the outfile path holds what it held before, or the complete new result (and then the .query file holds the query
    text).  (The removal of the temporary file after a failed rename touches neither path and is not replayed.) -/
theorem C15_generated_no_half_written_under_failures (ext : Go.Ext) (fs : FS) (hstat : GenOutfile.StatAgrees ext fs)
    (query : Gen.Outfile.Query) (o : Gen.Outfile.Outfile) (ho : query.Outfile = some o) (final : Bool)
    (hrows : ∀ row ∈ ext.rowValues, row.length = query.Select.length) (happ : o.AppendMode = false) (k : Nat) :
    ∃ g' e, Gen.Outfile.GroupSet.WriteResult ext {} query final = Outcome.ok (g', e) ∧
      let r := GenOutfile.reqOf ext query o final
      let fs' := applyOps fs ((g'.ops.take k).filterMap GenOutfile.toFOp)
      (fsGet fs' r.path = fsGet fs r.path ∨
        (fsGet fs' r.path = some (completeResult r) ∧ fsGet fs' (r.path ++ QUERYEXT) = some r.rawQuery)) := by
  obtain ⟨g', e, pre, hr, hops, hpre, _⟩ := GenOutfile.WriteResult_any_model ext fs hstat {} query o ho final hrows
  refine ⟨g', e, hr, ?_⟩
  have he : ({} : Gen.Outfile.GroupSet).ops = [] := rfl
  rw [he, List.nil_append] at hops
  have h1 : (pre.take k).filterMap GenOutfile.toFOp <+: writeResultOps fs (GenOutfile.reqOf ext query o final) :=
    (List.IsPrefix.filterMap GenOutfile.toFOp (List.take_prefix k pre)).trans hpre
  have h2 := List.prefix_iff_eq_take.1 h1
  show _ ∨ _
  rw [hops, h2]
  exact C15_noappend fs (GenOutfile.reqOf ext query o final) _ happ

/-- non-vacuity: the fourth operation (opening the temporary outfile) fails: the query file is complete, nothing else was
    touched, the error comes back -/
example :
    let failFourth : List Go.GoFOp → Go.GoFOp → Go.GoErr := fun h _ => if h.length = 3 then some (b!"disk full") else none
    let ext : Go.Ext := { parseFloat := fun _ => (0, none), rowValues := [[b!"1"]], ioErr := failFourth }
    let q : Gen.Outfile.Query := { Select := [⟨b!"a"⟩], Limit := -1, Outfile := some ⟨b!"/d/o", false⟩, RawQuery := b!"q" }
    (match Gen.Outfile.GroupSet.WriteResult ext {} q true with
      | .ok (g, some _) => g.ops.length
      | _ => 0) = 3 := by decide

/-- non-vacuity of the two theorems about failing runs: a rename that fails (the ninth operation) — the hypotheses hold
    (`os.Stat` answers for the empty file system), what was performed is the first eight operations of the model's nine, and an
    error comes back -/
example :
    let failNinth : List Go.GoFOp → Go.GoFOp → Go.GoErr := fun h _ => if h.length = 8 then some (b!"no space") else none
    let ext : Go.Ext := { parseFloat := fun _ => (0, none), rowValues := [[b!"1"]], ioErr := failNinth, osStat := fun _ => ({}, some []) }
    let o : Gen.Outfile.Outfile := ⟨b!"/d/o", false⟩
    let q : Gen.Outfile.Query := { Select := [⟨b!"a"⟩], Limit := -1, Outfile := some o, RawQuery := b!"q" }
    GenOutfile.StatAgrees ext [] ∧ (∀ row ∈ ext.rowValues, row.length = q.Select.length) ∧
    (match Gen.Outfile.GroupSet.WriteResult ext {} q true with
      | .ok (g, some _) => g.ops.filterMap GenOutfile.toFOp == (writeResultOps [] (GenOutfile.reqOf ext q o true)).take 8
          && (writeResultOps [] (GenOutfile.reqOf ext q o true)).length == 9
      | _ => false) = true := by
  refine ⟨fun p => ?_, ?_, ?_⟩
  · show (some [] : Go.GoErr) ≠ none
    intro h; cases h
  · decide
  · decide

/-- non-vacuity: a replace-mode request, two columns, one row: the translated function records the eight writes between
    the two renames -/
example :
    let ext : Go.Ext := { parseFloat := fun _ => (0, none), rowValues := [[b!"1", b!"2"]] }
    let q : Gen.Outfile.Query := { Select := [⟨b!"a"⟩, ⟨b!"b"⟩], Limit := -1, Outfile := some ⟨b!"/d/o", false⟩, RawQuery := b!"q" }
    (match Gen.Outfile.GroupSet.WriteResult ext {} q true with
      | .ok (g, none) => g.ops.length
      | _ => 0) = 13 := by decide

/-- non-vacuity / sanity: a final non-append write ends with the complete result in place -/
example :
    let r : OutReq := ⟨b!"/d/o", false, b!"q", [b!"a", b!"b"], [[b!"1", b!"2"]], -1, true⟩
    fsGet (applyOps [] (writeResultOps [] r)) (b!"/d/o") = some (completeResult r) := by decide

/-- The recorded finding as a theorem about the model: after a crash inside the header a
    later complete append run leaves a file that does not start with the header. -/
theorem C15_torn_header :
    let r : OutReq := ⟨b!"/d/o", true, b!"q", [b!"count(x)"], [[b!"7"]], -1, true⟩
    let torn : FS := [(b!"/d/o", b!"count(")]
    fsGet (applyOps torn (writeResultOps torn r)) (b!"/d/o") = some (b!"count(7\n") := by decide

end Dtail.C15
