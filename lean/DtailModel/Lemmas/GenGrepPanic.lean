/-
The one fact about the translated grep-context filter that C10 rests on, in a file of its own: it uses only the first lines of
`filterWithLContext` (the `make(chan, n)` guard), so a change to the context automaton — which the refinement lemmas of
`GenGrep.lean` (C03) follow step by step — does not stop C10's theorems from checking.
-/
import DtailModel.Generated.Code

namespace Dtail.GenGrep
open Dtail Dtail.Go Dtail.Gen.Grep

/-- the recorded C10 finding on the translated code: a `before` context beyond what `make(chan, n)` accepts makes the filter
    panic before it reads a line -/
theorem filter_huge_before_panics (ext : Ext) (ltx : GoLContext) (hB : ltx.BeforeContext > 35184372088820) (f : readFile)
    (raws : List GoString) (re : GoRegex) :
    readFile.filterWithLContext ext f () ltx raws () re = Outcome.panic "index out of range" := by
  unfold readFile.filterWithLContext
  simp only []
  have h1 : decide (ltx.BeforeContext > 0) = true := by simp only [decide_eq_true_eq]; omega
  have h2 : ¬ goMakeChanOk ltx.BeforeContext = true := by
    simp only [goMakeChanOk, decide_eq_true_eq]; omega
  rw [if_pos h1, if_neg h2]

end Dtail.GenGrep
