/-
Tie G: `config.DeserializeOptions` / `setOption` as translated from the working tree compute the model's
`deserializeOptions` (Model/Command.lean): the same line context, an option map with the same lookups, an error exactly
where the model has one.  The theorems of C12 about the model's decoder (round trip, any order of the options) thereby
hold of the code as it is now.
-/
import DtailModel.Generated.Code
import DtailModel.Lemmas.GoRT
import DtailModel.Lemmas.NoPanic
import DtailModel.Lemmas.OptionOrder
import DtailModel.Lemmas.LoopRules
set_option autoImplicit false
namespace Dtail.GenOptions
open Dtail Dtail.Go Dtail.GenQuery

/-- the external functions of the translated code behave like the model's oracles -/
structure ExtIs (ext : Ext) (env : Env) : Prop where
  b64ok : ∀ s d, env.b64dec s = some d → ext.base64Decode s = (d, none)
  b64err : ∀ s, env.b64dec s = none → (ext.base64Decode s).2 ≠ none
  atoiOk : ∀ t n, atoi t = some n → ext.atoi t = (n, none)
  atoiErr : ∀ t, atoi t = none → (ext.atoi t).2 ≠ none

def ltxOf (l : GoLContext) : LCtx := ⟨l.BeforeContext, l.AfterContext, l.MaxCount⟩

/-- the translated map and the model's association list answer every lookup alike -/
def Rel (m : GoMap GoString GoString) (o : List (Bytes × Bytes)) : Prop :=
  ∀ k, m.get? k = (o.find? (·.1 = k)).map (·.2)

theorem rel_store (m : GoMap GoString GoString) (o : List (Bytes × Bytes)) (h : Rel m o) (k v : Bytes) :
    Rel (m.set k v) (o.filter (·.1 ≠ k) ++ [(k, v)]) := by
  intro k'
  rw [List.find?_append, List.find?_filter]
  by_cases hk : k' = k
  · subst hk
    rw [GoMap.get?_set_eq]
    have hp : (fun (a : Bytes × Bytes) => decide (decide (a.1 ≠ k') = true ∧ decide (a.1 = k') = true)) = fun _ => false := by
      funext a; by_cases ha : a.1 = k' <;> simp [ha]
    rw [hp]
    have : o.find? (fun _ => false) = none := List.find?_eq_none.2 (by simp)
    rw [this]; simp
  · rw [GoMap.get?_set_ne _ _ _ _ hk, h k']
    have hne : ¬ k = k' := fun e => hk e.symm
    have hp : (fun (a : Bytes × Bytes) => decide (decide (a.1 ≠ k) = true ∧ decide (a.1 = k') = true)) = fun a => decide (a.1 = k') := by
      funext a
      by_cases ha : a.1 = k'
      · simp [ha, hk]
      · simp [ha]
    rw [hp]
    cases hfo : o.find? (fun a => decide (a.1 = k')) with
    | some e => simp
    | none => simp [hne]

/-- what one decoded option does, model side -/
def modelSet (key val : Bytes) (o : List (Bytes × Bytes)) (l : LCtx) : Option (List (Bytes × Bytes) × LCtx) :=
  if key = b!"before" then (atoi val).map fun i => (o, { l with before := i })
  else if key = b!"after" then (atoi val).map fun i => (o, { l with after := i })
  else if key = b!"max" then (atoi val).map fun i => (o, { l with maxc := i })
  else some (o.filter (·.1 ≠ key) ++ [(key, val)], l)

theorem beq_decide (a b : Bytes) : (a == b) = decide (a = b) := by
  by_cases h : a = b
  · subst h; simp
  · simp [h]

theorem setOption_refines (ext : Ext) (env : Env) (he : ExtIs ext env) (key val : Bytes)
    (m : GoMap GoString GoString) (o : List (Bytes × Bytes)) (hr : Rel m o) (gl : GoLContext) :
    match modelSet key val o (ltxOf gl) with
    | some (o', l') => ∃ m' gl', Gen.Config.setOption ext key val m gl = (gl', m', none) ∧ Rel m' o' ∧ ltxOf gl' = l'
    | none => (Gen.Config.setOption ext key val m gl).2.2 ≠ none := by
  unfold modelSet Gen.Config.setOption
  have hb : (key == Gen.Config.lit_0) = decide (key = b!"before") := beq_decide key _
  have ha : (key == Gen.Config.lit_1) = decide (key = b!"after") := beq_decide key _
  have hm : (key == ([109, 97, 120] : GoString)) = decide (key = b!"max") := beq_decide key _
  rw [hb, ha, hm]
  by_cases h1 : key = b!"before"
  · simp only [h1, decide_true, if_true]
    cases hat : atoi val with
    | some n =>
      simp only [he.atoiOk val n hat, Option.map_some]
      exact ⟨m, _, by simp; rfl, hr, by simp [ltxOf]⟩
    | none =>
      have := he.atoiErr val hat
      simp only [Option.map_none]
      cases hx : ext.atoi val with
      | mk a e => rw [hx] at this; simp only at this; simp [hx, this]
  · simp only [h1, decide_false, Bool.false_eq_true, if_false]
    by_cases h2 : key = b!"after"
    · simp only [h2, decide_true, if_true]
      cases hat : atoi val with
      | some n =>
        simp only [he.atoiOk val n hat, Option.map_some]
        exact ⟨m, _, by simp; rfl, hr, by simp [ltxOf]⟩
      | none =>
        have := he.atoiErr val hat
        simp only [Option.map_none]
        cases hx : ext.atoi val with
        | mk a e => rw [hx] at this; simp only at this; simp [hx, this]
    · simp only [h2, decide_false, Bool.false_eq_true, if_false]
      by_cases h3 : key = b!"max"
      · simp only [h3, decide_true, if_true]
        cases hat : atoi val with
        | some n =>
          simp only [he.atoiOk val n hat, Option.map_some]
          exact ⟨m, _, by simp; rfl, hr, by simp [ltxOf]⟩
        | none =>
          have := he.atoiErr val hat
          simp only [Option.map_none]
          cases hx : ext.atoi val with
          | mk a e => rw [hx] at this; simp only at this; simp [hx, this]
      · simp only [h3, decide_false, Bool.false_eq_true, if_false]
        exact ⟨_, gl, rfl, rel_store m o hr key val, rfl⟩

/-- the decoded value of an option: base64 behind `base64%`, else the text itself -/
def modelVal (env : Env) (val0 : Bytes) : Option Bytes :=
  if hasPrefix (b!"base64%") val0 then env.b64dec ((splitN2 PERCENT val0).getD 1 []) else some val0

/-- one step of the model's decoder, in terms of `modelVal` and `modelSet` -/
theorem model_cons (env : Env) (x : Bytes) (rest : List Bytes) (o : List (Bytes × Bytes)) (l : LCtx) (k v : Bytes)
    (hkv : splitN2 EQ x = [k, v]) :
    deserializeOptions env (x :: rest) o l =
      match modelVal env v with
      | none => .err "illegal base64 data"
      | some val => match modelSet k val o l with
        | some (o', l') => deserializeOptions env rest o' l'
        | none => .err "strconv.Atoi" := by
  conv => lhs; unfold deserializeOptions
  unfold modelVal modelSet
  rw [hkv]
  by_cases hp : hasPrefix (b!"base64%") v = true
  · have h2 := splitN2_base64 v hp
    match hs : splitN2 PERCENT v, h2 with
    | [p0, p1], _ =>
      cases hd : env.b64dec p1 with
      | none => simp [goIndex, hp, hs, hd, Bind.bind, Outcome.bind, Pure.pure]
      | some d =>
        simp only [goIndex, hp, hs, hd, Bind.bind, Outcome.bind, Pure.pure, List.length_cons, List.length_nil,
          ne_eq, not_true_eq_false, if_false, if_true, List.getElem?_cons_zero, List.getElem?_cons_succ, List.getD_cons_succ, List.getD_cons_zero]
        by_cases h1 : k = b!"before"
        · cases hat : atoi d <;> simp [h1, hat]
        · by_cases h2' : k = b!"after"
          · cases hat : atoi d <;> simp [h1, h2', hat]
          · by_cases h3 : k = b!"max"
            · cases hat : atoi d <;> simp [h1, h2', h3, hat]
            · simp [h1, h2', h3]
  · have hp' : hasPrefix (b!"base64%") v = false := by simpa using hp
    simp only [goIndex, hp', Bind.bind, Outcome.bind, Pure.pure, List.length_cons, List.length_nil,
      ne_eq, not_true_eq_false, if_false, Bool.false_eq_true, List.getElem?_cons_zero, List.getElem?_cons_succ]
    by_cases h1 : k = b!"before"
    · cases hat : atoi v <;> simp [h1, hat]
    · by_cases h2' : k = b!"after"
      · cases hat : atoi v <;> simp [h1, h2', hat]
      · by_cases h3 : k = b!"max"
        · cases hat : atoi v <;> simp [h1, h2', h3, hat]
        · simp [h1, h2', h3]

/-- the body of the translated loop, verbatim -/
def optBody (ext : Ext) (st : GoLContext × GoMap GoString GoString) (o : GoString) :
    LoopStep (Outcome (GoMap GoString GoString × GoLContext × GoErr)) (GoLContext × GoMap GoString GoString) :=
  match st with
  | (ltx, options) =>
    let kv := (splitN (61 : UInt8) 2 o)
    if ((GoLen.len kv) != 2) then
      LoopStep.ret (Outcome.ok (options, ltx, (some Gen.Config.lit_2)))
    else
      if (goInRange kv 0) then
        let key := (GoIndex.idx kv 0)
        if (goInRange kv 1) then
          let val := (GoIndex.idx kv 1)
          if (hasPrefix Gen.Config.lit_3 val) then
            let s := (splitN (37 : UInt8) 2 val)
            if (goInRange s 1) then
              let (_t1, _t2) := (ext.base64Decode (GoIndex.idx s 1))
              let decoded := _t1
              let err := _t2
              if (err != none) then
                LoopStep.ret (Outcome.ok (options, ltx, err))
              else
                let val := decoded
                let err : GoErr := (GoZero.zero : GoErr)
                let (_r3, _t4, _t5) := Gen.Config.setOption ext key val options ltx
                let ltx := _r3
                let options := _t4
                let err := _t5
                if (err != none) then
                  LoopStep.ret (Outcome.ok (options, ltx, err))
                else
                  LoopStep.next (ltx, options)
            else
              LoopStep.ret (Outcome.panic "index out of range")
          else
            let err : GoErr := (GoZero.zero : GoErr)
            let (_r6, _t7, _t8) := Gen.Config.setOption ext key val options ltx
            let ltx := _r6
            let options := _t7
            let err := _t8
            if (err != none) then
              LoopStep.ret (Outcome.ok (options, ltx, err))
            else
              LoopStep.next (ltx, options)
        else
          LoopStep.ret (Outcome.panic "index out of range")
      else
        LoopStep.ret (Outcome.panic "index out of range")

theorem DeserializeOptions_eq (ext : Ext) (opts : List GoString) :
    Gen.Config.DeserializeOptions ext opts
      = goRange opts (({} : GoLContext), (GoZero.zero : GoMap GoString GoString)) (optBody ext)
          (fun st => Outcome.ok (st.2, st.1, none)) := rfl

/-- how a result of the translated decoder matches a result of the model's -/
def Matches (r : Outcome (List (Bytes × Bytes) × LCtx)) (t : Outcome (GoMap GoString GoString × GoLContext × GoErr)) : Prop :=
  match r with
  | .ok (o', l') => ∃ m' gl', t = .ok (m', gl', none) ∧ Rel m' o' ∧ ltxOf gl' = l'
  | .err _ => ∃ m' gl' e, t = .ok (m', gl', some e)
  | .panic _ => True

theorem len2 {α : Type} (l : List α) (h : l.length = 2) : ∃ a b, l = [a, b] := by
  match l, h with
  | [a, b], _ => exact ⟨a, b, rfl⟩

theorem loop_refines (ext : Ext) (env : Env) (he : ExtIs ext env) (opts : List GoString)
    (m : GoMap GoString GoString) (o : List (Bytes × Bytes)) (hr : Rel m o) (gl : GoLContext) :
    Matches (deserializeOptions env opts o (ltxOf gl))
      (goRange opts (gl, m) (optBody ext) (fun st => Outcome.ok (st.2, st.1, none))) := by
  induction opts generalizing m o gl with
  | nil => simp only [deserializeOptions, goRange]; exact ⟨m, gl, rfl, hr, rfl⟩
  | cons x rest ih =>
    rw [goRange_cons]
    unfold optBody
    dsimp only
    by_cases h2 : ((GoLen.len (splitN (61 : UInt8) 2 x) : Int) != 2) = true
    · rw [if_pos h2]
      have hne : (splitN2 EQ x).length ≠ 2 := by
        intro e
        have : (GoLen.len (splitN (61 : UInt8) 2 x) : Int) = 2 := by rw [len_list]; exact_mod_cast e
        simp [this] at h2
      conv => lhs; unfold deserializeOptions
      simp only [hne, ne_eq, not_false_eq_true, if_true]
      exact ⟨_, _, _, rfl⟩
    · rw [if_neg h2]
      have hl2 := len_ne_two _ (by simpa using h2)
      obtain ⟨k, v, hkv⟩ := len2 _ hl2
      have hkv' : splitN2 EQ x = [k, v] := hkv
      rw [model_cons env x rest o (ltxOf gl) k v hkv', hkv]
      have g0 : goInRange [k, v] 0 = true := rfl
      have g1 : goInRange [k, v] 1 = true := rfl
      have i0 : (GoIndex.idx [k, v] (0 : Int) : GoString) = k := rfl
      have i1 : (GoIndex.idx [k, v] (1 : Int) : GoString) = v := rfl
      simp only [g0, g1, if_true, i0, i1]
      unfold modelVal
      by_cases hp : hasPrefix (b!"base64%") v = true
      · have hp' : hasPrefix Gen.Config.lit_3 v = true := hp
        rw [if_pos hp', if_pos hp]
        have hs2 := splitN2_base64 v hp
        obtain ⟨p0, p1, hsp⟩ := len2 _ hs2
        have hsp' : splitN (37 : UInt8) 2 v = [p0, p1] := hsp
        rw [hsp', hsp]
        have gs : goInRange [p0, p1] 1 = true := rfl
        have is1 : (GoIndex.idx [p0, p1] (1 : Int) : GoString) = p1 := rfl
        simp only [gs, if_true, is1, List.getD_cons_succ, List.getD_cons_zero]
        cases hd : env.b64dec p1 with
        | none =>
          have hne := he.b64err p1 hd
          have hb : ((ext.base64Decode p1).2 != none) = true := by simpa using hne
          simp only [hb, if_true]
          cases hee : (ext.base64Decode p1).2 with
          | none => exact absurd hee hne
          | some ee =>
            exact ⟨m, gl, ee, rfl⟩
        | some d =>
          simp only [he.b64ok p1 d hd, bne_self_eq_false, Bool.false_eq_true, if_false]
          have hset := setOption_refines ext env he k d m o hr gl
          cases hms : modelSet k d o (ltxOf gl) with
          | none =>
            rw [hms] at hset
            simp only at hset ⊢
            have hb : ((Gen.Config.setOption ext k d m gl).2.2 != none) = true := by simpa using hset
            rw [if_pos hb]
            cases hee : (Gen.Config.setOption ext k d m gl).2.2 with
            | none => simp [hee] at hb
            | some ee => exact ⟨_, _, _, rfl⟩
          | some pr =>
            obtain ⟨o', l'⟩ := pr
            rw [hms] at hset
            obtain ⟨m', gl', hso, hrel, hltx⟩ := hset
            simp only [hso, bne_self_eq_false, Bool.false_eq_true, if_false]
            rw [← hltx]
            exact ih m' o' hrel gl'
      · have hp0 : hasPrefix (b!"base64%") v = false := by simpa using hp
        have hp' : hasPrefix Gen.Config.lit_3 v = false := hp0
        simp only [hp', hp0, Bool.false_eq_true, if_false]
        have hset := setOption_refines ext env he k v m o hr gl
        cases hms : modelSet k v o (ltxOf gl) with
        | none =>
          rw [hms] at hset
          simp only at hset ⊢
          have hb : ((Gen.Config.setOption ext k v m gl).2.2 != none) = true := by simpa using hset
          rw [if_pos hb]
          cases hee : (Gen.Config.setOption ext k v m gl).2.2 with
          | none => simp [hee] at hb
          | some ee => exact ⟨_, _, _, rfl⟩
        | some pr =>
          obtain ⟨o', l'⟩ := pr
          rw [hms] at hset
          obtain ⟨m', gl', hso, hrel, hltx⟩ := hset
          simp only [hso, bne_self_eq_false, Bool.false_eq_true, if_false]
          rw [← hltx]
          exact ih m' o' hrel gl'

/-- **`DeserializeOptions` as translated from the working tree is the model's decoder** -/
theorem DeserializeOptions_refines (ext : Ext) (env : Env) (he : ExtIs ext env) (opts : List GoString) :
    Matches (deserializeOptions env opts [] {}) (Gen.Config.DeserializeOptions ext opts) := by
  rw [DeserializeOptions_eq]
  have h0 : Rel (GoZero.zero : GoMap GoString GoString) [] := by
    intro k; simp [GoZero.zero, GoMap.get?]
  exact loop_refines ext env he opts _ [] h0 {}

/-- the three session modes as the handler reads them from the decoded option map -/
def modesOfMap (m : GoMap GoString GoString) : Bool × Bool × Bool :=
  (decide (m.get? (b!"quiet") = some (b!"true")), decide (m.get? (b!"plain") = some (b!"true")),
   decide (m.get? (b!"serverless") = some (b!"true")))

theorem modesOfMap_rel (m : GoMap GoString GoString) (o : List (Bytes × Bytes)) (h : Rel m o) : modesOfMap m = modesOf o := by
  unfold modesOfMap modesOf
  simp only [h (b!"quiet"), h (b!"plain"), h (b!"serverless")]

/-- **the option decoder of the working tree decodes every order of a request's options to the request**: the line
    context and the three session modes, for every request, every integer codec, every permutation -/
theorem generated_any_order (ext : Ext) (env : Env) (he : ExtIs ext env) (show' : Int → Bytes) (hc : IntCodec show') (r : Req)
    (ys : List OptionOrder.Opt) (hp : ys.Perm (OptionOrder.optsOf r)) :
    ∃ m gl, Gen.Config.DeserializeOptions ext (ys.map (OptionOrder.render show')) = .ok (m, gl, none) ∧
      ltxOf gl = r.ltx ∧ modesOfMap m = (r.quiet, r.plain, r.serverless) := by
  obtain ⟨o, ho, hm⟩ := OptionOrder.any_order env show' hc r ys hp
  have hmatch := DeserializeOptions_refines ext env he (ys.map (OptionOrder.render show'))
  rw [ho] at hmatch
  obtain ⟨m, gl, ht, hrel, hl⟩ := hmatch
  exact ⟨m, gl, ht, hl, by rw [modesOfMap_rel m o hrel, hm]⟩

end Dtail.GenOptions
