/-
Tie G for internal/discovery/discovery.go: `filterList`, `dedupList`, `shuffleList` and `ServerList` as
translated from the working tree on this run compute the hand-written model's `List.filter`, `dedup`,
`shuffle` and `serverList` (Model/Discovery.lean), on which the theorems of C18 are stated.

Parameters (trusted base): `serverListFromModule` (reflection + file / comma sources) is the list
`ext.strList "serverListFromModule"`; `(*regexp.Regexp).MatchString` is `ext.reMatchRaw`; the random source
is the list of numbers its `Intn` calls return.
-/
import DtailModel.Generated.Code
import DtailModel.Lemmas.GoRT
import DtailModel.Lemmas.Discovery
set_option autoImplicit false
namespace Dtail.GenDiscovery
open Dtail Dtail.Go Dtail.Gen.Discovery

/-! ### filterList -/

theorem filter_loop (p : GoString → Bool) (servers acc : List GoString) (after : List GoString → Discovery × List GoString) :
    goRange servers acc
      (fun filtered server => if p server = true then LoopStep.next (filtered ++ [server]) else LoopStep.next filtered) after
      = after (acc ++ servers.filter p) := by
  induction servers generalizing acc with
  | nil => simp [goRange]
  | cons s rest ih =>
    simp only [goRange]
    by_cases hp : p s = true
    · simp only [hp, if_true]; rw [ih]; simp [hp]
    · have hp' : p s = false := by simpa using hp
      simp only [hp', Bool.false_eq_true, if_false]; rw [ih]; simp [hp']

theorem filterList_refines (ext : Ext) (d : Discovery) (servers : List GoString) :
    Discovery.filterList ext d servers = (d, servers.filter (ext.reMatchRaw d.regex)) := by
  unfold Discovery.filterList
  have := filter_loop (ext.reMatchRaw d.regex) servers [] (fun filtered => (d, filtered))
  simpa [GoZero.zero] using this

/-! ### dedupList -/

/-- the map of the loop holds exactly the servers seen so far -/
def Tracks (m : GoMap GoString Unit) (seen : List GoString) : Prop := ∀ s, (m.get? s).isSome = true ↔ s ∈ seen

theorem tracks_set (m : GoMap GoString Unit) (seen : List GoString) (s : GoString) (h : Tracks m seen) :
    Tracks (m.set s ()) (s :: seen) := by
  intro t
  by_cases ht : t = s
  · subst ht; simp [GoMap.get?_set_eq]
  · rw [GoMap.get?_set_ne _ _ _ _ ht, h t]; simp [ht]

theorem dedup_loop (servers : List GoString) (acc : List GoString) (m : GoMap GoString Unit) (seen : List GoString)
    (h : Tracks m seen) (after : List GoString × GoMap GoString Unit → Discovery × List GoString)
    (hafter : ∀ l m m', after (l, m) = after (l, m')) :
    goRange servers (acc, m)
      (fun (st : List GoString × GoMap GoString Unit) server =>
        if (!(GoIndex.idxOk st.2 server).2) = true then LoopStep.next (st.1 ++ [server], GoIndex.upd st.2 server ())
        else LoopStep.next (st.1, st.2)) after
      = after (acc ++ dedup seen servers, m) := by
  induction servers generalizing acc m seen with
  | nil => simp [goRange, dedup]
  | cons s rest ih =>
    simp only [goRange]
    have hok : (GoIndex.idxOk m s).2 = (m.get? s).isSome := by
      simp only [GoIndex.idxOk]
      cases m.get? s <;> rfl
    by_cases hs : s ∈ seen
    · have : (m.get? s).isSome = true := (h s).2 hs
      simp only [hok, this, Bool.not_true, Bool.false_eq_true, if_false]
      rw [ih acc m seen h]
      simp [dedup, hs]
    · have : (m.get? s).isSome = false := by
        cases hg : (m.get? s).isSome
        · rfl
        · exact absurd ((h s).1 hg) hs
      simp only [hok, this, Bool.not_false, if_true]
      have hupd : (GoIndex.upd m s () : GoMap GoString Unit) = m.set s () := rfl
      rw [hupd, ih (acc ++ [s]) (m.set s ()) (s :: seen) (tracks_set m seen s h)]
      simp only [dedup, hs, if_false, List.append_assoc, List.cons_append, List.nil_append]
      exact hafter _ _ _

theorem dedupList_refines (ext : Ext) (d : Discovery) (servers : List GoString) :
    Discovery.dedupList ext d servers = (d, dedup [] servers) := by
  unfold Discovery.dedupList
  have h0 : Tracks (GoZero.zero : GoMap GoString Unit) [] := by
    intro s; simp [GoZero.zero, GoMap.get?]
  have := dedup_loop servers [] (GoZero.zero : GoMap GoString Unit) [] h0
    (fun (st : List GoString × GoMap GoString Unit) => (d, st.1)) (fun _ _ _ => rfl)
  simpa [GoZero.zero] using this

/-! ### shuffleList -/

theorem goUpTo_self (k : Int) : goUpTo k k = [] := by simp [goUpTo]

theorem goUpTo_cons (lo hi : Int) (h : lo < hi) : goUpTo lo hi = lo :: goUpTo (lo + 1) hi := by
  unfold goUpTo
  have h1 : (hi - lo).toNat = (hi - (lo + 1)).toNat + 1 := by omega
  rw [h1, List.range_succ_eq_map]
  simp only [List.map_cons, List.map_map]
  congr 1
  · simp
  · apply List.map_congr_left
    intro k _
    simp only [Function.comp]
    omega

/-- the body of the translated loop, on the loop state (source, remaining servers, result so far) -/
def shuffleBody (st : GoRand × List GoString × List GoString) (i : Int) :
    LoopStep (Discovery × List GoString) (GoRand × List GoString × List GoString) :=
  let (t1, r) := goIntn st.1 (GoLen.len st.2.1)
  LoopStep.next (r, (List.take (Int.toNat t1) st.2.1) ++ (List.drop (Int.toNat (t1 + 1)) st.2.1),
    GoIndex.upd st.2.2 i (GoIndex.idx st.2.1 t1))

theorem shuffle_loop (d : Discovery) (rs : List Nat) (l pre out : List GoString)
    (hv : validIdx l.length rs = true) (hs : shuffle l rs = some out) :
    goRange (goUpTo (pre.length : Int) ((pre.length : Int) + (l.length : Int)))
      ((⟨rs.map fun (n : Nat) => (n : Int)⟩ : GoRand), l, pre ++ List.replicate l.length ([] : GoString))
      shuffleBody (fun st => (d, st.2.2)) = (d, pre ++ out) := by
  induction rs generalizing l pre out with
  | nil =>
    have hl : l.length = 0 := by simpa [validIdx] using hv
    have hnil : l = [] := List.length_eq_zero_iff.1 hl
    subst hnil
    simp only [shuffle] at hs
    cases hs
    simp [goUpTo_self, goRange]
  | cons r0 rs ih =>
    simp only [validIdx, Bool.and_eq_true, decide_eq_true_eq] at hv
    obtain ⟨hr0, hv'⟩ := hv
    simp only [shuffle] at hs
    have hx : l[r0]? = some l[r0] := List.getElem?_eq_getElem hr0
    rw [hx] at hs
    simp only at hs
    cases hsh : shuffle (l.eraseIdx r0) rs with
    | none => rw [hsh] at hs; simp at hs
    | some out' =>
      rw [hsh] at hs
      simp only [Option.map_some, Option.some.injEq] at hs
      subst hs
      have hlt : (pre.length : Int) < (pre.length : Int) + (l.length : Int) := by omega
      rw [goUpTo_cons _ _ hlt, goRange_cons]
      have hlen : (l.eraseIdx r0).length = l.length - 1 := List.length_eraseIdx_of_lt hr0
      have herase : List.take (Int.toNat (r0 : Int)) l ++ List.drop (Int.toNat ((r0 : Int) + 1)) l = l.eraseIdx r0 := by
        have h1 : Int.toNat (r0 : Int) = r0 := by omega
        have h2 : Int.toNat ((r0 : Int) + 1) = r0 + 1 := by omega
        rw [h1, h2, List.eraseIdx_eq_take_drop_succ]
      have hidx : (GoIndex.idx l (r0 : Int) : GoString) = l[r0] := by
        show l.getD (Int.toNat (r0 : Int)) GoZero.zero = l[r0]
        have h1 : Int.toNat (r0 : Int) = r0 := by omega
        rw [h1, List.getD_eq_getElem?_getD, hx]; rfl
      have hupd : (GoIndex.upd (pre ++ List.replicate l.length ([] : GoString)) (pre.length : Int) l[r0] : List GoString)
          = (pre ++ [l[r0]]) ++ List.replicate (l.eraseIdx r0).length ([] : GoString) := by
        show (pre ++ List.replicate l.length ([] : GoString)).set (Int.toNat (pre.length : Int)) l[r0] = _
        have h1 : Int.toNat (pre.length : Int) = pre.length := by omega
        rw [h1, hlen]
        have hl1 : l.length = (l.length - 1) + 1 := by omega
        rw [hl1, List.replicate_succ]
        simp [List.set_append_right]
      have hstep : shuffleBody ((⟨(r0 :: rs).map fun (n : Nat) => (n : Int)⟩ : GoRand), l,
            pre ++ List.replicate l.length ([] : GoString)) (pre.length : Int)
          = LoopStep.next ((⟨rs.map fun (n : Nat) => (n : Int)⟩ : GoRand), l.eraseIdx r0,
              (pre ++ [l[r0]]) ++ List.replicate (l.eraseIdx r0).length ([] : GoString)) := by
        simp only [shuffleBody, goIntn, List.map_cons, List.headD_cons, List.tail_cons]
        rw [herase, hidx, hupd]
      rw [hstep]
      simp only
      have hnext : ((pre.length : Int) + 1) = ((pre ++ [l[r0]]).length : Int) := by simp
      have hhi : (pre.length : Int) + (l.length : Int) = ((pre ++ [l[r0]]).length : Int) + ((l.eraseIdx r0).length : Int) := by
        rw [hlen]; simp; omega
      rw [hnext, hhi]
      have hv2 : validIdx (l.eraseIdx r0).length rs = true := by rw [hlen]; exact hv'
      rw [ih (l.eraseIdx r0) (pre ++ [l[r0]]) out' hv2 hsh]
      simp

theorem shuffleList_refines (ext : Ext) (d : Discovery) (servers : List GoString) (rs : List Nat) (out : List GoString)
    (hr : ext.randNew = ⟨rs.map fun (n : Nat) => (n : Int)⟩)
    (hv : validIdx servers.length rs = true) (hs : shuffle servers rs = some out) :
    Discovery.shuffleList ext d servers = (d, out) := by
  unfold Discovery.shuffleList
  have := shuffle_loop d rs servers [] out hv hs
  rw [show ((([] : List GoString).length : Nat) : Int) = 0 from rfl, Int.zero_add] at this
  rw [hr]
  exact this

/-! ### ServerList -/

/-- the filter of the model: the compiled expression, if the server argument was `/…/` -/
def filterOf (ext : Ext) (d : Discovery) : Option (GoString → Bool) :=
  if d.regex.compiled then some (ext.reMatchRaw d.regex) else none

theorem ServerList_refines (ext : Ext) (d : Discovery) (rs : List Nat) (out : List GoString)
    (hr : ext.randNew = ⟨rs.map fun (n : Nat) => (n : Int)⟩) (ho : d.order = Shuffle)
    (hv : validIdx (dedup [] (wanted (ext.strList (b!"serverListFromModule")) (filterOf ext d))).length rs = true)
    (hs : serverList (ext.strList (b!"serverListFromModule")) (filterOf ext d) rs = some out) :
    Discovery.ServerList ext d = (d, out) := by
  unfold Discovery.ServerList
  unfold serverList at hs
  have hsh : (d.order == Shuffle) = true := by rw [ho]; rfl
  by_cases hc : d.regex.compiled = true
  · simp only [filterOf, hc, if_true, wanted] at hv hs
    simp only [hc, if_true, filterList_refines, dedupList_refines, hsh]
    exact shuffleList_refines ext d _ rs out hr hv hs
  · have hc' : d.regex.compiled = false := by simpa using hc
    simp only [filterOf, hc', Bool.false_eq_true, if_false, wanted] at hv hs
    simp only [hc', Bool.false_eq_true, if_false, dedupList_refines, hsh, if_true]
    exact shuffleList_refines ext d _ rs out hr hv hs

end Dtail.GenDiscovery
