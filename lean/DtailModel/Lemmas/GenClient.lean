/-
Tie G for the client's message reassembly: `baseHandler.Write`, `handleMessage`, `handleHiddenMessage` of
internal/clients/handlers/basehandler.go as translated from the working tree on this run (`Generated/Code.lean`, namespace
`Gen.Client`).  What `dlog.Client.Raw` prints, what `SendMessage` is started with and each `Shutdown` are kept in the receiver.
The theorems say that `Write` is the model's `clientFeed` (`Model/Wire.lean`): the same receive buffer, the messages that are
not hidden printed in order, and the close handshake answered once per `.syn close connection` message.
-/
import DtailModel.Generated.Code
import DtailModel.Lemmas.GoRT
import DtailModel.Model.Wire
set_option autoImplicit false
namespace Dtail.GenClient
open Dtail Dtail.Go Dtail.Gen.Client

/-- a message asks for the close handshake -/
def isSyn (m : Bytes) : Bool := hasPrefix lit_0 m

/-- what the handler does with one complete message -/
def onMessage (h : baseHandler) (m : Bytes) : baseHandler :=
  if isHidden m then
    (if isSyn m then { h with sent := h.sent ++ [lit_1], shutdowns := h.shutdowns ++ [()] } else h)
  else { h with printed := h.printed ++ [m] }

/-- `handleMessage` never indexes an empty message, hides what starts with '.', prints the rest -/
theorem handleMessage_spec (ext : Ext) (h : baseHandler) (m : Bytes) :
    baseHandler.handleMessage ext h m = Outcome.ok (onMessage h m) := by
  unfold baseHandler.handleMessage onMessage baseHandler.handleHiddenMessage isSyn
  cases m with
  | nil =>
    have h1 : decide ((GoLen.len ([] : GoString) : Int) > 0) = false := by decide
    simp only [h1, Bool.not_false, Bool.true_or, if_true, Bool.false_and, Bool.false_eq_true, if_false, isHidden, List.head?_nil]
    rfl
  | cons a rest =>
    have h1 : decide ((GoLen.len (a :: rest) : Int) > 0) = true := by
      have : (GoLen.len (a :: rest) : Int) = ((a :: rest).length : Int) := rfl
      rw [this]; simp only [List.length_cons, decide_eq_true_eq]; omega
    have h2 : goInRange (a :: rest) 0 = true := by
      have : (GoLen.len (a :: rest) : Int) = ((a :: rest).length : Int) := rfl
      simp only [goInRange, this, List.length_cons, decide_eq_true_eq]; omega
    have h3 : GoIndex.idx (a :: rest) (0 : Int) = a := rfl
    simp only [h1, Bool.not_true, h2, Bool.or_true, if_true, Bool.true_and, h3, isHidden, List.head?_cons]
    by_cases ha : a = DOT
    · subst ha
      have : ((DOT : UInt8) == 46) = true := by decide
      simp only [this, if_true]
      cases hasPrefix lit_0 (DOT :: rest) <;> simp
    · have : (a == 46) = false := by simp only [beq_eq_false_iff_ne, ne_eq]; exact ha
      have h4 : (some a == some DOT) = false := by simp [ha]
      simp only [this, Bool.false_eq_true, if_false]
      simp [ha]

/-- one byte of `Write` on the handler -/
def onByte (h : baseHandler) (b : UInt8) : baseHandler :=
  if b = NL then { onMessage { h with receiveBuf := h.receiveBuf ++ [b] } (h.receiveBuf ++ [b]) with receiveBuf := [] }
  else if b = DELIM then { onMessage h h.receiveBuf with receiveBuf := [] }
  else { h with receiveBuf := h.receiveBuf ++ [b] }

theorem goRange_acc {α ρ σ : Type} (l : List α) (s0 : σ) (body : σ → α → LoopStep ρ σ) (after : σ → ρ)
    (step : σ → α → σ) (h : ∀ s x, body s x = .next (step s x)) :
    goRange l s0 body after = after (l.foldl step s0) := by
  induction l generalizing s0 with
  | nil => rfl
  | cons x xs ih => rw [goRange_cons, h s0 x]; exact ih _

/-- **`Write` is a fold of `onByte` over the bytes**: it never panics and reports all bytes as taken -/
theorem Write_fold (ext : Ext) (h : baseHandler) (p : Bytes) :
    baseHandler.Write ext h p = Outcome.ok (p.foldl onByte h, (p.length : Int), none) := by
  unfold baseHandler.Write
  simp only []
  rw [goRange_acc p h _ _ onByte]
  · rfl
  · intro s b
    unfold onByte
    by_cases h1 : b = NL
    · subst h1
      have : ((NL : UInt8) == 10) = true := by decide
      simp only [this, if_true, handleMessage_spec]
    · have : (b == 10) = false := by simp only [beq_eq_false_iff_ne, ne_eq]; exact h1
      simp only [this, Bool.false_eq_true, if_false, h1]
      by_cases h2 : b = DELIM
      · subst h2
        have : ((DELIM : UInt8) == 172) = true := by decide
        simp only [this, if_true, handleMessage_spec]
      · have : (b == 172) = false := by simp only [beq_eq_false_iff_ne, ne_eq]; exact h2
        simp only [this, Bool.false_eq_true, if_false, h2]

/-- the messages already dispatched ride along -/
theorem feed_prefix' (p : Bytes) : ∀ (s : CS) (done : List Bytes),
    clientFeed ⟨s.buf, done ++ s.msgs⟩ p = ⟨(clientFeed s p).buf, done ++ (clientFeed s p).msgs⟩ := by
  induction p with
  | nil => intro s done; rfl
  | cons b rest ih =>
    intro s done
    show clientFeed (clientByte ⟨s.buf, done ++ s.msgs⟩ b) rest = _
    have key : clientByte ⟨s.buf, done ++ s.msgs⟩ b = ⟨(clientByte s b).buf, done ++ (clientByte s b).msgs⟩ := by
      unfold clientByte
      by_cases h1 : b = NL
      · simp only [h1, if_true, List.append_assoc]
      · by_cases h2 : b = DELIM
        · have hdn : ¬ (DELIM = NL) := by decide
          simp only [h2, hdn, if_true, if_false, List.append_assoc]
        · simp only [h1, h2, if_false]
    rw [key]
    exact ih (clientByte s b) done

theorem feed_prefix (p : Bytes) (buf : Bytes) (done : List Bytes) :
    clientFeed ⟨buf, done⟩ p = ⟨(clientFeed ⟨buf, []⟩ p).buf, done ++ (clientFeed ⟨buf, []⟩ p).msgs⟩ := by
  have := feed_prefix' p ⟨buf, []⟩ done
  simpa using this

/-- the messages a user sees, and the close requests among the hidden ones -/
def shown (msgs : List Bytes) : List Bytes := msgs.filter (fun m => !isHidden m)
def syns (msgs : List Bytes) : List Bytes := msgs.filter (fun m => isHidden m && isSyn m)

theorem onMessage_obs (h : baseHandler) (m : Bytes) :
    (onMessage h m).receiveBuf = h.receiveBuf ∧ (onMessage h m).printed = h.printed ++ shown [m] ∧
    (onMessage h m).sent = h.sent ++ (syns [m]).map (fun _ => lit_1) ∧
    (onMessage h m).shutdowns.length = h.shutdowns.length + (syns [m]).length := by
  unfold onMessage shown syns
  cases hh : isHidden m <;> cases hs : isSyn m <;> simp [hh, hs]

/-- **the fold of `onByte` is the model's `clientFeed`**: same receive buffer; the messages that are not hidden printed in
    order; one answer and one shutdown per hidden `.syn close connection` message -/
theorem fold_refines (p : Bytes) : ∀ (h : baseHandler),
    (p.foldl onByte h).receiveBuf = (clientFeed ⟨h.receiveBuf, []⟩ p).buf ∧
    (p.foldl onByte h).printed = h.printed ++ shown (clientFeed ⟨h.receiveBuf, []⟩ p).msgs ∧
    (p.foldl onByte h).sent = h.sent ++ (syns (clientFeed ⟨h.receiveBuf, []⟩ p).msgs).map (fun _ => lit_1) ∧
    (p.foldl onByte h).shutdowns.length = h.shutdowns.length + (syns (clientFeed ⟨h.receiveBuf, []⟩ p).msgs).length := by
  induction p with
  | nil => intro h; simp [clientFeed, shown, syns]
  | cons b rest ih =>
    intro h
    have hstep : ∃ new, clientByte ⟨h.receiveBuf, []⟩ b = ⟨(onByte h b).receiveBuf, new⟩ ∧
        (onByte h b).printed = h.printed ++ shown new ∧
        (onByte h b).sent = h.sent ++ (syns new).map (fun _ => lit_1) ∧
        (onByte h b).shutdowns.length = h.shutdowns.length + (syns new).length := by
      have hdn : ¬ (DELIM = NL) := by decide
      by_cases h1 : b = NL
      · subst h1
        obtain ⟨_, o2, o3, o4⟩ := onMessage_obs { h with receiveBuf := h.receiveBuf ++ [NL] } (h.receiveBuf ++ [NL])
        refine ⟨[h.receiveBuf ++ [NL]], ?_, ?_, ?_, ?_⟩
        · simp only [onByte, clientByte, if_true, List.nil_append]
        · simp only [onByte, if_true]; exact o2
        · simp only [onByte, if_true]; exact o3
        · simp only [onByte, if_true]; exact o4
      · by_cases h2 : b = DELIM
        · subst h2
          obtain ⟨_, o2, o3, o4⟩ := onMessage_obs h h.receiveBuf
          refine ⟨[h.receiveBuf], ?_, ?_, ?_, ?_⟩
          · simp only [onByte, clientByte, hdn, if_true, if_false, List.nil_append]
          · simp only [onByte, hdn, if_true, if_false]; exact o2
          · simp only [onByte, hdn, if_true, if_false]; exact o3
          · simp only [onByte, hdn, if_true, if_false]; exact o4
        · refine ⟨[], ?_, ?_, ?_, ?_⟩
          · simp only [onByte, clientByte, h1, h2, if_false]
          · simp only [onByte, h1, h2, if_false, shown, List.filter_nil, List.append_nil]
          · simp only [onByte, h1, h2, if_false, syns, List.filter_nil, List.map_nil, List.append_nil]
          · simp only [onByte, h1, h2, if_false, syns, List.filter_nil, List.length_nil, Nat.add_zero]
    obtain ⟨new, hc, hp, hs, hd⟩ := hstep
    obtain ⟨i1, i2, i3, i4⟩ := ih (onByte h b)
    have hfeed : clientFeed ⟨h.receiveBuf, []⟩ (b :: rest)
        = ⟨(clientFeed ⟨(onByte h b).receiveBuf, []⟩ rest).buf, new ++ (clientFeed ⟨(onByte h b).receiveBuf, []⟩ rest).msgs⟩ := by
      show clientFeed (clientByte ⟨h.receiveBuf, []⟩ b) rest = _
      rw [hc, feed_prefix]
    simp only [List.foldl_cons]
    rw [hfeed]
    refine ⟨i1, ?_, ?_, ?_⟩
    · rw [i2, hp]; simp [shown]
    · rw [i3, hs]; simp [syns]
    · rw [i4, hd]; simp [syns]; omega

/-- **the translated `Write` is the model's client**: it takes all bytes, never panics, and leaves the handler with the
    model's receive buffer, having printed the model's visible messages in order and answered every close request once -/
theorem Write_refines (ext : Ext) (h : baseHandler) (p : Bytes) :
    ∃ h', baseHandler.Write ext h p = Outcome.ok (h', (p.length : Int), none) ∧
      h'.receiveBuf = (clientFeed ⟨h.receiveBuf, []⟩ p).buf ∧
      h'.printed = h.printed ++ shown (clientFeed ⟨h.receiveBuf, []⟩ p).msgs ∧
      h'.sent = h.sent ++ (syns (clientFeed ⟨h.receiveBuf, []⟩ p).msgs).map (fun _ => lit_1) ∧
      h'.shutdowns.length = h.shutdowns.length + (syns (clientFeed ⟨h.receiveBuf, []⟩ p).msgs).length :=
  ⟨_, Write_fold ext h p, fold_refines p h⟩

end Dtail.GenClient
