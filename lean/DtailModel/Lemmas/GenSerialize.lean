/-
Tie G for the client's option serialisation: `Args.SerializeOptions` of internal/config/args.go as translated from the
working tree on this run (`Generated/Code.lean`, namespace `Gen.ClientArgs`).  The function collects the options in a Go map
and ranges over it: the order of the options on the wire is Go's choice — the parameter `ext.mapOrder`, of which the theorem
assumes only that it permutes the entries.  The theorem says that the serialised text is the ':'-join of the rendered options
of the request in *some* order (`OptionOrder.render` / `optsOf`), which is what the server's decoder is proved to decode to the
request whatever the order (`C12_generated_options_any_order`).
-/
import DtailModel.Generated.Code
import DtailModel.Lemmas.GoRT
import DtailModel.Lemmas.OptionOrder
namespace Dtail.GenSerialize
open Dtail Dtail.Go Dtail.Gen.ClientArgs Dtail.OptionOrder

/-- the request the model's `optsOf` reads, from the client's arguments (only the option fields matter) -/
def reqOf (a : Args) : Req :=
  ⟨[], a.Quiet, a.Plain, a.Serverless, ⟨a.LContext.BeforeContext, a.LContext.AfterContext, a.LContext.MaxCount⟩, [], [], false⟩

/-- an option as the map entry `SerializeOptions` makes of it -/
def kv (ext : Ext) : Opt → GoString × GoString
  | .quiet => (b!"quiet", b!"true") | .plain => (b!"plain", b!"true") | .serverless => (b!"serverless", b!"true")
  | .max n => (b!"max", ext.fmtInt n) | .before n => (b!"before", ext.fmtInt n) | .after n => (b!"after", ext.fmtInt n)

theorem kv_render (ext : Ext) (o : Opt) : (kv ext o).1 ++ [61] ++ (kv ext o).2 = OptionOrder.render ext.fmtInt o := by
  cases o <;> rfl

/-- the map after the six conditional insertions holds the request's options, in the order of `optsOf` -/
theorem options_entries (ext : Ext) (a : Args) :
    (let options := (GoZero.zero : (GoMap GoString GoString))
     let options := if a.Quiet then (GoIndex.upd options ([113, 117, 105, 101, 116] : GoString) (GoFmt.fmt ext a.Quiet)) else options
     let options := if a.Plain then (GoIndex.upd options ([112, 108, 97, 105, 110] : GoString) (GoFmt.fmt ext a.Plain)) else options
     let options := if a.Serverless then (GoIndex.upd options ([115, 101, 114, 118, 101, 114, 108, 101, 115, 115] : GoString) (GoFmt.fmt ext a.Serverless)) else options
     let options := if (a.LContext.MaxCount != 0) then (GoIndex.upd options ([109, 97, 120] : GoString) (GoFmt.fmt ext a.LContext.MaxCount)) else options
     let options := if (a.LContext.BeforeContext != 0) then (GoIndex.upd options ([98, 101, 102, 111, 114, 101] : GoString) (GoFmt.fmt ext a.LContext.BeforeContext)) else options
     let options := if (a.LContext.AfterContext != 0) then (GoIndex.upd options ([97, 102, 116, 101, 114] : GoString) (GoFmt.fmt ext a.LContext.AfterContext)) else options
     options).entries = (optsOf (reqOf a)).map (kv ext) := by
  obtain ⟨⟨af, be, mx⟩, q, s, p⟩ := a
  unfold optsOf reqOf
  cases q <;> cases p <;> cases s <;> by_cases h1 : mx = 0 <;> by_cases h2 : be = 0 <;> by_cases h3 : af = 0 <;>
    simp [h1, h2, h3, GoIndex.upd, GoMap.set, GoFmt.fmt, kv, GoZero.zero]

/-- `k=v` -/
def item (e : GoString × GoString) : Bytes := e.1 ++ [61] ++ e.2

/-- the loop once something has been written: every further entry comes with a ':' in front -/
theorem loop_pos (a : Args) : ∀ (l : List (GoString × GoString)) (i : Int) (sb : GoString), 0 < i →
    goRange l (i, sb)
      (fun (i, sb) (k, v) =>
        if (decide (i > 0)) then
          let sb := sb ++ ([58] : GoString)
          let sb := sb ++ k
          let sb := sb ++ ([61] : GoString)
          let sb := sb ++ v
          let i := (i + 1)
          (LoopStep.next (i, sb) : LoopStep (Args × GoString) (Int × GoString))
        else
          let sb := sb ++ k
          let sb := sb ++ ([61] : GoString)
          let sb := sb ++ v
          let i := (i + 1)
          LoopStep.next (i, sb))
      (fun (i, sb) => (a, sb))
    = (a, sb ++ l.flatMap (fun e => COLON :: item e)) := by
  intro l
  induction l with
  | nil => intro i sb _; simp [goRange]
  | cons e rest ih =>
    intro i sb hi
    obtain ⟨k, v⟩ := e
    rw [goRange_cons]
    have : decide (i > 0) = true := by simp only [decide_eq_true_eq]; omega
    simp only [this, if_true]
    rw [ih (i + 1) _ (by omega)]
    simp [item, COLON, List.append_assoc]

theorem join_cons (x : Bytes) (rest : List Bytes) :
    joinByte COLON (x :: rest) = x ++ rest.flatMap (fun y => COLON :: y) := by
  induction rest generalizing x with
  | nil => simp [joinByte]
  | cons y ys ih => simp only [joinByte, List.flatMap_cons, ih y]; simp

/-- the loop from the start -/
theorem loop_zero (a : Args) (l : List (GoString × GoString)) :
    goRange l ((0 : Int), ([] : GoString))
      (fun (i, sb) (k, v) =>
        if (decide (i > 0)) then
          let sb := sb ++ ([58] : GoString)
          let sb := sb ++ k
          let sb := sb ++ ([61] : GoString)
          let sb := sb ++ v
          let i := (i + 1)
          (LoopStep.next (i, sb) : LoopStep (Args × GoString) (Int × GoString))
        else
          let sb := sb ++ k
          let sb := sb ++ ([61] : GoString)
          let sb := sb ++ v
          let i := (i + 1)
          LoopStep.next (i, sb))
      (fun (i, sb) => (a, sb))
    = (a, joinByte COLON (l.map item)) := by
  cases l with
  | nil => simp [goRange, joinByte]
  | cons e rest =>
    obtain ⟨k, v⟩ := e
    rw [goRange_cons]
    have : decide ((0 : Int) > 0) = false := by decide
    simp only [this, Bool.false_eq_true, if_false]
    rw [loop_pos a rest (0 + 1) _ (by omega), List.map_cons, join_cons]
    simp [item, List.flatMap_map]

/-- a permutation of the image of a list is the image of a permutation -/
theorem perm_map_inv {α β : Type} [DecidableEq α] (f : α → β) : ∀ (l' : List β) (l : List α), l'.Perm (l.map f) →
    ∃ ys : List α, ys.Perm l ∧ ys.map f = l' := by
  intro l'
  induction l' with
  | nil =>
    intro l h
    have : l.map f = [] := List.Perm.eq_nil (h.symm)
    have : l = [] := by simpa using this
    exact ⟨[], by rw [this], rfl⟩
  | cons b t ih =>
    intro l h
    have hb : b ∈ l.map f := h.subset (by simp)
    obtain ⟨x, hx, rfl⟩ := List.mem_map.1 hb
    have hp : l.Perm (x :: l.erase x) := List.perm_cons_erase hx
    have hp2 : (f x :: t).Perm (f x :: (l.erase x).map f) := h.trans (by simpa using hp.map f)
    obtain ⟨ys, hys, hm⟩ := ih (l.erase x) (List.Perm.cons_inv hp2)
    exact ⟨x :: ys, (List.Perm.cons x hys).trans hp.symm, by simp [hm]⟩

/-- **the translated `SerializeOptions` writes the request's options in some order**: given only that Go's map iteration
    permutes the entries, the result is the ':'-join of the rendered options of a permutation of `optsOf` -/
theorem SerializeOptions_spec (ext : Ext) (hperm : ∀ l, (ext.mapOrder l).Perm l) (a : Args) :
    ∃ ys : List Opt, ys.Perm (optsOf (reqOf a)) ∧
      Args.SerializeOptions ext a = (a, joinByte COLON (ys.map (OptionOrder.render ext.fmtInt))) := by
  unfold Args.SerializeOptions
  have he := options_entries ext a
  simp only [] at he ⊢
  rw [he]
  obtain ⟨ys, hys, hm⟩ := perm_map_inv (kv ext) _ _ (hperm ((optsOf (reqOf a)).map (kv ext)))
  refine ⟨ys, hys, ?_⟩
  have hz : (GoZero.zero : Int) = 0 := rfl
  have hzs : (GoZero.zero : GoString) = [] := rfl
  rw [hz, hzs, loop_zero a, ← hm, List.map_map]
  congr 2
  apply List.map_congr_left
  intro o _
  exact kv_render ext o

end Dtail.GenSerialize
