/-
Tie G (panic-aware) for password authentication: `Server.Callback` and `Server.backgroundCanSSH` of
internal/server/server.go as translated from the working tree on this run (`Generated/Code.lean`, namespace
`Gen.Auth`).  The translated callback never panics, and it grants (returns a nil error) exactly when the model's
`passwordCallback` says so.  Outside the translation, as parameters of the theorems (`Ext`): `user.New`,
`net.LookupIP`, the configured job lists, and the two accessors of `gossh.ConnMetadata`.
-/
import DtailModel.Generated.Code
import DtailModel.Lemmas.GoRT
import DtailModel.Model.Auth
import DtailModel.Lemmas.GoStr
set_option autoImplicit false
namespace Dtail.GenAuth
open Dtail Dtail.Go Dtail.Gen.Auth

/-- `net.LookupIP` as the model sees it: the addresses, none when the lookup fails -/
def lookupOf (ext : Ext) (a : Bytes) : List Bytes :=
  if (ext.lookupIP a).2 = none then (ext.lookupIP a).1 else []

def jobOf (j : GoJob) : Job := ⟨j.Name, j.AllowFrom⟩

theorem server_eq (a b : Server) : a = b := by cases a; cases b; rfl

/-- a loop that leaves with `r` at the first element satisfying `p` and otherwise changes nothing -/
theorem goRange_any {α ρ σ : Type} (l : List α) (s0 : σ) (body : σ → α → LoopStep ρ σ) (after : σ → ρ)
    (p : α → Bool) (r : ρ) (h : ∀ x, body s0 x = if p x then .ret r else .next s0) :
    goRange l s0 body after = if l.any p then r else after s0 := by
  induction l with
  | nil => rfl
  | cons x xs ih =>
    rw [goRange_cons, h x]
    by_cases hp : p x = true
    · simp [hp]
    · simp only [hp, Bool.false_eq_true, if_false, List.any_cons, Bool.false_or]; exact ih

theorem lit_health : lit_0 = Facts.healthUserBytes := by decide
theorem lit_schedule : lit_2 = Facts.scheduleUserBytes := by decide
theorem lit_continuous : lit_3 = Facts.continuousUserBytes := by decide

/-- **the translated `backgroundCanSSH` is the model's** -/
theorem backgroundCanSSH_refines (ext : Ext) (s : Server) (u : GoUser) (pw ip : Bytes) (j : GoJob) :
    Server.backgroundCanSSH ext s u pw ip j.Name j.AllowFrom
      = (s, Dtail.backgroundCanSSH (lookupOf ext) pw ip (jobOf j)) := by
  unfold Server.backgroundCanSSH Dtail.backgroundCanSSH
  by_cases hn : pw = j.Name
  · have h1 : (pw != j.Name) = false := by simp [hn]
    have h2 : (pw == (jobOf j).name) = true := by simp [hn, jobOf]
    rw [h1, h2]
    simp only [Bool.false_eq_true, if_false, Bool.true_and]
    rw [goRange_any j.AllowFrom () _ _ (fun a => (lookupOf ext a).contains ip) (s, true)]
    · show (if (List.any j.AllowFrom fun a => (lookupOf ext a).contains ip) = true then (s, true) else (s, false))
        = (s, List.any j.AllowFrom fun a => (lookupOf ext a).contains ip)
      cases List.any j.AllowFrom fun a => (lookupOf ext a).contains ip <;> rfl
    · intro a
      show (let (_t1, _t2) := ext.lookupIP a; _) = _
      by_cases he : (ext.lookupIP a).2 = none
      · have h3 : ((ext.lookupIP a).2 != none) = false := by simp [he]
        simp only [h3, Bool.false_eq_true, if_false]
        rw [goRange_any (ext.lookupIP a).1 () _ _ (fun x => ip == x) (LoopStep.ret (s, true)) (fun _ => rfl)]
        have : lookupOf ext a = (ext.lookupIP a).1 := by simp [lookupOf, he]
        rw [this, List.contains_eq_any_beq]
      · have h3 : ((ext.lookupIP a).2 != none) = true := by simp [he]
        simp only [h3, if_true]
        have : lookupOf ext a = [] := by simp [lookupOf, he]
        rw [this]; rfl
  · have h1 : (pw != j.Name) = true := by simp [hn]
    have h2 : (pw == (jobOf j).name) = false := by simp [hn, jobOf]
    rw [h1, h2]; simp only [if_true, Bool.false_and]

/-- the address the callback compares: what stands before the first ':' of `RemoteAddr().String()` -/
def remoteIPOf (c : GoConnMeta) : Bytes := (splitOnByte (58 : UInt8) c.remoteAddr).headD []

/-- the job loop of `Callback` -/
theorem job_loop (ext : Ext) (s : Server) (u : GoUser) (pw ip : Bytes) (jobs : List GoJob) (e : GoErr) :
    goRange jobs s
      (fun s job =>
        let (_r4, _t5) := Server.backgroundCanSSH ext s u pw ip job.Name job.AllowFrom
        let s := _r4
        let cond_3 := _t5
        if cond_3 then
          LoopStep.ret (Outcome.ok (s, (GoZero.zero : GoPerms), (none : GoErr)))
        else
          LoopStep.next s)
      (fun s => (Outcome.ok (s, (GoZero.zero : GoPerms), e)))
    = Outcome.ok (s, (), if (jobs.map jobOf).any (Dtail.backgroundCanSSH (lookupOf ext) pw ip) then none else e) := by
  rw [goRange_any jobs s _ _ (fun j => Dtail.backgroundCanSSH (lookupOf ext) pw ip (jobOf j)) (Outcome.ok (s, (), none))]
  · rw [List.any_map]
    show _ = Outcome.ok (s, (), if (List.any jobs ((Dtail.backgroundCanSSH (lookupOf ext) pw ip) ∘ jobOf)) = true then none else e)
    have : (fun j => Dtail.backgroundCanSSH (lookupOf ext) pw ip (jobOf j)) = (Dtail.backgroundCanSSH (lookupOf ext) pw ip) ∘ jobOf := rfl
    rw [this]
    cases List.any jobs ((Dtail.backgroundCanSSH (lookupOf ext) pw ip) ∘ jobOf) <;> rfl
  · intro j
    dsimp only
    rw [backgroundCanSSH_refines]

/-- what the translated callback returns: never a panic, the receiver unchanged, an error or none -/
def granted : Outcome (Server × GoPerms × GoErr) → Option Bool
  | .ok (_, _, e) => some e.isNone
  | _ => none

/-- **the translated `Callback` never panics and grants exactly what the model grants**, for every connection, password,
    configuration and behaviour of `user.New` and `net.LookupIP`: when `user.New` fails nothing is granted; otherwise the
    decision is `passwordCallback` on the name `user.New` returned, the password and the address before the first ':' -/
theorem Callback_refines (ext : Ext) (s : Server) (c : GoConnMeta) (pw : Bytes) :
    granted (Server.Callback ext s c pw) = some
      ((ext.userNew c.user c.remoteAddr).2.isNone &&
        passwordCallback (lookupOf ext) (ext.schedule.map jobOf) (ext.continuous.map jobOf)
          (ext.userNew c.user c.remoteAddr).1.Name pw (remoteIPOf c)) := by
  unfold Server.Callback
  dsimp only
  cases herr : (ext.userNew c.user c.remoteAddr).2 with
  | some e => rfl
  | none =>
    have hne : ((none : GoErr) != none) = false := rfl
    rw [hne]
    simp only [Bool.false_eq_true, if_false]
    have hsplit : splitOnByte (58 : UInt8) c.remoteAddr ≠ [] := splitOnByte_ne_nil _ _
    have hin : goInRange (splitOnByte (58 : UInt8) c.remoteAddr) 0 = true := by
      have := List.length_pos_iff.2 hsplit
      have hl : (GoLen.len (splitOnByte (58 : UInt8) c.remoteAddr) : Int) = ((splitOnByte (58 : UInt8) c.remoteAddr).length : Int) := rfl
      simp only [goInRange, decide_eq_true_eq]; omega
    rw [hin]
    simp only [if_true]
    have hidx : GoIndex.idx (splitOnByte (58 : UInt8) c.remoteAddr) (0 : Int) = remoteIPOf c := by
      unfold remoteIPOf
      cases hs : splitOnByte (58 : UInt8) c.remoteAddr with
      | nil => exact absurd hs hsplit
      | cons a rest => rfl
    rw [hidx, job_loop, job_loop, lit_health, lit_schedule, lit_continuous]
    unfold passwordCallback
    generalize (ext.userNew c.user c.remoteAddr).1.Name = name
    simp only [Option.isNone_none, Bool.true_and]
    by_cases h0 : name = Facts.healthUserBytes
    · have : (name == Facts.healthUserBytes) = true := by simp [h0]
      rw [this, if_pos rfl, if_pos h0]
      cases hpw : (pw == Facts.healthUserBytes) <;> simp [granted]
    · have : (name == Facts.healthUserBytes) = false := by simp [h0]
      rw [this, if_neg h0]
      simp only [Bool.false_eq_true, if_false]
      by_cases h1 : name = Facts.scheduleUserBytes
      · have : (name == Facts.scheduleUserBytes) = true := by simp [h1]
        rw [this, if_pos rfl, if_pos h1]
        cases (List.map jobOf ext.schedule).any (Dtail.backgroundCanSSH (lookupOf ext) pw (remoteIPOf c)) <;> simp [granted]
      · have : (name == Facts.scheduleUserBytes) = false := by simp [h1]
        rw [this, if_neg h1]
        simp only [Bool.false_eq_true, if_false]
        by_cases h2 : name = Facts.continuousUserBytes
        · have : (name == Facts.continuousUserBytes) = true := by simp [h2]
          rw [this, if_pos rfl, if_pos h2]
          cases (List.map jobOf ext.continuous).any (Dtail.backgroundCanSSH (lookupOf ext) pw (remoteIPOf c)) <;> simp [granted]
        · have : (name == Facts.continuousUserBytes) = false := by simp [h2]
          rw [this, if_neg h2]
          simp [granted]

end Dtail.GenAuth
