/-
Lemmas about the run-time prelude of the translated code: association-list maps and the
range loop.
-/
import DtailModel.Model.GoRT
namespace Dtail.Go

namespace GoMap
variable {κ ν : Type} [BEq κ] [LawfulBEq κ]

theorem find?_map_fst (l : List (κ × ν)) (f : κ × ν → κ × ν) (hf : ∀ e, (f e).1 = e.1) (k' : κ) :
    (l.map f).find? (·.1 == k') = (l.find? (·.1 == k')).map f := by
  induction l with
  | nil => rfl
  | cons e rest ih =>
    simp only [List.map_cons, List.find?_cons, hf]
    cases (e.1 == k') <;> simp [ih]

theorem get?_set_eq (m : GoMap κ ν) (k : κ) (v : ν) : (m.set k v).get? k = some v := by
  unfold set get?
  by_cases h : m.entries.any (·.1 == k) = true
  · rw [if_pos h]
    simp only
    rw [find?_map_fst _ _ (by intro e; split <;> rfl)]
    obtain ⟨e, he, hek⟩ := List.any_eq_true.1 h
    cases hf : m.entries.find? (·.1 == k) with
    | none => exact absurd hek (by simpa using List.find?_eq_none.1 hf e he)
    | some e' =>
      have h1 : (e'.1 == k) = true := by
        have := List.find?_some hf
        simpa using this
      simp [h1]
  · rw [if_neg h]
    have hnone : m.entries.find? (·.1 == k) = none := by
      apply List.find?_eq_none.2
      intro e he hek
      exact h (List.any_eq_true.2 ⟨e, he, hek⟩)
    simp [List.find?_append, hnone]

theorem get?_set_ne (m : GoMap κ ν) (k k' : κ) (v : ν) (hne : k' ≠ k) : (m.set k v).get? k' = m.get? k' := by
  unfold set get?
  by_cases h : m.entries.any (·.1 == k) = true
  · rw [if_pos h]
    simp only
    rw [find?_map_fst _ _ (by intro e; split <;> rfl)]
    cases hf : m.entries.find? (·.1 == k') with
    | none => rfl
    | some e' =>
      have h1 : (e'.1 == k') = true := by
        have := List.find?_some hf
        simpa using this
      have h2 : e'.1 = k' := by simpa using h1
      have hk : (e'.1 == k) = false := by
        rw [h2]; simpa using hne
      simp [hk]
  · rw [if_neg h]
    simp only [List.find?_append]
    cases hf : m.entries.find? (·.1 == k') with
    | some e' => rfl
    | none =>
      have : (k == k') = false := by simpa using (Ne.symm hne)
      simp [this]

end GoMap

theorem goRange_nil {α ρ σ : Type} (init : σ) (body : σ → α → LoopStep ρ σ) (after : σ → ρ) :
    goRange [] init body after = after init := rfl

theorem goRange_cons {α ρ σ : Type} (x : α) (xs : List α) (init : σ) (body : σ → α → LoopStep ρ σ) (after : σ → ρ) :
    goRange (x :: xs) init body after =
      match body init x with
      | .ret r => r
      | .next s => goRange xs s body after
      | .brk s => after s := rfl

/-- a loop whose body always goes on is a fold -/
theorem goRange_fold {α ρ σ : Type} (l : List α) (s0 : σ) (body : σ → α → LoopStep ρ σ) (after : σ → ρ)
    (step : σ → α → σ) (h : ∀ s x, body s x = .next (step s x)) :
    goRange l s0 body after = after (l.foldl step s0) := by
  induction l generalizing s0 with
  | nil => rfl
  | cons x xs ih => rw [goRange_cons, h s0 x]; exact ih _

/-- a loop all of whose early returns, and whose normal end, satisfy `P` -/
theorem goRange_all {α ρ σ : Type} (P : ρ → Prop) (l : List α) (body : σ → α → LoopStep ρ σ) (after : σ → ρ)
    (hbody : ∀ s x r, body s x = .ret r → P r) (hafter : ∀ s, P (after s)) (s0 : σ) :
    P (goRange l s0 body after) := by
  induction l generalizing s0 with
  | nil => exact hafter s0
  | cons x xs ih =>
    rw [goRange_cons]
    cases hb : body s0 x with
    | ret r => exact hbody s0 x r hb
    | next s => exact ih s
    | brk s => exact hafter s

theorem ite_all {α : Type} (P : α → Prop) {c : Prop} [Decidable c] {a b : α} (ha : c → P a) (hb : ¬c → P b) :
    P (if c then a else b) := by
  by_cases h : c
  · rw [if_pos h]; exact ha h
  · rw [if_neg h]; exact hb h

/-- no operation on the file system fails -/
def NoIOErr (ext : Ext) : Prop := ∀ h op, ext.ioErr h op = none

theorem goEffect_noErr {ext : Ext} (hio : NoIOErr ext) (h : List GoFOp) (op : GoFOp) :
    goEffect ext h op = (h ++ [op], none) := by
  unfold goEffect; rw [hio h op]

end Dtail.Go
