/-
The order in which `SerializeOptions` emits the options is the iteration order of a Go map: any permutation.
`deserializeOptions` decodes every permutation of the option list of a request to the same line context and
the same session modes.
-/
import DtailModel.Lemmas.Command
namespace Dtail.OptionOrder
open Dtail

/-- one option of a request as the client emits it -/
inductive Opt where
  | quiet | plain | serverless
  | max (n : Int) | before (n : Int) | after (n : Int)
  deriving Repr, DecidableEq

/-- which option it is (its key) -/
def Opt.kind : Opt → Nat
  | .quiet => 0 | .plain => 1 | .serverless => 2 | .max _ => 3 | .before _ => 4 | .after _ => 5

def render (show' : Int → Bytes) : Opt → Bytes
  | .quiet => b!"quiet=true" | .plain => b!"plain=true" | .serverless => b!"serverless=true"
  | .max n => b!"max=" ++ show' n | .before n => b!"before=" ++ show' n | .after n => b!"after=" ++ show' n

/-- what decoding one option does to the decoder's state -/
def apply (s : List (Bytes × Bytes) × LCtx) : Opt → List (Bytes × Bytes) × LCtx
  | .quiet => (s.1.filter (·.1 ≠ b!"quiet") ++ [(b!"quiet", b!"true")], s.2)
  | .plain => (s.1.filter (·.1 ≠ b!"plain") ++ [(b!"plain", b!"true")], s.2)
  | .serverless => (s.1.filter (·.1 ≠ b!"serverless") ++ [(b!"serverless", b!"true")], s.2)
  | .max n => (s.1, { s.2 with maxc := n })
  | .before n => (s.1, { s.2 with before := n })
  | .after n => (s.1, { s.2 with after := n })

theorem decode_one (env : Env) (show' : Int → Bytes) (hc : IntCodec show') (x : Opt) (o : List (Bytes × Bytes)) (l : LCtx) :
    deserializeOptions env [render show' x] o l = .ok (apply (o, l) x) := by
  cases x with
  | quiet => exact opt_bool env (b!"quiet") o l (Or.inl rfl)
  | plain => exact opt_bool env (b!"plain") o l (Or.inr (Or.inl rfl))
  | serverless => exact opt_bool env (b!"serverless") o l (Or.inr (Or.inr rfl))
  | max n => exact (opt_int env show' hc n o l).1
  | before n => exact (opt_int env show' hc n o l).2.1
  | after n => exact (opt_int env show' hc n o l).2.2

theorem decode_list (env : Env) (show' : Int → Bytes) (hc : IntCodec show') (xs : List Opt) (o : List (Bytes × Bytes)) (l : LCtx) :
    deserializeOptions env (xs.map (render show')) o l = .ok (xs.foldl apply (o, l)) := by
  induction xs generalizing o l with
  | nil => exact deserializeOptions_nil env o l
  | cons x rest ih =>
    have h := deserializeOptions_append env [render show' x] (rest.map (render show')) o l
    simp only [List.map_cons, List.singleton_append] at h ⊢
    rw [h, decode_one env show' hc x o l]
    simp only [Outcome.bind, List.foldl_cons]
    exact ih _ _

/-- two decoder states that a session cannot tell apart: the same line context, the same three modes -/
def Same (s t : List (Bytes × Bytes) × LCtx) : Prop := s.2 = t.2 ∧ modesOf s.1 = modesOf t.1

theorem Same.rfl' (s : List (Bytes × Bytes) × LCtx) : Same s s := ⟨rfl, rfl⟩

theorem Same.trans' {s t u : List (Bytes × Bytes) × LCtx} (h1 : Same s t) (h2 : Same t u) : Same s u :=
  ⟨h1.1.trans h2.1, h1.2.trans h2.2⟩

/-- the lookup that `modesOf` makes, after one boolean option was stored -/
theorem get_store (o : List (Bytes × Bytes)) (k k' : Bytes) :
    ((o.filter (·.1 ≠ k) ++ [(k, b!"true")]).find? (·.1 = k')).map (·.2)
      = if k' = k then some (b!"true") else (o.find? (·.1 = k')).map (·.2) := by
  rw [List.find?_append, List.find?_filter]
  by_cases h : k' = k
  · subst h
    have hp : (fun (a : Bytes × Bytes) => decide (decide (a.1 ≠ k') = true ∧ decide (a.1 = k') = true)) = fun _ => false := by
      funext a; by_cases ha : a.1 = k' <;> simp [ha]
    rw [hp]
    have : o.find? (fun _ => false) = none := List.find?_eq_none.2 (by simp)
    rw [this]
    simp
  · have hne : ¬ k = k' := fun e => h e.symm
    have hp : (fun (a : Bytes × Bytes) => decide (decide (a.1 ≠ k) = true ∧ decide (a.1 = k') = true)) = fun a => decide (a.1 = k') := by
      funext a
      by_cases ha : a.1 = k'
      · simp [ha, h]
      · simp [ha]
    rw [hp]
    simp only [h, if_false]
    cases hfo : o.find? (fun a => decide (a.1 = k')) with
    | some e => simp
    | none => simp [hne]

/-- decoding one more option keeps indistinguishable states indistinguishable -/
theorem apply_congr (s t : List (Bytes × Bytes) × LCtx) (h : Same s t) (x : Opt) : Same (apply s x) (apply t x) := by
  obtain ⟨h1, h2⟩ := h
  simp only [modesOf, Prod.mk.injEq] at h2
  obtain ⟨hq, hp, hs⟩ := h2
  cases x <;> simp only [apply, Same, modesOf, get_store, h1, and_true, true_and, Prod.mk.injEq] <;>
    (first | exact ⟨hq, hp, hs⟩ | (refine ⟨?_, ?_, ?_⟩ <;> simp_all))

/-- options with different keys may be decoded in either order -/
theorem apply_comm (s : List (Bytes × Bytes) × LCtx) (x y : Opt) (hk : x.kind ≠ y.kind) :
    Same (apply (apply s x) y) (apply (apply s y) x) := by
  cases x <;> cases y <;> simp only [Opt.kind, ne_eq, not_true_eq_false, reduceCtorEq] at hk <;>
    simp only [apply, Same, modesOf, get_store, true_and, and_true, Prod.mk.injEq] <;>
    (first | trivial | (refine ⟨?_, ?_, ?_⟩ <;> simp) | simp)

theorem foldl_same (xs ys : List Opt) (hp : xs.Perm ys) (hn : (xs.map Opt.kind).Nodup)
    (s t : List (Bytes × Bytes) × LCtx) (hst : Same s t) : Same (xs.foldl apply s) (ys.foldl apply t) := by
  induction hp generalizing s t with
  | nil => exact hst
  | cons x _ ih =>
    simp only [List.foldl_cons]
    exact ih (List.nodup_cons.1 (by simpa using hn)).2 _ _ (apply_congr s t hst x)
  | swap x y l =>
    simp only [List.foldl_cons]
    have hxy : y.kind ≠ x.kind := by
      simp only [List.map_cons, List.nodup_cons, List.mem_cons] at hn
      exact fun e => hn.1 (Or.inl e)
    have h1 : Same (apply (apply s y) x) (apply (apply t x) y) :=
      (apply_comm s y x hxy).trans' (apply_congr _ _ (apply_congr s t hst x) y)
    -- the remaining options in the same order on indistinguishable states
    have hrest : ∀ (l : List Opt) (u v : List (Bytes × Bytes) × LCtx), Same u v → Same (l.foldl apply u) (l.foldl apply v) := by
      intro l
      induction l with
      | nil => intro u v h; exact h
      | cons z zs ihz => intro u v h; exact ihz _ _ (apply_congr u v h z)
    exact hrest l _ _ h1
  | trans hp1 _ ih1 ih2 =>
    have hn2 := (hp1.map Opt.kind).nodup_iff.1 hn
    exact (ih1 hn s s (Same.rfl' s)).trans' (ih2 hn2 s t hst)

/-- the options of a request -/
def optsOf (r : Req) : List Opt :=
  (if r.quiet then [Opt.quiet] else []) ++ (if r.plain then [Opt.plain] else [])
  ++ (if r.serverless then [Opt.serverless] else [])
  ++ (if r.ltx.maxc ≠ 0 then [Opt.max r.ltx.maxc] else [])
  ++ (if r.ltx.before ≠ 0 then [Opt.before r.ltx.before] else [])
  ++ (if r.ltx.after ≠ 0 then [Opt.after r.ltx.after] else [])

theorem optsOf_render (show' : Int → Bytes) (r : Req) : (optsOf r).map (render show') = optionList show' r := by
  unfold optsOf optionList
  cases r.quiet <;> cases r.plain <;> cases r.serverless <;>
    by_cases h1 : r.ltx.maxc = 0 <;> by_cases h2 : r.ltx.before = 0 <;> by_cases h3 : r.ltx.after = 0 <;>
    simp [render, h1, h2, h3]

theorem optsOf_nodup (r : Req) : ((optsOf r).map Opt.kind).Nodup := by
  unfold optsOf
  cases r.quiet <;> cases r.plain <;> cases r.serverless <;>
    by_cases h1 : r.ltx.maxc = 0 <;> by_cases h2 : r.ltx.before = 0 <;> by_cases h3 : r.ltx.after = 0 <;>
    simp [Opt.kind, h1, h2, h3]

/-- **every order of the options decodes alike** -/
theorem any_order (env : Env) (show' : Int → Bytes) (hc : IntCodec show') (r : Req) (ys : List Opt) (hp : ys.Perm (optsOf r)) :
    ∃ o, deserializeOptions env (ys.map (render show')) [] {} = .ok (o, r.ltx) ∧
      modesOf o = (r.quiet, r.plain, r.serverless) := by
  obtain ⟨o0, h0, hm0⟩ := options_roundtrip env show' hc r
  rw [← optsOf_render, decode_list env show' hc] at h0
  have hs := foldl_same ys (optsOf r) hp ((hp.map Opt.kind).nodup_iff.2 (optsOf_nodup r)) ([], {}) ([], {}) (Same.rfl' _)
  rw [decode_list env show' hc]
  have h0' : (optsOf r).foldl apply ([], {}) = (o0, r.ltx) := by
    simpa using h0
  rw [h0'] at hs
  refine ⟨(ys.foldl apply ([], {})).1, ?_, ?_⟩
  · have : (ys.foldl apply ([], {})).2 = r.ltx := hs.1
    rw [← this]
  · rw [hs.2]; exact hm0

end Dtail.OptionOrder
