/-
What a clause contributes to the parsed query, independently of the query it is applied to
(C11): a clause is a *patch* of the fields it denotes.  Clauses of different kinds touch
different fields, so their order is irrelevant.
-/
import DtailModel.Lemmas.QueryParse
namespace Dtail

/-- the fields a clause sets (`none` = untouched) -/
structure QPatch where
  sel : Option (List SelCond) := none
  table : Option Bytes := none
  whr : Option (List WhereCond) := none
  set : Option (List SetCond) := none
  group : Option (List Bytes) := none         -- group keys (groupBy and the joined groupKey)
  order : Option (Bytes × Bool) := none       -- order key, and whether it was `rorder`
  interval : Option Int := none
  limit : Option Int := none
  outfile : Option (Bytes × Bool) := none
  logFormat : Option Bytes := none

def QPatch.apply (p : QPatch) (q : Query) : Query :=
  { sel := p.sel.getD q.sel
    table := p.table.getD q.table
    whr := p.whr.getD q.whr
    set := p.set.getD q.set
    groupBy := p.group.getD q.groupBy
    groupKey := match p.group with | some g => joinByte COMMA g | none => q.groupKey
    orderBy := match p.order with | some (k, _) => k | none => q.orderBy
    reverse := match p.order with | some (_, true) => true | _ => q.reverse
    interval := p.interval.getD q.interval
    limit := p.limit.getD q.limit
    outfile := match p.outfile with | some o => some o | none => q.outfile
    logFormat := p.logFormat.getD q.logFormat }

/-- the patch a clause denotes, from its keyword (lower-cased) and its consumed body tokens -/
def clausePatch (fl : FloatOracle) (kwl : Bytes) (found : List Tok) : Outcome QPatch :=
  if kwl = b!"select" then (makeSelect found).bind fun s => .ok { sel := some s }
  else if kwl = b!"from" then
    if found.length = 0 then .err "expected table name after 'from'"
    else if found.length > 1 then .err "expected only one table name after 'from'"
    else match found with
      | f0 :: _ => .ok { table := some (upperAscii f0.str) }
      | [] => .err "expected table name after 'from'"
  else if kwl = b!"where" then (makeWhere fl found).bind fun w => .ok { whr := some w }
  else if kwl = b!"set" then (makeSet fl found).bind fun s => .ok { set := some s }
  else if kwl = b!"group" then .ok { group := some (found.map (·.str)) }
  else if kwl = b!"rorder" ∨ kwl = b!"order" then
    match found with
    | [] => .err "Unexpected end of query"
    | f0 :: _ => .ok { order := some (f0.str, decide (kwl = b!"rorder")) }
  else if kwl = b!"interval" then
    match found with
    | [] => .ok {}
    | f0 :: _ => match atoi f0.str with
      | none => .err "interval: not a number"
      | some i => .ok { interval := some i }
  else if kwl = b!"limit" then
    match found with
    | [] => .err "Unexpected end of query"
    | f0 :: _ => match atoi f0.str with
      | none => .err "limit: not a number"
      | some i => .ok { limit := some i }
  else if kwl = b!"outfile" then
    match found with
    | [f0] => .ok { outfile := some (f0.str, false) }
    | [f0, f1] => if f0.str = b!"append" then .ok { outfile := some (f1.str, true) } else .err "Invalid query"
    | _ => .err "Invalid query"
  else if kwl = b!"logformat" then
    match found with
    | [] => .err "Unexpected end of query"
    | f0 :: _ => .ok { logFormat := some f0.str }
  else .err "Unexpected keyword"

set_option linter.unusedSimpArgs false in
set_option maxHeartbeats 1000000 in
theorem clauseStep_patch (fl : FloatOracle) (q : Query) (c : ClauseT)
    (hb : ∀ t ∈ c.body, t.isKeyword = false) (hne : afterBy (lowerKey c.kw.str) c.body ≠ []) :
    clauseStep fl q c = (clausePatch fl (lowerKey c.kw.str) ((afterBy (lowerKey c.kw.str) c.body).filterMap normTok)).bind
      (fun p => .ok (p.apply q)) := by
  obtain ⟨kw, body⟩ := c
  simp only at hb hne ⊢
  obtain ⟨r0, h0, hr0⟩ := tokensConsume_body body [] hb (Or.inl rfl)
  simp only [List.append_nil] at h0
  have hab : ∀ t ∈ consumeOptional body (b!"by"), t.isKeyword = false := fun t ht => hb t (consumeOptional_sub body _ t ht)
  obtain ⟨r2, h2, hr2⟩ := tokensConsume_body (consumeOptional body (b!"by")) [] hab (Or.inl rfl)
  simp only [List.append_nil] at h2
  have hca : afterBy (lowerKey kw.str) body = consumeOptional body (b!"by") →
      ¬ (consumeOptional body (b!"by")).length < 1 := by
    intro e
    rw [e] at hne
    have : 0 < (consumeOptional body (b!"by")).length := List.length_pos_iff.2 hne
    omega
  unfold clauseStep parseClause clausePatch
  simp only [goIndex, goSliceFrom, List.getElem?_cons_zero, List.length_cons, List.drop_succ_cons, List.drop_zero,
    Nat.le_add_left, if_true, Bind.bind, Outcome.bind]
  by_cases k1 : lowerKey kw.str = b!"select"
  · have e : afterBy (lowerKey kw.str) body = body := by simp [afterBy, k1]
    simp only [if_pos k1, h0, e]
    cases makeSelect (List.filterMap normTok body) <;> simp [QPatch.apply, Outcome.bind]
  by_cases k2 : lowerKey kw.str = b!"from"
  · have e : afterBy (lowerKey kw.str) body = body := by simp [afterBy, k2]
    simp only [if_neg k1, if_pos k2, h0, e]
    generalize List.filterMap normTok body = F
    cases F with
    | nil => simp [QPatch.apply, Outcome.bind]
    | cons f0 tl => cases tl <;> simp [QPatch.apply, Outcome.bind]
  by_cases k3 : lowerKey kw.str = b!"where"
  · have e : afterBy (lowerKey kw.str) body = body := by simp [afterBy, k3]
    simp only [if_neg k1, if_neg k2, if_pos k3, h0, e]
    cases makeWhere fl (List.filterMap normTok body) <;> simp [QPatch.apply, Outcome.bind]
  by_cases k4 : lowerKey kw.str = b!"set"
  · have e : afterBy (lowerKey kw.str) body = body := by simp [afterBy, k4]
    simp only [if_neg k1, if_neg k2, if_neg k3, if_pos k4, h0, e]
    cases makeSet fl (List.filterMap normTok body) <;> simp [QPatch.apply, Outcome.bind]
  by_cases k5 : lowerKey kw.str = b!"group"
  · have e : afterBy (lowerKey kw.str) body = consumeOptional body (b!"by") := by simp [afterBy, k5]
    have hl := hca e
    simp only [if_neg k1, if_neg k2, if_neg k3, if_neg k4, if_pos k5, hl, h2, e, if_false]
    simp [QPatch.apply]
  by_cases k6 : lowerKey kw.str = b!"rorder" ∨ lowerKey kw.str = b!"order"
  · have e : afterBy (lowerKey kw.str) body = consumeOptional body (b!"by") := by
      rcases k6 with k | k <;> simp [afterBy, k]
    have hl := hca e
    simp only [if_neg k1, if_neg k2, if_neg k3, if_neg k4, if_neg k5, if_pos k6, hl, h2, e, if_false]
    generalize List.filterMap normTok (consumeOptional body (b!"by")) = F
    cases F with
    | nil => simp [QPatch.apply, Outcome.bind]
    | cons f0 tl =>
      by_cases hro : lowerKey kw.str = b!"rorder" <;> simp [QPatch.apply, Outcome.bind, hro]
  have e : afterBy (lowerKey kw.str) body = body := by
    have k6a : ¬ lowerKey kw.str = b!"rorder" := fun h => k6 (Or.inl h)
    have k6b : ¬ lowerKey kw.str = b!"order" := fun h => k6 (Or.inr h)
    simp [afterBy, k5, k6a, k6b]
  by_cases k7 : lowerKey kw.str = b!"interval"
  · simp only [if_neg k1, if_neg k2, if_neg k3, if_neg k4, if_neg k5, if_neg k6, if_pos k7, h0, e]
    generalize List.filterMap normTok body = F
    cases F with
    | nil => simp [QPatch.apply, Outcome.bind]
    | cons f0 tl => simp only [List.length_cons, List.getElem?_cons_zero]; cases atoi f0.str <;> simp [QPatch.apply, Outcome.bind]
  by_cases k8 : lowerKey kw.str = b!"limit"
  · simp only [if_neg k1, if_neg k2, if_neg k3, if_neg k4, if_neg k5, if_neg k6, if_neg k7, if_pos k8, h0, e]
    generalize List.filterMap normTok body = F
    cases F with
    | nil => simp [QPatch.apply, Outcome.bind]
    | cons f0 tl => simp only [List.length_cons, List.getElem?_cons_zero]; cases atoi f0.str <;> simp [QPatch.apply, Outcome.bind]
  by_cases k9 : lowerKey kw.str = b!"outfile"
  · simp only [if_neg k1, if_neg k2, if_neg k3, if_neg k4, if_neg k5, if_neg k6, if_neg k7, if_neg k8, if_pos k9, h0, e]
    generalize List.filterMap normTok body = F
    cases F with
    | nil => simp [QPatch.apply, Outcome.bind]
    | cons f0 tl =>
      cases tl with
      | nil => simp [QPatch.apply, Outcome.bind]
      | cons f1 t2 =>
        cases t2 with
        | nil => by_cases ha : f0.str = b!"append" <;> simp [QPatch.apply, Outcome.bind, ha]
        | cons f2 t3 => simp [QPatch.apply, Outcome.bind]
  by_cases k10 : lowerKey kw.str = b!"logformat"
  · simp only [if_neg k1, if_neg k2, if_neg k3, if_neg k4, if_neg k5, if_neg k6, if_neg k7, if_neg k8, if_neg k9, if_pos k10, h0, e]
    generalize List.filterMap normTok body = F
    cases F with
    | nil => simp [QPatch.apply, Outcome.bind]
    | cons f0 tl => simp only [List.length_cons, List.getElem?_cons_zero]; cases atoi f0.str <;> simp [QPatch.apply, Outcome.bind]
  simp only [if_neg k1, if_neg k2, if_neg k3, if_neg k4, if_neg k5, if_neg k6, if_neg k7, if_neg k8, if_neg k9, if_neg k10]


/-- the patches of a clause list, in order (the first failing clause fails the query) -/
def patchesOf (fl : FloatOracle) : List ClauseT → Outcome (List QPatch)
  | [] => .ok []
  | c :: cs =>
    (clausePatch fl (lowerKey c.kw.str) ((afterBy (lowerKey c.kw.str) c.body).filterMap normTok)).bind fun p =>
      (patchesOf fl cs).bind fun ps => .ok (p :: ps)

def applyAll (ps : List QPatch) (q : Query) : Query := ps.foldl (fun q p => p.apply q) q

/-- parsing the clauses one by one is applying their patches in order -/
theorem foldClauses_patches (fl : FloatOracle) (cs : List ClauseT) (hwf : ∀ c ∈ cs, ClauseWF c) (q : Query)
    (ps : List QPatch) (hp : patchesOf fl cs = .ok ps) : foldClauses fl q cs = .ok (applyAll ps q) := by
  induction cs generalizing q ps with
  | nil => simp only [patchesOf, Outcome.ok.injEq] at hp; subst hp; rfl
  | cons c rest ih =>
    have hc := hwf c (by simp)
    simp only [patchesOf] at hp
    cases h1 : clausePatch fl (lowerKey c.kw.str) ((afterBy (lowerKey c.kw.str) c.body).filterMap normTok) with
    | err e => simp [h1, Outcome.bind] at hp
    | panic e => simp [h1, Outcome.bind] at hp
    | ok p =>
      cases h2 : patchesOf fl rest with
      | err e => simp [h1, h2, Outcome.bind] at hp
      | panic e => simp [h1, h2, Outcome.bind] at hp
      | ok ps' =>
        simp only [h1, h2, Outcome.bind, Outcome.ok.injEq] at hp
        subst hp
        simp only [foldClauses]
        rw [clauseStep_patch fl q c hc.2.1 hc.2.2, h1]
        simp only [Outcome.bind]
        rw [ih (fun x hx => hwf x (List.mem_cons_of_mem _ hx)) (p.apply q) ps' h2]
        rfl

/-- two patches touch different fields -/
def QPatch.disj (a b : QPatch) : Prop :=
  (a.sel = none ∨ b.sel = none) ∧ (a.table = none ∨ b.table = none) ∧ (a.whr = none ∨ b.whr = none)
  ∧ (a.set = none ∨ b.set = none) ∧ (a.group = none ∨ b.group = none) ∧ (a.order = none ∨ b.order = none)
  ∧ (a.interval = none ∨ b.interval = none) ∧ (a.limit = none ∨ b.limit = none)
  ∧ (a.outfile = none ∨ b.outfile = none) ∧ (a.logFormat = none ∨ b.logFormat = none)

theorem QPatch.apply_comm (a b : QPatch) (q : Query) (h : a.disj b) : a.apply (b.apply q) = b.apply (a.apply q) := by
  obtain ⟨h1, h2, h3, h4, h5, h6, h7, h8, h9, h10⟩ := h
  simp only [QPatch.apply]
  congr 1
  · rcases h1 with h | h <;> simp [h]
  · rcases h2 with h | h <;> simp [h]
  · rcases h3 with h | h <;> simp [h]
  · rcases h4 with h | h <;> simp [h]
  · rcases h5 with h | h <;> simp [h]
  · rcases h6 with h | h <;> simp [h]
  · rcases h6 with h | h <;> simp [h]
  · rcases h5 with h | h <;> simp [h]
  · rcases h7 with h | h <;> simp [h]
  · rcases h8 with h | h <;> simp [h]
  · rcases h9 with h | h <;> simp [h]
  · rcases h10 with h | h <;> simp [h]

end Dtail

namespace Dtail

theorem QPatch.disj_symm (a b : QPatch) (h : a.disj b) : b.disj a := by
  obtain ⟨h1, h2, h3, h4, h5, h6, h7, h8, h9, h10⟩ := h
  exact ⟨h1.symm, h2.symm, h3.symm, h4.symm, h5.symm, h6.symm, h7.symm, h8.symm, h9.symm, h10.symm⟩

/-- patches that touch pairwise different fields can be applied in any order -/
theorem applyAll_perm (ps ps' : List QPatch) (hperm : ps.Perm ps') (hd : ps.Pairwise QPatch.disj) (q : Query) :
    applyAll ps q = applyAll ps' q := by
  induction hperm generalizing q with
  | nil => rfl
  | cons x _ ih =>
    simp only [applyAll, List.foldl_cons]
    exact ih (List.pairwise_cons.1 hd).2 _
  | swap x y l =>
    simp only [applyAll, List.foldl_cons]
    have hxy : y.disj x := (List.pairwise_cons.1 hd).1 x (by simp)
    rw [QPatch.apply_comm x y q (QPatch.disj_symm _ _ hxy)]
  | trans h1 _ ih1 ih2 =>
    rw [ih1 hd q]
    exact ih2 ((List.Perm.pairwise_iff (fun {a b} h => QPatch.disj_symm a b h) h1).1 hd) q

/-- the kind of a clause: `order` and `rorder` are the same kind -/
def kindOf (kwl : Bytes) : Nat :=
  if kwl = b!"select" then 0 else if kwl = b!"from" then 1 else if kwl = b!"where" then 2
  else if kwl = b!"set" then 3 else if kwl = b!"group" then 4
  else if kwl = b!"rorder" ∨ kwl = b!"order" then 5 else if kwl = b!"interval" then 6
  else if kwl = b!"limit" then 7 else if kwl = b!"outfile" then 8 else if kwl = b!"logformat" then 9 else 10

/-- the patch touches at most the field(s) of kind `k` -/
def QPatch.only (k : Nat) (p : QPatch) : Prop :=
  (k ≠ 0 → p.sel = none) ∧ (k ≠ 1 → p.table = none) ∧ (k ≠ 2 → p.whr = none) ∧ (k ≠ 3 → p.set = none)
  ∧ (k ≠ 4 → p.group = none) ∧ (k ≠ 5 → p.order = none) ∧ (k ≠ 6 → p.interval = none)
  ∧ (k ≠ 7 → p.limit = none) ∧ (k ≠ 8 → p.outfile = none) ∧ (k ≠ 9 → p.logFormat = none)

theorem QPatch.disj_of_only (a b : QPatch) (k k' : Nat) (ha : a.only k) (hb : b.only k') (hne : k ≠ k') : a.disj b := by
  obtain ⟨a0, a1, a2, a3, a4, a5, a6, a7, a8, a9⟩ := ha
  obtain ⟨b0, b1, b2, b3, b4, b5, b6, b7, b8, b9⟩ := hb
  refine ⟨?_, ?_, ?_, ?_, ?_, ?_, ?_, ?_, ?_, ?_⟩
  · by_cases h : k = 0
    · exact Or.inr (b0 (by omega))
    · exact Or.inl (a0 h)
  · by_cases h : k = 1
    · exact Or.inr (b1 (by omega))
    · exact Or.inl (a1 h)
  · by_cases h : k = 2
    · exact Or.inr (b2 (by omega))
    · exact Or.inl (a2 h)
  · by_cases h : k = 3
    · exact Or.inr (b3 (by omega))
    · exact Or.inl (a3 h)
  · by_cases h : k = 4
    · exact Or.inr (b4 (by omega))
    · exact Or.inl (a4 h)
  · by_cases h : k = 5
    · exact Or.inr (b5 (by omega))
    · exact Or.inl (a5 h)
  · by_cases h : k = 6
    · exact Or.inr (b6 (by omega))
    · exact Or.inl (a6 h)
  · by_cases h : k = 7
    · exact Or.inr (b7 (by omega))
    · exact Or.inl (a7 h)
  · by_cases h : k = 8
    · exact Or.inr (b8 (by omega))
    · exact Or.inl (a8 h)
  · by_cases h : k = 9
    · exact Or.inr (b9 (by omega))
    · exact Or.inl (a9 h)

end Dtail

namespace Dtail

set_option maxHeartbeats 1000000 in
/-- a clause only touches the field(s) of its kind -/
theorem clausePatch_only (fl : FloatOracle) (kwl : Bytes) (found : List Tok) (p : QPatch)
    (h : clausePatch fl kwl found = .ok p) : p.only (kindOf kwl) := by
  unfold clausePatch at h
  unfold kindOf
  by_cases k1 : kwl = b!"select"
  · simp only [if_pos k1] at h ⊢
    cases hm : makeSelect found <;> simp [hm, Outcome.bind] at h
    subst h; simp [QPatch.only]
  by_cases k2 : kwl = b!"from"
  · simp only [if_neg k1, if_pos k2] at h ⊢
    cases found with
    | nil => simp at h
    | cons f0 tl => cases tl <;> simp at h; subst h; simp [QPatch.only]
  by_cases k3 : kwl = b!"where"
  · simp only [if_neg k1, if_neg k2, if_pos k3] at h ⊢
    cases hm : makeWhere fl found <;> simp [hm, Outcome.bind] at h
    subst h; simp [QPatch.only]
  by_cases k4 : kwl = b!"set"
  · simp only [if_neg k1, if_neg k2, if_neg k3, if_pos k4] at h ⊢
    cases hm : makeSet fl found <;> simp [hm, Outcome.bind] at h
    subst h; simp [QPatch.only]
  by_cases k5 : kwl = b!"group"
  · simp only [if_neg k1, if_neg k2, if_neg k3, if_neg k4, if_pos k5, Outcome.ok.injEq] at h ⊢
    subst h; simp [QPatch.only]
  by_cases k6 : kwl = b!"rorder" ∨ kwl = b!"order"
  · simp only [if_neg k1, if_neg k2, if_neg k3, if_neg k4, if_neg k5, if_pos k6] at h ⊢
    cases found with
    | nil => simp at h
    | cons f0 tl => simp only [Outcome.ok.injEq] at h; subst h; simp [QPatch.only]
  by_cases k7 : kwl = b!"interval"
  · simp only [if_neg k1, if_neg k2, if_neg k3, if_neg k4, if_neg k5, if_neg k6, if_pos k7] at h ⊢
    cases found with
    | nil => simp only [Outcome.ok.injEq] at h; subst h; simp [QPatch.only]
    | cons f0 tl =>
      cases ha : atoi f0.str <;> simp [ha] at h
      subst h; simp [QPatch.only]
  by_cases k8 : kwl = b!"limit"
  · simp only [if_neg k1, if_neg k2, if_neg k3, if_neg k4, if_neg k5, if_neg k6, if_neg k7, if_pos k8] at h ⊢
    cases found with
    | nil => simp at h
    | cons f0 tl =>
      cases ha : atoi f0.str <;> simp [ha] at h
      subst h; simp [QPatch.only]
  by_cases k9 : kwl = b!"outfile"
  · simp only [if_neg k1, if_neg k2, if_neg k3, if_neg k4, if_neg k5, if_neg k6, if_neg k7, if_neg k8, if_pos k9] at h ⊢
    cases found with
    | nil => simp at h
    | cons f0 tl =>
      cases tl with
      | nil => simp only [Outcome.ok.injEq] at h; subst h; simp [QPatch.only]
      | cons f1 t2 =>
        cases t2 with
        | nil =>
          by_cases ha : f0.str = b!"append" <;> simp [ha] at h
          subst h; simp [QPatch.only]
        | cons f2 t3 => simp at h
  by_cases k10 : kwl = b!"logformat"
  · simp only [if_neg k1, if_neg k2, if_neg k3, if_neg k4, if_neg k5, if_neg k6, if_neg k7, if_neg k8, if_neg k9, if_pos k10] at h ⊢
    cases found with
    | nil => simp at h
    | cons f0 tl => simp only [Outcome.ok.injEq] at h; subst h; simp [QPatch.only]
  simp only [if_neg k1, if_neg k2, if_neg k3, if_neg k4, if_neg k5, if_neg k6, if_neg k7, if_neg k8, if_neg k9, if_neg k10] at h
  cases h

/-- the patch of one clause -/
def patchOf (fl : FloatOracle) (c : ClauseT) : Outcome QPatch :=
  clausePatch fl (lowerKey c.kw.str) ((afterBy (lowerKey c.kw.str) c.body).filterMap normTok)

def clauseKind (c : ClauseT) : Nat := kindOf (lowerKey c.kw.str)

theorem patchesOf_cons (fl : FloatOracle) (c : ClauseT) (cs : List ClauseT) (ps : List QPatch) :
    patchesOf fl (c :: cs) = .ok ps ↔ ∃ p ps0, patchOf fl c = .ok p ∧ patchesOf fl cs = .ok ps0 ∧ ps = p :: ps0 := by
  simp only [patchesOf, patchOf]
  cases h1 : clausePatch fl (lowerKey c.kw.str) ((afterBy (lowerKey c.kw.str) c.body).filterMap normTok) with
  | err e => simp [Outcome.bind]
  | panic e => simp [Outcome.bind]
  | ok p =>
    cases h2 : patchesOf fl cs with
    | err e => simp [Outcome.bind]
    | panic e => simp [Outcome.bind]
    | ok ps0 =>
      simp only [Outcome.bind, Outcome.ok.injEq]
      constructor
      · intro h; exact ⟨p, ps0, rfl, rfl, h.symm⟩
      · rintro ⟨p', ps0', hp, hps, rfl⟩; subst hp; subst hps; rfl

/-- every patch comes from a clause of the list -/
theorem patchesOf_mem (fl : FloatOracle) (cs : List ClauseT) (ps : List QPatch) (h : patchesOf fl cs = .ok ps)
    (p : QPatch) (hp : p ∈ ps) : ∃ c ∈ cs, patchOf fl c = .ok p := by
  induction cs generalizing ps with
  | nil => simp only [patchesOf, Outcome.ok.injEq] at h; subst h; simp at hp
  | cons c rest ih =>
    obtain ⟨p0, ps0, h1, h2, rfl⟩ := (patchesOf_cons fl c rest ps).1 h
    rcases List.mem_cons.1 hp with rfl | hm
    · exact ⟨c, by simp, h1⟩
    · obtain ⟨c', hc', hpc'⟩ := ih ps0 h2 hm
      exact ⟨c', List.mem_cons_of_mem _ hc', hpc'⟩

/-- clauses of pairwise different kinds give pairwise disjoint patches -/
theorem patchesOf_pairwise (fl : FloatOracle) (cs : List ClauseT) (ps : List QPatch) (h : patchesOf fl cs = .ok ps)
    (hk : (cs.map clauseKind).Nodup) : ps.Pairwise QPatch.disj := by
  induction cs generalizing ps with
  | nil => simp only [patchesOf, Outcome.ok.injEq] at h; subst h; exact List.Pairwise.nil
  | cons c rest ih =>
    obtain ⟨p0, ps0, h1, h2, rfl⟩ := (patchesOf_cons fl c rest ps).1 h
    simp only [List.map_cons, List.nodup_cons] at hk
    refine List.pairwise_cons.2 ⟨?_, ih ps0 h2 hk.2⟩
    intro p' hp'
    obtain ⟨c', hc', hpc'⟩ := patchesOf_mem fl rest ps0 h2 p' hp'
    have hne : clauseKind c ≠ clauseKind c' := by
      intro e; exact hk.1 (by rw [e]; exact List.mem_map.2 ⟨c', hc', rfl⟩)
    exact QPatch.disj_of_only p0 p' _ _ (clausePatch_only fl _ _ p0 h1) (clausePatch_only fl _ _ p' hpc') hne

/-- the patches of a permuted clause list are a permutation of the patches -/
theorem patchesOf_perm (fl : FloatOracle) (cs cs' : List ClauseT) (hperm : cs.Perm cs') (ps : List QPatch)
    (h : patchesOf fl cs = .ok ps) : ∃ ps', patchesOf fl cs' = .ok ps' ∧ ps.Perm ps' := by
  induction hperm generalizing ps with
  | nil => exact ⟨ps, h, List.Perm.refl _⟩
  | cons x _ ih =>
    obtain ⟨p0, ps0, h1, h2, rfl⟩ := (patchesOf_cons fl x _ ps).1 h
    obtain ⟨ps1, h3, hp⟩ := ih ps0 h2
    exact ⟨p0 :: ps1, (patchesOf_cons fl x _ _).2 ⟨p0, ps1, h1, h3, rfl⟩, hp.cons p0⟩
  | swap x y l =>
    obtain ⟨p0, ps0, h1, h2, rfl⟩ := (patchesOf_cons fl y _ ps).1 h
    obtain ⟨p1, ps1, h3, h4, rfl⟩ := (patchesOf_cons fl x _ ps0).1 h2
    refine ⟨p1 :: p0 :: ps1, ?_, List.Perm.swap p1 p0 ps1⟩
    exact (patchesOf_cons fl x _ _).2 ⟨p1, p0 :: ps1, h3, (patchesOf_cons fl y _ _).2 ⟨p0, ps1, h1, h4, rfl⟩, rfl⟩
  | trans _ _ ih1 ih2 =>
    obtain ⟨ps1, h1, hp1⟩ := ih1 ps h
    obtain ⟨ps2, h2, hp2⟩ := ih2 ps1 h1
    exact ⟨ps2, h2, hp1.trans hp2⟩

end Dtail
