import DtailModel.Model.Discovery
namespace Dtail
variable {α : Type}

theorem perm_cons_eraseIdx (l : List α) (r : Nat) (x : α) (h : l[r]? = some x) :
    (x :: l.eraseIdx r).Perm l := by
  induction l generalizing r with
  | nil => simp at h
  | cons a l ih =>
    cases r with
    | zero => simp at h; subst h; simp
    | succ r =>
      simp only [List.getElem?_cons_succ] at h
      simp only [List.eraseIdx_cons_succ]
      exact (List.Perm.swap a x _).trans ((ih r h).cons a)

theorem shuffle_perm (l : List α) (rs : List Nat) (h : validIdx l.length rs = true) :
    ∃ out, shuffle l rs = some out ∧ out.Perm l := by
  induction rs generalizing l with
  | nil =>
    simp only [validIdx, decide_eq_true_eq] at h
    have : l = [] := List.eq_nil_of_length_eq_zero h
    subst this; exact ⟨[], rfl, List.Perm.refl _⟩
  | cons r rs ih =>
    simp only [validIdx, Bool.and_eq_true, decide_eq_true_eq] at h
    obtain ⟨hr, hrest⟩ := h
    have hx : l[r]? = some l[r] := List.getElem?_eq_getElem hr
    have hlen : (l.eraseIdx r).length = l.length - 1 := List.length_eraseIdx_of_lt hr
    obtain ⟨out, ho, hp⟩ := ih (l.eraseIdx r) (by rw [hlen]; exact hrest)
    refine ⟨l[r] :: out, ?_, ?_⟩
    · simp [shuffle, hx, ho]
    · exact (hp.cons _).trans (perm_cons_eraseIdx l r _ hx)

variable [DecidableEq α]

theorem mem_dedup (seen l : List α) (x : α) : x ∈ dedup seen l ↔ x ∈ l ∧ x ∉ seen := by
  induction l generalizing seen with
  | nil => simp [dedup]
  | cons a l ih =>
    simp only [dedup]
    split
    · rename_i ha
      rw [ih]
      constructor
      · rintro ⟨h1, h2⟩; exact ⟨List.mem_cons_of_mem _ h1, h2⟩
      · rintro ⟨h1, h2⟩
        rcases List.mem_cons.1 h1 with rfl | h1
        · exact absurd ha h2
        · exact ⟨h1, h2⟩
    · rename_i ha
      simp only [List.mem_cons, ih]
      constructor
      · rintro (rfl | ⟨h1, h2⟩)
        · exact ⟨Or.inl rfl, ha⟩
        · exact ⟨Or.inr h1, fun h => h2 (Or.inr h)⟩
      · rintro ⟨h1 | h1, h2⟩
        · exact Or.inl h1
        · by_cases hxa : x = a
          · exact Or.inl hxa
          · exact Or.inr ⟨h1, fun h => by rcases h with h | h; exact hxa h; exact h2 h⟩

theorem nodup_dedup (seen l : List α) : (dedup seen l).Nodup := by
  induction l generalizing seen with
  | nil => simp [dedup]
  | cons a l ih =>
    simp only [dedup]
    split
    · exact ih seen
    · refine List.nodup_cons.2 ⟨?_, ih _⟩
      rw [mem_dedup]; simp

/-- dedup keeps the order of first occurrences: it is a sublist -/
theorem dedup_sublist (seen l : List α) : (dedup seen l).Sublist l := by
  induction l generalizing seen with
  | nil => simp [dedup]
  | cons a l ih =>
    simp only [dedup]
    split
    · exact (ih seen).cons a
    · exact (ih _).cons_cons a

end Dtail
