/-
Tie G for the connection counter: `stats.serverLimitExceeded`, `incrementConnections`, `decrementConnections` of
internal/server/stats.go as translated from the working tree on this run (`Generated/Code.lean`, namespace `Gen.Conn`;
the mutex and the statistics log line are effects outside the translated state).  The three functions are the counter
operations of the model's `connStep` (`Model/Conn.lean`), whose invariant is C14.
-/
import DtailModel.Generated.Code
import DtailModel.Model.Conn
set_option autoImplicit false
namespace Dtail.GenConn
open Dtail Dtail.Go Dtail.Gen.Conn

/-- what the model keeps of the translated `stats` value -/
def Rel (ext : Ext) (g : stats) (s : ConnState) : Prop :=
  g.currentConnections = s.counter ∧ ext.maxConnections = (s.max : Int)

theorem limit_spec (ext : Ext) (g : stats) :
    (stats.serverLimitExceeded ext g).1 = g ∧
    ((stats.serverLimitExceeded ext g).2 ≠ none ↔ g.currentConnections ≥ ext.maxConnections) := by
  unfold stats.serverLimitExceeded
  by_cases h : g.currentConnections ≥ ext.maxConnections
  · simp [h]
  · simp [h]

theorem increment_spec (ext : Ext) (g : stats) :
    (stats.incrementConnections ext g).currentConnections = g.currentConnections + 1 ∧
    (stats.incrementConnections ext g).lifetimeConnections = g.lifetimeConnections + 1 := ⟨rfl, rfl⟩

theorem decrement_spec (ext : Ext) (g : stats) :
    (stats.decrementConnections ext g).currentConnections = g.currentConnections - 1 ∧
    (stats.decrementConnections ext g).lifetimeConnections = g.lifetimeConnections := ⟨rfl, rfl⟩

/-- what `listenerLoop` does with the counter when a connection arrives: refuse, or take a slot -/
def accept (ext : Ext) (g : stats) : stats × Bool :=
  match stats.serverLimitExceeded ext g with
  | (g, some _) => (g, false)
  | (g, none) => (stats.incrementConnections ext g, true)

/-- **the translated counter operations are the model's `connect` step**: related states stay related, and the connection
    is refused in the code exactly when the model marks it refused -/
theorem accept_refines (ext : Ext) (g : stats) (s s' : ConnState) (hr : Rel ext g s)
    (hs : connStep s .connect = some s') :
    Rel ext (accept ext g).1 s' ∧ ((accept ext g).2 = false ↔ s'.conns = s.conns ++ [.refused]) := by
  obtain ⟨hc, hm⟩ := hr
  obtain ⟨h1, h2⟩ := limit_spec ext g
  unfold accept
  simp only [connStep] at hs
  by_cases hlim : s.counter ≥ (s.max : Int)
  · rw [if_pos hlim] at hs
    have hs' := (Option.some.inj hs).symm
    have hne : (stats.serverLimitExceeded ext g).2 ≠ none := h2.2 (by rw [hc, hm]; exact hlim)
    cases he : stats.serverLimitExceeded ext g with
    | mk g1 e =>
      rw [he] at h1 hne
      cases e with
      | none => exact absurd rfl hne
      | some m =>
        simp only at h1 ⊢
        subst h1
        subst hs'
        exact ⟨⟨hc, hm⟩, by simp⟩
  · rw [if_neg hlim] at hs
    have hs' := (Option.some.inj hs).symm
    have heq : (stats.serverLimitExceeded ext g).2 = none := by
      cases hx : (stats.serverLimitExceeded ext g).2 with
      | none => rfl
      | some m => exact absurd (h2.1 (by rw [hx]; simp)) (by rw [hc, hm]; exact hlim)
    cases he : stats.serverLimitExceeded ext g with
    | mk g1 e =>
      rw [he] at h1 heq
      simp only at h1 heq
      subst h1 heq
      subst hs'
      refine ⟨⟨?_, hm⟩, ?_⟩
      · show (stats.incrementConnections ext g1).currentConnections = s.counter + 1
        rw [(increment_spec ext g1).1, hc]
      · simp

/-- the model's two steps that give a slot back are `decrementConnections` -/
theorem release_refines (ext : Ext) (g : stats) (s s' : ConnState) (i : Nat) (hr : Rel ext g s)
    (hs : connStep s (.handshakeFail i) = some s' ∨ connStep s (.close i) = some s') :
    Rel ext (stats.decrementConnections ext g) s' := by
  obtain ⟨hc, hm⟩ := hr
  have hcnt : s'.counter = s.counter - 1 ∧ s'.max = s.max := by
    rcases hs with hs | hs <;> simp only [connStep] at hs <;> split at hs <;>
      first | (cases hs; exact ⟨rfl, rfl⟩) | exact absurd hs (by simp)
  refine ⟨?_, by rw [hcnt.2]; exact hm⟩
  rw [(decrement_spec ext g).1, hc, hcnt.1]

end Dtail.GenConn
