import DtailModel.Model.GlobID
import DtailModel.Lemmas.GoStr
namespace Dtail

theorem globIDLoop_eq_starSel (pp gs : List Bytes) (i : Nat) (h : gs.length ≤ (pp.drop i).length) :
    globIDLoop pp gs i = .ok (starSel (pp.drop i) gs) := by
  induction gs generalizing i with
  | nil => cases hd : pp.drop i <;> simp [globIDLoop, starSel]
  | cons g gs ih =>
    cases hd : pp.drop i with
    | nil => simp [hd] at h
    | cons p ps =>
      have hi : pp[i]? = some p := by
        have := List.getElem?_drop (xs := pp) (i := i) (j := 0)
        simp [hd] at this
        exact this.symm
      have hdrop : pp.drop (i + 1) = ps := by
        have : pp.drop (i + 1) = (pp.drop i).drop 1 := by simp [List.drop_drop]
        rw [this, hd]; rfl
      have hlen : gs.length ≤ (pp.drop (i + 1)).length := by
        rw [hdrop]; rw [hd] at h; simp at h; omega
      unfold globIDLoop
      by_cases hs : isWild g = true
      · simp only [hs, if_true, hi, ih (i + 1) hlen, hdrop, starSel]
      · simp only [hs, ih (i + 1) hlen, hdrop, starSel]; rfl

/-- paths that agree with the glob on its literal components and with each other on its star
    components are the same path -/
theorem starSel_injective (gs ps qs : List Bytes) (hp : MatchesLiterals ps gs) (hq : MatchesLiterals qs gs)
    (h : starSel ps gs = starSel qs gs) : ps = qs := by
  induction gs generalizing ps qs with
  | nil =>
    cases ps <;> cases qs <;> simp_all [MatchesLiterals]
  | cons g gs ih =>
    cases ps with
    | nil => simp [MatchesLiterals] at hp
    | cons p ps' =>
      cases qs with
      | nil => simp [MatchesLiterals] at hq
      | cons q qs' =>
        simp only [MatchesLiterals] at hp hq
        by_cases hs : isWild g = true
        · simp only [starSel, hs, if_true, List.cons.injEq] at h
          rw [h.1, ih ps' qs' hp.2 hq.2 h.2]
        · have hs' : isWild g = false := by simpa using hs
          simp only [starSel, hs', Bool.false_eq_true, if_false] at h
          rw [hp.1 hs', hq.1 hs', ih ps' qs' hp.2 hq.2 h]

theorem matchesLiterals_length (ps gs : List Bytes) (h : MatchesLiterals ps gs) : ps.length = gs.length := by
  induction gs generalizing ps with
  | nil => cases ps <;> simp_all [MatchesLiterals]
  | cons g gs ih =>
    cases ps with
    | nil => simp [MatchesLiterals] at h
    | cons p ps' => simp only [MatchesLiterals] at h; simp [ih ps' h.2]

theorem starSel_subset (ps gs : List Bytes) : ∀ x ∈ starSel ps gs, x ∈ ps := by
  induction gs generalizing ps with
  | nil => cases ps <;> simp [starSel]
  | cons g gs ih =>
    cases ps with
    | nil => simp [starSel]
    | cons p ps' =>
      intro x hx
      simp only [starSel] at hx
      split at hx
      · rcases List.mem_cons.1 hx with rfl | hx
        · simp
        · exact List.mem_cons_of_mem _ (ih ps' x hx)
      · exact List.mem_cons_of_mem _ (ih ps' x hx)

theorem starSel_ne_nil_of_star (ps gs : List Bytes) (hl : ps.length = gs.length) (hs : ∃ g ∈ gs, isWild g = true) :
    starSel ps gs ≠ [] := by
  induction gs generalizing ps with
  | nil => obtain ⟨g, hg, _⟩ := hs; simp at hg
  | cons g gs ih =>
    cases ps with
    | nil => simp at hl
    | cons p ps' =>
      simp only [starSel]
      by_cases hg : isWild g = true
      · rw [if_pos hg]; simp
      · rw [if_neg hg]
        obtain ⟨g', hg', hs'⟩ := hs
        rcases List.mem_cons.1 hg' with rfl | hm
        · exact absurd hs' hg
        · exact ih ps' (by simpa using hl) ⟨g', hm, hs'⟩

end Dtail

namespace Dtail

theorem splitOnByte_parts_nosep (sep : UInt8) (s : Bytes) : ∀ x ∈ splitOnByte sep s, sep ∉ x := by
  induction s with
  | nil => intro x hx; simp [splitOnByte] at hx; subst hx; simp
  | cons b bs ih =>
    intro x hx
    unfold splitOnByte at hx
    by_cases hb : b = sep
    · simp only [hb, if_true, List.mem_cons] at hx
      rcases hx with rfl | hx
      · simp
      · exact ih x hx
    · simp only [hb, if_false] at hx
      cases hsp : splitOnByte sep bs with
      | nil => exact absurd hsp (splitOnByte_ne_nil sep bs)
      | cons h t =>
        simp only [hsp, List.mem_cons] at hx
        rcases hx with rfl | hx
        · have := ih h (by rw [hsp]; simp)
          intro hm
          rcases List.mem_cons.1 hm with e | e
          · exact hb e.symm
          · exact this e
        · exact ih x (by rw [hsp]; exact List.mem_cons_of_mem _ hx)

/-- with as many path components as glob components the loop never indexes out of range -/
theorem makeGlobID_ok (path glob : Bytes)
    (h : (splitOnByte SLASH glob).length ≤ (splitOnByte SLASH path).length) :
    makeGlobID path glob =
      .ok (match starSel (splitOnByte SLASH path) (splitOnByte SLASH glob) with
           | [] => (splitOnByte SLASH path).getLast?.getD []
           | ids => joinByte SLASH ids) := by
  unfold makeGlobID
  have := globIDLoop_eq_starSel (splitOnByte SLASH path) (splitOnByte SLASH glob) 0 (by simpa using h)
  simp only [List.drop_zero] at this
  simp only [this]
  cases starSel (splitOnByte SLASH path) (splitOnByte SLASH glob) <;> rfl

/-- **distinct files get distinct identifiers**: two paths that `filepath.Glob` can return for the
    same (cleaned) pattern with a `*` component and that receive the same identifier are the same path -/
theorem makeGlobID_injective (glob p q : Bytes)
    (hp : MatchesLiterals (splitOnByte SLASH p) (splitOnByte SLASH glob))
    (hq : MatchesLiterals (splitOnByte SLASH q) (splitOnByte SLASH glob))
    (hstar : ∃ g ∈ splitOnByte SLASH glob, isWild g = true)
    (h : makeGlobID p glob = makeGlobID q glob) : p = q := by
  have lp := matchesLiterals_length _ _ hp
  have lq := matchesLiterals_length _ _ hq
  rw [makeGlobID_ok p glob (by omega), makeGlobID_ok q glob (by omega)] at h
  have np := starSel_ne_nil_of_star _ _ lp hstar
  have nq := starSel_ne_nil_of_star _ _ lq hstar
  cases hsp : starSel (splitOnByte SLASH p) (splitOnByte SLASH glob) with
  | nil => exact absurd hsp np
  | cons a as =>
    cases hsq : starSel (splitOnByte SLASH q) (splitOnByte SLASH glob) with
    | nil => exact absurd hsq nq
    | cons b bs =>
      simp only [hsp, hsq, Outcome.ok.injEq] at h
      have wp : ∀ x ∈ a :: as, SLASH ∉ x := by
        intro x hx; rw [← hsp] at hx
        exact splitOnByte_parts_nosep SLASH p x (starSel_subset _ _ x hx)
      have wq : ∀ x ∈ b :: bs, SLASH ∉ x := by
        intro x hx; rw [← hsq] at hx
        exact splitOnByte_parts_nosep SLASH q x (starSel_subset _ _ x hx)
      have e1 := splitOnByte_joinByte SLASH (a :: as) (by simp) wp
      have e2 := splitOnByte_joinByte SLASH (b :: bs) (by simp) wq
      have hsel : a :: as = b :: bs := by rw [← e1, ← e2, h]
      have := starSel_injective _ _ _ hp hq (by rw [hsp, hsq, hsel])
      rw [← joinByte_splitOnByte SLASH p, ← joinByte_splitOnByte SLASH q, this]

end Dtail
