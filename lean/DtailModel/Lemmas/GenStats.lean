/-
Tie G for internal/io/fs/stats.go: the Lean code that /verif/extract translates from the
working tree on every run (`Generated/Code.lean`, namespace `Dtail.Gen.Fs`) refines the
hand-written ring model of `Model/Tail.lean`, on which the C04 theorems are stated.
If stats.go changes its arithmetic, these proofs no longer close.
-/
import DtailModel.Generated.Code
import DtailModel.Lemmas.Tail
set_option autoImplicit false
namespace Dtail.GenStats
open Dtail Dtail.Go Dtail.Gen.Fs

/-- the model state a translated `stats` value stands for -/
def abs (g : stats) : Stats :=
  ⟨g.pos.toNat, g.lineCount.toNat, g.matched, g.transmitted, g.matchCount.toNat, g.transmitCount.toNat⟩

/-- a translated value whose integers are non-negative (Go: `int` position, unsigned counters) -/
def NonNeg (g : stats) : Prop :=
  0 ≤ g.pos ∧ 0 ≤ g.lineCount ∧ 0 ≤ g.matchCount ∧ 0 ≤ g.transmitCount

theorem zero_abs : abs ({} : stats) = statsInit ∧ NonNeg ({} : stats) := by
  refine ⟨?_, by simp [NonNeg, GoZero.zero]⟩
  simp [abs, statsInit, ringSize, Facts.statsRingSize, GoZero.zero]

theorem updatePosition_refines (ext : Ext) (g : stats) (h : NonNeg g) :
    abs (stats.updatePosition ext g) = updatePosition (abs g) ∧ NonNeg (stats.updatePosition ext g) := by
  obtain ⟨hp, hl, hm, ht⟩ := h
  have hmod : Int.tmod (g.pos + 1) 100 = (g.pos + 1) % 100 := Int.tmod_eq_emod_of_nonneg (by omega)
  refine ⟨?_, ?_⟩
  · simp only [stats.updatePosition, abs, updatePosition, Facts.statsRingModulus, hmod]
    congr 1 <;> omega
  · simp only [stats.updatePosition, NonNeg, hmod]
    refine ⟨by omega, by omega, hm, ht⟩

theorem getD_toNat (l : List Bool) (i : Int) :
    (GoIndex.idx l i : Bool) = l.getD i.toNat false := rfl

theorem updateLineMatched_refines (ext : Ext) (g : stats) (h : NonNeg g) :
    abs (stats.updateLineMatched ext g) = setMatched (abs g) true ∧ NonNeg (stats.updateLineMatched ext g) := by
  obtain ⟨hp, hl, hm, ht⟩ := h
  unfold stats.updateLineMatched setMatched
  simp only [getD_toNat, abs]
  cases hb : g.matched.getD g.pos.toNat false <;> simp [NonNeg, GoIndex.upd, *] <;> omega

theorem updateLineTransmitted_refines (ext : Ext) (g : stats) (h : NonNeg g) :
    abs (stats.updateLineTransmitted ext g) = setTransmitted (abs g) true ∧ NonNeg (stats.updateLineTransmitted ext g) := by
  obtain ⟨hp, hl, hm, ht⟩ := h
  unfold stats.updateLineTransmitted setTransmitted
  simp only [getD_toNat, abs]
  cases hb : g.transmitted.getD g.pos.toNat false <;> simp [NonNeg, GoIndex.upd, *] <;> omega

/-- un-matching decrements a counter: the refinement needs the counter to be positive, which the
    ring invariant provides (a set flag is counted) -/
theorem updateLineNotMatched_refines (ext : Ext) (g : stats) (h : NonNeg g)
    (hpos : g.matched.getD g.pos.toNat false = true → 1 ≤ g.matchCount) :
    abs (stats.updateLineNotMatched ext g) = setMatched (abs g) false ∧ NonNeg (stats.updateLineNotMatched ext g) := by
  obtain ⟨hp, hl, hm, ht⟩ := h
  unfold stats.updateLineNotMatched setMatched
  simp only [getD_toNat, abs]
  rcases Bool.eq_false_or_eq_true (g.matched.getD g.pos.toNat false) with hb | hb
  · have := hpos hb
    simp only [List.getD_eq_getElem?_getD] at hb
    simp [NonNeg, GoIndex.upd, hb, hp, hl, ht] <;> omega
  · simp only [List.getD_eq_getElem?_getD] at hb
    simp [NonNeg, hb, hp, hl, hm, ht]

theorem updateLineNotTransmitted_refines (ext : Ext) (g : stats) (h : NonNeg g)
    (hpos : g.transmitted.getD g.pos.toNat false = true → 1 ≤ g.transmitCount) :
    abs (stats.updateLineNotTransmitted ext g) = setTransmitted (abs g) false ∧ NonNeg (stats.updateLineNotTransmitted ext g) := by
  obtain ⟨hp, hl, hm, ht⟩ := h
  unfold stats.updateLineNotTransmitted setTransmitted
  simp only [getD_toNat, abs]
  rcases Bool.eq_false_or_eq_true (g.transmitted.getD g.pos.toNat false) with hb | hb
  · have := hpos hb
    simp only [List.getD_eq_getElem?_getD] at hb
    simp [NonNeg, GoIndex.upd, hb, hp, hl, hm] <;> omega
  · simp only [List.getD_eq_getElem?_getD] at hb
    simp [NonNeg, hb, hp, hl, hm, ht]

end Dtail.GenStats

namespace Dtail.GenStats
open Dtail Dtail.Go Dtail.Gen.Fs

theorem countTrue_pos_of_getD (l : List Bool) (i : Nat) (h : l.getD i false = true) : 1 ≤ countTrue l := by
  by_cases hi : i < l.length
  · have := countTrue_set l i false hi
    rw [h] at this
    simp at this
    omega
  · simp [List.getD_eq_getElem?_getD, List.getElem?_eq_none (Nat.le_of_not_lt hi)] at h

/-- `processLine` after its `updatePosition` -/
def afterPos (canSkip : Bool) (s : Stats) (isMatch queueFull : Bool) : Stats × LineFate × Nat × Nat :=
  if !isMatch then (setTransmitted (setMatched s false) false, .notMatched, 0, 0)
  else
    let s := setMatched s true
    if canSkip ∧ queueFull then (setTransmitted s false, .dropped, 0, 0)
    else
      let s := setTransmitted s true
      (s, .delivered, s.lineCount, percentOf s.matchCount s.transmitCount)

theorem processLine_eq_afterPos (canSkip : Bool) (s : Stats) (m q : Bool) :
    processLine canSkip s m q = afterPos canSkip (updatePosition s) m q := rfl

/-- what the translated `transmittable` reports, in the model's vocabulary -/
def fateOf (r : readFile × GoLine × Bool) : LineFate × Nat × Nat :=
  match r.2.1, r.2.2 with
  | .new _ c p _, true => (.delivered, c.toNat, p.toNat)
  | _, _ => (.notMatched, 0, 0)

/-- the counters of a translated ring agree with its flags -/
def Counted (g : stats) : Prop :=
  g.matchCount.toNat = countTrue g.matched ∧ g.transmitCount.toNat = countTrue g.transmitted

theorem matched_steps_keep_transmitted (ext : Ext) (g : stats) :
    (stats.updateLineMatched ext g).transmitted = g.transmitted ∧ (stats.updateLineMatched ext g).transmitCount = g.transmitCount ∧
    (stats.updateLineMatched ext g).pos = g.pos ∧ (stats.updateLineMatched ext g).lineCount = g.lineCount ∧
    (stats.updateLineNotMatched ext g).transmitted = g.transmitted ∧ (stats.updateLineNotMatched ext g).transmitCount = g.transmitCount ∧
    (stats.updateLineNotMatched ext g).pos = g.pos := by
  unfold stats.updateLineMatched stats.updateLineNotMatched
  refine ⟨?_, ?_, ?_, ?_, ?_, ?_, ?_⟩ <;> split <;> rfl

/-- **The translated `transmittable` is the model's line step** (after `updatePosition`): same
    ring, same fate, and a delivered line carries the model's count and percentage. -/
theorem transmittable_refines (ext : Ext) (g : readFile) (raw : GoString) (len cap : Int) (re : GoRegex)
    (hn : NonNeg g.stats) (hc : Counted g.stats)
    (hperc : ∀ m t : Int, 0 ≤ m → 0 ≤ t → ext.percentOf m t = (percentOf m.toNat t.toNat : Int)) :
    let r := readFile.transmittable ext g raw len cap re
    let a := afterPos g.canSkipLines (abs g.stats) (ext.reMatch re raw) (decide (len ≥ cap))
    abs r.1.stats = a.1 ∧ NonNeg r.1.stats ∧ r.1.canSkipLines = g.canSkipLines ∧ r.1.globID = g.globID ∧
    (r.2.2 = true ↔ a.2.1 = .delivered) ∧
    (r.2.2 = true → r.2.1 = GoLine.new raw a.2.2.1 a.2.2.2 g.globID) ∧ (r.2.2 = false → r.2.1 = .null) := by
  intro r a
  have hposM : g.stats.matched.getD g.stats.pos.toNat false = true → 1 ≤ g.stats.matchCount := by
    intro h; have := countTrue_pos_of_getD _ _ h; have := hc.1; omega
  have hposT : g.stats.transmitted.getD g.stats.pos.toNat false = true → 1 ≤ g.stats.transmitCount := by
    intro h; have := countTrue_pos_of_getD _ _ h; have := hc.2; omega
  have keep := matched_steps_keep_transmitted ext g.stats
  cases hm : ext.reMatch re raw
  · -- not matched
    have h1 := updateLineNotMatched_refines ext g.stats hn hposM
    have hposT' : (stats.updateLineNotMatched ext g.stats).transmitted.getD (stats.updateLineNotMatched ext g.stats).pos.toNat false = true →
        1 ≤ (stats.updateLineNotMatched ext g.stats).transmitCount := by
      rw [keep.2.2.2.2.1, keep.2.2.2.2.2.1, keep.2.2.2.2.2.2]; exact hposT
    have h2 := updateLineNotTransmitted_refines ext _ h1.2 hposT'
    simp only [r, a, readFile.transmittable, afterPos, hm]
    simp [h2.1, h1.1, h2.2]
  · have h1 := updateLineMatched_refines ext g.stats hn
    by_cases hskip : g.canSkipLines = true ∧ len ≥ cap
    · have hposT' : (stats.updateLineMatched ext g.stats).transmitted.getD (stats.updateLineMatched ext g.stats).pos.toNat false = true →
          1 ≤ (stats.updateLineMatched ext g.stats).transmitCount := by
        rw [keep.1, keep.2.1, keep.2.2.1]; exact hposT
      have h2 := updateLineNotTransmitted_refines ext _ h1.2 hposT'
      simp only [r, a, readFile.transmittable, afterPos, hm]
      simp [hskip.1, hskip.2, h2.1, h1.1, h2.2]
    · have h2 := updateLineTransmitted_refines ext _ h1.2
      have hcond : (g.canSkipLines && decide (len ≥ cap)) = false := by
        cases hcs : g.canSkipLines <;> simp_all
      have hn2 := h2.2
      simp only [r, a, readFile.transmittable, afterPos, hm]
      simp only [hcond, Bool.not_true, Bool.false_eq_true, if_false, Bool.and_eq_true, decide_eq_true_eq]
      have hcond' : ¬ (g.canSkipLines = true ∧ len ≥ cap) := hskip
      simp only [hcond', if_false]
      refine ⟨by rw [h2.1, h1.1], hn2, trivial, trivial, by simp, ?_, by simp⟩
      intro _
      simp only [stats.totalLineCount, stats.transmittedPerc, goConv]
      have ha := h2.1
      rw [h1.1] at ha
      rw [hperc _ _ hn2.2.2.1 hn2.2.2.2]
      congr 1
      · rw [← ha]; simp [abs]; have := hn2.2.1; omega
      · rw [← ha]; simp [abs]

end Dtail.GenStats
