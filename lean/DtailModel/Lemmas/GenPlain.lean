/-
Tie G for the filter without a grep context: `readFile.filterWithoutLContext` of internal/io/fs/readfilelcontext.go as
translated from the working tree on this run (`Generated/Code.lean`, namespace `Gen.Fs`, together with `transmittable` and the
statistics ring).  The raw lines arriving on `rawLines` are a list, what is sent on `lines` is kept in the receiver.  For a
reader that may not skip lines (cat, grep, mapreduce) the lines sent are exactly the selected ones, each with its running
number in the file — the plain path of `dgrepLines` (`Model/Grep.lean`).
-/
import DtailModel.Generated.Code
import DtailModel.Lemmas.GoRT
import DtailModel.Model.Grep
set_option autoImplicit false
namespace Dtail.GenPlain
open Dtail Dtail.Go Dtail.Gen.Fs

/-- the running number and the raw line a sent line carries -/
def numOf : GoLine → Int × Bytes
  | .null => (0, [])
  | .new c n _ _ => (n, c)

theorem ring_steps_keep_count (ext : Ext) (s : stats) :
    (stats.updateLineMatched ext s).lineCount = s.lineCount ∧ (stats.updateLineNotMatched ext s).lineCount = s.lineCount ∧
    (stats.updateLineTransmitted ext s).lineCount = s.lineCount ∧ (stats.updateLineNotTransmitted ext s).lineCount = s.lineCount := by
  unfold stats.updateLineMatched stats.updateLineNotMatched stats.updateLineTransmitted stats.updateLineNotTransmitted
  refine ⟨?_, ?_, ?_, ?_⟩ <;> split <;> rfl

/-- `transmittable` for a reader that may not skip lines: the line goes out exactly when the expression selects it, with the
    current line count; nothing but the statistics ring changes -/
theorem transmittable_plain (ext : Ext) (g : readFile) (raw : GoString) (len cap : Int) (re : GoRegex)
    (hc : g.canSkipLines = false) :
    ∃ g' l, readFile.transmittable ext g raw len cap re = (g', l, ext.reMatch re raw) ∧
      g'.canSkipLines = false ∧ g'.globID = g.globID ∧ g'.lines = g.lines ∧ g'.stats.lineCount = g.stats.lineCount ∧
      (ext.reMatch re raw = true → numOf l = (g.stats.lineCount, raw)) := by
  have k := ring_steps_keep_count ext
  unfold readFile.transmittable
  cases hm : ext.reMatch re raw
  · simp only [Bool.not_false, if_true]
    refine ⟨_, _, rfl, hc, rfl, rfl, ?_, fun h => absurd h (by decide)⟩
    show (stats.updateLineNotTransmitted ext (stats.updateLineNotMatched ext g.stats)).lineCount = _
    rw [(k _).2.2.2, (k _).2.1]
  · simp only [Bool.not_true, Bool.false_eq_true, if_false, hc, Bool.false_and]
    refine ⟨_, _, rfl, rfl, rfl, rfl, ?_, fun _ => ?_⟩
    · show (stats.updateLineTransmitted ext (stats.updateLineMatched ext g.stats)).lineCount = _
      rw [(k _).2.2.1, (k _).1]
    · show ((stats.updateLineTransmitted ext (stats.updateLineMatched ext g.stats)).lineCount, raw) = _
      rw [(k _).2.2.1, (k _).1]

/-- the selected lines with their running numbers, counting on from `n` -/
def plainNumbered (n : Int) : List (Bool × Bytes) → List (Int × Bytes)
  | [] => []
  | (sel, x) :: rest => (if sel then [(n + 1, x)] else []) ++ plainNumbered (n + 1) rest

def judged (ext : Ext) (re : GoRegex) (raws : List GoString) : List (Bool × Bytes) := raws.map fun x => (ext.reMatch re x, x)

/-- **the translated `filterWithoutLContext` sends the selected lines with their running numbers** -/
theorem plain_refines (ext : Ext) (re : GoRegex) : ∀ (raws : List GoString) (f : readFile), f.canSkipLines = false →
    let f' := readFile.filterWithoutLContext ext f () raws () re
    f'.lines.map numOf = f.lines.map numOf ++ plainNumbered f.stats.lineCount (judged ext re raws) ∧
    f'.stats.lineCount = f.stats.lineCount + raws.length + 1 ∧ f'.globID = f.globID := by
  intro raws
  induction raws with
  | nil =>
    intro f _
    refine ⟨by simp [readFile.filterWithoutLContext, goRange, judged, plainNumbered], ?_, rfl⟩
    show (stats.updatePosition ext f.stats).lineCount = _
    simp [stats.updatePosition]
  | cons x rest ih =>
    intro f hc
    have hg : ({ f with stats := stats.updatePosition ext f.stats } : readFile).canSkipLines = false := hc
    obtain ⟨g', l, ht, t1, t2, t3, t4, t6⟩ :=
      transmittable_plain ext { f with stats := stats.updatePosition ext f.stats } x ext.linesLen ext.linesCap re hg
    have hcount : (stats.updatePosition ext f.stats).lineCount = f.stats.lineCount + 1 := by simp [stats.updatePosition]
    have t4' : g'.stats.lineCount = f.stats.lineCount + 1 := by rw [t4]; exact hcount
    have hstep : readFile.filterWithoutLContext ext f () (x :: rest) () re
        = readFile.filterWithoutLContext ext (if ext.reMatch re x then { g' with lines := g'.lines ++ [l] } else g') () rest () re := by
      unfold readFile.filterWithoutLContext
      rw [goRange_cons]
      simp only [ht]
      cases ext.reMatch re x <;> rfl
    rw [hstep]
    cases hsel : ext.reMatch re x
    · simp only [Bool.false_eq_true, if_false]
      obtain ⟨i1, i2, i3⟩ := ih g' t1
      refine ⟨?_, ?_, ?_⟩
      · rw [i1, t3, t4']
        simp [judged, plainNumbered, hsel]
      · rw [i2, t4']; simp only [List.length_cons]; omega
      · rw [i3, t2]
    · simp only [if_true]
      obtain ⟨i1, i2, i3⟩ := ih { g' with lines := g'.lines ++ [l] } t1
      refine ⟨?_, ?_, ?_⟩
      · rw [i1]
        show List.map numOf (g'.lines ++ [l]) ++ plainNumbered g'.stats.lineCount _ = _
        rw [t3, t4', List.map_append, List.map_cons, List.map_nil, t6 hsel, hcount]
        simp [judged, plainNumbered, hsel]
      · rw [i2]
        show g'.stats.lineCount + _ + 1 = _
        rw [t4']; simp only [List.length_cons]; omega
      · rw [i3]; exact t2

/-- the numbering is the position in the file: what `dgrepLines` computes on its plain path -/
theorem plainNumbered_eq (ls : List (Bool × Bytes)) : ∀ n : Nat,
    plainNumbered (n : Int) ls
      = ((ls.zipIdx (n + 1)).filter (·.1.1)).map (fun (p : (Bool × Bytes) × Nat) => (((p.2 : Nat) : Int), p.1.2)) := by
  induction ls with
  | nil => intro n; rfl
  | cons p rest ih =>
    intro n
    obtain ⟨sel, x⟩ := p
    have h := ih (n + 1)
    simp only [plainNumbered, List.zipIdx_cons, List.filter_cons]
    have hn : ((n : Int) + 1) = ((n + 1 : Nat) : Int) := by omega
    rw [hn, h]
    cases sel <;> simp

end Dtail.GenPlain
