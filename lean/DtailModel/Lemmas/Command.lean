import DtailModel.Lemmas.GoStr
namespace Dtail

theorem deserializeOptions_append (env : Env) (a b : List Bytes) (o : List (Bytes × Bytes)) (l : LCtx) :
    deserializeOptions env (a ++ b) o l
      = (deserializeOptions env a o l).bind (fun r => deserializeOptions env b r.1 r.2) := by
  induction a generalizing o l with
  | nil => simp [deserializeOptions, Outcome.bind]
  | cons x xs ih =>
    simp only [List.cons_append, deserializeOptions]
    split
    · simp [Outcome.bind]
    · simp only [Bind.bind, Pure.pure]
      cases goIndex (splitN2 EQ x) 0 with
      | err e => simp [Outcome.bind]
      | panic p => simp [Outcome.bind]
      | ok key =>
        simp only [Outcome.bind]
        cases goIndex (splitN2 EQ x) 1 with
        | err e => simp [Outcome.bind]
        | panic p => simp [Outcome.bind]
        | ok val0 =>
          simp only [Outcome.bind]
          split
          · -- base64% value
            cases goIndex (splitN2 PERCENT val0) 1 with
            | err e => simp [Outcome.bind]
            | panic p => simp [Outcome.bind]
            | ok enc =>
              simp only [Outcome.bind]
              cases env.b64dec enc with
              | none => simp [Outcome.bind]
              | some d =>
                simp only [Outcome.bind]
                split
                · split <;> simp [ih, Outcome.bind]
                · split
                  · split <;> simp [ih, Outcome.bind]
                  · split
                    · split <;> simp [ih, Outcome.bind]
                    · exact ih _ _
          · split
            · split <;> simp [ih, Outcome.bind]
            · split
              · split <;> simp [ih, Outcome.bind]
              · split
                · split <;> simp [ih, Outcome.bind]
                · exact ih _ _

end Dtail

namespace Dtail

/-- a decimal codec as the options need it -/
structure IntCodec (show' : Int → Bytes) : Prop where
  atoi_show : ∀ n, atoi (show' n) = some n
  noB64 : ∀ n, hasPrefix (b!"base64%") (show' n) = false

theorem opt_bool (env : Env) (k : Bytes) (o : List (Bytes × Bytes)) (l : LCtx)
    (hk : k = b!"quiet" ∨ k = b!"plain" ∨ k = b!"serverless") :
    deserializeOptions env [k ++ b!"=true"] o l = .ok (o.filter (·.1 ≠ k) ++ [(k, b!"true")], l) := by
  have hs : splitN2 EQ (k ++ b!"=true") = [k, b!"true"] := by
    have : k ++ b!"=true" = k ++ EQ :: b!"true" := by simp [EQ]
    rw [this]; apply splitN2_append_sep
    rcases hk with rfl | rfl | rfl <;> decide
  unfold deserializeOptions
  rw [hs]
  rcases hk with rfl | rfl | rfl <;>
    simp [goIndex, hasPrefix, deserializeOptions, Bind.bind, Outcome.bind, Pure.pure]

theorem opt_int (env : Env) (show' : Int → Bytes) (hc : IntCodec show') (n : Int)
    (o : List (Bytes × Bytes)) (l : LCtx) :
    deserializeOptions env [b!"max=" ++ show' n] o l = .ok (o, { l with maxc := n }) ∧
    deserializeOptions env [b!"before=" ++ show' n] o l = .ok (o, { l with before := n }) ∧
    deserializeOptions env [b!"after=" ++ show' n] o l = .ok (o, { l with after := n }) := by
  have h1 : splitN2 EQ (b!"max=" ++ show' n) = [b!"max", show' n] := by
    have : b!"max=" ++ show' n = b!"max" ++ EQ :: show' n := by simp [EQ]
    rw [this]; exact splitN2_append_sep EQ _ _ (by decide)
  have h2 : splitN2 EQ (b!"before=" ++ show' n) = [b!"before", show' n] := by
    have : b!"before=" ++ show' n = b!"before" ++ EQ :: show' n := by simp [EQ]
    rw [this]; exact splitN2_append_sep EQ _ _ (by decide)
  have h3 : splitN2 EQ (b!"after=" ++ show' n) = [b!"after", show' n] := by
    have : b!"after=" ++ show' n = b!"after" ++ EQ :: show' n := by simp [EQ]
    rw [this]; exact splitN2_append_sep EQ _ _ (by decide)
  refine ⟨?_, ?_, ?_⟩
  · unfold deserializeOptions; rw [h1]
    simp [goIndex, hc.noB64, hc.atoi_show, deserializeOptions, Bind.bind, Outcome.bind, Pure.pure]
  · unfold deserializeOptions; rw [h2]
    simp [goIndex, hc.noB64, hc.atoi_show, deserializeOptions, Bind.bind, Outcome.bind, Pure.pure]
  · unfold deserializeOptions; rw [h3]
    simp [goIndex, hc.noB64, hc.atoi_show, deserializeOptions, Bind.bind, Outcome.bind, Pure.pure]

end Dtail

namespace Dtail

theorem deserializeOptions_nil (env : Env) (o : List (Bytes × Bytes)) (l : LCtx) :
    deserializeOptions env [] o l = .ok (o, l) := by simp [deserializeOptions]

theorem deserializeOptions_cons (env : Env) (x y : Bytes) (rest : List Bytes) (o : List (Bytes × Bytes))
    (l : LCtx) : deserializeOptions env (x :: y :: rest) o l
      = (deserializeOptions env [x] o l).bind (fun r => deserializeOptions env (y :: rest) r.1 r.2) := by
  have := deserializeOptions_append env [x] (y :: rest) o l
  simpa using this

def modesOf (o : List (Bytes × Bytes)) : Bool × Bool × Bool :=
  let get (k : Bytes) := (o.find? (·.1 = k)).map (·.2) = some (b!"true")
  (get (b!"quiet"), get (b!"plain"), get (b!"serverless"))

/-- the boolean part of the option list -/
def boolOpts (r : Req) : List Bytes :=
  (if r.quiet then [b!"quiet=true"] else []) ++ (if r.plain then [b!"plain=true"] else [])
  ++ (if r.serverless then [b!"serverless=true"] else [])

def intOpts (show' : Int → Bytes) (r : Req) : List Bytes :=
  (if r.ltx.maxc ≠ 0 then [b!"max=" ++ show' r.ltx.maxc] else [])
  ++ (if r.ltx.before ≠ 0 then [b!"before=" ++ show' r.ltx.before] else [])
  ++ (if r.ltx.after ≠ 0 then [b!"after=" ++ show' r.ltx.after] else [])

theorem optionList_split (show' : Int → Bytes) (r : Req) :
    optionList show' r = boolOpts r ++ intOpts show' r := by
  simp [optionList, boolOpts, intOpts]

theorem boolOpts_decode (env : Env) (r : Req) :
    ∃ o, deserializeOptions env (boolOpts r) [] {} = .ok (o, {}) ∧
      modesOf o = (r.quiet, r.plain, r.serverless) := by
  have hq := fun o l => opt_bool env (b!"quiet") o l (Or.inl rfl)
  have hp := fun o l => opt_bool env (b!"plain") o l (Or.inr (Or.inl rfl))
  have hs := fun o l => opt_bool env (b!"serverless") o l (Or.inr (Or.inr rfl))
  simp only [List.cons_append, List.nil_append] at hq hp hs
  unfold boolOpts
  cases r.quiet <;> cases r.plain <;> cases r.serverless <;>
    simp only [if_true, if_false, Bool.false_eq_true, List.nil_append, List.cons_append] <;>
    simp only [deserializeOptions_cons, deserializeOptions_nil, hq, hp, hs, Outcome.bind] <;>
    exact ⟨_, rfl, by decide⟩

theorem intOpts_decode (env : Env) (show' : Int → Bytes) (hc : IntCodec show') (r : Req)
    (o : List (Bytes × Bytes)) :
    deserializeOptions env (intOpts show' r) o {} = .ok (o, r.ltx) := by
  cases hl : r.ltx with
  | mk b a m =>
  unfold intOpts
  simp only [hl]
  have hm := fun l => (opt_int env show' hc m o l).1
  have hb := fun l => (opt_int env show' hc b o l).2.1
  have ha := fun l => (opt_int env show' hc a o l).2.2
  simp only [List.cons_append, List.nil_append] at hm hb ha
  by_cases h1 : m = 0 <;> by_cases h2 : b = 0 <;> by_cases h3 : a = 0 <;>
    simp only [h1, h2, h3, ne_eq, not_true_eq_false, not_false_eq_true, if_true, if_false,
      List.nil_append, List.cons_append] <;>
    (try simp only [deserializeOptions_cons, deserializeOptions_nil, hm, hb, ha, Outcome.bind]) <;>
    simp_all

theorem options_roundtrip (env : Env) (show' : Int → Bytes) (hc : IntCodec show') (r : Req) :
    ∃ o, deserializeOptions env (optionList show' r) [] {} = .ok (o, r.ltx) ∧
      modesOf o = (r.quiet, r.plain, r.serverless) := by
  obtain ⟨o, h1, h2⟩ := boolOpts_decode env r
  refine ⟨o, ?_, h2⟩
  rw [optionList_split, deserializeOptions_append, h1]
  simp only [Outcome.bind]
  exact intOpts_decode env show' hc r o

end Dtail
