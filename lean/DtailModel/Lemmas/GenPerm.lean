/-
Tie G for internal/user/server/user.go: `splitPermission` and `User.iteratePaths` as translated from the working
tree on this run are the model's `ruleBody` / `parseRule` / `iterateRules` (Model/Perm.lean), on which the theorems
of C08 are stated.  The regexp engine is the parameter `ext.reCompile` / `ext.reMatchRaw`; the model's oracle reads
`none` for a pattern that does not compile.
-/
import DtailModel.Generated.Code
import DtailModel.Lemmas.GoRT
import DtailModel.Model.Perm
set_option autoImplicit false
namespace Dtail.GenPerm
open Dtail Dtail.Go Dtail.Gen.User

/-- the model's match oracle behind the two external functions -/
def oracleOf (ext : Ext) : MatchOracle := fun rx p =>
  if (ext.reCompile rx).2.isSome then none else some (ext.reMatchRaw (ext.reCompile rx).1 p)

theorem add_eq_append (a b : GoString) : a + b = a ++ b := rfl

theorem splitPermission_spec (ext : Ext) (perm : GoString) :
    splitPermission ext perm = (READFILES, ruleBody perm) := by
  unfold splitPermission permissionTypes ruleBody
  simp only [goRange, add_eq_append]
  have hp : hasPrefix (READFILES ++ [COLON]) perm = hasPrefix (([114, 101, 97, 100, 102, 105, 108, 101, 115] : GoString) ++ ([58] : GoString)) perm := rfl
  rw [hp]
  by_cases h : hasPrefix (([114, 101, 97, 100, 102, 105, 108, 101, 115] : GoString) ++ ([58] : GoString)) perm = true
  · simp only [h, if_true]; rfl
  · have h' : hasPrefix (([114, 101, 97, 100, 102, 105, 108, 101, 115] : GoString) ++ ([58] : GoString)) perm = false := by simpa using h
    simp only [h', Bool.false_eq_true, if_false]; rfl

theorem hasPrefix_bang (l : Bytes) : hasPrefix ([33] : GoString) l = decide (l.head? = some BANG) := by
  cases l with
  | nil => rfl
  | cons b rest =>
    simp only [hasPrefix, List.isPrefixOf, List.head?_cons, Option.some.injEq, BANG]
    by_cases hb : b = 33
    · subst hb; simp
    · have : ((33 : UInt8) == b) = false := by
        simp only [beq_eq_false_iff_ne, ne_eq]; exact fun e => hb e.symm
      simp [this, hb]

/-- the text of the compile error -/
def compileErr : GoString := [80, 101, 114, 109, 105, 115, 115, 105, 111, 110, 32, 116, 101, 115, 116, 32, 102, 97, 105, 108, 101, 100, 44, 32, 99, 97, 110, 39, 116, 32, 99, 111, 109, 112, 105, 108, 101, 32, 114, 101, 103, 101, 120, 32, 39, 37, 115, 39, 58, 32, 37, 119]

/-- the body of the translated loop, verbatim -/
def permBody (ext : Ext) (u : User) (path ty : GoString) (hasPermission : Bool) (permission : GoString) :
    LoopStep (User × Bool × GoErr) Bool :=
        let regexStr : GoString := (GoZero.zero : GoString)
        let negate : Bool := (GoZero.zero : Bool)
        let (_t1, _t2) := (splitPermission ext permission)
        let typeStr := _t1
        let permission := _t2
        if (typeStr != ty) then
          LoopStep.next hasPermission
        else
          let regexStr := permission
          if (hasPrefix ([33] : GoString) permission) then
            let regexStr := (List.drop (Int.toNat 1) permission)
            let negate := true
            let (_t3, _t4) := (ext.reCompile regexStr)
            let re := _t3
            let err := _t4
            if (err != none) then
              LoopStep.ret (u, false, (some compileErr))
            else
              if (negate && (ext.reMatchRaw re path)) then
                let hasPermission := false
                if ((!negate) && (ext.reMatchRaw re path)) then
                  let hasPermission := true
                  LoopStep.next hasPermission
                else
                  LoopStep.next hasPermission
              else
                if ((!negate) && (ext.reMatchRaw re path)) then
                  let hasPermission := true
                  LoopStep.next hasPermission
                else
                  LoopStep.next hasPermission
          else
            let (_t5, _t6) := (ext.reCompile regexStr)
            let re := _t5
            let err := _t6
            if (err != none) then
              LoopStep.ret (u, false, (some compileErr))
            else
              if (negate && (ext.reMatchRaw re path)) then
                let hasPermission := false
                if ((!negate) && (ext.reMatchRaw re path)) then
                  let hasPermission := true
                  LoopStep.next hasPermission
                else
                  LoopStep.next hasPermission
              else
                if ((!negate) && (ext.reMatchRaw re path)) then
                  let hasPermission := true
                  LoopStep.next hasPermission
                else
                  LoopStep.next hasPermission

theorem iteratePaths_eq (ext : Ext) (u : User) (path ty : GoString) :
    User.iteratePaths ext u path ty = goRange u.permissions false (permBody ext u path ty) (fun has => (u, has, none)) := rfl

/-- one iteration of the translated loop is one step of `iterateRules` -/
theorem permBody_step (ext : Ext) (u : User) (path ty : GoString) (has : Bool) (p : GoString) :
    permBody ext u path ty has p =
      if (parseRule p).type ≠ ty then LoopStep.next has
      else match oracleOf ext (parseRule p).regex path with
        | none => LoopStep.ret (u, false, some compileErr)
        | some true => LoopStep.next (!(parseRule p).deny)
        | some false => LoopStep.next has := by
  unfold permBody
  simp only [splitPermission_spec, GoZero.zero]
  have hty : (parseRule p).type = READFILES := by unfold parseRule; split <;> rfl
  rw [hty]
  by_cases ht : READFILES = ty
  · have hne : (READFILES != ty) = false := by simp [ht]
    have hne' : ¬ (READFILES ≠ ty) := by simpa using ht
    simp only [hne, Bool.false_eq_true, if_false, hne', hasPrefix_bang]
    have h1 : Int.toNat 1 = 1 := rfl
    rw [h1]
    by_cases hb : (ruleBody p).head? = some BANG
    · have hrx : (parseRule p).regex = (ruleBody p).drop 1 := by unfold parseRule; simp [hb]
      have hdeny : (parseRule p).deny = true := by unfold parseRule; simp [hb]
      simp only [hb, decide_true, if_true, oracleOf, hrx, hdeny]
      cases herr : (ext.reCompile (List.drop 1 (ruleBody p))).2 with
      | some e => simp
      | none =>
        cases hm : ext.reMatchRaw (ext.reCompile (List.drop 1 (ruleBody p))).1 path <;> simp
    · have hrx : (parseRule p).regex = ruleBody p := by unfold parseRule; simp [hb]
      have hdeny : (parseRule p).deny = false := by unfold parseRule; simp [hb]
      simp only [hb, decide_false, Bool.false_eq_true, if_false, oracleOf, hrx, hdeny]
      cases herr : (ext.reCompile (ruleBody p)).2 with
      | some e => simp
      | none =>
        cases hm : ext.reMatchRaw (ext.reCompile (ruleBody p)).1 path <;> simp
  · have hne : (READFILES != ty) = true := by simp [ht]
    have hne' : READFILES ≠ ty := ht
    simp only [hne, if_true]
    rw [if_pos hne']

theorem loop_refines (ext : Ext) (u : User) (path ty : GoString) (perms : List GoString) (has : Bool) :
    (goRange perms has (permBody ext u path ty) (fun has => (u, has, none))).2.1
      = iterateRules (oracleOf ext) ty path (perms.map parseRule) has := by
  induction perms generalizing has with
  | nil => simp [goRange, iterateRules]
  | cons p rest ih =>
    rw [goRange_cons, permBody_step, List.map_cons]
    unfold iterateRules
    by_cases ht : (parseRule p).type ≠ ty
    · rw [if_pos ht, if_pos ht]; exact ih has
    · rw [if_neg ht, if_neg ht]
      cases oracleOf ext (parseRule p).regex path with
      | none => rfl
      | some b => cases b <;> simp [ih]

theorem iteratePaths_refines (ext : Ext) (u : User) (path ty : GoString) :
    (User.iteratePaths ext u path ty).2.1 = iterateRules (oracleOf ext) ty path (u.permissions.map parseRule) false := by
  rw [iteratePaths_eq]
  exact loop_refines ext u path ty u.permissions false

theorem loop_error_denies (ext : Ext) (u : User) (path ty : GoString) (perms : List GoString) (has : Bool)
    (h : (goRange perms has (permBody ext u path ty) (fun has => (u, has, none))).2.2 ≠ none) :
    (goRange perms has (permBody ext u path ty) (fun has => (u, has, none))).2.1 = false := by
  induction perms generalizing has with
  | nil => simp [goRange] at h
  | cons p rest ih =>
    rw [goRange_cons, permBody_step] at h ⊢
    by_cases ht : (parseRule p).type ≠ ty
    · rw [if_pos ht] at h ⊢; exact ih has h
    · rw [if_neg ht] at h ⊢
      cases ho : oracleOf ext (parseRule p).regex path with
      | none => rfl
      | some b =>
        rw [ho] at h
        cases b
        · exact ih has h
        · exact ih _ h

/-- an error (a rule of the requested type that does not compile was reached) comes with the verdict `false` -/
theorem iteratePaths_error_denies (ext : Ext) (u : User) (path ty : GoString)
    (h : (User.iteratePaths ext u path ty).2.2 ≠ none) : (User.iteratePaths ext u path ty).2.1 = false := by
  rw [iteratePaths_eq] at h ⊢
  exact loop_error_denies ext u path ty u.permissions false h

/-- the file system as the model's decision sees it: what `EvalSymlinks` + `Abs`, `permissions.ToRead` and `Lstat` answer -/
def fsOf (ext : Ext) (user : GoString) : FsOracle where
  resolve p :=
    if (ext.evalSymlinks p).2 = none ∧ (ext.absPath (ext.evalSymlinks p).1).2 = none then some (ext.absPath (ext.evalSymlinks p).1).1
    else none
  regular c := decide ((ext.osLstat c).2 = none) && (ext.osLstat c).1.regular
  osReadable c := decide ((ext.osToRead user c).2 = none)

/-- the unexported check on a resolved path -/
theorem hasFilePermission_inner (ext : Ext) (u : User) (clean ty : GoString) :
    (User.hasFilePermission ext u clean ty).2.1 =
      (if !(fsOf ext u.Name).osReadable clean then false
       else if !(fsOf ext u.Name).regular clean then false
       else iterateRules (oracleOf ext) ty clean (u.permissions.map parseRule) false) := by
  unfold User.hasFilePermission fsOf
  simp only []
  by_cases h1 : (ext.osToRead u.Name clean).2 = none
  · have h1' : ((ext.osToRead u.Name clean).2 != none) = false := by rw [h1]; rfl
    simp only [h1', h1, Bool.false_eq_true, if_false, decide_true, Bool.not_true]
    by_cases h2 : (ext.osLstat clean).2 = none
    · have h2' : ((ext.osLstat clean).2 != none) = false := by rw [h2]; rfl
      simp only [h2', h2, Bool.false_eq_true, if_false, decide_true, Bool.true_and]
      by_cases h3 : (ext.osLstat clean).1.regular = true
      · simp only [h3, Bool.not_true, Bool.false_eq_true, if_false]
        have hr := iteratePaths_refines ext u clean ty
        have he := iteratePaths_error_denies ext u clean ty
        by_cases h4 : (User.iteratePaths ext u clean ty).2.2 = none
        · have h4' : ((User.iteratePaths ext u clean ty).2.2 != none) = false := by rw [h4]; rfl
          simp only [h4', Bool.false_eq_true, if_false]; exact hr
        · have h4' : ((User.iteratePaths ext u clean ty).2.2 != none) = true := by simp [h4]
          simp only [h4', if_true, bne_self_eq_false, Bool.false_eq_true, if_false]
          rw [← hr, he h4]
      · have h3' : (ext.osLstat clean).1.regular = false := by simpa using h3
        simp only [h3', Bool.not_false, if_true, bne_self_eq_false, Bool.false_eq_true, if_false]
    · have h2' : ((ext.osLstat clean).2 != none) = true := by simp [h2]
      simp only [h2', if_true, h2, decide_false, Bool.false_and, Bool.not_false, bne_self_eq_false, Bool.false_eq_true, if_false]
  · have h1' : ((ext.osToRead u.Name clean).2 != none) = true := by simp [h1]
    simp only [h1', if_true, h1, decide_false, Bool.not_false]

/-- **the translated `HasFilePermission` is the model's decision** for every user, rule list, path and every answer of the
    file system and the regexp engine -/
theorem HasFilePermission_refines (ext : Ext) (u : User) (path : GoString) :
    (User.HasFilePermission ext u path READFILES).2
      = hasFilePermission (fsOf ext u.Name) (oracleOf ext) u.Name u.permissions path := by
  unfold User.HasFilePermission hasFilePermission
  simp only []
  by_cases hbg : u.Name = Facts.scheduleUserBytes ∨ u.Name = Facts.continuousUserBytes
  · have : ((u.Name == ([68, 84, 65, 73, 76, 45, 83, 67, 72, 69, 68, 85, 76, 69] : GoString)) ||
        (u.Name == ([68, 84, 65, 73, 76, 45, 67, 79, 78, 84, 73, 78, 85, 79, 85, 83] : GoString))) = true := by
      rcases hbg with h | h <;> rw [h] <;> decide
    rw [if_pos this, if_pos hbg]
  · have : ¬ ((u.Name == ([68, 84, 65, 73, 76, 45, 83, 67, 72, 69, 68, 85, 76, 69] : GoString)) ||
        (u.Name == ([68, 84, 65, 73, 76, 45, 67, 79, 78, 84, 73, 78, 85, 79, 85, 83] : GoString))) = true := by
      intro h
      apply hbg
      simp only [Bool.or_eq_true, beq_iff_eq] at h
      rcases h with h | h
      · left; rw [h]; decide
      · right; rw [h]; decide
    rw [if_neg this, if_neg hbg]
    by_cases h1 : (ext.evalSymlinks path).2 = none
    · have h1' : ((ext.evalSymlinks path).2 != none) = false := by rw [h1]; rfl
      simp only [h1', Bool.false_eq_true, if_false]
      by_cases h2 : (ext.absPath (ext.evalSymlinks path).1).2 = none
      · have h2' : ((ext.absPath (ext.evalSymlinks path).1).2 != none) = false := by rw [h2]; rfl
        simp only [h2', Bool.false_eq_true, if_false]
        have hres : (fsOf ext u.Name).resolve path = some (ext.absPath (ext.evalSymlinks path).1).1 := by
          simp [fsOf, h1, h2]
        rw [hres]
        have hin := hasFilePermission_inner ext u (ext.absPath (ext.evalSymlinks path).1).1 READFILES
        simp only []
        split <;> (split <;> exact hin)
      · have h2' : ((ext.absPath (ext.evalSymlinks path).1).2 != none) = true := by simp [h2]
        have hres : (fsOf ext u.Name).resolve path = none := by simp [fsOf, h1, h2]
        simp only [h2', if_true, hres]
    · have h1' : ((ext.evalSymlinks path).2 != none) = true := by simp [h1]
      have hres : (fsOf ext u.Name).resolve path = none := by simp [fsOf, h1]
      simp only [h1', if_true, hres]

end Dtail.GenPerm
