/-
Tie G for the public-key check: `verifyAuthorizedKeys` of internal/ssh/server/publickeycallback.go as translated from the
working tree on this run (`Generated/Code.lean`, namespace `Gen.Keys`).  `ssh.ParseAuthorizedKey` is the parameter
`ext.parseAuthorizedKey`; a public key is its marshalled form.  The theorem says that the translated function accepts the
offered key exactly when it is among the keys the parser finds in the file, one after the other, until it finds no more —
the model's `verifyAuthorizedKeys` (`Model/Auth.lean`) under the parser's contract.
-/
import DtailModel.Generated.Code
import DtailModel.Lemmas.GoRT
import DtailModel.Model.Auth
set_option autoImplicit false
namespace Dtail.GenKeys
open Dtail Dtail.Go Dtail.Gen.Keys

/-- the keys the loop collects: parse, keep the key, go on with the rest, stop at the first failure or at no bytes -/
def keysG (ext : Ext) : Nat → GoString → List GoString
  | 0, _ => []
  | n + 1, b =>
    if b = [] then [] else
    match ext.parseAuthorizedKey b with
    | (k, _, _, rest, none) => k :: keysG ext n rest
    | _ => []

/-- the parser consumes something whenever it finds a key -/
def Shrinks (ext : Ext) : Prop :=
  ∀ b, (ext.parseAuthorizedKey b).2.2.2.2 = none → (ext.parseAuthorizedKey b).2.2.2.1.length < b.length

/-- the map of authorised keys holds exactly these keys (and only the value `true`) -/
def Holds (m : GoMap GoString Bool) (ks : List GoString) : Prop := ∀ k, (GoIndex.idx m k : Bool) = ks.contains k

theorem holds_set (m : GoMap GoString Bool) (ks : List GoString) (k : GoString) (h : Holds m ks) :
    Holds (GoIndex.upd m k true) (ks ++ [k]) := by
  intro k'
  show ((m.set k true).get? k').getD false = _
  by_cases hk : k' = k
  · subst hk; rw [GoMap.get?_set_eq]; simp
  · rw [GoMap.get?_set_ne m k k' true hk]
    have := h k'
    show (m.get? k').getD false = _
    have h2 : (GoIndex.idx m k' : Bool) = (m.get? k').getD false := rfl
    rw [← h2, this]
    simp [hk]

abbrev R := Outcome (GoPerms × GoErr)

/-- the pieces of the translated function, as the translator emitted them -/
def keysCond : GoString × GoMap GoString Bool → Bool :=
  fun (authorizedKeysBytes, authorizedKeysMap) => (decide ((GoLen.len authorizedKeysBytes) > 0))

def keysBody (ext : Ext) : GoString × GoMap GoString Bool → LoopStep R (GoString × GoMap GoString Bool) :=
  fun (authorizedKeysBytes, authorizedKeysMap) =>
    let (_t1, _t2, _t3, _t4, _t5) := (ext.parseAuthorizedKey authorizedKeysBytes)
    let authorizedPubKey := _t1
    let _u6 := _t2
    let _u7 := _t3
    let restBytes := _t4
    let err := _t5
    if (err != none) then
      LoopStep.brk (authorizedKeysBytes, authorizedKeysMap)
    else
      let authorizedKeysMap := (GoIndex.upd authorizedKeysMap authorizedPubKey true)
      let authorizedKeysBytes := restBytes
      LoopStep.next (authorizedKeysBytes, authorizedKeysMap)

def keysAfter (offeredPubKey : GoString) : GoString × GoMap GoString Bool → R :=
  fun (authorizedKeysBytes, authorizedKeysMap) =>
    if (GoIndex.idx authorizedKeysMap offeredPubKey) then
      (Outcome.ok ((GoZero.zero : GoPerms), none))
    else
      (Outcome.ok ((GoZero.zero : GoPerms), (some lit_0)))

theorem verify_eq (ext : Ext) (u : GoUser) (b offered : GoString) :
    Gen.Keys.verifyAuthorizedKeys ext u b offered =
      goWhile ext.fuel (b, (GoZero.zero : GoMap GoString Bool)) keysCond (keysBody ext) (keysAfter offered)
        (Outcome.panic "out of fuel") := rfl

theorem keysAfter_spec (offered b : GoString) (m : GoMap GoString Bool) (ks : List GoString) (hm : Holds m ks) :
    keysAfter offered (b, m) = Outcome.ok ((), if ks.contains offered then none else some lit_0) := by
  show (if (GoIndex.idx m offered : Bool) then _ else _) = _
  rw [hm offered]
  cases ks.contains offered <;> rfl

/-- **the loop**: with fuel for the bytes, it ends with the map holding the keys found -/
theorem loop_spec (ext : Ext) (hs : Shrinks ext) (offered : GoString) :
    ∀ (fuel : Nat) (b : GoString) (m : GoMap GoString Bool) (ks : List GoString), Holds m ks → b.length < fuel →
      goWhile fuel (b, m) keysCond (keysBody ext) (keysAfter offered) (Outcome.panic "out of fuel")
      = Outcome.ok ((), if (ks ++ keysG ext fuel b).contains offered then none else some lit_0) := by
  intro fuel
  induction fuel with
  | zero => intro b m ks _ hf; omega
  | succ n ih =>
    intro b m ks hm hf
    unfold goWhile
    have hl : (GoLen.len b : Int) = (b.length : Int) := rfl
    by_cases hb : b = []
    · subst hb
      have : keysCond (([] : GoString), m) = false := rfl
      rw [this]
      simp only [Bool.false_eq_true, if_false, keysG, if_true, List.append_nil]
      exact keysAfter_spec offered [] m ks hm
    · have hpos : keysCond (b, m) = true := by
        show decide ((GoLen.len b : Int) > 0) = true
        rw [hl]; simp only [decide_eq_true_eq]
        have := List.length_pos_iff.2 hb; omega
      rw [hpos]
      simp only [if_true]
      by_cases he : (ext.parseAuthorizedKey b).2.2.2.2 = none
      · have hbody : keysBody ext (b, m) = .next ((ext.parseAuthorizedKey b).2.2.2.1, GoIndex.upd m (ext.parseAuthorizedKey b).1 true) := by
          have h1 : ((ext.parseAuthorizedKey b).2.2.2.2 != none) = false := by rw [he]; rfl
          simp only [keysBody, h1, Bool.false_eq_true, if_false]
        rw [hbody]
        simp only []
        rw [ih _ _ (ks ++ [(ext.parseAuthorizedKey b).1]) (holds_set m ks _ hm) (by have := hs b he; omega)]
        have hk : keysG ext (n + 1) b = (ext.parseAuthorizedKey b).1 :: keysG ext n (ext.parseAuthorizedKey b).2.2.2.1 := by
          rw [keysG, if_neg hb]
          rcases hx : ext.parseAuthorizedKey b with ⟨k, c, o, rest, e⟩
          rw [hx] at he
          simp only at he
          subst he
          rfl
        rw [hk]
        simp [List.append_assoc]
      · have hbody : keysBody ext (b, m) = .brk (b, m) := by
          have h1 : ((ext.parseAuthorizedKey b).2.2.2.2 != none) = true := by simp [he]
          simp only [keysBody, h1, if_true]
        rw [hbody]
        simp only []
        have hk : keysG ext (n + 1) b = [] := by
          rw [keysG, if_neg hb]
          rcases hx : ext.parseAuthorizedKey b with ⟨k, c, o, rest, e⟩
          rw [hx] at he
          cases e with
          | none => exact absurd rfl he
          | some msg => rfl
        rw [hk, List.append_nil]
        exact keysAfter_spec offered b m ks hm

/-- **the translated `verifyAuthorizedKeys`**: never panics (given fuel for the bytes), and grants exactly when the offered
    key is among the keys the parser finds -/
theorem verify_spec (ext : Ext) (hs : Shrinks ext) (u : GoUser) (b offered : GoString) (hf : b.length < ext.fuel) :
    Gen.Keys.verifyAuthorizedKeys ext u b offered
      = Outcome.ok ((), if (keysG ext ext.fuel b).contains offered then none else some lit_0) := by
  rw [verify_eq]
  have := loop_spec ext hs offered ext.fuel b (GoZero.zero : GoMap GoString Bool) [] (by intro k; rfl) hf
  simpa using this

/-- the contract of `ssh.ParseAuthorizedKey` that links the bytes of a file to the model's lines: `enc` renders a list of lines
    as file content, and parsing that content is the model's skip-to-the-first-key-line -/
structure Contract (ext : Ext) (keyOf : Bytes → Option Key) (enc : List Bytes → Bytes) : Prop where
  parse : ∀ lines, match Dtail.parseAuthorizedKey keyOf lines with
    | some (k, rest) => ∃ c o, ext.parseAuthorizedKey (enc lines) = (k, c, o, enc rest, none)
    | none => (ext.parseAuthorizedKey (enc lines)).2.2.2.2 ≠ none
  empty : ∀ lines, enc lines = [] → Dtail.parseAuthorizedKey keyOf lines = none

/-- under the contract the keys found in the bytes are the model's `collectKeys` on the lines -/
theorem keysG_model (ext : Ext) (keyOf : Bytes → Option Key) (enc : List Bytes → Bytes) (hc : Contract ext keyOf enc) :
    ∀ (n : Nat) (lines : List Bytes), keysG ext n (enc lines) = collectKeys keyOf n lines := by
  intro n
  induction n with
  | zero => intro lines; rfl
  | succ n ih =>
    intro lines
    unfold keysG collectKeys
    have hp := hc.parse lines
    by_cases he : enc lines = []
    · rw [if_pos he, hc.empty lines he]
    · rw [if_neg he]
      cases hm : Dtail.parseAuthorizedKey keyOf lines with
      | none =>
        rw [hm] at hp
        simp only at hp
        rcases hx : ext.parseAuthorizedKey (enc lines) with ⟨k, c, o, rest, e⟩
        rw [hx] at hp
        cases e with
        | none => exact absurd rfl hp
        | some msg => rfl
      | some kr =>
        obtain ⟨k, rest⟩ := kr
        rw [hm] at hp
        obtain ⟨c, o, hx⟩ := hp
        rw [hx]
        simp only
        rw [ih rest]

end Dtail.GenKeys
