/-
Tie G for the byte-wise line assembler: `readFile.read`, `handleReadByte`, `handleReadError` of
internal/io/fs/readfile.go as translated from the working tree on this run (`Generated/Code.lean`, namespace `Gen.Reader`).
In the translation a `*bufio.Reader` is the bytes it has not delivered yet, what is sent on `rawLines` is kept in the
receiver, and the environment is fixed: the context is never cancelled, no truncation check is due, the consumer of
`rawLines` takes every line (a `select` takes its `default`, or its only send).  The theorem says that for a reader that does
not wait at the end of the file (`seekEOF = false`: cat, grep, mapreduce) the lines sent are the model's `readLines`.
-/
import DtailModel.Generated.Code
import DtailModel.Lemmas.GoRT
import DtailModel.Model.Reader
set_option autoImplicit false
namespace Dtail.GenReader
open Dtail Dtail.Go Dtail.Gen.Reader

/-- the body of the translated `read` loop, as the translator emitted it -/
def readBody (ext : Ext) (ctx : Unit) (fd : GoString) (rawLines truncate : Unit) :
    readFile × GoString × Int × GoString → LoopStep (Outcome (readFile × GoErr)) (readFile × GoString × Int × GoString) :=
  fun (f, message, offset, reader) =>
    let (_t1, _e1, reader) := goReadByte reader
    let b := _t1
    let err := _e1
    if (err != none) then
      let (_r2, _t3, _t4) := readFile.handleReadError ext f ctx err fd rawLines truncate message
      let f := _r2
      let status := _t3
      let err_5 := _t4
      if (abortReading == status) then
        LoopStep.ret (Outcome.ok (f, err_5))
      else
        LoopStep.next (f, message, offset, reader)
    else
      let offset := (offset + 1)
      let message := message ++ [b]
      let (_r6, _t7, _t8) := readFile.handleReadByte ext f ctx b rawLines message
      let f := _r6
      let status := _t7
      let newMessage := _t8
      if (status == abortReading) then
        LoopStep.ret (Outcome.ok (f, none))
      else
        let message := newMessage
        LoopStep.next (f, message, offset, reader)

/-- the translated `read` is the loop over this body (checked by `rfl`: the copy above is the generated text) -/
theorem read_eq (ext : Ext) (f : readFile) (ctx : Unit) (fd reader : GoString) (rawLines truncate : Unit) :
    readFile.read ext f ctx fd reader rawLines truncate =
      goWhile ext.fuel (f, ([] : GoString), (0 : Int), reader) (fun _ => true) (readBody ext ctx fd rawLines truncate)
        (fun _ => Outcome.panic "unreachable") (Outcome.panic "out of fuel") := rfl

/-- one byte: `message.WriteByte(b)` and `handleReadByte` are the model's `stepByte` -/
theorem handleReadByte_spec (ext : Ext) (m : Nat) (hm : ext.maxLineLength = (m : Int)) (f : readFile) (b : UInt8)
    (msg : GoString) :
    ∃ f' msg', readFile.handleReadByte ext f () b () (msg ++ [b]) = (f', nothing, msg') ∧
      (⟨msg', f'.rawLines⟩ : RS) = stepByte m ⟨msg, f.rawLines⟩ b ∧ f'.seekEOF = f.seekEOF := by
  unfold readFile.handleReadByte stepByte
  have hl : (GoLen.len (msg ++ [b]) : Int) = ((msg ++ [b]).length : Int) := rfl
  by_cases hb : b = NL
  · subst hb
    have : ((NL : UInt8) == 10) = true := by decide
    simp only [this, if_true]
    exact ⟨_, _, rfl, by simp, rfl⟩
  · have hne : (b == 10) = false := by
      simp only [beq_eq_false_iff_ne, ne_eq]; exact hb
    simp only [hne, Bool.false_eq_true, if_false, hb]
    by_cases hlen : (msg ++ [b]).length ≥ m
    · have hd : decide ((GoLen.len (msg ++ [b]) : Int) ≥ ext.maxLineLength) = true := by
        rw [hl, hm]; simp only [decide_eq_true_eq, ge_iff_le]; omega
      simp only [hd, if_true, hlen]
      cases f.warnedAboutLongLine <;> exact ⟨_, _, rfl, rfl, rfl⟩
    · have hd : decide ((GoLen.len (msg ++ [b]) : Int) ≥ ext.maxLineLength) = false := by
        rw [hl, hm]; simp only [decide_eq_false_iff_not, ge_iff_le]; omega
      simp only [hd, Bool.false_eq_true, if_false, hlen]
      exact ⟨_, _, rfl, rfl, rfl⟩

/-- the end of the file for a reader that does not wait there: a pending partial line is sent, and reading ends -/
theorem handleReadError_eof (ext : Ext) (f : readFile) (hs : f.seekEOF = false) (fd msg : GoString) :
    ∃ f', readFile.handleReadError ext f () goEOF fd () () msg = (f', abortReading, none) ∧
      f'.rawLines = eofFlush ⟨msg, f.rawLines⟩ := by
  unfold readFile.handleReadError eofFlush
  have h1 : (goEOF != goEOF) = false := by decide
  simp only [h1, Bool.false_eq_true, if_false, hs, Bool.not_false, if_true]
  cases msg with
  | nil => exact ⟨_, rfl, by simp⟩
  | cons a rest =>
    have : decide ((GoLen.len (a :: rest) : Int) > 0) = true := by
      have : (GoLen.len (a :: rest) : Int) = ((a :: rest).length : Int) := rfl
      rw [this]; simp only [List.length_cons, decide_eq_true_eq]; omega
    simp only [this, if_true]
    exact ⟨_, rfl, by simp⟩

/-- **the loop**: from any state, with fuel for the bytes left and the end of the file -/
theorem read_loop (ext : Ext) (m : Nat) (hm : ext.maxLineLength = (m : Int)) (fd : GoString) :
    ∀ (bs : GoString) (fuel : Nat) (f : readFile) (msg : GoString) (off : Int), f.seekEOF = false → bs.length < fuel →
      ∃ f', goWhile fuel (f, msg, off, bs) (fun _ => true) (readBody ext () fd () ())
          (fun _ => Outcome.panic "unreachable") (Outcome.panic "out of fuel") = Outcome.ok (f', none) ∧
        f'.rawLines = eofFlush (readFrom m ⟨msg, f.rawLines⟩ bs) := by
  intro bs
  induction bs with
  | nil =>
    intro fuel f msg off hs hf
    obtain ⟨n, rfl⟩ : ∃ n, fuel = n + 1 := ⟨fuel - 1, by simp at hf; omega⟩
    obtain ⟨f', he, hr⟩ := handleReadError_eof ext f hs fd msg
    refine ⟨f', ?_, by simpa [readFrom] using hr⟩
    unfold goWhile
    simp only [if_true, readBody, goReadByte]
    have h1 : (goEOF != none) = true := by decide
    simp only [h1, if_true, he]
    have h2 : (abortReading == abortReading) = true := by decide
    simp only [h2, if_true]
  | cons b rest ih =>
    intro fuel f msg off hs hf
    obtain ⟨n, rfl⟩ : ∃ n, fuel = n + 1 := ⟨fuel - 1, by simp at hf; omega⟩
    obtain ⟨f1, msg1, he, hst, hs1⟩ := handleReadByte_spec ext m hm f b msg
    obtain ⟨f', hg, hr⟩ := ih n f1 msg1 (off + 1) (by rw [hs1]; exact hs) (by simp at hf; omega)
    refine ⟨f', ?_, ?_⟩
    · unfold goWhile
      simp only [if_true, readBody, goReadByte]
      have h1 : ((none : GoErr) != none) = false := rfl
      simp only [h1, Bool.false_eq_true, if_false, he]
      have h2 : (nothing == abortReading) = false := by decide
      simp only [h2, Bool.false_eq_true, if_false]
      exact hg
    · rw [hr]
      simp only [readFrom, List.foldl_cons]
      rw [← hst]

/-- **the translated `read` sends the model's `readLines`**: for every file content, a reader that does not wait at the end
    of the file, started with an empty history and enough fuel, returns no error, does not panic, and has sent on `rawLines`
    exactly `readLines m bs` where `m` is the configured maximal line length -/
theorem read_refines (ext : Ext) (m : Nat) (hm : ext.maxLineLength = (m : Int)) (f : readFile) (hs : f.seekEOF = false)
    (hr : f.rawLines = []) (fd bs : GoString) (hf : bs.length < ext.fuel) :
    ∃ f', readFile.read ext f () fd bs () () = Outcome.ok (f', none) ∧ f'.rawLines = readLines m bs := by
  rw [read_eq]
  obtain ⟨f', h1, h2⟩ := read_loop ext m hm fd bs ext.fuel f [] 0 hs hf
  exact ⟨f', h1, by rw [h2, hr]; rfl⟩

end Dtail.GenReader
