/-
No-panic lemmas for the command path and the query front end (C10, C11): every Go indexing /
slicing operation of the modelled code is guarded, for every input.
-/
import DtailModel.Lemmas.Command
namespace Dtail

/-- the outcome is not a Go runtime panic -/
def Outcome.NoPanic {α : Type} (o : Outcome α) : Prop := o.isPanic = false

@[simp] theorem noPanic_ok {α : Type} (a : α) : (Outcome.ok a).NoPanic := rfl
@[simp] theorem noPanic_err {α : Type} (e : String) : (Outcome.err e : Outcome α).NoPanic := rfl
@[simp] theorem noPanic_pure {α : Type} (a : α) : (pure a : Outcome α).NoPanic := rfl

theorem noPanic_bind {α β : Type} (o : Outcome α) (f : α → Outcome β) (ho : o.NoPanic)
    (hf : ∀ a, o = .ok a → (f a).NoPanic) : (o >>= f).NoPanic := by
  cases o with
  | ok a => exact hf a rfl
  | err e => rfl
  | panic p => exact absurd ho (by simp [Outcome.NoPanic, Outcome.isPanic])

theorem noPanic_err_bind {α β : Type} (e : String) (f : α → Outcome β) : ((Outcome.err e : Outcome α) >>= f).NoPanic := rfl

theorem noPanic_ite {α : Type} (c : Prop) [Decidable c] (a b : Outcome α)
    (ha : c → a.NoPanic) (hb : ¬ c → b.NoPanic) : (if c then a else b).NoPanic := by
  by_cases h : c
  · rw [if_pos h]; exact ha h
  · rw [if_neg h]; exact hb h

theorem goIndex_of_lt {α : Type} (l : List α) (k : Nat) (h : k < l.length) : goIndex l k = .ok l[k] := by
  simp [goIndex, List.getElem?_eq_getElem h]

theorem goIndex_noPanic {α : Type} (l : List α) (k : Nat) (h : k < l.length) : (goIndex l k).NoPanic := by
  rw [goIndex_of_lt l k h]; rfl

theorem goSliceFrom_noPanic {α : Type} (l : List α) (lo : Nat) (h : lo ≤ l.length) : (goSliceFrom l lo).NoPanic := by
  simp [goSliceFrom, h]

theorem goSlice_noPanic {α : Type} (l : List α) (lo hi : Nat) (h1 : lo ≤ hi) (h2 : hi ≤ l.length) :
    (goSlice l lo hi).NoPanic := by
  have a : ¬ hi > l.length := by omega
  have b : ¬ lo > hi := by omega
  simp [goSlice, a, b]

theorem tokensConsume_noPanic (ts : List Tok) : (tokensConsume ts).NoPanic := by
  induction ts with
  | nil => simp [tokensConsume]
  | cons t rest ih =>
    unfold tokensConsume
    split
    · simp
    · dsimp only
      split
      · exact ih
      · rename_i hne
        have hpos : 0 < t.str.length := Nat.pos_of_ne_zero hne
        apply noPanic_bind _ _ (goIndex_noPanic _ _ hpos)
        intro first _
        apply noPanic_bind _ _ (goIndex_noPanic _ _ (by omega))
        intro last _
        split
        · rename_i hc
          apply noPanic_bind _ _ (goSlice_noPanic _ _ _ (by omega) (by omega))
          intro stripped _
          apply noPanic_bind _ _ ih
          intro rc _
          simp
        · apply noPanic_bind _ _ ih
          intro rc _
          simp

end Dtail

namespace Dtail

/-- one step of the no-panic proof search: close a leaf, split a branch, or peel a guarded
    index / slice off a bind (the guard is found among the hypotheses by `omega`) -/
macro "np_step" : tactic => `(tactic| first
  | focus (simp only [noPanic_ok, noPanic_err, noPanic_pure]; done)
  | contradiction
  | (with_reducible exact noPanic_err_bind _ _)
  | (with_reducible apply noPanic_ite <;> intro _)
  | split
  | dsimp only
  | (with_reducible apply noPanic_bind _ _ (goIndex_noPanic _ _ (by first | omega | (simp_all; done) | (simp_all; omega))); intro _ _)
  | (with_reducible apply noPanic_bind _ _ (goSliceFrom_noPanic _ _ (by first | omega | (simp_all; done) | (simp_all; omega))); intro _ _)
  | (with_reducible apply noPanic_bind _ _ (goSlice_noPanic _ _ _ (by first | omega | (simp_all; omega)) (by first | omega | (simp_all; omega))); intro _ _)
  | (with_reducible apply noPanic_bind _ _ (noPanic_ok _); intro _ _)
  | (with_reducible apply noPanic_bind _ _ (noPanic_pure _); intro _ _)
  | (with_reducible apply noPanic_bind _ _ (by assumption); intro _ _))

/-- peel a call whose no-panic lemma / induction hypothesis is given -/
macro "np_call" h:term : tactic => `(tactic| first
  | (with_reducible apply noPanic_bind _ _ (by first | exact $h | apply $h); intro _ _)
  | exact $h
  | apply $h)

macro "np" : tactic => `(tactic| repeat np_step)

theorem parseSelect_noPanic (t : Tok) : (parseSelect t).NoPanic := by
  unfold parseSelect
  np

theorem makeSelect_noPanic (ts : List Tok) : (makeSelect ts).NoPanic := by
  induction ts with
  | nil => simp [makeSelect]
  | cons t rest ih =>
    unfold makeSelect
    apply noPanic_bind _ _ (parseSelect_noPanic t)
    intro _ _
    apply noPanic_bind _ _ ih
    intro _ _
    np

theorem parseWhere_noPanic (fl : FloatOracle) (ts : List Tok) : (parseWhere fl ts).NoPanic := by
  unfold parseWhere
  np

theorem makeWhereAux_noPanic (fl : FloatOracle) (fuel : Nat) (ts : List Tok) : (makeWhereAux fl fuel ts).NoPanic := by
  induction fuel generalizing ts with
  | zero => simp [makeWhereAux]
  | succ n ih =>
    unfold makeWhereAux
    have h1 := parseWhere_noPanic fl ts
    repeat (first | np_step | np_call ih)

theorem makeWhere_noPanic (fl : FloatOracle) (ts : List Tok) : (makeWhere fl ts).NoPanic :=
  makeWhereAux_noPanic fl _ ts

/-- the slice bounds of `NewFunctionStack`: the first '(' of a string that ends in ')' is not
    its last byte -/
theorem funcStack_bounds (aux : Bytes) (index : Nat) (hs : hasSuffix [RPAR] aux = true)
    (hi : aux.idxOf? LPAR = some index) : index ≤ aux.length ∧ index + 1 ≤ aux.length - 1 := by
  obtain ⟨hlt, hget, _⟩ := List.idxOf?_eq_some_iff.1 hi
  obtain ⟨t, ht⟩ := List.isSuffixOf_iff_suffix.1 hs
  subst ht
  simp only [List.length_append, List.length_singleton] at hlt ⊢
  by_cases e : index = t.length
  · subst e
    simp [LPAR, RPAR] at hget
  · omega

theorem funcStackAux_noPanic (fuel : Nat) (aux : Bytes) (fs : List Bytes) : (funcStackAux fuel aux fs).NoPanic := by
  induction fuel generalizing aux fs with
  | zero => simp [funcStackAux]
  | succ n ih =>
    unfold funcStackAux
    split
    · simp
    · rename_i hsuf
      have hs : hasSuffix [RPAR] aux = true := by simpa using hsuf
      split
      · simp
      · simp
      · rename_i index _ hidx
        have hb := funcStack_bounds aux index hs hidx
        apply noPanic_bind _ _ (goSlice_noPanic _ _ _ (by omega) (by omega))
        intro name _
        split
        · apply noPanic_bind _ _ (goSlice_noPanic _ _ _ (by omega) (by omega))
          intro inner _
          exact ih _ _
        · simp

theorem funcStack_noPanic (s : Bytes) : (funcStack s).NoPanic := funcStackAux_noPanic _ s []

theorem parseSet_noPanic (fl : FloatOracle) (ts : List Tok) : (parseSet fl ts).NoPanic := by
  unfold parseSet
  repeat (first | np_step | np_call (funcStack_noPanic _))

theorem makeSetAux_noPanic (fl : FloatOracle) (fuel : Nat) (ts : List Tok) : (makeSetAux fl fuel ts).NoPanic := by
  induction fuel generalizing ts with
  | zero => simp [makeSetAux]
  | succ n ih =>
    unfold makeSetAux
    have h1 := parseSet_noPanic fl ts
    repeat (first | np_step | np_call ih)

theorem makeSet_noPanic (fl : FloatOracle) (ts : List Tok) : (makeSet fl ts).NoPanic :=
  makeSetAux_noPanic fl _ ts

macro "np_query_step" : tactic => `(tactic| first
  | np_step
  | np_call (tokensConsume_noPanic _)
  | np_call (makeSelect_noPanic _)
  | np_call (makeWhere_noPanic _ _)
  | np_call (makeSet_noPanic _ _))

theorem parseClause_noPanic (fl : FloatOracle) (q : Query) (ts : List Tok) (hne : ts ≠ []) :
    (parseClause fl q ts).NoPanic := by
  have hlen : 0 < ts.length := List.length_pos_iff.2 hne
  unfold parseClause
  repeat np_query_step

theorem parseTokensAux_noPanic (fl : FloatOracle) (fuel : Nat) (q : Query) (ts : List Tok) :
    (parseTokensAux fl fuel q ts).NoPanic := by
  induction fuel generalizing q ts with
  | zero => simp [parseTokensAux]
  | succ n ih =>
    unfold parseTokensAux
    apply noPanic_ite
    · intro _; simp
    · intro hne
      have hts : ts ≠ [] := by intro e; subst e; simp at hne
      apply noPanic_bind _ _ (parseClause_noPanic fl q ts hts)
      intro _ _
      exact ih _ _

theorem parseQuery_noPanic (fl : FloatOracle) (ts : List Tok) : (parseQuery fl ts).NoPanic := by
  unfold parseQuery
  apply noPanic_bind _ _ (parseTokensAux_noPanic fl _ _ ts)
  intro q _
  repeat np_step

/-- **The query front end never panics**: for every byte string and every float oracle,
    `mapr.NewQuery` returns a query, `nil` or an error. -/
theorem newQuery_noPanic (fl : FloatOracle) (s : Bytes) : (newQuery fl s).NoPanic := by
  unfold newQuery
  apply noPanic_ite
  · intro _; simp
  · intro _
    apply noPanic_bind _ _ (parseQuery_noPanic fl _)
    intro _ _; simp

/-! ### the command path -/

/-- a value that starts with `base64%` splits into two parts at the first '%' -/
theorem splitN2_base64 (v : Bytes) (h : hasPrefix (b!"base64%") v = true) : (splitN2 PERCENT v).length = 2 := by
  obtain ⟨t, ht⟩ := List.isPrefixOf_iff_prefix.1 h
  subst ht
  have e : b!"base64%" ++ t = b!"base64" ++ PERCENT :: t := by simp [PERCENT]
  rw [e, splitN2_append_sep PERCENT _ _ (by decide)]
  rfl

theorem deserializeOptions_noPanic (env : Env) (l : List Bytes) (o : List (Bytes × Bytes)) (c : LCtx) :
    (deserializeOptions env l o c).NoPanic := by
  induction l generalizing o c with
  | nil => simp [deserializeOptions]
  | cons x rest ih =>
    unfold deserializeOptions
    have h2 := splitN2_base64
    repeat (first | np_step | np_call ih)

theorem splitFirst_isSome_of_mem (sep : UInt8) (a : Bytes) (h : sep ∈ a) : (splitFirst sep a).isSome = true := by
  induction a with
  | nil => simp at h
  | cons x xs ih =>
    unfold splitFirst
    by_cases e : x = sep
    · simp [e]
    · have : sep ∈ xs := by
        rcases List.mem_cons.1 h with h1 | h1
        · exact absurd h1.symm e
        · exact h1
      have := ih this
      cases hs : splitFirst sep xs with
      | none => simp [hs] at this
      | some pr => simp [e]

theorem splitN2_contains (sep : UInt8) (a : Bytes) (h : a.contains sep = true) : (splitN2 sep a).length = 2 := by
  have hm : sep ∈ a := by simpa using h
  have := splitFirst_isSome_of_mem sep a hm
  unfold splitN2 splitN
  cases hs : splitFirst sep a with
  | none => simp [hs] at this
  | some pr => simp [splitN]

theorem flags_default_length (l : List RFlag) : 0 < (if l.length = 0 then [RFlag.default] else l).length := by
  split
  · simp
  · omega

theorem regexDeserialize_noPanic (env : Env) (s : Bytes) : (regexDeserialize env s).NoPanic := by
  unfold regexDeserialize
  have h1 := splitN2_contains
  have h2 := flags_default_length
  repeat (any_goals np_step)

macro "np_cmd_step" : tactic => `(tactic| first
  | np_step
  | np_call (regexDeserialize_noPanic _ _)
  | np_call (newQuery_noPanic _ _)
  | np_call (deserializeOptions_noPanic _ _ _ _))

theorem readStart_noPanic (env : Env) (mode : Mode) (ltx : LCtx) (args : List Bytes) :
    (readStart env mode ltx args.length args).NoPanic := by
  unfold readStart
  dsimp only
  apply noPanic_ite
  · intro h4
    apply noPanic_bind _ _ (goSliceFrom_noPanic _ _ (by omega))
    intro tail _
    have hre := regexDeserialize_noPanic env (joinByte SP tail)
    cases hr : regexDeserialize env (joinByte SP tail) with
    | ok r => repeat (any_goals np_step)
    | err e => repeat (any_goals np_step)
    | panic p => rw [hr] at hre; exact absurd hre (by simp [Outcome.NoPanic, Outcome.isPanic])
  · intro _
    repeat (any_goals np_step)

theorem mapStart_noPanic (env : Env) (args : List Bytes) (h : 0 < args.length) : (mapStart env args).NoPanic := by
  unfold mapStart
  apply noPanic_bind _ _ (goSliceFrom_noPanic _ _ (by omega))
  intro tail _
  have hq := newQuery_noPanic env.fl (joinByte SP tail)
  cases hr : newQuery env.fl (joinByte SP tail) with
  | ok r => cases r <;> simp
  | err e => simp
  | panic p => rw [hr] at hq; exact absurd hq (by simp [Outcome.NoPanic, Outcome.isPanic])

theorem ackStart_noPanic (args : List Bytes) : (ackStart args.length args).NoPanic := by
  unfold ackStart
  repeat (any_goals np_step)

theorem userCommand_noPanic (env : Env) (ltx : LCtx) (args : List Bytes) (name : Bytes) (h : 0 < args.length) :
    (userCommand env ltx args.length args name).NoPanic := by
  unfold userCommand
  repeat (first | np_step | np_call (readStart_noPanic _ _ _ _) | np_call (mapStart_noPanic _ _ h) | np_call (ackStart_noPanic _))

theorem splitOnByte_length_pos (sep : UInt8) (s : Bytes) : 0 < (splitOnByte sep s).length :=
  List.length_pos_iff.2 (splitOnByte_ne_nil sep s)

theorem decodeParts_noPanic (env : Env) (args parts : List Bytes) (hp : 0 < parts.length) :
    (decodeParts env args parts).NoPanic := by
  unfold decodeParts
  repeat (first | np_step | np_call (deserializeOptions_noPanic _ _ _ _))

theorem decodeArgs_noPanic (env : Env) (args : List Bytes) (h : 0 < args.length) : (decodeArgs env args).NoPanic := by
  unfold decodeArgs
  apply noPanic_bind _ _ (goIndex_noPanic _ _ h)
  intro c0 _
  exact decodeParts_noPanic env args _ (splitOnByte_length_pos COLON c0)

theorem decodeInner_noPanic (env : Env) (decoded : Bytes) : (decodeInner env decoded).NoPanic :=
  decodeArgs_noPanic env _ (splitOnByte_length_pos SP decoded)

/-- the decoded command keeps at least one argument and `argc` is the number of arguments
    (what `handleUserCommand` relies on) -/
theorem decodeParts_args (env : Env) (args parts : List Bytes) (d : DecodedCmd)
    (h : decodeParts env args parts = .ok d) : d.args = args ∧ d.argc = args.length := by
  unfold decodeParts at h
  simp only [Bind.bind, Outcome.bind, Pure.pure] at h
  repeat (first | (split at h) | (simp only [Outcome.ok.injEq] at h; subst h; exact ⟨rfl, rfl⟩) | contradiction | (simp at h; done))

theorem goSliceFrom_of_le {α : Type} (l : List α) (lo : Nat) (h : lo ≤ l.length) : goSliceFrom l lo = .ok (l.drop lo) := by
  simp [goSliceFrom, h]

/-- the envelope either rejects the command or hands the decoded text to `decodeInner` -/
theorem decodeEnvelope_cases (env : Env) (args : List Bytes) (h0 : 0 < args.length) :
    (∃ e, decodeEnvelope env args = .err e) ∨ (∃ decoded, decodeEnvelope env args = decodeInner env decoded) := by
  unfold decodeEnvelope
  simp only [Bind.bind, Outcome.bind]
  rw [goIndex_of_lt args 0 h0]
  simp only
  split
  · exact Or.inl ⟨_, rfl⟩
  · rename_i hc
    have h2 : 2 < args.length := by omega
    rw [goIndex_of_lt args 1 (by omega)]
    simp only
    split
    · exact Or.inl ⟨_, rfl⟩
    · rw [goSliceFrom_of_le args 2 (by omega)]
      simp only
      rw [goIndex_of_lt (args.drop 2) 0 (by simp; omega)]
      simp only
      split
      · exact Or.inl ⟨_, rfl⟩
      · rename_i hb
        rw [goIndex_of_lt (args.drop 2) 1 (by simp; omega)]
        simp only
        split
        · exact Or.inl ⟨_, rfl⟩
        · exact Or.inr ⟨_, rfl⟩

theorem decodeCommand_noPanic (env : Env) (cmd : Bytes) : (decodeCommand env cmd).NoPanic := by
  unfold decodeCommand
  rcases decodeEnvelope_cases env (splitOnByte SP cmd) (splitOnByte_length_pos SP cmd) with ⟨e, he⟩ | ⟨d, hd⟩
  · rw [he]; simp
  · rw [hd]; exact decodeInner_noPanic env d

/-- a command that was decoded has at least one argument, and `argc` is their number -/
theorem decodeCommand_args (env : Env) (cmd : Bytes) (d : DecodedCmd) (h : decodeCommand env cmd = .ok d) :
    0 < d.args.length ∧ d.argc = d.args.length := by
  unfold decodeCommand at h
  rcases decodeEnvelope_cases env (splitOnByte SP cmd) (splitOnByte_length_pos SP cmd) with ⟨e, he⟩ | ⟨dec, hd⟩
  · rw [he] at h; cases h
  · rw [hd] at h
    unfold decodeInner decodeArgs at h
    simp only [Bind.bind, Outcome.bind] at h
    rw [goIndex_of_lt _ 0 (splitOnByte_length_pos SP dec)] at h
    simp only at h
    obtain ⟨h1, h2⟩ := decodeParts_args env _ _ d h
    rw [h1, h2]
    exact ⟨splitOnByte_length_pos SP dec, rfl⟩

/-- **`handleCommand` never panics**: for every byte string a client can send as a command and
    every behaviour of the base64 decoder, the regexp compiler and the float parser, the
    server's decode-and-dispatch path (protocol check, base64 envelope, option parsing, command
    word dispatch, argument-count checks, regex deserialisation, query parsing) ends in a
    dispatched action or an error message — never in a Go runtime panic. -/
theorem handleCommand_noPanic (env : Env) (cmd : Bytes) : (handleCommand env cmd).NoPanic := by
  unfold handleCommand
  have hd := decodeCommand_noPanic env cmd
  cases hr : decodeCommand env cmd with
  | panic p => rw [hr] at hd; exact absurd hd (by simp [Outcome.NoPanic, Outcome.isPanic])
  | err e => simp
  | ok d =>
    obtain ⟨hpos, hargc⟩ := decodeCommand_args env cmd d hr
    simp only
    rw [hargc]
    apply noPanic_bind _ _ (userCommand_noPanic env d.ltx d.args d.name hpos)
    intro _ _; simp

end Dtail
