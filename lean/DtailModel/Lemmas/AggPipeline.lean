/-
The mapreduce pipeline model as a whole (C05): `distributed` = `central` as group maps, for every
query, every list of partial results (servers × files × serialisation intervals, in arrival
order) — built from the per-column algebra of Props/C05.
-/
import DtailModel.Model.Aggregate
import DtailModel.Lemmas.AggAlgebra
namespace Dtail.AggPipe
open Dtail

def lookup (g : Groups) (k : Bytes) : Option AggSet := (g.find? (·.1 = k)).map (·.2)

theorem lookup_updGroup (g : Groups) (k k' : Bytes) (f : AggSet → AggSet) (d : AggSet) :
    lookup (updGroup g k f d) k' = if k' = k then some (f ((lookup g k).getD d)) else lookup g k' := by
  induction g with
  | nil =>
    by_cases h : k' = k
    · subst h; simp [updGroup, lookup]
    · have : ¬ k = k' := fun e => h e.symm
      simp [updGroup, lookup, h, this]
  | cons e rest ih =>
    obtain ⟨ke, se⟩ := e
    unfold updGroup
    by_cases hke : ke = k
    · subst hke
      by_cases h : k' = ke
      · subst h; simp [lookup]
      · have : ¬ ke = k' := fun e => h e.symm
        simp [lookup, h, this]
    · simp only [hke, if_false]
      by_cases h : k' = k
      · subst h
        have := ih
        simp only [lookup, if_true] at this ⊢
        simp [List.find?_cons, hke, this]
      · have := ih
        simp only [lookup, h, if_false] at this ⊢
        by_cases h2 : ke = k'
        · simp [List.find?_cons, h2]
        · simp [List.find?_cons, h2, this]

def keys (g : Groups) : List Bytes := g.map (·.1)

theorem keys_updGroup (g : Groups) (k : Bytes) (f : AggSet → AggSet) (d : AggSet) :
    keys (updGroup g k f d) = if k ∈ keys g then keys g else keys g ++ [k] := by
  induction g with
  | nil => simp [updGroup, keys]
  | cons e rest ih =>
    obtain ⟨ke, se⟩ := e
    unfold updGroup
    by_cases hke : ke = k
    · subst hke; simp [keys]
    · have : ¬ k = ke := fun e => hke e.symm
      simp only [hke, if_false]
      simp only [keys, List.map_cons, List.mem_cons, this, false_or] at ih ⊢
      rw [ih]
      split <;> simp_all

theorem nodup_updGroup (g : Groups) (k : Bytes) (f : AggSet → AggSet) (d : AggSet) (h : (keys g).Nodup) :
    (keys (updGroup g k f d)).Nodup := by
  rw [keys_updGroup]
  split
  · exact h
  · rename_i hk
    exact List.nodup_append.2 ⟨h, by simp, by intro a ha b hb; simp at hb; subst hb; intro e; exact hk (e ▸ ha)⟩

/-- the lines of a group -/
def linesOf (gb : List Bytes) (k : Bytes) (lines : List Fields) : List Fields :=
  lines.filter fun fs => groupKeyOf gb fs = k

/-- the aggregate set of a list of lines that belong to one group -/
def aggFold (sel : List SelCond) (ls : List Fields) : AggSet := ls.foldl (aggLine sel) (emptySet sel.length)

def stepLine (sel : List SelCond) (gb : List Bytes) (g : Groups) (fs : Fields) : Groups :=
  updGroup g (groupKeyOf gb fs) (fun s => aggLine sel s fs) (emptySet sel.length)

theorem serverPartial_eq (sel : List SelCond) (gb : List Bytes) (lines : List Fields) :
    serverPartial sel gb lines = lines.foldl (stepLine sel gb) [] := rfl

theorem lookup_foldl_stepLine (sel : List SelCond) (gb : List Bytes) (k : Bytes) (lines : List Fields) (g : Groups) :
    lookup (lines.foldl (stepLine sel gb) g) k =
      match lookup g k with
      | some s => some ((linesOf gb k lines).foldl (aggLine sel) s)
      | none => if linesOf gb k lines = [] then none else some (aggFold sel (linesOf gb k lines)) := by
  induction lines generalizing g with
  | nil => cases h : lookup g k <;> simp [linesOf, h]
  | cons fs rest ih =>
    simp only [List.foldl_cons]
    rw [ih]
    unfold stepLine
    rw [lookup_updGroup]
    by_cases hk : k = groupKeyOf gb fs
    · have hk' : groupKeyOf gb fs = k := hk.symm
      simp only [hk, if_true]
      have hl : linesOf gb (groupKeyOf gb fs) (fs :: rest) = fs :: linesOf gb (groupKeyOf gb fs) rest := by
        simp [linesOf]
      rw [hl]
      cases hg : lookup g (groupKeyOf gb fs) <;> simp [aggFold]
    · have hk' : ¬ groupKeyOf gb fs = k := fun e => hk e.symm
      simp only [hk, if_false]
      have hl : linesOf gb k (fs :: rest) = linesOf gb k rest := by
        simp [linesOf, hk']
      rw [hl]

theorem lookup_serverPartial (sel : List SelCond) (gb : List Bytes) (k : Bytes) (lines : List Fields) :
    lookup (serverPartial sel gb lines) k =
      if linesOf gb k lines = [] then none else some (aggFold sel (linesOf gb k lines)) := by
  rw [serverPartial_eq, lookup_foldl_stepLine]
  simp [lookup]

theorem nodup_foldl_stepLine (sel : List SelCond) (gb : List Bytes) (lines : List Fields) (g : Groups)
    (h : (keys g).Nodup) : (keys (lines.foldl (stepLine sel gb) g)).Nodup := by
  induction lines generalizing g with
  | nil => exact h
  | cons fs rest ih => exact ih _ (nodup_updGroup _ _ _ _ h)

theorem nodup_serverPartial (sel : List SelCond) (gb : List Bytes) (lines : List Fields) :
    (keys (serverPartial sel gb lines)).Nodup :=
  nodup_foldl_stepLine sel gb lines [] (by simp [keys])

/-- a set carries data -/
def hasData (s : AggSet) : Bool := s.cols.any (fun c => c.num.isSome ∨ c.str.isSome)

theorem transmitted_eq (g : Groups) : transmitted g = g.filter fun e => hasData e.2 := by
  unfold transmitted hasData
  congr 1

theorem lookup_filter (g : Groups) (p : AggSet → Bool) (k : Bytes) (h : (keys g).Nodup) :
    lookup (g.filter fun e => p e.2) k = (lookup g k).filter p := by
  induction g with
  | nil => rfl
  | cons e rest ih =>
    obtain ⟨ke, se⟩ := e
    simp only [keys, List.map_cons, List.nodup_cons] at h
    have ihr := ih h.2
    by_cases hke : ke = k
    · subst hke
      have hnone : lookup rest ke = none := by
        unfold lookup
        have : rest.find? (·.1 = ke) = none := by
          apply List.find?_eq_none.2
          intro x hx hxe
          exact h.1 (by simp only [decide_eq_true_eq] at hxe; rw [← hxe]; exact List.mem_map_of_mem hx)
        rw [this]; rfl
      by_cases hp : p se = true
      · simp [hp, lookup, Option.filter]
      · have hp' : p se = false := by simpa using hp
        have hf : List.filter (fun e => p e.2) ((ke, se) :: rest) = List.filter (fun e => p e.2) rest := by
          simp [List.filter_cons, hp']
        rw [hf, ihr, hnone]
        simp [lookup, Option.filter, hp']
    · by_cases hp : p se = true
      · simp only [List.filter_cons, hp, if_true]
        simp only [lookup, List.find?_cons, hke, decide_false] at ihr ⊢
        exact ihr
      · simp only [List.filter_cons, hp]
        simp only [lookup, List.find?_cons, hke, decide_false] at ihr ⊢
        exact ihr

theorem keys_filter_nodup (g : Groups) (p : Bytes × AggSet → Bool) (h : (keys g).Nodup) : (keys (g.filter p)).Nodup := by
  unfold keys at *
  exact (List.filter_sublist.map _).nodup h

def stepMerge (sel : List SelCond) (g : Groups) (e : Bytes × AggSet) : Groups :=
  updGroup g e.1 (fun t => mergeSet sel t e.2) (emptySet sel.length)

theorem mergeGroups_eq (sel : List SelCond) (a b : Groups) : mergeGroups sel a b = b.foldl (stepMerge sel) a := by
  unfold mergeGroups stepMerge
  congr 1

theorem lookup_mergeGroups (sel : List SelCond) (a b : Groups) (k : Bytes) (hb : (keys b).Nodup) :
    lookup (mergeGroups sel a b) k =
      match lookup b k with
      | none => lookup a k
      | some s => some (mergeSet sel ((lookup a k).getD (emptySet sel.length)) s) := by
  rw [mergeGroups_eq]
  induction b generalizing a with
  | nil => simp [lookup]
  | cons e rest ih =>
    obtain ⟨ke, se⟩ := e
    simp only [keys, List.map_cons, List.nodup_cons] at hb
    simp only [List.foldl_cons]
    rw [ih _ hb.2]
    unfold stepMerge
    by_cases hke : ke = k
    · subst hke
      have hnone : lookup rest ke = none := by
        unfold lookup
        have : rest.find? (·.1 = ke) = none := by
          apply List.find?_eq_none.2
          intro x hx hxe
          exact hb.1 (by simp only [decide_eq_true_eq] at hxe; rw [← hxe]; exact List.mem_map_of_mem hx)
        rw [this]; rfl
      rw [hnone, lookup_updGroup]
      simp [lookup]
    · have hk' : ¬ k = ke := fun e => hke e.symm
      have hcons : lookup ((ke, se) :: rest) k = lookup rest k := by
        simp [lookup, List.find?_cons, hke]
      rw [hcons]
      cases hr : lookup rest k with
      | none => simp only [lookup_updGroup, hk', if_false]
      | some s => simp only [lookup_updGroup, hk', if_false]

/-! ### aggregate sets in canonical form: one column per select condition -/

open Dtail.C05 in
theorem zip3_map {α β γ : Type} (sel : List SelCond) (f : SelCond → α) (g : SelCond → β) (F : α × SelCond × β → γ) :
    ((sel.map f).zip (sel.zip (sel.map g))).map F = sel.map (fun sc => F (f sc, sc, g sc)) := by
  induction sel with
  | nil => rfl
  | cons sc rest ih => simp [ih]

/-- what a line contributes to the column of a select condition -/
def contrib (fs : Fields) (sc : SelCond) : Option Col := contribution sc.op fs sc.field

def contributes (sel : List SelCond) (fs : Fields) : Bool := sel.any fun sc => (contrib fs sc).isSome

theorem aggLine_canon (sel : List SelCond) (n : Nat) (f : SelCond → Col) (fs : Fields) :
    aggLine sel ⟨n, sel.map f⟩ fs =
      ⟨n + (if contributes sel fs then 1 else 0),
       sel.map fun sc => match contrib fs sc with | none => f sc | some k => combine sc.op (f sc) k⟩ := by
  unfold aggLine
  simp only [zip3_map]
  congr 1
  simp [contributes, contrib, List.any_map, Function.comp_def]

theorem emptySet_canon (sel : List SelCond) : emptySet sel.length = ⟨0, sel.map fun _ => ({} : Col)⟩ := by
  simp [emptySet, List.map_const']

theorem foldl_aggLine_canon (sel : List SelCond) (ls : List Fields) (n : Nat) (f : SelCond → Col) :
    ls.foldl (aggLine sel) ⟨n, sel.map f⟩ =
      ⟨n + (ls.filter (contributes sel)).length,
       sel.map fun sc => (ls.filterMap fun fs => contrib fs sc).foldl (combine sc.op) (f sc)⟩ := by
  induction ls generalizing n f with
  | nil => simp
  | cons fs rest ih =>
    simp only [List.foldl_cons, aggLine_canon, ih]
    congr 1
    · by_cases hc : contributes sel fs = true
      · simp [List.filter_cons, hc]; omega
      · simp [List.filter_cons, hc]
    · apply List.map_congr_left
      intro sc _
      cases hk : contrib fs sc <;> simp [List.filterMap_cons, hk]

/-- **the aggregate set of a list of lines**: samples = lines that contribute anything, column of a
    select condition = fold of the contributions to it -/
theorem aggFold_canon (sel : List SelCond) (ls : List Fields) :
    aggFold sel ls =
      ⟨(ls.filter (contributes sel)).length,
       sel.map fun sc => C05.colFold sc.op (ls.filterMap fun fs => contrib fs sc)⟩ := by
  unfold aggFold
  rw [emptySet_canon, foldl_aggLine_canon]
  simp [C05.colFold]

theorem mergeSet_canon (sel : List SelCond) (n m : Nat) (f g : SelCond → Col) :
    mergeSet sel ⟨n, sel.map f⟩ ⟨m, sel.map g⟩ = ⟨n + m, sel.map fun sc => combine sc.op (f sc) (g sc)⟩ := by
  unfold mergeSet
  simp only [zip3_map]

theorem contrib_wf (fs : Fields) (sc : SelCond) (k : Col) (h : contrib fs sc = some k) : C05.Col.Wf sc.op k :=
  C05.contribution_wf sc.op fs sc.field k h

theorem filterMap_contrib_wf (ls : List Fields) (sc : SelCond) :
    ∀ k ∈ ls.filterMap (fun fs => contrib fs sc), C05.Col.Wf sc.op k := by
  intro k hk
  obtain ⟨fs, _, hfs⟩ := List.mem_filterMap.1 hk
  exact contrib_wf fs sc k hfs

/-- **aggregating two runs of lines one after the other = merging their aggregate sets** -/
theorem aggFold_append (sel : List SelCond) (l1 l2 : List Fields) :
    aggFold sel (l1 ++ l2) = mergeSet sel (aggFold sel l1) (aggFold sel l2) := by
  simp only [aggFold_canon, mergeSet_canon, List.filter_append, List.length_append, List.filterMap_append]
  congr 1
  apply List.map_congr_left
  intro sc _
  exact C05.colFold_append sc.op _ _ (filterMap_contrib_wf l1 sc) (filterMap_contrib_wf l2 sc)

/-! ### data -/

def dataCol (c : Col) : Bool := c.num.isSome ∨ c.str.isSome

theorem noData_eq_empty (c : Col) (h : dataCol c = false) : c = {} := by
  obtain ⟨n, s⟩ := c
  cases n <;> cases s <;> simp_all [dataCol]

theorem contrib_data (fs : Fields) (sc : SelCond) (k : Col) (h : contrib fs sc = some k) : dataCol k = true := by
  unfold contrib contribution at h
  cases hg : getField fs sc.field with
  | none => simp [hg] at h
  | some v =>
    simp only [hg] at h
    cases hop : sc.op <;> simp [hop] at h <;> (try (subst h; simp [dataCol]))
    all_goals (obtain ⟨n, _, rfl⟩ := h; simp [dataCol])

theorem combine_data_right (op : AggOp) (a k : Col) (hk : dataCol k = true) (hwf : C05.Col.Wf op k) (hop : op ≠ .undef) :
    dataCol (combine op a k) = true := by
  obtain ⟨an, as⟩ := a; obtain ⟨kn, ks⟩ := k
  cases op <;> cases an <;> cases kn <;> cases ks <;> simp_all [combine, dataCol, C05.Col.Wf, addNum, minNum, maxNum]

theorem fold_data (op : AggOp) (ks : List Col) (c : Col) (hk : ∀ k ∈ ks, dataCol k = true ∧ C05.Col.Wf op k)
    (hop : op ≠ .undef) (hne : ks ≠ []) : dataCol (ks.foldl (combine op) c) = true := by
  induction ks generalizing c with
  | nil => exact absurd rfl hne
  | cons k rest ih =>
    simp only [List.foldl_cons]
    by_cases hr : rest = []
    · subst hr
      exact combine_data_right op c k (hk k (by simp)).1 (hk k (by simp)).2 hop
    · exact ih _ (fun x hx => hk x (List.mem_cons_of_mem _ hx)) hr

theorem contrib_op_ne_undef (fs : Fields) (sc : SelCond) (k : Col) (h : contrib fs sc = some k) : sc.op ≠ .undef := by
  intro hu
  unfold contrib contribution at h
  cases hg : getField fs sc.field <;> simp [hg, hu] at h

/-- a set without data is the empty set: no line contributed anything -/
theorem aggFold_noData (sel : List SelCond) (ls : List Fields) (h : hasData (aggFold sel ls) = false) :
    aggFold sel ls = emptySet sel.length := by
  rw [aggFold_canon] at h ⊢
  rw [emptySet_canon]
  simp only [hasData, List.any_map, List.any_eq_false, Function.comp_def] at h
  have hcols : ∀ sc ∈ sel, (ls.filterMap fun fs => contrib fs sc) = [] := by
    intro sc hsc
    by_cases hne : (ls.filterMap fun fs => contrib fs sc) = []
    · exact hne
    · exfalso
      obtain ⟨k, hk⟩ := List.exists_mem_of_ne_nil _ hne
      obtain ⟨fs, _, hfs⟩ := List.mem_filterMap.1 hk
      have hop := contrib_op_ne_undef fs sc k hfs
      have := fold_data sc.op _ ({} : Col)
        (fun x hx => by
          obtain ⟨fs', _, hfs'⟩ := List.mem_filterMap.1 hx
          exact ⟨contrib_data fs' sc x hfs', contrib_wf fs' sc x hfs'⟩) hop hne
      have hno : dataCol (C05.colFold sc.op (ls.filterMap fun fs => contrib fs sc)) = false := by
        have := h sc hsc
        simpa [dataCol] using this
      have this' : dataCol (C05.colFold sc.op (ls.filterMap fun fs => contrib fs sc)) = true := this
      rw [this'] at hno
      cases hno
  congr 1
  · have : ls.filter (contributes sel) = [] := by
      apply List.filter_eq_nil_iff.2
      intro fs hfs hc
      simp only [contributes, List.any_eq_true] at hc
      obtain ⟨sc, hsc, hsome⟩ := hc
      obtain ⟨k, hk⟩ := Option.isSome_iff_exists.1 hsome
      have : k ∈ ls.filterMap fun fs => contrib fs sc := List.mem_filterMap.2 ⟨fs, hfs, hk⟩
      rw [hcols sc hsc] at this
      simp at this
    simp [this]
  · apply List.map_congr_left
    intro sc hsc
    simp [hcols sc hsc, C05.colFold]

theorem aggFold_wf_col (sel : List SelCond) (ls : List Fields) (sc : SelCond) :
    C05.Col.Wf sc.op (C05.colFold sc.op (ls.filterMap fun fs => contrib fs sc)) := by
  have hwf0 : C05.Col.Wf sc.op ({} : Col) := by cases sc.op <;> simp [C05.Col.Wf]
  exact (C05.foldl_combine_from sc.op {} _ hwf0 (filterMap_contrib_wf ls sc)).2

/-- merging the empty set into the aggregate set of some lines changes nothing -/
theorem mergeSet_empty_right (sel : List SelCond) (ls : List Fields) :
    mergeSet sel (aggFold sel ls) (emptySet sel.length) = aggFold sel ls := by
  rw [aggFold_canon, emptySet_canon, mergeSet_canon]
  congr 1
  apply List.map_congr_left
  intro sc _
  exact (C05.combine_empty sc.op _ (aggFold_wf_col sel ls sc)).1

theorem hasData_append (sel : List SelCond) (l1 l2 : List Fields) (h : hasData (aggFold sel l2) = true) :
    hasData (aggFold sel (l1 ++ l2)) = true := by
  rw [aggFold_canon] at h ⊢
  simp only [hasData, List.any_map, List.any_eq_true, Function.comp_def] at h ⊢
  obtain ⟨sc, hsc, hd⟩ := h
  refine ⟨sc, hsc, ?_⟩
  have hne : (l2.filterMap fun fs => contrib fs sc) ≠ [] := by
    intro he
    rw [he] at hd
    simp [C05.colFold] at hd
  have hne' : ((l1 ++ l2).filterMap fun fs => contrib fs sc) ≠ [] := by
    rw [List.filterMap_append]
    intro he
    exact hne (List.append_eq_nil_iff.1 he).2
  obtain ⟨k, hk⟩ := List.exists_mem_of_ne_nil _ hne
  obtain ⟨fs, _, hfs⟩ := List.mem_filterMap.1 hk
  have := fold_data sc.op _ ({} : Col)
    (fun x hx => by
      obtain ⟨fs', _, hfs'⟩ := List.mem_filterMap.1 hx
      exact ⟨contrib_data fs' sc x hfs', contrib_wf fs' sc x hfs'⟩) (contrib_op_ne_undef fs sc k hfs) hne'
  simpa [dataCol, C05.colFold] using this

/-! ### the pipeline -/

/-- what the final result holds for a group after the lines `ls` (of all groups) were seen: the
    aggregate set of the group's lines, if it carries data -/
def dataSet (sel : List SelCond) (gb : List Bytes) (k : Bytes) (ls : List Fields) : Option AggSet :=
  let s := aggFold sel (linesOf gb k ls)
  if hasData s then some s else none

theorem aggFold_nil_noData (sel : List SelCond) : hasData (aggFold sel []) = false := by
  rw [aggFold_canon]
  simp [hasData, C05.colFold]

/-- a transmitted partial result, looked up by group -/
theorem lookup_transmitted_serverPartial (sel : List SelCond) (gb : List Bytes) (k : Bytes) (p : List Fields) :
    lookup (transmitted (serverPartial sel gb p)) k = dataSet sel gb k p := by
  rw [transmitted_eq, lookup_filter _ _ _ (nodup_serverPartial sel gb p), lookup_serverPartial]
  unfold dataSet
  by_cases hl : linesOf gb k p = []
  · simp [hl, aggFold_nil_noData, Option.filter]
  · simp only [hl, if_false, Option.filter]

theorem central_lookup (sel : List SelCond) (gb : List Bytes) (k : Bytes) (ls : List Fields) :
    lookup (central sel gb ls) k = dataSet sel gb k ls :=
  lookup_transmitted_serverPartial sel gb k ls

theorem linesOf_append (gb : List Bytes) (k : Bytes) (a b : List Fields) :
    linesOf gb k (a ++ b) = linesOf gb k a ++ linesOf gb k b := by
  simp [linesOf]

/-- one more partial result merged into a global group that represents the lines seen so far -/
theorem merge_step (sel : List SelCond) (gb : List Bytes) (g : Groups) (seen p : List Fields)
    (hg : ∀ k, lookup g k = dataSet sel gb k seen) :
    ∀ k, lookup (mergeGroups sel g (transmitted (serverPartial sel gb p))) k = dataSet sel gb k (seen ++ p) := by
  intro k
  have hb : (keys (transmitted (serverPartial sel gb p))).Nodup := by
    rw [transmitted_eq]; exact keys_filter_nodup _ _ (nodup_serverPartial sel gb p)
  rw [lookup_mergeGroups _ _ _ _ hb, lookup_transmitted_serverPartial, hg k]
  unfold dataSet
  simp only [linesOf_append]
  generalize linesOf gb k seen = l0
  generalize linesOf gb k p = lp
  by_cases hp : hasData (aggFold sel lp) = true
  · -- the partial carries the group: merged into what is there (or into the empty set)
    simp only [hp, if_true]
    have hd := hasData_append sel l0 lp hp
    simp only [hd, if_true]
    by_cases h0 : hasData (aggFold sel l0) = true
    · simp [h0, aggFold_append]
    · have h0' : hasData (aggFold sel l0) = false := by simpa using h0
      simp only [h0', Bool.false_eq_true, if_false, Option.getD_none]
      rw [aggFold_append, aggFold_noData sel l0 h0']
  · -- the partial does not carry the group (no line of it, or none that contributed)
    have hp' : hasData (aggFold sel lp) = false := by simpa using hp
    simp only [hp', Bool.false_eq_true, if_false]
    rw [aggFold_append, aggFold_noData sel lp hp', mergeSet_empty_right]

/-- **Distributed = central, the whole pipeline.**  For every select list, every group-by list and
    every list of partial results — the lines cut into servers × files × serialisation intervals in
    any way, empty parts included, merged in arrival order — the client's global group holds for
    every group key exactly what one central evaluation over all lines holds. -/
theorem distributed_eq_central (sel : List SelCond) (gb : List Bytes) (parts : List (List Fields)) (k : Bytes) :
    lookup (distributed sel gb parts) k = lookup (central sel gb parts.flatten) k := by
  rw [central_lookup]
  have gen : ∀ (parts : List (List Fields)) (g : Groups) (seen : List Fields),
      (∀ k, lookup g k = dataSet sel gb k seen) →
      ∀ k, lookup (parts.foldl (fun g p => mergeGroups sel g (transmitted (serverPartial sel gb p))) g) k
        = dataSet sel gb k (seen ++ parts.flatten) := by
    intro parts
    induction parts with
    | nil => intro g seen hg k; simpa using hg k
    | cons p rest ih =>
      intro g seen hg k
      simp only [List.foldl_cons, List.flatten_cons]
      rw [← List.append_assoc]
      exact ih _ (seen ++ p) (merge_step sel gb g seen p hg) k
  have := gen parts [] [] (by
    intro k
    simp [lookup, dataSet, linesOf, aggFold_nil_noData]) k
  simpa [distributed] using this

/-- the select list uses only operations whose merge is commutative (everything but last / len) -/
def CommOps (sel : List SelCond) : Prop :=
  ∀ sc ∈ sel, sc.op = .count ∨ sc.op = .sum ∨ sc.op = .avg ∨ sc.op = .min ∨ sc.op = .max

theorem aggFold_perm (sel : List SelCond) (hc : CommOps sel) (l l' : List Fields) (hp : l.Perm l') :
    aggFold sel l = aggFold sel l' := by
  simp only [aggFold_canon]
  congr 1
  · exact (hp.filter _).length_eq
  · apply List.map_congr_left
    intro sc hsc
    unfold C05.colFold
    apply List.Perm.foldl_eq' (hp.filterMap _)
    intro x _ y _ z
    rw [C05.combine_assoc, C05.combine_assoc, C05.combine_comm sc.op x y (hc sc hsc)]

/-- **Arrival order is irrelevant for the whole pipeline** when the query uses count, sum, avg, min
    and max: the partial results of all servers may reach the client in any order. -/
theorem distributed_perm (sel : List SelCond) (gb : List Bytes) (hc : CommOps sel)
    (parts parts' : List (List Fields)) (hp : parts.Perm parts') (k : Bytes) :
    lookup (distributed sel gb parts) k = lookup (distributed sel gb parts') k := by
  rw [distributed_eq_central, distributed_eq_central, central_lookup, central_lookup]
  unfold dataSet
  have : aggFold sel (linesOf gb k parts.flatten) = aggFold sel (linesOf gb k parts'.flatten) :=
    aggFold_perm sel hc _ _ ((hp.flatten).filter _)
  rw [this]

end Dtail.AggPipe
