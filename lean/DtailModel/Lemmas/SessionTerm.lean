/-
Termination of the session LTS (C02): a measure that every step strictly decreases, hence a bound
on the length of every execution.
-/
import DtailModel.Lemmas.Session
namespace Dtail

/-- steps a command can still cause: dispatch, two per line not yet queued (queue + deliver), end -/
def wOf : CmdSt → Nat → Nat
  | .notSent, n => 2 * n + 2
  | .reading k, n => 2 * (n + 1 - k) + 1
  | .done, _ => 0

def weight : List CmdSt → List Nat → Nat
  | c :: cs, n :: ns => wOf c n + weight cs ns
  | _, _ => 0

def phaseRank : SPhase → Nat
  | .running => 3 | .flushing => 2 | .synQueued => 1 | .closed => 0

/-- the termination measure of a session -/
def sessMeasure (s : Sess) : Nat := weight s.cmds s.sizes + s.queue.length + phaseRank s.phase

theorem weight_set (cmds : List CmdSt) (sizes : List Nat) (c : Nat) (old new : CmdSt) (n : Nat)
    (hc : cmds[c]? = some old) (hn : sizes[c]? = some n) :
    weight (cmds.set c new) sizes + wOf old n = weight cmds sizes + wOf new n := by
  induction cmds generalizing sizes c with
  | nil => simp at hc
  | cons x xs ih =>
    cases sizes with
    | nil => simp at hn
    | cons m ms =>
      cases c with
      | zero =>
        simp only [List.getElem?_cons_zero, Option.some.injEq] at hc hn
        subst hc; subst hn
        simp only [List.set_cons_zero, weight]
        omega
      | succ c' =>
        simp only [List.getElem?_cons_succ] at hc hn
        have := ih ms c' hc hn
        simp only [List.set_cons_succ, weight]
        omega

theorem weight_init (sizes : List Nat) :
    weight (List.replicate sizes.length CmdSt.notSent) sizes = 2 * sizes.sum + 2 * sizes.length := by
  induction sizes with
  | nil => rfl
  | cons n ns ih =>
    simp only [List.length_cons, List.replicate_succ, weight, wOf, ih, List.sum_cons]
    omega

theorem phaseRank_afterFinish (cmds : List CmdSt) (p : SPhase) : phaseRank (phaseAfterFinish cmds p) ≤ phaseRank p := by
  unfold phaseAfterFinish
  split
  · rename_i h; rw [h.2]; simp [phaseRank]
  · exact Nat.le_refl _

/-- **every step of the session strictly decreases the measure** -/
theorem sessStep_decreases (s s' : Sess) (l : SLabel) (hi : SessInv s) (hs : sessStep s l = some s') :
    sessMeasure s' < sessMeasure s := by
  cases l with
  | recv c =>
    simp only [sessStep] at hs
    split at hs
    · rename_i h
      simp only [Option.some.injEq] at hs; subst hs
      have hlt : c < s.sizes.length := by rw [← hi.len]; exact (List.getElem?_eq_some_iff.1 h.2).1
      obtain ⟨n, hn⟩ : ∃ n, s.sizes[c]? = some n := ⟨_, List.getElem?_eq_getElem hlt⟩
      have := weight_set s.cmds s.sizes c .notSent (.reading 1) n h.2 hn
      simp only [sessMeasure, wOf] at this ⊢
      omega
    · simp at hs
  | push c =>
    simp only [sessStep] at hs
    cases hc : s.cmds[c]? with
    | none => simp [hc] at hs
    | some st =>
      cases st with
      | notSent => simp [hc] at hs
      | done => simp [hc] at hs
      | reading k =>
        cases hn : s.sizes[c]? with
        | none => simp [hc, hn] at hs
        | some n =>
          simp only [hc, hn] at hs
          split at hs
          · rename_i h
            simp only [Option.some.injEq] at hs; subst hs
            have := weight_set s.cmds s.sizes c (.reading k) (.reading (k + 1)) n hc hn
            simp only [sessMeasure, wOf, List.length_append, List.length_singleton] at this ⊢
            have hk := h.1
            omega
          · simp at hs
  | finish c =>
    simp only [sessStep] at hs
    cases hc : s.cmds[c]? with
    | none => simp [hc] at hs
    | some st =>
      cases st with
      | notSent => simp [hc] at hs
      | done => simp [hc] at hs
      | reading k =>
        cases hn : s.sizes[c]? with
        | none => simp [hc, hn] at hs
        | some n =>
          simp only [hc, hn] at hs
          split at hs
          · rename_i h
            simp only [Option.some.injEq] at hs; subst hs
            have := weight_set s.cmds s.sizes c (.reading k) .done n hc hn
            have hr := phaseRank_afterFinish (s.cmds.set c .done) s.phase
            simp only [sessMeasure, wOf] at this ⊢
            have hk := h.1
            omega
          · simp at hs
  | deliver =>
    simp only [sessStep] at hs
    cases hq : s.queue with
    | nil => simp [hq] at hs
    | cons x rest =>
      simp only [hq] at hs
      split at hs
      · simp only [Option.some.injEq] at hs; subst hs
        simp [sessMeasure, hq]
      · simp at hs
  | flushDone =>
    simp only [sessStep] at hs
    split at hs
    · rename_i h
      simp only [Option.some.injEq] at hs; subst hs
      simp [sessMeasure, h.1, phaseRank]
    · simp at hs
  | deliverSyn =>
    simp only [sessStep] at hs
    split at hs
    · rename_i h
      simp only [Option.some.injEq] at hs; subst hs
      simp [sessMeasure, h, phaseRank]
    · simp at hs

/-- the length of an execution is bounded by the measure it uses up -/
theorem sessRun_length (hist : List SLabel) (a b : Sess) (ha : SessInv a) (hr : sessRun a hist = some b) :
    sessMeasure b + hist.length ≤ sessMeasure a := by
  induction hist generalizing a with
  | nil => simp [sessRun] at hr; subst hr; simp
  | cons l rest ih =>
    simp only [sessRun] at hr
    cases hstep : sessStep a l with
    | none => simp [hstep] at hr
    | some a' =>
      simp only [hstep, Option.bind_some] at hr
      have h1 := sessStep_decreases a a' l ha hstep
      have h2 := ih a' (sessStep_inv a a' l ha hstep) hr
      simp only [List.length_cons]
      omega

theorem sessMeasure_init (sizes : List Nat) : sessMeasure (sessInit sizes) = 2 * sizes.sum + 2 * sizes.length + 3 := by
  simp [sessMeasure, sessInit, weight_init, phaseRank]

end Dtail
