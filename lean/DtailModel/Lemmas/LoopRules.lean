/-
Proof rules for translated loops and guards (`goRange`, `goWhile`, `if`-chains, `Outcome`) that mention no translated unit:
taken out of `GenQuery.lean` so that lemma files about other units (`GenOptions`, C12) do not depend on the proofs about the
query parser — a change to `internal/mapr` that breaks one of those must not stop C12's theorems from checking.
-/
import DtailModel.Generated.Code
import DtailModel.Lemmas.GoRT

namespace Dtail.GenQuery
open Dtail Dtail.Go

/-- a loop all of whose early returns, and whose normal end, satisfy `P` -/
theorem goRange_rule {α ρ σ : Type} (P : ρ → Prop) (l : List α) (body : σ → α → LoopStep ρ σ) (after : σ → ρ)
    (hbody : ∀ s x, x ∈ l → ∀ r, body s x = .ret r → P r) (hafter : ∀ s, P (after s)) (s0 : σ) :
    P (goRange l s0 body after) := by
  induction l generalizing s0 with
  | nil => exact hafter s0
  | cons x xs ih =>
    rw [goRange_cons]
    cases hb : body s0 x with
    | ret r => exact hbody s0 x (by simp) r hb
    | next s => exact ih (fun s x hx => hbody s x (by simp [hx])) s
    | brk s => exact hafter s

theorem mem_goEnum {α : Type} (l : List α) (i : Int) (x : α) (h : (i, x) ∈ goEnum l) : 0 ≤ i ∧ i < (l.length : Int) := by
  unfold goEnum at h
  obtain ⟨⟨a, k⟩, hm, he⟩ := List.mem_map.1 h
  simp only [Prod.mk.injEq] at he
  obtain ⟨rfl, rfl⟩ := he
  have := List.mem_zipIdx hm
  simp at this
  omega

theorem ite_rule {α : Type} (P : α → Prop) {c : Prop} [Decidable c] {a b : α} (ha : c → P a) (hb : ¬c → P b) :
    P (if c then a else b) := by
  by_cases h : c
  · rw [if_pos h]; exact ha h
  · rw [if_neg h]; exact hb h

/-- what one round of a loop may do: return a good value, go on in a good state, or leave the loop for a good end -/
def StepOk {ρ σ : Type} (P : ρ → Prop) (I : σ → Prop) (after : σ → ρ) : LoopStep ρ σ → Prop
  | .ret r => P r
  | .next s => I s
  | .brk s => P (after s)

/-- a loop with an invariant over the state and the elements still to come -/
theorem goRange_inv {α ρ σ : Type} (P : ρ → Prop) (I : σ → List α → Prop) (body : σ → α → LoopStep ρ σ) (after : σ → ρ)
    (hbody : ∀ s x xs, I s (x :: xs) → StepOk P (fun s' => I s' xs) after (body s x))
    (hafter : ∀ s, I s [] → P (after s)) :
    ∀ l s0, I s0 l → P (goRange l s0 body after) := by
  intro l
  induction l with
  | nil => intro s0 h; exact hafter s0 h
  | cons x xs ih =>
    intro s0 h
    rw [goRange_cons]
    have hb := hbody s0 x xs h
    cases hbs : body s0 x with
    | ret r => rw [hbs] at hb; exact hb
    | next s => rw [hbs] at hb; exact ih s hb
    | brk s => rw [hbs] at hb; exact hb

theorem length_goEnum {α : Type} (l : List α) : (goEnum l).length = l.length := by simp [goEnum]

/-- the function returned a value (possibly with a Go `error` in it): it did not panic -/
def IsOk {α : Type} (o : Outcome α) : Prop := ∃ v, o = .ok v

theorem len_ne_two {α : Type} (l : List α) (h : ((GoLen.len l : Int) != 2) = false) : l.length = 2 := by
  have : (GoLen.len l : Int) = (l.length : Int) := rfl
  rw [this] at h
  simp at h
  omega

theorem IsOk_ite {α : Type} {c : Prop} [Decidable c] {a b : Outcome α} (ha : c → IsOk a) (hb : ¬c → IsOk b) :
    IsOk (if c then a else b) := by
  by_cases h : c
  · rw [if_pos h]; exact ha h
  · rw [if_neg h]; exact hb h

theorem inRange_of_len {α : Type} (l : List α) (i : Int) (h0 : 0 ≤ i) (h : i < (l.length : Int)) : goInRange l i = true := by
  simp only [goInRange, decide_eq_true_eq]
  exact ⟨h0, h⟩

theorem sliceOk_of_len {α : Type} (l : List α) (lo : Int) (h0 : 0 ≤ lo) (h : lo ≤ (l.length : Int)) :
    goSliceOk l lo (GoLen.len l) = true := by
  have : (GoLen.len l : Int) = (l.length : Int) := rfl
  simp only [goSliceOk, this, decide_eq_true_eq]
  omega

theorem goWhile_rule {ρ σ : Type} (P : ρ → Prop) (μ : σ → Nat) (cond : σ → Bool) (body : σ → LoopStep ρ σ) (after : σ → ρ) (out : ρ)
    (hbody : ∀ s, cond s = true → match body s with | .ret r => P r | .next s' => μ s' < μ s | .brk s' => P (after s'))
    (hafter : ∀ s, P (after s)) :
    ∀ fuel s, μ s < fuel → P (goWhile fuel s cond body after out) := by
  intro fuel
  induction fuel with
  | zero => intro s h; omega
  | succ n ih =>
    intro s h
    unfold goWhile
    by_cases hc : cond s = true
    · rw [if_pos hc]
      have hb := hbody s hc
      cases hbs : body s with
      | ret r => rw [hbs] at hb; exact hb
      | next s' => rw [hbs] at hb; exact ih s' (by omega)
      | brk s' => rw [hbs] at hb; exact hb
    · rw [if_neg hc]; exact hafter s

/-- a `for cond` loop with an invariant and a measure that every further round decreases -/
theorem goWhile_inv {ρ σ : Type} (P : ρ → Prop) (I : σ → Prop) (μ : σ → Nat) (cond : σ → Bool) (body : σ → LoopStep ρ σ)
    (after : σ → ρ) (out : ρ)
    (hbody : ∀ s, I s → cond s = true → StepOk P (fun s' => I s' ∧ μ s' < μ s) after (body s))
    (hafter : ∀ s, I s → P (after s)) :
    ∀ fuel s, I s → μ s < fuel → P (goWhile fuel s cond body after out) := by
  intro fuel
  induction fuel with
  | zero => intro s _ h; omega
  | succ n ih =>
    intro s hI h
    unfold goWhile
    by_cases hc : cond s = true
    · rw [if_pos hc]
      have hb := hbody s hI hc
      cases hbs : body s with
      | ret r => rw [hbs] at hb; exact hb
      | next s' => rw [hbs] at hb; exact ih s' hb.1 (by have := hb.2; omega)
      | brk s' => rw [hbs] at hb; exact hb
    · rw [if_neg hc]; exact hafter s hI

theorem len_list {α : Type} (l : List α) : (GoLen.len l : Int) = (l.length : Int) := rfl

theorem guard_rule {α : Type} (P : α → Prop) {c : Prop} [Decidable c] {a b : α} (hc : c) (ha : P a) : P (if c then a else b) := by
  rw [if_pos hc]; exact ha

macro "guard_tac" : tactic => `(tactic| (
  simp only [goInRange, goSliceOk, len_list, decide_eq_true_eq, beq_iff_eq, Bool.not_eq_true, decide_eq_false_iff_not,
    bne_iff_ne, ne_eq, beq_eq_false_iff_ne] at *
  omega))

end Dtail.GenQuery
