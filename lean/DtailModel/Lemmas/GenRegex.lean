/-
Tie G for internal/regex (regex.go, flag.go): theorems about the code as /verif/extract translated it from
the working tree on this run (`Generated/Code.lean`, namespace `Dtail.Gen.Regex`).  They are stated directly
on the translated functions: what `Match` computes, what `New` / `Serialize` / `Deserialize` build, and the
round trip C12 is about — the filter the server decodes selects the same lines as the one the client built.
-/
import DtailModel.Generated.Code
import DtailModel.Lemmas.GoRT
import DtailModel.Lemmas.GoStr
import DtailModel.Lemmas.Command
set_option autoImplicit false
namespace Dtail.GenRegex
open Dtail Dtail.Go Dtail.Gen.Regex

/-- how a flag turns the engine's answer into the selection bit -/
def flagBit (c : Flag) (engine : Bool) : Bool :=
  if c = Default then engine else if c = Invert then !engine else if c = Noop then true else false

/-- **`Match` is the first flag applied to the regexp engine's answer — nothing else decides.** -/
theorem Match_spec (ext : Ext) (r : Regex) (line : GoString) :
    Regex.Match ext r line = flagBit (GoIndex.idx r.flags 0) (ext.reMatchRaw r.re line) := by
  unfold Regex.Match flagBit
  by_cases h1 : (GoIndex.idx r.flags 0 : Flag) = Default
  · simp [h1]
  · by_cases h2 : (GoIndex.idx r.flags 0 : Flag) = Invert
    · simp [h1, h2]
    · by_cases h3 : (GoIndex.idx r.flags 0 : Flag) = Noop <;> simp [h1, h2, h3]

/-- the names of the three real flags -/
def flagName (c : Flag) : GoString := Flag.String ({ parseFloat := fun _ => (0, none) } : Ext) c

theorem flagString_indep (ext : Ext) (c : Flag) : Flag.String ext c = flagName c := rfl

theorem NewFlag_String (ext : Ext) (c : Flag) (h : c = Default ∨ c = Invert ∨ c = Noop) :
    NewFlag ext (flagName c) = (c, none) := by
  rcases h with rfl | rfl | rfl <;> rfl

theorem flagName_nosep (c : Flag) : (32 : UInt8) ∉ flagName c ∧ (58 : UInt8) ∉ flagName c ∧ (44 : UInt8) ∉ flagName c := by
  unfold flagName Flag.String
  split
  · decide
  · split
    · decide
    · split <;> decide

/-- `new` with a compilable expression and a given flag list -/
theorem new_spec (ext : Ext) (w : GoString) (flags : List Flag) (hne : flags ≠ []) (hc : (ext.reCompile w).2 = none) :
    Gen.Regex.new ext w flags = ({ regexStr := w, re := (ext.reCompile w).1, flags := flags, initialized := true }, none) := by
  unfold Gen.Regex.new
  have hl : ((GoLen.len flags : Int) == 0) = false := by
    cases flags with
    | nil => exact absurd rfl hne
    | cons a as => simp [GoLen.len]; omega
  have h1 : ext.reCompile w = ((ext.reCompile w).1, none) := Prod.ext rfl hc
  simp only [hl]
  rw [h1]
  simp [hc]

/-- **what the client builds**: the three no-op patterns give the Noop regex, everything else its compiled
    expression under the one flag -/
theorem New_spec (ext : Ext) (p : GoString) (c : Flag) (hc : (ext.reCompile p).2 = none) :
    New ext p c =
      if p = [] ∨ p = [46] ∨ p = [46, 42] then (NewNoop ext, none)
      else ({ regexStr := p, re := (ext.reCompile p).1, flags := [c], initialized := true }, none) := by
  unfold New
  by_cases h : p = [] ∨ p = [46] ∨ p = [46, 42]
  · rw [if_pos h]
    rcases h with rfl | rfl | rfl <;> rfl
  · rw [if_neg h]
    have : (((p == ([] : GoString)) || (p == ([46] : GoString))) || (p == ([46, 42] : GoString))) = false := by
      simp only [not_or] at h
      simp [h.1, h.2.1, h.2.2]
    simp only [this]
    exact new_spec ext p [c] (by simp) hc

theorem serialize_loop (ext : Ext) (l : List Flag) (acc : List GoString) (after : List GoString → GoString × GoErr) :
    goRange l acc (fun flags flag => LoopStep.next (flags ++ [Flag.String ext flag])) after =
      after (acc ++ l.map flagName) := by
  induction l generalizing acc with
  | nil => simp [goRange]
  | cons x xs ih =>
    simp only [goRange]
    rw [ih]
    simp [flagString_indep]

/-- **what goes on the wire**: `regex:<flag names joined by ','> <expression>` -/
theorem Serialize_spec (ext : Ext) (r : Regex) (hi : r.initialized = true) :
    Regex.Serialize ext r =
      (([114, 101, 103, 101, 120, 58] : GoString) ++ joinByte 44 (r.flags.map flagName) ++ [32] ++ r.regexStr, none) := by
  unfold Regex.Serialize
  have := serialize_loop ext r.flags (GoZero.zero : List GoString)
  simp only [this, hi]
  simp [GoZero.zero]

/-- a real flag: one of the three names the wire format knows -/
def RealFlag (c : Flag) : Prop := c = Default ∨ c = Invert ∨ c = Noop

theorem deserialize_loop (ext : Ext) (codes : List Flag) (hreal : ∀ c ∈ codes, RealFlag c) (acc : List Flag)
    (after : List Flag → Regex × GoErr) :
    goRange (codes.map flagName) acc
      (fun flags flagStr =>
        let (_t2, _t3) := NewFlag ext flagStr
        let flag := _t2
        let err := _t3
        if (err != none) then LoopStep.next flags else
          let flags := flags ++ [flag]
          LoopStep.next flags) after = after (acc ++ codes) := by
  induction codes generalizing acc with
  | nil => simp [goRange]
  | cons c cs ih =>
    have hc := NewFlag_String ext c (hreal c (by simp))
    simp only [List.map_cons, goRange, hc]
    simp only [bne_self_eq_false, Bool.false_eq_true, if_false]
    rw [ih (fun x hx => hreal x (List.mem_cons_of_mem _ hx))]
    simp

theorem splitN_2 (sep : UInt8) (s : Bytes) : splitN sep 2 s = splitN2 sep s := rfl

/-- the flag part of the wire form: `regex:` followed by the flag names joined by ',' -/
def flagsPart (codes : List Flag) : GoString := ([114, 101, 103, 101, 120, 58] : GoString) ++ joinByte 44 (codes.map flagName)

theorem flagsPart_nospace (codes : List Flag) : (32 : UInt8) ∉ flagsPart codes := by
  unfold flagsPart
  apply not_mem_append (by decide)
  apply not_mem_joinByte 32 44 _ (by decide)
  intro y hy
  obtain ⟨c, _, rfl⟩ := List.mem_map.1 hy
  exact (flagName_nosep c).1

theorem names_nocomma (codes : List Flag) : ∀ y ∈ codes.map flagName, (44 : UInt8) ∉ y := by
  intro y hy
  obtain ⟨c, _, rfl⟩ := List.mem_map.1 hy
  exact (flagName_nosep c).2.2

theorem names_nocolon (codes : List Flag) : (58 : UInt8) ∉ joinByte 44 (codes.map flagName) := by
  apply not_mem_joinByte 58 44 _ (by decide)
  intro y hy
  obtain ⟨c, _, rfl⟩ := List.mem_map.1 hy
  exact (flagName_nosep c).2.1

/-- **what the server decodes from a wire form with real flags**: exactly `new` of the expression after the
    first blank and the flags in their order — for every expression (any bytes, blanks included) -/
theorem Deserialize_spec (ext : Ext) (codes : List Flag) (hne : codes ≠ []) (hreal : ∀ c ∈ codes, RealFlag c) (w : GoString) :
    Deserialize ext (flagsPart codes ++ [32] ++ w) = Gen.Regex.new ext w codes := by
  unfold Deserialize
  have hsplit : splitN 32 2 (flagsPart codes ++ [32] ++ w) = [flagsPart codes, w] := by
    rw [splitN_2]
    have : flagsPart codes ++ [32] ++ w = flagsPart codes ++ 32 :: w := by simp
    rw [this]
    exact splitN2_append_sep 32 _ _ (flagsPart_nospace codes)
  simp only [hsplit]
  have hlen : decide ((GoLen.len [flagsPart codes, w] : Int) < 2) = false := by simp [GoLen.len]
  simp only [hlen, Bool.false_eq_true, if_false]
  have hi0 : (GoIndex.idx [flagsPart codes, w] (0 : Int) : GoString) = flagsPart codes := rfl
  have hi1 : (GoIndex.idx [flagsPart codes, w] (1 : Int) : GoString) = w := rfl
  simp only [hi0, hi1]
  have hpre : hasPrefix ([114, 101, 103, 101, 120] : GoString) (flagsPart codes) = true := by
    simp [hasPrefix, flagsPart]
  simp only [hpre, Bool.not_true, Bool.false_eq_true, if_false]
  have hcolon : List.contains (flagsPart codes) (58 : UInt8) = true := by
    simp [flagsPart]
  simp only [hcolon, if_true]
  have hsplit2 : splitN 58 2 (flagsPart codes) = [([114, 101, 103, 101, 120] : GoString), joinByte 44 (codes.map flagName)] := by
    rw [splitN_2]
    have : flagsPart codes = ([114, 101, 103, 101, 120] : GoString) ++ 58 :: joinByte 44 (codes.map flagName) := by
      simp [flagsPart]
    rw [this]
    exact splitN2_append_sep 58 _ _ (by decide)
  simp only [hsplit2]
  have hi1' : (GoIndex.idx [([114, 101, 103, 101, 120] : GoString), joinByte 44 (codes.map flagName)] (1 : Int) : GoString)
      = joinByte 44 (codes.map flagName) := rfl
  simp only [hi1']
  have hnames : splitOnByte 44 (joinByte 44 (codes.map flagName)) = codes.map flagName :=
    splitOnByte_joinByte 44 _ (by simpa using hne) (names_nocomma codes)
  rw [hnames]
  have := deserialize_loop ext codes hreal (GoZero.zero : List Flag) (fun flags => Gen.Regex.new ext w flags)
  simp only [GoZero.zero, List.nil_append] at this
  exact this

/-- **The round trip of C12 on the translated code.**  For every expression `p` (any bytes) that the regexp
    compiler accepts and either polarity: what the client builds with `New`, serialises with `Serialize` and the
    server rebuilds with `Deserialize` selects, with `Match`, exactly the lines the client's own filter selects —
    for every line.  No error occurs on the way. -/
theorem roundtrip (ext : Ext) (p : GoString) (c : Flag) (hc : c = Default ∨ c = Invert)
    (hcomp : (ext.reCompile p).2 = none) (hempty : (ext.reCompile []).2 = none) (line : GoString) :
    let cl := New ext p c
    let wire := Regex.Serialize ext cl.1
    let sv := Deserialize ext wire.1
    cl.2 = none ∧ wire.2 = none ∧ sv.2 = none ∧ Regex.Match ext sv.1 line = Regex.Match ext cl.1 line := by
  intro cl wire sv
  have hreal : RealFlag c := by rcases hc with h | h <;> simp [RealFlag, h]
  by_cases hnoop : p = [] ∨ p = [46] ∨ p = [46, 42]
  · -- the no-op patterns: both sides select every line
    have hcl : cl = (NewNoop ext, none) := by simp only [cl, New_spec ext p c hcomp, if_pos hnoop]
    have hwire : wire = (flagsPart [Noop] ++ [32] ++ [], none) := by
      simp only [wire, hcl]
      rw [Serialize_spec ext (NewNoop ext) rfl]
      rfl
    have hsv : sv = Gen.Regex.new ext [] [Noop] := by
      simp only [sv, hwire]
      exact Deserialize_spec ext [Noop] (by simp) (by intro x hx; simp at hx; subst hx; simp [RealFlag]) []
    have hnew := new_spec ext [] [Noop] (by simp) hempty
    rw [hnew] at hsv
    refine ⟨by rw [hcl], by rw [hwire], by rw [hsv], ?_⟩
    rw [hsv, hcl, Match_spec, Match_spec]
    rfl
  · have hcl : cl = ({ regexStr := p, re := (ext.reCompile p).1, flags := [c], initialized := true }, none) := by
      simp only [cl, New_spec ext p c hcomp, if_neg hnoop]
    have hwire : wire = (flagsPart [c] ++ [32] ++ p, none) := by
      simp only [wire, hcl]
      rw [Serialize_spec ext _ rfl]
      rfl
    have hsv : sv = Gen.Regex.new ext p [c] := by
      simp only [sv, hwire]
      exact Deserialize_spec ext [c] (by simp) (by intro x hx; simp at hx; subst hx; exact hreal) p
    rw [new_spec ext p [c] (by simp) hcomp] at hsv
    refine ⟨by rw [hcl], by rw [hwire], by rw [hsv], ?_⟩
    rw [hsv, hcl]

end Dtail.GenRegex
