import DtailModel.Model.Tail
import DtailModel.Lemmas.Reader
namespace Dtail

theorem readFrom_append (m : Nat) (s : RS) (a b : Bytes) :
    readFrom m s (a ++ b) = readFrom m (readFrom m s a) b := by
  simp [readFrom, List.foldl_append]

theorem tailRead_from (m : Nat) (chunks : List Bytes) (s : RS) :
    chunks.foldl (readFrom m) s = readFrom m s chunks.flatten := by
  induction chunks generalizing s with
  | nil => rfl
  | cons c rest ih => simp only [List.foldl_cons, List.flatten_cons, readFrom_append, ih]

/-- every line the reader has emitted so far is newline terminated (only the EOF flush of a
    cat reader can emit an unterminated line, and a tail reader never flushes) -/
theorem readFrom_out_terminated (m : Nat) (bs : Bytes) (s : RS)
    (h : ∀ l ∈ s.out, l.getLast? = some NL) : ∀ l ∈ (readFrom m s bs).out, l.getLast? = some NL := by
  induction bs generalizing s with
  | nil => exact h
  | cons b rest ih =>
    simp only [readFrom, List.foldl_cons]
    apply ih
    intro l hl
    unfold stepByte at hl
    by_cases hb : b = NL
    · simp only [hb, if_true, List.mem_append, List.mem_singleton] at hl
      rcases hl with hl | rfl
      · exact h l hl
      · simp
    · by_cases hk : (s.msg ++ [b]).length ≥ m
      · simp only [hb, if_false, hk, if_true, List.mem_append, List.mem_singleton] at hl
        rcases hl with hl | rfl
        · exact h l hl
        · simp
      · simp only [hb, if_false, hk] at hl
        exact h l hl

/-! ### the statistics ring -/

theorem countTrue_set (l : List Bool) (i : Nat) (v : Bool) (h : i < l.length) :
    countTrue (l.set i v) + (if l.getD i false then 1 else 0) = countTrue l + (if v then 1 else 0) := by
  induction l generalizing i with
  | nil => simp at h
  | cons a rest ih =>
    cases i with
    | zero =>
      simp only [List.set_cons_zero, countTrue, List.filter_cons, List.getD_cons_zero]
      cases a <;> cases v <;> simp
    | succ j =>
      simp only [List.length_cons, Nat.add_lt_add_iff_right] at h
      have := ih j h
      simp only [List.set_cons_succ, countTrue, List.filter_cons, List.getD_eq_getElem?_getD,
        List.getElem?_cons_succ] at this ⊢
      cases a <;> simp <;> omega

/-- the ring invariant: the two counters count the set flags, a transmitted slot is a matched
    slot, the position is inside the ring -/
def StatsInv (s : Stats) : Prop :=
  s.matched.length = ringSize ∧ s.transmitted.length = ringSize ∧
  s.matchCount = countTrue s.matched ∧ s.transmitCount = countTrue s.transmitted ∧
  (∀ i, s.transmitted.getD i false = true → s.matched.getD i false = true) ∧ s.pos < ringSize

theorem countTrue_le_of_imp (a b : List Bool) (hl : a.length = b.length)
    (h : ∀ i, a.getD i false = true → b.getD i false = true) : countTrue a ≤ countTrue b := by
  induction a generalizing b with
  | nil => simp [countTrue]
  | cons x xs ih =>
    cases b with
    | nil => simp at hl
    | cons y ys =>
      simp only [List.length_cons, Nat.add_right_cancel_iff] at hl
      have hrest := ih ys hl (fun i hi => by simpa using h (i + 1) (by simpa using hi))
      have h0 := h 0
      simp only [List.getD_cons_zero] at h0
      simp only [countTrue, List.filter_cons] at hrest ⊢
      cases x <;> cases y <;> simp_all <;> omega

/-- a slot that is matched but not transmitted makes the counters differ -/
theorem countTrue_lt_of_gap (a b : List Bool) (hl : a.length = b.length)
    (h : ∀ i, a.getD i false = true → b.getD i false = true)
    (p : Nat) (hp : b.getD p false = true ∧ a.getD p false = false) : countTrue a < countTrue b := by
  induction a generalizing b p with
  | nil =>
    cases b with
    | nil => simp at hp
    | cons y ys => simp at hl
  | cons x xs ih =>
    cases b with
    | nil => simp at hl
    | cons y ys =>
      simp only [List.length_cons, Nat.add_right_cancel_iff] at hl
      have himp : ∀ i, xs.getD i false = true → ys.getD i false = true :=
        fun i hi => by simpa using h (i + 1) (by simpa using hi)
      have hle := countTrue_le_of_imp xs ys hl himp
      have h0 := h 0
      simp only [List.getD_cons_zero] at h0
      cases p with
      | zero =>
        simp only [List.getD_cons_zero] at hp
        obtain ⟨rfl, rfl⟩ := hp
        simp only [countTrue, List.filter_cons] at hle ⊢
        simp; omega
      | succ q =>
        have := ih ys hl himp q (by simpa using hp)
        simp only [countTrue, List.filter_cons] at this ⊢
        cases x <;> cases y <;> simp_all <;> omega

end Dtail

namespace Dtail

theorem getD_set (l : List Bool) (i j : Nat) (v : Bool) (h : i < l.length) :
    (l.set i v).getD j false = if j = i then v else l.getD j false := by
  simp only [List.getD_eq_getElem?_getD, List.getElem?_set]
  by_cases hj : i = j
  · subst hj; simp [h]
  · have : ¬ j = i := fun e => hj e.symm
    simp [hj, this]

structure FlagSpec (flags flags' : List Bool) (cnt' : Nat) (pos : Nat) (v : Bool) : Prop where
  len : flags'.length = flags.length
  get : ∀ j, flags'.getD j false = if j = pos then v else flags.getD j false
  cnt : cnt' = countTrue flags'

theorem setMatched_spec (s : Stats) (v : Bool) (hp : s.pos < s.matched.length)
    (hc : s.matchCount = countTrue s.matched) :
    FlagSpec s.matched (setMatched s v).matched (setMatched s v).matchCount s.pos v
    ∧ (setMatched s v).transmitted = s.transmitted ∧ (setMatched s v).transmitCount = s.transmitCount
    ∧ (setMatched s v).pos = s.pos ∧ (setMatched s v).lineCount = s.lineCount := by
  by_cases hold : s.matched.getD s.pos false = v
  · have hs : setMatched s v = s := by unfold setMatched; simp only [hold, if_true]
    rw [hs]
    refine ⟨⟨rfl, ?_, hc⟩, rfl, rfl, rfl, rfl⟩
    intro j; by_cases hj : j = s.pos
    · rw [hj, if_pos rfl]; exact hold
    · rw [if_neg hj]
  · unfold setMatched
    rw [if_neg hold]
    refine ⟨⟨?_, ?_, ?_⟩, rfl, rfl, rfl, rfl⟩
    · show (s.matched.set s.pos v).length = s.matched.length
      simp
    · intro j
      show (s.matched.set s.pos v).getD j false = _
      exact getD_set _ _ _ _ hp
    · show (if v then s.matchCount + 1 else s.matchCount - 1) = countTrue (s.matched.set s.pos v)
      have := countTrue_set s.matched s.pos v hp
      cases v <;> cases ho : s.matched.getD s.pos false <;> simp_all <;> omega

theorem setTransmitted_spec (s : Stats) (v : Bool) (hp : s.pos < s.transmitted.length)
    (hc : s.transmitCount = countTrue s.transmitted) :
    FlagSpec s.transmitted (setTransmitted s v).transmitted (setTransmitted s v).transmitCount s.pos v
    ∧ (setTransmitted s v).matched = s.matched ∧ (setTransmitted s v).matchCount = s.matchCount
    ∧ (setTransmitted s v).pos = s.pos ∧ (setTransmitted s v).lineCount = s.lineCount := by
  by_cases hold : s.transmitted.getD s.pos false = v
  · have hs : setTransmitted s v = s := by unfold setTransmitted; simp only [hold, if_true]
    rw [hs]
    refine ⟨⟨rfl, ?_, hc⟩, rfl, rfl, rfl, rfl⟩
    intro j; by_cases hj : j = s.pos
    · rw [hj, if_pos rfl]; exact hold
    · rw [if_neg hj]
  · unfold setTransmitted
    rw [if_neg hold]
    refine ⟨⟨?_, ?_, ?_⟩, rfl, rfl, rfl, rfl⟩
    · show (s.transmitted.set s.pos v).length = s.transmitted.length
      simp
    · intro j
      show (s.transmitted.set s.pos v).getD j false = _
      exact getD_set _ _ _ _ hp
    · show (if v then s.transmitCount + 1 else s.transmitCount - 1) = countTrue (s.transmitted.set s.pos v)
      have := countTrue_set s.transmitted s.pos v hp
      cases v <;> cases ho : s.transmitted.getD s.pos false <;> simp_all <;> omega

theorem ring_pos : 0 < ringSize ∧ Facts.statsRingModulus = ringSize := by decide

/-- what a line does to the ring: only the slot at the new position changes, to
    (matched, transmitted) = (false,false) / (true,false) / (true,true) by fate -/
theorem processLine_spec (canSkip : Bool) (s : Stats) (isMatch full : Bool) (h : StatsInv s) :
    let r := processLine canSkip s isMatch full
    let p := (s.pos + 1) % ringSize
    StatsInv r.1 ∧ r.1.pos = p ∧ r.1.lineCount = s.lineCount + 1
    ∧ (∀ j, j ≠ p → r.1.matched.getD j false = s.matched.getD j false ∧ r.1.transmitted.getD j false = s.transmitted.getD j false)
    ∧ r.1.matched.getD p false = (r.2.1 != .notMatched)
    ∧ r.1.transmitted.getD p false = (r.2.1 == .delivered)
    ∧ (r.2.1 = .notMatched ↔ isMatch = false)
    ∧ (r.2.1 = .dropped ↔ isMatch = true ∧ canSkip = true ∧ full = true) := by
  intro r p
  obtain ⟨hml, htl, hmc, htc, himp, hpos⟩ := h
  have hmod := ring_pos
  -- after updatePosition
  let u := updatePosition s
  have hup : u.pos = p := by simp [u, updatePosition, p, hmod.2]
  have hplt : p < ringSize := Nat.mod_lt _ hmod.1
  have hu_m : u.matched = s.matched := rfl
  have hu_t : u.transmitted = s.transmitted := rfl
  have hu_mc : u.matchCount = s.matchCount := rfl
  have hu_tc : u.transmitCount = s.transmitCount := rfl
  have hu_lc : u.lineCount = s.lineCount + 1 := rfl
  cases hmatch : isMatch with
  | false =>
    have hr : r = (setTransmitted (setMatched u false) false, .notMatched, 0, 0) := by
      simp [r, processLine, hmatch, u]
    obtain ⟨⟨l1, g1, c1⟩, t1, tc1, p1, lc1⟩ := setMatched_spec u false (by rw [hu_m, hml, hup]; exact hplt) (by rw [hu_mc, hu_m]; exact hmc)
    obtain ⟨⟨l2, g2, c2⟩, m2, mc2, p2, lc2⟩ := setTransmitted_spec (setMatched u false) false
      (by rw [t1, hu_t, htl, p1, hup]; exact hplt) (by rw [tc1, t1, hu_tc, hu_t]; exact htc)
    rw [hr]
    refine ⟨⟨by rw [m2, l1, hu_m, hml], by rw [l2, t1, hu_t, htl], by rw [mc2, m2]; exact c1, c2, ?_, by rw [p2, p1, hup]; exact hplt⟩,
      by rw [p2, p1, hup], by rw [lc2, lc1, hu_lc], ?_, ?_, ?_, by simp, by simp⟩
    · intro i hi
      rw [g2 i, p1, hup] at hi
      by_cases hip : i = p
      · simp [hip] at hi
      · simp only [hip, if_false] at hi
        rw [m2, g1 i, hup]; simp only [hip, if_false]
        rw [t1, hu_t] at hi; rw [hu_m]; exact himp i hi
    · intro j hj
      rw [m2, g1 j, hup, g2 j, p1, hup]; simp only [hj, if_false]
      rw [hu_m, t1, hu_t]; exact ⟨rfl, rfl⟩
    · rw [m2, g1 p, hup]; simp
    · rw [g2 p, p1, hup]; simp
  | true =>
    obtain ⟨⟨l1, g1, c1⟩, t1, tc1, p1, lc1⟩ := setMatched_spec u true (by rw [hu_m, hml, hup]; exact hplt) (by rw [hu_mc, hu_m]; exact hmc)
    by_cases hdrop : canSkip = true ∧ full = true
    · have hr : r = (setTransmitted (setMatched u true) false, .dropped, 0, 0) := by
        simp [r, processLine, hmatch, u, hdrop]
      obtain ⟨⟨l2, g2, c2⟩, m2, mc2, p2, lc2⟩ := setTransmitted_spec (setMatched u true) false
        (by rw [t1, hu_t, htl, p1, hup]; exact hplt) (by rw [tc1, t1, hu_tc, hu_t]; exact htc)
      rw [hr]
      refine ⟨⟨by rw [m2, l1, hu_m, hml], by rw [l2, t1, hu_t, htl], by rw [mc2, m2]; exact c1, c2, ?_, by rw [p2, p1, hup]; exact hplt⟩,
        by rw [p2, p1, hup], by rw [lc2, lc1, hu_lc], ?_, ?_, ?_, by simp, by simp [hdrop]⟩
      · intro i hi
        rw [g2 i, p1, hup] at hi
        by_cases hip : i = p
        · simp [hip] at hi
        · simp only [hip, if_false] at hi
          rw [m2, g1 i, hup]; simp only [hip, if_false]
          rw [t1, hu_t] at hi; rw [hu_m]; exact himp i hi
      · intro j hj
        rw [m2, g1 j, hup, g2 j, p1, hup]; simp only [hj, if_false]
        rw [hu_m, t1, hu_t]; exact ⟨rfl, rfl⟩
      · rw [m2, g1 p, hup]; simp
      · rw [g2 p, p1, hup]; simp
    · have hr : r = (setTransmitted (setMatched u true) true, .delivered,
          (setTransmitted (setMatched u true) true).lineCount,
          percentOf (setTransmitted (setMatched u true) true).matchCount (setTransmitted (setMatched u true) true).transmitCount) := by
        simp [r, processLine, hmatch, u, hdrop]
      obtain ⟨⟨l2, g2, c2⟩, m2, mc2, p2, lc2⟩ := setTransmitted_spec (setMatched u true) true
        (by rw [t1, hu_t, htl, p1, hup]; exact hplt) (by rw [tc1, t1, hu_tc, hu_t]; exact htc)
      rw [hr]
      refine ⟨⟨by rw [m2, l1, hu_m, hml], by rw [l2, t1, hu_t, htl], by rw [mc2, m2]; exact c1, c2, ?_, by rw [p2, p1, hup]; exact hplt⟩,
        by rw [p2, p1, hup], by rw [lc2, lc1, hu_lc], ?_, ?_, ?_, by simp, ?_⟩
      · intro i hi
        rw [g2 i, p1, hup] at hi
        rw [m2, g1 i, hup]
        by_cases hip : i = p
        · simp [hip]
        · simp only [hip, if_false] at hi ⊢
          rw [t1, hu_t] at hi; rw [hu_m]; exact himp i hi
      · intro j hj
        rw [m2, g1 j, hup, g2 j, p1, hup]; simp only [hj, if_false]
        rw [hu_m, t1, hu_t]; exact ⟨rfl, rfl⟩
      · rw [m2, g1 p, hup]; simp
      · rw [g2 p, p1, hup]; simp
      · simp only [reduceCtorEq, false_iff, not_and]
        intro _ hc hf; exact hdrop ⟨hc, hf⟩

end Dtail

namespace Dtail

theorem mod_step (a n : Nat) : (a % n + 1) % n = (a + 1) % n := Nat.mod_add_mod a n 1

theorem mod_ne_of_lt (x d n : Nat) (hd : 0 < d) (hdn : d < n) : x % n ≠ (x + d) % n := by
  intro e
  have h0 := Nat.sub_mod_eq_zero_of_mod_eq e.symm
  have hsub : x + d - x = d := by omega
  rw [hsub] at h0
  have := Nat.le_of_dvd hd (Nat.dvd_of_mod_eq_zero h0)
  omega

end Dtail

namespace Dtail

/-- a delivered line carries the percentage computed from the ring after its own slot is set -/
theorem processLine_delivered_perc (canSkip : Bool) (s : Stats) (isMatch full : Bool)
    (h : (processLine canSkip s isMatch full).2.1 = .delivered) :
    (processLine canSkip s isMatch full).2.2.2
      = percentOf (processLine canSkip s isMatch full).1.matchCount (processLine canSkip s isMatch full).1.transmitCount
    ∧ (processLine canSkip s isMatch full).2.2.1 = (processLine canSkip s isMatch full).1.lineCount := by
  unfold processLine at h ⊢
  cases isMatch with
  | false => simp at h
  | true =>
    by_cases hd : canSkip = true ∧ full = true
    · simp [hd] at h
    · simp [hd]

end Dtail
