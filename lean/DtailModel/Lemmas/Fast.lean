import DtailModel.Model.Fast
namespace Dtail

def relR (f : RSF) (s : RS) : Prop := f.rmsg.reverse = s.msg ∧ f.len = s.msg.length ∧ f.rout.reverse = s.out

theorem stepByteF_rel (m : Nat) (f : RSF) (s : RS) (b : UInt8) (h : relR f s) :
    relR (stepByteF m f b) (stepByte m s b) := by
  obtain ⟨msg, out⟩ := s
  obtain ⟨h1, h2, h3⟩ := h
  simp only at h1 h2 h3
  subst h1 h3
  have hlen : f.len = f.rmsg.length := by simpa using h2
  unfold stepByteF stepByte relR
  by_cases hb : b = NL
  · simp [hb]
  · by_cases hk : f.len + 1 ≥ m
    · have hk' : (f.rmsg.reverse ++ [b]).length ≥ m := by simp; omega
      simp only [hb, if_false, hk, if_true, hk']
      simp
    · have hk' : ¬ (f.rmsg.reverse ++ [b]).length ≥ m := by simp; omega
      simp only [hb, if_false, hk, hk']
      simp [hlen]

theorem foldl_stepByteF_rel (m : Nat) (bs : Bytes) (f : RSF) (s : RS) (h : relR f s) :
    relR (bs.foldl (stepByteF m) f) (bs.foldl (stepByte m) s) := by
  induction bs generalizing f s with
  | nil => exact h
  | cons b rest ih => exact ih _ _ (stepByteF_rel m f s b h)

/-- the fast reader is the model's reader -/
theorem readLinesF_eq (m : Nat) (bs : Bytes) : readLinesF m bs = readLines m bs := by
  have h := foldl_stepByteF_rel m bs ⟨[], 0, []⟩ ⟨[], []⟩ ⟨rfl, rfl, rfl⟩
  obtain ⟨h1, _, h3⟩ := h
  unfold readLinesF readLines readFrom eofFlush
  simp only
  by_cases he : (bs.foldl (stepByteF m) ⟨[], 0, []⟩).rmsg = []
  · have : (bs.foldl (stepByte m) ⟨[], []⟩).msg = [] := by rw [← h1, he]; rfl
    simp [he, this, h3]
  · have : ¬ (bs.foldl (stepByte m) ⟨[], []⟩).msg = [] := by
      rw [← h1]; intro h0; exact he (by simpa using h0)
    simp [he, this, h3, h1]

def relC (f : CSF) (s : CS) : Prop := f.rbuf.reverse = s.buf ∧ f.rmsgs.reverse = s.msgs

theorem clientByteF_rel (f : CSF) (s : CS) (b : UInt8) (h : relC f s) :
    relC (clientByteF f b) (clientByte s b) := by
  obtain ⟨buf, msgs⟩ := s
  obtain ⟨h1, h2⟩ := h
  simp only at h1 h2
  subst h1 h2
  unfold clientByteF clientByte relC
  by_cases hb : b = NL
  · simp [hb]
  · by_cases hd : b = DELIM
    · subst hd
      have hne : ¬ DELIM = NL := by decide
      simp [hne]
    · simp only [hb, if_false, hd]; simp

/-- the fast client is the model's client -/
theorem clientMsgsF_eq (bs : Bytes) : clientMsgsF bs = (clientFeed ⟨[], []⟩ bs).msgs := by
  have gen : ∀ (bs : Bytes) (f : CSF) (s : CS), relC f s → relC (bs.foldl clientByteF f) (bs.foldl clientByte s) := by
    intro bs
    induction bs with
    | nil => intro f s h; exact h
    | cons b rest ih => intro f s h; exact ih _ _ (clientByteF_rel f s b h)
  exact (gen bs ⟨[], []⟩ ⟨[], []⟩ ⟨rfl, rfl⟩).2

end Dtail

namespace Dtail

def relM (n : Nat) (f : MSF) (s : MultiState) : Prop :=
  f.rbufs.length = n ∧ (∀ j, j < n → ((f.rbufs[j]?).getD []).reverse = s.bufs j) ∧ f.rout.reverse = s.out

theorem getD_set_nil (l : List Bytes) (i j : Nat) (x : Bytes) (hi : i < l.length) :
    ((l.set i x)[j]?).getD [] = if j = i then x else (l[j]?).getD [] := by
  simp only [List.getElem?_set]
  by_cases h : i = j
  · subst h; simp [hi]
  · have h' : ¬ j = i := fun e => h e.symm
    simp [h, h']

theorem multiByteF_rel (n i : Nat) (hi : i < n) (f : MSF) (s : MultiState) (b : UInt8) (h : relM n f s) :
    relM n (multiByteF i f b) (multiByte i s b) := by
  obtain ⟨hl, hb, ho⟩ := h
  have hil : i < f.rbufs.length := by omega
  have hne : ¬ DELIM = NL := by decide
  have hbi := hb i hi
  unfold multiByteF multiByte relM
  by_cases h1 : b = NL
  · subst h1
    simp only [if_true]
    refine ⟨by simp [hl], ?_, ?_⟩
    · intro j hj
      rw [getD_set_nil _ _ _ _ hil]
      by_cases hji : j = i
      · simp [hji]
      · simp only [hji, if_false]; exact hb j hj
    · simp only [List.reverse_cons, ho]
      rw [← hbi]
  · by_cases h2 : b = DELIM
    · subst h2
      simp only [hne, if_false, if_true]
      refine ⟨by simp [hl], ?_, ?_⟩
      · intro j hj
        rw [getD_set_nil _ _ _ _ hil]
        by_cases hji : j = i
        · simp [hji]
        · simp only [hji, if_false]; exact hb j hj
      · simp only [List.reverse_cons, ho]
        rw [← hbi]
    · simp only [h1, if_false, h2]
      refine ⟨by simp [hl], ?_, ho⟩
      intro j hj
      rw [getD_set_nil _ _ _ _ hil]
      by_cases hji : j = i
      · subst hji; simp only [if_true, List.reverse_cons]; rw [← hbi]
      · simp only [hji, if_false]; exact hb j hj

theorem multiChunkF_rel (n : Nat) (c : Nat × Bytes) (hc : c.1 < n) (f : MSF) (s : MultiState) (h : relM n f s) :
    relM n (multiChunkF f c) (multiChunk s c) := by
  obtain ⟨i, bs⟩ := c
  unfold multiChunkF multiChunk
  simp only at hc ⊢
  induction bs generalizing f s with
  | nil => exact h
  | cons b rest ih => exact ih _ _ (multiByteF_rel n i hc f s b h)

/-- the driver's linear-time multi-connection client is the model's -/
theorem multiRunF_eq (n : Nat) (sched : List (Nat × Bytes)) (h : ∀ c ∈ sched, c.1 < n) :
    multiRunF n sched = (multiRun sched).out := by
  have gen : ∀ (sched : List (Nat × Bytes)) (f : MSF) (s : MultiState), (∀ c ∈ sched, c.1 < n) → relM n f s →
      relM n (sched.foldl multiChunkF f) (sched.foldl multiChunk s) := by
    intro sched
    induction sched with
    | nil => intro f s _ h; exact h
    | cons c rest ih =>
      intro f s hc h
      exact ih _ _ (fun d hd => hc d (List.mem_cons_of_mem _ hd))
        (multiChunkF_rel n c (hc c (by simp)) f s h)
  have h0 : relM n ⟨List.replicate n [], []⟩ multiInit := by
    refine ⟨by simp, ?_, rfl⟩
    intro j hj
    simp [multiInit, hj]
  exact (gen sched _ _ h h0).2.2

end Dtail
