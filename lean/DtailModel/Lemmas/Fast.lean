import DtailModel.Model.Fast
namespace Dtail

def relR (f : RSF) (s : RS) : Prop := f.rmsg.reverse = s.msg ∧ f.len = s.msg.length ∧ f.rout.reverse = s.out

theorem stepByteF_rel (m : Nat) (f : RSF) (s : RS) (b : UInt8) (h : relR f s) :
    relR (stepByteF m f b) (stepByte m s b) := by
  obtain ⟨msg, out⟩ := s
  obtain ⟨h1, h2, h3⟩ := h
  simp only at h1 h2 h3
  subst h1 h3
  have hlen : f.len = f.rmsg.length := by simpa using h2
  unfold stepByteF stepByte relR
  by_cases hb : b = NL
  · simp [hb]
  · by_cases hk : f.len + 1 ≥ m
    · have hk' : (f.rmsg.reverse ++ [b]).length ≥ m := by simp; omega
      simp only [hb, if_false, hk, if_true, hk']
      simp
    · have hk' : ¬ (f.rmsg.reverse ++ [b]).length ≥ m := by simp; omega
      simp only [hb, if_false, hk, hk']
      simp [hlen]

theorem foldl_stepByteF_rel (m : Nat) (bs : Bytes) (f : RSF) (s : RS) (h : relR f s) :
    relR (bs.foldl (stepByteF m) f) (bs.foldl (stepByte m) s) := by
  induction bs generalizing f s with
  | nil => exact h
  | cons b rest ih => exact ih _ _ (stepByteF_rel m f s b h)

/-- the fast reader is the model's reader -/
theorem readLinesF_eq (m : Nat) (bs : Bytes) : readLinesF m bs = readLines m bs := by
  have h := foldl_stepByteF_rel m bs ⟨[], 0, []⟩ ⟨[], []⟩ ⟨rfl, rfl, rfl⟩
  obtain ⟨h1, _, h3⟩ := h
  unfold readLinesF readLines readFrom eofFlush
  simp only
  by_cases he : (bs.foldl (stepByteF m) ⟨[], 0, []⟩).rmsg = []
  · have : (bs.foldl (stepByte m) ⟨[], []⟩).msg = [] := by rw [← h1, he]; rfl
    simp [he, this, h3]
  · have : ¬ (bs.foldl (stepByte m) ⟨[], []⟩).msg = [] := by
      rw [← h1]; intro h0; exact he (by simpa using h0)
    simp [he, this, h3, h1]

def relC (f : CSF) (s : CS) : Prop := f.rbuf.reverse = s.buf ∧ f.rmsgs.reverse = s.msgs

theorem clientByteF_rel (f : CSF) (s : CS) (b : UInt8) (h : relC f s) :
    relC (clientByteF f b) (clientByte s b) := by
  obtain ⟨buf, msgs⟩ := s
  obtain ⟨h1, h2⟩ := h
  simp only at h1 h2
  subst h1 h2
  unfold clientByteF clientByte relC
  by_cases hb : b = NL
  · simp [hb]
  · by_cases hd : b = DELIM
    · subst hd
      have hne : ¬ DELIM = NL := by decide
      simp [hne]
    · simp only [hb, if_false, hd]; simp

/-- the fast client is the model's client -/
theorem clientMsgsF_eq (bs : Bytes) : clientMsgsF bs = (clientFeed ⟨[], []⟩ bs).msgs := by
  have gen : ∀ (bs : Bytes) (f : CSF) (s : CS), relC f s → relC (bs.foldl clientByteF f) (bs.foldl clientByte s) := by
    intro bs
    induction bs with
    | nil => intro f s h; exact h
    | cons b rest ih => intro f s h; exact ih _ _ (clientByteF_rel f s b h)
  exact (gen bs ⟨[], []⟩ ⟨[], []⟩ ⟨rfl, rfl⟩).2

end Dtail
