import DtailModel.Model.Session
namespace Dtail

theorem linesUpTo_succ (c k : Nat) (hk : 1 ≤ k) : linesUpTo c (k + 1) = linesUpTo c k ++ [(c, k)] := by
  unfold linesUpTo
  have : k + 1 - 1 = (k - 1) + 1 := by omega
  rw [this, List.range_succ, List.map_append]
  simp; omega

theorem activeCount_pos_of_reading (cs : List CmdSt) (c k : Nat) (h : cs[c]? = some (.reading k)) :
    0 < activeCount cs := by
  unfold activeCount
  apply List.length_pos_of_mem (a := CmdSt.reading k)
  apply List.mem_filter.2
  exact ⟨List.mem_of_getElem? h, rfl⟩

/-- the session invariant -/
structure SessInv (s : Sess) : Prop where
  len : s.cmds.length = s.sizes.length
  lines : ∀ (c : Nat), (s.delivered ++ s.queue).filter (fun x => x.1 = c) = linesUpTo c (nextOf s c)
  range : ∀ (c k n : Nat), s.cmds[c]? = some (CmdSt.reading k) → s.sizes[c]? = some n → 1 ≤ k ∧ k ≤ n + 1
  quiet : s.lateRecv = false → s.phase ≠ .running → activeCount s.cmds = 0
  drained : s.lateRecv = false → (s.phase = .synQueued ∨ s.phase = .closed) → s.queue = []

theorem nextOfC_set_other (cmds : List CmdSt) (sizes : List Nat) (c c' : Nat) (st : CmdSt) (h : c' ≠ c) :
    nextOfC (cmds.set c st) sizes c' = nextOfC cmds sizes c' := by
  unfold nextOfC
  have : ¬ c = c' := fun e => h e.symm
  simp [List.getElem?_set, this]

theorem nextOfC_set_reading (cmds : List CmdSt) (sizes : List Nat) (c k : Nat) (h : c < cmds.length) :
    nextOfC (cmds.set c (.reading k)) sizes c = k := by
  unfold nextOfC; simp [List.getElem?_set, h]

theorem nextOfC_set_done (cmds : List CmdSt) (sizes : List Nat) (c n : Nat) (h : c < cmds.length)
    (hn : sizes[c]? = some n) : nextOfC (cmds.set c .done) sizes c = n + 1 := by
  unfold nextOfC; simp [List.getElem?_set, h, hn]

theorem nextOfC_reading (cmds : List CmdSt) (sizes : List Nat) (c k : Nat) (h : cmds[c]? = some (.reading k)) :
    nextOfC cmds sizes c = k := by unfold nextOfC; simp [h]

theorem nextOfC_notSent (cmds : List CmdSt) (sizes : List Nat) (c : Nat) (h : cmds[c]? = some .notSent) :
    nextOfC cmds sizes c = 1 := by unfold nextOfC; simp [h]

theorem sessInit_inv (sizes : List Nat) : SessInv (sessInit sizes) := by
  refine ⟨by simp [sessInit], ?_, ?_, ?_, ?_⟩
  · intro c
    simp only [sessInit, List.append_nil, List.filter_nil, nextOf, nextOfC]
    cases h : (List.replicate sizes.length CmdSt.notSent)[c]? with
    | none => simp [linesUpTo]
    | some st =>
      have := List.mem_of_getElem? h
      simp only [List.mem_replicate] at this
      rw [this.2]; simp [linesUpTo]
  · intro c k n h _
    have := List.mem_of_getElem? h
    simp [sessInit] at this
  · intro _ h; simp [sessInit] at h
  · intro _ h; simp [sessInit] at h

end Dtail

namespace Dtail

theorem activeCount_set (cs : List CmdSt) (c : Nat) (old new : CmdSt) (h : cs[c]? = some old) :
    activeCount (cs.set c new) + (if isReading old then 1 else 0) = activeCount cs + (if isReading new then 1 else 0) := by
  induction cs generalizing c with
  | nil => simp at h
  | cons x xs ih =>
    cases c with
    | zero =>
      simp only [List.getElem?_cons_zero, Option.some.injEq] at h
      subst h
      simp only [List.set_cons_zero, activeCount, List.filter_cons]
      cases h1 : isReading x <;> cases h2 : isReading new <;> simp
    | succ j =>
      simp only [List.getElem?_cons_succ] at h
      have := ih j h
      simp only [List.set_cons_succ, activeCount, List.filter_cons] at this ⊢
      cases hx : isReading x <;> simp <;> omega

theorem sessStep_inv (s s' : Sess) (l : SLabel) (h : SessInv s) (hs : sessStep s l = some s') : SessInv s' := by
  obtain ⟨hlen, hlines, hrange, hquiet, hdrained⟩ := h
  cases l with
  | recv c =>
    simp only [sessStep] at hs
    split at hs
    · rename_i hc
      simp only [Option.some.injEq] at hs; subst hs
      have hclt : c < s.cmds.length := (List.getElem?_eq_some_iff.1 hc.2).1
      refine ⟨by simp [hlen], ?_, ?_, ?_, ?_⟩
      · intro c'
        show List.filter _ (s.delivered ++ s.queue) = linesUpTo c' (nextOfC (s.cmds.set c (.reading 1)) s.sizes c')
        by_cases hcc : c' = c
        · subst hcc
          rw [nextOfC_set_reading _ _ _ _ hclt, ← nextOfC_notSent s.cmds s.sizes c' hc.2]; exact hlines c'
        · rw [nextOfC_set_other _ _ _ _ _ hcc]; exact hlines c'
      · intro c' k n hk hn
        have hk' : (s.cmds.set c (.reading 1))[c']? = some (.reading k) := hk
        simp only [List.getElem?_set] at hk'
        by_cases hcc : c = c'
        · subst hcc
          simp only [hclt, if_true, Option.some.injEq, CmdSt.reading.injEq] at hk'
          subst hk'; exact ⟨Nat.le_refl _, by omega⟩
        · simp only [hcc, if_false] at hk'
          exact hrange c' k n hk' hn
      · intro hl hp
        have hl' : (s.lateRecv || (s.phase != .running)) = false := hl
        simp only [Bool.or_eq_false_iff, bne_eq_false_iff_eq] at hl'
        exact absurd hl'.2 hp
      · intro hl hp
        have hl' : (s.lateRecv || (s.phase != .running)) = false := hl
        simp only [Bool.or_eq_false_iff, bne_eq_false_iff_eq] at hl'
        have hp' : s.phase = .synQueued ∨ s.phase = .closed := hp
        rcases hp' with hp' | hp' <;> rw [hl'.2] at hp' <;> cases hp'
    · simp at hs
  | push c =>
    simp only [sessStep] at hs
    split at hs
    · rename_i k n hck hcn
      split at hs
      · rename_i hc
        simp only [Option.some.injEq] at hs; subst hs
        have hclt : c < s.cmds.length := (List.getElem?_eq_some_iff.1 hck).1
        have hr := hrange c k n hck hcn
        refine ⟨by simp [hlen], ?_, ?_, ?_, ?_⟩
        · intro c'
          show List.filter _ (s.delivered ++ (s.queue ++ [(c, k)])) = linesUpTo c' (nextOfC (s.cmds.set c (.reading (k + 1))) s.sizes c')
          by_cases hcc : c' = c
          · subst hcc
            rw [nextOfC_set_reading _ _ _ _ hclt, linesUpTo_succ c' k hr.1, ← nextOfC_reading s.cmds s.sizes c' k hck]
            have := hlines c'
            unfold nextOf at this
            rw [← this]
            simp [List.filter_append]
          · rw [nextOfC_set_other _ _ _ _ _ hcc]
            have := hlines c'
            unfold nextOf at this
            rw [← this]
            have hne : ¬ c = c' := fun e => hcc e.symm
            simp [List.filter_append, hne]
        · intro c' k' n' hk' hn'
          have hk'' : (s.cmds.set c (.reading (k + 1)))[c']? = some (.reading k') := hk'
          simp only [List.getElem?_set] at hk''
          by_cases hcc : c = c'
          · subst hcc
            simp only [hclt, if_true, Option.some.injEq, CmdSt.reading.injEq] at hk''
            subst hk''
            have hn'' : s.sizes[c]? = some n' := hn'
            rw [hcn] at hn''; cases hn''
            exact ⟨by omega, by omega⟩
          · simp only [hcc, if_false] at hk''
            exact hrange c' k' n' hk'' hn'
        · intro hl hp
          have := hquiet hl hp
          have := activeCount_pos_of_reading s.cmds c k hck
          omega
        · intro hl hp
          have hp' : s.phase = .synQueued ∨ s.phase = .closed := hp
          have hp'' : s.phase ≠ .running := by rcases hp' with h | h <;> rw [h] <;> simp
          have := hquiet hl hp''
          have := activeCount_pos_of_reading s.cmds c k hck
          omega
      · simp at hs
    · simp at hs
  | finish c =>
    simp only [sessStep] at hs
    split at hs
    · rename_i k n hck hcn
      split at hs
      · rename_i hc
        simp only [Option.some.injEq] at hs; subst hs
        have hclt : c < s.cmds.length := (List.getElem?_eq_some_iff.1 hck).1
        have hact := activeCount_set s.cmds c (.reading k) .done hck
        simp only [isReading, if_true, Bool.false_eq_true, if_false, Nat.add_zero] at hact
        refine ⟨by simp [hlen], ?_, ?_, ?_, ?_⟩
        · intro c'
          show List.filter _ (s.delivered ++ s.queue) = linesUpTo c' (nextOfC (s.cmds.set c .done) s.sizes c')
          by_cases hcc : c' = c
          · subst hcc
            rw [nextOfC_set_done _ _ _ n hclt hcn, ← hc.1, ← nextOfC_reading s.cmds s.sizes c' k hck]; exact hlines c'
          · rw [nextOfC_set_other _ _ _ _ _ hcc]; exact hlines c'
        · intro c' k' n' hk' hn'
          have hk'' : (s.cmds.set c .done)[c']? = some (.reading k') := hk'
          simp only [List.getElem?_set] at hk''
          by_cases hcc : c = c'
          · subst hcc; simp [hclt] at hk''
          · simp only [hcc, if_false] at hk''
            exact hrange c' k' n' hk'' hn'
        · intro hl hp
          show activeCount (s.cmds.set c .done) = 0
          have hp' : phaseAfterFinish (s.cmds.set c .done) s.phase ≠ .running := hp
          unfold phaseAfterFinish at hp'
          by_cases hrun : s.phase = .running
          · by_cases hz : activeCount (s.cmds.set c .done) = 0
            · exact hz
            · simp [hz, hrun] at hp'
          · have := hquiet hl hrun
            have := activeCount_pos_of_reading s.cmds c k hck
            omega
        · intro hl hp
          show s.queue = []
          have hp' : phaseAfterFinish (s.cmds.set c .done) s.phase = .synQueued ∨ phaseAfterFinish (s.cmds.set c .done) s.phase = .closed := hp
          unfold phaseAfterFinish at hp'
          by_cases hrun : s.phase = .running
          · by_cases hz : activeCount (s.cmds.set c .done) = 0
            · simp [hz, hrun] at hp'
            · simp [hz, hrun] at hp'
          · have := hquiet hl hrun
            have := activeCount_pos_of_reading s.cmds c k hck
            omega
      · simp at hs
    · simp at hs
  | deliver =>
    simp only [sessStep] at hs
    split at hs
    · rename_i x rest hq
      split at hs
      · simp only [Option.some.injEq] at hs; subst hs
        refine ⟨hlen, ?_, hrange, hquiet, ?_⟩
        · intro c
          have := hlines c
          rw [hq] at this
          show List.filter _ ((s.delivered ++ [x]) ++ rest) = linesUpTo c (nextOf s c)
          rw [← this]; simp [List.filter_append]
        · intro hl hp
          have := hdrained hl hp
          rw [hq] at this; cases this
      · simp at hs
    · simp at hs
  | flushDone =>
    simp only [sessStep] at hs
    split at hs
    · rename_i hc
      simp only [Option.some.injEq] at hs; subst hs
      refine ⟨hlen, hlines, hrange, ?_, ?_⟩
      · intro hl _; exact hquiet hl (by rw [hc.1]; simp)
      · intro _ _; exact hc.2
    · simp at hs
  | deliverSyn =>
    simp only [sessStep] at hs
    split at hs
    · rename_i hc
      simp only [Option.some.injEq] at hs; subst hs
      refine ⟨hlen, hlines, hrange, ?_, ?_⟩
      · intro hl _; exact hquiet hl (by rw [hc]; simp)
      · intro hl _; exact hdrained hl (Or.inl hc)
    · simp at hs

end Dtail
