/-
Tie G for the CSV outfile writer: `GroupSet.WriteResult`, `writeQueryFile`, `getOutfileFD`, `resultWriteUnformatted`,
`resultWriteUnformattedHeader` of internal/mapr/groupsetresult.go as translated from the working tree on this run
(`Generated/Code.lean`, namespace `Gen.Outfile`).  Every operation on the file system (`os.OpenFile`, `WriteString`,
`os.Rename`, `os.Remove`) is recorded, in order, in the history the translation adds to the receiver; `ext.ioErr` decides
whether an operation fails.  The theorems say that when no operation fails the history is exactly the model's
`writeResultOps` — the sequence of operations the crash theorems of C15 speak about.
-/
import DtailModel.Generated.Code
import DtailModel.Lemmas.GoRT
import DtailModel.Model.Outfile
import DtailModel.Model.OutfileOps
set_option autoImplicit false
namespace Dtail.GenOutfile
open Dtail Dtail.Go Dtail.Gen.Outfile

abbrev GQuery := Gen.Outfile.Query
abbrev GOutfile := Gen.Outfile.Outfile
abbrev GRow := Gen.Outfile.result

theorem toFOp_ofFOp (o : FOp) : toFOp (ofFOp o) = some o := by cases o <;> rfl

/-- no operation on the file system fails -/
def NoIOErr (ext : Ext) : Prop := ∀ h op, ext.ioErr h op = none

theorem goEffect_ok {ext : Ext} (hio : NoIOErr ext) (h : List GoFOp) (op : GoFOp) :
    goEffect ext h op = (h ++ [op], none) := by
  unfold goEffect; rw [hio h op]

theorem none_bne : ((none : GoErr) != none) = false := rfl

/-- a loop whose body always goes on -/
theorem goRange_acc {α ρ σ : Type} (l : List α) (s0 : σ) (body : σ → α → LoopStep ρ σ) (after : σ → ρ)
    (step : σ → α → σ) (h : ∀ s x, body s x = .next (step s x)) :
    goRange l s0 body after = after (l.foldl step s0) := by
  induction l generalizing s0 with
  | nil => rfl
  | cons x xs ih => rw [goRange_cons, h s0 x]; exact ih _

theorem writeQueryFile_ok (ext : Ext) (hio : NoIOErr ext) (g : GroupSet) (query : GQuery) (o : GOutfile)
    (ho : query.Outfile = some o) :
    GroupSet.writeQueryFile ext g query = Outcome.ok
      (⟨g.ops ++ [GoFOp.open (o.FilePath ++ QUERYEXT ++ TMP) .trunc, .write (o.FilePath ++ QUERYEXT ++ TMP) query.RawQuery,
        .rename (o.FilePath ++ QUERYEXT ++ TMP) (o.FilePath ++ QUERYEXT)]⟩, none) := by
  unfold GroupSet.writeQueryFile
  simp only [ho, Option.isSome_some, if_true, goEffect_ok hio, none_bne, Bool.false_eq_true, if_false, goDeref, Option.getD_some,
    List.append_assoc, List.cons_append, List.nil_append]
  rfl

theorem getOutfileFD_ok (ext : Ext) (hio : NoIOErr ext) (g : GroupSet) (query : GQuery) (o : GOutfile)
    (ho : query.Outfile = some o) :
    GroupSet.getOutfileFD ext g query = Outcome.ok
      (if o.AppendMode then (⟨g.ops ++ [GoFOp.open o.FilePath .append]⟩, o.FilePath, none)
       else (⟨g.ops ++ [GoFOp.open (o.FilePath ++ TMP) .trunc]⟩, o.FilePath ++ TMP, none)) := by
  unfold GroupSet.getOutfileFD
  cases ha : o.AppendMode <;>
    simp only [ho, ha, Option.isSome_some, if_true, goEffect_ok hio, goDeref, Option.getD_some, Bool.not_true, Bool.not_false,
      Bool.false_eq_true, if_false] <;> rfl

/-- a loop that goes on until an element stops it -/
theorem goRange_until {α ρ σ : Type} (l : List α) (s0 : σ) (body : σ → α → LoopStep ρ σ) (after : σ → ρ)
    (stop : α → Bool) (step : σ → α → σ) (h : ∀ s x, body s x = if stop x then .brk s else .next (step s x)) :
    goRange l s0 body after = after ((l.takeWhile (fun x => !stop x)).foldl step s0) := by
  induction l generalizing s0 with
  | nil => rfl
  | cons x xs ih =>
    rw [goRange_cons, h s0 x]
    cases hs : stop x
    · simp only [hs, Bool.false_eq_true, if_false, List.takeWhile_cons, Bool.not_false, if_true, List.foldl_cons]; exact ih _
    · simp only [hs, if_true, List.takeWhile_cons, Bool.not_true, Bool.false_eq_true, if_false, List.foldl_nil]

/-- `for i, x := range l` from index `k` on -/
def enumFrom {α : Type} (k : Nat) : List α → List (Int × α)
  | [] => []
  | x :: xs => ((k : Int), x) :: enumFrom (k + 1) xs

theorem goEnum_eq {α : Type} (l : List α) : goEnum l = enumFrom 0 l := by
  unfold goEnum
  suffices h : ∀ k, (l.zipIdx k).map (fun (a, i) => ((i : Int), a)) = enumFrom k l from h 0
  induction l with
  | nil => intro k; rfl
  | cons x xs ih => intro k; simp only [List.zipIdx_cons, List.map_cons, enumFrom]; rw [ih]

/-- one CSV line as the code writes it: every value, a comma after it unless its index is `last` -/
def lineG (fd : GoString) (last : Int) : List (Int × GoString) → List GoFOp
  | [] => []
  | (j, v) :: rest => GoFOp.write fd v :: ((if j == last then [] else [GoFOp.write fd [44]]) ++ lineG fd last rest)

def lineStep (fd : GoString) (last : Int) (g : GroupSet) (x : Int × GoString) : GroupSet :=
  ⟨g.ops ++ GoFOp.write fd x.2 :: (if x.1 == last then [] else [GoFOp.write fd [44]])⟩

theorem foldl_lineStep (fd : GoString) (last : Int) (l : List (Int × GoString)) (g : GroupSet) :
    l.foldl (lineStep fd last) g = ⟨g.ops ++ lineG fd last l⟩ := by
  induction l generalizing g with
  | nil => simp [lineG]
  | cons x xs ih =>
    obtain ⟨j, v⟩ := x
    rw [List.foldl_cons, ih]
    simp only [lineStep, lineG, List.append_assoc, List.cons_append]

/-- the code's line is the model's: commas between the values, when the line has as many values as there are columns -/
theorem lineG_model (fd : GoString) (n : Nat) (vals : List GoString) (k : Nat) (hk : k + vals.length = n) :
    lineG fd ((n : Int) - 1) (enumFrom k vals) ++ [GoFOp.write fd [10]] = (csvLineWrites fd vals).map ofFOp := by
  cases vals with
  | nil => rfl
  | cons v rest =>
    have key : ∀ (rest : List GoString) (v : GoString) (k : Nat), k + rest.length + 1 = n →
        lineG fd ((n : Int) - 1) (enumFrom k (v :: rest)) =
          GoFOp.write fd v :: (rest.flatMap fun w => [GoFOp.write fd [44], GoFOp.write fd w]) := by
      intro rest
      induction rest with
      | nil =>
        intro v k hk
        have : ((k : Int) == (n : Int) - 1) = true := by simp only [beq_iff_eq]; simp at hk; omega
        simp [enumFrom, lineG, this]
      | cons w rest' ih =>
        intro v k hk
        have : ((k : Int) == (n : Int) - 1) = false := by
          simp only [beq_eq_false_iff_ne, ne_eq]; simp only [List.length_cons] at hk; omega
        rw [enumFrom, lineG, this]
        simp only [Bool.false_eq_true, if_false, List.cons_append, List.nil_append, List.flatMap_cons]
        rw [ih w (k + 1) (by simp only [List.length_cons] at hk; omega)]
    rw [key rest v k (by simp only [List.length_cons] at hk; omega)]
    simp only [csvLineWrites, List.map_cons, List.map_append, List.map_flatMap, ofFOp, List.cons_append, List.map_nil]
    rfl

theorem foldl_headerStep (fd : GoString) (last : Int) (l : List (Int × selectCondition)) (s : GoErr × GroupSet) :
    (l.foldl (fun (s : GoErr × GroupSet) (x : Int × selectCondition) =>
        ((none : GoErr), lineStep fd last s.2 (x.1, x.2.FieldStorage))) s).2
      = ⟨s.2.ops ++ lineG fd last (l.map fun x => (x.1, x.2.FieldStorage))⟩ := by
  induction l generalizing s with
  | nil => simp [lineG]
  | cons x xs ih =>
    rw [List.foldl_cons, ih]
    simp only [lineStep, lineG, List.map_cons, List.append_assoc, List.cons_append]

theorem header_ok (ext : Ext) (hio : NoIOErr ext) (g : GroupSet) (query : GQuery) (fd : GoString) (last : Int) :
    GroupSet.resultWriteUnformattedHeader ext g query fd last
      = (⟨g.ops ++ lineG fd last ((goEnum query.Select).map fun x => (x.1, x.2.FieldStorage)) ++ [GoFOp.write fd [10]]⟩,
          none) := by
  unfold GroupSet.resultWriteUnformattedHeader
  rw [goRange_acc (goEnum query.Select) _ _ _
    (fun (s : GoErr × GroupSet) (x : Int × selectCondition) => ((none : GoErr), lineStep fd last s.2 (x.1, x.2.FieldStorage)))]
  · have h2 := foldl_headerStep fd last (goEnum query.Select) ((GoZero.zero : GoErr), g)
    generalize List.foldl _ _ (goEnum query.Select) = st at h2 ⊢
    obtain ⟨e, g'⟩ := st
    simp only at h2
    subst h2
    simp only [goEffect_ok hio]
  · rintro ⟨e, g⟩ ⟨i, sc⟩
    simp only [goEffect_ok hio, none_bne, Bool.false_eq_true, if_false, lineStep]
    by_cases hl : (i == last) = true
    · simp only [hl, if_true, List.append_nil]
    · simp only [hl, Bool.false_eq_true, if_false, List.append_assoc, List.cons_append, List.nil_append]

def rowStep (fd : GoString) (last : Int) (g : GroupSet) (x : Int × GRow) : GroupSet :=
  ⟨g.ops ++ (lineG fd last (goEnum x.2.values) ++ [GoFOp.write fd [10]])⟩

theorem foldl_rowStep (fd : GoString) (last : Int) (l : List (Int × GRow)) (g : GroupSet) :
    l.foldl (rowStep fd last) g = ⟨g.ops ++ l.flatMap fun x => lineG fd last (goEnum x.2.values) ++ [GoFOp.write fd [10]]⟩ := by
  induction l generalizing g with
  | nil => simp
  | cons x xs ih =>
    rw [List.foldl_cons, ih]
    simp only [rowStep, List.flatMap_cons, List.append_assoc]

/-- the rows the loop of `resultWriteUnformatted` writes: all up to the one whose index is the limit -/
def rowsUpTo (limit : Int) (rows : List GRow) : List (Int × GRow) :=
  (goEnum rows).takeWhile (fun x => !(x.1 == limit))

theorem rows_body (ext : Ext) (hio : NoIOErr ext) (fd : GoString) (last limit : Int) (g : GroupSet) (x : Int × GRow) :
    (match x with
      | (i, r) =>
        if (i == limit) then
          (LoopStep.brk g : LoopStep (Outcome (GroupSet × GoErr)) GroupSet)
        else
          goRange (goEnum r.values) g
            (fun g (j, value) =>
              let (_h3, _e3) := goEffect ext g.ops (GoFOp.write fd value)
              let g := { g with ops := _h3 }
              let _t4 := (GoLen.len value)
              let _t5 := _e3
              let _u6 := _t4
              let err := _t5
              if (err != none) then
                LoopStep.ret (LoopStep.ret (Outcome.ok (g, err)))
              else
                if (j == last) then
                  LoopStep.next g
                else
                  let (_h7, _e7) := goEffect ext g.ops (GoFOp.write fd ([44] : GoString))
                  let g := { g with ops := _h7 }
                  let _t8 := (GoLen.len ([44] : GoString))
                  let _t9 := _e7
                  let _u10 := _t8
                  let err := _t9
                  if (err != none) then
                    LoopStep.ret (LoopStep.ret (Outcome.ok (g, err)))
                  else
                    LoopStep.next g)
            (fun g =>
              let (_h11, _e11) := goEffect ext g.ops (GoFOp.write fd ([10] : GoString))
              let g := { g with ops := _h11 }
              let _t12 := (GoLen.len ([10] : GoString))
              let _t13 := _e11
              let _u14 := _t12
              let err := _t13
              if (err != none) then
                LoopStep.ret (Outcome.ok (g, err))
              else
                LoopStep.next g))
    = if (fun (x : Int × GRow) => x.1 == limit) x then .brk g else .next (rowStep fd last g x) := by
  obtain ⟨i, r⟩ := x
  by_cases hl : (i == limit) = true
  · simp only [hl, if_true]
  · simp only [hl, Bool.false_eq_true, if_false]
    rw [goRange_acc (goEnum r.values) _ _ _ (lineStep fd last)]
    · rw [foldl_lineStep]
      simp only [goEffect_ok hio, none_bne, Bool.false_eq_true, if_false, rowStep, List.append_assoc]
    · rintro g ⟨j, v⟩
      simp only [goEffect_ok hio, none_bne, Bool.false_eq_true, if_false, lineStep]
      by_cases hj : (j == last) = true
      · simp only [hj, if_true, List.append_nil]
      · simp only [hj, Bool.false_eq_true, if_false, List.append_assoc, List.cons_append, List.nil_append]

/-- what `resultWriteUnformatted` does when nothing fails -/
def rwuOps (query : GQuery) (o : GOutfile) (rows : List GRow) (fd : GoString) (writeHeader final : Bool) : List GoFOp :=
  let last : Int := GoLen.len query.Select - 1
  (if writeHeader then lineG fd last ((goEnum query.Select).map fun x => (x.1, x.2.FieldStorage)) ++ [GoFOp.write fd [10]] else [])
  ++ ((rowsUpTo query.Limit rows).flatMap fun x => lineG fd last (goEnum x.2.values) ++ [GoFOp.write fd [10]])
  ++ (if (!o.AppendMode && final) then [GoFOp.rename (o.FilePath ++ TMP) o.FilePath] else [])

theorem rwu_ok (ext : Ext) (hio : NoIOErr ext) (g : GroupSet) (query : GQuery) (o : GOutfile)
    (ho : query.Outfile = some o) (rows : List GRow) (fd : GoString) (writeHeader final : Bool) :
    GroupSet.resultWriteUnformatted ext g query rows fd writeHeader final
      = Outcome.ok (⟨g.ops ++ rwuOps query o rows fd writeHeader final⟩, none) := by
  unfold GroupSet.resultWriteUnformatted rwuOps
  cases writeHeader
  · simp only [Bool.false_eq_true, if_false, List.nil_append]
    rw [goRange_until (goEnum rows) g _ _ (fun (x : Int × GRow) => x.1 == query.Limit)
      (rowStep fd (GoLen.len query.Select - 1))
      (fun g x => rows_body ext hio fd (GoLen.len query.Select - 1) query.Limit g x)]
    rw [foldl_rowStep]
    cases hc : (!o.AppendMode && final) <;>
      simp only [ho, hc, Option.isSome_some, goDeref, Option.getD_some, if_true, Bool.false_eq_true, if_false, goEffect_ok hio,
        none_bne, rowsUpTo, List.append_nil, List.append_assoc] <;> rfl
  · simp only [if_true, header_ok ext hio, none_bne, Bool.false_eq_true, if_false]
    rw [goRange_until (goEnum rows) _ _ _ (fun (x : Int × GRow) => x.1 == query.Limit)
      (rowStep fd (GoLen.len query.Select - 1))
      (fun g x => rows_body ext hio fd (GoLen.len query.Select - 1) query.Limit g x)]
    rw [foldl_rowStep]
    cases hc : (!o.AppendMode && final) <;>
      simp only [ho, hc, Option.isSome_some, goDeref, Option.getD_some, if_true, Bool.false_eq_true, if_false, goEffect_ok hio,
        none_bne, rowsUpTo, List.append_nil, List.append_assoc] <;> rfl

/-- `os.Stat` answers for the file system `fs`: the size of a file that exists, an error for one that does not -/
def StatAgrees (ext : Ext) (fs : FS) : Prop :=
  ∀ p, match fsGet fs p with
    | some c => ext.osStat p = ({ size := (c.length : Int) }, none)
    | none => (ext.osStat p).2 ≠ none

/-- the header decision of `WriteResult` as the code takes it -/
def headerG (ext : Ext) (o : GOutfile) : Bool :=
  !(o.AppendMode && ((ext.osStat o.FilePath).2 == none && decide ((ext.osStat o.FilePath).1.size > 0)))

def rowsOf (ext : Ext) : List GRow := ext.rowValues.map fun v => ({ values := v } : GRow)

/-- **what the translated `WriteResult` does when no file operation fails**, in the translation's own terms -/
theorem WriteResult_ok (ext : Ext) (hio : NoIOErr ext) (g : GroupSet) (query : GQuery) (o : GOutfile)
    (ho : query.Outfile = some o) (final : Bool) :
    GroupSet.WriteResult ext g query final = Outcome.ok
      (⟨g.ops ++ ([GoFOp.open (o.FilePath ++ QUERYEXT ++ TMP) .trunc, .write (o.FilePath ++ QUERYEXT ++ TMP) query.RawQuery,
          .rename (o.FilePath ++ QUERYEXT ++ TMP) (o.FilePath ++ QUERYEXT)]
        ++ (if o.AppendMode then [GoFOp.open o.FilePath .append] else [GoFOp.open (o.FilePath ++ TMP) .trunc])
        ++ rwuOps query o (rowsOf ext) (if o.AppendMode then o.FilePath else o.FilePath ++ TMP) (headerG ext o) final)⟩, none) := by
  unfold GroupSet.WriteResult Query.HasOutfile
  have hne : (query.Outfile != none) = true := by rw [ho]; rfl
  simp only [hne, Bool.not_true, Bool.false_eq_true, if_false, writeQueryFile_ok ext hio g query o ho, none_bne,
    getOutfileFD_ok ext hio _ query o ho, rwu_ok ext hio _ query o ho]
  simp only [ho, Option.isSome_some, if_true, goDeref, Option.getD_some]
  unfold headerG rowsOf
  cases ha : o.AppendMode
  · simp only [Bool.false_eq_true, if_false, none_bne, Bool.false_and, Bool.not_false, List.append_assoc]
  · simp only [if_true, Bool.true_and]
    cases hs : ((ext.osStat o.FilePath).2 == none && decide ((ext.osStat o.FilePath).1.size > 0))
    · simp only [hs, Bool.false_eq_true, if_false, none_bne, Bool.not_false, List.append_assoc]
    · simp only [hs, if_true, none_bne, Bool.false_eq_true, if_false, Bool.not_true, List.append_assoc]

/-! ### the recorded history is the model's operation sequence -/

theorem enumFrom_map {α β : Type} (f : α → β) (k : Nat) (l : List α) :
    (enumFrom k l).map (fun x => (x.1, f x.2)) = enumFrom k (l.map f) := by
  induction l generalizing k with
  | nil => rfl
  | cons x xs ih => simp only [enumFrom, List.map_cons, ih]

theorem enumFrom_flatMap {α β : Type} (f : α → List β) (k : Nat) (l : List α) :
    (enumFrom k l).flatMap (fun x => f x.2) = l.flatMap f := by
  induction l generalizing k with
  | nil => rfl
  | cons x xs ih => simp only [enumFrom, List.flatMap_cons, ih]

/-- `if i == limit { break }`: the rows in front of the limit; a negative limit never stops the loop -/
theorem takeWhile_enumFrom {α : Type} (limit : Int) (k : Nat) (l : List α) (hk : limit < 0 ∨ (k : Int) ≤ limit) :
    (enumFrom k l).takeWhile (fun x => !(x.1 == limit))
      = enumFrom k (if limit < 0 then l else l.take (limit.toNat - k)) := by
  induction l generalizing k with
  | nil => simp [enumFrom]
  | cons x xs ih =>
    by_cases hneg : limit < 0
    · have hne : ((k : Int) == limit) = false := by simp only [beq_eq_false_iff_ne, ne_eq]; omega
      simp only [enumFrom, List.takeWhile_cons, hne, Bool.not_false, if_true, hneg]
      rw [ih (k + 1) (Or.inl hneg)]; simp only [hneg, if_true]
    · have hle : (k : Int) ≤ limit := by rcases hk with h | h; exact absurd h hneg; exact h
      by_cases heq : (k : Int) = limit
      · have he : ((k : Int) == limit) = true := by simp only [beq_iff_eq]; exact heq
        have h0 : limit.toNat - k = 0 := by omega
        simp only [enumFrom, List.takeWhile_cons, he, Bool.not_true, Bool.false_eq_true, if_false, hneg, h0, List.take_zero]
      · have hne : ((k : Int) == limit) = false := by simp only [beq_eq_false_iff_ne, ne_eq]; exact heq
        have hs : limit.toNat - k = (limit.toNat - (k + 1)) + 1 := by omega
        simp only [enumFrom, List.takeWhile_cons, hne, Bool.not_false, if_true, hneg, if_false]
        rw [ih (k + 1) (Or.inr (by push_cast; omega)), hs, List.take_succ_cons]
        simp only [hneg, if_false, enumFrom]

/-- the request the model's `writeResultOps` is about -/
def reqOf (ext : Ext) (query : GQuery) (o : GOutfile) (final : Bool) : OutReq :=
  ⟨o.FilePath, o.AppendMode, query.RawQuery, query.Select.map (·.FieldStorage), ext.rowValues, query.Limit, final⟩

theorem headerG_model (ext : Ext) (fs : FS) (hstat : StatAgrees ext fs) (query : GQuery) (o : GOutfile) (final : Bool) :
    headerG ext o = needHeader fs (reqOf ext query o final) := by
  unfold headerG needHeader reqOf
  cases ha : o.AppendMode
  · simp
  · have h := hstat o.FilePath
    simp only [Bool.true_and, if_true]
    cases hg : fsGet fs o.FilePath with
    | none =>
      rw [hg] at h
      have : ((ext.osStat o.FilePath).2 == none) = false := by
        cases hx : (ext.osStat o.FilePath).2 with
        | none => exact absurd hx h
        | some e => rfl
      simp [this]
    | some c =>
      rw [hg] at h
      simp only at h
      rw [h]
      by_cases hc : c.length > 0
      · have : decide ((c.length : Int) > 0) = true := by simp; omega
        simp [hc]
      · have : c.length = 0 := by omega
        simp [this]

/-- **the history the translated `WriteResult` records is the model's `writeResultOps`**, when no file operation fails,
    `os.Stat` answers for the file system, and every row has one value per column (what `GroupSet.result` builds) -/
theorem WriteResult_refines (ext : Ext) (hio : NoIOErr ext) (fs : FS) (hstat : StatAgrees ext fs) (g : GroupSet) (query : GQuery)
    (o : GOutfile) (ho : query.Outfile = some o) (final : Bool)
    (hrows : ∀ row ∈ ext.rowValues, row.length = query.Select.length) :
    GroupSet.WriteResult ext g query final
      = Outcome.ok (⟨g.ops ++ (writeResultOps fs (reqOf ext query o final)).map ofFOp⟩, none) := by
  rw [WriteResult_ok ext hio g query o ho final]
  congr 3
  have hn : ((GoLen.len query.Select : Int) - 1) = ((query.Select.length : Nat) : Int) - 1 := rfl
  -- a CSV line of `n` values
  have hline : ∀ (fd : GoString) (vals : List GoString), vals.length = query.Select.length →
      lineG fd (GoLen.len query.Select - 1) (goEnum vals) ++ [GoFOp.write fd [10]] = (csvLineWrites fd vals).map ofFOp := by
    intro fd vals hv
    rw [goEnum_eq, hn]
    exact lineG_model fd query.Select.length vals 0 (by omega)
  have hheader : ∀ fd : GoString,
      lineG fd (GoLen.len query.Select - 1) ((goEnum query.Select).map fun x => (x.1, x.2.FieldStorage)) ++ [GoFOp.write fd [10]]
        = (csvLineWrites fd (query.Select.map (·.FieldStorage))).map ofFOp := by
    intro fd
    rw [goEnum_eq, enumFrom_map, hn]
    exact lineG_model fd query.Select.length _ 0 (by simp)
  have hrowsG : ∀ fd : GoString,
      ((rowsUpTo query.Limit (rowsOf ext)).flatMap fun x => lineG fd (GoLen.len query.Select - 1) (goEnum x.2.values) ++ [GoFOp.write fd [10]])
        = ((limitedRows (reqOf ext query o final)).flatMap (csvLineWrites fd)).map ofFOp := by
    intro fd
    unfold rowsUpTo
    rw [goEnum_eq, takeWhile_enumFrom query.Limit 0 _ (by omega),
      enumFrom_flatMap (fun (r : GRow) => lineG fd (GoLen.len query.Select - 1) (goEnum r.values) ++ [GoFOp.write fd [10]])]
    unfold limitedRows reqOf rowsOf
    simp only [Nat.sub_zero]
    have hmem : ∀ (l : List (List GoString)), (∀ row ∈ l, row ∈ ext.rowValues) →
        ((l.map fun v => ({ values := v } : GRow)).flatMap fun r =>
            lineG fd (GoLen.len query.Select - 1) (goEnum r.values) ++ [GoFOp.write fd [10]])
          = (l.flatMap (csvLineWrites fd)).map ofFOp := by
      intro l hl
      induction l with
      | nil => rfl
      | cons v rest ih =>
        simp only [List.map_cons, List.flatMap_cons, List.map_append]
        rw [hline fd v (hrows v (hl v (by simp))), ih (fun r hr => hl r (by simp [hr]))]
    by_cases hneg : query.Limit < 0
    · simp only [hneg, if_true]
      exact hmem _ (fun _ h => h)
    · simp only [hneg, if_false, ← List.map_take]
      exact hmem _ (fun _ h => List.mem_of_mem_take h)
  unfold rwuOps writeResultOps
  dsimp only
  rw [headerG_model ext fs hstat query o final, hheader, hrowsG]
  cases ha : o.AppendMode <;> cases hh : needHeader fs (reqOf ext query o final) <;> cases final <;>
    simp [reqOf, ha, hh, ofFOp, List.map_append]

/-! ### whatever fails, nothing panics -/

/-- the function returned (a value, possibly carrying a Go `error`): it did not panic -/
def Returned {α : Type} (o : Outcome α) : Prop := ∃ v, o = Outcome.ok v

theorem returned_ite {α : Type} {c : Prop} [Decidable c] {a b : Outcome α} (ha : c → Returned a) (hb : ¬c → Returned b) :
    Returned (if c then a else b) := ite_all Returned ha hb

/-- a step of a loop whose early returns are all normal returns -/
def StepReturned {α σ : Type} : LoopStep (Outcome α) σ → Prop
  | .ret r => Returned r
  | _ => True

theorem stepReturned_ite {α σ : Type} {c : Prop} [Decidable c] {a b : LoopStep (Outcome α) σ}
    (ha : c → StepReturned a) (hb : ¬c → StepReturned b) : StepReturned (if c then a else b) := ite_all StepReturned ha hb

theorem goRange_returned {α β σ : Type} (l : List β) (body : σ → β → LoopStep (Outcome α) σ) (after : σ → Outcome α)
    (hbody : ∀ s x, StepReturned (body s x)) (hafter : ∀ s, Returned (after s)) (s0 : σ) :
    Returned (goRange l s0 body after) :=
  goRange_all Returned l body after (fun s x r h => by have := hbody s x; rw [h] at this; exact this) hafter s0

/-- **`resultWriteUnformatted` never panics, whichever file operation fails**: given an outfile, every path — a failing
    header write, a failing value, delimiter or newline write, a failing rename followed by the removal of the temporary
    file — returns -/
theorem rwu_returns (ext : Ext) (g : GroupSet) (query : GQuery) (o : GOutfile) (ho : query.Outfile = some o)
    (rows : List GRow) (fd : GoString) (writeHeader final : Bool) :
    Returned (GroupSet.resultWriteUnformatted ext g query rows fd writeHeader final) := by
  unfold GroupSet.resultWriteUnformatted
  simp only [ho, Option.isSome_some, if_true]
  have hrows : ∀ (g : GroupSet), Returned
      (goRange (goEnum rows) g
        (fun g (x : Int × GRow) =>
          if (x.1 == query.Limit) then
            (LoopStep.brk g : LoopStep (Outcome (GroupSet × GoErr)) GroupSet)
          else
            goRange (goEnum x.2.values) g
              (fun g (y : Int × GoString) =>
                let (_h3, _e3) := goEffect ext g.ops (GoFOp.write fd y.2)
                let g := { g with ops := _h3 }
                let _t4 := (GoLen.len y.2)
                let _t5 := _e3
                let _u6 := _t4
                let err := _t5
                if (err != none) then
                  LoopStep.ret (LoopStep.ret (Outcome.ok (g, err)))
                else
                  if (y.1 == (GoLen.len query.Select - 1)) then
                    LoopStep.next g
                  else
                    let (_h7, _e7) := goEffect ext g.ops (GoFOp.write fd ([44] : GoString))
                    let g := { g with ops := _h7 }
                    let _t8 := (GoLen.len ([44] : GoString))
                    let _t9 := _e7
                    let _u10 := _t8
                    let err := _t9
                    if (err != none) then
                      LoopStep.ret (LoopStep.ret (Outcome.ok (g, err)))
                    else
                      LoopStep.next g)
              (fun g =>
                let (_h11, _e11) := goEffect ext g.ops (GoFOp.write fd ([10] : GoString))
                let g := { g with ops := _h11 }
                let _t12 := (GoLen.len ([10] : GoString))
                let _t13 := _e11
                let _u14 := _t12
                let err := _t13
                if (err != none) then
                  LoopStep.ret (Outcome.ok (g, err))
                else
                  LoopStep.next g))
        (fun g =>
          if ((!(goDeref (some o)).AppendMode) && final) then
            let tmpOutfile := ((goDeref (some o)).FilePath ++ ([46, 116, 109, 112] : GoString))
            let (_h15, _e15) := goEffect ext g.ops (GoFOp.rename tmpOutfile (goDeref (some o)).FilePath)
            let g := { g with ops := _h15 }
            let _t16 := _e15
            let err := _t16
            if (err != none) then
              let (_h17, _e17) := goEffect ext g.ops (GoFOp.remove tmpOutfile)
              let g := { g with ops := _h17 }
              (Outcome.ok (g, err))
            else
              (Outcome.ok (g, none))
          else
            (Outcome.ok (g, none)))) := by
    intro g
    apply goRange_returned
    · intro g x
      apply stepReturned_ite
      · intro _; trivial
      · intro _
        -- the inner loop yields a step of the outer loop
        apply goRange_all (P := StepReturned)
        · intro g y r hr
          dsimp only at hr
          split at hr <;> (try split at hr) <;> (try split at hr) <;> first
            | (cases hr; exact ⟨_, rfl⟩)
            | (cases hr)
        · intro g
          dsimp only
          split <;> first | exact ⟨_, rfl⟩ | trivial
    · intro g
      dsimp only
      split <;> (try split) <;> exact ⟨_, rfl⟩
  cases writeHeader
  · simp only [Bool.false_eq_true, if_false]
    exact hrows g
  · simp only [if_true]
    split
    · exact ⟨_, rfl⟩
    · exact hrows _

theorem writeQueryFile_returns (ext : Ext) (g : GroupSet) (query : GQuery) (o : GOutfile) (ho : query.Outfile = some o) :
    Returned (GroupSet.writeQueryFile ext g query) := by
  unfold GroupSet.writeQueryFile
  simp only [ho, Option.isSome_some, if_true]
  split <;> (try split) <;> exact ⟨_, rfl⟩

theorem getOutfileFD_returns (ext : Ext) (g : GroupSet) (query : GQuery) (o : GOutfile) (ho : query.Outfile = some o) :
    Returned (GroupSet.getOutfileFD ext g query) := by
  unfold GroupSet.getOutfileFD
  simp only [ho, Option.isSome_some, if_true]
  split <;> exact ⟨_, rfl⟩

/-- **the translated `WriteResult` never panics, whichever file operations fail**: with an outfile in the query, for every
    behaviour of `ext.ioErr`, `os.Stat` and every result, the function returns (with or without a Go error) — no nil
    dereference on any error path -/
theorem WriteResult_returns (ext : Ext) (g : GroupSet) (query : GQuery) (o : GOutfile) (ho : query.Outfile = some o)
    (final : Bool) : Returned (GroupSet.WriteResult ext g query final) := by
  unfold GroupSet.WriteResult Query.HasOutfile
  have hne : (query.Outfile != none) = true := by rw [ho]; rfl
  simp only [hne, Bool.not_true, Bool.false_eq_true, if_false]
  obtain ⟨⟨g1, e1⟩, h1⟩ := writeQueryFile_returns ext g query o ho
  rw [h1]
  simp only []
  apply returned_ite
  · intro _; exact ⟨_, rfl⟩
  · intro _
    simp only [none_bne, Bool.false_eq_true, if_false]
    have hfd : ∀ (g : GroupSet) (wh : Bool), Returned
        (match GroupSet.getOutfileFD ext g query with
          | Outcome.ok _o11 =>
            let (_r12, _t13, _t14) := _o11
            let g := _r12
            let fd := _t13
            let err := _t14
            if (err != none) then
              (Outcome.ok (g, err))
            else
              match GroupSet.resultWriteUnformatted ext g query (List.map (fun v => ({ values := v } : result)) ext.rowValues) fd wh final with
              | Outcome.ok _o16 =>
                let (_r17, _t18) := _o16
                let g := _r17
                let ret_15 := _t18
                (Outcome.ok (g, ret_15))
              | _ =>
                (Outcome.panic "panic in GroupSet.resultWriteUnformatted")
          | _ =>
            (Outcome.panic "panic in GroupSet.getOutfileFD")) := by
      intro g wh
      obtain ⟨⟨g2, fd, e2⟩, h2⟩ := getOutfileFD_returns ext g query o ho
      rw [h2]
      simp only []
      apply returned_ite
      · intro _; exact ⟨_, rfl⟩
      · intro _
        obtain ⟨⟨g3, e3⟩, h3⟩ := rwu_returns ext g2 query o ho (List.map (fun v => ({ values := v } : result)) ext.rowValues) fd wh final
        rw [h3]
        exact ⟨_, rfl⟩
    simp only [ho, Option.isSome_some, if_true]
    apply returned_ite
    · intro _
      apply returned_ite
      · intro _; exact hfd g1 false
      · intro _; exact hfd g1 true
    · intro _; exact hfd g1 true

end Dtail.GenOutfile
