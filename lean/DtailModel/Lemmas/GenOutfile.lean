/-
Tie G for the CSV outfile writer: `GroupSet.WriteResult`, `writeQueryFile`, `getOutfileFD`, `resultWriteUnformatted`,
`resultWriteUnformattedHeader` of internal/mapr/groupsetresult.go as translated from the working tree on this run
(`Generated/Code.lean`, namespace `Gen.Outfile`).  Every operation on the file system (`os.OpenFile`, `WriteString`,
`os.Rename`, `os.Remove`) is recorded, in order, in the history the translation adds to the receiver; `ext.ioErr` decides
whether an operation fails.  The theorems say that when no operation fails the history is exactly the model's
`writeResultOps` — the sequence of operations the crash theorems of C15 speak about.
-/
import DtailModel.Generated.Code
import DtailModel.Lemmas.GoRT
import DtailModel.Model.Outfile
import DtailModel.Model.OutfileOps
set_option autoImplicit false
namespace Dtail.GenOutfile
open Dtail Dtail.Go Dtail.Gen.Outfile

abbrev GQuery := Gen.Outfile.Query
abbrev GOutfile := Gen.Outfile.Outfile
abbrev GRow := Gen.Outfile.result

theorem toFOp_ofFOp (o : FOp) : toFOp (ofFOp o) = some o := by cases o <;> rfl

/-- no operation on the file system fails -/
def NoIOErr (ext : Ext) : Prop := ∀ h op, ext.ioErr h op = none

theorem goEffect_ok {ext : Ext} (hio : NoIOErr ext) (h : List GoFOp) (op : GoFOp) :
    goEffect ext h op = (h ++ [op], none) := by
  unfold goEffect; rw [hio h op]

theorem none_bne : ((none : GoErr) != none) = false := rfl

/-- a loop whose body always goes on -/
theorem goRange_acc {α ρ σ : Type} (l : List α) (s0 : σ) (body : σ → α → LoopStep ρ σ) (after : σ → ρ)
    (step : σ → α → σ) (h : ∀ s x, body s x = .next (step s x)) :
    goRange l s0 body after = after (l.foldl step s0) := by
  induction l generalizing s0 with
  | nil => rfl
  | cons x xs ih => rw [goRange_cons, h s0 x]; exact ih _

theorem writeQueryFile_ok (ext : Ext) (hio : NoIOErr ext) (g : GroupSet) (query : GQuery) (o : GOutfile)
    (ho : query.Outfile = some o) :
    GroupSet.writeQueryFile ext g query = Outcome.ok
      (⟨g.ops ++ [GoFOp.open (o.FilePath ++ QUERYEXT ++ TMP) .trunc, .write (o.FilePath ++ QUERYEXT ++ TMP) query.RawQuery,
        .rename (o.FilePath ++ QUERYEXT ++ TMP) (o.FilePath ++ QUERYEXT)]⟩, none) := by
  unfold GroupSet.writeQueryFile
  simp only [ho, Option.isSome_some, if_true, goEffect_ok hio, none_bne, Bool.false_eq_true, if_false, goDeref, Option.getD_some,
    List.append_assoc, List.cons_append, List.nil_append]
  rfl

theorem getOutfileFD_ok (ext : Ext) (hio : NoIOErr ext) (g : GroupSet) (query : GQuery) (o : GOutfile)
    (ho : query.Outfile = some o) :
    GroupSet.getOutfileFD ext g query = Outcome.ok
      (if o.AppendMode then (⟨g.ops ++ [GoFOp.open o.FilePath .append]⟩, o.FilePath, none)
       else (⟨g.ops ++ [GoFOp.open (o.FilePath ++ TMP) .trunc]⟩, o.FilePath ++ TMP, none)) := by
  unfold GroupSet.getOutfileFD
  cases ha : o.AppendMode <;>
    simp only [ho, ha, Option.isSome_some, if_true, goEffect_ok hio, goDeref, Option.getD_some, Bool.not_true, Bool.not_false,
      Bool.false_eq_true, if_false] <;> rfl

/-- a loop that goes on until an element stops it -/
theorem goRange_until {α ρ σ : Type} (l : List α) (s0 : σ) (body : σ → α → LoopStep ρ σ) (after : σ → ρ)
    (stop : α → Bool) (step : σ → α → σ) (h : ∀ s x, body s x = if stop x then .brk s else .next (step s x)) :
    goRange l s0 body after = after ((l.takeWhile (fun x => !stop x)).foldl step s0) := by
  induction l generalizing s0 with
  | nil => rfl
  | cons x xs ih =>
    rw [goRange_cons, h s0 x]
    cases hs : stop x
    · simp only [hs, Bool.false_eq_true, if_false, List.takeWhile_cons, Bool.not_false, if_true, List.foldl_cons]; exact ih _
    · simp only [hs, if_true, List.takeWhile_cons, Bool.not_true, Bool.false_eq_true, if_false, List.foldl_nil]

/-- `for i, x := range l` from index `k` on -/
def enumFrom {α : Type} (k : Nat) : List α → List (Int × α)
  | [] => []
  | x :: xs => ((k : Int), x) :: enumFrom (k + 1) xs

theorem goEnum_eq {α : Type} (l : List α) : goEnum l = enumFrom 0 l := by
  unfold goEnum
  suffices h : ∀ k, (l.zipIdx k).map (fun (a, i) => ((i : Int), a)) = enumFrom k l from h 0
  induction l with
  | nil => intro k; rfl
  | cons x xs ih => intro k; simp only [List.zipIdx_cons, List.map_cons, enumFrom]; rw [ih]

/-- one CSV line as the code writes it: every value, a comma after it unless its index is `last` -/
def lineG (fd : GoString) (last : Int) : List (Int × GoString) → List GoFOp
  | [] => []
  | (j, v) :: rest => GoFOp.write fd v :: ((if j == last then [] else [GoFOp.write fd [44]]) ++ lineG fd last rest)

def lineStep (fd : GoString) (last : Int) (g : GroupSet) (x : Int × GoString) : GroupSet :=
  ⟨g.ops ++ GoFOp.write fd x.2 :: (if x.1 == last then [] else [GoFOp.write fd [44]])⟩

theorem foldl_lineStep (fd : GoString) (last : Int) (l : List (Int × GoString)) (g : GroupSet) :
    l.foldl (lineStep fd last) g = ⟨g.ops ++ lineG fd last l⟩ := by
  induction l generalizing g with
  | nil => simp [lineG]
  | cons x xs ih =>
    obtain ⟨j, v⟩ := x
    rw [List.foldl_cons, ih]
    simp only [lineStep, lineG, List.append_assoc, List.cons_append]

/-- the code's line is the model's: commas between the values, when the line has as many values as there are columns -/
theorem lineG_model (fd : GoString) (n : Nat) (vals : List GoString) (k : Nat) (hk : k + vals.length = n) :
    lineG fd ((n : Int) - 1) (enumFrom k vals) ++ [GoFOp.write fd [10]] = (csvLineWrites fd vals).map ofFOp := by
  cases vals with
  | nil => rfl
  | cons v rest =>
    have key : ∀ (rest : List GoString) (v : GoString) (k : Nat), k + rest.length + 1 = n →
        lineG fd ((n : Int) - 1) (enumFrom k (v :: rest)) =
          GoFOp.write fd v :: (rest.flatMap fun w => [GoFOp.write fd [44], GoFOp.write fd w]) := by
      intro rest
      induction rest with
      | nil =>
        intro v k hk
        have : ((k : Int) == (n : Int) - 1) = true := by simp only [beq_iff_eq]; simp at hk; omega
        simp [enumFrom, lineG, this]
      | cons w rest' ih =>
        intro v k hk
        have : ((k : Int) == (n : Int) - 1) = false := by
          simp only [beq_eq_false_iff_ne, ne_eq]; simp only [List.length_cons] at hk; omega
        rw [enumFrom, lineG, this]
        simp only [Bool.false_eq_true, if_false, List.cons_append, List.nil_append, List.flatMap_cons]
        rw [ih w (k + 1) (by simp only [List.length_cons] at hk; omega)]
    rw [key rest v k (by simp only [List.length_cons] at hk; omega)]
    simp only [csvLineWrites, List.map_cons, List.map_append, List.map_flatMap, ofFOp, List.cons_append, List.map_nil]
    rfl

theorem foldl_headerStep (fd : GoString) (last : Int) (l : List (Int × selectCondition)) (s : GoErr × GroupSet) :
    (l.foldl (fun (s : GoErr × GroupSet) (x : Int × selectCondition) =>
        ((none : GoErr), lineStep fd last s.2 (x.1, x.2.FieldStorage))) s).2
      = ⟨s.2.ops ++ lineG fd last (l.map fun x => (x.1, x.2.FieldStorage))⟩ := by
  induction l generalizing s with
  | nil => simp [lineG]
  | cons x xs ih =>
    rw [List.foldl_cons, ih]
    simp only [lineStep, lineG, List.map_cons, List.append_assoc, List.cons_append]

theorem header_ok (ext : Ext) (hio : NoIOErr ext) (g : GroupSet) (query : GQuery) (fd : GoString) (last : Int) :
    GroupSet.resultWriteUnformattedHeader ext g query fd last
      = (⟨g.ops ++ lineG fd last ((goEnum query.Select).map fun x => (x.1, x.2.FieldStorage)) ++ [GoFOp.write fd [10]]⟩,
          none) := by
  unfold GroupSet.resultWriteUnformattedHeader
  rw [goRange_acc (goEnum query.Select) _ _ _
    (fun (s : GoErr × GroupSet) (x : Int × selectCondition) => ((none : GoErr), lineStep fd last s.2 (x.1, x.2.FieldStorage)))]
  · have h2 := foldl_headerStep fd last (goEnum query.Select) ((GoZero.zero : GoErr), g)
    generalize List.foldl _ _ (goEnum query.Select) = st at h2 ⊢
    obtain ⟨e, g'⟩ := st
    simp only at h2
    subst h2
    simp only [goEffect_ok hio]
  · rintro ⟨e, g⟩ ⟨i, sc⟩
    simp only [goEffect_ok hio, none_bne, Bool.false_eq_true, if_false, lineStep]
    by_cases hl : (i == last) = true
    · simp only [hl, if_true, List.append_nil]
    · simp only [hl, Bool.false_eq_true, if_false, List.append_assoc, List.cons_append, List.nil_append]

def rowStep (fd : GoString) (last : Int) (g : GroupSet) (x : Int × GRow) : GroupSet :=
  ⟨g.ops ++ (lineG fd last (goEnum x.2.values) ++ [GoFOp.write fd [10]])⟩

theorem foldl_rowStep (fd : GoString) (last : Int) (l : List (Int × GRow)) (g : GroupSet) :
    l.foldl (rowStep fd last) g = ⟨g.ops ++ l.flatMap fun x => lineG fd last (goEnum x.2.values) ++ [GoFOp.write fd [10]]⟩ := by
  induction l generalizing g with
  | nil => simp
  | cons x xs ih =>
    rw [List.foldl_cons, ih]
    simp only [rowStep, List.flatMap_cons, List.append_assoc]

/-- the rows the loop of `resultWriteUnformatted` writes: all up to the one whose index is the limit -/
def rowsUpTo (limit : Int) (rows : List GRow) : List (Int × GRow) :=
  (goEnum rows).takeWhile (fun x => !(x.1 == limit))

theorem rows_body (ext : Ext) (hio : NoIOErr ext) (fd : GoString) (last limit : Int) (g : GroupSet) (x : Int × GRow) :
    (match x with
      | (i, r) =>
        if (i == limit) then
          (LoopStep.brk g : LoopStep (Outcome (GroupSet × GoErr)) GroupSet)
        else
          goRange (goEnum r.values) g
            (fun g (j, value) =>
              let (_h3, _e3) := goEffect ext g.ops (GoFOp.write fd value)
              let g := { g with ops := _h3 }
              let _t4 := (GoLen.len value)
              let _t5 := _e3
              let _u6 := _t4
              let err := _t5
              if (err != none) then
                LoopStep.ret (LoopStep.ret (Outcome.ok (g, err)))
              else
                if (j == last) then
                  LoopStep.next g
                else
                  let (_h7, _e7) := goEffect ext g.ops (GoFOp.write fd ([44] : GoString))
                  let g := { g with ops := _h7 }
                  let _t8 := (GoLen.len ([44] : GoString))
                  let _t9 := _e7
                  let _u10 := _t8
                  let err := _t9
                  if (err != none) then
                    LoopStep.ret (LoopStep.ret (Outcome.ok (g, err)))
                  else
                    LoopStep.next g)
            (fun g =>
              let (_h11, _e11) := goEffect ext g.ops (GoFOp.write fd ([10] : GoString))
              let g := { g with ops := _h11 }
              let _t12 := (GoLen.len ([10] : GoString))
              let _t13 := _e11
              let _u14 := _t12
              let err := _t13
              if (err != none) then
                LoopStep.ret (Outcome.ok (g, err))
              else
                LoopStep.next g))
    = if (fun (x : Int × GRow) => x.1 == limit) x then .brk g else .next (rowStep fd last g x) := by
  obtain ⟨i, r⟩ := x
  by_cases hl : (i == limit) = true
  · simp only [hl, if_true]
  · simp only [hl, Bool.false_eq_true, if_false]
    rw [goRange_acc (goEnum r.values) _ _ _ (lineStep fd last)]
    · rw [foldl_lineStep]
      simp only [goEffect_ok hio, none_bne, Bool.false_eq_true, if_false, rowStep, List.append_assoc]
    · rintro g ⟨j, v⟩
      simp only [goEffect_ok hio, none_bne, Bool.false_eq_true, if_false, lineStep]
      by_cases hj : (j == last) = true
      · simp only [hj, if_true, List.append_nil]
      · simp only [hj, Bool.false_eq_true, if_false, List.append_assoc, List.cons_append, List.nil_append]

/-- what `resultWriteUnformatted` does when nothing fails -/
def rwuOps (query : GQuery) (o : GOutfile) (rows : List GRow) (fd : GoString) (writeHeader final : Bool) : List GoFOp :=
  let last : Int := GoLen.len query.Select - 1
  (if writeHeader then lineG fd last ((goEnum query.Select).map fun x => (x.1, x.2.FieldStorage)) ++ [GoFOp.write fd [10]] else [])
  ++ ((rowsUpTo query.Limit rows).flatMap fun x => lineG fd last (goEnum x.2.values) ++ [GoFOp.write fd [10]])
  ++ (if (!o.AppendMode && final) then [GoFOp.rename (o.FilePath ++ TMP) o.FilePath] else [])

theorem rwu_ok (ext : Ext) (hio : NoIOErr ext) (g : GroupSet) (query : GQuery) (o : GOutfile)
    (ho : query.Outfile = some o) (rows : List GRow) (fd : GoString) (writeHeader final : Bool) :
    GroupSet.resultWriteUnformatted ext g query rows fd writeHeader final
      = Outcome.ok (⟨g.ops ++ rwuOps query o rows fd writeHeader final⟩, none) := by
  unfold GroupSet.resultWriteUnformatted rwuOps
  cases writeHeader
  · simp only [Bool.false_eq_true, if_false, List.nil_append]
    rw [goRange_until (goEnum rows) g _ _ (fun (x : Int × GRow) => x.1 == query.Limit)
      (rowStep fd (GoLen.len query.Select - 1))
      (fun g x => rows_body ext hio fd (GoLen.len query.Select - 1) query.Limit g x)]
    rw [foldl_rowStep]
    cases hc : (!o.AppendMode && final) <;>
      simp only [ho, hc, Option.isSome_some, goDeref, Option.getD_some, if_true, Bool.false_eq_true, if_false, goEffect_ok hio,
        none_bne, rowsUpTo, List.append_nil, List.append_assoc] <;> rfl
  · simp only [if_true, header_ok ext hio, none_bne, Bool.false_eq_true, if_false]
    rw [goRange_until (goEnum rows) _ _ _ (fun (x : Int × GRow) => x.1 == query.Limit)
      (rowStep fd (GoLen.len query.Select - 1))
      (fun g x => rows_body ext hio fd (GoLen.len query.Select - 1) query.Limit g x)]
    rw [foldl_rowStep]
    cases hc : (!o.AppendMode && final) <;>
      simp only [ho, hc, Option.isSome_some, goDeref, Option.getD_some, if_true, Bool.false_eq_true, if_false, goEffect_ok hio,
        none_bne, rowsUpTo, List.append_nil, List.append_assoc] <;> rfl

/-- `os.Stat` answers for the file system `fs`: the size of a file that exists, an error for one that does not -/
def StatAgrees (ext : Ext) (fs : FS) : Prop :=
  ∀ p, match fsGet fs p with
    | some c => ext.osStat p = ({ size := (c.length : Int) }, none)
    | none => (ext.osStat p).2 ≠ none

/-- the header decision of `WriteResult` as the code takes it -/
def headerG (ext : Ext) (o : GOutfile) : Bool :=
  !(o.AppendMode && ((ext.osStat o.FilePath).2 == none && decide ((ext.osStat o.FilePath).1.size > 0)))

def rowsOf (ext : Ext) : List GRow := ext.rowValues.map fun v => ({ values := v } : GRow)

/-- **what the translated `WriteResult` does when no file operation fails**, in the translation's own terms -/
theorem WriteResult_ok (ext : Ext) (hio : NoIOErr ext) (g : GroupSet) (query : GQuery) (o : GOutfile)
    (ho : query.Outfile = some o) (final : Bool) :
    GroupSet.WriteResult ext g query final = Outcome.ok
      (⟨g.ops ++ ([GoFOp.open (o.FilePath ++ QUERYEXT ++ TMP) .trunc, .write (o.FilePath ++ QUERYEXT ++ TMP) query.RawQuery,
          .rename (o.FilePath ++ QUERYEXT ++ TMP) (o.FilePath ++ QUERYEXT)]
        ++ (if o.AppendMode then [GoFOp.open o.FilePath .append] else [GoFOp.open (o.FilePath ++ TMP) .trunc])
        ++ rwuOps query o (rowsOf ext) (if o.AppendMode then o.FilePath else o.FilePath ++ TMP) (headerG ext o) final)⟩, none) := by
  unfold GroupSet.WriteResult Query.HasOutfile
  have hne : (query.Outfile != none) = true := by rw [ho]; rfl
  simp only [hne, Bool.not_true, Bool.false_eq_true, if_false, writeQueryFile_ok ext hio g query o ho, none_bne,
    getOutfileFD_ok ext hio _ query o ho, rwu_ok ext hio _ query o ho]
  simp only [ho, Option.isSome_some, if_true, goDeref, Option.getD_some]
  unfold headerG rowsOf
  cases ha : o.AppendMode
  · simp only [Bool.false_eq_true, if_false, none_bne, Bool.false_and, Bool.not_false, List.append_assoc]
  · simp only [if_true, Bool.true_and]
    cases hs : ((ext.osStat o.FilePath).2 == none && decide ((ext.osStat o.FilePath).1.size > 0))
    · simp only [hs, Bool.false_eq_true, if_false, none_bne, Bool.not_false, List.append_assoc]
    · simp only [hs, if_true, none_bne, Bool.false_eq_true, if_false, Bool.not_true, List.append_assoc]

/-! ### the recorded history is the model's operation sequence -/

theorem enumFrom_map {α β : Type} (f : α → β) (k : Nat) (l : List α) :
    (enumFrom k l).map (fun x => (x.1, f x.2)) = enumFrom k (l.map f) := by
  induction l generalizing k with
  | nil => rfl
  | cons x xs ih => simp only [enumFrom, List.map_cons, ih]

theorem enumFrom_flatMap {α β : Type} (f : α → List β) (k : Nat) (l : List α) :
    (enumFrom k l).flatMap (fun x => f x.2) = l.flatMap f := by
  induction l generalizing k with
  | nil => rfl
  | cons x xs ih => simp only [enumFrom, List.flatMap_cons, ih]

/-- `if i == limit { break }`: the rows in front of the limit; a negative limit never stops the loop -/
theorem takeWhile_enumFrom {α : Type} (limit : Int) (k : Nat) (l : List α) (hk : limit < 0 ∨ (k : Int) ≤ limit) :
    (enumFrom k l).takeWhile (fun x => !(x.1 == limit))
      = enumFrom k (if limit < 0 then l else l.take (limit.toNat - k)) := by
  induction l generalizing k with
  | nil => simp [enumFrom]
  | cons x xs ih =>
    by_cases hneg : limit < 0
    · have hne : ((k : Int) == limit) = false := by simp only [beq_eq_false_iff_ne, ne_eq]; omega
      simp only [enumFrom, List.takeWhile_cons, hne, Bool.not_false, if_true, hneg]
      rw [ih (k + 1) (Or.inl hneg)]; simp only [hneg, if_true]
    · have hle : (k : Int) ≤ limit := by rcases hk with h | h; exact absurd h hneg; exact h
      by_cases heq : (k : Int) = limit
      · have he : ((k : Int) == limit) = true := by simp only [beq_iff_eq]; exact heq
        have h0 : limit.toNat - k = 0 := by omega
        simp only [enumFrom, List.takeWhile_cons, he, Bool.not_true, Bool.false_eq_true, if_false, hneg, h0, List.take_zero]
      · have hne : ((k : Int) == limit) = false := by simp only [beq_eq_false_iff_ne, ne_eq]; exact heq
        have hs : limit.toNat - k = (limit.toNat - (k + 1)) + 1 := by omega
        simp only [enumFrom, List.takeWhile_cons, hne, Bool.not_false, if_true, hneg, if_false]
        rw [ih (k + 1) (Or.inr (by push_cast; omega)), hs, List.take_succ_cons]
        simp only [hneg, if_false, enumFrom]

/-- the request the model's `writeResultOps` is about -/
def reqOf (ext : Ext) (query : GQuery) (o : GOutfile) (final : Bool) : OutReq :=
  ⟨o.FilePath, o.AppendMode, query.RawQuery, query.Select.map (·.FieldStorage), ext.rowValues, query.Limit, final⟩

theorem headerG_model (ext : Ext) (fs : FS) (hstat : StatAgrees ext fs) (query : GQuery) (o : GOutfile) (final : Bool) :
    headerG ext o = needHeader fs (reqOf ext query o final) := by
  unfold headerG needHeader reqOf
  cases ha : o.AppendMode
  · simp
  · have h := hstat o.FilePath
    simp only [Bool.true_and, if_true]
    cases hg : fsGet fs o.FilePath with
    | none =>
      rw [hg] at h
      have : ((ext.osStat o.FilePath).2 == none) = false := by
        cases hx : (ext.osStat o.FilePath).2 with
        | none => exact absurd hx h
        | some e => rfl
      simp [this]
    | some c =>
      rw [hg] at h
      simp only at h
      rw [h]
      by_cases hc : c.length > 0
      · have : decide ((c.length : Int) > 0) = true := by simp; omega
        simp [hc]
      · have : c.length = 0 := by omega
        simp [this]

/-- **the history the translated `WriteResult` records is the model's `writeResultOps`**, when no file operation fails,
    `os.Stat` answers for the file system, and every row has one value per column (what `GroupSet.result` builds) -/
theorem WriteResult_refines (ext : Ext) (hio : NoIOErr ext) (fs : FS) (hstat : StatAgrees ext fs) (g : GroupSet) (query : GQuery)
    (o : GOutfile) (ho : query.Outfile = some o) (final : Bool)
    (hrows : ∀ row ∈ ext.rowValues, row.length = query.Select.length) :
    GroupSet.WriteResult ext g query final
      = Outcome.ok (⟨g.ops ++ (writeResultOps fs (reqOf ext query o final)).map ofFOp⟩, none) := by
  rw [WriteResult_ok ext hio g query o ho final]
  congr 3
  have hn : ((GoLen.len query.Select : Int) - 1) = ((query.Select.length : Nat) : Int) - 1 := rfl
  -- a CSV line of `n` values
  have hline : ∀ (fd : GoString) (vals : List GoString), vals.length = query.Select.length →
      lineG fd (GoLen.len query.Select - 1) (goEnum vals) ++ [GoFOp.write fd [10]] = (csvLineWrites fd vals).map ofFOp := by
    intro fd vals hv
    rw [goEnum_eq, hn]
    exact lineG_model fd query.Select.length vals 0 (by omega)
  have hheader : ∀ fd : GoString,
      lineG fd (GoLen.len query.Select - 1) ((goEnum query.Select).map fun x => (x.1, x.2.FieldStorage)) ++ [GoFOp.write fd [10]]
        = (csvLineWrites fd (query.Select.map (·.FieldStorage))).map ofFOp := by
    intro fd
    rw [goEnum_eq, enumFrom_map, hn]
    exact lineG_model fd query.Select.length _ 0 (by simp)
  have hrowsG : ∀ fd : GoString,
      ((rowsUpTo query.Limit (rowsOf ext)).flatMap fun x => lineG fd (GoLen.len query.Select - 1) (goEnum x.2.values) ++ [GoFOp.write fd [10]])
        = ((limitedRows (reqOf ext query o final)).flatMap (csvLineWrites fd)).map ofFOp := by
    intro fd
    unfold rowsUpTo
    rw [goEnum_eq, takeWhile_enumFrom query.Limit 0 _ (by omega),
      enumFrom_flatMap (fun (r : GRow) => lineG fd (GoLen.len query.Select - 1) (goEnum r.values) ++ [GoFOp.write fd [10]])]
    unfold limitedRows reqOf rowsOf
    simp only [Nat.sub_zero]
    have hmem : ∀ (l : List (List GoString)), (∀ row ∈ l, row ∈ ext.rowValues) →
        ((l.map fun v => ({ values := v } : GRow)).flatMap fun r =>
            lineG fd (GoLen.len query.Select - 1) (goEnum r.values) ++ [GoFOp.write fd [10]])
          = (l.flatMap (csvLineWrites fd)).map ofFOp := by
      intro l hl
      induction l with
      | nil => rfl
      | cons v rest ih =>
        simp only [List.map_cons, List.flatMap_cons, List.map_append]
        rw [hline fd v (hrows v (hl v (by simp))), ih (fun r hr => hl r (by simp [hr]))]
    by_cases hneg : query.Limit < 0
    · simp only [hneg, if_true]
      exact hmem _ (fun _ h => h)
    · simp only [hneg, if_false, ← List.map_take]
      exact hmem _ (fun _ h => List.mem_of_mem_take h)
  unfold rwuOps writeResultOps
  dsimp only
  rw [headerG_model ext fs hstat query o final, hheader, hrowsG]
  cases ha : o.AppendMode <;> cases hh : needHeader fs (reqOf ext query o final) <;> cases final <;>
    simp [reqOf, ha, hh, ofFOp, List.map_append]

/-! ### whatever fails, nothing panics -/

/-- the function returned (a value, possibly carrying a Go `error`): it did not panic -/
def Returned {α : Type} (o : Outcome α) : Prop := ∃ v, o = Outcome.ok v

theorem returned_ite {α : Type} {c : Prop} [Decidable c] {a b : Outcome α} (ha : c → Returned a) (hb : ¬c → Returned b) :
    Returned (if c then a else b) := ite_all Returned ha hb

/-- a step of a loop whose early returns are all normal returns -/
def StepReturned {α σ : Type} : LoopStep (Outcome α) σ → Prop
  | .ret r => Returned r
  | _ => True

theorem stepReturned_ite {α σ : Type} {c : Prop} [Decidable c] {a b : LoopStep (Outcome α) σ}
    (ha : c → StepReturned a) (hb : ¬c → StepReturned b) : StepReturned (if c then a else b) := ite_all StepReturned ha hb

theorem goRange_returned {α β σ : Type} (l : List β) (body : σ → β → LoopStep (Outcome α) σ) (after : σ → Outcome α)
    (hbody : ∀ s x, StepReturned (body s x)) (hafter : ∀ s, Returned (after s)) (s0 : σ) :
    Returned (goRange l s0 body after) :=
  goRange_all Returned l body after (fun s x r h => by have := hbody s x; rw [h] at this; exact this) hafter s0

/-- **`resultWriteUnformatted` never panics, whichever file operation fails**: given an outfile, every path — a failing
    header write, a failing value, delimiter or newline write, a failing rename followed by the removal of the temporary
    file — returns -/
theorem rwu_returns (ext : Ext) (g : GroupSet) (query : GQuery) (o : GOutfile) (ho : query.Outfile = some o)
    (rows : List GRow) (fd : GoString) (writeHeader final : Bool) :
    Returned (GroupSet.resultWriteUnformatted ext g query rows fd writeHeader final) := by
  unfold GroupSet.resultWriteUnformatted
  simp only [ho, Option.isSome_some, if_true]
  have hrows : ∀ (g : GroupSet), Returned
      (goRange (goEnum rows) g
        (fun g (x : Int × GRow) =>
          if (x.1 == query.Limit) then
            (LoopStep.brk g : LoopStep (Outcome (GroupSet × GoErr)) GroupSet)
          else
            goRange (goEnum x.2.values) g
              (fun g (y : Int × GoString) =>
                let (_h3, _e3) := goEffect ext g.ops (GoFOp.write fd y.2)
                let g := { g with ops := _h3 }
                let _t4 := (GoLen.len y.2)
                let _t5 := _e3
                let _u6 := _t4
                let err := _t5
                if (err != none) then
                  LoopStep.ret (LoopStep.ret (Outcome.ok (g, err)))
                else
                  if (y.1 == (GoLen.len query.Select - 1)) then
                    LoopStep.next g
                  else
                    let (_h7, _e7) := goEffect ext g.ops (GoFOp.write fd ([44] : GoString))
                    let g := { g with ops := _h7 }
                    let _t8 := (GoLen.len ([44] : GoString))
                    let _t9 := _e7
                    let _u10 := _t8
                    let err := _t9
                    if (err != none) then
                      LoopStep.ret (LoopStep.ret (Outcome.ok (g, err)))
                    else
                      LoopStep.next g)
              (fun g =>
                let (_h11, _e11) := goEffect ext g.ops (GoFOp.write fd ([10] : GoString))
                let g := { g with ops := _h11 }
                let _t12 := (GoLen.len ([10] : GoString))
                let _t13 := _e11
                let _u14 := _t12
                let err := _t13
                if (err != none) then
                  LoopStep.ret (Outcome.ok (g, err))
                else
                  LoopStep.next g))
        (fun g =>
          if ((!(goDeref (some o)).AppendMode) && final) then
            let tmpOutfile := ((goDeref (some o)).FilePath ++ ([46, 116, 109, 112] : GoString))
            let (_h15, _e15) := goEffect ext g.ops (GoFOp.rename tmpOutfile (goDeref (some o)).FilePath)
            let g := { g with ops := _h15 }
            let _t16 := _e15
            let err := _t16
            if (err != none) then
              let (_h17, _e17) := goEffect ext g.ops (GoFOp.remove tmpOutfile)
              let g := { g with ops := _h17 }
              (Outcome.ok (g, err))
            else
              (Outcome.ok (g, none))
          else
            (Outcome.ok (g, none)))) := by
    intro g
    apply goRange_returned
    · intro g x
      apply stepReturned_ite
      · intro _; trivial
      · intro _
        -- the inner loop yields a step of the outer loop
        apply goRange_all (P := StepReturned)
        · intro g y r hr
          dsimp only at hr
          split at hr <;> (try split at hr) <;> (try split at hr) <;> first
            | (cases hr; exact ⟨_, rfl⟩)
            | (cases hr)
        · intro g
          dsimp only
          split <;> first | exact ⟨_, rfl⟩ | trivial
    · intro g
      dsimp only
      split <;> (try split) <;> exact ⟨_, rfl⟩
  cases writeHeader
  · simp only [Bool.false_eq_true, if_false]
    exact hrows g
  · simp only [if_true]
    split
    · exact ⟨_, rfl⟩
    · exact hrows _

theorem writeQueryFile_returns (ext : Ext) (g : GroupSet) (query : GQuery) (o : GOutfile) (ho : query.Outfile = some o) :
    Returned (GroupSet.writeQueryFile ext g query) := by
  unfold GroupSet.writeQueryFile
  simp only [ho, Option.isSome_some, if_true]
  split <;> (try split) <;> exact ⟨_, rfl⟩

theorem getOutfileFD_returns (ext : Ext) (g : GroupSet) (query : GQuery) (o : GOutfile) (ho : query.Outfile = some o) :
    Returned (GroupSet.getOutfileFD ext g query) := by
  unfold GroupSet.getOutfileFD
  simp only [ho, Option.isSome_some, if_true]
  split <;> exact ⟨_, rfl⟩

/-- **the translated `WriteResult` never panics, whichever file operations fail**: with an outfile in the query, for every
    behaviour of `ext.ioErr`, `os.Stat` and every result, the function returns (with or without a Go error) — no nil
    dereference on any error path -/
theorem WriteResult_returns (ext : Ext) (g : GroupSet) (query : GQuery) (o : GOutfile) (ho : query.Outfile = some o)
    (final : Bool) : Returned (GroupSet.WriteResult ext g query final) := by
  unfold GroupSet.WriteResult Query.HasOutfile
  have hne : (query.Outfile != none) = true := by rw [ho]; rfl
  simp only [hne, Bool.not_true, Bool.false_eq_true, if_false]
  obtain ⟨⟨g1, e1⟩, h1⟩ := writeQueryFile_returns ext g query o ho
  rw [h1]
  simp only []
  apply returned_ite
  · intro _; exact ⟨_, rfl⟩
  · intro _
    simp only [none_bne, Bool.false_eq_true, if_false]
    have hfd : ∀ (g : GroupSet) (wh : Bool), Returned
        (match GroupSet.getOutfileFD ext g query with
          | Outcome.ok _o11 =>
            let (_r12, _t13, _t14) := _o11
            let g := _r12
            let fd := _t13
            let err := _t14
            if (err != none) then
              (Outcome.ok (g, err))
            else
              match GroupSet.resultWriteUnformatted ext g query (List.map (fun v => ({ values := v } : result)) ext.rowValues) fd wh final with
              | Outcome.ok _o16 =>
                let (_r17, _t18) := _o16
                let g := _r17
                let ret_15 := _t18
                (Outcome.ok (g, ret_15))
              | _ =>
                (Outcome.panic "panic in GroupSet.resultWriteUnformatted")
          | _ =>
            (Outcome.panic "panic in GroupSet.getOutfileFD")) := by
      intro g wh
      obtain ⟨⟨g2, fd, e2⟩, h2⟩ := getOutfileFD_returns ext g query o ho
      rw [h2]
      simp only []
      apply returned_ite
      · intro _; exact ⟨_, rfl⟩
      · intro _
        obtain ⟨⟨g3, e3⟩, h3⟩ := rwu_returns ext g2 query o ho (List.map (fun v => ({ values := v } : result)) ext.rowValues) fd wh final
        rw [h3]
        exact ⟨_, rfl⟩
    simp only [ho, Option.isSome_some, if_true]
    apply returned_ite
    · intro _
      apply returned_ite
      · intro _; exact hfd g1 false
      · intro _; exact hfd g1 true
    · intro _; exact hfd g1 true

/-! ### whatever fails, what was done is a prefix of what a run without failures does -/

/-- the recorded operations without the removals of the temporary file (which follow a failed rename only) -/
def clean (l : List GoFOp) : List GoFOp := l.filter fun op => match op with | .remove _ => false | _ => true

/-- a stage that was to perform `full` ended with history `ops0 ++ pre`: `pre` (without removals) is a prefix of `full`, all of it
    when the stage reports no error -/
def Good (full ops0 : List GoFOp) (r : GroupSet × GoErr) : Prop :=
  ∃ pre, r.1.ops = ops0 ++ pre ∧ clean pre <+: full ∧ (r.2 = none → clean pre = full)

theorem goEffect_cases (ext : Ext) (h : List GoFOp) (op : GoFOp) :
    goEffect ext h op = (h ++ [op], none) ∨ ∃ e, goEffect ext h op = (h, some e) := by
  unfold goEffect
  cases ext.ioErr h op with
  | none => exact Or.inl rfl
  | some e => exact Or.inr ⟨e, rfl⟩

theorem clean_write (fd d : GoString) : clean [GoFOp.write fd d] = [GoFOp.write fd d] := rfl
theorem clean_append (a b : List GoFOp) : clean (a ++ b) = clean a ++ clean b := by simp [clean]

/-- a stage that did `x` (no removals) and then, from there, a stage for `rest`, is a stage for `x ++ rest` -/
theorem Good.shift {x rest ops0 : List GoFOp} {r : GroupSet × GoErr} (hx : clean x = x) (h : Good rest (ops0 ++ x) r) :
    Good (x ++ rest) ops0 r := by
  obtain ⟨pre, h1, h2, h3⟩ := h
  refine ⟨x ++ pre, by rw [h1, List.append_assoc], ?_, ?_⟩
  · rw [clean_append, hx]; exact List.prefix_append_right_inj x |>.2 h2
  · intro he; rw [clean_append, hx, h3 he]

/-- a stage that stopped at once -/
theorem Good.stop (full ops0 : List GoFOp) (g : GroupSet) (e : GoString) (hg : g.ops = ops0) : Good full ops0 (g, some e) :=
  ⟨[], by simp [hg], by simp [clean], fun h => by cases h⟩

theorem Good.done (ops0 : List GoFOp) (g : GroupSet) (e : GoErr) (hg : g.ops = ops0) : Good [] ops0 (g, e) :=
  ⟨[], by simp [hg], by simp [clean], fun _ => rfl⟩

/-- **the header loop under any failures** -/
theorem header_any (ext : Ext) (query : GQuery) (fd : GoString) (last : Int) :
    ∀ (l : List (Int × selectCondition)) (e0 : GoErr) (g : GroupSet),
      Good (lineG fd last (l.map fun x => (x.1, x.2.FieldStorage)) ++ [GoFOp.write fd [10]]) g.ops
        (goRange l (e0, g)
          (fun (err, g) (i, sc) =>
            let (_h1, _e1) := goEffect ext g.ops (GoFOp.write fd sc.FieldStorage)
            let g := { g with ops := _h1 }
            let _t2 := (GoLen.len sc.FieldStorage)
            let _t3 := _e1
            let err := _t3
            if (err != none) then
              LoopStep.ret (g, err)
            else
              if (i == last) then
                LoopStep.next (err, g)
              else
                let (_h4, _e4) := goEffect ext g.ops (GoFOp.write fd ([44] : GoString))
                let g := { g with ops := _h4 }
                let _t5 := (GoLen.len ([44] : GoString))
                let _t6 := _e4
                let err := _t6
                if (err != none) then
                  LoopStep.ret (g, err)
                else
                  LoopStep.next (err, g))
          (fun (err, g) =>
            let (_h7, _e7) := goEffect ext g.ops (GoFOp.write fd ([10] : GoString))
            let g := { g with ops := _h7 }
            let _t8 := (GoLen.len ([10] : GoString))
            let _t9 := _e7
            let err := _t9
            (g, err))) := by
  intro l
  induction l with
  | nil =>
    intro e0 g
    simp only [goRange, List.map_nil, lineG, List.nil_append]
    rcases goEffect_cases ext g.ops (GoFOp.write fd [10]) with h | ⟨e, h⟩
    · simp only [h]
      exact ⟨[GoFOp.write fd [10]], rfl, by simp [clean], fun _ => rfl⟩
    · simp only [h]
      exact Good.stop _ _ _ e rfl
  | cons x rest ih =>
    intro e0 g
    obtain ⟨i, sc⟩ := x
    rw [goRange_cons]
    simp only [List.map_cons, lineG]
    rcases goEffect_cases ext g.ops (GoFOp.write fd sc.FieldStorage) with h | ⟨e, h⟩
    · simp only [h, none_bne, Bool.false_eq_true, if_false]
      by_cases hl : (i == last) = true
      · simp only [hl, if_true, List.nil_append]
        have := ih none { g with ops := g.ops ++ [GoFOp.write fd sc.FieldStorage] }
        exact Good.shift (x := [GoFOp.write fd sc.FieldStorage]) rfl this
      · simp only [hl, Bool.false_eq_true, if_false]
        rcases goEffect_cases ext (g.ops ++ [GoFOp.write fd sc.FieldStorage]) (GoFOp.write fd [44]) with h2 | ⟨e2, h2⟩
        · simp only [h2, none_bne, Bool.false_eq_true, if_false]
          have := ih none { g with ops := g.ops ++ [GoFOp.write fd sc.FieldStorage] ++ [GoFOp.write fd [44]] }
          have hs := Good.shift (x := [GoFOp.write fd sc.FieldStorage, GoFOp.write fd [44]]) rfl
            (by simpa [List.append_assoc] using this)
          simpa [List.append_assoc] using hs
        · have hne : ((some e2 : GoErr) != none) = true := rfl
          simp only [h2, hne, if_true]
          refine ⟨[GoFOp.write fd sc.FieldStorage], rfl, ?_, fun he => by cases he⟩
          simp [clean]
    · have hne : ((some e : GoErr) != none) = true := rfl
      simp only [h, hne, if_true]
      exact Good.stop _ _ _ e rfl

abbrev OStep := LoopStep (Outcome (GroupSet × GoErr)) GroupSet

/-- what one row's inner loop may hand to the loop over the rows: go on with the whole line written, or leave the function
    with an error and a prefix of the line written -/
def InnerGood (fullLine ops0 : List GoFOp) : OStep → Prop
  | .next g' => g'.ops = ops0 ++ fullLine
  | .ret (.ok (g', some _)) => ∃ pre, g'.ops = ops0 ++ pre ∧ pre <+: fullLine
  | _ => False

theorem InnerGood.shift {x rest ops0 : List GoFOp} {s : OStep} (h : InnerGood rest (ops0 ++ x) s) : InnerGood (x ++ rest) ops0 s := by
  cases s with
  | next g' => simpa [InnerGood, List.append_assoc] using h
  | brk g' => exact h
  | ret r =>
    cases r with
    | ok v =>
      obtain ⟨g', e⟩ := v
      cases e with
      | none => exact h
      | some m =>
        obtain ⟨pre, h1, h2⟩ := h
        exact ⟨x ++ pre, by rw [h1, List.append_assoc], (List.prefix_append_right_inj x).2 h2⟩
    | panic m => exact h
    | err m => exact h

/-- **one row under any failures** -/
theorem inner_any (ext : Ext) (fd : GoString) (last : Int) :
    ∀ (vals : List (Int × GoString)) (g : GroupSet),
      InnerGood (lineG fd last vals ++ [GoFOp.write fd [10]]) g.ops
        (goRange vals g
          (fun g (y : Int × GoString) =>
            let (_h3, _e3) := goEffect ext g.ops (GoFOp.write fd y.2)
            let g := { g with ops := _h3 }
            let _t4 := (GoLen.len y.2)
            let _t5 := _e3
            let _u6 := _t4
            let err := _t5
            if (err != none) then
              LoopStep.ret (LoopStep.ret (Outcome.ok (g, err)))
            else
              if (y.1 == last) then
                LoopStep.next g
              else
                let (_h7, _e7) := goEffect ext g.ops (GoFOp.write fd ([44] : GoString))
                let g := { g with ops := _h7 }
                let _t8 := (GoLen.len ([44] : GoString))
                let _t9 := _e7
                let _u10 := _t8
                let err := _t9
                if (err != none) then
                  LoopStep.ret (LoopStep.ret (Outcome.ok (g, err)))
                else
                  LoopStep.next g)
          (fun g =>
            let (_h11, _e11) := goEffect ext g.ops (GoFOp.write fd ([10] : GoString))
            let g := { g with ops := _h11 }
            let _t12 := (GoLen.len ([10] : GoString))
            let _t13 := _e11
            let _u14 := _t12
            let err := _t13
            if (err != none) then
              (LoopStep.ret (Outcome.ok (g, err)) : OStep)
            else
              LoopStep.next g)) := by
  intro vals
  induction vals with
  | nil =>
    intro g
    simp only [goRange, lineG, List.nil_append]
    rcases goEffect_cases ext g.ops (GoFOp.write fd [10]) with h | ⟨e, h⟩
    · simp only [h, none_bne, Bool.false_eq_true, if_false]; rfl
    · have hne : ((some e : GoErr) != none) = true := rfl
      simp only [h, hne, if_true]
      exact ⟨[], by simp, List.nil_prefix⟩
  | cons y rest ih =>
    intro g
    obtain ⟨j, v⟩ := y
    rw [goRange_cons]
    simp only [lineG]
    rcases goEffect_cases ext g.ops (GoFOp.write fd v) with h | ⟨e, h⟩
    · simp only [h, none_bne, Bool.false_eq_true, if_false]
      by_cases hl : (j == last) = true
      · simp only [hl, if_true, List.nil_append]
        have := ih { g with ops := g.ops ++ [GoFOp.write fd v] }
        exact InnerGood.shift (x := [GoFOp.write fd v]) this
      · simp only [hl, Bool.false_eq_true, if_false]
        rcases goEffect_cases ext (g.ops ++ [GoFOp.write fd v]) (GoFOp.write fd [44]) with h2 | ⟨e2, h2⟩
        · simp only [h2, none_bne, Bool.false_eq_true, if_false]
          have := ih { g with ops := g.ops ++ [GoFOp.write fd v] ++ [GoFOp.write fd [44]] }
          have hs := InnerGood.shift (x := [GoFOp.write fd v, GoFOp.write fd [44]]) (by simpa [List.append_assoc] using this)
          simpa [List.append_assoc] using hs
        · have hne : ((some e2 : GoErr) != none) = true := rfl
          simp only [h2, hne, if_true]
          exact ⟨[GoFOp.write fd v], rfl, by simp⟩
    · have hne : ((some e : GoErr) != none) = true := rfl
      simp only [h, hne, if_true]
      exact ⟨[], by simp, List.nil_prefix⟩

/-- a stage on an `Outcome` -/
def GoodO (full ops0 : List GoFOp) (o : Outcome (GroupSet × GoErr)) : Prop := ∃ r, o = Outcome.ok r ∧ Good full ops0 r

theorem GoodO.shift {x rest ops0 : List GoFOp} {o : Outcome (GroupSet × GoErr)} (hx : clean x = x) (h : GoodO rest (ops0 ++ x) o) :
    GoodO (x ++ rest) ops0 o := by
  obtain ⟨r, h1, h2⟩ := h
  exact ⟨r, h1, Good.shift hx h2⟩

/-- the rows the loop writes: up to the one whose index is the limit -/
def rowsFull (fd : GoString) (last limit : Int) : List (Int × GRow) → List GoFOp
  | [] => []
  | x :: rest => if x.1 == limit then [] else (lineG fd last (goEnum x.2.values) ++ [GoFOp.write fd [10]]) ++ rowsFull fd last limit rest

theorem rowsFull_eq (fd : GoString) (last limit : Int) (l : List (Int × GRow)) :
    rowsFull fd last limit l
      = (l.takeWhile (fun x => !(x.1 == limit))).flatMap fun x => lineG fd last (goEnum x.2.values) ++ [GoFOp.write fd [10]] := by
  induction l with
  | nil => rfl
  | cons x rest ih =>
    unfold rowsFull
    by_cases h : (x.1 == limit) = true
    · simp [h]
    · simp only [h, Bool.false_eq_true, if_false, List.takeWhile_cons, Bool.not_false, if_true, List.flatMap_cons]
      have h' : (x.1 == limit) = false := by simpa using h
      simp only [h', Bool.not_false, if_true, List.flatMap_cons, ih]

/-- the end of `resultWriteUnformatted`: the rename of the temporary file, and its removal when that fails -/
def renameFull (o : GOutfile) (final : Bool) : List GoFOp :=
  if (!o.AppendMode && final) then [GoFOp.rename (o.FilePath ++ TMP) o.FilePath] else []

theorem clean_lineG (fd : GoString) (last : Int) (l : List (Int × GoString)) : clean (lineG fd last l) = lineG fd last l := by
  induction l with
  | nil => rfl
  | cons x rest ih =>
    obtain ⟨j, v⟩ := x
    simp only [lineG]
    by_cases h : (j == last) = true
    · simp only [h, if_true, List.nil_append]
      show clean ([GoFOp.write fd v] ++ lineG fd last rest) = _
      rw [clean_append, ih]; rfl
    · simp only [h, Bool.false_eq_true, if_false]
      show clean ([GoFOp.write fd v, GoFOp.write fd [44]] ++ lineG fd last rest) = _
      rw [clean_append, ih]; rfl

/-- **the loop over the rows and the rename, under any failures** -/
theorem rows_any (ext : Ext) (query : GQuery) (o : GOutfile) (fd : GoString) (final : Bool) :
    ∀ (l : List (Int × GRow)) (g : GroupSet),
      GoodO (rowsFull fd (GoLen.len query.Select - 1) query.Limit l ++ renameFull o final) g.ops
        (goRange l g
          (fun g (x : Int × GRow) =>
            if (x.1 == query.Limit) then
              (LoopStep.brk g : OStep)
            else
              goRange (goEnum x.2.values) g
                (fun g (y : Int × GoString) =>
                  let (_h3, _e3) := goEffect ext g.ops (GoFOp.write fd y.2)
                  let g := { g with ops := _h3 }
                  let _t4 := (GoLen.len y.2)
                  let _t5 := _e3
                  let _u6 := _t4
                  let err := _t5
                  if (err != none) then
                    LoopStep.ret (LoopStep.ret (Outcome.ok (g, err)))
                  else
                    if (y.1 == (GoLen.len query.Select - 1)) then
                      LoopStep.next g
                    else
                      let (_h7, _e7) := goEffect ext g.ops (GoFOp.write fd ([44] : GoString))
                      let g := { g with ops := _h7 }
                      let _t8 := (GoLen.len ([44] : GoString))
                      let _t9 := _e7
                      let _u10 := _t8
                      let err := _t9
                      if (err != none) then
                        LoopStep.ret (LoopStep.ret (Outcome.ok (g, err)))
                      else
                        LoopStep.next g)
                (fun g =>
                  let (_h11, _e11) := goEffect ext g.ops (GoFOp.write fd ([10] : GoString))
                  let g := { g with ops := _h11 }
                  let _t12 := (GoLen.len ([10] : GoString))
                  let _t13 := _e11
                  let _u14 := _t12
                  let err := _t13
                  if (err != none) then
                    (LoopStep.ret (Outcome.ok (g, err)) : OStep)
                  else
                    LoopStep.next g))
          (fun g =>
            if ((!(goDeref (some o)).AppendMode) && final) then
              let tmpOutfile := ((goDeref (some o)).FilePath ++ ([46, 116, 109, 112] : GoString))
              let (_h15, _e15) := goEffect ext g.ops (GoFOp.rename tmpOutfile (goDeref (some o)).FilePath)
              let g := { g with ops := _h15 }
              let _t16 := _e15
              let err := _t16
              if (err != none) then
                let (_h17, _e17) := goEffect ext g.ops (GoFOp.remove tmpOutfile)
                let g := { g with ops := _h17 }
                (Outcome.ok (g, err))
              else
                (Outcome.ok (g, none))
            else
              (Outcome.ok (g, none)))) := by
  -- the tail
  have htail : ∀ g : GroupSet, GoodO (renameFull o final) g.ops
      (if ((!(goDeref (some o)).AppendMode) && final) then
        let tmpOutfile := ((goDeref (some o)).FilePath ++ ([46, 116, 109, 112] : GoString))
        let (_h15, _e15) := goEffect ext g.ops (GoFOp.rename tmpOutfile (goDeref (some o)).FilePath)
        let g := { g with ops := _h15 }
        let _t16 := _e15
        let err := _t16
        if (err != none) then
          let (_h17, _e17) := goEffect ext g.ops (GoFOp.remove tmpOutfile)
          let g := { g with ops := _h17 }
          (Outcome.ok (g, err))
        else
          (Outcome.ok (g, none))
      else
        (Outcome.ok (g, none))) := by
    intro g
    have hd : (goDeref (some o) : GOutfile) = o := rfl
    unfold renameFull
    simp only [hd]
    cases hc : (!o.AppendMode && final)
    · simp only [Bool.false_eq_true, if_false]
      exact ⟨_, rfl, Good.done _ _ _ rfl⟩
    · simp only [if_true]
      have htmp : (o.FilePath ++ ([46, 116, 109, 112] : GoString)) = o.FilePath ++ TMP := rfl
      rcases goEffect_cases ext g.ops (GoFOp.rename (o.FilePath ++ TMP) o.FilePath) with h | ⟨e, h⟩
      · simp only [htmp, h, none_bne, Bool.false_eq_true, if_false]
        exact ⟨_, rfl, [GoFOp.rename (o.FilePath ++ TMP) o.FilePath], rfl, by simp [clean], fun _ => rfl⟩
      · have hne : ((some e : GoErr) != none) = true := rfl
        simp only [htmp, h, hne, if_true]
        rcases goEffect_cases ext g.ops (GoFOp.remove (o.FilePath ++ TMP)) with h2 | ⟨e2, h2⟩
        · simp only [h2]
          exact ⟨_, rfl, [GoFOp.remove (o.FilePath ++ TMP)], rfl, by simp [clean], fun he => by cases he⟩
        · simp only [h2]
          exact ⟨_, rfl, Good.stop _ _ _ e rfl⟩
  intro l
  induction l with
  | nil => intro g; simp only [goRange, rowsFull, List.nil_append]; exact htail g
  | cons x rest ih =>
    intro g
    rw [goRange_cons]
    unfold rowsFull
    by_cases hl : (x.1 == query.Limit) = true
    · simp only [hl, if_true, List.nil_append]
      exact htail g
    · simp only [hl, Bool.false_eq_true, if_false]
      have hin := inner_any ext fd (GoLen.len query.Select - 1) (goEnum x.2.values) g
      generalize hgs : goRange (goEnum x.2.values) g _ _ = st at hin
      cases st with
      | next g' =>
        simp only [InnerGood] at hin
        simp only []
        have := ih g'
        rw [hin] at this
        rw [List.append_assoc]
        exact GoodO.shift (by rw [clean_append, clean_lineG]; rfl) this
      | brk g' => exact absurd hin (by simp [InnerGood])
      | ret r =>
        cases r with
        | ok v =>
          obtain ⟨g', e⟩ := v
          cases e with
          | none => exact absurd hin (by simp [InnerGood])
          | some m =>
            obtain ⟨pre, h1, h2⟩ := hin
            simp only []
            refine ⟨_, rfl, pre, h1, ?_, fun he => by cases he⟩
            have hL : clean (lineG fd (GoLen.len query.Select - 1) (goEnum x.2.values) ++ [GoFOp.write fd [10]])
                = lineG fd (GoLen.len query.Select - 1) (goEnum x.2.values) ++ [GoFOp.write fd [10]] := by
              rw [clean_append, clean_lineG]; rfl
            have hall := List.filter_eq_self.1 hL
            have hcl : clean pre = pre := List.filter_eq_self.2 (fun a ha => hall a (h2.subset ha))
            rw [hcl]
            exact h2.trans (by rw [List.append_assoc]; exact List.prefix_append _ _)
        | panic m => exact absurd hin (by simp [InnerGood])
        | err m => exact absurd hin (by simp [InnerGood])

/-- `rwuOps` with the rows written as `rowsFull` -/
theorem rwuOps_eq (query : GQuery) (o : GOutfile) (rows : List GRow) (fd : GoString) (wh final : Bool) :
    rwuOps query o rows fd wh final =
      (if wh then lineG fd (GoLen.len query.Select - 1) ((goEnum query.Select).map fun x => (x.1, x.2.FieldStorage)) ++ [GoFOp.write fd [10]] else [])
      ++ (rowsFull fd (GoLen.len query.Select - 1) query.Limit (goEnum rows) ++ renameFull o final) := by
  unfold rwuOps rowsUpTo renameFull
  rw [rowsFull_eq]
  simp only [List.append_assoc]

theorem header_fn_any (ext : Ext) (g : GroupSet) (query : GQuery) (fd : GoString) (last : Int) :
    Good (lineG fd last ((goEnum query.Select).map fun x => (x.1, x.2.FieldStorage)) ++ [GoFOp.write fd [10]]) g.ops
      (GroupSet.resultWriteUnformattedHeader ext g query fd last) := by
  unfold GroupSet.resultWriteUnformattedHeader
  exact header_any ext query fd last (goEnum query.Select) (GoZero.zero : GoErr) g

/-- **`resultWriteUnformatted` under any failures**: what it did is a prefix of what it does when nothing fails -/
theorem rwu_any (ext : Ext) (g : GroupSet) (query : GQuery) (o : GOutfile) (ho : query.Outfile = some o)
    (rows : List GRow) (fd : GoString) (wh final : Bool) :
    GoodO (rwuOps query o rows fd wh final) g.ops (GroupSet.resultWriteUnformatted ext g query rows fd wh final) := by
  rw [rwuOps_eq]
  unfold GroupSet.resultWriteUnformatted
  simp only [ho, Option.isSome_some, if_true]
  cases wh
  · simp only [Bool.false_eq_true, if_false, List.nil_append]
    exact rows_any ext query o fd final (goEnum rows) g
  · simp only [if_true]
    obtain ⟨pre, h1, h2, h3⟩ := header_fn_any ext g query fd (GoLen.len query.Select - 1)
    rcases hres : GroupSet.resultWriteUnformattedHeader ext g query fd (GoLen.len query.Select - 1) with ⟨g1, e1⟩
    rw [hres] at h1 h3
    simp only at h1 h3
    cases e1 with
    | some m =>
      have hne : ((some m : GoErr) != none) = true := rfl
      simp only [hne, if_true]
      exact ⟨_, rfl, pre, h1, h2.trans (List.prefix_append _ _), fun he => by cases he⟩
    | none =>
      simp only [none_bne, Bool.false_eq_true, if_false]
      have hfull := h3 rfl
      have hr := rows_any ext query o fd final (goEnum rows) g1
      rw [h1] at hr
      obtain ⟨r, hr1, pre2, hp1, hp2, hp3⟩ := hr
      refine ⟨r, hr1, pre ++ pre2, by rw [hp1, List.append_assoc], ?_, ?_⟩
      · rw [clean_append, hfull]; exact (List.prefix_append_right_inj _).2 hp2
      · intro he; rw [clean_append, hfull, hp3 he]

theorem writeQueryFile_any (ext : Ext) (g : GroupSet) (query : GQuery) (o : GOutfile) (ho : query.Outfile = some o) :
    GoodO [GoFOp.open (o.FilePath ++ QUERYEXT ++ TMP) .trunc, .write (o.FilePath ++ QUERYEXT ++ TMP) query.RawQuery,
        .rename (o.FilePath ++ QUERYEXT ++ TMP) (o.FilePath ++ QUERYEXT)] g.ops
      (GroupSet.writeQueryFile ext g query) := by
  unfold GroupSet.writeQueryFile
  have hd : (goDeref (some o) : GOutfile) = o := rfl
  have hq2 : (o.FilePath ++ lit_0) = o.FilePath ++ QUERYEXT := rfl
  have hq : (o.FilePath ++ QUERYEXT ++ ([46, 116, 109, 112] : GoString)) = o.FilePath ++ QUERYEXT ++ TMP := rfl
  simp only [ho, Option.isSome_some, if_true, hd, hq2, hq]
  rcases goEffect_cases ext g.ops (GoFOp.open (o.FilePath ++ QUERYEXT ++ TMP) .trunc) with h | ⟨e, h⟩
  · simp only [h, none_bne, Bool.false_eq_true, if_false]
    rcases goEffect_cases ext (g.ops ++ [GoFOp.open (o.FilePath ++ QUERYEXT ++ TMP) .trunc])
        (GoFOp.write (o.FilePath ++ QUERYEXT ++ TMP) query.RawQuery) with h2 | ⟨e2, h2⟩
    · simp only [h2, none_bne, Bool.false_eq_true, if_false]
      rcases goEffect_cases ext (g.ops ++ [GoFOp.open (o.FilePath ++ QUERYEXT ++ TMP) .trunc] ++ [GoFOp.write (o.FilePath ++ QUERYEXT ++ TMP) query.RawQuery])
          (GoFOp.rename (o.FilePath ++ QUERYEXT ++ TMP) (o.FilePath ++ QUERYEXT)) with h3 | ⟨e3, h3⟩
      · simp only [h3]
        exact ⟨_, rfl, [GoFOp.open (o.FilePath ++ QUERYEXT ++ TMP) .trunc, .write (o.FilePath ++ QUERYEXT ++ TMP) query.RawQuery,
          .rename (o.FilePath ++ QUERYEXT ++ TMP) (o.FilePath ++ QUERYEXT)], by simp [List.append_assoc], by simp [clean], fun _ => by simp [clean]⟩
      · simp only [h3]
        exact ⟨_, rfl, [GoFOp.open (o.FilePath ++ QUERYEXT ++ TMP) .trunc, .write (o.FilePath ++ QUERYEXT ++ TMP) query.RawQuery],
          by simp [List.append_assoc], by simp [clean], fun he => by cases he⟩
    · have hne : ((some e2 : GoErr) != none) = true := rfl
      simp only [h2, hne, if_true]
      exact ⟨_, rfl, [GoFOp.open (o.FilePath ++ QUERYEXT ++ TMP) .trunc], rfl, by simp [clean], fun he => by cases he⟩
  · have hne : ((some e : GoErr) != none) = true := rfl
    simp only [h, hne, if_true]
    exact ⟨_, rfl, Good.stop _ _ _ e rfl⟩

/-- `getOutfileFD` under any failures: the open, or nothing; without an error the descriptor is the target -/
theorem getOutfileFD_any (ext : Ext) (g : GroupSet) (query : GQuery) (o : GOutfile) (ho : query.Outfile = some o) :
    ∃ g' fd e, GroupSet.getOutfileFD ext g query = Outcome.ok (g', fd, e) ∧
      Good (if o.AppendMode then [GoFOp.open o.FilePath .append] else [GoFOp.open (o.FilePath ++ TMP) .trunc]) g.ops (g', e) ∧
      (e = none → fd = if o.AppendMode then o.FilePath else o.FilePath ++ TMP) := by
  unfold GroupSet.getOutfileFD
  have hd : (goDeref (some o) : GOutfile) = o := rfl
  have htmp : (o.FilePath ++ ([46, 116, 109, 112] : GoString)) = o.FilePath ++ TMP := rfl
  simp only [ho, Option.isSome_some, if_true, hd, htmp]
  cases ha : o.AppendMode
  · simp only [Bool.not_false, if_true, Bool.false_eq_true, if_false]
    rcases goEffect_cases ext g.ops (GoFOp.open (o.FilePath ++ TMP) .trunc) with h | ⟨e, h⟩
    · simp only [h]
      exact ⟨_, _, _, rfl, ⟨[GoFOp.open (o.FilePath ++ TMP) .trunc], rfl, by simp [clean], fun _ => by simp [clean]⟩, fun _ => rfl⟩
    · simp only [h]
      exact ⟨_, _, _, rfl, Good.stop _ _ _ e rfl, fun he => by cases he⟩
  · simp only [Bool.not_true, Bool.false_eq_true, if_false, if_true]
    rcases goEffect_cases ext g.ops (GoFOp.open o.FilePath .append) with h | ⟨e, h⟩
    · simp only [h]
      exact ⟨_, _, _, rfl, ⟨[GoFOp.open o.FilePath .append], rfl, by simp [clean], fun _ => by simp [clean]⟩, fun _ => rfl⟩
    · simp only [h]
      exact ⟨_, _, _, rfl, Good.stop _ _ _ e rfl, fun he => by cases he⟩

/-- the operations of a `WriteResult` in which nothing fails, in the translation's own terms (`WriteResult_ok`) -/
def fullG (ext : Ext) (query : GQuery) (o : GOutfile) (final : Bool) : List GoFOp :=
  [GoFOp.open (o.FilePath ++ QUERYEXT ++ TMP) .trunc, .write (o.FilePath ++ QUERYEXT ++ TMP) query.RawQuery,
    .rename (o.FilePath ++ QUERYEXT ++ TMP) (o.FilePath ++ QUERYEXT)]
  ++ (if o.AppendMode then [GoFOp.open o.FilePath .append] else [GoFOp.open (o.FilePath ++ TMP) .trunc])
  ++ rwuOps query o (rowsOf ext) (if o.AppendMode then o.FilePath else o.FilePath ++ TMP) (headerG ext o) final

theorem GoodO.seq {a b ops0 : List GoFOp} {g1 : GroupSet} {o : Outcome (GroupSet × GoErr)} {pre : List GoFOp}
    (h1 : g1.ops = ops0 ++ pre) (hfull : clean pre = a) (h2 : GoodO b g1.ops o) : GoodO (a ++ b) ops0 o := by
  obtain ⟨r, hr, pre2, hp1, hp2, hp3⟩ := h2
  refine ⟨r, hr, pre ++ pre2, by rw [hp1, h1, List.append_assoc], ?_, ?_⟩
  · rw [clean_append, hfull]; exact (List.prefix_append_right_inj _).2 hp2
  · intro he; rw [clean_append, hfull, hp3 he]

/-- **the translated `WriteResult` under any failures**: whatever `ext.ioErr` makes fail, the function returns, and what it has
    done (the removal of the temporary file after a failed rename aside) is a prefix of what it does when nothing fails — all
    of it when it reports no error -/
theorem WriteResult_any (ext : Ext) (g : GroupSet) (query : GQuery) (o : GOutfile) (ho : query.Outfile = some o) (final : Bool) :
    GoodO (fullG ext query o final) g.ops (GroupSet.WriteResult ext g query final) := by
  unfold GroupSet.WriteResult Query.HasOutfile fullG
  have hne : (query.Outfile != none) = true := by rw [ho]; rfl
  simp only [hne, Bool.not_true, Bool.false_eq_true, if_false]
  obtain ⟨⟨g1, e1⟩, h1, pre1, hp1, hp2, hp3⟩ := writeQueryFile_any ext g query o ho
  rw [h1]
  simp only at hp1 hp3 ⊢
  cases e1 with
  | some m =>
    have hn : ((some m : GoErr) != none) = true := rfl
    simp only [hn, if_true]
    exact ⟨_, rfl, pre1, hp1, hp2.trans (by rw [List.append_assoc]; exact List.prefix_append _ _), fun he => by cases he⟩
  | none =>
    simp only [none_bne, Bool.false_eq_true, if_false]
    rw [List.append_assoc]
    apply GoodO.seq hp1 (hp3 rfl)
    -- the rest: open the outfile, write
    have hrest : ∀ (wh : Bool), GoodO
        ((if o.AppendMode then [GoFOp.open o.FilePath .append] else [GoFOp.open (o.FilePath ++ TMP) .trunc]) ++
          rwuOps query o (rowsOf ext) (if o.AppendMode then o.FilePath else o.FilePath ++ TMP) wh final) g1.ops
        (match GroupSet.getOutfileFD ext g1 query with
          | Outcome.ok _o11 =>
            let (_r12, _t13, _t14) := _o11
            let g := _r12
            let fd := _t13
            let err := _t14
            if (err != none) then
              (Outcome.ok (g, err))
            else
              match GroupSet.resultWriteUnformatted ext g query (List.map (fun v => ({ values := v } : result)) ext.rowValues) fd wh final with
              | Outcome.ok _o16 =>
                let (_r17, _t18) := _o16
                let g := _r17
                let ret_15 := _t18
                (Outcome.ok (g, ret_15))
              | _ =>
                (Outcome.panic "panic in GroupSet.resultWriteUnformatted")
          | _ =>
            (Outcome.panic "panic in GroupSet.getOutfileFD")) := by
      intro wh
      obtain ⟨g2, fd, e2, h2, ⟨pre2, hq1, hq2, hq3⟩, hfd⟩ := getOutfileFD_any ext g1 query o ho
      rw [h2]
      simp only at hq1 hq3 ⊢
      cases e2 with
      | some m =>
        have hn : ((some m : GoErr) != none) = true := rfl
        simp only [hn, if_true]
        exact ⟨_, rfl, pre2, hq1, hq2.trans (List.prefix_append _ _), fun he => by cases he⟩
      | none =>
        simp only [none_bne, Bool.false_eq_true, if_false]
        have hfd' := hfd rfl
        subst hfd'
        apply GoodO.seq hq1 (hq3 rfl)
        obtain ⟨r, hr, hg⟩ := rwu_any ext g2 query o ho (rowsOf ext) (if o.AppendMode then o.FilePath else o.FilePath ++ TMP) wh final
        have hr' : GroupSet.resultWriteUnformatted ext g2 query (List.map (fun v => ({ values := v } : result)) ext.rowValues)
            (if o.AppendMode then o.FilePath else o.FilePath ++ TMP) wh final = Outcome.ok r := hr
        rw [hr']
        exact ⟨r, rfl, hg⟩
    unfold headerG
    have hd : (goDeref (some o) : GOutfile) = o := rfl
    simp only [ho, Option.isSome_some, if_true, hd]
    cases ha : o.AppendMode
    · simp only [Bool.false_eq_true, if_false, Bool.false_and, Bool.not_false]
      have := hrest true
      rw [ha] at this
      simp only [Bool.false_eq_true, if_false] at this
      exact this
    · simp only [if_true, Bool.true_and]
      cases hs : ((ext.osStat o.FilePath).2 == none && decide ((ext.osStat o.FilePath).1.size > 0))
      · simp only [hs, Bool.false_eq_true, if_false, Bool.not_false]
        have := hrest true
        rw [ha] at this
        simp only [if_true] at this
        exact this
      · simp only [hs, if_true, Bool.not_true]
        have := hrest false
        rw [ha] at this
        simp only [if_true] at this
        exact this

/-- the environment in which no file operation fails, everything else as in `ext` -/
def quiet (ext : Ext) : Ext := { ext with ioErr := fun _ _ => none }

theorem quiet_noErr (ext : Ext) : NoIOErr (quiet ext) := fun _ _ => rfl

/-- `fullG` is the model's operation list (the failures `ext` decides play no part in it) -/
theorem full_is_model (ext : Ext) (fs : FS) (hstat : StatAgrees ext fs) (query : GQuery) (o : GOutfile)
    (ho : query.Outfile = some o) (final : Bool) (hrows : ∀ row ∈ ext.rowValues, row.length = query.Select.length) :
    fullG ext query o final = (writeResultOps fs (reqOf ext query o final)).map ofFOp := by
  have h1 := WriteResult_ok (quiet ext) (quiet_noErr ext) {} query o ho final
  have h2 := WriteResult_refines (quiet ext) (quiet_noErr ext) fs hstat {} query o ho final hrows
  rw [h1] at h2
  have h3 := congrArg (fun r => match r with | Outcome.ok (g, _) => g.ops | _ => []) h2
  simp only [List.append_cancel_left_eq] at h3
  exact h3

theorem filterMap_clean (l : List GoFOp) : (clean l).filterMap toFOp = l.filterMap toFOp := by
  induction l with
  | nil => rfl
  | cons x xs ih =>
    cases x with
    | remove p => show (clean xs).filterMap toFOp = _; rw [ih]; rfl
    | «open» p m => show (GoFOp.open p m :: clean xs).filterMap toFOp = _; rw [List.filterMap_cons, List.filterMap_cons, ih]
    | write p d => show (GoFOp.write p d :: clean xs).filterMap toFOp = _; rw [List.filterMap_cons, List.filterMap_cons, ih]
    | rename a b => show (GoFOp.rename a b :: clean xs).filterMap toFOp = _; rw [List.filterMap_cons, List.filterMap_cons, ih]

theorem filterMap_of (l : List FOp) : (l.map ofFOp).filterMap toFOp = l := by
  rw [List.filterMap_map]
  have : (toFOp ∘ ofFOp) = some := by funext x; exact toFOp_ofFOp x
  rw [this, List.filterMap_some]

/-- **the translated `WriteResult` under any failures, in the model's terms**: the model operations among what was done
    are a prefix of `writeResultOps` — all of it when no error is reported -/
theorem WriteResult_any_model (ext : Ext) (fs : FS) (hstat : StatAgrees ext fs) (g : GroupSet) (query : GQuery) (o : GOutfile)
    (ho : query.Outfile = some o) (final : Bool) (hrows : ∀ row ∈ ext.rowValues, row.length = query.Select.length) :
    ∃ g' e pre, GroupSet.WriteResult ext g query final = Outcome.ok (g', e) ∧ g'.ops = g.ops ++ pre ∧
      pre.filterMap toFOp <+: writeResultOps fs (reqOf ext query o final) ∧
      (e = none → pre.filterMap toFOp = writeResultOps fs (reqOf ext query o final)) := by
  obtain ⟨⟨g', e⟩, hr, pre, hp1, hp2, hp3⟩ := WriteResult_any ext g query o ho final
  rw [full_is_model ext fs hstat query o ho final hrows] at hp2 hp3
  refine ⟨g', e, pre, hr, hp1, ?_, ?_⟩
  · have := List.IsPrefix.filterMap toFOp hp2
    rwa [filterMap_clean, filterMap_of] at this
  · intro he
    have := congrArg (List.filterMap toFOp) (hp3 he)
    rwa [filterMap_clean, filterMap_of] at this

end Dtail.GenOutfile
