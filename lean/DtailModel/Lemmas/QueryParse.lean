/-
Structure lemmas for the query parser (C11): what `tokensConsume` does to a clause body, and
that a clause is parsed the same whatever follows it.
-/
import DtailModel.Lemmas.NoPanic
namespace Dtail

/-- what `tokensConsume` makes of one non-keyword token: empty tokens are dropped, a token in
    back-quotes loses them and is marked, anything else is kept -/
def normTok (t : Tok) : Option Tok :=
  if t.str.length = 0 then none
  else if t.str.length > 1 ∧ t.str.head? = some BACKTICK ∧ t.str.getLast? = some BACKTICK then
    some { str := (t.str.take (t.str.length - 1)).drop 1, bare := t.bare, stripped := true }
  else some t

theorem goIndex_zero_head (l : Bytes) (h : 0 < l.length) : ∃ x, goIndex l 0 = .ok x ∧ l.head? = some x := by
  cases l with
  | nil => simp at h
  | cons a r => exact ⟨a, by simp [goIndex], rfl⟩

theorem goIndex_last (l : Bytes) (h : 0 < l.length) : ∃ x, goIndex l (l.length - 1) = .ok x ∧ l.getLast? = some x := by
  have hlt : l.length - 1 < l.length := by omega
  refine ⟨l[l.length - 1], goIndex_of_lt l _ hlt, ?_⟩
  rw [List.getLast?_eq_getElem?]
  exact List.getElem?_eq_getElem hlt

/-- one non-keyword token in front -/
theorem tokensConsume_cons (t : Tok) (rest : List Tok) (hk : t.isKeyword = false) :
    tokensConsume (t :: rest) = (tokensConsume rest).bind (fun rc => .ok (rc.1, (normTok t).toList ++ rc.2)) := by
  rw [tokensConsume]
  simp only [hk, Bool.false_eq_true, if_false]
  unfold normTok
  by_cases h0 : t.str.length = 0
  · simp only [h0, if_true, Bind.bind, Pure.pure]
    cases tokensConsume rest <;> simp [Outcome.bind]
  · have hpos : 0 < t.str.length := Nat.pos_of_ne_zero h0
    obtain ⟨f, hf, hfh⟩ := goIndex_zero_head t.str hpos
    obtain ⟨l, hl, hll⟩ := goIndex_last t.str hpos
    simp only [h0, if_false, Bind.bind, Pure.pure, Outcome.bind, hf, hl, hfh, hll, Option.some.injEq]
    by_cases hb : t.str.length > 1 ∧ f = BACKTICK ∧ l = BACKTICK
    · have hs : goSlice t.str 1 (t.str.length - 1) = .ok ((t.str.take (t.str.length - 1)).drop 1) := by
        have a : ¬ t.str.length - 1 > t.str.length := by omega
        have b : ¬ 1 > t.str.length - 1 := by omega
        simp [goSlice, a, b]
      simp only [hb, and_self, if_true, hs]
      cases tokensConsume rest <;> simp [Outcome.bind]
    · simp only [hb, if_false]
      cases tokensConsume rest <;> simp [Outcome.bind]

/-- a keyword-free body followed by anything -/
theorem tokensConsume_append (body rest : List Tok) (hb : ∀ t ∈ body, t.isKeyword = false) :
    tokensConsume (body ++ rest) = (tokensConsume rest).bind (fun rc => .ok (rc.1, body.filterMap normTok ++ rc.2)) := by
  induction body with
  | nil => cases h : tokensConsume rest <;> simp [Outcome.bind, h]
  | cons t ts ih =>
    have hk := hb t (by simp)
    have ih' := ih (fun x hx => hb x (List.mem_cons_of_mem _ hx))
    rw [List.cons_append, tokensConsume_cons t _ hk, ih']
    cases tokensConsume rest with
    | ok rc => cases hn : normTok t <;> simp [Outcome.bind, List.filterMap_cons, hn]
    | err e => simp [Outcome.bind]
    | panic p => simp [Outcome.bind]

theorem tokensConsume_nil : tokensConsume [] = .ok (none, []) := by rw [tokensConsume]

theorem tokensConsume_keyword (k : Tok) (rest : List Tok) (hk : k.isKeyword = true) :
    tokensConsume (k :: rest) = .ok (some (k :: rest), []) := by
  rw [tokensConsume]; simp [hk]

/-- what follows a clause: nothing, or the next clause's keyword -/
def ClauseEnd (rest : List Tok) : Prop := rest = [] ∨ ∃ k r, rest = k :: r ∧ k.isKeyword = true

theorem tokensConsume_body (body rest : List Tok) (hb : ∀ t ∈ body, t.isKeyword = false) (hr : ClauseEnd rest) :
    ∃ r, tokensConsume (body ++ rest) = .ok (r, body.filterMap normTok) ∧ restOf r = rest := by
  rw [tokensConsume_append body rest hb]
  rcases hr with rfl | ⟨k, r, rfl, hk⟩
  · exact ⟨none, by simp [tokensConsume_nil, Outcome.bind], rfl⟩
  · exact ⟨some (k :: r), by simp [tokensConsume_keyword k r hk, Outcome.bind], rfl⟩

def afterBy (kwl : Bytes) (body : List Tok) : List Tok :=
  if kwl = b!"group" ∨ kwl = b!"rorder" ∨ kwl = b!"order" then consumeOptional body (b!"by") else body

theorem consumeOptional_append (body rest : List Tok) (w : Bytes) (h : body ≠ []) :
    consumeOptional (body ++ rest) w = consumeOptional body w ++ rest := by
  cases body with
  | nil => exact absurd rfl h
  | cons t ts => simp only [List.cons_append, consumeOptional]; split <;> rfl

theorem consumeOptional_sub (body : List Tok) (w : Bytes) : ∀ t ∈ consumeOptional body w, t ∈ body := by
  intro t ht
  cases body with
  | nil => simp [consumeOptional] at ht
  | cons x xs =>
    simp only [consumeOptional] at ht
    split at ht
    · exact List.mem_cons_of_mem _ ht
    · exact ht

set_option linter.unusedSimpArgs false in
set_option maxHeartbeats 1000000 in
theorem parseClause_flat (fl : FloatOracle) (q : Query) (kw : Tok) (body rest : List Tok)
    (hb : ∀ t ∈ body, t.isKeyword = false) (hne : afterBy (lowerKey kw.str) body ≠ []) (hr : ClauseEnd rest) :
    parseClause fl q (kw :: (body ++ rest)) = (parseClause fl q (kw :: body)).bind (fun p => .ok (p.1, rest)) := by
  have hbne : body ≠ [] := by
    intro e; subst e; unfold afterBy at hne; split at hne <;> simp [consumeOptional] at hne
  obtain ⟨r1, h1, hr1⟩ := tokensConsume_body body rest hb hr
  obtain ⟨r0, h0, hr0⟩ := tokensConsume_body body [] hb (Or.inl rfl)
  simp only [List.append_nil] at h0
  have hab : ∀ t ∈ consumeOptional body (b!"by"), t.isKeyword = false := fun t ht => hb t (consumeOptional_sub body _ t ht)
  obtain ⟨r3, h3, hr3⟩ := tokensConsume_body (consumeOptional body (b!"by")) rest hab hr
  obtain ⟨r2, h2, hr2⟩ := tokensConsume_body (consumeOptional body (b!"by")) [] hab (Or.inl rfl)
  simp only [List.append_nil] at h2
  have hco := consumeOptional_append body rest (b!"by") hbne
  unfold parseClause
  simp only [goIndex, goSliceFrom, List.getElem?_cons_zero, List.length_cons, List.drop_succ_cons, List.drop_zero,
    Nat.le_add_left, if_true, Bind.bind, Outcome.bind]
  have hca : afterBy (lowerKey kw.str) body = consumeOptional body (b!"by") →
      ¬ (consumeOptional body (b!"by") ++ rest).length < 1 ∧ ¬ (consumeOptional body (b!"by")).length < 1 := by
    intro e
    rw [e] at hne
    have : 0 < (consumeOptional body (b!"by")).length := List.length_pos_iff.2 hne
    simp only [List.length_append]; omega
  by_cases k1 : lowerKey kw.str = b!"select"
  · simp only [if_pos k1, h1, h0, hr1, hr0]
    cases makeSelect (List.filterMap normTok body) <;> simp
  by_cases k2 : lowerKey kw.str = b!"from"
  · simp only [if_neg k1, if_pos k2, h1, h0, hr1, hr0]
    repeat (first | rfl | split | (simp; done))
  by_cases k3 : lowerKey kw.str = b!"where"
  · simp only [if_neg k1, if_neg k2, if_pos k3, h1, h0, hr1, hr0]
    cases makeWhere fl (List.filterMap normTok body) <;> simp
  by_cases k4 : lowerKey kw.str = b!"set"
  · simp only [if_neg k1, if_neg k2, if_neg k3, if_pos k4, h1, h0, hr1, hr0]
    cases makeSet fl (List.filterMap normTok body) <;> simp
  by_cases k5 : lowerKey kw.str = b!"group"
  · have e : afterBy (lowerKey kw.str) body = consumeOptional body (b!"by") := by simp [afterBy, k5]
    obtain ⟨hl1, hl2⟩ := hca e
    simp only [if_neg k1, if_neg k2, if_neg k3, if_neg k4, if_pos k5, hco, hl1, hl2, h3, h2, hr3, hr2]
    simp
  by_cases k6 : lowerKey kw.str = b!"rorder" ∨ lowerKey kw.str = b!"order"
  · have e : afterBy (lowerKey kw.str) body = consumeOptional body (b!"by") := by
      rcases k6 with k | k <;> simp [afterBy, k]
    obtain ⟨hl1, hl2⟩ := hca e
    simp only [if_neg k1, if_neg k2, if_neg k3, if_neg k4, if_neg k5, if_pos k6, hco, hl1, hl2, h3, h2, hr3, hr2]
    repeat (first | rfl | split | (simp; done))
  have k6a : ¬ lowerKey kw.str = b!"rorder" := fun h => k6 (Or.inl h)
  have k6b : ¬ lowerKey kw.str = b!"order" := fun h => k6 (Or.inr h)
  by_cases k7 : lowerKey kw.str = b!"interval"
  · simp only [if_neg k1, if_neg k2, if_neg k3, if_neg k4, if_neg k5, if_neg k6, if_pos k7, h1, h0, hr1, hr0]
    repeat (first | rfl | split | (simp; done))
  by_cases k8 : lowerKey kw.str = b!"limit"
  · simp only [if_neg k1, if_neg k2, if_neg k3, if_neg k4, if_neg k5, if_neg k6, if_neg k7, if_pos k8, h1, h0, hr1, hr0]
    repeat (first | rfl | split | (simp; done))
  by_cases k9 : lowerKey kw.str = b!"outfile"
  · simp only [if_neg k1, if_neg k2, if_neg k3, if_neg k4, if_neg k5, if_neg k6, if_neg k7, if_neg k8, if_pos k9, h1, h0, hr1, hr0]
    repeat (first | rfl | split | (simp; done))
  by_cases k10 : lowerKey kw.str = b!"logformat"
  · simp only [if_neg k1, if_neg k2, if_neg k3, if_neg k4, if_neg k5, if_neg k6, if_neg k7, if_neg k8, if_neg k9, if_pos k10, h1, h0, hr1, hr0]
    repeat (first | rfl | split | (simp; done))
  simp only [if_neg k1, if_neg k2, if_neg k3, if_neg k4, if_neg k5, if_neg k6, if_neg k7, if_neg k8, if_neg k9, if_neg k10]


/-- a clause as the user writes it: the keyword token and the tokens up to the next keyword -/
structure ClauseT where
  kw : Tok
  body : List Tok

def flatC (cs : List ClauseT) : List Tok := cs.flatMap (fun c => c.kw :: c.body)

/-- the keyword is a keyword, the body holds none, and something follows the (optional `by` of
    the) keyword -/
def ClauseWF (c : ClauseT) : Prop :=
  c.kw.isKeyword = true ∧ (∀ t ∈ c.body, t.isKeyword = false) ∧ afterBy (lowerKey c.kw.str) c.body ≠ []

/-- a clause parsed on its own -/
def clauseStep (fl : FloatOracle) (q : Query) (c : ClauseT) : Outcome Query :=
  (parseClause fl q (c.kw :: c.body)).bind (fun p => .ok p.1)

def foldClauses (fl : FloatOracle) : Query → List ClauseT → Outcome Query
  | q, [] => .ok q
  | q, c :: cs => (clauseStep fl q c).bind (fun q' => foldClauses fl q' cs)

theorem flatC_clauseEnd (cs : List ClauseT) (hwf : ∀ c ∈ cs, ClauseWF c) : ClauseEnd (flatC cs) := by
  cases cs with
  | nil => exact Or.inl rfl
  | cons c rest => exact Or.inr ⟨c.kw, c.body ++ flatC rest, by simp [flatC], (hwf c (by simp)).1⟩

/-- **Clause boundaries**: parsing the flat token list of a query is parsing its clauses one
    by one, each on its own — no token of one clause is ever taken for part of another, in any
    clause order. -/
theorem parseTokensAux_flat (fl : FloatOracle) (cs : List ClauseT) (hwf : ∀ c ∈ cs, ClauseWF c)
    (fuel : Nat) (hf : cs.length ≤ fuel) (q : Query) :
    parseTokensAux fl fuel q (flatC cs) = foldClauses fl q cs := by
  induction cs generalizing fuel q with
  | nil => cases fuel <;> simp [parseTokensAux, flatC, foldClauses]
  | cons c rest ih =>
    cases fuel with
    | zero => simp at hf
    | succ n =>
      have hc := hwf c (by simp)
      have hrest : ∀ x ∈ rest, ClauseWF x := fun x hx => hwf x (List.mem_cons_of_mem _ hx)
      have hflat : flatC (c :: rest) = c.kw :: (c.body ++ flatC rest) := by simp [flatC]
      rw [hflat, parseTokensAux]
      simp only [List.length_cons, Nat.succ_ne_zero, if_false, Nat.add_eq_zero_iff, and_false]
      rw [parseClause_flat fl q c.kw c.body (flatC rest) hc.2.1 hc.2.2 (flatC_clauseEnd rest hrest)]
      simp only [foldClauses, clauseStep]
      cases parseClause fl q (c.kw :: c.body) with
      | ok p => simp only [Bind.bind, Outcome.bind]; exact ih hrest n (by simp at hf; omega) p.1
      | err e => simp [Bind.bind, Outcome.bind]
      | panic p => simp [Bind.bind, Outcome.bind]

end Dtail
