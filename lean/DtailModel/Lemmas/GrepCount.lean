import DtailModel.Lemmas.Grep
namespace Dtail
variable {α : Type}

/-- consecutive numbers `k+1 … k+len` -/
def consec (k : Nat) : Nat → List Nat
  | 0 => []
  | len + 1 => (k + 1) :: consec (k + 1) len

theorem consec_length (k len : Nat) : (consec k len).length = len := by
  induction len generalizing k with
  | zero => rfl
  | succ l ih => simp [consec, ih]

theorem consec_append_one (k len : Nat) : consec k len ++ [k + len + 1] = consec k (len + 1) := by
  induction len generalizing k with
  | zero => simp [consec]
  | succ l ih =>
    simp only [consec, List.cons_append]
    have := ih (k + 1)
    rw [show k + 1 + l + 1 = k + (l + 1) + 1 by omega] at this
    rw [this]; simp [consec]

theorem consec_tail (k len : Nat) : (consec k (len + 1)).tail = consec (k + 1) len := by
  simp [consec]

theorem zipIdx_map_consec (e : List α) (k : Nat) :
    (e.zipIdx (k + 1)).map (fun p => (p.2, p.1)) = (consec k e.length).zip e := by
  induction e generalizing k with
  | nil => simp [consec]
  | cons x xs ih => simp [List.zipIdx_cons, consec, ih (k + 1)]

/-- the tagged state that corresponds to an untagged state at line number `n`: same
    counters, and the ring holds the lines numbered `n-|ring|+1 … n` -/
def tagState (s : GState α) (n : Nat) : GState (Nat × α) :=
  { maxc := s.maxc, maxReached := s.maxReached, after := s.after,
    ring := (consec (n - s.ring.length) s.ring.length).zip s.ring }

/-- the invariant that makes `totalLineCount() - i` the right number for buffered lines -/
def RingInv (B : Nat) (s : GState α) (n : Nat) : Prop :=
  s.ring.length ≤ n ∧ s.ring.length ≤ B ∧ (0 < s.after → s.ring = []) ∧ (B = 0 → s.ring = [])

theorem numberEnding_eq (n : Nat) (e : List α) (h : e.length ≤ n + 1) :
    numberEnding (n + 1) e = (consec (n + 1 - e.length) e.length).zip e := by
  unfold numberEnding
  have : n + 1 + 1 - e.length = (n + 1 - e.length) + 1 := by omega
  rw [this]
  exact zipIdx_map_consec e _

theorem zip_consec_snoc (k : Nat) (l : List α) (x : α) :
    (consec k (l.length + 1)).zip (l ++ [x]) = (consec k l.length).zip l ++ [(k + l.length + 1, x)] := by
  rw [← consec_append_one, List.zip_append (by simp [consec_length])]
  simp

theorem pushRing_tag (B : Nat) (g : List α) (x : α) (n : Nat) (hB : 0 < B) (hg : g.length ≤ B) (hn : g.length ≤ n) :
    pushRing B ((consec (n - g.length) g.length).zip g) ((n + 1), x)
      = (consec (n + 1 - (pushRing B g x).length) (pushRing B g x).length).zip (pushRing B g x) := by
  have hzl : ((consec (n - g.length) g.length).zip g).length = g.length := by
    simp [List.length_zip, consec_length]
  unfold pushRing
  rw [hzl]
  by_cases hlt : g.length < B
  · simp only [hlt, if_true, List.length_append, List.length_cons, List.length_nil, Nat.zero_add]
    rw [zip_consec_snoc]
    have e1 : n + 1 - (g.length + 1) = n - g.length := by omega
    have e2 : n - g.length + g.length + 1 = n + 1 := by omega
    rw [e1, e2]
  · simp only [hlt, if_false]
    cases g with
    | nil => simp at hlt; omega
    | cons a g' =>
      simp only [List.length_cons] at hn hg hlt
      have hL : ((consec (n - (a :: g').length) (a :: g').length).zip (a :: g')).tail
          = (consec (n - (g'.length + 1) + 1) g'.length).zip g' := by
        simp [consec]
      rw [hL]
      have hlen : (List.tail (a :: g') ++ [x]).length = g'.length + 1 := by simp
      rw [hlen]
      simp only [List.tail_cons]
      rw [zip_consec_snoc]
      have e1 : n + 1 - (g'.length + 1) = n - (g'.length + 1) + 1 := by omega
      have e2 : n - (g'.length + 1) + 1 + g'.length + 1 = n + 1 := by omega
      rw [e1, e2]

end Dtail

namespace Dtail
variable {α : Type}

/-- the full invariant used by the count theorem -/
def CountInv (B A : Nat) (s : GState α) (n : Nat) : Prop :=
  s.ring.length ≤ n ∧ s.ring.length ≤ B ∧ (0 < s.after → s.ring = []) ∧ (B = 0 → s.ring = []) ∧ (A = 0 → s.after = 0)

def mapStep (n : Nat) (r : List α × Option (GState α)) : List (Nat × α) × Option (GState (Nat × α)) :=
  (numberEnding (n + 1) r.1, r.2.map (fun s' => tagState s' (n + 1)))

theorem tagState_nil_ring (s : GState α) (n : Nat) (h : s.ring = []) :
    (tagState s n).ring = [] := by simp [tagState, h, consec]

theorem numberEnding_snoc (n : Nat) (pre : List α) (x : α) (h : pre.length ≤ n) :
    numberEnding (n + 1) (pre ++ [x]) = (consec (n - pre.length) pre.length).zip pre ++ [(n + 1, x)] := by
  rw [numberEnding_eq n (pre ++ [x]) (by simp; omega)]
  simp only [List.length_append, List.length_cons, List.length_nil, Nat.zero_add]
  rw [zip_consec_snoc]
  have e1 : n + 1 - (pre.length + 1) = n - pre.length := by omega
  have e2 : n - pre.length + pre.length + 1 = n + 1 := by omega
  rw [e1, e2]

/-- one step on numbered lines is the numbered version of the step, and the invariant is kept -/
theorem gstep_tag (B A M : Nat) (s : GState α) (n : Nat) (sel : Bool) (x : α) (h : CountInv B A s n) :
    gstep B A M (tagState s n) sel (n + 1, x) = mapStep n (gstep B A M s sel x)
    ∧ (∀ s', (gstep B A M s sel x).2 = some s' → CountInv B A s' (n + 1)) := by
  obtain ⟨hn, hB, hafter, hB0, hA0⟩ := h
  cases sel with
  | false =>
    by_cases ha : A > 0 ∧ s.after > 0
    · -- trailing context: emitted, the ring is empty
      have hr : s.ring = [] := hafter ha.2
      refine ⟨?_, ?_⟩
      · simp only [gstep, Bool.not_false, if_true, tagState, ha, and_self, mapStep, Option.map_some]
        simp [numberEnding, hr, consec]
      · intro s' hs'
        simp only [gstep, Bool.not_false, if_true, ha, and_self, Option.some.injEq] at hs'
        subst hs'
        exact ⟨by simp [hr], by simp [hr], fun _ => hr, fun _ => hr, fun h0 => by omega⟩
    · have hafter0 : s.after = 0 := by
        by_cases hA : A > 0
        · have : ¬ s.after > 0 := fun h => ha ⟨hA, h⟩
          omega
        · exact hA0 (by omega)
      by_cases hBpos : B > 0
      · refine ⟨?_, ?_⟩
        · simp only [gstep, Bool.not_false, if_true, tagState, ha, if_false, hBpos, mapStep, Option.map_some]
          simp only [numberEnding, List.zipIdx_nil, List.map_nil, Prod.mk.injEq, true_and, Option.some.injEq]
          have := pushRing_tag B s.ring x n hBpos hB hn
          rw [this]
        · intro s' hs'
          simp only [gstep, Bool.not_false, if_true, ha, if_false, hBpos, Option.some.injEq] at hs'
          subst hs'
          have hl := pushRing_length B s.ring x hBpos hB
          have hl2 : (pushRing B s.ring x).length ≤ s.ring.length + 1 := by
            unfold pushRing; split <;> simp <;> omega
          exact ⟨by simp only; omega, hl, fun h => by simp only at h; omega, fun h0 => by omega, hA0⟩
      · have hr : s.ring = [] := hB0 (by omega)
        refine ⟨?_, ?_⟩
        · simp only [gstep, Bool.not_false, if_true, tagState, ha, if_false, hBpos, mapStep, Option.map_some]
          simp [numberEnding, hr, consec]
        · intro s' hs'
          simp only [gstep, Bool.not_false, if_true, ha, if_false, hBpos, Option.some.injEq] at hs'
          subst hs'
          exact ⟨by simp [hr], by simp [hr], fun _ => hr, fun _ => hr, hA0⟩
  | true =>
    by_cases hstop : A > 0 ∧ s.maxReached = true
    · refine ⟨?_, ?_⟩
      · simp [gstep, tagState, hstop, mapStep, numberEnding]
      · intro s' hs'; simp [gstep, hstop] at hs'
    · -- the selected line: the ring is flushed with the numbers n-|ring|+1 … n, the line gets n+1
      have hpre : (if B > 0 then s.ring else []) = s.ring := by
        by_cases hb : B > 0
        · simp [hb]
        · simp [hb, hB0 (by omega)]
      have hpreT : (if B > 0 then (tagState s n).ring else []) = (tagState s n).ring := by
        by_cases hb : B > 0
        · simp [hb]
        · simp [hb, tagState_nil_ring s n (hB0 (by omega))]
      have hring' : (if B > 0 then ([] : List α) else s.ring) = [] := by
        by_cases hb : B > 0
        · simp [hb]
        · simp [hb, hB0 (by omega)]
      have hringT' : (if B > 0 then ([] : List (Nat × α)) else (tagState s n).ring) = [] := by
        by_cases hb : B > 0
        · simp [hb]
        · simp [hb, tagState_nil_ring s n (hB0 (by omega))]
      have hemit : (tagState s n).ring ++ [(n + 1, x)] = numberEnding (n + 1) (s.ring ++ [x]) := by
        rw [numberEnding_snoc n s.ring x hn]; rfl
      have hafter' : (if A > 0 then A else s.after) = (if A > 0 then A else s.after) := rfl
      have hAafter : A = 0 → (if A > 0 then A else s.after) = 0 := by
        intro h0; simp [h0, hA0 h0]
      have hstopT : ¬ (A > 0 ∧ (tagState s n).maxReached = true) := hstop
      refine ⟨?_, ?_⟩
      · simp only [gstep, Bool.not_true, Bool.false_eq_true, if_false, hstop, hstopT, hpre, hpreT, hring', hringT', hemit, mapStep]
        have hf : (tagState s n).maxc = s.maxc ∧ (tagState s n).maxReached = s.maxReached ∧ (tagState s n).after = s.after :=
          ⟨rfl, rfl, rfl⟩
        rw [hf.1, hf.2.1, hf.2.2]
        by_cases hM : M > 0
        · simp only [hM, if_true]
          by_cases hz : s.maxc - 1 = 0
          · simp only [hz, if_true]
            by_cases hc : A = 0 ∨ (if A > 0 then A else s.after) = 0
            · simp [hc]
            · simp [hc, tagState, consec]
          · simp [hz, tagState, consec]
        · simp [hM, tagState, consec]
      · intro s' hs'
        simp only [gstep, Bool.not_true, Bool.false_eq_true, if_false, hstop, hpre, hring'] at hs'
        have key : s'.ring = [] ∧ s'.after = (if A > 0 then A else s.after) := by
          by_cases hM : M > 0
          · simp only [hM, if_true] at hs'
            by_cases hz : s.maxc - 1 = 0
            · simp only [hz, if_true] at hs'
              by_cases hc : A = 0 ∨ (if A > 0 then A else s.after) = 0
              · simp [hc] at hs'
              · simp only [hc, if_false, Option.some.injEq] at hs'; subst hs'; exact ⟨rfl, rfl⟩
            · simp only [hz, if_false, Option.some.injEq] at hs'; subst hs'; exact ⟨rfl, rfl⟩
          · simp only [hM, if_false, Option.some.injEq] at hs'; subst hs'; exact ⟨rfl, rfl⟩
        refine ⟨by simp [key.1], by simp [key.1], fun _ => key.1, fun _ => key.1, ?_⟩
        intro h0; rw [key.2]; exact hAafter h0

end Dtail

namespace Dtail
variable {α : Type}

/-- lines numbered `n+1, n+2, …` -/
def tagFrom (n : Nat) : List (Bool × α) → List (Bool × (Nat × α))
  | [] => []
  | (sel, x) :: rest => (sel, (n + 1, x)) :: tagFrom (n + 1) rest

theorem grunN_eq_tagged (B A M : Nat) (ls : List (Bool × α)) (s : GState α) (n : Nat)
    (h : CountInv B A s n) :
    grunN B A M s n ls = grun B A M (tagState s n) (tagFrom n ls) := by
  induction ls generalizing s n with
  | nil => rfl
  | cons p rest ih =>
    obtain ⟨sel, x⟩ := p
    obtain ⟨hstep, hinv⟩ := gstep_tag B A M s n sel x h
    simp only [grunN, tagFrom, grun, hstep, mapStep]
    cases hg : gstep B A M s sel x with
    | mk e o =>
      cases o with
      | none => simp
      | some s' =>
        simp only [Option.map_some]
        rw [ih s' (n + 1) (hinv s' (by rw [hg]))]

theorem mem_tagFrom (n : Nat) (ls : List (Bool × α)) (sel : Bool) (k : Nat) (x : α) :
    (sel, (k, x)) ∈ tagFrom n ls ↔ n < k ∧ ls[k - n - 1]? = some (sel, x) := by
  induction ls generalizing n with
  | nil => simp [tagFrom]
  | cons p rest ih =>
    obtain ⟨s0, x0⟩ := p
    simp only [tagFrom, List.mem_cons, Prod.mk.injEq, ih]
    constructor
    · rintro (⟨rfl, rfl, rfl⟩ | ⟨hlt, hget⟩)
      · exact ⟨by omega, by simp⟩
      · refine ⟨by omega, ?_⟩
        have : k - n - 1 = (k - (n + 1) - 1) + 1 := by omega
        rw [this, List.getElem?_cons_succ]; exact hget
    · rintro ⟨hlt, hget⟩
      by_cases hk : k = n + 1
      · left
        subst hk
        simp at hget
        exact ⟨hget.1.symm, rfl, hget.2.symm⟩
      · right
        refine ⟨by omega, ?_⟩
        have : k - n - 1 = (k - (n + 1) - 1) + 1 := by omega
        rw [this, List.getElem?_cons_succ] at hget; exact hget

/-- everything the filter emits is a buffered line or one of the input lines -/
theorem mem_grun (B A M : Nat) (ls : List (Bool × α)) (s : GState α) (y : α)
    (hy : y ∈ grun B A M s ls) : y ∈ s.ring ∨ ∃ sel, (sel, y) ∈ ls := by
  induction ls generalizing s with
  | nil => simp [grun] at hy
  | cons p rest ih =>
    obtain ⟨sel, x⟩ := p
    -- what a step emits, and what the next ring can hold
    have hstep : ∀ e o, gstep B A M s sel x = (e, o) →
        (∀ z ∈ e, z ∈ s.ring ∨ z = x) ∧ (∀ s', o = some s' → ∀ z ∈ s'.ring, z ∈ s.ring ∨ z = x) := by
      intro e o hg
      unfold gstep at hg
      cases sel with
      | false =>
        simp only [Bool.not_false, if_true] at hg
        split at hg
        · simp only [Prod.mk.injEq] at hg; obtain ⟨rfl, rfl⟩ := hg
          exact ⟨by simp, by intro s' hs'; simp only [Option.some.injEq] at hs'; subst hs'; intro z hz; exact Or.inl hz⟩
        · split at hg
          · simp only [Prod.mk.injEq] at hg; obtain ⟨rfl, rfl⟩ := hg
            refine ⟨by simp, ?_⟩
            intro s' hs'; simp only [Option.some.injEq] at hs'; subst hs'
            intro z hz
            simp only [pushRing] at hz
            split at hz
            · rcases List.mem_append.1 hz with h | h
              · exact Or.inl h
              · exact Or.inr (by simpa using h)
            · rcases List.mem_append.1 hz with h | h
              · exact Or.inl (List.mem_of_mem_tail h)
              · exact Or.inr (by simpa using h)
          · simp only [Prod.mk.injEq] at hg; obtain ⟨rfl, rfl⟩ := hg
            exact ⟨by simp, by intro s' hs'; simp only [Option.some.injEq] at hs'; subst hs'; intro z hz; exact Or.inl hz⟩
      | true =>
        simp only [Bool.not_true, Bool.false_eq_true, if_false] at hg
        have hemit : ∀ z ∈ (if B > 0 then s.ring else []) ++ [x], z ∈ s.ring ∨ z = x := by
          intro z hz
          rcases List.mem_append.1 hz with h | h
          · split at h
            · exact Or.inl h
            · simp at h
          · exact Or.inr (by simpa using h)
        have hring : ∀ z ∈ (if B > 0 then ([] : List α) else s.ring), z ∈ s.ring ∨ z = x := by
          intro z hz; split at hz
          · simp at hz
          · exact Or.inl hz
        by_cases h1 : A > 0 ∧ s.maxReached = true
        · simp only [h1, and_self, if_true, Prod.mk.injEq] at hg; obtain ⟨rfl, rfl⟩ := hg
          exact ⟨by simp, by intro s' hs'; cases hs'⟩
        · simp only [h1, if_false] at hg
          by_cases hM : M > 0
          · simp only [hM, if_true] at hg
            by_cases hz : s.maxc - 1 = 0
            · simp only [hz, if_true] at hg
              by_cases hc : A = 0 ∨ (if A > 0 then A else s.after) = 0
              · simp only [hc, if_true, Prod.mk.injEq] at hg; obtain ⟨rfl, rfl⟩ := hg
                exact ⟨hemit, by intro s' hs'; cases hs'⟩
              · simp only [hc, if_false, Prod.mk.injEq] at hg; obtain ⟨rfl, rfl⟩ := hg
                exact ⟨hemit, by intro s' hs'; simp only [Option.some.injEq] at hs'; subst hs'; exact hring⟩
            · simp only [hz, if_false, Prod.mk.injEq] at hg; obtain ⟨rfl, rfl⟩ := hg
              exact ⟨hemit, by intro s' hs'; simp only [Option.some.injEq] at hs'; subst hs'; exact hring⟩
          · simp only [hM, if_false, Prod.mk.injEq] at hg; obtain ⟨rfl, rfl⟩ := hg
            exact ⟨hemit, by intro s' hs'; simp only [Option.some.injEq] at hs'; subst hs'; exact hring⟩
    simp only [grun] at hy
    cases hg : gstep B A M s sel x with
    | mk e o =>
      obtain ⟨he, ho⟩ := hstep e o hg
      rw [hg] at hy
      cases o with
      | none =>
        simp only at hy
        rcases he y hy with h | h
        · exact Or.inl h
        · exact Or.inr ⟨sel, by simp [h]⟩
      | some s' =>
        simp only at hy
        rcases List.mem_append.1 hy with h | h
        · rcases he y h with h | h
          · exact Or.inl h
          · exact Or.inr ⟨sel, by simp [h]⟩
        · rcases ih s' h with h | ⟨sl, h⟩
          · rcases ho s' rfl y h with h | h
            · exact Or.inl h
            · exact Or.inr ⟨sel, by simp [h]⟩
          · exact Or.inr ⟨sl, List.mem_cons_of_mem _ h⟩

end Dtail
