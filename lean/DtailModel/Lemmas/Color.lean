import DtailModel.Model.Color
namespace Dtail

@[simp] theorem texts_append (a b : List Seg) : texts (a ++ b) = texts a ++ texts b := by
  induction a with
  | nil => rfl
  | cons s a ih => cases s <;> simp [texts, ih]

theorem trimNL_join (t : Bytes) : (trimNL t).1 ++ (if (trimNL t).2 then [NL] else []) = t := by
  unfold trimNL
  split
  · rename_i h
    simp only [if_true]
    have hne : t ≠ [] := by intro h0; simp [h0] at h
    have := List.dropLast_concat_getLast hne
    have hl : t.getLast hne = NL := by
      have := List.getLast?_eq_some_getLast (l := t) hne
      rw [this] at h; exact Option.some.inj h
    rw [hl] at this; exact this
  · simp

@[simp] theorem texts_paintWithAttr (fg bg attr t : Bytes) : texts (paintWithAttr fg bg attr t) = t := by
  have h := trimNL_join t
  unfold paintWithAttr
  cases hc : trimNL t with
  | mk tr had =>
    rw [hc] at h
    simp only at h ⊢
    by_cases ha : attr = Facts.colorAttrNone <;> cases had <;>
      simp_all [texts]

@[simp] theorem texts_paintKey (tbl : Tbl) (a b : String) (t : Bytes) :
    texts (paintKey tbl a b t) = t := by simp [paintKey]

@[simp] theorem texts_paintDefault (t : Bytes) : texts (paintDefault t) = t := by simp [paintDefault]

@[simp] theorem texts_paintText (tbl : Tbl) (s : String) (t : Bytes) : texts (paintText tbl s t) = t := by
  unfold paintText paintSeverity
  split <;> rename_i h
  · split at h <;> (try split at h) <;> (try split at h) <;>
      first | (injection h with h; subst h; simp) | (simp at h)
  · simp

@[simp] theorem texts_delim (tbl : Tbl) (s : String) : texts (delim tbl s) = [PIPE] := by simp [delim]

theorem splitFirst_join (sep : UInt8) (s p r : Bytes) (h : splitFirst sep s = some (p, r)) :
    p ++ sep :: r = s := by
  induction s generalizing p with
  | nil => simp [splitFirst] at h
  | cons b bs ih =>
    simp only [splitFirst] at h
    split at h
    · rename_i hb; simp at h; obtain ⟨rfl, rfl⟩ := h; simp [hb]
    · cases hs : splitFirst sep bs with
      | none => simp [hs] at h
      | some pr =>
        obtain ⟨p', r'⟩ := pr
        simp only [hs, Option.some.injEq, Prod.mk.injEq] at h
        obtain ⟨rfl, rfl⟩ := h
        simp [ih p' hs]

/-- `strings.Join(l, "|")` -/
def joinP : List Bytes → Bytes
  | [] => []
  | [x] => x
  | x :: y :: rest => x ++ PIPE :: joinP (y :: rest)

theorem splitN_ne_nil (sep : UInt8) (n : Nat) (s : Bytes) : splitN sep (n + 1) s ≠ [] := by
  cases n with
  | zero => simp [splitN]
  | succ n => simp only [splitN]; split <;> simp

theorem joinP_splitN (n : Nat) (s : Bytes) : joinP (splitN PIPE (n + 1) s) = s := by
  induction n generalizing s with
  | zero => simp [splitN, joinP]
  | succ n ih =>
    simp only [splitN]
    cases hs : splitFirst PIPE s with
    | none => simp [joinP]
    | some pr =>
      obtain ⟨p, r⟩ := pr
      have hj := splitFirst_join PIPE s p r hs
      simp only
      have := ih r
      cases hsp : splitN PIPE (n + 1) r with
      | nil => exact absurd hsp (splitN_ne_nil PIPE n r)
      | cons y rest =>
        rw [hsp] at this
        simp only [joinP, this]; exact hj

theorem texts_paintRemote (tbl : Tbl) (line : Bytes) : texts (paintRemote tbl line) = line := by
  unfold paintRemote
  have hj := joinP_splitN 5 line
  split
  · rename_i f0 f1 f2 f3 f4 f5 h
    rw [h] at hj
    simp only [joinP] at hj
    by_cases h100 : f2 = b!"100"
    · simp only [h100, if_true, texts_append, texts_paintKey, texts_delim, texts_paintText]
      rw [h100] at hj; simpa using hj
    · simp only [h100, if_false, texts_append, texts_paintKey, texts_delim, texts_paintText]
      simpa using hj
  · simp

theorem texts_paint3 (tbl : Tbl) (a b : String) (line : Bytes) : texts (paint3 tbl a b line) = line := by
  unfold paint3
  have hj := joinP_splitN 2 line
  split
  · rename_i f0 f1 f2 h
    rw [h] at hj
    simp only [joinP] at hj
    simpa using hj
  · simp

theorem texts_colorfy (tbl : Tbl) (line : Bytes) : texts (colorfy tbl line) = line := by
  unfold colorfy
  split
  · exact texts_paintRemote tbl line
  · split
    · exact texts_paint3 tbl _ _ line
    · split
      · exact texts_paint3 tbl _ _ line
      · simp

end Dtail
