import DtailModel.Model.Wire
namespace Dtail

theorem readFrom_flatten (m : Nat) (bs : Bytes) (s : RS) :
    (eofFlush (readFrom m s bs)).flatten
      = s.out.flatten ++ (s.msg ++ insertNL m s.msg.length bs) := by
  induction bs generalizing s with
  | nil =>
    simp only [readFrom, eofFlush, insertNL, List.foldl_nil, List.append_nil]
    by_cases h : s.msg = [] <;> simp [h]
  | cons b bs ih =>
    simp only [readFrom, List.foldl_cons] at ih ⊢
    rw [ih]
    simp only [stepByte, insertNL]
    by_cases hb : b = NL
    · simp [hb]
    · by_cases hk : (s.msg ++ [b]).length ≥ m
      · have : s.msg.length + 1 ≥ m := by simpa using hk
        simp [hb, this]
      · have : ¬ s.msg.length + 1 ≥ m := by simpa using hk
        simp [hb, this]

/-- Well-formedness of a raw line: at most one newline, and only at the end. -/
def LineWF (l : Bytes) : Prop :=
  (∃ body, l = body ++ [NL] ∧ NL ∉ body) ∨ (NL ∉ l ∧ l ≠ [])

theorem stepByte_wf (m : Nat) (s : RS) (b : UInt8)
    (hmsg : NL ∉ s.msg) (hout : ∀ l ∈ s.out, LineWF l) :
    (NL ∉ (stepByte m s b).msg) ∧ (∀ l ∈ (stepByte m s b).out, LineWF l) := by
  unfold stepByte
  by_cases hb : b = NL
  · simp only [hb, if_true]
    refine ⟨by simp, ?_⟩
    intro l hl
    simp only [List.mem_append, List.mem_singleton] at hl
    rcases hl with hl | hl
    · exact hout l hl
    · exact Or.inl ⟨s.msg, hl, hmsg⟩
  · have hb' : ¬ NL = b := fun h => hb h.symm
    by_cases hk : (s.msg ++ [b]).length ≥ m
    · simp only [hb, hk, if_false, if_true]
      refine ⟨by simp, ?_⟩
      intro l hl
      simp only [List.mem_append, List.mem_singleton] at hl
      rcases hl with hl | hl
      · exact hout l hl
      · refine Or.inl ⟨s.msg ++ [b], hl, ?_⟩
        simp [hmsg, hb']
    · simp only [hb, hk, if_false]
      exact ⟨by simp [hmsg, hb'], hout⟩

theorem readFrom_wf (m : Nat) (bs : Bytes) (s : RS)
    (hmsg : NL ∉ s.msg) (hout : ∀ l ∈ s.out, LineWF l) :
    (NL ∉ (readFrom m s bs).msg) ∧ (∀ l ∈ (readFrom m s bs).out, LineWF l) := by
  induction bs generalizing s with
  | nil => exact ⟨hmsg, hout⟩
  | cons b bs ih =>
    simp only [readFrom, List.foldl_cons]
    have h := stepByte_wf m s b hmsg hout
    exact ih _ h.1 h.2

theorem readLines_wf (m : Nat) (bs : Bytes) : ∀ l ∈ readLines m bs, LineWF l := by
  have h := readFrom_wf m bs ⟨[], []⟩ (by simp) (by simp)
  intro l hl
  simp only [readLines, eofFlush] at hl
  split at hl
  · exact h.2 l hl
  · rename_i hne
    simp only [List.mem_append, List.mem_singleton] at hl
    rcases hl with hl | hl
    · exact h.2 l hl
    · subst hl; exact Or.inr ⟨h.1, hne⟩

end Dtail
