/-
Tie G (panic-aware) for the server's command decoding: `baseHandler.handleProtocolVersion`, `handleBase64` and
`handleCommand` of internal/server/handlers/basehandler.go and `DeserializeOptions` / `setOption` of
internal/config/args.go, as translated from the working tree on this run.  In `handleCommand` the effects outside the
translated state (sending a message, starting the command, the context and its goroutine) are dropped; every index and
slice expression of the method is kept, guarded.  The theorems: none of the guards ever fails — no byte string a
client sends makes the command decoder panic.
-/
import DtailModel.Generated.Code
import DtailModel.Lemmas.GoRT
import DtailModel.Lemmas.GoStr
import DtailModel.Lemmas.NoPanic
import DtailModel.Lemmas.GenQuery
import DtailModel.Lemmas.GenOptions
set_option autoImplicit false
namespace Dtail.GenDecode
open Dtail Dtail.Go Dtail.GenQuery

/-- `config.DeserializeOptions` never panics -/
theorem DeserializeOptions_ok (ext : Ext) (opts : List GoString) : IsOk (Gen.Config.DeserializeOptions ext opts) := by
  unfold Gen.Config.DeserializeOptions
  dsimp only
  refine goRange_rule IsOk _ _ _ ?_ ?_ _
  · intro options o _ r hr
    by_cases h2 : ((GoLen.len (splitN (61 : UInt8) 2 o) : Int) != 2) = true
    · rw [if_pos h2] at hr; cases hr; exact ⟨_, rfl⟩
    · rw [if_neg h2] at hr
      have hl2 := len_ne_two _ (by simpa using h2)
      rw [if_pos (inRange_of_len _ 0 (by omega) (by rw [hl2]; omega)), if_pos (inRange_of_len _ 1 (by omega) (by rw [hl2]; omega))] at hr
      by_cases hp : hasPrefix Gen.Config.lit_3 (GoIndex.idx (splitN (61 : UInt8) 2 o) 1) = true
      · rw [if_pos hp] at hr
        have hs : (splitN (37 : UInt8) 2 (GoIndex.idx (splitN (61 : UInt8) 2 o) 1)).length = 2 :=
          splitN2_base64 _ hp
        rw [if_pos (inRange_of_len _ 1 (by omega) (by rw [hs]; omega))] at hr
        split at hr
        · cases hr; exact ⟨_, rfl⟩
        · split at hr
          · cases hr; exact ⟨_, rfl⟩
          · cases hr
      · rw [if_neg hp] at hr
        split at hr
        · cases hr; exact ⟨_, rfl⟩
        · cases hr
  · intro s; exact ⟨_, rfl⟩

open Gen.Decode in
/-- what `handleProtocolVersion` returns: never a panic; without an error the argument count is the number of arguments -/
def VersionOk (r : Outcome (baseHandler × List GoString × Int × GoString × GoErr)) : Prop :=
  ∃ h args argc add err, r = .ok (h, args, argc, add, err) ∧ (err = none → argc = (args.length : Int))

open Gen.Decode in
theorem handleProtocolVersion_ok (ext : Ext) (h : baseHandler) (args : List GoString) :
    VersionOk (baseHandler.handleProtocolVersion ext h args) := by
  unfold baseHandler.handleProtocolVersion
  dsimp only
  have hl : (GoLen.len args : Int) = (args.length : Int) := rfl
  by_cases h2 : (args.length : Int) ≤ 2
  · have g : (decide (GoLen.len args ≤ 2) || goInRange args 0) = true := by simp [hl, h2]
    have g' : (decide (GoLen.len args ≤ 2) || (GoIndex.idx args 0 != lit_0)) = true := by simp [hl, h2]
    rw [if_pos g, if_pos g']
    exact ⟨_, _, _, _, _, rfl, fun e => by cases e⟩
  · have g0 : goInRange args 0 = true := inRange_of_len _ 0 (by omega) (by omega)
    have g1 : goInRange args 1 = true := inRange_of_len _ 1 (by omega) (by omega)
    have gs : goSliceOk args 2 (GoLen.len args) = true := sliceOk_of_len _ 2 (by omega) (by omega)
    simp only [g0, g1, gs, Bool.or_true, if_true]
    have hdrop : (GoLen.len args : Int) - 2 = ((List.drop (Int.toNat 2) args).length : Int) := by
      have : Int.toNat 2 = 2 := rfl
      rw [this, List.length_drop, hl]; omega
    repeat (first
      | exact ⟨_, _, _, _, _, rfl, fun _ => hdrop⟩
      | exact ⟨_, _, _, _, _, rfl, fun e => by cases e⟩
      | (apply ite_rule VersionOk <;> intro _))

open Gen.Decode in
/-- what `handleBase64` returns: never a panic (when the count it is given is the number of arguments); without an error
    there is at least one argument -/
def Base64Ok (r : Outcome (baseHandler × List GoString × Int × GoErr)) : Prop :=
  ∃ h args argc err, r = .ok (h, args, argc, err) ∧ (err = none → 0 < args.length)

open Gen.Decode in
theorem handleBase64_ok (ext : Ext) (h : baseHandler) (args : List GoString) (argc : Int) (hc : argc = (args.length : Int)) :
    Base64Ok (baseHandler.handleBase64 ext h args argc) := by
  unfold baseHandler.handleBase64
  dsimp only
  subst hc
  by_cases h2 : (args.length : Int) = 2
  · have g0 : goInRange args 0 = true := inRange_of_len _ 0 (by omega) (by omega)
    have g1 : goInRange args 1 = true := inRange_of_len _ 1 (by omega) (by omega)
    simp only [g0, g1, Bool.or_true, if_true]
    repeat (first
      | exact ⟨_, _, _, _, rfl, fun _ => List.length_pos_iff.2 (splitOnByte_ne_nil _ _)⟩
      | exact ⟨_, _, _, _, rfl, fun e => by simp_all⟩
      | (apply ite_rule Base64Ok <;> intro _))
  · have g : (((args.length : Int) != 2) || goInRange args 0) = true := by simp [h2]
    have g' : (((args.length : Int) != 2) || (GoIndex.idx args 0 != lit_6)) = true := by simp [h2]
    rw [if_pos g, if_pos g']
    exact ⟨_, _, _, _, rfl, fun e => by cases e⟩

open Gen.Decode in
/-- **`baseHandler.handleCommand` as translated from the working tree never panics**: for every command string a client
    can send — any protocol word, version, base64 text, decoded bytes, option list — none of the method's index and
    slice expressions, and none of those of the functions it calls to decode, is out of range -/
theorem handleCommand_ok (ext : Ext) (h : baseHandler) (commandStr : GoString) :
    IsOk (baseHandler.handleCommand ext h commandStr) := by
  unfold baseHandler.handleCommand
  obtain ⟨h1, args, argc, add, err, hv, hargc⟩ := handleProtocolVersion_ok ext h (splitOnByte (32 : UInt8) commandStr)
  rw [hv]
  dsimp only
  apply IsOk_ite <;> intro herr
  · exact ⟨_, rfl⟩
  have hnone : err = none := by simpa using herr
  obtain ⟨h2, args2, argc2, err2, hb, hpos⟩ := handleBase64_ok ext h1 args argc (hargc hnone)
  rw [hb]
  dsimp only
  apply IsOk_ite <;> intro herr2
  · exact ⟨_, rfl⟩
  have hnone2 : err2 = none := by simpa using herr2
  have hp := hpos hnone2
  rw [if_pos (inRange_of_len _ 0 (by omega) (by omega))]
  have hparts : 0 < (splitOnByte (58 : UInt8) (GoIndex.idx args2 0)).length := List.length_pos_iff.2 (splitOnByte_ne_nil _ _)
  rw [if_pos (inRange_of_len _ 0 (by omega) (by omega))]
  have hl : (GoLen.len (splitOnByte (58 : UInt8) (GoIndex.idx args2 0)) : Int) = ((splitOnByte (58 : UInt8) (GoIndex.idx args2 0)).length : Int) := rfl
  by_cases h1p : (splitOnByte (58 : UInt8) (GoIndex.idx args2 0)).length = 1
  · have g : ((GoLen.len (splitOnByte (58 : UInt8) (GoIndex.idx args2 0)) == 1) || goInRange (splitOnByte (58 : UInt8) (GoIndex.idx args2 0)) 1) = true := by
      simp [hl, h1p]
    have g' : ((GoLen.len (splitOnByte (58 : UInt8) (GoIndex.idx args2 0)) == 1) || (GoLen.len (GoIndex.idx (splitOnByte (58 : UInt8) (GoIndex.idx args2 0)) 1) == 0)) = true := by
      simp [hl, h1p]
    rw [if_pos g, if_pos g']
    exact ⟨_, rfl⟩
  · have g1 : goInRange (splitOnByte (58 : UInt8) (GoIndex.idx args2 0)) 1 = true := inRange_of_len _ 1 (by omega) (by omega)
    have gs : goSliceOk (splitOnByte (58 : UInt8) (GoIndex.idx args2 0)) 1 (GoLen.len (splitOnByte (58 : UInt8) (GoIndex.idx args2 0))) = true :=
      sliceOk_of_len _ 1 (by omega) (by omega)
    simp only [g1, gs, Bool.or_true, if_true]
    apply IsOk_ite <;> intro _
    · exact ⟨_, rfl⟩
    obtain ⟨v, hvd⟩ := DeserializeOptions_ok ext (List.drop (Int.toNat 1) (splitOnByte (58 : UInt8) (GoIndex.idx args2 0)))
    rw [hvd]
    dsimp only
    apply IsOk_ite <;> intro _ <;> exact ⟨_, rfl⟩

/-! ### The decoder computes what the model computes -/

open Gen.Decode in
/-- the protocol check passes -/
def GoodVersion (args : List GoString) : Prop :=
  2 < args.length ∧ args.getD 0 [] = b!"protocol" ∧ args.getD 1 [] = Facts.protocolCompatBytes

open Gen.Decode in
theorem handleProtocolVersion_spec (ext : Ext) (h : baseHandler) (args : List GoString) :
    (GoodVersion args → ∃ add, baseHandler.handleProtocolVersion ext h args = .ok (h, args.drop 2, (args.length : Int) - 2, add, none)) ∧
    (¬ GoodVersion args → ∃ a c add e, baseHandler.handleProtocolVersion ext h args = .ok (h, a, c, add, some e)) := by
  unfold baseHandler.handleProtocolVersion GoodVersion
  dsimp only
  have hl : (GoLen.len args : Int) = (args.length : Int) := rfl
  by_cases h2 : (args.length : Int) ≤ 2
  · have g : (decide (GoLen.len args ≤ 2) || goInRange args 0) = true := by simp [hl, h2]
    have g' : (decide (GoLen.len args ≤ 2) || (GoIndex.idx args 0 != lit_0)) = true := by simp [hl, h2]
    rw [if_pos g, if_pos g']
    exact ⟨fun hg => by omega, fun _ => ⟨_, _, _, _, rfl⟩⟩
  · have g0 : goInRange args 0 = true := inRange_of_len _ 0 (by omega) (by omega)
    have g1 : goInRange args 1 = true := inRange_of_len _ 1 (by omega) (by omega)
    have gs : goSliceOk args 2 (args.length : Int) = true := sliceOk_of_len _ 2 (by omega) (by omega)
    have i0 : (GoIndex.idx args (0 : Int) : GoString) = args.getD 0 [] := rfl
    have i1 : (GoIndex.idx args (1 : Int) : GoString) = args.getD 1 [] := rfl
    have hd2 : Int.toNat 2 = 2 := rfl
    have hle : decide ((args.length : Int) ≤ 2) = false := by simp [h2]
    simp only [hl]
    simp only [g0, g1, gs, Bool.or_true, if_true, i0, i1, hd2, hle, Bool.false_or]
    by_cases hp : args.getD 0 [] = b!"protocol"
    · have hp' : (args.getD 0 [] != lit_0) = false := by rw [hp]; rfl
      rw [if_neg (by rw [hp']; simp)]
      by_cases hc : args.getD 1 [] = Facts.protocolCompatBytes
      · have hc' : (args.getD 1 [] != ([52, 46, 49] : GoString)) = false := by rw [hc]; rfl
        rw [if_neg (by rw [hc']; simp)]
        exact ⟨fun _ => ⟨_, rfl⟩, fun hn => absurd ⟨by omega, hp, hc⟩ hn⟩
      · have hc' : (args.getD 1 [] != ([52, 46, 49] : GoString)) = true := by
          simp only [bne_iff_ne, ne_eq]; exact hc
        rw [if_pos hc']
        refine ⟨fun hg => absurd hg.2.2 hc, fun _ => ?_⟩
        repeat (first | exact ⟨_, _, _, _, rfl⟩ | (apply ite_rule (fun r => ∃ a c add e, r = Outcome.ok (h, a, c, add, some e)) <;> intro _))
    · have hp' : (args.getD 0 [] != lit_0) = true := by
        simp only [bne_iff_ne, ne_eq]; exact hp
      rw [if_pos hp']
      exact ⟨fun hg => absurd hg.2.1 hp, fun _ => ⟨_, _, _, _, rfl⟩⟩

open Gen.Decode in
theorem handleBase64_spec (ext : Ext) (env : Env) (he : GenOptions.ExtIs ext env) (h : baseHandler) (args : List GoString) :
    let r := baseHandler.handleBase64 ext h args (args.length : Int)
    (args.length = 2 ∧ args.getD 0 [] = b!"base64" →
      match env.b64dec (args.getD 1 []) with
      | some d => r = .ok (h, splitOnByte 32 d, ((splitOnByte 32 d).length : Int), none)
      | none => ∃ a c e, r = .ok (h, a, c, some e)) ∧
    (¬ (args.length = 2 ∧ args.getD 0 [] = b!"base64") → ∃ a c e, r = .ok (h, a, c, some e)) := by
  intro r
  show (_ → match env.b64dec (args.getD 1 []) with
      | some d => baseHandler.handleBase64 ext h args (args.length : Int) = _
      | none => ∃ a c e, baseHandler.handleBase64 ext h args (args.length : Int) = _) ∧
    (_ → ∃ a c e, baseHandler.handleBase64 ext h args (args.length : Int) = _)
  unfold baseHandler.handleBase64
  dsimp only
  by_cases h2 : (args.length : Int) = 2
  · have g0 : goInRange args 0 = true := inRange_of_len _ 0 (by omega) (by omega)
    have g1 : goInRange args 1 = true := inRange_of_len _ 1 (by omega) (by omega)
    have i0 : (GoIndex.idx args (0 : Int) : GoString) = args.getD 0 [] := rfl
    have i1 : (GoIndex.idx args (1 : Int) : GoString) = args.getD 1 [] := rfl
    have hne : ((args.length : Int) != 2) = false := by simp [h2]
    simp only [g0, g1, Bool.or_true, if_true, i0, i1, hne, Bool.false_or]
    by_cases hb : args.getD 0 [] = b!"base64"
    · have hb' : (args.getD 0 [] != lit_6) = false := by rw [hb]; rfl
      rw [if_neg (by rw [hb']; simp)]
      refine ⟨fun _ => ?_, fun hn => absurd ⟨by omega, hb⟩ hn⟩
      cases hd : env.b64dec (args.getD 1 []) with
      | some d =>
        simp only [he.b64ok _ d hd, bne_self_eq_false, Bool.false_eq_true, if_false]
        rfl
      | none =>
        have hne' := he.b64err _ hd
        have hbb : ((ext.base64Decode (args.getD 1 [])).2 != none) = true := by simpa using hne'
        simp only [hbb, if_true]
        cases hee : (ext.base64Decode (args.getD 1 [])).2 with
        | none => exact absurd hee hne'
        | some ee => exact ⟨_, _, ee, rfl⟩
    · have hb' : (args.getD 0 [] != lit_6) = true := by simp only [bne_iff_ne, ne_eq]; exact hb
      rw [if_pos hb']
      exact ⟨fun hg => absurd hg.2 hb, fun _ => ⟨_, _, _, rfl⟩⟩
  · have g : (((args.length : Int) != 2) || goInRange args 0) = true := by simp [h2]
    have g' : (((args.length : Int) != 2) || (GoIndex.idx args 0 != lit_6)) = true := by simp [h2]
    rw [if_pos g, if_pos g']
    exact ⟨fun hg => by omega, fun _ => ⟨_, _, _, rfl⟩⟩

open Gen.Decode in
/-- how the translated `handleCommand` (started on a handler that has recorded nothing) matches the model's decoder: the
    command callback is invoked once with the model's name, count, arguments and line context, `handleOptions` with a
    map that answers like the model's option list; on an error nothing is started -/
def CmdMatches (r : Outcome DecodedCmd) (t : Outcome baseHandler) : Prop :=
  match r with
  | .ok d => ∃ h' gl, t = .ok h' ∧ h'.started = [(gl, (d.argc : Int), d.args, d.name)] ∧ GenOptions.ltxOf gl = d.ltx ∧
      (match d.options with
       | none => h'.options = []
       | some o => ∃ m, h'.options = [m] ∧ GenOptions.Rel m o)
  | .err _ => ∃ h', t = .ok h' ∧ h'.started = [] ∧ h'.options = []
  | .panic _ => True

theorem getD_eq_getElem? {α : Type} (l : List α) (i : Nat) (d : α) (h : i < l.length) : l[i]? = some (l.getD i d) := by
  rw [List.getD_eq_getElem?_getD, List.getElem?_eq_getElem h]; rfl

open Gen.Decode in
/-- **`handleCommand` as translated from the working tree decodes what the model decodes** -/
theorem handleCommand_refines (ext : Ext) (env : Env) (he : GenOptions.ExtIs ext env) (cmd : GoString) :
    CmdMatches (decodeCommand env cmd) (baseHandler.handleCommand ext {} cmd) := by
  unfold baseHandler.handleCommand decodeCommand decodeEnvelope
  have hargs : 0 < (splitOnByte SP cmd).length := List.length_pos_iff.2 (splitOnByte_ne_nil _ _)
  have hsp : splitOnByte (32 : UInt8) cmd = splitOnByte SP cmd := rfl
  rw [hsp]
  generalize splitOnByte SP cmd = args at hargs ⊢
  obtain ⟨hvg, hvb⟩ := handleProtocolVersion_spec ext {} args
  by_cases hg : GoodVersion args
  · obtain ⟨add, hv⟩ := hvg hg
    obtain ⟨hlen, hp0, hp1⟩ := hg
    rw [hv]
    dsimp only
    have e0 := getD_eq_getElem? args 0 [] (by omega)
    have e1 := getD_eq_getElem? args 1 [] (by omega)
    simp only [goIndex, e0, e1, hp0, hp1, Bind.bind, Outcome.bind, goSliceFrom, bne_self_eq_false, Bool.false_eq_true, if_false]
    have hle : ¬ (args.length ≤ 2 ∨ b!"protocol" ≠ b!"protocol") := by
      intro h; rcases h with h | h
      · omega
      · exact h rfl
    have hcs : ¬ (Facts.protocolCompatBytes ≠ Facts.protocolCompatBytes) := fun h => h rfl
    have h2le : 2 ≤ args.length := by omega
    simp only [hle, hcs, if_false, h2le, if_true]
    -- the envelope
    have hdl : ((args.drop 2).length : Int) = (args.length : Int) - 2 := by
      rw [List.length_drop]; omega
    rw [← hdl]
    obtain ⟨hbg, hbb⟩ := handleBase64_spec ext env he {} (args.drop 2)
    have hd0 : 0 < (args.drop 2).length := by rw [List.length_drop]; omega
    have f0 := getD_eq_getElem? (args.drop 2) 0 [] hd0
    rw [f0]
    dsimp only
    have hcount : args.length - 2 = (args.drop 2).length := by rw [List.length_drop]
    rw [hcount]
    by_cases hb : (args.drop 2).length = 2 ∧ (args.drop 2).getD 0 [] = b!"base64"
    · have hb64 := hbg hb
      obtain ⟨hl2, hb0⟩ := hb
      have f1 := getD_eq_getElem? (args.drop 2) 1 [] (by omega)
      have hnb : ¬ ((args.drop 2).length ≠ 2 ∨ (args.drop 2).getD 0 [] ≠ b!"base64") := by
        intro h; rcases h with h | h
        · exact h hl2
        · exact h hb0
      simp only [hnb, if_false, f1]
      cases hd : env.b64dec ((args.drop 2).getD 1 []) with
      | none =>
        rw [hd] at hb64
        obtain ⟨a, c, e, hr⟩ := hb64
        rw [hr]
        simp only [CmdMatches]
        exact ⟨_, rfl, rfl, rfl⟩
      | some decoded =>
        rw [hd] at hb64
        simp only at hb64
        rw [hb64]
        dsimp only
        simp only [bne_self_eq_false, Bool.false_eq_true, if_false]
        -- the decoded command
        unfold decodeInner decodeArgs decodeParts
        have hsp2 : splitOnByte (32 : UInt8) decoded = splitOnByte SP decoded := rfl
        rw [hsp2]
        have hdargs : 0 < (splitOnByte SP decoded).length := List.length_pos_iff.2 (splitOnByte_ne_nil _ _)
        generalize splitOnByte SP decoded = dargs at hdargs ⊢
        have d0 := getD_eq_getElem? dargs 0 [] hdargs
        rw [if_pos (inRange_of_len _ 0 (by omega) (by omega))]
        have i0 : (GoIndex.idx dargs (0 : Int) : GoString) = dargs.getD 0 [] := rfl
        rw [i0]
        have hsc : splitOnByte (58 : UInt8) (dargs.getD 0 []) = splitOnByte COLON (dargs.getD 0 []) := rfl
        rw [hsc]
        have hparts : 0 < (splitOnByte COLON (dargs.getD 0 [])).length := List.length_pos_iff.2 (splitOnByte_ne_nil _ _)
        simp only [goIndex, d0, Bind.bind, Outcome.bind]
        generalize splitOnByte COLON (dargs.getD 0 []) = parts at hparts ⊢
        have p0 := getD_eq_getElem? parts 0 [] hparts
        rw [if_pos (inRange_of_len _ 0 (by omega) (by omega))]
        have j0 : (GoIndex.idx parts (0 : Int) : GoString) = parts.getD 0 [] := rfl
        rw [j0]
        simp only [p0]
        have hlp : (GoLen.len parts : Int) = (parts.length : Int) := rfl
        by_cases h1 : parts.length = 1
        · have g : ((GoLen.len parts == 1) || goInRange parts 1) = true := by simp [hlp, h1]
          have g' : ((GoLen.len parts == 1) || (GoLen.len (GoIndex.idx parts 1 : GoString) == 0)) = true := by simp [hlp, h1]
          rw [if_pos g, if_pos g']
          simp only [h1, if_true, Pure.pure, CmdMatches]
          exact ⟨_, {}, rfl, rfl, rfl, rfl⟩
        · have hp1lt : 1 < parts.length := by omega
          have g1 : goInRange parts 1 = true := inRange_of_len _ 1 (by omega) (by omega)
          have gs : goSliceOk parts 1 (GoLen.len parts) = true := sliceOk_of_len _ 1 (by omega) (by omega)
          have p1 := getD_eq_getElem? parts 1 [] hp1lt
          have j1 : (GoIndex.idx parts (1 : Int) : GoString) = parts.getD 1 [] := rfl
          have hne1 : ((GoLen.len parts : Int) == 1) = false := by
            rw [hlp]; simp only [beq_eq_false_iff_ne, ne_eq]; omega
          simp only [g1, gs, Bool.or_true, if_true, j1, hne1, Bool.false_or, h1, if_false, p1, Pure.pure]
          have hl1 : (GoLen.len (parts.getD 1 []) : Int) = ((parts.getD 1 []).length : Int) := rfl
          by_cases he0 : (parts.getD 1 []).length = 0
          · have : ((GoLen.len (parts.getD 1 []) : Int) == 0) = true := by rw [hl1, he0]; rfl
            rw [if_pos this]
            simp only [he0, decide_true, if_true, CmdMatches]
            exact ⟨_, {}, rfl, rfl, rfl, rfl⟩
          · have : ((GoLen.len (parts.getD 1 []) : Int) == 0) = false := by
              rw [hl1]; simp only [beq_eq_false_iff_ne, ne_eq]; omega
            simp only [this, Bool.false_eq_true, if_false]
            have hge : 1 ≤ parts.length := by omega
            have hd1 : Int.toNat 1 = 1 := rfl
            simp only [he0, decide_false, Bool.false_eq_true, if_false, goSliceFrom, hge, if_true, hd1]
            have hm := GenOptions.DeserializeOptions_refines ext env he (parts.drop 1)
            cases hmo : deserializeOptions env (parts.drop 1) [] {} with
            | ok pr =>
              obtain ⟨o', l'⟩ := pr
              rw [hmo] at hm
              obtain ⟨m', gl', ht, hrel, hl⟩ := hm
              rw [ht]
              simp only [bne_self_eq_false, Bool.false_eq_true, if_false, CmdMatches]
              refine ⟨_, gl', rfl, ?_, hl, ?_⟩
              · rfl
              · exact ⟨m', rfl, hrel⟩
            | err e =>
              rw [hmo] at hm
              obtain ⟨m', gl', e', ht⟩ := hm
              rw [ht]
              simp only [CmdMatches]
              refine ⟨_, rfl, ?_, ?_⟩ <;> rfl
            | panic pmsg => simp only [CmdMatches]
    · obtain ⟨a, c, e, hr⟩ := hbb hb
      rw [hr]
      have hnb : (args.drop 2).length ≠ 2 ∨ (args.drop 2).getD 0 [] ≠ b!"base64" := by
        by_cases hl2 : (args.drop 2).length = 2
        · right; intro h0; exact hb ⟨hl2, h0⟩
        · left; exact hl2
      simp only [hnb, if_true, CmdMatches]
      exact ⟨_, rfl, rfl, rfl⟩
  · obtain ⟨a, c, add, e, hv⟩ := hvb hg
    rw [hv]
    dsimp only
    have e0 := getD_eq_getElem? args 0 [] hargs
    simp only [goIndex, e0, Bind.bind, Outcome.bind]
    unfold GoodVersion at hg
    by_cases hle : args.length ≤ 2 ∨ args.getD 0 [] ≠ b!"protocol"
    · simp only [hle, if_true, CmdMatches]
      exact ⟨_, rfl, rfl, rfl⟩
    · have hlt : 2 < args.length := by
        by_cases h : args.length ≤ 2
        · exact absurd (Or.inl h) hle
        · omega
      have hp0 : args.getD 0 [] = b!"protocol" := by
        by_cases h : args.getD 0 [] = b!"protocol"
        · exact h
        · exact absurd (Or.inr h) hle
      have e1 := getD_eq_getElem? args 1 [] (by omega)
      have hc : args.getD 1 [] ≠ Facts.protocolCompatBytes := fun hc => hg ⟨hlt, hp0, hc⟩
      simp only [hle, if_false, e1, hc, ne_eq, not_false_eq_true, if_true, CmdMatches]
      exact ⟨_, rfl, rfl, rfl⟩

open Gen.Decode in
/-- **the translated server `Write` never panics**: for every handler state and every chunk of bytes a client sends, the
    function returns (all bytes taken, no error) — the stream is cut at ';' and each command goes through `handleCommand`,
    none of whose guards fails -/
theorem Write_ok (ext : Ext) (h : baseHandler) (p : GoString) :
    ∃ h', baseHandler.Write ext h p = Outcome.ok (h', (p.length : Int), none) := by
  unfold baseHandler.Write
  dsimp only
  have hl : (GoLen.len p : Int) = (p.length : Int) := rfl
  rw [hl]
  clear hl
  generalize (p.length : Int) = n
  induction p generalizing h with
  | nil => exact ⟨h, rfl⟩
  | cons b rest ih =>
    rw [goRange_cons]
    by_cases hb : (b == 59) = true
    · simp only [hb, if_true]
      obtain ⟨h1, he⟩ := handleCommand_ok ext h h.writeBuf
      rw [he]
      simp only []
      exact ih { h1 with writeBuf := [] }
    · simp only [hb, Bool.false_eq_true, if_false]
      exact ih { h with writeBuf := h.writeBuf ++ [b] }

end Dtail.GenDecode
