/-
Tie G (panic-aware) for the server's command decoding: `baseHandler.handleProtocolVersion`, `handleBase64` and
`handleCommand` of internal/server/handlers/basehandler.go and `DeserializeOptions` / `setOption` of
internal/config/args.go, as translated from the working tree on this run.  In `handleCommand` the effects outside the
translated state (sending a message, starting the command, the context and its goroutine) are dropped; every index and
slice expression of the method is kept, guarded.  The theorems: none of the guards ever fails — no byte string a
client sends makes the command decoder panic.
-/
import DtailModel.Generated.Code
import DtailModel.Lemmas.GoRT
import DtailModel.Lemmas.GoStr
import DtailModel.Lemmas.NoPanic
import DtailModel.Lemmas.GenQuery
namespace Dtail.GenDecode
open Dtail Dtail.Go Dtail.GenQuery

/-- `config.DeserializeOptions` never panics -/
theorem DeserializeOptions_ok (ext : Ext) (opts : List GoString) : IsOk (Gen.Config.DeserializeOptions ext opts) := by
  unfold Gen.Config.DeserializeOptions
  dsimp only
  refine goRange_rule IsOk _ _ _ ?_ ?_ _
  · intro options o _ r hr
    by_cases h2 : ((GoLen.len (splitN (61 : UInt8) 2 o) : Int) != 2) = true
    · rw [if_pos h2] at hr; cases hr; exact ⟨_, rfl⟩
    · rw [if_neg h2] at hr
      have hl2 := len_ne_two _ (by simpa using h2)
      rw [if_pos (inRange_of_len _ 0 (by omega) (by rw [hl2]; omega)), if_pos (inRange_of_len _ 1 (by omega) (by rw [hl2]; omega))] at hr
      by_cases hp : hasPrefix Gen.Config.lit_3 (GoIndex.idx (splitN (61 : UInt8) 2 o) 1) = true
      · rw [if_pos hp] at hr
        have hs : (splitN (37 : UInt8) 2 (GoIndex.idx (splitN (61 : UInt8) 2 o) 1)).length = 2 :=
          splitN2_base64 _ hp
        rw [if_pos (inRange_of_len _ 1 (by omega) (by rw [hs]; omega))] at hr
        split at hr
        · cases hr; exact ⟨_, rfl⟩
        · split at hr
          · cases hr; exact ⟨_, rfl⟩
          · cases hr
      · rw [if_neg hp] at hr
        split at hr
        · cases hr; exact ⟨_, rfl⟩
        · cases hr
  · intro s; exact ⟨_, rfl⟩

open Gen.Decode in
/-- what `handleProtocolVersion` returns: never a panic; without an error the argument count is the number of arguments -/
def VersionOk (r : Outcome (baseHandler × List GoString × Int × GoString × GoErr)) : Prop :=
  ∃ h args argc add err, r = .ok (h, args, argc, add, err) ∧ (err = none → argc = (args.length : Int))

open Gen.Decode in
theorem handleProtocolVersion_ok (ext : Ext) (h : baseHandler) (args : List GoString) :
    VersionOk (baseHandler.handleProtocolVersion ext h args) := by
  unfold baseHandler.handleProtocolVersion
  dsimp only
  have hl : (GoLen.len args : Int) = (args.length : Int) := rfl
  by_cases h2 : (args.length : Int) ≤ 2
  · have g : (decide (GoLen.len args ≤ 2) || goInRange args 0) = true := by simp [hl, h2]
    have g' : (decide (GoLen.len args ≤ 2) || (GoIndex.idx args 0 != lit_0)) = true := by simp [hl, h2]
    rw [if_pos g, if_pos g']
    exact ⟨_, _, _, _, _, rfl, fun e => by cases e⟩
  · have g0 : goInRange args 0 = true := inRange_of_len _ 0 (by omega) (by omega)
    have g1 : goInRange args 1 = true := inRange_of_len _ 1 (by omega) (by omega)
    have gs : goSliceOk args 2 (GoLen.len args) = true := sliceOk_of_len _ 2 (by omega) (by omega)
    simp only [g0, g1, gs, Bool.or_true, if_true]
    have hdrop : (GoLen.len args : Int) - 2 = ((List.drop (Int.toNat 2) args).length : Int) := by
      have : Int.toNat 2 = 2 := rfl
      rw [this, List.length_drop, hl]; omega
    repeat (first
      | exact ⟨_, _, _, _, _, rfl, fun _ => hdrop⟩
      | exact ⟨_, _, _, _, _, rfl, fun e => by cases e⟩
      | (apply ite_rule VersionOk <;> intro _))

open Gen.Decode in
/-- what `handleBase64` returns: never a panic (when the count it is given is the number of arguments); without an error
    there is at least one argument -/
def Base64Ok (r : Outcome (baseHandler × List GoString × Int × GoErr)) : Prop :=
  ∃ h args argc err, r = .ok (h, args, argc, err) ∧ (err = none → 0 < args.length)

open Gen.Decode in
theorem handleBase64_ok (ext : Ext) (h : baseHandler) (args : List GoString) (argc : Int) (hc : argc = (args.length : Int)) :
    Base64Ok (baseHandler.handleBase64 ext h args argc) := by
  unfold baseHandler.handleBase64
  dsimp only
  subst hc
  by_cases h2 : (args.length : Int) = 2
  · have g0 : goInRange args 0 = true := inRange_of_len _ 0 (by omega) (by omega)
    have g1 : goInRange args 1 = true := inRange_of_len _ 1 (by omega) (by omega)
    simp only [g0, g1, Bool.or_true, if_true]
    repeat (first
      | exact ⟨_, _, _, _, rfl, fun _ => List.length_pos_iff.2 (splitOnByte_ne_nil _ _)⟩
      | exact ⟨_, _, _, _, rfl, fun e => by simp_all⟩
      | (apply ite_rule Base64Ok <;> intro _))
  · have g : (((args.length : Int) != 2) || goInRange args 0) = true := by simp [h2]
    have g' : (((args.length : Int) != 2) || (GoIndex.idx args 0 != lit_6)) = true := by simp [h2]
    rw [if_pos g, if_pos g']
    exact ⟨_, _, _, _, rfl, fun e => by cases e⟩

open Gen.Decode in
/-- **`baseHandler.handleCommand` as translated from the working tree never panics**: for every command string a client
    can send — any protocol word, version, base64 text, decoded bytes, option list — none of the method's index and
    slice expressions, and none of those of the functions it calls to decode, is out of range -/
theorem handleCommand_ok (ext : Ext) (h : baseHandler) (commandStr : GoString) :
    IsOk (baseHandler.handleCommand ext h commandStr) := by
  unfold baseHandler.handleCommand
  obtain ⟨h1, args, argc, add, err, hv, hargc⟩ := handleProtocolVersion_ok ext h (splitOnByte (32 : UInt8) commandStr)
  rw [hv]
  dsimp only
  apply IsOk_ite <;> intro herr
  · exact ⟨_, rfl⟩
  have hnone : err = none := by simpa using herr
  obtain ⟨h2, args2, argc2, err2, hb, hpos⟩ := handleBase64_ok ext h1 args argc (hargc hnone)
  rw [hb]
  dsimp only
  apply IsOk_ite <;> intro herr2
  · exact ⟨_, rfl⟩
  have hnone2 : err2 = none := by simpa using herr2
  have hp := hpos hnone2
  rw [if_pos (inRange_of_len _ 0 (by omega) (by omega))]
  have hparts : 0 < (splitOnByte (58 : UInt8) (GoIndex.idx args2 0)).length := List.length_pos_iff.2 (splitOnByte_ne_nil _ _)
  rw [if_pos (inRange_of_len _ 0 (by omega) (by omega))]
  have hl : (GoLen.len (splitOnByte (58 : UInt8) (GoIndex.idx args2 0)) : Int) = ((splitOnByte (58 : UInt8) (GoIndex.idx args2 0)).length : Int) := rfl
  by_cases h1p : (splitOnByte (58 : UInt8) (GoIndex.idx args2 0)).length = 1
  · have g : ((GoLen.len (splitOnByte (58 : UInt8) (GoIndex.idx args2 0)) == 1) || goInRange (splitOnByte (58 : UInt8) (GoIndex.idx args2 0)) 1) = true := by
      simp [hl, h1p]
    have g' : ((GoLen.len (splitOnByte (58 : UInt8) (GoIndex.idx args2 0)) == 1) || (GoLen.len (GoIndex.idx (splitOnByte (58 : UInt8) (GoIndex.idx args2 0)) 1) == 0)) = true := by
      simp [hl, h1p]
    rw [if_pos g, if_pos g']
    exact ⟨_, rfl⟩
  · have g1 : goInRange (splitOnByte (58 : UInt8) (GoIndex.idx args2 0)) 1 = true := inRange_of_len _ 1 (by omega) (by omega)
    have gs : goSliceOk (splitOnByte (58 : UInt8) (GoIndex.idx args2 0)) 1 (GoLen.len (splitOnByte (58 : UInt8) (GoIndex.idx args2 0))) = true :=
      sliceOk_of_len _ 1 (by omega) (by omega)
    simp only [g1, gs, Bool.or_true, if_true]
    apply IsOk_ite <;> intro _
    · exact ⟨_, rfl⟩
    obtain ⟨v, hvd⟩ := DeserializeOptions_ok ext (List.drop (Int.toNat 1) (splitOnByte (58 : UInt8) (GoIndex.idx args2 0)))
    rw [hvd]
    dsimp only
    apply IsOk_ite <;> intro _ <;> exact ⟨_, rfl⟩

end Dtail.GenDecode
