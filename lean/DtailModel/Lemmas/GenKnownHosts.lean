/-
Tie G for the rewrite of the known-hosts file: `KnownHostsCallback.trustHosts` of internal/ssh/client/knownhostscallback.go
as translated from the working tree on this run (`Generated/Code.lean`, namespace `Gen.KnownHosts`).  File operations are
recorded in order in the receiver (`ext.ioErr` decides whether one fails), the scanner over the old file is the list of the
lines it delivers (`ext.scanLines`), `knownhosts.Normalize` is a parameter, the answer sent to the waiting connection is
outside the translation.  The theorem says that when no operation fails the function does not panic and writes, into the
temporary file it then renames over the old one, exactly the model's `trustHostsLines` (`Model/KnownHosts.lean`): the new
entries, then every old line whose address is not among the newly trusted ones.
-/
import DtailModel.Generated.Code
import DtailModel.Lemmas.GoRT
import DtailModel.Model.KnownHosts
import DtailModel.Model.Outfile
set_option autoImplicit false
namespace Dtail.GenKnownHosts
open Dtail Dtail.Go Dtail.Gen.KnownHosts

/-- the host as the model sees it -/
def hostOf (ext : Ext) (h : unknownHost) : NewHost :=
  ⟨h.hostLine, h.ipLine, [ext.normalizeAddr h.server, ext.normalizeAddr h.remote]⟩

/-- the map of newly trusted addresses holds exactly these keys -/
def HasKeys (m : GoMap GoString Unit) (ks : List GoString) : Prop := ∀ k, (m.get? k).isSome = ks.contains k

theorem hasKeys_set (m : GoMap GoString Unit) (ks : List GoString) (k : GoString) (h : HasKeys m ks) :
    HasKeys (m.set k ()) (ks ++ [k]) := by
  intro k'
  by_cases hk : k' = k
  · subst hk
    rw [GoMap.get?_set_eq]; simp
  · rw [GoMap.get?_set_ne m k k' () hk, h k']
    simp [hk]

theorem splitN2_ne_nil (l : Bytes) : splitN (32 : UInt8) 2 l ≠ [] := by
  unfold splitN
  split <;> simp

/-- the line a write of the loops carries -/
def wr (fd : GoString) (l : Bytes) : GoFOp := GoFOp.write fd (l ++ [10])

def newLines (hosts : List unknownHost) : List Bytes := hosts.flatMap fun h => [h.hostLine, h.ipLine]
def addrsOf (ext : Ext) (hosts : List unknownHost) : List Bytes :=
  hosts.flatMap fun h => [ext.normalizeAddr h.server, ext.normalizeAddr h.remote]
def keptLines (ext : Ext) (hosts : List unknownHost) (old : List Bytes) : List Bytes :=
  old.filter fun l => !(addrsOf ext hosts).contains (lineAddress l)

theorem lines_model (ext : Ext) (hosts : List unknownHost) (old : List Bytes) :
    newLines hosts ++ keptLines ext hosts old = trustHostsLines (hosts.map (hostOf ext)) old := by
  unfold newLines keptLines addrsOf trustHostsLines
  simp only [List.flatMap_map, hostOf]

theorem none_bne : ((none : GoErr) != none) = false := rfl
theorem tmp_lit : ([46, 116, 109, 112] : Bytes) = TMP := by decide

abbrev R := Outcome KnownHostsCallback

/-- the body of the loop over the newly trusted hosts, as the translator emitted it -/
def hostsBody (ext : Ext) (newFd : GoString) :
    GoMap GoString Unit × KnownHostsCallback × GoErr → unknownHost → LoopStep R (GoMap GoString Unit × KnownHostsCallback × GoErr) :=
  fun (addresses, c, err) unknown =>
    let addresses := (GoIndex.upd addresses (ext.normalizeAddr unknown.server) ())
    let addresses := (GoIndex.upd addresses (ext.normalizeAddr unknown.remote) ())
    let (_h4, _e4) := goEffect ext c.ops (GoFOp.write newFd (unknown.hostLine ++ ([10] : GoString)))
    let c := { c with ops := _h4 }
    let _t5 := (GoLen.len (unknown.hostLine ++ ([10] : GoString)))
    let _t6 := _e4
    let _u7 := _t5
    let err_8 := _t6
    if (err_8 != none) then
      LoopStep.ret (Outcome.panic "explicit panic")
    else
      let (_h9, _e9) := goEffect ext c.ops (GoFOp.write newFd (unknown.ipLine ++ ([10] : GoString)))
      let c := { c with ops := _h9 }
      let _t10 := (GoLen.len (unknown.ipLine ++ ([10] : GoString)))
      let _t11 := _e9
      let _u12 := _t10
      let err_13 := _t11
      if (err_13 != none) then
        LoopStep.ret (Outcome.panic "explicit panic")
      else
        LoopStep.next (addresses, c, err)

/-- the body of the loop over the lines of the old file -/
def oldBody (ext : Ext) (newFd : GoString) (addresses : GoMap GoString Unit) :
    KnownHostsCallback → GoString → LoopStep R KnownHostsCallback :=
  fun c _line18 =>
    let line := _line18
    if (goInRange (splitN (32 : UInt8) 2 line) 0) then
      let address := (GoIndex.idx (splitN (32 : UInt8) 2 line) 0)
      let (_t19, _t20) := GoIndex.idxOk addresses address
      let _u21 := _t19
      let ok := _t20
      if (!ok) then
        let (_h22, _e22) := goEffect ext c.ops (GoFOp.write newFd (line ++ ([10] : GoString)))
        let c := { c with ops := _h22 }
        LoopStep.next c
      else
        LoopStep.next c
    else
      LoopStep.ret (Outcome.panic "index out of range")

/-- the end of the function: the rename -/
def finish (ext : Ext) (tmpKnownHostsPath : GoString) : KnownHostsCallback → R :=
  fun c =>
    let (_h23, _e23) := goEffect ext c.ops (GoFOp.rename tmpKnownHostsPath c.knownHostsPath)
    let c := { c with ops := _h23 }
    let _t24 := _e23
    let err_25 := _t24
    if (err_25 != none) then
      (Outcome.panic "explicit panic")
    else
      (Outcome.ok c)

/-- what follows the loop over the hosts -/
def afterHosts (ext : Ext) (tmpKnownHostsPath newFd : GoString) : GoMap GoString Unit × KnownHostsCallback × GoErr → R :=
  fun (addresses, c, err) =>
    let (_h14, _e14) := goEffect ext c.ops (GoFOp.open c.knownHostsPath GoOpenMode.rdcreate)
    let c := { c with ops := _h14 }
    let (_h15, _e15) := goEffect ext c.ops (GoFOp.open c.knownHostsPath GoOpenMode.rdonly)
    let c := { c with ops := _h15 }
    let _t16 := c.knownHostsPath
    let _t17 := _e15
    let oldFd := _t16
    let err := _t17
    if (err != none) then
      (Outcome.panic "explicit panic")
    else
      let scanner := (ext.scanLines oldFd)
      goRange scanner c (oldBody ext newFd addresses) (finish ext tmpKnownHostsPath)

/-- the translated `trustHosts` in terms of the pieces above (checked by `rfl`: the pieces are the generated text) -/
theorem trustHosts_eq (ext : Ext) (c : KnownHostsCallback) (hosts : List unknownHost) :
    KnownHostsCallback.trustHosts ext c hosts =
      (let tmpKnownHostsPath := (c.knownHostsPath ++ ([46, 116, 109, 112] : GoString))
       let (_h1, _e1) := goEffect ext c.ops (GoFOp.open tmpKnownHostsPath GoOpenMode.trunc)
       let c := { c with ops := _h1 }
       let newFd := tmpKnownHostsPath
       let err := _e1
       if (err != none) then
         (Outcome.panic "explicit panic")
       else
         let addresses := (GoZero.zero : (GoMap GoString Unit))
         goRange hosts (addresses, c, err) (hostsBody ext newFd) (afterHosts ext tmpKnownHostsPath newFd)) := rfl

/-- the loop over the newly trusted hosts -/
theorem hosts_loop (ext : Ext) (hio : NoIOErr ext) (fd : GoString)
    (after : GoMap GoString Unit × KnownHostsCallback × GoErr → R) :
    ∀ (hosts : List unknownHost) (m : GoMap GoString Unit) (ks : List GoString) (c : KnownHostsCallback) (e : GoErr),
      HasKeys m ks →
      ∃ m', HasKeys m' (ks ++ addrsOf ext hosts) ∧
        goRange hosts (m, c, e) (hostsBody ext fd) after
        = after (m', { c with ops := c.ops ++ (newLines hosts).map (wr fd) }, e) := by
  intro hosts
  induction hosts with
  | nil =>
    intro m ks c e hk
    refine ⟨m, by simpa [addrsOf] using hk, ?_⟩
    simp [goRange, newLines]
  | cons h rest ih =>
    intro m ks c e hk
    rw [goRange_cons]
    have hb : hostsBody ext fd (m, c, e) h = .next ((m.set (ext.normalizeAddr h.server) ()).set (ext.normalizeAddr h.remote) (),
        { c with ops := c.ops ++ [GoFOp.write fd (h.hostLine ++ [10])] ++ [GoFOp.write fd (h.ipLine ++ [10])] }, e) := by
      simp only [hostsBody, goEffect_noErr hio, none_bne, Bool.false_eq_true, if_false]
      rfl
    rw [hb]
    have hk2 : HasKeys ((m.set (ext.normalizeAddr h.server) ()).set (ext.normalizeAddr h.remote) ())
        (ks ++ [ext.normalizeAddr h.server] ++ [ext.normalizeAddr h.remote]) :=
      hasKeys_set _ _ _ (hasKeys_set _ _ _ hk)
    obtain ⟨m', hm', hgo⟩ := ih _ _ { c with ops := c.ops ++ [GoFOp.write fd (h.hostLine ++ [10])] ++ [GoFOp.write fd (h.ipLine ++ [10])] } e hk2
    refine ⟨m', ?_, ?_⟩
    · simpa [addrsOf, List.append_assoc] using hm'
    · show goRange rest _ _ after = _
      rw [hgo]
      simp [newLines, wr, List.append_assoc]

/-- the loop over the lines of the old file -/
theorem old_loop (ext : Ext) (hio : NoIOErr ext) (fd : GoString) (m : GoMap GoString Unit) (addrs : List Bytes)
    (hm : HasKeys m addrs) (after : KnownHostsCallback → R) :
    ∀ (old : List Bytes) (c : KnownHostsCallback),
      goRange old c (oldBody ext fd m) after
      = after { c with ops := c.ops ++ (old.filter fun l => !addrs.contains (lineAddress l)).map (wr fd) } := by
  intro old
  induction old with
  | nil => intro c; simp [goRange]
  | cons l rest ih =>
    intro c
    rw [goRange_cons]
    have hne := splitN2_ne_nil l
    have hin : goInRange (splitN (32 : UInt8) 2 l) 0 = true := by
      have hl : (GoLen.len (splitN (32 : UInt8) 2 l) : Int) = ((splitN (32 : UInt8) 2 l).length : Int) := rfl
      have := List.length_pos_iff.2 hne
      simp only [goInRange, hl, decide_eq_true_eq]; omega
    have haddr : GoIndex.idx (splitN (32 : UInt8) 2 l) (0 : Int) = lineAddress l := by
      unfold lineAddress
      have : splitN SP 2 l = splitN (32 : UInt8) 2 l := rfl
      rw [this]
      cases hs : splitN (32 : UInt8) 2 l with
      | nil => exact absurd hs hne
      | cons a r => rfl
    have hok : (GoIndex.idxOk m (lineAddress l)).2 = addrs.contains (lineAddress l) := by
      have := hm (lineAddress l)
      rw [← this]
      simp only [GoIndex.idxOk]
      cases m.get? (lineAddress l) <;> rfl
    have hb : oldBody ext fd m c l = .next (if addrs.contains (lineAddress l) then c
        else { c with ops := c.ops ++ [GoFOp.write fd (l ++ [10])] }) := by
      simp only [oldBody, hin, if_true, haddr]
      cases hx : GoIndex.idxOk m (lineAddress l) with
      | mk v okb =>
        rw [hx] at hok
        simp only at hok
        subst hok
        cases addrs.contains (lineAddress l)
        · simp only [Bool.not_false, if_true, goEffect_noErr hio, Bool.false_eq_true, if_false]
        · simp only [Bool.not_true, Bool.false_eq_true, if_false, if_true]
    rw [hb]
    simp only []
    cases hc : addrs.contains (lineAddress l)
    · simp only [Bool.false_eq_true, if_false]
      rw [ih]
      simp only [List.filter_cons, hc, Bool.not_false, if_true, List.map_cons, wr, List.append_assoc, List.cons_append,
        List.nil_append]
    · simp only [if_true]
      rw [ih]
      simp only [List.filter_cons, hc, Bool.not_true, Bool.false_eq_true, if_false]

/-- **what the translated `trustHosts` does when no file operation fails**: it does not panic, and it has opened the
    temporary file, written the new entries, made sure the old file exists, opened and scanned it, written the old lines whose
    address was not replaced, and renamed the temporary file over the old one — in this order -/
theorem trustHosts_refines (ext : Ext) (hio : NoIOErr ext) (c : KnownHostsCallback) (hosts : List unknownHost) :
    ∃ c', KnownHostsCallback.trustHosts ext c hosts = Outcome.ok c' ∧ c'.knownHostsPath = c.knownHostsPath ∧
      c'.ops = c.ops ++ [GoFOp.open (c.knownHostsPath ++ TMP) .trunc]
        ++ (newLines hosts).map (wr (c.knownHostsPath ++ TMP))
        ++ [GoFOp.open c.knownHostsPath .rdcreate, GoFOp.open c.knownHostsPath .rdonly]
        ++ (keptLines ext hosts (ext.scanLines c.knownHostsPath)).map (wr (c.knownHostsPath ++ TMP))
        ++ [GoFOp.rename (c.knownHostsPath ++ TMP) c.knownHostsPath] := by
  rw [trustHosts_eq]
  simp only [goEffect_noErr hio, none_bne, Bool.false_eq_true, if_false]
  obtain ⟨m', hm', hgo⟩ := hosts_loop ext hio (c.knownHostsPath ++ TMP)
    (afterHosts ext (c.knownHostsPath ++ TMP) (c.knownHostsPath ++ TMP)) hosts (GoZero.zero : GoMap GoString Unit) []
    { c with ops := c.ops ++ [GoFOp.open (c.knownHostsPath ++ TMP) .trunc] } none (by intro k; rfl)
  have htmp : (c.knownHostsPath ++ ([46, 116, 109, 112] : GoString)) = c.knownHostsPath ++ TMP :=
    congrArg (c.knownHostsPath ++ ·) tmp_lit
  rw [htmp, hgo]
  simp only [afterHosts, goEffect_noErr hio, none_bne, Bool.false_eq_true, if_false]
  rw [old_loop ext hio (c.knownHostsPath ++ TMP) m' (addrsOf ext hosts) (by simpa using hm')]
  simp only [finish, goEffect_noErr hio, none_bne, Bool.false_eq_true, if_false]
  exact ⟨_, rfl, rfl, by simp [keptLines, List.append_assoc]⟩

end Dtail.GenKnownHosts
