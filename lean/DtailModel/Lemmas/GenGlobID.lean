/-
Tie G for readcommand.go makeGlobID(): the function as translated from the working tree on this run computes the
identifier of the hand-written model `makeGlobID` (Model/GlobID.lean), on which the attribution theorems of C07 are
stated, whenever the path has at least as many components as the glob (what filepath.Glob returns for the cleaned
pattern has exactly as many; with fewer, Go panics and the model says so).
-/
import DtailModel.Generated.Code
import DtailModel.Lemmas.GoRT
import DtailModel.Lemmas.GlobID
set_option autoImplicit false
namespace Dtail.GenGlobID
open Dtail Dtail.Go Dtail.Gen.Handlers

theorem isWild_eq (g : Bytes) :
    (List.contains g (42 : UInt8) || List.contains g (63 : UInt8) || List.contains g (91 : UInt8)) = isWild g := rfl

/-- the selection the translated loop makes, by total indexing -/
def selTotal (pp : List Bytes) : List Bytes → Nat → List Bytes
  | [], _ => []
  | g :: gs, k => if isWild g then (GoIndex.idx pp (k : Int) : Bytes) :: selTotal pp gs (k + 1) else selTotal pp gs (k + 1)

theorem loop_eq (pp gs : List Bytes) (k : Nat) (acc : List GoString) (after : List GoString → readCommand × GoString) :
    goRange ((gs.zipIdx k).map fun x => ((x.2 : Int), x.1)) acc
      (fun idParts (x : Int × Bytes) =>
        if isWild x.2 = true then LoopStep.next (idParts ++ [(GoIndex.idx pp x.1)]) else LoopStep.next idParts) after
      = after (acc ++ selTotal pp gs k) := by
  induction gs generalizing k acc with
  | nil => simp [goRange, selTotal]
  | cons g gs ih =>
    simp only [List.zipIdx_cons, List.map_cons, goRange]
    by_cases hw : isWild g = true
    · simp only [hw, if_true, selTotal]
      rw [ih]
      simp
    · have hw' : isWild g = false := by simpa using hw
      simp only [hw', Bool.false_eq_true, if_false, selTotal]
      rw [ih]

theorem selTotal_eq_starSel (pp gs : List Bytes) (k : Nat) (h : gs.length ≤ (pp.drop k).length) :
    selTotal pp gs k = starSel (pp.drop k) gs := by
  induction gs generalizing k with
  | nil => cases hd : pp.drop k <;> simp [selTotal, starSel]
  | cons g gs ih =>
    cases hd : pp.drop k with
    | nil => simp [hd] at h
    | cons p ps =>
      have hi : pp[k]? = some p := by
        have := List.getElem?_drop (xs := pp) (i := k) (j := 0)
        simp [hd] at this
        exact this.symm
      have hdrop : pp.drop (k + 1) = ps := by
        have : pp.drop (k + 1) = (pp.drop k).drop 1 := by simp [List.drop_drop]
        rw [this, hd]; rfl
      have hlen : gs.length ≤ (pp.drop (k + 1)).length := by
        rw [hdrop]; rw [hd] at h; simp at h; omega
      have hidx : (GoIndex.idx pp (k : Int) : Bytes) = p := by
        show pp.getD (k : Int).toNat GoZero.zero = p
        simp [List.getD_eq_getElem?_getD, hi]
      simp only [selTotal, starSel, hidx, ih (k + 1) hlen, hdrop]

/-- **the translated `makeGlobID` computes the model's identifier** -/
theorem makeGlobID_refines (ext : Ext) (r : readCommand) (path glob : Bytes)
    (h : (splitOnByte SLASH glob).length ≤ (splitOnByte SLASH path).length) :
    ∃ id, makeGlobID path glob = .ok id ∧ readCommand.makeGlobID ext r path glob = (r, id) := by
  refine ⟨_, makeGlobID_ok path glob h, ?_⟩
  have hs := selTotal_eq_starSel (splitOnByte 47 path) (splitOnByte 47 glob) 0 (by simpa [SLASH] using h)
  simp only [List.drop_zero] at hs
  unfold readCommand.makeGlobID goEnum
  refine Eq.trans (loop_eq (splitOnByte 47 path) (splitOnByte 47 glob) 0 ([] : List GoString) _) ?_
  simp only [List.nil_append]
  rw [hs]
  have hne : splitOnByte 47 path ≠ [] := splitOnByte_ne_nil 47 path
  cases hsel : starSel (splitOnByte 47 path) (splitOnByte 47 glob) with
  | nil =>
    have hlen : ¬ ((GoLen.len ([] : List GoString) : Int) > 0) := by simp [GoLen.len]
    have hplen : (GoLen.len (splitOnByte 47 path) : Int) > 0 := by
      cases hp : splitOnByte 47 path with
      | nil => exact absurd hp hne
      | cons a as => simp [GoLen.len]
    simp only [SLASH, hsel, hlen, hplen, decide_false, decide_true, Bool.false_eq_true, if_false, if_true]
    congr 1
    show (splitOnByte 47 path).getD ((GoLen.len (splitOnByte 47 path) : Int) - 1).toNat GoZero.zero = _
    cases hp : splitOnByte 47 path with
    | nil => exact absurd hp hne
    | cons a as =>
      simp only [GoLen.len, List.length_cons]
      have : ((((as.length + 1 : Nat) : Int)) - 1).toNat = as.length := by omega
      rw [this]
      simp [List.getD_eq_getElem?_getD, List.getLast?_eq_getElem?, GoZero.zero]
  | cons a as =>
    have hlen : ((GoLen.len (a :: as) : Int) > 0) := by simp [GoLen.len]
    simp only [SLASH, hsel, hlen, decide_true, if_true]

end Dtail.GenGlobID
