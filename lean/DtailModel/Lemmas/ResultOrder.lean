/-
The final report does not depend on the order in which the groups reach the sort (Go ranges over
a map), nor on how the global group set was built, as long as it holds the same groups:
* `sortBy` is a stable sort: a sorted permutation of its input;
* two permutations of the same rows sort to the same sequence of order keys, and to the same
  rows when no two rows share an order key;
* two group lists with the same lookups (and no key twice) are permutations of each other.
-/
import DtailModel.Model.Result
import DtailModel.Lemmas.AggPipeline
namespace Dtail.ResultOrder
open Dtail

variable {α κ : Type}

/-- a linear order given by its `≤` test -/
structure Linear (le : κ → κ → Bool) : Prop where
  total : ∀ a b, le a b = true ∨ le b a = true
  trans : ∀ a b c, le a b = true → le b c = true → le a c = true
  antisymm : ∀ a b, le a b = true → le b a = true → a = b

theorem insertBy_perm (le : κ → κ → Bool) (key : α → κ) (x : α) (l : List α) :
    (insertBy le key x l).Perm (x :: l) := by
  induction l with
  | nil => exact .refl _
  | cons y r ih =>
    unfold insertBy
    split
    · exact .refl _
    · exact (List.Perm.cons y ih).trans (List.Perm.swap x y r)

theorem sortBy_perm (le : κ → κ → Bool) (key : α → κ) (l : List α) : (sortBy le key l).Perm l := by
  induction l with
  | nil => exact .refl _
  | cons x r ih =>
    show (insertBy le key x (sortBy le key r)).Perm (x :: r)
    exact (insertBy_perm le key x _).trans (List.Perm.cons x ih)

/-- sorted: every element's key is `≤` the key of every later element -/
def Sorted (le : κ → κ → Bool) (key : α → κ) (l : List α) : Prop :=
  l.Pairwise fun a b => le (key a) (key b) = true

theorem insertBy_sorted {le : κ → κ → Bool} (hl : Linear le) (key : α → κ) (x : α) (l : List α)
    (h : Sorted le key l) : Sorted le key (insertBy le key x l) := by
  induction l with
  | nil => simp [insertBy, Sorted]
  | cons y r ih =>
    unfold insertBy
    have hy := List.pairwise_cons.1 h
    split
    · rename_i hxy
      refine List.pairwise_cons.2 ⟨?_, h⟩
      intro z hz
      rcases List.mem_cons.1 hz with rfl | hz
      · exact hxy
      · exact hl.trans _ _ _ hxy (hy.1 z hz)
    · rename_i hxy
      have hyx : le (key y) (key x) = true := by
        rcases hl.total (key x) (key y) with h1 | h1
        · exact absurd h1 hxy
        · exact h1
      refine List.pairwise_cons.2 ⟨?_, ih hy.2⟩
      intro z hz
      have := (insertBy_perm le key x r).subset hz
      rcases List.mem_cons.1 this with rfl | hz
      · exact hyx
      · exact hy.1 z hz

theorem sortBy_sorted {le : κ → κ → Bool} (hl : Linear le) (key : α → κ) (l : List α) :
    Sorted le key (sortBy le key l) := by
  induction l with
  | nil => simp [sortBy, Sorted]
  | cons x r ih => exact insertBy_sorted hl key x _ ih

/-- **the order keys of the sorted rows do not depend on the input order** -/
theorem sortBy_keys_of_perm {le : κ → κ → Bool} (hl : Linear le) (key : α → κ) (a b : List α) (h : a.Perm b) :
    (sortBy le key a).map key = (sortBy le key b).map key := by
  have hp : ((sortBy le key a).map key).Perm ((sortBy le key b).map key) :=
    (((sortBy_perm le key a).trans h).trans (sortBy_perm le key b).symm).map key
  refine List.Perm.eq_of_pairwise (le := fun x y => le x y = true) (fun x y _ _ h1 h2 => hl.antisymm x y h1 h2) ?_ ?_ hp
  · exact List.pairwise_map.2 (sortBy_sorted hl key a)
  · exact List.pairwise_map.2 (sortBy_sorted hl key b)

/-- **without ties the sorted rows themselves do not depend on the input order** -/
theorem sortBy_eq_of_perm {le : κ → κ → Bool} (hl : Linear le) (key : α → κ) (a b : List α) (h : a.Perm b)
    (hinj : ∀ x ∈ a, ∀ y ∈ a, key x = key y → x = y) : sortBy le key a = sortBy le key b := by
  have hp : (sortBy le key a).Perm (sortBy le key b) :=
    ((sortBy_perm le key a).trans h).trans (sortBy_perm le key b).symm
  refine List.Perm.eq_of_pairwise (le := fun x y => le (key x) (key y) = true) ?_ (sortBy_sorted hl key a) (sortBy_sorted hl key b) hp
  intro x y hx hy h1 h2
  have hxa : x ∈ a := (sortBy_perm le key a).subset hx
  have hya : y ∈ a := h.symm.subset ((sortBy_perm le key b).subset hy)
  exact hinj x hxa y hya (hl.antisymm _ _ h1 h2)

/-- a stable sort: rows with the same key keep their input order -/
theorem insertBy_filter [DecidableEq κ] {le : κ → κ → Bool} (hl : Linear le) (key : α → κ) (x : α) (l : List α) (k : κ)
    (h : Sorted le key l) :
    (insertBy le key x l).filter (fun e => decide (key e = k)) = (x :: l).filter (fun e => decide (key e = k)) := by
  induction l with
  | nil => rfl
  | cons y r ih =>
    unfold insertBy
    have hy := List.pairwise_cons.1 h
    split
    · rfl
    · rename_i hxy
      have hne : ¬ (key x = k ∧ key y = k) := by
        rintro ⟨h1, h2⟩
        apply hxy
        rw [h1, h2]
        rcases hl.total k k with h | h <;> exact h
      have ihr := ih hy.2
      simp only [List.filter_cons] at ihr ⊢
      by_cases hx : key x = k
      · have hyk : ¬ key y = k := fun e => hne ⟨hx, e⟩
        simp only [hx, hyk, decide_true, decide_false, if_true] at ihr ⊢
        simpa using ihr
      · simp only [hx, decide_false] at ihr ⊢
        simp only [Bool.false_eq_true, if_false] at ihr ⊢
        rw [ihr]

theorem sortBy_stable [DecidableEq κ] {le : κ → κ → Bool} (hl : Linear le) (key : α → κ) (l : List α) (k : κ) :
    (sortBy le key l).filter (fun e => decide (key e = k)) = l.filter (fun e => decide (key e = k)) := by
  induction l with
  | nil => rfl
  | cons x r ih =>
    show (insertBy le key x (sortBy le key r)).filter _ = _
    rw [insertBy_filter hl key x _ k (sortBy_sorted hl key r)]
    simp only [List.filter_cons]
    rw [ih]

theorem leRat_linear : Linear leRat where
  total a b := by
    unfold leRat
    rcases @Rat.le_total a b with h | h
    · exact .inl (decide_eq_true h)
    · exact .inr (decide_eq_true h)
  trans a b c h1 h2 := by
    unfold leRat at *
    exact decide_eq_true (Rat.le_trans (of_decide_eq_true h1) (of_decide_eq_true h2))
  antisymm a b h1 h2 := by
    unfold leRat at *
    exact Rat.le_antisymm (of_decide_eq_true h1) (of_decide_eq_true h2)

theorem geRat_linear : Linear geRat where
  total a b := by
    unfold geRat
    rcases @Rat.le_total a b with h | h
    · exact .inr (decide_eq_true h)
    · exact .inl (decide_eq_true h)
  trans a b c h1 h2 := by
    unfold geRat at *
    exact decide_eq_true (Rat.le_trans (of_decide_eq_true h2) (of_decide_eq_true h1))
  antisymm a b h1 h2 := by
    unfold geRat at *
    exact Rat.le_antisymm (of_decide_eq_true h2) (of_decide_eq_true h1)

/-! ### group lists with the same content -/

open AggPipe in
theorem mem_iff_lookup (g : Groups) (h : (keys g).Nodup) (k : Bytes) (s : AggSet) :
    (k, s) ∈ g ↔ lookup g k = some s := by
  induction g with
  | nil => simp [lookup]
  | cons e rest ih =>
    obtain ⟨ke, se⟩ := e
    simp only [keys, List.map_cons, List.nodup_cons] at h
    have ihr := ih h.2
    by_cases hk : ke = k
    · subst hk
      have hnot : ∀ s', (ke, s') ∉ rest := fun s' hm => h.1 (List.mem_map.2 ⟨_, hm, rfl⟩)
      simp [lookup, hnot]
      exact ⟨fun e => e.symm, fun e => e.symm⟩
    · have : ¬ k = ke := fun e => hk e.symm
      simp only [lookup] at ihr
      simp [lookup, hk, this, ihr]

open AggPipe in
theorem nodup_of_keys (g : Groups) (h : (keys g).Nodup) : g.Nodup := by
  unfold keys at h
  exact (List.pairwise_map.1 h).imp (fun {x y} hne e => hne (congrArg Prod.fst e))

open AggPipe in
/-- two group lists that answer every lookup alike hold the same groups -/
theorem perm_of_lookup_eq (a b : Groups) (ha : (keys a).Nodup) (hb : (keys b).Nodup)
    (h : ∀ k, lookup a k = lookup b k) : a.Perm b := by
  refine (List.perm_ext_iff_of_nodup (nodup_of_keys a ha) (nodup_of_keys b hb)).2 ?_
  rintro ⟨k, s⟩
  rw [mem_iff_lookup a ha, mem_iff_lookup b hb, h]

open AggPipe in
theorem nodup_mergeGroups (sel : List SelCond) (a b : Groups) (ha : (keys a).Nodup) :
    (keys (mergeGroups sel a b)).Nodup := by
  rw [mergeGroups_eq]
  induction b generalizing a with
  | nil => exact ha
  | cons e rest ih => exact ih _ (nodup_updGroup _ _ _ _ ha)

open AggPipe in
theorem nodup_distributed (sel : List SelCond) (gb : List Bytes) (parts : List (List Fields)) :
    (keys (distributed sel gb parts)).Nodup := by
  unfold distributed
  suffices ∀ g : Groups, (keys g).Nodup →
      (keys (parts.foldl (fun g p => mergeGroups sel g (transmitted (serverPartial sel gb p))) g)).Nodup from
    this [] (by simp [keys])
  induction parts with
  | nil => intro g hg; exact hg
  | cons p rest ih => intro g hg; exact ih _ (nodup_mergeGroups sel g _ hg)

open AggPipe in
theorem nodup_central (sel : List SelCond) (gb : List Bytes) (lines : List Fields) :
    (keys (central sel gb lines)).Nodup := by
  unfold central
  rw [transmitted_eq]
  exact keys_filter_nodup _ _ (nodup_serverPartial sel gb lines)

open AggPipe in
/-- the global group set of the distributed run holds exactly the groups of the central evaluation -/
theorem distributed_perm_central (sel : List SelCond) (gb : List Bytes) (parts : List (List Fields)) :
    (distributed sel gb parts).Perm (central sel gb parts.flatten) :=
  perm_of_lookup_eq _ _ (nodup_distributed sel gb parts) (nodup_central sel gb _)
    (distributed_eq_central sel gb parts)

/-! ### the report -/

theorem limitRows_map {α β : Type} (f : α → β) (limit : Int) (l : List α) :
    (limitRows limit l).map f = limitRows limit (l.map f) := by
  unfold limitRows; split <;> simp [List.map_take]


theorem orderRows_keys (q : Query) (a b : List Row) (h : a.Perm b) (ho : q.orderBy ≠ []) :
    (orderRows q a).map (·.orderBy) = (orderRows q b).map (·.orderBy) := by
  unfold orderRows
  simp only [ho, if_false]
  split
  · exact sortBy_keys_of_perm leRat_linear _ a b h
  · exact sortBy_keys_of_perm geRat_linear _ a b h

theorem orderRows_eq (q : Query) (a b : List Row) (h : a.Perm b) (ho : q.orderBy ≠ [])
    (hinj : ∀ x ∈ a, ∀ y ∈ a, x.orderBy = y.orderBy → x = y) : orderRows q a = orderRows q b := by
  unfold orderRows
  simp only [ho, if_false]
  split
  · exact sortBy_eq_of_perm leRat_linear _ a b h hinj
  · exact sortBy_eq_of_perm geRat_linear _ a b h hinj

theorem orderRows_perm (q : Query) (a : List Row) : (orderRows q a).Perm a := by
  unfold orderRows
  split
  · exact .refl _
  · split
    · exact sortBy_perm _ _ a
    · exact sortBy_perm _ _ a

/-- the order of the report: descending for `order by`, ascending for `rorder by` -/
def RowLe (q : Query) (a b : Row) : Prop := if q.reverse then a.orderBy ≤ b.orderBy else b.orderBy ≤ a.orderBy

theorem orderRows_sorted (q : Query) (rows : List Row) (ho : q.orderBy ≠ []) : (orderRows q rows).Pairwise (RowLe q) := by
  unfold orderRows RowLe
  simp only [ho, if_false]
  by_cases hr : q.reverse = true
  · simp only [hr, if_true]
    exact (sortBy_sorted leRat_linear (fun r : Row => r.orderBy) rows).imp (fun h => of_decide_eq_true h)
  · simp only [hr]
    exact (sortBy_sorted geRat_linear (fun r : Row => r.orderBy) rows).imp (fun h => of_decide_eq_true h)

end Dtail.ResultOrder
