import DtailModel.Model.Outfile
namespace Dtail

theorem find_filter_ne (fs : FS) (p q : Bytes) (h : ¬ q = p) :
    (fs.filter (fun x => decide (x.fst ≠ p))).find? (fun x => decide (x.fst = q))
      = fs.find? (fun x => decide (x.fst = q)) := by
  induction fs with
  | nil => rfl
  | cons x xs ih =>
    by_cases hx : x.fst = p
    · have hq : ¬ x.fst = q := by rw [hx]; exact fun e => h e.symm
      have e1 : (x :: xs).filter (fun x => decide (x.fst ≠ p)) = xs.filter (fun x => decide (x.fst ≠ p)) := by
        rw [List.filter_cons]; simp [hx]
      rw [e1, ih, List.find?_cons]; simp [hq]
    · have e1 : (x :: xs).filter (fun x => decide (x.fst ≠ p)) = x :: xs.filter (fun x => decide (x.fst ≠ p)) := by
        rw [List.filter_cons]; simp [hx]
      rw [e1, List.find?_cons, List.find?_cons, ih]

theorem find_filter_self (fs : FS) (q : Bytes) :
    (fs.filter (fun x => decide (x.fst ≠ q))).find? (fun x => decide (x.fst = q)) = none := by
  apply List.find?_eq_none.2
  intro x hx
  have := (List.mem_filter.1 hx).2
  simpa using this

theorem fsGet_fsSet (fs : FS) (p q : Bytes) (c : Bytes) :
    fsGet (fsSet fs p c) q = if q = p then some c else fsGet fs q := by
  unfold fsGet fsSet
  rw [List.find?_append]
  by_cases h : q = p
  · subst h
    rw [find_filter_self]
    simp
  · rw [find_filter_ne fs p q h]
    have hne : ¬ p = q := fun e => h e.symm
    have h2 : ([(p, c)] : FS).find? (fun x => decide (x.fst = q)) = none := by
      rw [List.find?_cons]; simp [hne]
    rw [h2, Option.or_none]
    simp [h]

theorem fsGet_fsDel (fs : FS) (p q : Bytes) :
    fsGet (fsDel fs p) q = if q = p then none else fsGet fs q := by
  unfold fsGet fsDel
  by_cases h : q = p
  · subst h
    rw [find_filter_self]; simp
  · rw [find_filter_ne fs p q h]; simp [h]

/-- the paths an operation can change -/
def FOp.touches : FOp → Bytes → Bool
  | .openTrunc p, q => p == q
  | .openAppend p, q => p == q
  | .write p _, q => p == q
  | .rename s d, q => s == q || d == q

theorem applyOp_untouched (fs : FS) (op : FOp) (q : Bytes) (h : op.touches q = false) :
    fsGet (applyOp fs op) q = fsGet fs q := by
  cases op with
  | openTrunc p =>
    have hq : ¬ q = p := by intro e; subst e; simp [FOp.touches] at h
    show fsGet (fsSet fs p []) q = fsGet fs q
    rw [fsGet_fsSet, if_neg hq]
  | openAppend p =>
    have hq : ¬ q = p := by intro e; subst e; simp [FOp.touches] at h
    show fsGet (match fsGet fs p with | none => fsSet fs p [] | some _ => fs) q = fsGet fs q
    cases fsGet fs p with
    | none => show fsGet (fsSet fs p []) q = _; rw [fsGet_fsSet, if_neg hq]
    | some _ => rfl
  | write p d =>
    have hq : ¬ q = p := by intro e; subst e; simp [FOp.touches] at h
    show fsGet (fsSet fs p _) q = fsGet fs q
    rw [fsGet_fsSet, if_neg hq]
  | rename s d =>
    simp only [FOp.touches, Bool.or_eq_false_iff, beq_eq_false_iff_ne, ne_eq] at h
    have h1 : ¬ q = s := fun e => h.1 e.symm
    have h2 : ¬ q = d := fun e => h.2 e.symm
    show fsGet (match fsGet fs s with | none => fs | some c => fsSet (fsDel fs s) d c) q = fsGet fs q
    cases fsGet fs s with
    | none => rfl
    | some c => show fsGet (fsSet (fsDel fs s) d c) q = _; rw [fsGet_fsSet, if_neg h2, fsGet_fsDel, if_neg h1]

theorem applyOps_untouched (fs : FS) (ops : List FOp) (q : Bytes)
    (h : ∀ op ∈ ops, op.touches q = false) : fsGet (applyOps fs ops) q = fsGet fs q := by
  induction ops generalizing fs with
  | nil => rfl
  | cons op rest ih =>
    simp only [applyOps, List.foldl_cons] at ih ⊢
    rw [ih _ (fun o ho => h o (List.mem_cons_of_mem _ ho)), applyOp_untouched fs op q (h op (by simp))]

/-- the concatenated data of a list of writes -/
def writesData : List FOp → Bytes
  | [] => []
  | .write _ d :: rest => d ++ writesData rest
  | _ :: rest => writesData rest

def allWritesTo (p : Bytes) (ops : List FOp) : Prop := ∀ op ∈ ops, ∃ d, op = .write p d

theorem applyOps_writes (fs : FS) (p : Bytes) (ops : List FOp) (c : Bytes)
    (hw : allWritesTo p ops) (hc : fsGet fs p = some c) :
    fsGet (applyOps fs ops) p = some (c ++ writesData ops) := by
  induction ops generalizing fs c with
  | nil => simpa [applyOps, writesData] using hc
  | cons op rest ih =>
    obtain ⟨d, rfl⟩ := hw op (by simp)
    simp only [applyOps, List.foldl_cons] at ih ⊢
    have h1 : fsGet (applyOp fs (.write p d)) p = some (c ++ d) := by
      show fsGet (fsSet fs p ((fsGet fs p).getD [] ++ d)) p = _
      rw [fsGet_fsSet, if_pos rfl, hc]; rfl
    rw [ih _ (c ++ d) (fun o ho => hw o (List.mem_cons_of_mem _ ho)) h1]
    simp [writesData]

theorem csvLineWrites_all (p : Bytes) (vals : List Bytes) : allWritesTo p (csvLineWrites p vals) := by
  intro op hop
  cases vals with
  | nil => simp [csvLineWrites] at hop; exact ⟨_, hop⟩
  | cons v rest =>
    simp only [csvLineWrites, List.cons_append, List.mem_cons, List.mem_append, List.mem_flatMap,
      List.mem_singleton] at hop
    rcases hop with rfl | ⟨w, _, h⟩ | h
    · exact ⟨_, rfl⟩
    · simp only [List.mem_cons, List.mem_nil_iff, or_false] at h
      rcases h with rfl | rfl <;> exact ⟨_, rfl⟩
    · simp only [List.mem_nil_iff, or_false] at h; exact ⟨_, h⟩

theorem writesData_append (a b : List FOp) : writesData (a ++ b) = writesData a ++ writesData b := by
  induction a with
  | nil => rfl
  | cons op rest ih => cases op <;> simp [writesData, ih]

theorem csvLineWrites_data (p : Bytes) (vals : List Bytes) : writesData (csvLineWrites p vals) = csvLine vals := by
  cases vals with
  | nil => simp [csvLineWrites, writesData, csvLine, joinByte]
  | cons v rest =>
    simp only [csvLineWrites, csvLine]
    induction rest generalizing v with
    | nil => simp [writesData, joinByte]
    | cons w ws ih =>
      have := ih w
      simp only [List.flatMap_cons, List.cons_append, List.nil_append, writesData, joinByte,
        List.append_assoc] at this ⊢
      rw [this]

end Dtail
