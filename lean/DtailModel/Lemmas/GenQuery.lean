/-
Tie G (panic-aware) for the query parser of internal/mapr: theorems about the functions as translated from the
working tree on this run (`Generated/Code.lean`, namespace `Gen.MaprQuery`).  In the translation every index and slice
expression is guarded; where the Go runtime would panic the translated function returns `Outcome.panic`.  The theorems
here say that this value is never returned.
-/
import DtailModel.Generated.Code
import DtailModel.Lemmas.GoRT
import DtailModel.Lemmas.LoopRules
set_option autoImplicit false
namespace Dtail.GenQuery
open Dtail Dtail.Go Dtail.Gen.MaprQuery

/-- what `tokensConsume` returns: never a panic; neither part is longer than the input -/
def ConsumeOk (tokens : List token) (r : Outcome (List token × List token)) : Prop :=
  ∃ rest consumed, r = .ok (rest, consumed) ∧ rest.length ≤ tokens.length ∧ consumed.length ≤ tokens.length

theorem tokensConsume_ok (ext : Ext) (tokens : List token) : ConsumeOk tokens (tokensConsume ext tokens) := by
  unfold tokensConsume
  refine goRange_inv (ConsumeOk tokens)
    (fun consumed rem => consumed.length + rem.length ≤ tokens.length ∧ ∀ p ∈ rem, 0 ≤ p.1 ∧ p.1 < (tokens.length : Int))
    _ _ ?_ ?_ (goEnum tokens) _ ⟨by simp [length_goEnum, GoZero.zero], fun p hp => mem_goEnum tokens p.1 p.2 hp⟩
  · rintro consumed ⟨i, t⟩ xs ⟨hlenI, hmem⟩
    have hi := hmem (i, t) (by simp)
    have hmem' : ∀ p ∈ xs, 0 ≤ p.1 ∧ p.1 < (tokens.length : Int) := fun p hp => hmem p (by simp [hp])
    simp only [List.length_cons] at hlenI
    dsimp only
    have hlen : GoLen.len tokens = (tokens.length : Int) := rfl
    have hn : GoLen.len t.str = (t.str.length : Int) := rfl
    have g1 : goSliceOk tokens i (GoLen.len tokens) = true := by
      simp only [goSliceOk, hlen, decide_eq_true_eq]; omega
    simp only [g1, if_true]
    apply ite_rule (StepOk _ _ _) <;> intro _
    · show ConsumeOk tokens _
      exact ⟨_, _, rfl, by rw [List.length_drop]; omega, by omega⟩
    apply ite_rule (StepOk _ _ _) <;> intro _
    · show consumed.length + xs.length ≤ tokens.length ∧ _
      exact ⟨by omega, hmem'⟩
    apply ite_rule (StepOk _ _ _) <;> intro hg
    · apply ite_rule (StepOk _ _ _) <;> intro hq
      · apply ite_rule (StepOk _ _ _) <;> intro hs
        · show (consumed ++ [_]).length + xs.length ≤ tokens.length ∧ _
          exact ⟨by rw [List.length_append, List.length_singleton]; omega, hmem'⟩
        · exfalso; apply hs
          simp only [Bool.and_eq_true, decide_eq_true_eq, hn] at hq
          simp only [goSliceOk, hn, decide_eq_true_eq]; omega
      · show (consumed ++ [_]).length + xs.length ≤ tokens.length ∧ _
        exact ⟨by rw [List.length_append, List.length_singleton]; omega, hmem'⟩
    · exfalso; apply hg
      simp only [goInRange, hn, Bool.and_eq_true, Bool.or_eq_true, Bool.not_eq_true', decide_eq_false_iff_not, decide_eq_true_eq]
      constructor
      · by_cases h1 : (t.str.length : Int) > 1
        · right; omega
        · left; exact h1
      · by_cases h1 : (t.str.length : Int) > 1
        · right; omega
        · left; simp [h1]
  · rintro consumed ⟨hlenI, _⟩
    exact ⟨_, _, rfl, by simp [GoZero.zero], by simpa using hlenI⟩

/-- `tokensConsumeStr` never panics; the rest is never longer than the input -/
theorem tokensConsumeStr_ok (ext : Ext) (tokens : List token) :
    ∃ rest strs, tokensConsumeStr ext tokens = .ok (rest, strs) ∧ rest.length ≤ tokens.length := by
  unfold tokensConsumeStr
  obtain ⟨rest, consumed, he, hl, _⟩ := tokensConsume_ok ext tokens
  rw [he]
  simp only []
  exact goRange_rule (fun r => ∃ rest' strs, r = Outcome.ok (rest', strs) ∧ rest'.length ≤ tokens.length) consumed
    (fun (strings : List GoString) (token : token) => LoopStep.next (strings ++ [token.str]))
    (fun strings => Outcome.ok (rest, strings))
    (by intro s x _ r hr; cases hr) (fun s => ⟨rest, s, rfl, hl⟩) _

/-- `tokensConsumeOptional` never panics: the input, or the input without its first token -/
theorem tokensConsumeOptional_ok (ext : Ext) (tokens : List token) (w : GoString) :
    tokensConsumeOptional ext tokens w = .ok tokens ∨ tokensConsumeOptional ext tokens w = .ok (tokens.drop 1) := by
  unfold tokensConsumeOptional
  have hlen : GoLen.len tokens = (tokens.length : Int) := rfl
  by_cases h0 : (tokens.length : Int) < 1
  · simp [hlen, h0]
  · have g1 : goInRange tokens 0 = true := by simp only [goInRange, hlen, decide_eq_true_eq]; omega
    have g2 : goSliceOk tokens 1 (tokens.length : Int) = true := by simp only [goSliceOk, hlen, decide_eq_true_eq]; omega
    have h1 : Int.toNat 1 = 1 := rfl
    simp only [hlen, h0, decide_false, Bool.false_eq_true, if_false, g1, if_true, g2, h1]
    split
    · right; rfl
    · left; rfl

theorem tokensConsumeOptional_len (ext : Ext) (tokens : List token) (w : GoString) :
    ∃ rest, tokensConsumeOptional ext tokens w = .ok rest ∧ rest.length ≤ tokens.length := by
  rcases tokensConsumeOptional_ok ext tokens w with h | h
  · exact ⟨_, h, Nat.le_refl _⟩
  · exact ⟨_, h, by simp⟩

/-- `makeSelectConditions`' closure `parse` never panics -/
theorem makeSelectConditions_parse_ok (ext : Ext) (t : token) : IsOk (makeSelectConditions_parse ext t) := by
  unfold makeSelectConditions_parse
  dsimp only
  apply IsOk_ite <;> intro h1
  · exact ⟨_, rfl⟩
  apply IsOk_ite <;> intro h2
  · exact ⟨_, rfl⟩
  have ha2 := len_ne_two _ (by simpa using h2)
  rw [if_pos (inRange_of_len _ 0 (by omega) (by rw [ha2]; omega)), if_pos (inRange_of_len _ 1 (by omega) (by rw [ha2]; omega))]
  apply IsOk_ite <;> intro h3
  · exact ⟨_, rfl⟩
  have hb2 := len_ne_two _ (by simpa using h3)
  rw [if_pos (inRange_of_len _ 0 (by omega) (by rw [hb2]; omega))]
  repeat (first | exact ⟨_, rfl⟩ | (apply IsOk_ite <;> intro _))

/-- `makeSelectConditions` never panics -/
theorem makeSelectConditions_ok (ext : Ext) (tokens : List token) : IsOk (makeSelectConditions ext tokens) := by
  unfold makeSelectConditions
  apply goRange_rule IsOk
  · intro s x _ r hr
    obtain ⟨v, hv⟩ := makeSelectConditions_parse_ok ext x
    simp only [hv] at hr
    split at hr
    · cases hr; exact ⟨_, rfl⟩
    · cases hr
  · intro s; exact ⟨_, rfl⟩

/-- what `whereCondition.fill` returns on at least three tokens: never a panic; without an error the rest is the input
    without its first three tokens -/
def FillOk (tokens : List token) (r : Outcome (whereCondition × List token × GoErr)) : Prop :=
  ∃ wc rest err, r = .ok (wc, rest, err) ∧ (err = none → rest = tokens.drop 3)

theorem fill_ok (ext : Ext) (wc : whereCondition) (tokens : List token) (h3 : 3 ≤ tokens.length) :
    FillOk tokens (whereCondition.fill ext wc tokens) := by
  unfold whereCondition.fill
  dsimp only
  have g0 : goInRange tokens 0 = true := inRange_of_len _ 0 (by omega) (by omega)
  have g2 : goInRange tokens 2 = true := inRange_of_len _ 2 (by omega) (by omega)
  have gs : goSliceOk tokens 3 (GoLen.len tokens) = true := sliceOk_of_len _ 3 (by omega) (by omega)
  simp only [g0, g2, gs, if_true]
  repeat (first
    | exact ⟨_, _, _, rfl, fun _ => rfl⟩
    | exact ⟨_, _, _, rfl, fun h => by cases h⟩
    | (apply ite_rule (FillOk tokens) <;> intro _))

/-- what a one-condition parser returns: never a panic; without an error the rest is shorter than the input -/
def ParseOk {γ : Type} (tokens : List token) (r : Outcome (γ × List token × GoErr)) : Prop :=
  ∃ c rest err, r = .ok (c, rest, err) ∧ (err = none → rest.length < tokens.length)

theorem len_ge_three (tokens : List token) (h0 : ¬decide ((GoLen.len tokens : Int) < 3) = true) : 3 ≤ tokens.length := by
  have hl : (GoLen.len tokens : Int) = (tokens.length : Int) := rfl
  rw [hl] at h0; simp at h0; omega

/-- `makeWhereConditions`' closure `parse` never panics and consumes tokens -/
theorem makeWhereConditions_parse_ok (ext : Ext) (tokens : List token) : ParseOk tokens (makeWhereConditions_parse ext tokens) := by
  unfold makeWhereConditions_parse
  dsimp only
  apply ite_rule (ParseOk tokens) <;> intro h0
  · exact ⟨_, _, _, rfl, fun h => by cases h⟩
  have h3 := len_ge_three tokens h0
  rw [if_pos (inRange_of_len _ 1 (by omega) (by omega))]
  repeat (first
    | exact ⟨_, _, _, rfl, fun h => by cases h⟩
    | (generalize hF : whereCondition.fill ext _ tokens = F
       have hk : FillOk tokens F := hF ▸ fill_ok ext _ tokens h3
       obtain ⟨w, r, e, rfl, hr⟩ := hk
       exact ⟨_, _, _, rfl, fun h => by rw [hr h, List.length_drop]; omega⟩)
    | (apply ite_rule (ParseOk tokens) <;> intro _))

/-- `makeWhereConditions` never panics (and does not run out of fuel) when the fuel exceeds the number of tokens -/
theorem makeWhereConditions_ok (ext : Ext) (tokens : List token) (hf : tokens.length < ext.fuel) :
    IsOk (makeWhereConditions ext tokens) := by
  unfold makeWhereConditions
  dsimp only
  refine goWhile_rule IsOk (fun s => s.2.1.length) _ _ _ _ ?_ ?_ ext.fuel _ hf
  · rintro ⟨err, toks, wh⟩ _
    dsimp only
    obtain ⟨c, rest, e, he, hlen⟩ := makeWhereConditions_parse_ok ext toks
    rw [he]
    dsimp only
    by_cases hne : (e != none) = true
    · rw [if_pos hne]; exact ⟨_, rfl⟩
    · rw [if_neg hne]
      have hnone : e = none := by simpa using hne
      obtain ⟨rest', hopt, hl'⟩ := tokensConsumeOptional_len ext rest ([97, 110, 100] : GoString)
      rw [hopt]
      dsimp only
      have := hlen hnone
      omega
  · rintro ⟨err, toks, wh⟩
    exact ⟨_, rfl⟩

/-- what `initSetConditions` returns: never a panic; without an error there are at least three tokens -/
def InitOk (tokens : List token) (r : Outcome (setCondition × GoErr)) : Prop :=
  ∃ sc err, r = .ok (sc, err) ∧ (err = none → 3 ≤ tokens.length)

theorem initSetConditions_ok (ext : Ext) (sc : setCondition) (tokens : List token) : InitOk tokens (initSetConditions ext sc tokens) := by
  unfold initSetConditions
  dsimp only
  apply ite_rule (InitOk tokens) <;> intro h0
  · exact ⟨_, _, rfl, fun h => by cases h⟩
  have h3 := len_ge_three tokens h0
  have g0 : goInRange tokens 0 = true := inRange_of_len _ 0 (by omega) (by omega)
  have g1 : goInRange tokens 1 = true := inRange_of_len _ 1 (by omega) (by omega)
  have g2 : goInRange tokens 2 = true := inRange_of_len _ 2 (by omega) (by omega)
  simp only [g0, g1, g2, if_true]
  repeat (first
    | exact ⟨_, _, rfl, fun _ => h3⟩
    | (apply ite_rule (InitOk tokens) <;> intro _))

/-- `makeSetConditions`' closure `parse` never panics and consumes tokens -/
theorem makeSetConditions_parse_ok (ext : Ext) (tokens : List token) : ParseOk tokens (makeSetConditions_parse ext tokens) := by
  unfold makeSetConditions_parse
  dsimp only
  obtain ⟨sc, e, he, h3e⟩ := initSetConditions_ok ext {} tokens
  rw [he]
  dsimp only
  apply ite_rule (ParseOk tokens) <;> intro hne
  · exact ⟨_, _, _, rfl, fun h => by simp [h] at hne⟩
  have h3 : 3 ≤ tokens.length := h3e (by simpa using hne)
  have g2 : goInRange tokens 2 = true := inRange_of_len _ 2 (by omega) (by omega)
  have gs : goSliceOk tokens 3 (GoLen.len tokens) = true := sliceOk_of_len _ 3 (by omega) (by omega)
  simp only [g2, gs, if_true]
  have hdrop : (List.drop (Int.toNat 3) tokens).length < tokens.length := by
    have : Int.toNat 3 = 3 := rfl
    rw [this, List.length_drop]; omega
  repeat (first
    | exact ⟨_, _, _, rfl, fun _ => hdrop⟩
    | exact ⟨_, _, _, rfl, fun h => by simp_all⟩
    | (apply ite_rule (ParseOk tokens) <;> intro _))

/-- `makeSetConditions` never panics when the fuel exceeds the number of tokens -/
theorem makeSetConditions_ok (ext : Ext) (tokens : List token) (hf : tokens.length < ext.fuel) :
    IsOk (makeSetConditions ext tokens) := by
  unfold makeSetConditions
  dsimp only
  refine goWhile_rule IsOk (fun s => s.2.2.length) _ _ _ _ ?_ ?_ ext.fuel _ hf
  · rintro ⟨err, st, toks⟩ _
    dsimp only
    obtain ⟨c, rest, e, he, hlen⟩ := makeSetConditions_parse_ok ext toks
    rw [he]
    dsimp only
    by_cases hne : (e != none) = true
    · rw [if_pos hne]; exact ⟨_, rfl⟩
    · rw [if_neg hne]
      have hnone : e = none := by simpa using hne
      obtain ⟨rest', hopt, hl'⟩ := tokensConsumeOptional_len ext rest ([44] : GoString)
      rw [hopt]
      dsimp only
      have := hlen hnone
      omega
  · rintro ⟨err, st, toks⟩
    exact ⟨_, rfl⟩

/-- **`Query.parseTokens` never panics** and does not run out of fuel when the fuel exceeds the number of tokens -/
theorem parseTokens_ok (ext : Ext) (q : Query) (tokens : List token) (hf : tokens.length < ext.fuel) :
    IsOk (Query.parseTokens ext q tokens) := by
  unfold Query.parseTokens
  dsimp only
  refine goWhile_inv IsOk (fun s => s.2.2.2.length ≤ tokens.length) (fun s => s.2.2.2.length) _ _ _ _ ?_ ?_ ext.fuel _ (Nat.le_refl _) hf
  · rintro ⟨err, found, q, toks⟩ hI hc
    dsimp only at hI hc ⊢
    have hl : (GoLen.len toks : Int) = (toks.length : Int) := rfl
    have hpos : 0 < toks.length := by rw [hl] at hc; simpa using hc
    have g0 : goInRange toks 0 = true := inRange_of_len _ 0 (by omega) (by omega)
    have gs : goSliceOk toks 1 (GoLen.len toks) = true := sliceOk_of_len _ 1 (by omega) (by omega)
    simp only [g0, gs, if_true]
    have h1 : Int.toNat 1 = 1 := rfl
    rw [h1]
    obtain ⟨rest, fnd, hcns, hr1, hr2⟩ := tokensConsume_ok ext (List.drop 1 toks)
    simp only [hcns]
    have hd : (List.drop 1 toks).length = toks.length - 1 := by rw [List.length_drop]
    obtain ⟨vs, hvs⟩ := makeSelectConditions_ok ext fnd
    obtain ⟨vw, hvw⟩ := makeWhereConditions_ok ext fnd (by omega)
    obtain ⟨vt, hvt⟩ := makeSetConditions_ok ext fnd (by omega)
    obtain ⟨ro, hopt, hlo⟩ := tokensConsumeOptional_len ext (List.drop 1 toks) ([98, 121] : GoString)
    obtain ⟨rs, strs, hstr, hls⟩ := tokensConsumeStr_ok ext ro
    obtain ⟨rc, fc, hcc, hlc1, hlc2⟩ := tokensConsume_ok ext ro
    simp only [hvs, hvw, hvt, hopt, hstr, hcc]
    repeat (first
      | exact (show IsOk _ from ⟨_, rfl⟩)
      | (refine (show _ ∧ _ from ⟨?_, ?_⟩) <;> dsimp only <;> omega)
      | (refine guard_rule (StepOk _ _ _) (by guard_tac) ?_)
      | (apply ite_rule (StepOk _ _ _) <;> intro _))
  · rintro ⟨err, found, q, toks⟩ _
    exact ⟨_, rfl⟩


/-- `Query.parse` never panics -/
theorem parse_ok (ext : Ext) (q : Query) (tokens : List token) (hf : tokens.length < ext.fuel) :
    IsOk (Query.parse ext q tokens) := by
  unfold Query.parse
  obtain ⟨v, hv⟩ := parseTokens_ok ext q tokens hf
  rw [hv]
  dsimp only
  apply IsOk_ite <;> intro _
  · exact ⟨_, rfl⟩
  apply IsOk_ite <;> intro hsel
  · exact ⟨_, rfl⟩
  have hpos : 0 < v.1.Select.length := by
    simp only [len_list, decide_eq_true_eq] at hsel; omega
  have g0 : goInRange v.1.Select 0 = true := inRange_of_len _ 0 (by omega) (by omega)
  simp only [g0, if_true]
  have hloop : ∀ (qq : Query) (ob : GoString) (l : List selectCondition) (b0 : Bool),
      IsOk (goRange l b0
        (fun orderFieldIsValid (sc : selectCondition) =>
          if (ob == sc.FieldStorage) = true then LoopStep.brk true else LoopStep.next orderFieldIsValid)
        (fun orderFieldIsValid =>
          if (!orderFieldIsValid) = true then Outcome.ok (qq, some (invalidQuery + (lit_36 ++ ob ++ lit_37)))
          else Outcome.ok (qq, (none : GoErr)))) := by
    intro qq ob l b0
    refine goRange_rule IsOk _ _ _ ?_ ?_ _
    · intro s x _ r hr
      split at hr <;> cases hr
    · intro s
      apply IsOk_ite <;> intro _ <;> exact ⟨_, rfl⟩
  apply IsOk_ite <;> intro _
  · apply IsOk_ite <;> intro _
    · exact hloop _ _ _ _
    · exact ⟨_, rfl⟩
  · apply IsOk_ite <;> intro _
    · exact hloop _ _ _ _
    · exact ⟨_, rfl⟩

/-- **`NewQuery` as translated from the working tree never panics**: for every query text, every `strconv.ParseFloat`,
    `strconv.Atoi` and `funcs.NewFunctionStack`, the parser returns a query or an error; no index or slice expression
    is out of range and no loop exceeds the fuel, provided the fuel exceeds the number of tokens -/
theorem NewQuery_ok (ext : Ext) (queryStr : GoString) (hf : (tokenize ext queryStr).length < ext.fuel) :
    IsOk (NewQuery ext queryStr) := by
  unfold NewQuery
  dsimp only
  apply IsOk_ite <;> intro _
  · exact ⟨_, rfl⟩
  apply IsOk_ite <;> intro _
  · obtain ⟨v, hv⟩ := parse_ok ext _ (tokenize ext queryStr) hf
    rw [hv]; exact ⟨_, rfl⟩
  · obtain ⟨v, hv⟩ := parse_ok ext _ (tokenize ext queryStr) hf
    rw [hv]; exact ⟨_, rfl⟩

/-! ### how many tokens a query text has: at most its length plus one -/

theorem fieldsAux_length (fuel : Nat) : ∀ (s cur : Bytes),
    (fieldsAux fuel s cur).length ≤ s.length + (if cur = [] then 0 else 1) := by
  induction fuel with
  | zero => intro s cur; unfold fieldsAux; split <;> simp <;> omega
  | succ n ih =>
    intro s cur
    cases s with
    | nil => unfold fieldsAux; split <;> simp
    | cons b rest =>
      unfold fieldsAux
      simp only []
      by_cases hk : spaceLen (b :: rest) = 0
      · rw [if_pos hk]
        have := ih rest (cur ++ [b])
        have hne : (cur ++ [b]) ≠ [] := by simp
        rw [if_neg hne] at this
        simp only [List.length_cons]
        split <;> omega
      · rw [if_neg hk]
        have := ih ((b :: rest).drop (spaceLen (b :: rest))) []
        simp only [if_true, Nat.add_zero] at this
        have hd : ((b :: rest).drop (spaceLen (b :: rest))).length ≤ (b :: rest).length - 1 := by
          rw [List.length_drop]; omega
        simp only [List.length_append, List.length_cons] at hd ⊢
        split <;> simp <;> omega

theorem fields_length (s : Bytes) : (fields s).length ≤ s.length := by
  have := fieldsAux_length (s.length + 1) s []
  simpa [fields] using this

/-- the sum of the lengths of the parts of a split, each counted with one more -/
def partsWeight : List Bytes → Nat
  | [] => 0
  | p :: ps => p.length + 1 + partsWeight ps

theorem splitOnByte_weight (sep : UInt8) (s : Bytes) : partsWeight (splitOnByte sep s) = s.length + 1 := by
  induction s with
  | nil => rfl
  | cons b bs ih =>
    unfold splitOnByte
    by_cases hb : b = sep
    · rw [if_pos hb]; simp only [partsWeight, List.length_nil, List.length_cons]; omega
    · rw [if_neg hb]
      cases hs : splitOnByte sep bs with
      | nil => rw [hs] at ih; simp [partsWeight] at ih
      | cons p ps =>
        rw [hs] at ih
        simp only [partsWeight, List.length_cons] at ih ⊢
        omega

/-- the loop of `tokenize` adds, per part of the split at '"', at most the part's length plus one tokens -/
theorem tokenize_loop (ext : Ext) : ∀ (l : List (Int × GoString)) (tokens : List token),
    (goRange l tokens
      (fun tokens (x : Int × GoString) =>
        if ((Int.tmod x.1 2) == 0) then
          let commasStripped := (List.map (fun b => if b == (44 : UInt8) then (32 : UInt8) else b) x.2)
          goRange (fields commasStripped) tokens
            (fun tokens tokenStr =>
              let token := ({ str := tokenStr, isBareword := true } : Dtail.Gen.MaprQuery.token)
              let tokens := (tokens ++ [token])
              LoopStep.next tokens)
            (fun tokens =>
              (LoopStep.next tokens : LoopStep (List token) (List token)))
        else
          let token := ({ str := x.2, isBareword := false } : Dtail.Gen.MaprQuery.token)
          let tokens := (tokens ++ [token])
          LoopStep.next tokens)
      (fun tokens => tokens)).length ≤ tokens.length + partsWeight (l.map (·.2)) := by
  intro l
  induction l with
  | nil => intro tokens; simp [goRange, partsWeight]
  | cons x rest ih =>
    intro tokens
    rw [goRange_cons]
    have hlen : ∀ (fs : List GoString) (ts : List token),
        (fs.foldl (fun (ts : List token) (t : GoString) => ts ++ [({ str := t, isBareword := true } : Dtail.Gen.MaprQuery.token)]) ts).length
          = ts.length + fs.length := by
      intro fs
      induction fs with
      | nil => intro ts; rfl
      | cons f fr ihf => intro ts; rw [List.foldl_cons, ihf]; simp; omega
    by_cases he : ((Int.tmod x.1 2) == 0) = true
    · have hb : (if ((Int.tmod x.1 2) == 0) then
            let commasStripped := (List.map (fun b => if b == (44 : UInt8) then (32 : UInt8) else b) x.2)
            goRange (fields commasStripped) tokens
              (fun tokens tokenStr =>
                let token := ({ str := tokenStr, isBareword := true } : Dtail.Gen.MaprQuery.token)
                let tokens := (tokens ++ [token])
                LoopStep.next tokens)
              (fun tokens => (LoopStep.next tokens : LoopStep (List token) (List token)))
          else
            let token := ({ str := x.2, isBareword := false } : Dtail.Gen.MaprQuery.token)
            let tokens := (tokens ++ [token])
            LoopStep.next tokens)
          = LoopStep.next (List.foldl (fun (ts : List token) (t : GoString) => ts ++ [({ str := t, isBareword := true } : Dtail.Gen.MaprQuery.token)]) tokens
              (fields (List.map (fun b => if b == (44 : UInt8) then (32 : UInt8) else b) x.2))) := by
        rw [if_pos he]
        exact goRange_fold _ tokens _ _ _ (fun _ _ => rfl)
      rw [hb]
      have h1 := ih (List.foldl (fun (ts : List token) (t : GoString) => ts ++ [({ str := t, isBareword := true } : Dtail.Gen.MaprQuery.token)]) tokens
        (fields (List.map (fun b => if b == (44 : UInt8) then (32 : UInt8) else b) x.2)))
      rw [hlen] at h1
      have h2 := fields_length (List.map (fun b => if b == (44 : UInt8) then (32 : UInt8) else b) x.2)
      simp only [List.length_map] at h2
      simp only [List.map_cons, partsWeight]
      refine Nat.le_trans h1 ?_
      omega
    · have hb : (if ((Int.tmod x.1 2) == 0) then
            let commasStripped := (List.map (fun b => if b == (44 : UInt8) then (32 : UInt8) else b) x.2)
            goRange (fields commasStripped) tokens
              (fun tokens tokenStr =>
                let token := ({ str := tokenStr, isBareword := true } : Dtail.Gen.MaprQuery.token)
                let tokens := (tokens ++ [token])
                LoopStep.next tokens)
              (fun tokens => (LoopStep.next tokens : LoopStep (List token) (List token)))
          else
            let token := ({ str := x.2, isBareword := false } : Dtail.Gen.MaprQuery.token)
            let tokens := (tokens ++ [token])
            LoopStep.next tokens)
          = LoopStep.next (tokens ++ [({ str := x.2, isBareword := false } : Dtail.Gen.MaprQuery.token)]) := by
        rw [if_neg he]
      rw [hb]
      have h1 := ih (tokens ++ [({ str := x.2, isBareword := false } : Dtail.Gen.MaprQuery.token)])
      simp only [List.length_append, List.length_cons, List.length_nil] at h1
      simp only [List.map_cons, partsWeight]
      refine Nat.le_trans h1 ?_
      omega

/-- **a query text has at most its length plus one tokens** -/
theorem tokenize_length (ext : Ext) (queryStr : GoString) : (tokenize ext queryStr).length ≤ queryStr.length + 1 := by
  unfold tokenize
  have h := tokenize_loop ext (goEnum (splitOnByte (34 : UInt8) queryStr)) (GoZero.zero : List token)
  have hm : (goEnum (splitOnByte (34 : UInt8) queryStr)).map (·.2) = splitOnByte (34 : UInt8) queryStr := by
    unfold goEnum
    rw [List.map_map]
    have : ((fun (x : Int × GoString) => x.2) ∘ fun (p : GoString × Nat) => ((p.2 : Int), p.1)) = fun (p : GoString × Nat) => p.1 := rfl
    rw [this]
    exact List.zipIdx_map_fst _ _
  rw [hm, splitOnByte_weight] at h
  have hz : (GoZero.zero : List token).length = 0 := rfl
  rw [hz, Nat.zero_add] at h
  exact h

/-- **`NewQuery` never panics, stated on the query text alone**: fuel beyond the length of the text plus one is enough -/
theorem NewQuery_ok_text (ext : Ext) (queryStr : GoString) (hf : queryStr.length + 1 < ext.fuel) :
    IsOk (NewQuery ext queryStr) :=
  NewQuery_ok ext queryStr (Nat.lt_of_le_of_lt (tokenize_length ext queryStr) hf)

end Dtail.GenQuery
