/-
Liveness side of the aggregator transition system: which readers' channels the aggregator
can hold, and deadlock freedom (some step is enabled in every reachable state in which the
aggregator has not finished).
-/
import DtailModel.Lemmas.Aggregator
namespace Dtail

/-- reader `r` exists and has registered its channel -/
def RegL (l : List Rd) (r : Nat) : Prop := ∃ d, l[r]? = some d ∧ d.st ≠ .notRegistered

theorem regL_set_of_reg (l : List Rd) (r r' : Nat) (v : Rd) (hv : v.st ≠ .notRegistered)
    (h : RegL l r') : RegL (l.set r v) r' := by
  obtain ⟨d, hd, hne⟩ := h
  by_cases e : r = r'
  · subst e
    have hlt : r < l.length := (List.getElem?_eq_some_iff.1 hd).1
    exact ⟨v, by simp [List.getElem?_set, hlt], hv⟩
  · exact ⟨d, by simp [List.getElem?_set, e, hd], hne⟩

theorem regL_set_self (l : List Rd) (r : Nat) (v : Rd) (hv : v.st ≠ .notRegistered) (hr : r < l.length) :
    RegL (l.set r v) r := ⟨v, by simp [List.getElem?_set, hr], hv⟩

theorem regL_of_set_ne (l : List Rd) (r r' : Nat) (v : Rd) (h : RegL (l.set r v) r') (hne : r' ≠ r) :
    RegL l r' := by
  obtain ⟨d, hd, hn⟩ := h
  have e : ¬ r = r' := fun x => hne x.symm
  exact ⟨d, by simpa [List.getElem?_set, e] using hd, hn⟩

theorem regL_of_set (l : List Rd) (r r' : Nat) (v : Rd) (h : RegL (l.set r v) r') (hr : RegL l r) :
    RegL l r' := by
  by_cases e : r' = r
  · subst e; exact hr
  · exact regL_of_set_ne l r r' v h e

structure AggInv2 (s : Agg) : Prop where
  cur : ∀ r, s.current = some r → RegL s.rds r
  queued : ∀ r, r ∈ s.nextQ → RegL s.rds r
  limbo : ∀ r, r ∈ s.limbo → RegL s.rds r
  noCur : s.current = none → s.limbo = [] ∧ ∀ r, RegL s.rds r → r ∈ s.nextQ

theorem aggInit_inv2 (sizes : List Nat) : AggInv2 (aggInit sizes) := by
  refine ⟨by simp [aggInit], by simp [aggInit], by simp [aggInit], ?_⟩
  intro _
  refine ⟨rfl, ?_⟩
  intro r ⟨d, hd, hne⟩
  have := List.mem_of_getElem? hd
  simp only [aggInit, List.mem_replicate] at this
  rw [this.2] at hne; exact absurd rfl hne

/-- a step that only rewrites reader `r`'s record to a registered one, with `r` registered
    before, keeps the second invariant when queue, limbo and current are unchanged -/
theorem inv2_set (s : Agg) (r : Nat) (v : Rd) (h : AggInv2 s) (hv : v.st ≠ .notRegistered) (hr : RegL s.rds r) :
    AggInv2 { s with rds := s.rds.set r v } := by
  obtain ⟨hc, hq, hl, hn⟩ := h
  refine ⟨fun r' h' => regL_set_of_reg _ _ _ _ hv (hc r' h'), fun r' h' => regL_set_of_reg _ _ _ _ hv (hq r' h'),
    fun r' h' => regL_set_of_reg _ _ _ _ hv (hl r' h'), ?_⟩
  intro h0
  exact ⟨(hn h0).1, fun r' h' => (hn h0).2 r' (regL_of_set _ _ _ _ h' hr)⟩

theorem aggStep_inv2 (s s' : Agg) (l : ALabel) (h : AggInv2 s) (hs : aggStep s l = some s') : AggInv2 s' := by
  have h0 := h
  obtain ⟨hc, hq, hl, hn⟩ := h
  cases l with
  | register r =>
    simp only [aggStep] at hs
    split at hs
    · rename_i p c hr
      split at hs
      case isFalse => simp at hs
      simp only [Option.some.injEq] at hs; subst hs
      have hrlt : r < s.rds.length := (List.getElem?_eq_some_iff.1 hr).1
      have hv : (⟨.open_, p, c⟩ : Rd).st ≠ .notRegistered := by simp
      refine ⟨fun r' h' => regL_set_of_reg _ _ _ _ hv (hc r' h'), ?_,
        fun r' h' => regL_set_of_reg _ _ _ _ hv (hl r' h'), ?_⟩
      · intro r' h'
        rcases List.mem_append.1 h' with h1 | h1
        · exact regL_set_of_reg _ _ _ _ hv (hq r' h1)
        · simp only [List.mem_singleton] at h1; subst h1
          exact regL_set_self _ _ _ hv hrlt
      · intro hnone
        refine ⟨(hn hnone).1, ?_⟩
        intro r' h'
        by_cases e : r' = r
        · subst e; simp
        · exact List.mem_append_left _ ((hn hnone).2 r' (regL_of_set_ne _ _ _ _ h' e))
    · simp at hs
  | push r =>
    simp only [aggStep] at hs
    split at hs
    · rename_i p c n hr hsz
      split at hs
      · simp only [Option.some.injEq] at hs; subst hs
        exact inv2_set s r _ h0 (by simp) ⟨_, hr, by simp⟩
      · simp at hs
    · simp at hs
  | close r =>
    simp only [aggStep] at hs
    split at hs
    · rename_i p c n hr hsz
      split at hs
      · simp only [Option.some.injEq] at hs; subst hs
        exact inv2_set s r _ h0 (by simp) ⟨_, hr, by simp⟩
      · simp at hs
    · simp at hs
  | first =>
    simp only [aggStep] at hs
    split at hs
    · rename_i r rest hcur hq'
      split at hs
      · simp at hs
      · simp only [Option.some.injEq] at hs; subst hs
        refine ⟨?_, ?_, hl, by simp⟩
        · intro r' h'; simp only [Option.some.injEq] at h'; subst h'
          exact hq _ (by rw [hq']; simp)
        · intro r' h'; exact hq r' (by rw [hq']; exact List.mem_cons_of_mem _ h')
    · simp at hs
  | take =>
    simp only [aggStep] at hs
    split at hs
    · rename_i r hcur
      split at hs
      · rename_i d hd
        split at hs
        · simp only [Option.some.injEq] at hs; subst hs
          obtain ⟨d', hd', hne'⟩ := hc r hcur
          rw [hd] at hd'; cases hd'
          exact inv2_set s r _ h0 (by simpa using hne') ⟨d, hd, hne'⟩
        · simp at hs
      · simp at hs
    · simp at hs
  | closedSwitch =>
    simp only [aggStep] at hs
    split at hs
    · rename_i r r' rest hcur hq'
      split at hs
      · split at hs
        · simp only [Option.some.injEq] at hs; subst hs
          refine ⟨?_, ?_, hl, by simp⟩
          · intro x hx; simp only [Option.some.injEq] at hx; subst hx
            exact hq _ (by rw [hq']; simp)
          · intro x hx; exact hq x (by rw [hq']; exact List.mem_cons_of_mem _ hx)
        · simp at hs
      · simp at hs
    · simp at hs
  | closedDone =>
    simp only [aggStep] at hs
    split at hs
    · split at hs
      · split at hs
        · simp only [Option.some.injEq] at hs; subst hs
          exact ⟨hc, hq, hl, hn⟩
        · simp at hs
      · simp at hs
    · simp at hs
  | rotate =>
    simp only [aggStep] at hs
    split at hs
    · rename_i r r' rest hcur hq'
      split at hs
      · split at hs
        · simp only [Option.some.injEq] at hs; subst hs
          refine ⟨?_, ?_, ?_, by simp⟩
          · intro x hx; simp only [Option.some.injEq] at hx; subst hx
            exact hq _ (by rw [hq']; simp)
          · intro x hx; exact hq x (by rw [hq']; exact List.mem_cons_of_mem _ hx)
          · intro x hx
            rcases List.mem_append.1 hx with h1 | h1
            · exact hl x h1
            · simp only [List.mem_singleton] at h1; subst h1; exact hc _ hcur
        · simp at hs
      · simp at hs
    · simp at hs
  | requeue r =>
    simp only [aggStep] at hs
    split at hs
    · rename_i hmem
      simp only [Option.some.injEq] at hs; subst hs
      refine ⟨hc, ?_, ?_, ?_⟩
      · intro x hx
        rcases List.mem_append.1 hx with h1 | h1
        · exact hq x h1
        · simp only [List.mem_singleton] at h1; subst h1; exact hl _ hmem.1
      · intro x hx; exact hl x (List.mem_of_mem_erase hx)
      · intro hnone
        have := (hn hnone).1
        rw [this] at hmem; exact absurd hmem.1 (by simp)
    · simp at hs

theorem aggRun_inv2 (sizes : List Nat) (history : List ALabel) (s : Agg)
    (h : aggRun (aggInit sizes) history = some s) : AggInv2 s := by
  have gen : ∀ (hist : List ALabel) (a b : Agg), AggInv2 a → aggRun a hist = some b → AggInv2 b := by
    intro hist
    induction hist with
    | nil => intro a b ha hr; simp [aggRun] at hr; rw [← hr]; exact ha
    | cons l rest ih =>
      intro a b ha hr
      simp only [aggRun] at hr
      cases hstep : aggStep a l with
      | none => simp [hstep] at hr
      | some a' =>
        simp only [hstep, Option.bind_some] at hr
        exact ih a' b (aggStep_inv2 a a' l ha hstep) hr
  exact gen history _ s (aggInit_inv2 sizes) h

/-- **Deadlock freedom.**  In every state satisfying the invariants, as long as the aggregator
    has not finished and there is at least one file, some step of the system is enabled:
    a reader can register / write / close, or the aggregator can take a line, switch, rotate
    or finish.  (With queues of capacity ≥ 1.) -/
theorem agg_step_enabled (s : Agg) (i1 : AggInv s) (i2 : AggInv2 s) (hne : s.sizes ≠ [])
    (hnd : s.done = false) (hcap : 0 < nextCap) (hcc : 0 < chanCap) :
    ∃ l s', aggStep s l = some s' := by
  cases hcur : s.current with
  | none =>
    obtain ⟨hl0, hall⟩ := i2.noCur hcur
    cases hq : s.nextQ with
    | cons r rest => exact ⟨.first, Option.isSome_iff_exists.1 (by simp [aggStep, hcur, hq, hnd])⟩
    | nil =>
      -- nobody has registered: reader 0 can
      have hlen : 0 < s.rds.length := by
        rw [i1.len]; exact List.length_pos_iff.2 hne
      obtain ⟨st, p, c⟩ : Rd := s.rds[0]
      have hd : s.rds[0]? = some (s.rds[0]) := List.getElem?_eq_getElem hlen
      cases hst : (s.rds[0]).st with
      | notRegistered =>
        refine ⟨.register 0, ?_⟩
        have : s.rds[0]? = some ⟨.notRegistered, (s.rds[0]).pushed, (s.rds[0]).consumed⟩ := by
          rw [hd]; congr 1; cases hh : s.rds[0] with | mk a b c => simp [hh] at hst ⊢; exact hst
        exact Option.isSome_iff_exists.1 (by simp [aggStep, this, hq, hcap])
      | open_ =>
        have : (0 : Nat) ∈ s.nextQ := hall 0 ⟨_, hd, by rw [hst]; simp⟩
        rw [hq] at this; exact absurd this (by simp)
      | closed =>
        have : (0 : Nat) ∈ s.nextQ := hall 0 ⟨_, hd, by rw [hst]; simp⟩
        rw [hq] at this; exact absurd this (by simp)
  | some r =>
    obtain ⟨d, hd, hreg⟩ := i2.cur r hcur
    have hrlt : r < s.sizes.length := by rw [← i1.len]; exact (List.getElem?_eq_some_iff.1 hd).1
    obtain ⟨n, hn⟩ : ∃ n, s.sizes[r]? = some n := ⟨_, List.getElem?_eq_getElem hrlt⟩
    have hb := i1.bounds r d n hd hn
    obtain ⟨st, p, c⟩ := d
    simp only at hb hreg
    by_cases hlt : c < p
    · exact ⟨.take, Option.isSome_iff_exists.1 (by simp [aggStep, hcur, hd, hlt, hnd])⟩
    · have hcp : c = p := by omega
      subst hcp
      cases st with
      | notRegistered => exact absurd rfl hreg
      | closed =>
        cases hq : s.nextQ with
        | nil => exact ⟨.closedDone, Option.isSome_iff_exists.1 (by simp [aggStep, hcur, hq, hd, hnd])⟩
        | cons r' rest => exact ⟨.closedSwitch, Option.isSome_iff_exists.1 (by simp [aggStep, hcur, hq, hd, hnd])⟩
      | open_ =>
        by_cases hpn : c < n
        · exact ⟨.push r, Option.isSome_iff_exists.1 (by simp [aggStep, hd, hn, hpn, hcc])⟩
        · have : c = n := by omega
          exact ⟨.close r, Option.isSome_iff_exists.1 (by simp [aggStep, hd, hn, this])⟩

end Dtail

namespace Dtail

theorem aggStep_sizes (s s' : Agg) (l : ALabel) (hs : aggStep s l = some s') : s'.sizes = s.sizes := by
  cases l <;> simp only [aggStep] at hs <;> (repeat' split at hs) <;> simp_all <;> (subst hs; rfl)

theorem aggRun_sizes (hist : List ALabel) (a b : Agg) (h : aggRun a hist = some b) : b.sizes = a.sizes := by
  induction hist generalizing a with
  | nil => simp [aggRun] at h; rw [← h]
  | cons l rest ih =>
    simp only [aggRun] at h
    cases hstep : aggStep a l with
    | none => simp [hstep] at h
    | some a' =>
      simp only [hstep, Option.bind_some] at h
      rw [ih a' h, aggStep_sizes a a' l hstep]

end Dtail
