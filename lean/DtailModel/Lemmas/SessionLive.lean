/-
Liveness side of the session transition system: as long as a session that has been given a
command is not closed, some step is enabled (a reader can queue or finish, the consumer can be
served a line, the flush can complete, the close handshake can be delivered).
-/
import DtailModel.Lemmas.Session
namespace Dtail

/-- a session in phase `running` with no active command has not dispatched any command yet
    (the moment the last active command finishes, shutdown() begins) -/
@[reducible] def SessInv2 (s : Sess) : Prop :=
  s.phase = .running → activeCount s.cmds = 0 → ∀ (c : Nat) (st : CmdSt), s.cmds[c]? = some st → st = CmdSt.notSent

theorem sessInit_inv2 (sizes : List Nat) : SessInv2 (sessInit sizes) := by
  intro _ _ c st h
  have := List.mem_of_getElem? h
  simp only [sessInit, List.mem_replicate] at this
  exact this.2

theorem activeCount_set_reading (cs : List CmdSt) (c k : Nat) (h : c < cs.length) :
    0 < activeCount (cs.set c (.reading k)) :=
  activeCount_pos_of_reading _ c k (by simp [List.getElem?_set, h])

theorem sessStep_inv2 (s s' : Sess) (l : SLabel) (h : SessInv2 s) (hs : sessStep s l = some s') : SessInv2 s' := by
  cases l with
  | recv c =>
    simp only [sessStep] at hs
    split at hs
    · rename_i hc
      simp only [Option.some.injEq] at hs; subst hs
      intro _ ha
      have hlt : c < s.cmds.length := (List.getElem?_eq_some_iff.1 hc.2).1
      have := activeCount_set_reading s.cmds c 1 hlt
      simp only at ha; omega
    · simp at hs
  | push c =>
    simp only [sessStep] at hs
    split at hs
    · rename_i k n hc hn
      split at hs
      · simp only [Option.some.injEq] at hs; subst hs
        intro _ ha
        have hlt : c < s.cmds.length := (List.getElem?_eq_some_iff.1 hc).1
        have := activeCount_set_reading s.cmds c (k + 1) hlt
        simp only at ha; omega
      · simp at hs
    · simp at hs
  | finish c =>
    simp only [sessStep] at hs
    split at hs
    · rename_i k n hc hn
      split at hs
      · simp only [Option.some.injEq] at hs; subst hs
        intro hp ha
        simp only at hp ha
        unfold phaseAfterFinish at hp
        split at hp
        · cases hp
        · rename_i hne
          exact absurd ⟨ha, hp⟩ hne
      · simp at hs
    · simp at hs
  | deliver =>
    simp only [sessStep] at hs
    split at hs
    · split at hs
      · simp only [Option.some.injEq] at hs; subst hs; exact h
      · simp at hs
    · simp at hs
  | flushDone =>
    simp only [sessStep] at hs
    split at hs
    · simp only [Option.some.injEq] at hs; subst hs
      intro hp; simp at hp
    · simp at hs
  | deliverSyn =>
    simp only [sessStep] at hs
    split at hs
    · simp only [Option.some.injEq] at hs; subst hs
      intro hp; simp at hp
    · simp at hs

theorem sessRun_inv2 (sizes : List Nat) (history : List SLabel) (s : Sess)
    (h : sessRun (sessInit sizes) history = some s) : SessInv2 s := by
  have gen : ∀ (hist : List SLabel) (a b : Sess), SessInv2 a → sessRun a hist = some b → SessInv2 b := by
    intro hist
    induction hist with
    | nil => intro a b ha hr; simp [sessRun] at hr; rw [← hr]; exact ha
    | cons l rest ih =>
      intro a b ha hr
      simp only [sessRun] at hr
      cases hstep : sessStep a l with
      | none => simp [hstep] at hr
      | some a' =>
        simp only [hstep, Option.bind_some] at hr
        exact ih a' b (sessStep_inv2 a a' l ha hstep) hr
  exact gen history _ s (sessInit_inv2 sizes) h

theorem exists_reading_of_active (cs : List CmdSt) (h : 0 < activeCount cs) : ∃ (c k : Nat), cs[c]? = some (CmdSt.reading k) := by
  unfold activeCount at h
  obtain ⟨x, hx⟩ := List.exists_mem_of_length_pos h
  obtain ⟨hm, hr⟩ := List.mem_filter.1 hx
  obtain ⟨c, hc⟩ := List.getElem?_of_mem hm
  cases x with
  | reading k => exact ⟨c, k, hc⟩
  | notSent => simp [isReading] at hr
  | done => simp [isReading] at hr

/-- **The session cannot wedge.** -/
theorem sess_step_enabled (s : Sess) (i1 : SessInv s) (i2 : SessInv2 s) (hopen : s.phase ≠ .closed)
    (hsent : ∃ (c : Nat) (st : CmdSt), s.cmds[c]? = some st ∧ st ≠ CmdSt.notSent) (hcap : 0 < queueCap) :
    ∃ l s', sessStep s l = some s' := by
  cases hq : s.queue with
  | cons x rest => exact ⟨.deliver, Option.isSome_iff_exists.1 (by simp [sessStep, hq, hopen])⟩
  | nil =>
    cases hp : s.phase with
    | closed => exact absurd hp hopen
    | flushing => exact ⟨.flushDone, Option.isSome_iff_exists.1 (by simp [sessStep, hq, hp])⟩
    | synQueued => exact ⟨.deliverSyn, Option.isSome_iff_exists.1 (by simp [sessStep, hp])⟩
    | running =>
      have hact : 0 < activeCount s.cmds := by
        by_cases h0 : activeCount s.cmds = 0
        · obtain ⟨c, st, hc, hne⟩ := hsent
          exact absurd (i2 hp h0 c st hc) hne
        · omega
      obtain ⟨c, k, hc⟩ := exists_reading_of_active s.cmds hact
      have hlt : c < s.sizes.length := by rw [← i1.len]; exact (List.getElem?_eq_some_iff.1 hc).1
      obtain ⟨n, hn⟩ : ∃ n, s.sizes[c]? = some n := ⟨_, List.getElem?_eq_getElem hlt⟩
      have hr := i1.range c k n hc hn
      by_cases hk : k ≤ n
      · exact ⟨.push c, Option.isSome_iff_exists.1 (by simp [sessStep, hc, hn, hk, hq, hcap, hp])⟩
      · have : k = n + 1 := by omega
        exact ⟨.finish c, Option.isSome_iff_exists.1 (by simp [sessStep, hc, hn, this, hp])⟩

end Dtail
