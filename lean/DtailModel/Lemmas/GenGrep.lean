/-
Tie G for the grep-context automaton: `filterWithLContext`, `filterLineWithLContext`, `lContextNotMatched`,
`lContextProcessBefore`, `lContextProcessMaxCount` of internal/io/fs/readfilelcontext.go as translated from the working
tree on this run (`Generated/Code.lean`, namespace `Gen.Grep`).  In the translation the raw lines arriving on `rawLines` are
a list, what is sent on `lines` is kept in the receiver, `ls.beforeBuf` — a buffered channel only this goroutine touches — is
a bounded queue (`GoQueue`; an operation on it that would block for ever is a panic of the translation), the context is never
cancelled, and the statistics calls are outside the translation (the line numbers a line carries are not compared here).
The theorem says that the contents of the lines sent are the model's `grun`, the automaton the C03 theorems speak about.
-/
import DtailModel.Generated.Code
import DtailModel.Lemmas.GoRT
import DtailModel.Model.Grep
set_option autoImplicit false
namespace Dtail.GenGrep
open Dtail Dtail.Go Dtail.Gen.Grep

/-- the raw line a sent line carries -/
def contentOf : GoLine → Bytes
  | .null => []
  | .new c _ _ _ => c

def sent (f : readFile) : List Bytes := f.lines.map contentOf

/-- `lContextProcessBefore`: the queue is drained, oldest first, into `lines` -/
theorem before_loop (ext : Ext) (x : GoString) :
    ∀ (items : List GoString) (fuel : Nat) (f : readFile) (i : Int) (ls : ltxState), ls.beforeBuf.items = items →
      items.length < fuel →
      ∃ f', goWhile fuel (f, i, ls, x) (fun _ => true)
          (fun (f, i, ls, rawLine) =>
            if (GoQueue.nonEmpty ls.beforeBuf) then
              let rawLine_1 := (GoQueue.head ls.beforeBuf)
              let ls := { ls with beforeBuf := (GoQueue.pop ls.beforeBuf) }
              let myLine := (GoLine.new rawLine_1 ((ext.lineCount ) - i) 100 f.globID)
              let i := (i - 1)
              let f := { f with lines := f.lines ++ [myLine] }
              if ((GoLen.len ls.beforeBuf) == 0) then
                LoopStep.brk (f, i, ls, rawLine)
              else
                LoopStep.next (f, i, ls, rawLine)
            else
              if ((GoLen.len ls.beforeBuf) == 0) then
                LoopStep.brk (f, i, ls, rawLine)
              else
                LoopStep.next (f, i, ls, rawLine))
          (fun (f, i, ls, rawLine) => (Outcome.ok (f, ls, nothing)))
          (Outcome.panic "out of fuel")
        = Outcome.ok (f', { ls with beforeBuf := { ls.beforeBuf with items := [] } }, nothing) ∧
        sent f' = sent f ++ items := by
  intro items
  induction items with
  | nil =>
    intro fuel f i ls hq hf
    obtain ⟨n, rfl⟩ : ∃ n, fuel = n + 1 := ⟨fuel - 1, by simp at hf; omega⟩
    refine ⟨f, ?_, by simp⟩
    unfold goWhile
    have h1 : GoQueue.nonEmpty ls.beforeBuf = false := by simp [GoQueue.nonEmpty, hq]
    have h2 : ((GoLen.len ls.beforeBuf : Int) == 0) = true := by
      show (((ls.beforeBuf.items.length : Nat) : Int) == 0) = true
      rw [hq]; rfl
    simp only [if_true, h1, Bool.false_eq_true, if_false, h2]
    have : ls = { ls with beforeBuf := { ls.beforeBuf with items := [] } } := by
      cases ls with
      | mk a b c d e q g h => cases q with | mk cap it => simp only at hq; subst hq; rfl
    rw [← this]
  | cons a rest ih =>
    intro fuel f i ls hq hf
    obtain ⟨n, rfl⟩ : ∃ n, fuel = n + 1 := ⟨fuel - 1, by simp at hf; omega⟩
    have h1 : GoQueue.nonEmpty ls.beforeBuf = true := by simp [GoQueue.nonEmpty, hq]
    have hhead : GoQueue.head ls.beforeBuf = a := by simp [GoQueue.head, hq]
    have hpop : (GoQueue.pop ls.beforeBuf).items = rest := by simp [GoQueue.pop, hq]
    unfold goWhile
    simp only [if_true, h1]
    cases rest with
    | nil =>
      have h2 : ((GoLen.len (GoQueue.pop ls.beforeBuf) : Int) == 0) = true := by
        show ((((GoQueue.pop ls.beforeBuf).items.length : Nat) : Int) == 0) = true
        rw [hpop]; rfl
      simp only [h2, if_true]
      refine ⟨{ f with lines := f.lines ++ [GoLine.new (GoQueue.head ls.beforeBuf) (ext.lineCount - i) 100 f.globID] }, ?_, ?_⟩
      · congr 2
        cases ls with
        | mk a1 b c d e q g h => cases q with | mk cap it => simp only at hq; subst hq; rfl
      · simp [sent, contentOf, hhead]
    | cons b rest' =>
      have h2 : ((GoLen.len (GoQueue.pop ls.beforeBuf) : Int) == 0) = false := by
        show ((((GoQueue.pop ls.beforeBuf).items.length : Nat) : Int) == 0) = false
        rw [hpop]; simp only [List.length_cons, beq_eq_false_iff_ne, ne_eq]; omega
      simp only [h2, Bool.false_eq_true, if_false]
      obtain ⟨f', hg, hs⟩ := ih n { f with lines := f.lines ++ [GoLine.new (GoQueue.head ls.beforeBuf) (ext.lineCount - i) 100 f.globID] }
        (i - 1) { ls with beforeBuf := GoQueue.pop ls.beforeBuf } hpop (by simp at hf ⊢; omega)
      refine ⟨f', ?_, ?_⟩
      · rw [hg]
        congr 2
      · rw [hs]; simp [sent, contentOf, hhead]

theorem before_spec (ext : Ext) (f : readFile) (ls : ltxState) (x : GoString) (hf : ls.beforeBuf.items.length < ext.fuel) :
    ∃ f', readFile.lContextProcessBefore ext f () ls () x
        = Outcome.ok (f', { ls with beforeBuf := { ls.beforeBuf with items := [] } }, nothing) ∧
      sent f' = sent f ++ ls.beforeBuf.items := by
  unfold readFile.lContextProcessBefore
  exact before_loop ext x _ ext.fuel f _ ls rfl hf

/-- the translated state and the model's: `B`, `A`, `M` are the three context settings -/
structure Rel (ltx : GoLContext) (B A M : Nat) (ls : ltxState) (s : GState Bytes) : Prop where
  hA : ltx.AfterContext = (A : Int)
  pm : ls.processMaxCount = decide (M > 0)
  pb : ls.processBefore = decide (B > 0)
  pa : ls.processAfter = decide (A > 0)
  mr : ls.maxReached = s.maxReached
  af : ls.after = (s.after : Int)
  mc : ls.maxCount = (s.maxc : Int)
  cap : ls.beforeBuf.cap = (B : Int)
  ring : ls.beforeBuf.items = s.ring
  rlen : s.ring.length ≤ B
  mpos : M > 0 → (1 ≤ s.maxc ∨ (s.maxReached = true ∧ A > 0))

theorem sent_append (f : readFile) (l : GoLine) : sent { f with lines := f.lines ++ [l] } = sent f ++ [contentOf l] := by
  simp [sent]

/-- a line the expression does not select -/
theorem notMatched_spec (ext : Ext) (ltx : GoLContext) (B A M : Nat) (ls : ltxState) (s : GState Bytes) (f : readFile)
    (x : GoString) (hr : Rel ltx B A M ls s) :
    ∃ f' ls', readFile.lContextNotMatched ext f () ls () x = Outcome.ok (f', ls', continueReading) ∧
      sent f' = sent f ++ (gstep B A M s false x).1 ∧
      ∃ s', (gstep B A M s false x).2 = some s' ∧ Rel ltx B A M ls' s' := by
  unfold readFile.lContextNotMatched gstep
  simp only [Bool.not_false, if_true]
  by_cases hA : A > 0 ∧ s.after > 0
  · have h1 : (ls.processAfter && decide (ls.after > 0)) = true := by
      rw [hr.pa, hr.af]; simp only [Bool.and_eq_true, decide_eq_true_eq]; exact ⟨hA.1, by omega⟩
    rw [if_pos h1, if_pos hA]
    refine ⟨_, _, rfl, sent_append f _, _, rfl, ?_⟩
    exact { hr with af := by show ls.after - 1 = ((s.after - 1 : Nat) : Int); rw [hr.af]; omega }
  · have h1 : ¬ (ls.processAfter && decide (ls.after > 0)) = true := by
      rw [hr.pa, hr.af]; simp only [Bool.and_eq_true, decide_eq_true_eq]
      intro h; exact hA ⟨h.1, by omega⟩
    rw [if_neg h1, if_neg hA]
    by_cases hB : B > 0
    · have hpb : ls.processBefore = true := by rw [hr.pb]; simp [hB]
      rw [if_pos hpb, if_pos hB]
      by_cases hroom : s.ring.length < B
      · have h2 : GoQueue.hasRoom ls.beforeBuf = true := by
          simp only [GoQueue.hasRoom, decide_eq_true_eq, hr.ring, hr.cap]; omega
        rw [if_pos h2]
        refine ⟨_, _, rfl, by simp, _, rfl, ?_⟩
        exact { hr with
          cap := hr.cap
          ring := by simp [GoQueue.push, hr.ring, pushRing, hroom]
          rlen := by simp [pushRing, hroom]; omega }
      · have hfull : s.ring.length = B := by have := hr.rlen; omega
        have h2 : ¬ GoQueue.hasRoom ls.beforeBuf = true := by
          simp only [GoQueue.hasRoom, decide_eq_true_eq, hr.ring, hr.cap]; omega
        have h3 : GoQueue.nonEmpty ls.beforeBuf = true := by
          simp only [GoQueue.nonEmpty, hr.ring]
          cases hs : s.ring with
          | nil => rw [hs] at hfull; simp at hfull; omega
          | cons a r => rfl
        have h4 : GoQueue.hasRoom (GoQueue.pop ls.beforeBuf) = true := by
          simp only [GoQueue.hasRoom, GoQueue.pop, decide_eq_true_eq, hr.ring, hr.cap, List.length_tail]; omega
        rw [if_neg h2, if_pos h3]
        simp only []
        rw [if_pos h4]
        refine ⟨_, _, rfl, by simp, _, rfl, ?_⟩
        exact { hr with
          cap := hr.cap
          ring := by simp [GoQueue.push, GoQueue.pop, hr.ring, pushRing, hroom]
          rlen := by simp [pushRing, hroom]; omega }
    · have hpb : ¬ ls.processBefore = true := by rw [hr.pb]; simp [hB]
      rw [if_neg hpb, if_neg hB]
      exact ⟨_, _, rfl, by simp, _, rfl, hr⟩

/-- the model's step on a selected line after the `after` counter was reset: the drained ring, the line, the `max` count -/
def gtailM (B A M : Nat) (s : GState Bytes) (x : Bytes) : List Bytes × Option (GState Bytes) :=
  let pre := if B > 0 then s.ring else []
  let ring' := if B > 0 then [] else s.ring
  let emitted := pre ++ [x]
  if M > 0 then
    let maxc' := s.maxc - 1
    if maxc' = 0 then (if A = 0 ∨ s.after = 0 then (emitted, none) else (emitted, some ⟨maxc', true, ring', s.after⟩))
    else (emitted, some ⟨maxc', s.maxReached, ring', s.after⟩)
  else (emitted, some ⟨s.maxc, s.maxReached, ring', s.after⟩)

theorem gstep_sel (B A M : Nat) (s : GState Bytes) (x : Bytes) :
    gstep B A M s true x = if A > 0 ∧ s.maxReached = true then ([], none)
      else gtailM B A M { s with after := if A > 0 then A else s.after } x := by
  unfold gstep gtailM
  simp only [Bool.not_true, Bool.false_eq_true, if_false]

/-- the part of the translated `filterLineWithLContext` that follows the reset of the `after` counter, as the translator
    emitted it (it stands in the generated function once per path that reaches it) -/
def tailG (ext : Ext) (f : readFile) (ctx : Unit) (ls : ltxState) (lines : Unit) (rawLine : GoString) :
    Outcome (readFile × ltxState × readStatus) :=
  if ls.processBefore then
    match readFile.lContextProcessBefore ext f ctx ls lines rawLine with
    | Outcome.ok _o35 =>
      let (_r36, _p38, _t37) := _o35
      let f := _r36
      let ls := _p38
      let status := _t37
      if (status == nothing) then
        let line := (GoLine.new rawLine (ext.lineCount ) 100 f.globID)
        let f := { f with lines := f.lines ++ [line] }
        if ls.processMaxCount then
          let (_r39, _p41, _t40) := readFile.lContextProcessMaxCount ext f ctx ls
          let f := _r39
          let ls := _p41
          let status := _t40
          if (status == nothing) then
            (Outcome.ok (f, ls, nothing))
          else
            (Outcome.ok (f, ls, status))
        else
          (Outcome.ok (f, ls, nothing))
      else
        (Outcome.ok (f, ls, status))
    | _ =>
      (Outcome.panic "panic in readFile.lContextProcessBefore")
  else
    let line := (GoLine.new rawLine (ext.lineCount ) 100 f.globID)
    let f := { f with lines := f.lines ++ [line] }
    if ls.processMaxCount then
      let (_r42, _p44, _t43) := readFile.lContextProcessMaxCount ext f ctx ls
      let f := _r42
      let ls := _p44
      let status := _t43
      if (status == nothing) then
        (Outcome.ok (f, ls, nothing))
      else
        (Outcome.ok (f, ls, status))
    else
      (Outcome.ok (f, ls, nothing))

/-- what a step must deliver: the lines of the model's step, and its verdict -/
def StepGood (ltx : GoLContext) (B A M : Nat) (f : readFile) (r : List Bytes × Option (GState Bytes))
    (o : Outcome (readFile × ltxState × readStatus)) : Prop :=
  ∃ f' ls' st, o = Outcome.ok (f', ls', st) ∧ sent f' = sent f ++ r.1 ∧
    match r.2 with
    | none => st = abortReading
    | some s' => st ≠ abortReading ∧ Rel ltx B A M ls' s'

/-- the `max` count after the line was sent -/
theorem maxCount_spec (ext : Ext) (ltx : GoLContext) (B A M : Nat) (ls : ltxState) (s : GState Bytes) (f f0 : readFile)
    (e : List Bytes) (hr : Rel ltx B A M ls s) (hM : M > 0) (hmc : 1 ≤ s.maxc) (hs : sent f = sent f0 ++ e) :
    StepGood ltx B A M f0
      (if s.maxc - 1 = 0 then (if A = 0 ∨ s.after = 0 then (e, none) else (e, some ⟨s.maxc - 1, true, s.ring, s.after⟩))
        else (e, some ⟨s.maxc - 1, s.maxReached, s.ring, s.after⟩))
      (let (_r39, _p41, _t40) := readFile.lContextProcessMaxCount ext f () ls
        let f := _r39
        let ls := _p41
        let status := _t40
        if (status == nothing) then
          (Outcome.ok (f, ls, nothing))
        else
          (Outcome.ok (f, ls, status))) := by
  unfold readFile.lContextProcessMaxCount
  by_cases h0 : s.maxc - 1 = 0
  · have hz : ((ls.maxCount - 1) == 0) = true := by rw [hr.mc]; simp only [beq_iff_eq]; omega
    rw [if_pos h0]
    simp only []
    rw [if_pos hz]
    by_cases h1 : A = 0 ∨ s.after = 0
    · have hc : ((!ls.processAfter) || (ls.after == 0)) = true := by
        rw [hr.pa, hr.af]
        rcases h1 with h | h
        · simp [h]
        · simp [h]
      rw [if_pos hc, if_pos h1]
      have hne : (abortReading == nothing) = false := by decide
      simp only [hne, Bool.false_eq_true, if_false]
      exact ⟨_, _, _, rfl, hs, rfl⟩
    · have hc : ¬ ((!ls.processAfter) || (ls.after == 0)) = true := by
        rw [hr.pa, hr.af]
        simp only [Bool.or_eq_true, Bool.not_eq_true', decide_eq_false_iff_not, beq_iff_eq, not_or]
        constructor <;> omega
      rw [if_neg hc, if_neg h1]
      have hne : (nothing == nothing) = true := by decide
      simp only [hne, if_true]
      refine ⟨_, _, _, rfl, hs, by decide, ?_⟩
      exact { hr with
        mr := rfl
        mc := by show ls.maxCount - 1 = ((s.maxc - 1 : Nat) : Int); rw [hr.mc]; omega
        mpos := fun _ => Or.inr ⟨rfl, by omega⟩ }
  · have hz : ¬ ((ls.maxCount - 1) == 0) = true := by rw [hr.mc]; simp only [beq_iff_eq]; omega
    rw [if_neg h0]
    simp only []
    rw [if_neg hz]
    have hne : (nothing == nothing) = true := by decide
    simp only [hne, if_true]
    refine ⟨_, _, _, rfl, hs, by decide, ?_⟩
    exact { hr with
      mc := by show ls.maxCount - 1 = ((s.maxc - 1 : Nat) : Int); rw [hr.mc]; omega
      mpos := fun _ => Or.inl (by show 1 ≤ s.maxc - 1; omega) }

/-- the tail of a step on a selected line -/
theorem tail_spec (ext : Ext) (ltx : GoLContext) (B A M : Nat) (ls : ltxState) (s : GState Bytes) (f : readFile)
    (x : GoString) (hr : Rel ltx B A M ls s) (hnm : ¬ (A > 0 ∧ s.maxReached = true)) (hfuel : B < ext.fuel) :
    StepGood ltx B A M f (gtailM B A M s x) (tailG ext f () ls () x) := by
  have hmc : M > 0 → 1 ≤ s.maxc := by
    intro hM
    rcases hr.mpos hM with h | ⟨h1, h2⟩
    · exact h
    · exact absurd ⟨h2, h1⟩ hnm
  unfold tailG gtailM
  by_cases hB : B > 0
  · have hpb : ls.processBefore = true := by rw [hr.pb]; simp [hB]
    obtain ⟨f1, hbe, hs1⟩ := before_spec ext f ls x (by rw [hr.ring]; have := hr.rlen; omega)
    rw [if_pos hpb, hbe]
    have hne : (nothing == nothing) = true := by decide
    simp only [hne, if_true, hB]
    -- the state after the ring was drained
    have hr1 : Rel ltx B A M { ls with beforeBuf := { ls.beforeBuf with items := [] } } { s with ring := [] } :=
      { hr with cap := hr.cap, ring := rfl, rlen := by simp }
    have hsent : sent { f1 with lines := f1.lines ++ [GoLine.new x ext.lineCount 100 f1.globID] } = sent f ++ (s.ring ++ [x]) := by
      rw [sent_append, hs1, hr.ring]; simp [contentOf]
    by_cases hM : M > 0
    · have hpm : ({ ls with beforeBuf := { ls.beforeBuf with items := [] } } : ltxState).processMaxCount = true := by
        show ls.processMaxCount = true; rw [hr.pm]; simp [hM]
      rw [if_pos hpm, if_pos hM]
      exact maxCount_spec ext ltx B A M _ { s with ring := [] } _ f (s.ring ++ [x]) hr1 hM (hmc hM) hsent
    · have hpm : ¬ ({ ls with beforeBuf := { ls.beforeBuf with items := [] } } : ltxState).processMaxCount = true := by
        show ¬ ls.processMaxCount = true; rw [hr.pm]; simp [hM]
      rw [if_neg hpm, if_neg hM]
      exact ⟨_, _, _, rfl, hsent, by decide, hr1⟩
  · have hpb : ¬ ls.processBefore = true := by rw [hr.pb]; simp [hB]
    rw [if_neg hpb]
    simp only [hB, if_false, List.nil_append]
    have hsent : sent { f with lines := f.lines ++ [GoLine.new x ext.lineCount 100 f.globID] } = sent f ++ [x] := by
      rw [sent_append]; rfl
    by_cases hM : M > 0
    · have hpm : ls.processMaxCount = true := by rw [hr.pm]; simp [hM]
      rw [if_pos hpm, if_pos hM]
      exact maxCount_spec ext ltx B A M ls s _ f [x] hr hM (hmc hM) hsent
    · have hpm : ¬ ls.processMaxCount = true := by rw [hr.pm]; simp [hM]
      rw [if_neg hpm, if_neg hM]
      exact ⟨_, _, _, rfl, hsent, by decide, hr⟩

/-- **one raw line through the translated `filterLineWithLContext` is the model's `gstep`** -/
theorem step_refines (ext : Ext) (ltx : GoLContext) (B A M : Nat) (ls : ltxState) (s : GState Bytes) (f : readFile)
    (raws : List GoString) (re : GoRegex) (x : GoString) (hr : Rel ltx B A M ls s) (hfuel : B < ext.fuel) :
    StepGood ltx B A M f (gstep B A M s (ext.reMatch re x) x)
      (readFile.filterLineWithLContext ext f () ltx ls raws () re x) := by
  unfold readFile.filterLineWithLContext
  cases hsel : ext.reMatch re x
  · -- not selected
    obtain ⟨f1, ls1, he, hs, s1, hg, hr1⟩ := notMatched_spec ext ltx B A M ls s f x hr
    have h0 : (!false) = true := rfl
    rw [if_pos h0, he]
    have hne : ¬ (continueReading == nothing) = true := by decide
    simp only []
    rw [if_neg hne]
    refine ⟨f1, ls1, continueReading, rfl, hs, ?_⟩
    rw [hg]
    exact ⟨by decide, hr1⟩
  · -- selected
    have h0 : ¬ (!true) = true := by decide
    rw [if_neg h0, gstep_sel]
    by_cases hA : A > 0
    · have hpa : ls.processAfter = true := by rw [hr.pa]; simp [hA]
      rw [if_pos hpa]
      by_cases hmr : s.maxReached = true
      · have hmr' : ls.maxReached = true := by rw [hr.mr]; exact hmr
        rw [if_pos hmr', if_pos ⟨hA, hmr⟩]
        exact ⟨_, _, _, rfl, by simp, rfl⟩
      · have hmr' : ¬ ls.maxReached = true := by rw [hr.mr]; exact hmr
        rw [if_neg hmr', if_neg (fun h => hmr h.2)]
        have hr1 : Rel ltx B A M { ls with after := ltx.AfterContext } { s with after := if A > 0 then A else s.after } :=
          { hr with af := by show ltx.AfterContext = ((if A > 0 then A else s.after : Nat) : Int); rw [hr.hA, if_pos hA] }
        exact tail_spec ext ltx B A M _ _ f x hr1 (fun h => hmr h.2) hfuel
    · have hpa : ¬ ls.processAfter = true := by rw [hr.pa]; simp [hA]
      rw [if_neg hpa, if_neg (fun h => hA h.1)]
      have hs : ({ s with after := if A > 0 then A else s.after } : GState Bytes) = s := by
        simp only [hA, if_false]
      rw [hs]
      exact tail_spec ext ltx B A M ls s f x hr (fun h => hA h.1) hfuel

/-- the raw lines with the expression's verdict, as the model takes them -/
def judged (ext : Ext) (re : GoRegex) (raws : List GoString) : List (Bool × Bytes) := raws.map fun x => (ext.reMatch re x, x)

/-- **the loop of the translated `filterWithLContext` is the model's `grun`** -/
theorem filter_loop (ext : Ext) (ltx : GoLContext) (B A M : Nat) (re : GoRegex) (all : List GoString) (hfuel : B < ext.fuel) :
    ∀ (raws : List GoString) (f : readFile) (ls : ltxState) (s : GState Bytes), Rel ltx B A M ls s →
      ∃ f', goRange raws (f, ls)
          (fun (f, ls) rawLine =>
            match readFile.filterLineWithLContext ext f () ltx ls all () re rawLine with
            | Outcome.ok _o1 =>
              let (_r2, _p4, _t3) := _o1
              let f := _r2
              let ls := _p4
              let status := _t3
              if (status == abortReading) then
                LoopStep.ret (Outcome.ok f)
              else
                LoopStep.next (f, ls)
            | _ =>
              LoopStep.ret (Outcome.panic "panic in readFile.filterLineWithLContext"))
          (fun (f, ls) => (Outcome.ok f)) = Outcome.ok f' ∧
        sent f' = sent f ++ grun B A M s (judged ext re raws) := by
  intro raws
  induction raws with
  | nil => intro f ls s _; exact ⟨f, rfl, by simp [judged, grun]⟩
  | cons x rest ih =>
    intro f ls s hr
    obtain ⟨f1, ls1, st, he, hs, hv⟩ := step_refines ext ltx B A M ls s f all re x hr hfuel
    rw [goRange_cons]
    simp only [he]
    cases hg : (gstep B A M s (ext.reMatch re x) x).2 with
    | none =>
      rw [hg] at hv
      simp only at hv
      have h1 : (st == abortReading) = true := by rw [hv]; decide
      rw [if_pos h1]
      refine ⟨f1, rfl, ?_⟩
      rw [hs]
      simp only [judged, List.map_cons, grun]
      cases hgs : gstep B A M s (ext.reMatch re x) x with
      | mk e o => rw [hgs] at hg; simp only at hg; subst hg; rfl
    | some s' =>
      rw [hg] at hv
      obtain ⟨hne, hr1⟩ := hv
      have h1 : ¬ (st == abortReading) = true := by simpa using hne
      rw [if_neg h1]
      obtain ⟨f', hgo, hs'⟩ := ih f1 ls1 s' hr1
      refine ⟨f', hgo, ?_⟩
      rw [hs', hs]
      simp only [judged, List.map_cons, grun]
      cases hgs : gstep B A M s (ext.reMatch re x) x with
      | mk e o => rw [hgs] at hg; simp only at hg; subst hg; simp [judged]

/-- **the translated `filterWithLContext` sends the model's lines**: for every list of raw lines, every expression and every
    setting of the three contexts, the contents of the lines sent are `grun B A M (ginit M)` on the lines with the
    expression's verdicts; the function returns normally (no panic: no index out of range, no queue operation that would
    block for ever, fuel for the `before` ring) -/
theorem filter_refines (ext : Ext) (ltx : GoLContext) (B A M : Nat) (hB : ltx.BeforeContext = (B : Int))
    (hA : ltx.AfterContext = (A : Int)) (hM : ltx.MaxCount = (M : Int)) (hfuel : B < ext.fuel)
    (hlim : (B : Int) ≤ 35184372088820) (f : readFile) (raws : List GoString) (re : GoRegex) :
    ∃ f', readFile.filterWithLContext ext f () ltx raws () re = Outcome.ok f' ∧
      sent f' = sent f ++ grun B A M (ginit M) (judged ext re raws) := by
  unfold readFile.filterWithLContext
  simp only []
  by_cases hb : B > 0
  · have h1 : decide (ltx.BeforeContext > 0) = true := by rw [hB]; simp only [decide_eq_true_eq]; omega
    rw [if_pos h1]
    have h2 : goMakeChanOk ltx.BeforeContext = true := by
      rw [hB]; simp only [goMakeChanOk, decide_eq_true_eq]; omega
    rw [if_pos h2]
    apply filter_loop ext ltx B A M re raws hfuel raws f _ (ginit M)
    exact { hA := hA
            pm := by show decide (ltx.MaxCount > 0) = decide (M > 0); rw [hM]; simp
            pb := by show decide (ltx.BeforeContext > 0) = decide (B > 0); rw [hB]; simp
            pa := by show decide (ltx.AfterContext > 0) = decide (A > 0); rw [hA]; simp
            mr := rfl
            af := rfl
            mc := hM
            cap := hB
            ring := rfl
            rlen := by simp [ginit]
            mpos := fun h => Or.inl (by show 1 ≤ M; omega) }
  · have h1 : ¬ decide (ltx.BeforeContext > 0) = true := by rw [hB]; simp only [decide_eq_true_eq]; omega
    rw [if_neg h1]
    apply filter_loop ext ltx B A M re raws hfuel raws f _ (ginit M)
    have hB0 : B = 0 := by omega
    exact { hA := hA
            pm := by show decide (ltx.MaxCount > 0) = decide (M > 0); rw [hM]; simp
            pb := by show decide (ltx.BeforeContext > 0) = decide (B > 0); rw [hB]; simp
            pa := by show decide (ltx.AfterContext > 0) = decide (A > 0); rw [hA]; simp
            mr := rfl
            af := rfl
            mc := hM
            cap := by show (0 : Int) = (B : Int); rw [hB0]; rfl
            ring := rfl
            rlen := by simp [ginit]
            mpos := fun h => Or.inl (by show 1 ≤ M; omega) }

end Dtail.GenGrep
