import DtailModel.Lemmas.Reader
namespace Dtail

theorem delim_ne_nl : DELIM ≠ NL := by decide
theorem delim_ne_dot : DELIM ≠ DOT := by decide

theorem clientFeed_append (s : CS) (a b : Bytes) :
    clientFeed s (a ++ b) = clientFeed (clientFeed s a) b := by
  simp [clientFeed, List.foldl_append]

theorem not_mem_app {x : UInt8} {a b : Bytes} (ha : x ∉ a) (hb : x ∉ b) : x ∉ a ++ b := by
  intro h; rcases List.mem_append.1 h with h | h
  · exact ha h
  · exact hb h

theorem clientFeed_plain (bs : Bytes) (buf : Bytes) (msgs : List Bytes)
    (hnl : NL ∉ bs) (hd : DELIM ∉ bs) :
    clientFeed ⟨buf, msgs⟩ bs = ⟨buf ++ bs, msgs⟩ := by
  induction bs generalizing buf with
  | nil => simp [clientFeed]
  | cons b bs ih =>
    simp only [List.mem_cons, not_or] at hnl hd
    have h1 : ¬ b = NL := fun h => hnl.1 h.symm
    have h2 : ¬ b = DELIM := fun h => hd.1 h.symm
    simp only [clientFeed, List.foldl_cons, clientByte, h1, h2, if_false] at ih ⊢
    rw [ih _ hnl.2 hd.2]; simp

/-- What the client dispatches for one frame `pre ++ l ++ [DELIM]` where `pre` has no
    special byte and `l` is a well-formed raw line without the delimiter byte. -/
theorem clientFeed_frame (pre l : Bytes) (msgs : List Bytes)
    (hp1 : NL ∉ pre) (hp2 : DELIM ∉ pre) (hwf : LineWF l) (hd : DELIM ∉ l) :
    ∃ ms, clientFeed ⟨[], msgs⟩ (pre ++ l ++ [DELIM]) = ⟨[], msgs ++ ms⟩
      ∧ (ms = [pre ++ l, []] ∨ ms = [pre ++ l]) := by
  rcases hwf with ⟨body, rfl, hb⟩ | ⟨hnl, _⟩
  · have hdb : DELIM ∉ body := fun h => hd (by simp [h])
    refine ⟨[pre ++ (body ++ [NL]), []], ?_, Or.inl rfl⟩
    have : pre ++ (body ++ [NL]) ++ [DELIM] = (pre ++ body) ++ ([NL] ++ [DELIM]) := by simp
    rw [this, clientFeed_append, clientFeed_plain _ _ _ (not_mem_app hp1 hb) (not_mem_app hp2 hdb)]
    simp [clientFeed, clientByte, delim_ne_nl]
  · refine ⟨[pre ++ l], ?_, Or.inr rfl⟩
    rw [clientFeed_append, clientFeed_plain _ _ _ (not_mem_app hp1 hnl) (not_mem_app hp2 hd)]
    simp [clientFeed, clientByte, delim_ne_nl]

theorem printed_append (a b : List Bytes) : printed (a ++ b) = printed a ++ printed b := by
  simp [printed]

theorem map_zipIdx_fst {α β : Type} (h : α → β) (l : List α) (k : Nat) :
    (l.zipIdx k).map (fun p => h p.1) = l.map h := by
  induction l generalizing k with
  | nil => rfl
  | cons a l ih => simp [List.zipIdx_cons, ih]

end Dtail

namespace Dtail

theorem mem_insertNL (m : Nat) (bs : Bytes) (k : Nat) (x : UInt8) :
    x ∈ insertNL m k bs → x ∈ bs ∨ x = NL := by
  induction bs generalizing k with
  | nil => simp [insertNL]
  | cons b bs ih =>
    simp only [insertNL]
    split
    · intro h; rcases List.mem_cons.1 h with h | h
      · exact Or.inl (by simp [h])
      · rcases ih _ h with h | h
        · exact Or.inl (by simp [h])
        · exact Or.inr h
    · split
      · intro h; rcases List.mem_cons.1 h with h | h
        · exact Or.inl (by simp [h])
        · rcases List.mem_cons.1 h with h | h
          · exact Or.inr h
          · rcases ih _ h with h | h
            · exact Or.inl (by simp [h])
            · exact Or.inr h
      · intro h; rcases List.mem_cons.1 h with h | h
        · exact Or.inl (by simp [h])
        · rcases ih _ h with h | h
          · exact Or.inl (by simp [h])
          · exact Or.inr h

theorem readLines_flatten (m : Nat) (bs : Bytes) : (readLines m bs).flatten = insertNL m 0 bs := by
  have := readFrom_flatten m bs ⟨[], []⟩
  simpa [readLines] using this

theorem readLines_noDelim (m : Nat) (bs : Bytes) (h : DELIM ∉ bs) :
    ∀ l ∈ readLines m bs, DELIM ∉ l := by
  intro l hl hx
  have : DELIM ∈ (readLines m bs).flatten := List.mem_flatten.2 ⟨l, hl, hx⟩
  rw [readLines_flatten] at this
  rcases mem_insertNL _ _ _ _ this with h' | h'
  · exact h h'
  · exact delim_ne_nl h'

/-- A raw line that survives the plain wire unchanged. -/
def GoodLine (l : Bytes) : Prop :=
  LineWF l ∧ DELIM ∉ l ∧ l.head? ≠ some DOT

theorem pipeline_plain (lines : List Bytes) (msgs : List Bytes)
    (hgood : ∀ l ∈ lines, GoodLine l) :
    (clientFeed ⟨[], msgs⟩ (lines.map (fun c => c ++ [DELIM])).flatten).buf = [] ∧
    printed (clientFeed ⟨[], msgs⟩ (lines.map (fun c => c ++ [DELIM])).flatten).msgs
      = printed msgs ++ lines.flatten := by
  induction lines generalizing msgs with
  | nil => simp [clientFeed]
  | cons l ls ih =>
    obtain ⟨hwf, hd, hdot⟩ := hgood l (by simp)
    obtain ⟨ms, hfeed, hms⟩ := clientFeed_frame [] l msgs (by simp) (by simp) hwf hd
    simp only [List.nil_append] at hfeed hms
    simp only [List.map_cons, List.flatten_cons, clientFeed_append, hfeed]
    have ih' := ih (msgs ++ ms) (fun x hx => hgood x (by simp [hx]))
    refine ⟨ih'.1, ?_⟩
    rw [ih'.2, printed_append]
    have hp : printed ms = l := by
      have hnh : isHidden l = false := by
        simp only [isHidden]; simpa using hdot
      have hne : isHidden ([] : Bytes) = false := by simp [isHidden]
      rcases hms with rfl | rfl <;> simp [printed, hnh, hne]
    simp [hp]

/-- the pieces handed out by successive Read calls concatenate to the frame -/
theorem readPieces_flatten (bufLen : Nat) (hb : 0 < bufLen) (bs : Bytes) (fuel : Nat) (hf : bs.length ≤ fuel) :
    (readPieces bufLen fuel bs).flatten = bs := by
  induction fuel generalizing bs with
  | zero =>
    have : bs = [] := List.eq_nil_of_length_eq_zero (by omega)
    subst this; simp [readPieces]
  | succ f ih =>
    cases bs with
    | nil => simp [readPieces]
    | cons b rest =>
      have hne : ¬ bufLen = 0 := by omega
      simp only [readPieces, hne, if_false, List.flatten_cons]
      rw [ih ((b :: rest).drop bufLen) (by
        simp only [List.length_drop, List.length_cons] at hf ⊢; omega)]
      exact List.take_append_drop bufLen (b :: rest)

end Dtail
