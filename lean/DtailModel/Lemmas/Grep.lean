import DtailModel.Model.Grep
namespace Dtail
variable {α : Type}

theorem unblocks_blocks (l : List (Bool × α)) : unblocks (blocks l).1 (blocks l).2 = l := by
  induction l with
  | nil => rfl
  | cons p rest ih =>
    obtain ⟨sel, x⟩ := p
    cases sel with
    | true =>
      simp only [blocks]
      simp only [unblocks, List.flatMap_cons, List.map_nil, List.nil_append, List.cons_append,
        List.append_assoc] at ih ⊢
      rw [ih]
    | false =>
      simp only [blocks]
      cases h : blocks rest with
      | mk bs t =>
        rw [h] at ih
        cases bs with
        | nil =>
          simp only [unblocks, List.flatMap_nil, List.nil_append, List.map_cons] at ih ⊢
          rw [ih]
        | cons b bs =>
          obtain ⟨r, s⟩ := b
          simp only [unblocks, List.flatMap_cons, List.map_cons, List.cons_append,
            List.append_assoc] at ih ⊢
          rw [ih]

theorem lastN_length_le (B : Nat) (l : List α) : (lastN B l).length ≤ B := by
  simp [lastN]; omega

theorem lastN_nil (B : Nat) : lastN B ([] : List α) = [] := by simp [lastN]

theorem lastN_zero (l : List α) : lastN 0 l = [] := by simp [lastN]

theorem pushRing_length (B : Nat) (g : List α) (x : α) (hB : 0 < B) (hg : g.length ≤ B) :
    (pushRing B g x).length ≤ B := by
  unfold pushRing; split
  · simp; omega
  · simp; omega

/-- pushing onto a ring then appending `r` keeps the same last `B` elements -/
theorem lastN_pushRing (B : Nat) (g r : List α) (x : α) (hB : 0 < B) (hg : g.length ≤ B) :
    lastN B (pushRing B g x ++ r) = lastN B (g ++ x :: r) := by
  unfold pushRing; split
  · simp
  · rename_i h
    have hlen : g.length = B := by omega
    cases g with
    | nil => simp at hlen; omega
    | cons a g' =>
      simp only [List.tail_cons, lastN, List.length_append, List.length_cons, List.length_nil,
        List.append_assoc, List.cons_append, List.nil_append]
      simp only [List.length_cons] at hlen
      have e1 : g'.length + (1 + r.length) - B = r.length := by omega
      have e2 : g'.length + 1 + (r.length + 1) - B = r.length + 1 := by omega
      have e1' : g'.length + (r.length + 1) - B = r.length := by omega
      rw [e1']
      have e3 : g'.length + (r.length + 1) + 1 - B = r.length + 1 := by omega
      rw [e3, List.drop_succ_cons]

/-- State after a gap: `a` lines of trailing context consumed, the ring holds the last `B`
    of the rest. -/
theorem grun_gap (B A M : Nat) (r : List α) (rest : List (Bool × α))
    (mc : Nat) (mr : Bool) (g : List α) (a : Nat)
    (hA : A = 0 → a = 0) (hg : g.length ≤ B) (hr : 0 < a → g = []) :
    grun B A M ⟨mc, mr, g, a⟩ (r.map (fun x => (false, x)) ++ rest)
      = r.take a ++ grun B A M ⟨mc, mr, lastN B (g ++ r.drop a), a - min a r.length⟩ rest := by
  induction r generalizing g a with
  | nil =>
    have : lastN B g = g := by
      simp only [lastN]; have : g.length - B = 0 := by omega
      simp [this]
    simp [this]
  | cons x r ih =>
    simp only [List.map_cons, List.cons_append, grun, gstep, Bool.not_false, if_true]
    cases a with
    | succ k =>
      have hA' : A > 0 := by
        rcases Nat.eq_zero_or_pos A with h | h
        · have := hA h; omega
        · exact h
      have hring := hr (by omega)
      simp only [hA', Nat.succ_pos, and_self, if_true, Nat.add_sub_cancel]
      rw [ih g k (fun h => by omega) hg (fun _ => hring)]
      have : k + 1 - min (k + 1) (r.length + 1) = k - min k r.length := by omega
      simp [this]
    | zero =>
      have hno : ¬ (A > 0 ∧ 0 > 0) := by omega
      simp only [hno, if_false]
      by_cases hB : B > 0
      · simp only [hB, if_true]
        rw [ih _ 0 (fun _ => rfl) (pushRing_length B g x hB hg) (fun h => by omega)]
        simp only [List.take_zero, List.nil_append, List.drop_zero, Nat.zero_sub]
        rw [lastN_pushRing B g r x hB hg]
      · have hB0 : B = 0 := by omega
        simp only [hB, if_false]
        rw [ih g 0 (fun _ => rfl) hg (fun h => by omega)]
        simp [hB0, lastN_zero]

/-- How the automaton's max-count state corresponds to the specification's budget. -/
def Budget (A M : Nat) (mc : Nat) (mr : Bool) : Option Nat → Prop
  | none => M = 0 ∧ mr = false
  | some 0 => M > 0 ∧ mr = true ∧ A > 0
  | some (m + 1) => M > 0 ∧ mr = false ∧ mc = m + 1

theorem specGo_zero_budget (B A : Nat) (bs : List (List α × α)) (t : List α) :
    specGo B A 0 (some 0) bs t = [] := by
  cases bs with
  | nil => simp [specGo]
  | cons b bs => obtain ⟨r, s⟩ := b; simp [specGo]

theorem lastN_eq_nil_of_zero (l : List α) : lastN 0 l = [] := lastN_zero l

theorem grun_blocks (B A M : Nat) (bs : List (List α × α)) (t : List α)
    (mc : Nat) (mr : Bool) (a : Nat) (m : Option Nat)
    (hA : A = 0 → a = 0) (hb : Budget A M mc mr m) :
    grun B A M ⟨mc, mr, [], a⟩ (unblocks bs t) = specGo B A a m bs t := by
  induction bs generalizing mc mr a m with
  | nil =>
    have h := grun_gap B A M t [] mc mr [] a hA (by simp) (fun _ => rfl)
    simp only [List.append_nil] at h
    simp only [unblocks, List.flatMap_nil, List.nil_append, h, grun, List.append_nil]
    cases m with
    | none => simp [specGo]
    | some k => cases k <;> simp [specGo]
  | cons b bs ih =>
    obtain ⟨r, s⟩ := b
    have hun : unblocks ((r, s) :: bs) t
        = r.map (fun x => (false, x)) ++ ((true, s) :: unblocks bs t) := by
      simp [unblocks]
    rw [hun, grun_gap B A M r _ mc mr [] a hA (by simp) (fun _ => rfl)]
    simp only [List.nil_append]
    -- the selected line of the block
    have hring : ∀ g : List α, (if B > 0 then g else []) = (if B > 0 then g else ([] : List α)) := fun _ => rfl
    have hafter : (if A > 0 then A else a - min a r.length) = A := by
      by_cases h : A > 0
      · simp [h]
      · have h0 : A = 0 := by omega
        have := hA h0
        simp [h0, this]
    have hpre : (if B > 0 then lastN B (r.drop a) else []) = lastN B (r.drop a) := by
      by_cases h : B > 0
      · simp [h]
      · have h0 : B = 0 := by omega
        simp [h0, lastN_zero]
    have hring' : (if B > 0 then [] else lastN B (r.drop a)) = ([] : List α) := by
      by_cases h : B > 0
      · simp [h]
      · have h0 : B = 0 := by omega
        simp [h0, lastN_zero]
    match m, hb with
    | some 0, hb =>
      obtain ⟨_, hmr, hApos⟩ := hb
      simp [grun, gstep, hmr, hApos, specGo]
    | none, hb =>
      obtain ⟨hM, hmr⟩ := hb
      subst hM
      simp only [grun, gstep, Bool.not_true, hmr, hafter, hpre, hring']
      simp only [Bool.false_eq_true, and_false, if_false, Nat.lt_irrefl]
      rw [ih mc false A none (fun h => h) ⟨rfl, rfl⟩]
      simp [specGo, gapOut]
    | some (k + 1), hb =>
      obtain ⟨hM, hmr, hmc⟩ := hb
      simp only [grun, gstep, Bool.not_true, hmr, hM, hafter, hpre, hring', hmc]
      simp only [Bool.false_eq_true, and_false, if_false, if_true, Nat.add_sub_cancel]
      cases k with
      | zero =>
        simp only [if_true]
        by_cases hA0 : A = 0
        · simp only [hA0, true_or, if_true]
          simp [specGo, gapOut, specGo_zero_budget]
        · have hApos : A > 0 := by omega
          have hno : ¬ (A = 0 ∨ A = 0) := by omega
          simp only [hno, if_false]
          rw [ih 0 true A (some 0) (fun h => h) ⟨hM, rfl, hApos⟩]
          simp [specGo, gapOut]
      | succ k' =>
        have : ¬ (k' + 1 = 0) := by omega
        simp only [this, if_false]
        rw [ih (k' + 1) false A (some (k' + 1)) (fun h => h) ⟨hM, rfl, rfl⟩]
        simp [specGo, gapOut]

/-- The automaton equals the block specification on every line sequence. -/
theorem grun_eq_spec (B A M : Nat) (ls : List (Bool × α)) :
    grun B A M (ginit M) ls = grepSpec B A M (blocks ls).1 (blocks ls).2 := by
  conv => lhs; rw [← unblocks_blocks ls]
  unfold ginit grepSpec
  apply grun_blocks
  · intro _; rfl
  · by_cases h : M = 0
    · simp [h, Budget]
    · obtain ⟨k, hk⟩ : ∃ k, M = k + 1 := ⟨M - 1, by omega⟩
      simp [hk, Budget]

theorem numberEnding_snd (n : Nat) (e : List α) : (numberEnding n e).map (·.2) = e := by
  simp only [numberEnding, List.map_map]
  have : ((fun p : Nat × α => p.2) ∘ fun p : α × Nat => (p.2, p.1)) = fun p => p.1 := by
    funext p; rfl
  rw [this]
  exact map_zipIdx_fst' e _
where
  map_zipIdx_fst' (l : List α) (k : Nat) : (l.zipIdx k).map (fun p => p.1) = l := by
    induction l generalizing k with
    | nil => rfl
    | cons a l ih => simp [List.zipIdx_cons, ih]

theorem grunN_snd (B A M : Nat) (s : GState α) (n : Nat) (ls : List (Bool × α)) :
    (grunN B A M s n ls).map (·.2) = grun B A M s ls := by
  induction ls generalizing s n with
  | nil => rfl
  | cons p rest ih =>
    obtain ⟨sel, x⟩ := p
    simp only [grunN, grun]
    cases h : gstep B A M s sel x with
    | mk e o =>
      cases o with
      | none => simp [numberEnding_snd]
      | some s' => simp [numberEnding_snd, ih]

theorem plainN_snd (ls : List (Bool × α)) (k : Nat) :
    (((ls.zipIdx k).filter (·.1.1)).map (fun p => (p.2, p.1.2))).map (·.2) = gplain ls := by
  induction ls generalizing k with
  | nil => rfl
  | cons p rest ih =>
    obtain ⟨sel, x⟩ := p
    have := ih (k + 1)
    cases sel <;> simp_all [gplain, List.zipIdx_cons, List.filter_cons]

end Dtail
