import DtailModel.Model.Command
namespace Dtail

theorem splitOnByte_ne_nil (sep : UInt8) (s : Bytes) : splitOnByte sep s ≠ [] := by
  induction s with
  | nil => simp [splitOnByte]
  | cons b bs ih =>
    simp only [splitOnByte]
    split
    · simp
    · split <;> simp

theorem splitOnByte_nosep (sep : UInt8) (a : Bytes) (h : sep ∉ a) : splitOnByte sep a = [a] := by
  induction a with
  | nil => rfl
  | cons b bs ih =>
    simp only [List.mem_cons, not_or] at h
    have hb : ¬ b = sep := fun e => h.1 e.symm
    simp [splitOnByte, hb, ih h.2]

theorem splitOnByte_append_sep (sep : UInt8) (a b : Bytes) (h : sep ∉ a) :
    splitOnByte sep (a ++ sep :: b) = a :: splitOnByte sep b := by
  induction a with
  | nil => simp [splitOnByte]
  | cons x xs ih =>
    simp only [List.mem_cons, not_or] at h
    have hx : ¬ x = sep := fun e => h.1 e.symm
    simp [splitOnByte, hx, ih h.2]

theorem joinByte_cons (sep : UInt8) (x : Bytes) (l : List Bytes) (h : l ≠ []) :
    joinByte sep (x :: l) = x ++ sep :: joinByte sep l := by
  cases l with
  | nil => exact absurd rfl h
  | cons y r => rfl

/-- `strings.Join(strings.Split(s, sep), sep) = s` -/
theorem joinByte_splitOnByte (sep : UInt8) (s : Bytes) : joinByte sep (splitOnByte sep s) = s := by
  induction s with
  | nil => rfl
  | cons b bs ih =>
    simp only [splitOnByte]
    split
    · rename_i hb
      rw [joinByte_cons _ _ _ (splitOnByte_ne_nil sep bs), ih]; simp [hb]
    · cases hs : splitOnByte sep bs with
      | nil => exact absurd hs (splitOnByte_ne_nil sep bs)
      | cons h t =>
        rw [hs] at ih
        simp only
        cases t with
        | nil => simp only [joinByte] at ih ⊢; rw [ih]
        | cons y r =>
          simp only [joinByte] at ih ⊢
          rw [← ih]; simp

theorem splitFirst_append_sep (sep : UInt8) (a b : Bytes) (h : sep ∉ a) :
    splitFirst sep (a ++ sep :: b) = some (a, b) := by
  induction a with
  | nil => simp [splitFirst]
  | cons x xs ih =>
    simp only [List.mem_cons, not_or] at h
    have hx : ¬ x = sep := fun e => h.1 e.symm
    simp [splitFirst, hx, ih h.2]

theorem splitFirst_nosep (sep : UInt8) (a : Bytes) (h : sep ∉ a) : splitFirst sep a = none := by
  induction a with
  | nil => rfl
  | cons x xs ih =>
    simp only [List.mem_cons, not_or] at h
    have hx : ¬ x = sep := fun e => h.1 e.symm
    simp [splitFirst, hx, ih h.2]

theorem splitN2_append_sep (sep : UInt8) (a b : Bytes) (h : sep ∉ a) :
    splitN2 sep (a ++ sep :: b) = [a, b] := by
  simp [splitN2, splitN, splitFirst_append_sep sep a b h]

theorem splitN2_nosep (sep : UInt8) (a : Bytes) (h : sep ∉ a) : splitN2 sep a = [a] := by
  simp [splitN2, splitN, splitFirst_nosep sep a h]

end Dtail

namespace Dtail

theorem splitOnByte_joinByte (sep : UInt8) (l : List Bytes) (hne : l ≠ [])
    (h : ∀ x ∈ l, sep ∉ x) : splitOnByte sep (joinByte sep l) = l := by
  induction l with
  | nil => exact absurd rfl hne
  | cons x rest ih =>
    cases rest with
    | nil => simp only [joinByte]; exact splitOnByte_nosep sep x (h x (by simp))
    | cons y r =>
      simp only [joinByte]
      rw [splitOnByte_append_sep sep x _ (h x (by simp))]
      rw [ih (by simp) (fun z hz => h z (List.mem_cons_of_mem _ hz))]

theorem not_mem_append {x : UInt8} {a b : Bytes} (ha : x ∉ a) (hb : x ∉ b) : x ∉ a ++ b := by
  intro h; rcases List.mem_append.1 h with h | h
  · exact ha h
  · exact hb h

theorem not_mem_joinByte (x sep : UInt8) (l : List Bytes) (hx : x ≠ sep) (h : ∀ y ∈ l, x ∉ y) :
    x ∉ joinByte sep l := by
  induction l with
  | nil => simp [joinByte]
  | cons a rest ih =>
    cases rest with
    | nil => simpa [joinByte] using h a (by simp)
    | cons b r =>
      simp only [joinByte]
      apply not_mem_append (h a (by simp))
      intro hm
      rcases List.mem_cons.1 hm with e | hm
      · exact hx e
      · exact ih (fun y hy => h y (List.mem_cons_of_mem _ hy)) hm

end Dtail
